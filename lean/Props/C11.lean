/-
  C11 — vertical structure is hydrostatic, ordered and one value per layer.
  Theorems about `TaurexModel/Structure.lean` (the definitions `driver_c11` executes on Float), over ℝ.
  `scaleProps kb G M R T pl mu` mirrors `Planet.calculate_scale_properties`; `logLevels`/`layerPressures` mirror
  `SimplePressureProfile.compute_pressure_profile`; `views` mirrors the profile bookkeeping of `SimpleForwardModel`.
-/
import Proofs.C11

namespace Taurex.C11
open Taurex Taurex.Structure

/-- On the log-spaced grid (`pmin < pmax`, at least one layer) the `n+1` pressure levels decrease strictly from
    the surface (`pmax`) to the top (`pmin`). -/
theorem levels_strict_anti {n : ℕ} (hn : 1 ≤ n) {pmin pmax : ℝ} (h0 : 0 < pmin) (h : pmin < pmax) :
    (logLevels n pmin pmax).Pairwise (· > ·) ∧ (logLevels n pmin pmax).length = n + 1 ∧
      (logLevels n pmin pmax).head? = some pmax ∧ (logLevels n pmin pmax).getLast? = some pmin :=
  ⟨logLevels_pairwise hn h0 h, logLevels_length n pmin pmax, logLevels_head pmin (lt_trans h0 h),
    logLevels_last hn pmax h0⟩

example : (logLevels 3 (100 : ℝ) 100000).Pairwise (· > ·) :=
  (levels_strict_anti (n := 3) (by norm_num) (by norm_num) (by norm_num)).1

/-- Each layer pressure is the geometric mean of its two levels and lies strictly between them, for any strictly
    decreasing positive levels (in particular the log-spaced ones). -/
theorem layer_geomean {lv : List ℝ} (hpos : ∀ p ∈ lv, 0 < p) (hdec : lv.Pairwise (· > ·)) {l : ℕ}
    (hl : l + 1 < lv.length) :
    ∃ p lo up, (layerPressures lv)[l]? = some p ∧ lv[l]? = some lo ∧ lv[l + 1]? = some up ∧
      p * p = lo * up ∧ up < p ∧ p < lo := by
  have hl0 : l < lv.length := by omega
  have hup : 0 < lv[l + 1] := hpos _ (List.getElem_mem hl)
  have hlt : lv[l + 1] < lv[l] := by
    have := List.pairwise_iff_getElem.1 hdec l (l + 1) hl0 hl (by omega)
    exact this
  obtain ⟨h1, h2, h3⟩ := geomean_between hup hlt
  refine ⟨_, lv[l], lv[l + 1], ?_, List.getElem?_eq_getElem hl0, List.getElem?_eq_getElem hl, h1, h2, h3⟩
  rw [layerPressures_getElem?, List.getElem?_eq_getElem hl0, List.getElem?_eq_getElem hl]
  rfl

example : ∃ p lo up, (layerPressures (logLevels 3 (100 : ℝ) 100000))[1]? = some p ∧
    (logLevels 3 (100 : ℝ) 100000)[1]? = some lo ∧ (logLevels 3 (100 : ℝ) 100000)[2]? = some up ∧
    p * p = lo * up ∧ up < p ∧ p < lo :=
  layer_geomean (logLevels_pos _ _ _)
    (levels_strict_anti (n := 3) (by norm_num) (by norm_num) (by norm_num)).1
    (by rw [logLevels_length]; norm_num)

/-- The number of layer pressures is the number of levels minus one. -/
theorem layers_length (n : ℕ) (pmin pmax : ℝ) : (layerPressures (logLevels n pmin pmax)).length = n := by
  rw [layerPressures_length, logLevels_length]; rfl

/-- Altitude starts at zero at the surface, for every input. -/
theorem z0_zero (kb G M R : ℝ) (T pl mu : List ℝ) : (scaleProps kb G M R T pl mu).z.head? = some 0 := by
  rw [scaleProps_z]
  unfold zsOf
  match T, mu, pl with
  | [], _, _ => simp [scaleLoop]
  | _ :: _, [], _ => simp [scaleLoop]
  | _ :: _, _ :: _, [] => simp [scaleLoop]
  | _ :: _, _ :: _, [_] => simp [scaleLoop]
  | t :: ts, m :: ms, p0 :: p1 :: ps => rw [scaleLoop_cons]; simp

example : (scaleProps 1 1 1 1 [1000, 900, 800] [100000, 10000, 1000, 100] [2, 2, 2] : ScaleProps ℝ).z.head?
    = some 0 := z0_zero ..

/-- Hydrostatic step: in every layer `dz = H ln(P_lower/P_upper)`, `H = k T/(mu g)`, `g = G M/(R+z)²` with `z`
    the altitude of the layer's lower boundary, and the next boundary is `z + dz`.  (Positive levels are needed
    only to turn the code's `-ln(P_upper/P_lower)` into `ln(P_lower/P_upper)`.) -/
theorem dz_formula (kb G M R : ℝ) {T pl mu : List ℝ} (hmu : mu.length = T.length)
    (hpl : pl.length = T.length + 1) (hpos : ∀ p ∈ pl, 0 < p) {l : ℕ} (hl : l < T.length) :
    let s := scaleProps kb G M R T pl mu
    s.dz.getD l 0 = s.H.getD l 0 * Real.log (pl.getD l 0 / pl.getD (l + 1) 0) ∧
    s.H.getD l 0 = kb * T.getD l 0 / (mu.getD l 0 * s.g.getD l 0) ∧
    s.g.getD l 0 = G * M / ((R + s.z.getD l 0) * (R + s.z.getD l 0)) ∧
    s.z.getD (l + 1) 0 = s.z.getD l 0 + s.dz.getD l 0 := by
  intro s
  obtain ⟨L, hL, h1, h2, h3⟩ := scaleLoop_get kb (G * M) R l T mu pl 0 (surfaceGravity (G * M) R) hl hmu hpl
    (gravityAt_zero _ _).symm
  obtain ⟨L', hL', h4, h5⟩ := scaleLoop_cumulative kb (G * M) R l T mu pl 0 (surfaceGravity (G * M) R) hl hmu hpl
  have hLL : L' = L := by rw [hL] at hL'; exact (Option.some.inj hL').symm
  subst hLL
  have hH : s.H.getD l 0 = L'.H := by
    simp [s, scaleProps, List.getD_eq_getElem?_getD, hL]
  have hg : s.g.getD l 0 = L'.g := by
    simp [s, scaleProps, List.getD_eq_getElem?_getD, hL]
  have hdz : s.dz.getD l 0 = L'.dz := by
    simp [s, scaleProps, List.getD_eq_getElem?_getD, hL]
  have hz : s.z.getD l 0 = L'.z := h4
  have hz1 : s.z.getD (l + 1) 0 = L'.z + L'.dz := h5
  have hl1 : l + 1 < pl.length := by omega
  have hl0 : l < pl.length := by omega
  have hp0 : 0 < pl.getD l 0 := by
    rw [List.getD_eq_getElem?_getD, List.getElem?_eq_getElem hl0]; exact hpos _ (List.getElem_mem hl0)
  have hp1 : 0 < pl.getD (l + 1) 0 := by
    rw [List.getD_eq_getElem?_getD, List.getElem?_eq_getElem hl1]; exact hpos _ (List.getElem_mem hl1)
  refine ⟨?_, ?_, ?_, ?_⟩
  · rw [hdz, hH, h1, Real.log_div hp1.ne' hp0.ne', Real.log_div hp0.ne' hp1.ne']; ring
  · rw [hH, hg, h2]
  · rw [hg, hz, h3]; rfl
  · rw [hz1, hz, hdz]

example : let s : ScaleProps ℝ := scaleProps 1 1 1 1 [1000, 900, 800] [100000, 10000, 1000, 100] [2, 2, 2]
    s.dz.getD 2 0 = s.H.getD 2 0 * Real.log ((1000 : ℝ) / 100) := by
  have h := (dz_formula 1 1 1 1 (T := [1000, 900, 800]) (pl := [100000, 10000, 1000, 100]) (mu := [2, 2, 2])
    rfl rfl (by intro p hp; simp at hp; rcases hp with rfl | rfl | rfl | rfl <;> norm_num) (l := 2)
    (by simp)).1
  simpa using h

/-- For any strictly decreasing positive levels and positive `k, G M, R, T, mu`: every thickness, scale height
    and gravity is positive (induction over the layers). -/
theorem dz_pos {kb G M R : ℝ} (hkb : 0 < kb) (hG : 0 < G) (hM : 0 < M) (hR : 0 < R) {T pl mu : List ℝ}
    (hT : ∀ t ∈ T, 0 < t) (hmu : ∀ m ∈ mu, 0 < m) (hpos : ∀ p ∈ pl, 0 < p) (hdec : pl.Pairwise (· > ·)) :
    let s := scaleProps kb G M R T pl mu
    (∀ d ∈ s.dz, 0 < d) ∧ (∀ h ∈ s.H, 0 < h) ∧ (∀ g ∈ s.g, 0 < g) := by
  intro s
  have hgm : 0 < G * M := mul_pos hG hM
  obtain ⟨hL, _, _⟩ := scaleLoop_pos hkb hgm hR T mu pl 0 _ (le_refl 0) (surfaceGravity_pos hgm hR) hT hmu hpos hdec
  refine ⟨?_, ?_, ?_⟩
  · intro d hd
    obtain ⟨L, hLm, rfl⟩ := List.mem_map.1 hd
    exact (hL L hLm).1
  · intro h hh
    obtain ⟨L, hLm, rfl⟩ := List.mem_map.1 hh
    exact (hL L hLm).2.1
  · intro g hg
    obtain ⟨L, hLm, rfl⟩ := List.mem_map.1 hg
    exact (hL L hLm).2.2.1

/-- … and the boundary altitudes increase strictly (so altitude is non-negative and ordered like the levels). -/
theorem z_strict_mono {kb G M R : ℝ} (hkb : 0 < kb) (hG : 0 < G) (hM : 0 < M) (hR : 0 < R) {T pl mu : List ℝ}
    (hT : ∀ t ∈ T, 0 < t) (hmu : ∀ m ∈ mu, 0 < m) (hpos : ∀ p ∈ pl, 0 < p) (hdec : pl.Pairwise (· > ·)) :
    (scaleProps kb G M R T pl mu).z.Pairwise (· < ·) ∧ ∀ x ∈ (scaleProps kb G M R T pl mu).z, 0 ≤ x := by
  have hgm : 0 < G * M := mul_pos hG hM
  obtain ⟨_, hP, hB⟩ := scaleLoop_pos hkb hgm hR T mu pl 0 _ (le_refl 0) (surfaceGravity_pos hgm hR) hT hmu hpos hdec
  exact ⟨hP, hB⟩

/-- non-vacuity: a 3-layer Jupiter (SI units) on the log-spaced grid 1e5 … 1e2 Pa -/
example : let s : ScaleProps ℝ := (scaleProps 1.380649e-23 6.6743e-11 1.898e27 7.1492e7 [1000, 900, 800]
      (logLevels 3 100 100000) [3.8e-27, 3.7e-27, 3.6e-27])
    (∀ d ∈ s.dz, 0 < d) ∧ s.z.Pairwise (· < ·) := by
  have hdec := (levels_strict_anti (n := 3) (pmin := 100) (pmax := 100000) (by norm_num) (by norm_num)
    (by norm_num)).1
  have hT : ∀ t ∈ ([1000, 900, 800] : List ℝ), 0 < t := by
    intro t ht; simp at ht; rcases ht with rfl | rfl | rfl <;> norm_num
  have hmu : ∀ m ∈ ([3.8e-27, 3.7e-27, 3.6e-27] : List ℝ), 0 < m := by
    intro t ht; simp at ht; rcases ht with rfl | rfl | rfl <;> norm_num
  exact ⟨(dz_pos (by norm_num) (by norm_num) (by norm_num) (by norm_num) hT hmu (logLevels_pos _ _ _) hdec).1,
    (z_strict_mono (by norm_num) (by norm_num) (by norm_num) (by norm_num) hT hmu (logLevels_pos _ _ _) hdec).1⟩

/-- One value per layer: with `n` temperatures, `n` molecular weights and `n+1` levels, `z` has `n+1` entries,
    `H`, `g`, `dz` and the density have `n`, and every per-layer view the forward model stores (altitude,
    scale height, gravity, thickness) has exactly `n`. -/
theorem lengths (kb G M R : ℝ) {T pl mu P : List ℝ} {n : ℕ} (hT : T.length = n) (hmu : mu.length = n)
    (hpl : pl.length = n + 1) (hP : P.length = n) :
    let s := scaleProps kb G M R T pl mu
    let v := views s
    s.z.length = n + 1 ∧ s.H.length = n ∧ s.g.length = n ∧ s.dz.length = n ∧
    v.altitudeProfile.length = n ∧ v.scaleheightProfile.length = n ∧ v.gravityProfile.length = n ∧
    v.deltaz.length = n ∧ v.altitudeBoundaries.length = n + 1 ∧ (density kb P T).length = n := by
  intro s v
  have hlen := scaleLoop_length kb (G * M) R T mu pl 0 (surfaceGravity (G * M) R) (by omega) (by omega)
  have hz : s.z.length = n + 1 := by simp [s, scaleProps, hlen, hT]
  have hH : s.H.length = n := by simp [s, scaleProps, hlen, hT]
  have hg : s.g.length = n := by simp [s, scaleProps, hlen, hT]
  have hdz : s.dz.length = n := by simp [s, scaleProps, hlen, hT]
  refine ⟨hz, hH, hg, hdz, ?_, hH, hg, hdz, hz, ?_⟩
  · show s.z.dropLast.length = n
    simp [hz]
  · simp [density, List.length_zipWith, hP, hT]

example : let s : ScaleProps ℝ := scaleProps 1 1 1 1 [1000, 900] [100000, 1000, 10] [2, 2]
    (views s).gravityProfile.length = 2 ∧ (views s).scaleheightProfile.length = 2 :=
  let h := lengths 1 1 1 1 (T := [1000, 900]) (pl := [100000, 1000, 10]) (mu := [2, 2]) (P := [1, 1]) (n := 2)
    rfl rfl rfl rfl
  ⟨h.2.2.2.2.2.2.1, h.2.2.2.2.2.1⟩

/-- Number density is `P/(kT)` layer by layer. -/
theorem density_formula (kb : ℝ) (P T : List ℝ) (l : ℕ) :
    (density kb P T)[l]? = (P[l]?).bind (fun p => (T[l]?).map (fun t => p / (kb * t))) := by
  unfold density
  rw [List.getElem?_zipWith]
  cases P[l]? <;> cases T[l]? <;> rfl

example : (density (2 : ℝ) [10, 20] [5, 4])[1]? = some (20 / (2 * 4)) := by
  rw [density_formula]; rfl

/-- **The stored-profile dictionary** (`generate_profiles()`): its keys are exactly the documented ones, in insertion
    order (the condensate table only when the chemistry has condensates); EVERY entry has one value per layer (1-D entries
    `n` values, every row of a gas-mix table `n` values — the tables are the rows `mixProfile[mask]`, C10); and the
    structure entries are the per-layer views the forward model stores, the density entry `P/(kT)`. -/
theorem profile_dict (kb G M R : ℝ) {T pl mu P : List ℝ} {n : ℕ} (hT : T.length = n) (hmu : mu.length = n)
    (hpl : pl.length = n + 1) (hP : P.length = n) (act inact cond : Option (List (List ℝ)))
    (hact : ∀ rows, act = some rows → ∀ r ∈ rows, r.length = n)
    (hinact : ∀ rows, inact = some rows → ∀ r ∈ rows, r.length = n)
    (hcond : ∀ rows, cond = some rows → ∀ r ∈ rows, r.length = n) :
    let v := views (scaleProps kb G M R T pl mu)
    let d := profileDict v T P (density kb P T) mu act inact cond
    d.map (·.1) = ["temp_profile", "active_mix_profile", "inactive_mix_profile", "density_profile",
        "scaleheight_profile", "altitude_profile", "gravity_profile", "pressure_profile"]
        ++ (if cond.isSome then ["condensate_profile"] else []) ++ ["mu_profile"] ∧
    (∀ e ∈ d, e.2.PerLayer n) ∧
    d.lookup "altitude_profile" = some (.arr v.altitudeProfile) ∧
    d.lookup "scaleheight_profile" = some (.arr v.scaleheightProfile) ∧
    d.lookup "gravity_profile" = some (.arr v.gravityProfile) ∧
    d.lookup "density_profile" = some (.arr (density kb P T)) ∧
    d.lookup "pressure_profile" = some (.arr P) ∧ d.lookup "temp_profile" = some (.arr T) ∧
    d.lookup "mu_profile" = some (.arr mu) := by
  intro v d
  obtain ⟨_, _, _, _, halt, hH, hg, _, _, hdens⟩ := lengths kb G M R hT hmu hpl hP
  have ha : (ProfVal.ofTable act).PerLayer n := by
    cases act with
    | none => trivial
    | some rows => exact hact rows rfl
  have hi : (ProfVal.ofTable inact).PerLayer n := by
    cases inact with
    | none => trivial
    | some rows => exact hinact rows rfl
  refine ⟨?_, ?_, ?_⟩
  · cases cond <;> rfl
  · intro e he
    cases cond with
    | none =>
      simp only [d, profileDict, List.append_nil, List.cons_append, List.nil_append, List.mem_cons,
        List.not_mem_nil, or_false] at he
      rcases he with rfl | rfl | rfl | rfl | rfl | rfl | rfl | rfl | rfl <;>
        first | exact hT | exact ha | exact hi | exact hdens | exact hH | exact halt | exact hg | exact hP | exact hmu
    | some c =>
      simp only [d, profileDict, List.cons_append, List.nil_append, List.mem_cons,
        List.not_mem_nil, or_false] at he
      rcases he with rfl | rfl | rfl | rfl | rfl | rfl | rfl | rfl | rfl | rfl <;>
        (first | exact hT | exact ha | exact hi | exact hdens | exact hH | exact halt | exact hg | exact hP
               | exact hcond c rfl | exact hmu)
  · cases cond <;> simp [d, profileDict, List.lookup]

example : let v := views (scaleProps (1 : ℝ) 1 1 1 [1000, 900] [100000, 1000, 10] [2, 2])
    ((profileDict v [1000, 900] [5000, 50] (density 1 [5000, 50] [1000, 900]) [2, 2] (some [[1, 1]]) none none).map
      (·.1)).length = 9 := by
  intro v; rfl

/-- **length units**: `conversion_factor(a, b)` between metre multiples is the ratio size(a)/size(b) of the unit sizes —
    a length of `x` units `a` is `x·f` units `b` with `f · size(b) = size(a)` (metres to kilometres: 1/1000, never 1000) —
    and converting back is the reciprocal.  With `dz_formula` (all four results of `calculate_scale_properties` carry the one
    factor `conversion_factor('m', length_units)`) the scale height in the requested unit is `kT/(μ g)` expressed in it. -/
theorem length_factor (a b : String) (f : ℝ) (h : lengthFactor a b = some f) :
    ∃ sa sb : ℝ, metresPer a = some sa ∧ metresPer b = some sb ∧ 0 < sa ∧ 0 < sb ∧ f * sb = sa ∧
      lengthFactor b a = some (1 / f) := by
  unfold lengthFactor at h
  cases ha : (metresPer a : Option ℝ) with
  | none => simp [ha] at h
  | some sa =>
    cases hb : (metresPer b : Option ℝ) with
    | none => simp [ha, hb] at h
    | some sb =>
      simp only [ha, hb, Option.some.injEq] at h
      have hsa := metresPer_pos a sa ha
      have hsb := metresPer_pos b sb hb
      refine ⟨sa, sb, rfl, rfl, hsa, hsb, ?_, ?_⟩
      · rw [← h]; field_simp
      · unfold lengthFactor
        simp only [ha, hb]
        rw [← h]; congr 1; field_simp

example : lengthFactor (α := ℝ) "m" "km" = some (1 / (10 * 10 * 10)) := by
  simp [lengthFactor, metresPer]

end Taurex.C11
