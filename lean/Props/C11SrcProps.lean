/-
  C11 — the property theorems restated about the REGENERATED source.  `Props/C11Src.lean` proves that the definitions
  translated on every run from `BasePlanet.calculate_scale_properties` (with `gravity`, `gravity_at_height`),
  `SimplePressureProfile.compute_pressure_profile`, `SimpleForwardModel._compute_altitude_gravity_scaleheight_profile` and
  `SimpleForwardModel.densityProfile` compute, entry by entry, the model's `scaleProps`, `logLevels`/`layerPressures`,
  `views`, `density`; `Props/C11.lean` proves the property about those.  The corollaries below compose the two: statements
  about the text of the code as it is now, over ℝ.

  Source expressions (instantiated exactly as the tie theorems instantiate them).  The code's arrays are functions `Nat → ℝ`;
  `cut n f` lists their entries `0 … n-1` (the index range on which the ties speak):
  * `srcScale kb G M R T pl mu` — the 4-tuple `(z, H, g, deltaz)` returned by the regenerated `calculate_scale_properties`
    on arrays read off the lists `T`, `pl`, `mu`, with `nlayers = len(T)`; `srcZ/srcH/srcG/srcDz` its components cut to
    `n+1`, `n`, `n`, `n` entries;
  * `srcLevels n pmin pmax`, `srcLayers n pmin pmax` — `pressure_profile_levels` / `pressure_profile` of the regenerated
    `SimplePressureProfile.compute_pressure_profile`, `np.logspace = 10**linspace`, `nLevels = n + 1`;
  * `srcViews mo cm kb G M R T pl` — the five arrays stored by the regenerated
    `_compute_altitude_gravity_scaleheight_profile` (`mo` = the `mu_profile` argument, `cm` = the chemistry's);
  * `Gen.SrcC11.densityProfile kb P T l` — the regenerated `densityProfile`.
  The unit factor `conversion_factor('m', length_units)` that the code multiplies into every returned array (a parameter
  `unit` of the ties) is instantiated with `1`, the value harness/c11.py checks on every run: the physical formulas
  (`H = kT/(mu g)` …) relate the returned arrays only in that unit.
  Hypotheses of the ties that stay visible: array lengths `len(mu) = len(T)`, `len(Pl) = len(T) + 1`; `hmo` (which
  molecular-weight profile the code takes).

  Restated since the gaps were closed:
  * `layer_geomean` for ARBITRARY decreasing levels: `src_layer_geomean_levels` — the regenerated
    `SimplePressureProfile.compute_pressure_profile` with the external `np.logspace` left arbitrary (tie
    `src_layers_of_levels`: the stored layers are `layerPressures` of the stored levels whatever these are); on the
    log-spaced grid: `src_layer_geomean`.  `ArrayPressureProfile` goes the other way (levels derived from the given layer
    pressures by `np.gradient`): there the geometric-mean relation holds on LOG-REGULAR grids only
    (`src_array_layer_geomean`, about the regenerated `array_pressure_levels`), not for arbitrary layer pressures;
  * `profile_dict` (the dictionary `generate_profiles()` builds, one value per layer in every entry): `src_profile_dict`.

  Not restated (no source counterpart):
  * `lengths`: source-side arrays are functions without a length; the ties are entry by entry on the valid index range
    (what the length statement becomes on the source side — each stored view is the corresponding returned array on that
    range, `altitude_profile = z[:-1]` — is `src_views_aligned`; for the stored dictionary: `src_profile_dict`).
-/
import Props.C11
import Props.C11Src
set_option linter.unusedSectionVars false

namespace Taurex.C11SrcProps
open Taurex Taurex.Structure Taurex.C11

/-! ### the instantiated source expressions -/

/-- entries `0 … n-1` of a source-side array -/
noncomputable def cut (n : Nat) (f : Nat → ℝ) : List ℝ := (List.range n).map f

theorem cut_eq (n : Nat) (f : Nat → ℝ) (l : List ℝ) (hl : l.length = n) (h : ∀ i, i < n → f i = l.getD i 0) :
    cut n f = l := by
  apply List.ext_getElem
  · simp [cut, hl]
  · intro i h1 h2
    have hi : i < n := by simpa [cut] using h1
    simp only [cut, List.getElem_map, List.getElem_range]
    rw [h i hi, List.getD_eq_getElem?_getD, List.getElem?_eq_getElem h2]
    rfl

/-- `(z, H, g, deltaz)` as the regenerated `calculate_scale_properties(T, Pl, mu)` returns them (unit factor 1) -/
noncomputable def srcScale (kb G M R : ℝ) (T pl mu : List ℝ) : (Nat → ℝ) × (Nat → ℝ) × (Nat → ℝ) × (Nat → ℝ) :=
  Gen.SrcC11.calculate_scale_properties (fun i => T.getD i 0) (fun i => pl.getD i 0) (fun i => mu.getD i 0) T.length
    (G := G) (KBOLTZ := kb) (fullMass := M) (fullRadius := R) (unit := 1)

noncomputable def srcZ (kb G M R : ℝ) (T pl mu : List ℝ) : List ℝ := cut (T.length + 1) (srcScale kb G M R T pl mu).1
noncomputable def srcH (kb G M R : ℝ) (T pl mu : List ℝ) : List ℝ := cut T.length (srcScale kb G M R T pl mu).2.1
noncomputable def srcG (kb G M R : ℝ) (T pl mu : List ℝ) : List ℝ := cut T.length (srcScale kb G M R T pl mu).2.2.1
noncomputable def srcDz (kb G M R : ℝ) (T pl mu : List ℝ) : List ℝ := cut T.length (srcScale kb G M R T pl mu).2.2.2

/-- `(pressure_profile_levels, pressure_profile)` of the regenerated `SimplePressureProfile.compute_pressure_profile` -/
noncomputable def srcPressure (n : Nat) (pmin pmax : ℝ) : (Nat → ℝ) × (Nat → ℝ) :=
  Gen.SrcC11.compute_pressure_profile
    (logspace := fun a b m i => ((linspace (m - 1) a b).map pow10).getD i 0) (nLevels := n + 1)
    (pmax := pmax) (pmin := pmin)

noncomputable def srcLevels (n : Nat) (pmin pmax : ℝ) : List ℝ := cut (n + 1) (srcPressure n pmin pmax).1
noncomputable def srcLayers (n : Nat) (pmin pmax : ℝ) : List ℝ := cut n (srcPressure n pmin pmax).2

/-- `(altitude_profile, scaleheight_profile, gravity_profile, altitude_boundaries, deltaz)` as stored by the regenerated
    `_compute_altitude_gravity_scaleheight_profile(mu_profile = mo)` (unit factor 1) -/
noncomputable def srcViews (mo : Option (Nat → ℝ)) (cm : Nat → ℝ) (kb G M R : ℝ) (T pl : List ℝ) :
    (Nat → ℝ) × (Nat → ℝ) × (Nat → ℝ) × (Nat → ℝ) × (Nat → ℝ) :=
  Gen.SrcC11.compute_altitude_gravity_scaleheight_profile mo T.length (G := G) (KBOLTZ := kb)
    (chem_mu := cm) (fullMass := M) (fullRadius := R) (levels := fun i => pl.getD i 0)
    (temperatureProfile := fun i => T.getD i 0) (unit := 1)

theorem srcScale_eq (kb G M R : ℝ) (T pl mu : List ℝ) (hmu : mu.length = T.length) (hpl : pl.length = T.length + 1) :
    srcZ kb G M R T pl mu = (scaleProps kb G M R T pl mu).z ∧ srcH kb G M R T pl mu = (scaleProps kb G M R T pl mu).H ∧
    srcG kb G M R T pl mu = (scaleProps kb G M R T pl mu).g ∧
    srcDz kb G M R T pl mu = (scaleProps kb G M R T pl mu).dz := by
  obtain ⟨hz, hH, hg, hdz⟩ := C11Src.src_scale_properties kb G M R 1 T pl mu T.length rfl hmu hpl
  obtain ⟨lz, lH, lg, ldz, _⟩ := lengths kb G M R (T := T) (pl := pl) (mu := mu) (P := T) (n := T.length) rfl hmu hpl rfl
  refine ⟨cut_eq _ _ _ lz fun i hi => ?_, cut_eq _ _ _ lH fun i hi => ?_, cut_eq _ _ _ lg fun i hi => ?_,
    cut_eq _ _ _ ldz fun i hi => ?_⟩
  · rw [srcScale, hz i (by omega), mul_one]
  · rw [srcScale, hH i hi, mul_one]
  · rw [srcScale, hg i hi, mul_one]
  · rw [srcScale, hdz i hi, mul_one]

theorem srcPressure_eq (n : Nat) (pmin pmax : ℝ) :
    srcLevels n pmin pmax = logLevels n pmin pmax ∧ srcLayers n pmin pmax = layerPressures (logLevels n pmin pmax) := by
  obtain ⟨h1, h2⟩ := C11Src.src_pressure_profile n pmin pmax
  exact ⟨cut_eq _ _ _ (logLevels_length n pmin pmax) fun i hi => h1 i (by omega),
    cut_eq _ _ _ (layers_length n pmin pmax) fun i hi => h2 i hi⟩

theorem srcViews_eq (mo : Option (Nat → ℝ)) (cm : Nat → ℝ) (kb G M R : ℝ) (T pl mu : List ℝ)
    (hmu : mu.length = T.length) (hpl : pl.length = T.length + 1) (hmo : mo.getD cm = fun i => mu.getD i 0) :
    cut T.length (srcViews mo cm kb G M R T pl).1 = (views (scaleProps kb G M R T pl mu)).altitudeProfile ∧
    cut T.length (srcViews mo cm kb G M R T pl).2.1 = (views (scaleProps kb G M R T pl mu)).scaleheightProfile ∧
    cut T.length (srcViews mo cm kb G M R T pl).2.2.1 = (views (scaleProps kb G M R T pl mu)).gravityProfile ∧
    cut (T.length + 1) (srcViews mo cm kb G M R T pl).2.2.2.1
      = (views (scaleProps kb G M R T pl mu)).altitudeBoundaries ∧
    cut T.length (srcViews mo cm kb G M R T pl).2.2.2.2 = (views (scaleProps kb G M R T pl mu)).deltaz := by
  obtain ⟨h1, h2, h3, h4, h5⟩ := C11Src.src_views kb G M R 1 T pl mu mo cm T.length rfl hmu hpl hmo
  obtain ⟨_, _, _, _, l1, l2, l3, l4, l5, _⟩ :=
    lengths kb G M R (T := T) (pl := pl) (mu := mu) (P := T) (n := T.length) rfl hmu hpl rfl
  refine ⟨cut_eq _ _ _ l1 fun i hi => ?_, cut_eq _ _ _ l2 fun i hi => ?_, cut_eq _ _ _ l3 fun i hi => ?_,
    cut_eq _ _ _ l5 fun i hi => ?_, cut_eq _ _ _ l4 fun i hi => ?_⟩
  · rw [srcViews, h1 i hi, mul_one]
  · rw [srcViews, h2 i hi, mul_one]
  · rw [srcViews, h3 i hi, mul_one]
  · rw [srcViews, h4 i (by omega), mul_one]
  · rw [srcViews, h5 i hi, mul_one]

/-! ### the log-spaced pressure grid -/

/-- on the log-spaced grid (`pmin < pmax`, at least one layer) the `n+1` pressure levels the regenerated
    `compute_pressure_profile` stores decrease strictly from the surface (`pmax`) to the top (`pmin`) -/
theorem src_levels_strict_anti {n : ℕ} (hn : 1 ≤ n) {pmin pmax : ℝ} (h0 : 0 < pmin) (h : pmin < pmax) :
    (srcLevels n pmin pmax).Pairwise (· > ·) ∧ (srcLevels n pmin pmax).length = n + 1 ∧
      (srcLevels n pmin pmax).head? = some pmax ∧ (srcLevels n pmin pmax).getLast? = some pmin := by
  rw [(srcPressure_eq n pmin pmax).1]; exact levels_strict_anti hn h0 h

/-- each layer pressure the regenerated `compute_pressure_profile` stores is the geometric mean of its two levels and
    lies strictly between them -/
theorem src_layer_geomean {n : ℕ} (hn : 1 ≤ n) {pmin pmax : ℝ} (h0 : 0 < pmin) (h : pmin < pmax) {l : ℕ} (hl : l < n) :
    ∃ p lo up, (srcLayers n pmin pmax)[l]? = some p ∧ (srcLevels n pmin pmax)[l]? = some lo ∧
      (srcLevels n pmin pmax)[l + 1]? = some up ∧ p * p = lo * up ∧ up < p ∧ p < lo := by
  rw [(srcPressure_eq n pmin pmax).1, (srcPressure_eq n pmin pmax).2]
  exact layer_geomean (logLevels_pos _ _ _) (levels_strict_anti hn h0 h).1 (by rw [logLevels_length]; omega)

/-- the number of layer pressures is the number of levels minus one, regenerated `compute_pressure_profile`: the layer
    array is the level array's entries `0 … n-1` scaled (`levels[:-1] * sqrt(levels[1:]/levels[:-1])`) -/
theorem src_layers_length (n : ℕ) (pmin pmax : ℝ) :
    (srcLayers n pmin pmax).length = n ∧ (srcLayers n pmin pmax).length + 1 = (srcLevels n pmin pmax).length := by
  rw [(srcPressure_eq n pmin pmax).1, (srcPressure_eq n pmin pmax).2, layers_length, logLevels_length]
  exact ⟨rfl, rfl⟩

/-! ### the hydrostatic loop -/

/-- altitude starts at zero at the surface, for every input, regenerated `calculate_scale_properties` -/
theorem src_z0_zero (kb G M R : ℝ) (T pl mu : List ℝ) (hmu : mu.length = T.length) (hpl : pl.length = T.length + 1) :
    (srcZ kb G M R T pl mu).head? = some 0 := by
  rw [(srcScale_eq kb G M R T pl mu hmu hpl).1]; exact z0_zero kb G M R T pl mu

/-- hydrostatic step of the regenerated `calculate_scale_properties`: in every layer `dz = H ln(P_lower/P_upper)`,
    `H = k T/(mu g)`, `g = G M/(R+z)²` with `z` the altitude of the layer's lower boundary, the next boundary is `z + dz` -/
theorem src_dz_formula (kb G M R : ℝ) {T pl mu : List ℝ} (hmu : mu.length = T.length)
    (hpl : pl.length = T.length + 1) (hpos : ∀ p ∈ pl, 0 < p) {l : ℕ} (hl : l < T.length) :
    (srcDz kb G M R T pl mu).getD l 0
      = (srcH kb G M R T pl mu).getD l 0 * Real.log (pl.getD l 0 / pl.getD (l + 1) 0) ∧
    (srcH kb G M R T pl mu).getD l 0 = kb * T.getD l 0 / (mu.getD l 0 * (srcG kb G M R T pl mu).getD l 0) ∧
    (srcG kb G M R T pl mu).getD l 0
      = G * M / ((R + (srcZ kb G M R T pl mu).getD l 0) * (R + (srcZ kb G M R T pl mu).getD l 0)) ∧
    (srcZ kb G M R T pl mu).getD (l + 1) 0
      = (srcZ kb G M R T pl mu).getD l 0 + (srcDz kb G M R T pl mu).getD l 0 := by
  obtain ⟨ez, eH, eg, edz⟩ := srcScale_eq kb G M R T pl mu hmu hpl
  rw [ez, eH, eg, edz]
  exact dz_formula kb G M R hmu hpl hpos hl

/-- for strictly decreasing positive levels and positive `k, G, M, R, T, mu` every thickness, scale height and gravity
    the regenerated `calculate_scale_properties` returns is positive -/
theorem src_dz_pos {kb G M R : ℝ} (hkb : 0 < kb) (hG : 0 < G) (hM : 0 < M) (hR : 0 < R) {T pl mu : List ℝ}
    (hmul : mu.length = T.length) (hpl : pl.length = T.length + 1)
    (hT : ∀ t ∈ T, 0 < t) (hmu : ∀ m ∈ mu, 0 < m) (hpos : ∀ p ∈ pl, 0 < p) (hdec : pl.Pairwise (· > ·)) :
    (∀ d ∈ srcDz kb G M R T pl mu, 0 < d) ∧ (∀ h ∈ srcH kb G M R T pl mu, 0 < h) ∧
      (∀ g ∈ srcG kb G M R T pl mu, 0 < g) := by
  obtain ⟨_, eH, eg, edz⟩ := srcScale_eq kb G M R T pl mu hmul hpl
  rw [eH, eg, edz]
  exact dz_pos hkb hG hM hR hT hmu hpos hdec

/-- … and the boundary altitudes it returns increase strictly (altitude is non-negative and ordered like the levels) -/
theorem src_z_strict_mono {kb G M R : ℝ} (hkb : 0 < kb) (hG : 0 < G) (hM : 0 < M) (hR : 0 < R) {T pl mu : List ℝ}
    (hmul : mu.length = T.length) (hpl : pl.length = T.length + 1)
    (hT : ∀ t ∈ T, 0 < t) (hmu : ∀ m ∈ mu, 0 < m) (hpos : ∀ p ∈ pl, 0 < p) (hdec : pl.Pairwise (· > ·)) :
    (srcZ kb G M R T pl mu).Pairwise (· < ·) ∧ ∀ x ∈ srcZ kb G M R T pl mu, 0 ≤ x := by
  rw [(srcScale_eq kb G M R T pl mu hmul hpl).1]
  exact z_strict_mono hkb hG hM hR hT hmu hpos hdec

/-! ### the stored per-layer views -/

/-- every view the regenerated `_compute_altitude_gravity_scaleheight_profile` stores is, on the layer range, the array
    `calculate_scale_properties` returned (one value per layer, aligned with the pressure profile):
    `altitude_profile = z[:-1]`, `scaleheight_profile = H`, `gravity_profile = g`, `altitude_boundaries = z`,
    `deltaz = deltaz` — whether the molecular-weight profile was passed or taken from the chemistry -/
theorem src_views_aligned (mo : Option (Nat → ℝ)) (cm : Nat → ℝ) (kb G M R : ℝ) (T pl mu : List ℝ)
    (hmu : mu.length = T.length) (hpl : pl.length = T.length + 1) (hmo : mo.getD cm = fun i => mu.getD i 0) :
    cut T.length (srcViews mo cm kb G M R T pl).1 = (srcZ kb G M R T pl mu).dropLast ∧
    cut T.length (srcViews mo cm kb G M R T pl).2.1 = srcH kb G M R T pl mu ∧
    cut T.length (srcViews mo cm kb G M R T pl).2.2.1 = srcG kb G M R T pl mu ∧
    cut (T.length + 1) (srcViews mo cm kb G M R T pl).2.2.2.1 = srcZ kb G M R T pl mu ∧
    cut T.length (srcViews mo cm kb G M R T pl).2.2.2.2 = srcDz kb G M R T pl mu := by
  obtain ⟨ez, eH, eg, edz⟩ := srcScale_eq kb G M R T pl mu hmu hpl
  rw [ez, eH, eg, edz]
  exact srcViews_eq mo cm kb G M R T pl mu hmu hpl hmo

/-- the stored altitude boundaries start at zero and increase strictly, the stored thicknesses, scale heights and
    gravities are positive (regenerated `_compute_altitude_gravity_scaleheight_profile`) -/
theorem src_views_hydrostatic (mo : Option (Nat → ℝ)) (cm : Nat → ℝ) {kb G M R : ℝ} (hkb : 0 < kb) (hG : 0 < G)
    (hM : 0 < M) (hR : 0 < R) {T pl mu : List ℝ} (hmul : mu.length = T.length) (hpl : pl.length = T.length + 1)
    (hmo : mo.getD cm = fun i => mu.getD i 0)
    (hT : ∀ t ∈ T, 0 < t) (hmu : ∀ m ∈ mu, 0 < m) (hpos : ∀ p ∈ pl, 0 < p) (hdec : pl.Pairwise (· > ·)) :
    (cut (T.length + 1) (srcViews mo cm kb G M R T pl).2.2.2.1).head? = some 0 ∧
    (cut (T.length + 1) (srcViews mo cm kb G M R T pl).2.2.2.1).Pairwise (· < ·) ∧
    (∀ d ∈ cut T.length (srcViews mo cm kb G M R T pl).2.2.2.2, 0 < d) ∧
    (∀ h ∈ cut T.length (srcViews mo cm kb G M R T pl).2.1, 0 < h) ∧
    (∀ g ∈ cut T.length (srcViews mo cm kb G M R T pl).2.2.1, 0 < g) := by
  obtain ⟨_, e2, e3, e4, e5⟩ := srcViews_eq mo cm kb G M R T pl mu hmul hpl hmo
  rw [e2, e3, e4, e5]
  obtain ⟨p1, p2, p3⟩ := dz_pos hkb hG hM hR hT hmu hpos hdec
  exact ⟨z0_zero kb G M R T pl mu, (z_strict_mono hkb hG hM hR hT hmu hpos hdec).1, p1, p2, p3⟩

/-! ### number density -/

/-- number density is `P/(kT)` layer by layer, regenerated `densityProfile` -/
theorem src_density_formula (kb : ℝ) (P T : List ℝ) (l : ℕ) (hP : l < P.length) (hT : l < T.length) :
    Gen.SrcC11.densityProfile kb (fun i => P.getD i 0) (fun i => T.getD i 0) l = P[l] / (kb * T[l]) := by
  have h := density_formula kb P T l
  rw [List.getElem?_eq_getElem hP, List.getElem?_eq_getElem hT] at h
  rw [C11Src.src_density kb P T l hP hT, List.getD_eq_getElem?_getD, h]
  rfl

/-! ### the relation between layers and levels, for whatever levels the grid has -/

/-- **layer_geomean beyond the log grid**, about the regenerated `SimplePressureProfile.compute_pressure_profile`: whatever
    values `np.logspace` returns (the external is ARBITRARY here — the relation between the two stored arrays does not
    depend on the levels being log-spaced), if the `m` stored levels are positive and strictly decreasing, every stored
    layer pressure is the geometric mean of its two levels and lies strictly between them -/
theorem src_layer_geomean_levels (logspace : ℝ → ℝ → ℕ → ℕ → ℝ) (m : ℕ) (pmin pmax : ℝ)
    (hpos : ∀ i < m, 0 < (Gen.SrcC11.compute_pressure_profile logspace m pmax pmin).1 i)
    (hdec : ∀ i j, i < j → j < m →
      (Gen.SrcC11.compute_pressure_profile logspace m pmax pmin).1 j
        < (Gen.SrcC11.compute_pressure_profile logspace m pmax pmin).1 i)
    {l : ℕ} (hl : l + 1 < m) :
    let lev := (Gen.SrcC11.compute_pressure_profile logspace m pmax pmin).1
    let lay := (Gen.SrcC11.compute_pressure_profile logspace m pmax pmin).2
    lay l * lay l = lev l * lev (l + 1) ∧ lev (l + 1) < lay l ∧ lay l < lev l := by
  intro lev lay
  have hlv : ∀ p ∈ cut m lev, 0 < p := by
    intro p hp
    obtain ⟨i, hi, rfl⟩ := List.mem_map.1 hp
    exact hpos i (List.mem_range.1 hi)
  have hd : (cut m lev).Pairwise (· > ·) := by
    rw [List.pairwise_iff_getElem]
    intro i j hi hj hij
    simp only [cut, List.getElem_map, List.getElem_range]
    exact hdec i j hij (by simpa [cut] using hj)
  obtain ⟨p, lo, up, h1, h2, h3, h4, h5, h6⟩ := layer_geomean hlv hd (l := l) (by simpa [cut] using hl)
  have e := C11Src.src_layers_of_levels logspace m pmin pmax
  have hl1 : l < m - 1 := by omega
  have hp : p = lay l := by
    rw [show (cut m lev) = (List.range m).map lev from rfl, ← e] at h1
    simpa [hl1] using h1.symm
  have hlo : lo = lev l := by
    have : l < m := by omega
    simpa [cut, this] using h2.symm
  have hup : up = lev (l + 1) := by simpa [cut, hl] using h3.symm
  subst hp hlo hup
  exact ⟨h4, h5, h6⟩

/-! ### the dictionary of stored profiles -/

/-- `generate_profiles()` as the regenerated code builds it from the regenerated arrays: the views stored by the
    regenerated `_compute_altitude_gravity_scaleheight_profile`, the regenerated `densityProfile`, the layer pressures `P`,
    temperatures `T`, molecular weights `mu` and the chemistry's tables (`cond = some …` = the chemistry has condensates);
    arrays cut to the `len(T)` layers, dictionary values read as the model's `ProfVal` -/
noncomputable def srcProfiles (mo : Option (Nat → ℝ)) (cm : Nat → ℝ) (kb G M R : ℝ) (T pl P mu : List ℝ)
    (act inact cond : Option (List (List ℝ))) : List (String × ProfVal ℝ) :=
  (Gen.SrcC11.generate_profiles act (cut T.length (srcViews mo cm kb G M R T pl).1) (cond.getD [])
      (cut T.length (Gen.SrcC11.densityProfile kb (fun i => P.getD i 0) (fun i => T.getD i 0)))
      (cut T.length (srcViews mo cm kb G M R T pl).2.2.1) cond.isSome inact mu P
      (cut T.length (srcViews mo cm kb G M R T pl).2.1) T).map (fun e => (e.1, C11Src.toProf e.2))

theorem srcProfiles_eq (mo : Option (Nat → ℝ)) (cm : Nat → ℝ) (kb G M R : ℝ) (T pl P mu : List ℝ)
    (act inact cond : Option (List (List ℝ))) (hmu : mu.length = T.length) (hpl : pl.length = T.length + 1)
    (hP : P.length = T.length) (hmo : mo.getD cm = fun i => mu.getD i 0) :
    srcProfiles mo cm kb G M R T pl P mu act inact cond
      = profileDict (views (scaleProps kb G M R T pl mu)) T P (density kb P T) mu act inact cond := by
  obtain ⟨e1, e2, e3, _, _⟩ := srcViews_eq mo cm kb G M R T pl mu hmu hpl hmo
  have ed : cut T.length (Gen.SrcC11.densityProfile kb (fun i => P.getD i 0) (fun i => T.getD i 0)) = density kb P T :=
    cut_eq _ _ _ (by simp [density, List.length_zipWith, hP]) fun i hi =>
      C11Src.src_density kb P T i (by omega) hi
  unfold srcProfiles
  rw [e1, e2, e3, ed]
  exact C11Src.src_generate_profiles (views (scaleProps kb G M R T pl mu)) T P (density kb P T) mu act inact cond

/-- **profile_dict / one value per layer in everything that is stored**, about the regenerated `generate_profiles`,
    `generate_profile_dict`, `_compute_altitude_gravity_scaleheight_profile`, `calculate_scale_properties` and
    `densityProfile`: the dictionary has exactly the documented keys in insertion order, every entry has one value per
    layer, and the structure entries are the arrays `calculate_scale_properties` returned (`altitude_profile = z[:-1]`) -/
theorem src_profile_dict (mo : Option (Nat → ℝ)) (cm : Nat → ℝ) (kb G M R : ℝ) (T pl P mu : List ℝ)
    (act inact cond : Option (List (List ℝ))) (hmu : mu.length = T.length) (hpl : pl.length = T.length + 1)
    (hP : P.length = T.length) (hmo : mo.getD cm = fun i => mu.getD i 0)
    (hact : ∀ rows, act = some rows → ∀ r ∈ rows, r.length = T.length)
    (hinact : ∀ rows, inact = some rows → ∀ r ∈ rows, r.length = T.length)
    (hcond : ∀ rows, cond = some rows → ∀ r ∈ rows, r.length = T.length) :
    let d := srcProfiles mo cm kb G M R T pl P mu act inact cond
    d.map (·.1) = ["temp_profile", "active_mix_profile", "inactive_mix_profile", "density_profile",
        "scaleheight_profile", "altitude_profile", "gravity_profile", "pressure_profile"]
        ++ (if cond.isSome then ["condensate_profile"] else []) ++ ["mu_profile"] ∧
    (∀ e ∈ d, e.2.PerLayer T.length) ∧
    d.lookup "altitude_profile" = some (.arr (srcZ kb G M R T pl mu).dropLast) ∧
    d.lookup "scaleheight_profile" = some (.arr (srcH kb G M R T pl mu)) ∧
    d.lookup "gravity_profile" = some (.arr (srcG kb G M R T pl mu)) ∧
    d.lookup "pressure_profile" = some (.arr P) ∧ d.lookup "temp_profile" = some (.arr T) ∧
    d.lookup "mu_profile" = some (.arr mu) := by
  intro d
  have hd : d = profileDict (views (scaleProps kb G M R T pl mu)) T P (density kb P T) mu act inact cond :=
    srcProfiles_eq mo cm kb G M R T pl P mu act inact cond hmu hpl hP hmo
  obtain ⟨ez, eH, eg, _⟩ := srcScale_eq kb G M R T pl mu hmu hpl
  obtain ⟨h1, h2, h3, h4, h5, _, h7, h8, h9⟩ :=
    profile_dict kb G M R (T := T) (pl := pl) (mu := mu) (P := P) (n := T.length) rfl hmu hpl hP act inact cond
      hact hinact hcond
  rw [hd, ez, eH, eg]
  exact ⟨h1, h2, h3, h4, h5, h7, h8, h9⟩

/-! ### `ArrayPressureProfile`: levels derived from given layer pressures -/

/-- `np.gradient` (unit spacing) of an arithmetic progression is its step, at the ends (one-sided differences) and inside -/
theorem gradientAt_regular (a d : ℝ) (n : ℕ) (h2 : 2 ≤ n) (i : ℕ) (hi : i < n) :
    gradientAt ((List.range n).map (fun (k : ℕ) => a + (k : ℝ) * d)) i = d := by
  unfold gradientAt
  have hg : ∀ k, k < n → ((List.range n).map (fun (k : ℕ) => a + (k : ℝ) * d)).getD k 0 = a + (k : ℝ) * d := by
    intro k hk
    simp [List.getD_eq_getElem?_getD, hk]
  simp only [List.length_map, List.length_range]
  by_cases h0 : i = 0
  · subst h0
    rw [if_pos rfl, hg 1 (by omega), hg 0 (by omega)]; push_cast; ring
  · rw [if_neg h0]
    by_cases hn : i = n - 1
    · rw [if_pos hn, hg (n - 1) (by omega), hg (n - 2) (by omega)]
      have : ((n - 1 : ℕ) : ℝ) = ((n - 2 : ℕ) : ℝ) + 1 := by
        have : n - 1 = (n - 2) + 1 := by omega
        rw [this]; push_cast; ring
      rw [this]; ring
    · rw [if_neg hn, hg (i + 1) (by omega), hg (i - 1) (by omega)]
      have : ((i + 1 : ℕ) : ℝ) = ((i - 1 : ℕ) : ℝ) + 2 := by
        have : i + 1 = (i - 1) + 2 := by omega
        rw [this]; push_cast; ring
      rw [this]; ring

/-- **the layer / level relation of `ArrayPressureProfile`**, about the regenerated `compute_pressure_profile`
    (`np.gradient` = `gradientAt`, the tie's instantiation): on a LOG-REGULAR grid of at least two layers (`log10 P_i =
    a + i·d`, `d < 0`: pressures falling by a constant factor) every GIVEN layer pressure is the geometric mean of the two
    DERIVED levels around it and lies strictly between them.  (For other layer pressures the derived levels
    `10**(logp ∓ gradp/2)` do not have this property: the relation is specific to log-regular grids, which is where
    harness/c11.py judges it.) -/
theorem src_array_layer_geomean (a d : ℝ) (hd : d < 0) (n : ℕ) (h2 : 2 ≤ n) {l : ℕ} (hl : l < n) :
    let P : ℕ → ℝ := fun i => (10 : ℝ) ^ (a + (i : ℝ) * d)
    let lev := Gen.SrcC11.array_pressure_levels n (fun f m i => gradientAt ((List.range m).map f) i) P
    P l * P l = lev l * lev (l + 1) ∧ lev (l + 1) < P l ∧ P l < lev l := by
  intro P lev
  have hlog : ∀ x : ℝ, Real.log ((10 : ℝ) ^ x) / Real.log 10 = x := by
    intro x
    have h10 : Real.log 10 ≠ 0 := by
      have : (0 : ℝ) < Real.log 10 := Real.log_pos (by norm_num)
      exact ne_of_gt this
    rw [Real.log_rpow (by norm_num : (0 : ℝ) < 10)]
    field_simp
  have hlev : ∀ i, i ≤ n → lev i = (10 : ℝ) ^ (a + (i : ℝ) * d - d / 2) := by
    intro i hi
    simp only [lev, Gen.SrcC11.array_pressure_levels, P, log10_real, pow10_real, hlog]
    by_cases hin : i < n
    · simp only [hin, decide_true, if_true]
      rw [gradientAt_regular a d n h2 i hin]
    · have : i = n := by omega
      subst this
      simp only [hin, decide_false, Bool.false_eq_true, if_false]
      rw [gradientAt_regular a d i h2 (i - 1) (by omega)]
      congr 1
      have : ((i - 1 : ℕ) : ℝ) = (i : ℝ) - 1 := by
        have : i = (i - 1) + 1 := by omega
        conv_rhs => rw [this]
        push_cast; ring
      rw [this]; ring
  rw [hlev l (by omega), hlev (l + 1) (by omega)]
  have h10 : (1 : ℝ) < 10 := by norm_num
  refine ⟨?_, ?_, ?_⟩
  · simp only [P]
    rw [← Real.rpow_add (by norm_num), ← Real.rpow_add (by norm_num)]
    congr 1; push_cast; ring
  · simp only [P]
    apply Real.rpow_lt_rpow_of_exponent_lt h10
    push_cast; linarith
  · simp only [P]
    apply Real.rpow_lt_rpow_of_exponent_lt h10
    linarith

end Taurex.C11SrcProps
