/-
  C11 — the property theorems restated about the REGENERATED source.  `Props/C11Src.lean` proves that the definitions
  translated on every run from `BasePlanet.calculate_scale_properties` (with `gravity`, `gravity_at_height`),
  `SimplePressureProfile.compute_pressure_profile`, `SimpleForwardModel._compute_altitude_gravity_scaleheight_profile` and
  `SimpleForwardModel.densityProfile` compute, entry by entry, the model's `scaleProps`, `logLevels`/`layerPressures`,
  `views`, `density`; `Props/C11.lean` proves the property about those.  The corollaries below compose the two: statements
  about the text of the code as it is now, over ℝ.

  Source expressions (instantiated exactly as the tie theorems instantiate them).  The code's arrays are functions `Nat → ℝ`;
  `cut n f` lists their entries `0 … n-1` (the index range on which the ties speak):
  * `srcScale kb G M R T pl mu` — the 4-tuple `(z, H, g, deltaz)` returned by the regenerated `calculate_scale_properties`
    on arrays read off the lists `T`, `pl`, `mu`, with `nlayers = len(T)`; `srcZ/srcH/srcG/srcDz` its components cut to
    `n+1`, `n`, `n`, `n` entries;
  * `srcLevels n pmin pmax`, `srcLayers n pmin pmax` — `pressure_profile_levels` / `pressure_profile` of the regenerated
    `SimplePressureProfile.compute_pressure_profile`, `np.logspace = 10**linspace`, `nLevels = n + 1`;
  * `srcViews mo cm kb G M R T pl` — the five arrays stored by the regenerated
    `_compute_altitude_gravity_scaleheight_profile` (`mo` = the `mu_profile` argument, `cm` = the chemistry's);
  * `Gen.SrcC11.densityProfile kb P T l` — the regenerated `densityProfile`.
  The unit factor `conversion_factor('m', length_units)` that the code multiplies into every returned array (a parameter
  `unit` of the ties) is instantiated with `1`, the value harness/c11.py checks on every run: the physical formulas
  (`H = kT/(mu g)` …) relate the returned arrays only in that unit.
  Hypotheses of the ties that stay visible: array lengths `len(mu) = len(T)`, `len(Pl) = len(T) + 1`; `hmo` (which
  molecular-weight profile the code takes).

  Not restated (no tie / no source counterpart):
  * `layer_geomean` for arbitrary decreasing levels: `layerPressures` is tied only on the log-spaced grid, where it is
    restated (`src_layer_geomean`);
  * `lengths`: source-side arrays are functions without a length; the ties are entry by entry on the valid index range
    (what the length statement becomes on the source side — each stored view is the corresponding returned array on that
    range, `altitude_profile = z[:-1]` — is `src_views_aligned`);
  * no C11 theorem is about `arrayLevels` (the tie `src_array_pressure_levels` has nothing to carry over).
-/
import Props.C11
import Props.C11Src
set_option linter.unusedSectionVars false

namespace Taurex.C11SrcProps
open Taurex Taurex.Structure Taurex.C11

/-! ### the instantiated source expressions -/

/-- entries `0 … n-1` of a source-side array -/
noncomputable def cut (n : Nat) (f : Nat → ℝ) : List ℝ := (List.range n).map f

theorem cut_eq (n : Nat) (f : Nat → ℝ) (l : List ℝ) (hl : l.length = n) (h : ∀ i, i < n → f i = l.getD i 0) :
    cut n f = l := by
  apply List.ext_getElem
  · simp [cut, hl]
  · intro i h1 h2
    have hi : i < n := by simpa [cut] using h1
    simp only [cut, List.getElem_map, List.getElem_range]
    rw [h i hi, List.getD_eq_getElem?_getD, List.getElem?_eq_getElem h2]
    rfl

/-- `(z, H, g, deltaz)` as the regenerated `calculate_scale_properties(T, Pl, mu)` returns them (unit factor 1) -/
noncomputable def srcScale (kb G M R : ℝ) (T pl mu : List ℝ) : (Nat → ℝ) × (Nat → ℝ) × (Nat → ℝ) × (Nat → ℝ) :=
  Gen.SrcC11.calculate_scale_properties (fun i => T.getD i 0) (fun i => pl.getD i 0) (fun i => mu.getD i 0) T.length
    (G := G) (KBOLTZ := kb) (fullMass := M) (fullRadius := R) (unit := 1)

noncomputable def srcZ (kb G M R : ℝ) (T pl mu : List ℝ) : List ℝ := cut (T.length + 1) (srcScale kb G M R T pl mu).1
noncomputable def srcH (kb G M R : ℝ) (T pl mu : List ℝ) : List ℝ := cut T.length (srcScale kb G M R T pl mu).2.1
noncomputable def srcG (kb G M R : ℝ) (T pl mu : List ℝ) : List ℝ := cut T.length (srcScale kb G M R T pl mu).2.2.1
noncomputable def srcDz (kb G M R : ℝ) (T pl mu : List ℝ) : List ℝ := cut T.length (srcScale kb G M R T pl mu).2.2.2

/-- `(pressure_profile_levels, pressure_profile)` of the regenerated `SimplePressureProfile.compute_pressure_profile` -/
noncomputable def srcPressure (n : Nat) (pmin pmax : ℝ) : (Nat → ℝ) × (Nat → ℝ) :=
  Gen.SrcC11.compute_pressure_profile
    (logspace := fun a b m i => ((linspace (m - 1) a b).map pow10).getD i 0) (nLevels := n + 1)
    (pmax := pmax) (pmin := pmin)

noncomputable def srcLevels (n : Nat) (pmin pmax : ℝ) : List ℝ := cut (n + 1) (srcPressure n pmin pmax).1
noncomputable def srcLayers (n : Nat) (pmin pmax : ℝ) : List ℝ := cut n (srcPressure n pmin pmax).2

/-- `(altitude_profile, scaleheight_profile, gravity_profile, altitude_boundaries, deltaz)` as stored by the regenerated
    `_compute_altitude_gravity_scaleheight_profile(mu_profile = mo)` (unit factor 1) -/
noncomputable def srcViews (mo : Option (Nat → ℝ)) (cm : Nat → ℝ) (kb G M R : ℝ) (T pl : List ℝ) :
    (Nat → ℝ) × (Nat → ℝ) × (Nat → ℝ) × (Nat → ℝ) × (Nat → ℝ) :=
  Gen.SrcC11.compute_altitude_gravity_scaleheight_profile mo T.length (G := G) (KBOLTZ := kb)
    (chem_mu := cm) (fullMass := M) (fullRadius := R) (levels := fun i => pl.getD i 0)
    (temperatureProfile := fun i => T.getD i 0) (unit := 1)

theorem srcScale_eq (kb G M R : ℝ) (T pl mu : List ℝ) (hmu : mu.length = T.length) (hpl : pl.length = T.length + 1) :
    srcZ kb G M R T pl mu = (scaleProps kb G M R T pl mu).z ∧ srcH kb G M R T pl mu = (scaleProps kb G M R T pl mu).H ∧
    srcG kb G M R T pl mu = (scaleProps kb G M R T pl mu).g ∧
    srcDz kb G M R T pl mu = (scaleProps kb G M R T pl mu).dz := by
  obtain ⟨hz, hH, hg, hdz⟩ := C11Src.src_scale_properties kb G M R 1 T pl mu T.length rfl hmu hpl
  obtain ⟨lz, lH, lg, ldz, _⟩ := lengths kb G M R (T := T) (pl := pl) (mu := mu) (P := T) (n := T.length) rfl hmu hpl rfl
  refine ⟨cut_eq _ _ _ lz fun i hi => ?_, cut_eq _ _ _ lH fun i hi => ?_, cut_eq _ _ _ lg fun i hi => ?_,
    cut_eq _ _ _ ldz fun i hi => ?_⟩
  · rw [srcScale, hz i (by omega), mul_one]
  · rw [srcScale, hH i hi, mul_one]
  · rw [srcScale, hg i hi, mul_one]
  · rw [srcScale, hdz i hi, mul_one]

theorem srcPressure_eq (n : Nat) (pmin pmax : ℝ) :
    srcLevels n pmin pmax = logLevels n pmin pmax ∧ srcLayers n pmin pmax = layerPressures (logLevels n pmin pmax) := by
  obtain ⟨h1, h2⟩ := C11Src.src_pressure_profile n pmin pmax
  exact ⟨cut_eq _ _ _ (logLevels_length n pmin pmax) fun i hi => h1 i (by omega),
    cut_eq _ _ _ (layers_length n pmin pmax) fun i hi => h2 i hi⟩

theorem srcViews_eq (mo : Option (Nat → ℝ)) (cm : Nat → ℝ) (kb G M R : ℝ) (T pl mu : List ℝ)
    (hmu : mu.length = T.length) (hpl : pl.length = T.length + 1) (hmo : mo.getD cm = fun i => mu.getD i 0) :
    cut T.length (srcViews mo cm kb G M R T pl).1 = (views (scaleProps kb G M R T pl mu)).altitudeProfile ∧
    cut T.length (srcViews mo cm kb G M R T pl).2.1 = (views (scaleProps kb G M R T pl mu)).scaleheightProfile ∧
    cut T.length (srcViews mo cm kb G M R T pl).2.2.1 = (views (scaleProps kb G M R T pl mu)).gravityProfile ∧
    cut (T.length + 1) (srcViews mo cm kb G M R T pl).2.2.2.1
      = (views (scaleProps kb G M R T pl mu)).altitudeBoundaries ∧
    cut T.length (srcViews mo cm kb G M R T pl).2.2.2.2 = (views (scaleProps kb G M R T pl mu)).deltaz := by
  obtain ⟨h1, h2, h3, h4, h5⟩ := C11Src.src_views kb G M R 1 T pl mu mo cm T.length rfl hmu hpl hmo
  obtain ⟨_, _, _, _, l1, l2, l3, l4, l5, _⟩ :=
    lengths kb G M R (T := T) (pl := pl) (mu := mu) (P := T) (n := T.length) rfl hmu hpl rfl
  refine ⟨cut_eq _ _ _ l1 fun i hi => ?_, cut_eq _ _ _ l2 fun i hi => ?_, cut_eq _ _ _ l3 fun i hi => ?_,
    cut_eq _ _ _ l5 fun i hi => ?_, cut_eq _ _ _ l4 fun i hi => ?_⟩
  · rw [srcViews, h1 i hi, mul_one]
  · rw [srcViews, h2 i hi, mul_one]
  · rw [srcViews, h3 i hi, mul_one]
  · rw [srcViews, h4 i (by omega), mul_one]
  · rw [srcViews, h5 i hi, mul_one]

/-! ### the log-spaced pressure grid -/

/-- on the log-spaced grid (`pmin < pmax`, at least one layer) the `n+1` pressure levels the regenerated
    `compute_pressure_profile` stores decrease strictly from the surface (`pmax`) to the top (`pmin`) -/
theorem src_levels_strict_anti {n : ℕ} (hn : 1 ≤ n) {pmin pmax : ℝ} (h0 : 0 < pmin) (h : pmin < pmax) :
    (srcLevels n pmin pmax).Pairwise (· > ·) ∧ (srcLevels n pmin pmax).length = n + 1 ∧
      (srcLevels n pmin pmax).head? = some pmax ∧ (srcLevels n pmin pmax).getLast? = some pmin := by
  rw [(srcPressure_eq n pmin pmax).1]; exact levels_strict_anti hn h0 h

/-- each layer pressure the regenerated `compute_pressure_profile` stores is the geometric mean of its two levels and
    lies strictly between them -/
theorem src_layer_geomean {n : ℕ} (hn : 1 ≤ n) {pmin pmax : ℝ} (h0 : 0 < pmin) (h : pmin < pmax) {l : ℕ} (hl : l < n) :
    ∃ p lo up, (srcLayers n pmin pmax)[l]? = some p ∧ (srcLevels n pmin pmax)[l]? = some lo ∧
      (srcLevels n pmin pmax)[l + 1]? = some up ∧ p * p = lo * up ∧ up < p ∧ p < lo := by
  rw [(srcPressure_eq n pmin pmax).1, (srcPressure_eq n pmin pmax).2]
  exact layer_geomean (logLevels_pos _ _ _) (levels_strict_anti hn h0 h).1 (by rw [logLevels_length]; omega)

/-- the number of layer pressures is the number of levels minus one, regenerated `compute_pressure_profile`: the layer
    array is the level array's entries `0 … n-1` scaled (`levels[:-1] * sqrt(levels[1:]/levels[:-1])`) -/
theorem src_layers_length (n : ℕ) (pmin pmax : ℝ) :
    (srcLayers n pmin pmax).length = n ∧ (srcLayers n pmin pmax).length + 1 = (srcLevels n pmin pmax).length := by
  rw [(srcPressure_eq n pmin pmax).1, (srcPressure_eq n pmin pmax).2, layers_length, logLevels_length]
  exact ⟨rfl, rfl⟩

/-! ### the hydrostatic loop -/

/-- altitude starts at zero at the surface, for every input, regenerated `calculate_scale_properties` -/
theorem src_z0_zero (kb G M R : ℝ) (T pl mu : List ℝ) (hmu : mu.length = T.length) (hpl : pl.length = T.length + 1) :
    (srcZ kb G M R T pl mu).head? = some 0 := by
  rw [(srcScale_eq kb G M R T pl mu hmu hpl).1]; exact z0_zero kb G M R T pl mu

/-- hydrostatic step of the regenerated `calculate_scale_properties`: in every layer `dz = H ln(P_lower/P_upper)`,
    `H = k T/(mu g)`, `g = G M/(R+z)²` with `z` the altitude of the layer's lower boundary, the next boundary is `z + dz` -/
theorem src_dz_formula (kb G M R : ℝ) {T pl mu : List ℝ} (hmu : mu.length = T.length)
    (hpl : pl.length = T.length + 1) (hpos : ∀ p ∈ pl, 0 < p) {l : ℕ} (hl : l < T.length) :
    (srcDz kb G M R T pl mu).getD l 0
      = (srcH kb G M R T pl mu).getD l 0 * Real.log (pl.getD l 0 / pl.getD (l + 1) 0) ∧
    (srcH kb G M R T pl mu).getD l 0 = kb * T.getD l 0 / (mu.getD l 0 * (srcG kb G M R T pl mu).getD l 0) ∧
    (srcG kb G M R T pl mu).getD l 0
      = G * M / ((R + (srcZ kb G M R T pl mu).getD l 0) * (R + (srcZ kb G M R T pl mu).getD l 0)) ∧
    (srcZ kb G M R T pl mu).getD (l + 1) 0
      = (srcZ kb G M R T pl mu).getD l 0 + (srcDz kb G M R T pl mu).getD l 0 := by
  obtain ⟨ez, eH, eg, edz⟩ := srcScale_eq kb G M R T pl mu hmu hpl
  rw [ez, eH, eg, edz]
  exact dz_formula kb G M R hmu hpl hpos hl

/-- for strictly decreasing positive levels and positive `k, G, M, R, T, mu` every thickness, scale height and gravity
    the regenerated `calculate_scale_properties` returns is positive -/
theorem src_dz_pos {kb G M R : ℝ} (hkb : 0 < kb) (hG : 0 < G) (hM : 0 < M) (hR : 0 < R) {T pl mu : List ℝ}
    (hmul : mu.length = T.length) (hpl : pl.length = T.length + 1)
    (hT : ∀ t ∈ T, 0 < t) (hmu : ∀ m ∈ mu, 0 < m) (hpos : ∀ p ∈ pl, 0 < p) (hdec : pl.Pairwise (· > ·)) :
    (∀ d ∈ srcDz kb G M R T pl mu, 0 < d) ∧ (∀ h ∈ srcH kb G M R T pl mu, 0 < h) ∧
      (∀ g ∈ srcG kb G M R T pl mu, 0 < g) := by
  obtain ⟨_, eH, eg, edz⟩ := srcScale_eq kb G M R T pl mu hmul hpl
  rw [eH, eg, edz]
  exact dz_pos hkb hG hM hR hT hmu hpos hdec

/-- … and the boundary altitudes it returns increase strictly (altitude is non-negative and ordered like the levels) -/
theorem src_z_strict_mono {kb G M R : ℝ} (hkb : 0 < kb) (hG : 0 < G) (hM : 0 < M) (hR : 0 < R) {T pl mu : List ℝ}
    (hmul : mu.length = T.length) (hpl : pl.length = T.length + 1)
    (hT : ∀ t ∈ T, 0 < t) (hmu : ∀ m ∈ mu, 0 < m) (hpos : ∀ p ∈ pl, 0 < p) (hdec : pl.Pairwise (· > ·)) :
    (srcZ kb G M R T pl mu).Pairwise (· < ·) ∧ ∀ x ∈ srcZ kb G M R T pl mu, 0 ≤ x := by
  rw [(srcScale_eq kb G M R T pl mu hmul hpl).1]
  exact z_strict_mono hkb hG hM hR hT hmu hpos hdec

/-! ### the stored per-layer views -/

/-- every view the regenerated `_compute_altitude_gravity_scaleheight_profile` stores is, on the layer range, the array
    `calculate_scale_properties` returned (one value per layer, aligned with the pressure profile):
    `altitude_profile = z[:-1]`, `scaleheight_profile = H`, `gravity_profile = g`, `altitude_boundaries = z`,
    `deltaz = deltaz` — whether the molecular-weight profile was passed or taken from the chemistry -/
theorem src_views_aligned (mo : Option (Nat → ℝ)) (cm : Nat → ℝ) (kb G M R : ℝ) (T pl mu : List ℝ)
    (hmu : mu.length = T.length) (hpl : pl.length = T.length + 1) (hmo : mo.getD cm = fun i => mu.getD i 0) :
    cut T.length (srcViews mo cm kb G M R T pl).1 = (srcZ kb G M R T pl mu).dropLast ∧
    cut T.length (srcViews mo cm kb G M R T pl).2.1 = srcH kb G M R T pl mu ∧
    cut T.length (srcViews mo cm kb G M R T pl).2.2.1 = srcG kb G M R T pl mu ∧
    cut (T.length + 1) (srcViews mo cm kb G M R T pl).2.2.2.1 = srcZ kb G M R T pl mu ∧
    cut T.length (srcViews mo cm kb G M R T pl).2.2.2.2 = srcDz kb G M R T pl mu := by
  obtain ⟨ez, eH, eg, edz⟩ := srcScale_eq kb G M R T pl mu hmu hpl
  rw [ez, eH, eg, edz]
  exact srcViews_eq mo cm kb G M R T pl mu hmu hpl hmo

/-- the stored altitude boundaries start at zero and increase strictly, the stored thicknesses, scale heights and
    gravities are positive (regenerated `_compute_altitude_gravity_scaleheight_profile`) -/
theorem src_views_hydrostatic (mo : Option (Nat → ℝ)) (cm : Nat → ℝ) {kb G M R : ℝ} (hkb : 0 < kb) (hG : 0 < G)
    (hM : 0 < M) (hR : 0 < R) {T pl mu : List ℝ} (hmul : mu.length = T.length) (hpl : pl.length = T.length + 1)
    (hmo : mo.getD cm = fun i => mu.getD i 0)
    (hT : ∀ t ∈ T, 0 < t) (hmu : ∀ m ∈ mu, 0 < m) (hpos : ∀ p ∈ pl, 0 < p) (hdec : pl.Pairwise (· > ·)) :
    (cut (T.length + 1) (srcViews mo cm kb G M R T pl).2.2.2.1).head? = some 0 ∧
    (cut (T.length + 1) (srcViews mo cm kb G M R T pl).2.2.2.1).Pairwise (· < ·) ∧
    (∀ d ∈ cut T.length (srcViews mo cm kb G M R T pl).2.2.2.2, 0 < d) ∧
    (∀ h ∈ cut T.length (srcViews mo cm kb G M R T pl).2.1, 0 < h) ∧
    (∀ g ∈ cut T.length (srcViews mo cm kb G M R T pl).2.2.1, 0 < g) := by
  obtain ⟨_, e2, e3, e4, e5⟩ := srcViews_eq mo cm kb G M R T pl mu hmul hpl hmo
  rw [e2, e3, e4, e5]
  obtain ⟨p1, p2, p3⟩ := dz_pos hkb hG hM hR hT hmu hpos hdec
  exact ⟨z0_zero kb G M R T pl mu, (z_strict_mono hkb hG hM hR hT hmu hpos hdec).1, p1, p2, p3⟩

/-! ### number density -/

/-- number density is `P/(kT)` layer by layer, regenerated `densityProfile` -/
theorem src_density_formula (kb : ℝ) (P T : List ℝ) (l : ℕ) (hP : l < P.length) (hT : l < T.length) :
    Gen.SrcC11.densityProfile kb (fun i => P.getD i 0) (fun i => T.getD i 0) l = P[l] / (kb * T[l]) := by
  have h := density_formula kb P T l
  rw [List.getElem?_eq_getElem hP, List.getElem?_eq_getElem hT] at h
  rw [C11Src.src_density kb P T l hP hT, List.getD_eq_getElem?_getD, h]
  rfl

end Taurex.C11SrcProps
