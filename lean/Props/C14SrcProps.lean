/-
  C14 — the property theorems restated about the REGENERATED source.  `Props/C14Src.lean` proves that the definitions
  translated on every run from the readers (`PickleOpacity._load_pickle_file`, `HDF5Opacity._load_hdf_file`,
  `PickleKTable._load_pickle_file`, `HDF5KTable._load_pickle_file`, `PickleCIA._load_pickle_file`, the end of
  `HitranCIA.load_hitran_file` with `fill_gaps` / `fill_temperature` / `compute_final_grid`), from the name handling of
  the opacity classes (`…_name`, `clean_molecule_name`, `discover`) and from `OpacityCache.__getitem__` (with
  `load_opacity`, `load_opacity_from_path`, `add_opacity`) compute the model's decoders (`decPickle`, `decHdf`, `decPickleK`,
  `decHdfK`, `decPickleC`, `decHitran`), `discName` / `objName`, and `step fs s (.get m)`; `Props/C14.lean` proves the
  property about these.  The corollaries below compose the two: they are statements about the text of the code as it is
  now.  `Props/C14.lean` is generic in an ordered field `K`; the corollaries are at `K = ℝ` (the ties need the carrier
  classes of the generated file, which ℝ has).

  What is composed
    * readers: `srcPickleLoad f`, `srcHdfLoad f mem p0 x0`, `srcPickleKLoad f`, `srcHdfKLoad f mem p0 w0 x0`,
      `srcPickleCLoad f` = the regenerated reader applied to the cells of the container `f`, instantiated exactly as in the
      ties (`allocate_as_shared = id`, the two unit parsers = `unitDirect` / `unitCds` read as raising `ValueError`); the
      result is the tuple of attributes the reader assigns (and, for HDF5, whether it raised).  "The file written from the
      table" is the model's `encPickle`, `encHdf`, … (a writer is not part of the package).
    * HITRAN: `srcHitranTab hk blocks t0 w0 x0` = the table `(wavenumber_grid, temperature_grid, xsec_grid)` the
      regenerated end of `load_hitran_file` leaves behind when the reading loop has collected `hLoad blocks` (the reading
      loop itself — `clipSigma`, the grouping into ranges — is not translated: `hLoad` stays the model's).  The tie's
      hypotheses are discharged: `hlt` (ℝ is linearly ordered), every range has a temperature (`hitran_ranges`).
    * names: the regenerated `PickleOpacity_name`, `ExoTransmit_name`, `HDF5KTable_name`, `…_clean_molecule_name`,
      `…_discover`, with `pathlib.Path(x).stem = stemS` and `sanitize_molecule_string = sanitizeStr` (the model's scanner;
      the regular expression is not translated).
    * cache: `srcGet fs klasses s m` = the regenerated `OpacityCache()[m]` on the Python layout of the state `s`
      (instantiated as in `src_getitem`: classes `Fmt`, `discover = discoverM fs`, constructor `constructM`); it returns
      `((opacity_dict, world), outcome)`.  Every other method is tied on its own (one call = one `step`,
      `src_set_interpolation`, `src_clear_cache`, …); a history is a `run` of the model, each step of which is one tied
      call, so the corollaries speak of the regenerated `__getitem__` applied to the layout of any state a history
      reaches.  Tie hypothesis kept visible: `VisitOrder fs klasses` (the model lists a directory's files in the order
      in which the classes are visited).

  Not restated (no tie)
    * `dec_enc_exo`, `dec_enc_exo_exact`, `exo_sorted`, `exo_wn_order_invariant`, `exo_aligned`, `exo_axes`, and the
      Exo-Transmit conjunct of `formats_agree`: the Exo-Transmit reader (`decExo`) is not translated (only its name
      handling is).
    * `hitran_clip_nonneg`, `hitran_ranges`: about `clipSigma` / `hLoad`, the reading loop of `load_hitran_file`, which is
      not translated.  `hitran_range_row`: a statement about the specification `rangeRow` alone.
    * `sanitize_idem`, `sanitize_alnum`, and the `sanitizeStr` / `.cia` conjuncts of `sanitize_examples`: `sanitizeStr` is
      the parameter standing for the regular expression; CIA pair names (`CIACache`) are not translated.  The file-name
      conjuncts of `sanitize_examples` are restated.
    * `names_consistent` for `.cia` (not translated) — restated for `.pickleXsec`, `.hdfK`, `.exo`.
    * `mem_mode_ignored`: about `loadObj`, the model of the constructor call (the parameter `constructM` of the tie).
    * `inconsistent_entry_reloads`: a concrete `trace` of the model kept as a witness; `dec_enc_pickleC` is restated.
-/
import Props.C14
import Props.C14Src
import Proofs.RealInst
set_option linter.unusedSectionVars false

namespace Taurex.C14SrcProps
open Taurex.Loaders Taurex.Sanitize Taurex.CacheSM Taurex.Interp Taurex.Gen Taurex.C14 Taurex.C14Src

/-! ## readers: the container written from a table loads to that table -/

/-- `PickleOpacity._load_pickle_file`: `(_wavenumber_grid, _temperature_grid, _pressure_grid, _xsec_grid)` -/
noncomputable def srcPickleLoad (f : PickleX ℝ) : List ℝ × List ℝ × List ℝ × List (List (List ℝ)) :=
  Gen.SrcC14.PickleOpacity_load id f.p f.t f.wno f.xsecarr

theorem srcPickleLoad_eq (f : PickleX ℝ) :
    srcPickleLoad f = ((decPickle f).wn, (decPickle f).t, (decPickle f).p, (decPickle f).x) :=
  src_pickle_opacity_load f

/-- `HDF5Opacity._load_hdf_file`; `p0`, `x0` the previous values of the attributes assigned last -/
noncomputable def srcHdfLoad (f : HdfX ℝ) (mem : Bool) (p0 : List ℝ) (x0 : List (List (List ℝ))) :
    (List ℝ × List ℝ × List ℝ × List (List (List ℝ))) × Except Py.Err Unit :=
  Gen.SrcC14.HDF5Opacity_load id f.binEdges f.p f.units f.t f.xsecarr mem p0
    (fun n => optE (unitDirect n)) (fun n => optE (unitCds n)) x0

theorem srcHdfLoad_eq (f : HdfX ℝ) (mem : Bool) (p0 : List ℝ) (x0 : List (List (List ℝ))) :
    (∀ tab, decHdf f = some tab → srcHdfLoad f mem p0 x0 = ((tab.wn, tab.t, tab.p, tab.x), Except.ok ())) ∧
    (decHdf f = none → srcHdfLoad f mem p0 x0 = ((f.binEdges, f.t, p0, x0), Except.error Py.Err.valueError)) := by
  have h := src_hdf5_opacity_load f mem p0 x0
  unfold srcHdfLoad
  constructor
  · intro tab ht; rw [h, ht]
  · intro ht; rw [h, ht]

/-- `PickleKTable._load_pickle_file`: `(wavenumber grid, ngauss, temperatures, pressures, k-coefficients, weights)` -/
noncomputable def srcPickleKLoad (f : PickleK ℝ) :
    List ℝ × Nat × List ℝ × List ℝ × List (List (List (List ℝ))) × List ℝ :=
  Gen.SrcC14.PickleKTable_load f.binCenters f.kcoeff f.ngauss f.p f.t f.weights

theorem srcPickleKLoad_eq (f : PickleK ℝ) :
    srcPickleKLoad f
      = ((decPickleK f).wn, f.ngauss, (decPickleK f).t, (decPickleK f).p, (decPickleK f).k, (decPickleK f).weights) :=
  src_pickle_ktable_load f

/-- `HDF5KTable._load_pickle_file` -/
noncomputable def srcHdfKLoad (f : HdfK ℝ) (mem : Bool) (p0 w0 : List ℝ) (x0 : List (List (List (List ℝ)))) :
    (List ℝ × Nat × List ℝ × List ℝ × List (List (List (List ℝ))) × List ℝ) × Except Py.Err Unit :=
  Gen.SrcC14.HDF5KTable_load f.binCenters f.kcoeff f.ngauss f.p f.units f.t f.weights mem p0
    (fun n => optE (unitDirect n)) (fun n => optE (unitCds n)) w0 x0

theorem srcHdfKLoad_eq (f : HdfK ℝ) (mem : Bool) (p0 w0 : List ℝ) (x0 : List (List (List (List ℝ)))) :
    (∀ tab, decHdfK f = some tab →
      srcHdfKLoad f mem p0 w0 x0 = ((tab.wn, f.ngauss, tab.t, tab.p, tab.k, tab.weights), Except.ok ())) ∧
    (decHdfK f = none →
      srcHdfKLoad f mem p0 w0 x0 = ((f.binCenters, f.ngauss, f.t, p0, x0, w0), Except.error Py.Err.valueError)) := by
  have h := src_hdf5_ktable_load f mem p0 w0 x0
  unfold srcHdfKLoad
  constructor
  · intro tab ht; rw [h, ht]
  · intro ht; rw [h, ht]

/-- `PickleCIA._load_pickle_file`: `(wavenumber grid, temperature grid, table)` -/
noncomputable def srcPickleCLoad (f : PickleC ℝ) : List ℝ × List ℝ × List (List ℝ) :=
  Gen.SrcC14.PickleCIA_load f.t f.wno f.xsecarr

theorem srcPickleCLoad_eq (f : PickleC ℝ) :
    srcPickleCLoad f = ((decPickleC f).wn, (decPickleC f).t, (decPickleC f).x) :=
  src_pickle_cia_load f

/-- **dec_enc_pickle**, about the regenerated `PickleOpacity._load_pickle_file`: pressures written in bar come back in
    Pa, everything else as stored -/
theorem src_dec_enc_pickle (tab : XTab ℝ) : srcPickleLoad (encPickle tab) = (tab.wn, tab.t, tab.p, tab.x) := by
  rw [srcPickleLoad_eq, dec_enc_pickle]

/-- **dec_enc_hdf**, about the regenerated `HDF5Opacity._load_hdf_file`: with any pressure unit the reader converts the
    declared unit is undone exactly, and the reader does not raise -/
theorem src_dec_enc_hdf (tab : XTab ℝ) (units name : String) (c : ℝ) (hu : unitFactor true units = some c)
    (mem : Bool) (p0 : List ℝ) (x0 : List (List (List ℝ))) :
    srcHdfLoad (encHdf units c name tab) mem p0 x0 = ((tab.wn, tab.t, tab.p, tab.x), Except.ok ()) := by
  exact (srcHdfLoad_eq _ mem p0 x0).1 tab (dec_enc_hdf tab units name c hu)

/-- **dec_enc_pickleC**, about the regenerated `PickleCIA._load_pickle_file`: the table as it is -/
theorem src_dec_enc_pickleC (tab : CTab ℝ) : srcPickleCLoad (encPickleC tab) = (tab.wn, tab.t, tab.x) := by
  rw [srcPickleCLoad_eq, dec_enc_pickleC]

/-- **dec_enc_pickleK**, about the regenerated `PickleKTable._load_pickle_file` -/
theorem src_dec_enc_pickleK (tab : KTab ℝ) (name : String) :
    srcPickleKLoad (encPickleK name tab) = (tab.wn, tab.weights.length, tab.t, tab.p, tab.k, tab.weights) := by
  rw [srcPickleKLoad_eq, dec_enc_pickleK]
  rfl

/-- **dec_enc_hdfK**, about the regenerated `HDF5KTable._load_pickle_file` -/
theorem src_dec_enc_hdfK (tab : KTab ℝ) (units : String) (c : ℝ) (hu : unitFactor true units = some c)
    (mem : Bool) (p0 w0 : List ℝ) (x0 : List (List (List (List ℝ)))) :
    srcHdfKLoad (encHdfK units c tab) mem p0 w0 x0
      = ((tab.wn, tab.weights.length, tab.t, tab.p, tab.k, tab.weights), Except.ok ()) := by
  exact (srcHdfKLoad_eq _ mem p0 w0 x0).1 tab (dec_enc_hdfK tab units c hu)

/-- **formats_agree** (pickle and HDF5 conjuncts), about the regenerated readers: the two cross-section containers
    written from one table load the same attributes, those of the table -/
theorem src_formats_agree (tab : XTab ℝ) (units name : String) (c : ℝ) (hu : unitFactor true units = some c)
    (mem : Bool) (p0 : List ℝ) (x0 : List (List (List ℝ))) :
    srcHdfLoad (encHdf units c name tab) mem p0 x0 = (srcPickleLoad (encPickle tab), Except.ok ()) ∧
    srcPickleLoad (encPickle tab) = (tab.wn, tab.t, tab.p, tab.x) := by
  rw [src_dec_enc_hdf tab units name c hu, src_dec_enc_pickle]
  exact ⟨rfl, rfl⟩

/-- **formats_agree_k**, about the regenerated k-table readers -/
theorem src_formats_agree_k (tab : KTab ℝ) (units name : String) (c : ℝ) (hu : unitFactor true units = some c)
    (mem : Bool) (p0 w0 : List ℝ) (x0 : List (List (List (List ℝ)))) :
    srcHdfKLoad (encHdfK units c tab) mem p0 w0 x0 = (srcPickleKLoad (encPickleK name tab), Except.ok ()) ∧
    srcPickleKLoad (encPickleK name tab) = (tab.wn, tab.weights.length, tab.t, tab.p, tab.k, tab.weights) := by
  rw [src_dec_enc_hdfK tab units c hu, src_dec_enc_pickleK]
  exact ⟨rfl, rfl⟩

/-! ## HITRAN -/

/-- what the regenerated end of `HitranCIA.load_hitran_file` returns after the reading loop collected `hLoad blocks`:
    `((temperature_grid, _wn_dict, wavenumber_grid, xsec_grid), exception)` -/
noncomputable def srcHitranTail (hk : ℝ × ℝ → String) (blocks : List (HBlock ℝ)) (t0 w0 : List ℝ) (x0 : List (List ℝ)) :=
  Gen.SrcC14.HitranCIA_load_tail (hLoad blocks).1 argsort t0 w0 (gdict hk (hLoad blocks).2) x0

/-- the loaded table `(wavenumber_grid, temperature_grid, xsec_grid)` -/
noncomputable def srcHitranTab (hk : ℝ × ℝ → String) (blocks : List (HBlock ℝ)) (t0 w0 : List ℝ) (x0 : List (List ℝ)) :
    CTab ℝ :=
  { wn := (srcHitranTail hk blocks t0 w0 x0).1.2.2.1, t := (srcHitranTail hk blocks t0 w0 x0).1.1,
    x := (srcHitranTail hk blocks t0 w0 x0).1.2.2.2 }

theorem hLoad_ts_ne (blocks : List (HBlock ℝ)) : ∀ g ∈ (hLoad blocks).2, g.ts ≠ [] := by
  intro g hg
  obtain ⟨h1, _, h3⟩ := (hitran_ranges blocks).2.2 g hg
  rw [h1]
  intro h
  exact h3 (List.map_eq_nil_iff.1 h)

theorem srcHitranTab_eq (hk : ℝ × ℝ → String) (blocks : List (HBlock ℝ)) (t0 w0 : List ℝ) (x0 : List (List ℝ)) :
    srcHitranTab hk blocks t0 w0 x0 = decHitran blocks ∧ (srcHitranTail hk blocks t0 w0 x0).2 = Except.ok () := by
  obtain ⟨h1, h2, h3, h4⟩ :=
    src_load_hitran_decHitran (fun _ _ => not_lt) hk blocks (hLoad_ts_ne blocks) t0 w0 x0
  refine ⟨?_, h1⟩
  unfold srcHitranTab srcHitranTail
  rw [h2, h3, h4]

/-- **hitran_nonneg**, about the regenerated `fill_gaps` / `compute_final_grid`: no negative cross-section reaches the
    unified table of ANY HITRAN file -/
theorem src_hitran_nonneg (hk : ℝ × ℝ → String) (blocks : List (HBlock ℝ)) (t0 w0 : List ℝ) (x0 : List (List ℝ)) :
    ∀ row ∈ (srcHitranTab hk blocks t0 w0 x0).x, ∀ v ∈ row, 0 ≤ v := by
  rw [(srcHitranTab_eq hk blocks t0 w0 x0).1]; exact hitran_nonneg blocks

/-- **hitran_interp_nonneg**, about the regenerated `interp_lin_only`: between two non-negative values whose
    temperatures bracket `t` the interpolated value is non-negative -/
theorem src_hitran_interp_nonneg {u v t a b : ℝ} (hu : 0 ≤ u) (hv : 0 ≤ v) (h1 : a ≤ t) (h2 : t ≤ b) :
    0 ≤ Gen.SrcC14.interp_lin_only u v t a b := by
  rw [src_interp_lin_only]; exact hitran_interp_nonneg hu hv h1 h2

/-- **hitran_single_range**, about the regenerated end of `load_hitran_file` and `PickleCIA._load_pickle_file`: a HITRAN
    file with ONE wavenumber range loads to the table it was written from — the same attributes the pickle `.db` form
    gives -/
theorem src_hitran_single_range (hk : ℝ × ℝ → String) (pair : String) (tab : CTab ℝ) (hwf : tab.WF) (ht : tab.t ≠ [])
    (hts : tab.t.Pairwise (· < ·)) (hwn : tab.wn.Pairwise (· ≤ ·)) (t0 w0 : List ℝ) (x0 : List (List ℝ)) :
    ((srcHitranTab hk (encHitran pair tab) t0 w0 x0).wn, (srcHitranTab hk (encHitran pair tab) t0 w0 x0).t,
        (srcHitranTab hk (encHitran pair tab) t0 w0 x0).x) = srcPickleCLoad (encPickleC tab) ∧
    srcHitranTab hk (encHitran pair tab) t0 w0 x0 = tab := by
  rw [(srcHitranTab_eq hk (encHitran pair tab) t0 w0 x0).1, (hitran_single_range pair tab hwf ht hts hwn).2,
    src_dec_enc_pickleC]
  exact ⟨rfl, rfl⟩

/-- **hitran_unified**, about the regenerated end of `load_hitran_file`: for ANY HITRAN file in which no
    `(range, temperature)` pair occurs twice the loaded table IS the documented unified table -/
theorem src_hitran_unified (hk : ℝ × ℝ → String) (blocks : List (HBlock ℝ)) (hu : UniqueBlocks blocks)
    (t0 w0 : List ℝ) (x0 : List (List ℝ)) : srcHitranTab hk blocks t0 w0 x0 = hitranUnified blocks := by
  rw [(srcHitranTab_eq hk blocks t0 w0 x0).1]; exact hitran_unified blocks hu

/-- **hitran_master**, about the regenerated end of `load_hitran_file`: the loaded temperature axis is strictly
    increasing and holds exactly the temperatures that head some block -/
theorem src_hitran_master (hk : ℝ × ℝ → String) (blocks : List (HBlock ℝ)) (t0 w0 : List ℝ) (x0 : List (List ℝ)) :
    (srcHitranTab hk blocks t0 w0 x0).t = (hitranUnified blocks).t ∧ (hitranUnified blocks).t.Pairwise (· < ·) ∧
    ∀ T, T ∈ (hitranUnified blocks).t ↔ ∃ b ∈ blocks, b.temp = T := by
  rw [(srcHitranTab_eq hk blocks t0 w0 x0).1]; exact hitran_master blocks

/-! ## molecule names -/

/-- **sanitize_examples** (file-name conjuncts), about the regenerated name handling of the three classes -/
theorem src_name_examples :
    Gen.SrcC14.PickleOpacity_name "1H2-16O.R100.TauREx.pickle" stemS sanitizeStr = "H2O" ∧
    Gen.SrcC14.ExoTransmit_name "opac1H2-16O.dat" stemS sanitizeStr = "H2O" ∧
    Gen.SrcC14.HDF5KTable_name "1H2-16O__POKAZATEL__R1000.ktable.TauREx.h5" stemS sanitizeStr = "H2O" := by
  obtain ⟨_, _, _, _, _, h6, h7, _, h9, _⟩ := sanitize_examples
  refine ⟨?_, ?_, ?_⟩
  · rw [(src_pickle_opacity_names _ []).2]; exact h6
  · rw [(src_exo_names _ []).2]; exact h7
  · rw [(src_hdf5_ktable_names _ []).2]; exact h9

/-- **clean_noop**, about the regenerated `clean_molecule_name` of the three classes: it never changes a sanitised name -/
theorem src_clean_noop (x : String) :
    Gen.SrcC14.PickleOpacity_clean_molecule_name (sanitizeStr x) = sanitizeStr x ∧
    Gen.SrcC14.PickleKTable_clean_molecule_name (sanitizeStr x) = sanitizeStr x ∧
    Gen.SrcC14.HDF5KTable_clean_molecule_name (sanitizeStr x) = sanitizeStr x := by
  obtain ⟨h1, h2, h3⟩ := src_clean_molecule_name (sanitizeStr x)
  have e : String.ofList (firstPart '_' (sanitizeStr x).toList) = sanitizeStr x := by
    unfold sanitizeStr
    rw [String.toList_ofList, clean_noop]
  exact ⟨h1.trans e, h2.trans e, h3.trans e⟩

/-- **names_consistent**, about the regenerated classes: the name the object built from a file reports
    (`clean_molecule_name` of the name derived from the file name) is the name derived from the file name, which is what
    `discover()` advertises for the file -/
theorem src_names_consistent (fname : String) (files : List String) (interp : Option String) :
    Gen.SrcC14.PickleOpacity_clean_molecule_name (Gen.SrcC14.PickleOpacity_name fname stemS sanitizeStr)
      = Gen.SrcC14.PickleOpacity_name fname stemS sanitizeStr ∧
    Gen.SrcC14.HDF5KTable_clean_molecule_name (Gen.SrcC14.HDF5KTable_name fname stemS sanitizeStr)
      = Gen.SrcC14.HDF5KTable_name fname stemS sanitizeStr ∧
    (Gen.SrcC14.PickleOpacity_discover files stemS sanitizeStr interp).map (·.1)
      = files.map (fun f => Gen.SrcC14.PickleOpacity_name f stemS sanitizeStr) ∧
    (Gen.SrcC14.HDF5KTable_discover files stemS sanitizeStr interp).map (·.1)
      = files.map (fun f => Gen.SrcC14.HDF5KTable_name f stemS sanitizeStr) ∧
    (Gen.SrcC14.ExoTransmit_discover files stemS sanitizeStr interp).map (·.1)
      = files.map (fun f => Gen.SrcC14.ExoTransmit_name f stemS sanitizeStr) := by
  refine ⟨?_, ?_, ?_, ?_, ?_⟩
  · rw [(src_pickle_opacity_names fname []).1, (src_pickle_opacity_names fname []).2,
      names_consistent .pickleXsec fname.toList (by decide)]
  · rw [(src_hdf5_ktable_names fname []).1, (src_hdf5_ktable_names fname []).2,
      names_consistent .hdfK fname.toList (by decide)]
  · rw [src_pickle_opacity_discover, List.map_map]
    exact List.map_congr_left (fun f _ => ((src_pickle_opacity_names f []).2).symm)
  · rw [src_hdf5_ktable_discover, List.map_map]
    exact List.map_congr_left (fun f _ => ((src_hdf5_ktable_names f []).2).symm)
  · rw [src_exo_discover, List.map_map]
    exact List.map_congr_left (fun f _ => ((src_exo_names f []).2).symm)

/-! ## the cache -/

/-- the tie's hypothesis on the file system: the model lists a directory's files in the order in which
    `load_opacity_from_path` visits them (class by class, in the order of `klasses`) -/
def VisitOrder (fs : List Dir) (klasses : List Fmt) : Prop :=
  ∀ s : CSt, klasses.flatMap (fun c => (curFiles fs s).filter (fun e => decide (e.fmt = c))) = curFiles fs s

/-- the regenerated `OpacityCache()[m]` on the layout of the state `s`: `((opacity_dict, world), outcome)` -/
def srcGet (fs : List Dir) (klasses : List Fmt) (s : CSt) (m : String) :
    (List (String × Obj) × World) × Except Py.Err Obj :=
  Gen.SrcC14.OpacityCache_getitem m constructM (discoverM fs) klasses (fun o => o.mol)
    s.dict (worldOf s) s.interp s.memMode s.path

theorem srcGet_eq (fs : List Dir) (klasses : List Fmt) (hord : VisitOrder fs klasses) (s : CSt) (m : String) :
    srcGet fs klasses s m = (encS (step fs s (.get m)).1, respE (step fs s (.get m)).2) :=
  src_getitem fs klasses s m (hord s)

theorem respE_ok {r : Resp} {o : Obj} (h : respE r = Except.ok o) : r = .served o := by
  cases r <;> simp [respE] at h ⊢
  exact h

section cache
variable (fs : List Dir) (klasses : List Fmt) (hord : VisitOrder fs klasses)
include hord

/-- **served_same**, about the regenerated `__getitem__`: between two cache clears a molecule is served by one and the
    same object, and serving it again touches neither the dict nor the world (no further load) -/
theorem src_served_same (s : CSt) (m : String) (o : Obj) (ops : List COp)
    (hops : ∀ op ∈ ops, op.clears = false) (h : (srcGet fs klasses s m).2 = Except.ok o) :
    srcGet fs klasses (run fs (step fs s (.get m)).1 ops) m
      = (encS (run fs (step fs s (.get m)).1 ops), Except.ok o) := by
  rw [srcGet_eq fs klasses hord] at h
  rw [srcGet_eq fs klasses hord, served_same fs s m o ops hops (respE_ok h)]
  rfl

/-- **loaded_once**, about the regenerated `__getitem__`: between two cache clears a molecule is constructed at most
    once — the constructor-call log the request leaves behind holds at most one more call for `m` than the log the
    history started from -/
theorem src_loaded_once (hc : consistent fs) (s : CSt) (m : String) (ops : List COp)
    (hops : ∀ op ∈ ops, op.clears = false) :
    ((srcGet fs klasses (run fs s ops) m).1.2.1.filter (fun e => e.1 == m)).length ≤ loadsOf s m + 1 := by
  rw [srcGet_eq fs klasses hord]
  have h := loaded_once fs hc s m (ops ++ [.get m]) (by
    intro op hop
    rcases List.mem_append.1 hop with h | h
    · exact hops op h
    · simp only [List.mem_singleton] at h; subst h; rfl)
  simp only [run, List.foldl_append, List.foldl_cons, List.foldl_nil] at h
  exact h

/-- **interp_effective**, about the regenerated `__getitem__`: after `set_interpolation k` every object loaded from a
    file and served later has mode `k` (until the mode is changed again) -/
theorem src_interp_effective (s : CSt) (k : Nat) (ops : List COp) (m : String) (o : Obj)
    (hops : ∀ op ∈ ops, ∀ k', op ≠ .setInterp k')
    (h : (srcGet fs klasses (run fs (step fs s (.setInterp k)).1 ops) m).2 = Except.ok o) (hsrc : o.src ≠ none) :
    o.mode = k := by
  rw [srcGet_eq fs klasses hord] at h
  exact interp_effective fs s k ops m o hops (respE_ok h) hsrc

/-- **served_values_history_free**, about the regenerated `__getitem__`: what a request serves from a file is — source
    file, interpolation mode, name, memory flag — exactly what the same request serves on an emptied cache with the same
    configuration (premise: the path was not changed since the cache was last emptied) -/
theorem src_served_values_history_free (hc : consistent fs) (s : CSt) (c : COp) (hcl : c.clears = true)
    (ops : List COp) (hops : ∀ op ∈ ops, ∀ p, op ≠ .setPath p) (m : String) (o : Obj)
    (h : (srcGet fs klasses (run fs (step fs s c).1 ops) m).2 = Except.ok o) (hsrc : o.src ≠ none) :
    ∃ o', (srcGet fs klasses { run fs (step fs s c).1 ops with dict := [] } m).2 = Except.ok o' ∧
      o'.src = o.src ∧ o'.mode = o.mode ∧ o'.mol = o.mol ∧ o'.inMem = o.inMem := by
  rw [srcGet_eq fs klasses hord] at h
  obtain ⟨o', h1, rest⟩ := served_values_history_free fs hc s c hcl ops hops m o (respE_ok h) hsrc
  refine ⟨o', ?_, rest⟩
  rw [srcGet_eq fs klasses hord, h1]
  rfl

/-- **get_missing_error**, about the regenerated `__getitem__`: a molecule that is neither cached nor discoverable under
    the configured path raises `Exception('Opacity could not be loaded')`, leaving dict and world as they were -/
theorem src_get_missing_error (s : CSt) (m : String) (hd : lookup s.dict m = none)
    (hf : ∀ e ∈ curFiles fs s, e.disc ≠ m) :
    srcGet fs klasses s m = (encS s, Except.error Py.Err.exception) := by
  rw [srcGet_eq fs klasses hord, get_missing_error fs s m hd hf]
  rfl

end cache

end Taurex.C14SrcProps
