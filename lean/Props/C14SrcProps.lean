/-
  C14 — the property theorems restated about the REGENERATED source.  `Props/C14Src.lean` proves that the definitions
  translated on every run from the readers (`PickleOpacity._load_pickle_file`, `HDF5Opacity._load_hdf_file`,
  `PickleKTable._load_pickle_file`, `HDF5KTable._load_pickle_file`, `PickleCIA._load_pickle_file`, the end of
  `HitranCIA.load_hitran_file` with `fill_gaps` / `fill_temperature` / `compute_final_grid`), from the name handling of
  the opacity classes (`…_name`, `clean_molecule_name`, `discover`) and from `OpacityCache.__getitem__` (with
  `load_opacity`, `load_opacity_from_path`, `add_opacity`) compute the model's decoders (`decPickle`, `decHdf`, `decPickleK`,
  `decHdfK`, `decPickleC`, `decHitran`), `discName` / `objName`, and `step fs s (.get m)`; `Props/C14.lean` proves the
  property about these.  The corollaries below compose the two: they are statements about the text of the code as it is
  now.  `Props/C14.lean` is generic in an ordered field `K`; the corollaries are at `K = ℝ` (the ties need the carrier
  classes of the generated file, which ℝ has).

  What is composed
    * readers: `srcPickleLoad f`, `srcHdfLoad f mem p0 x0`, `srcPickleKLoad f`, `srcHdfKLoad f mem p0 w0 x0`,
      `srcPickleCLoad f` = the regenerated reader applied to the cells of the container `f`, instantiated exactly as in the
      ties (`allocate_as_shared = id`, the two unit parsers = `unitDirect` / `unitCds` read as raising `ValueError`); the
      result is the tuple of attributes the reader assigns (and, for HDF5, whether it raised).  "The file written from the
      table" is the model's `encPickle`, `encHdf`, … (a writer is not part of the package).
    * Exo-Transmit: `srcExoLoad parse E tiny lines` = the regenerated `_load_exo_transmit` after `f.readlines()` (block
      splitting, counters, stores into the table, argsort / re-ordering of the wavenumber axis, unit factors), with
      `parse` for the float-parsing of a line, `E` for `np.empty` (`EmptyOk`), `1e-6 := 1/1000000`, `1e-60 := tiny`.  The tie
      (`src_exo_load`) holds for well-formed files (`ExoWF`: non-empty header rows — the reader takes their `min()` —,
      blocks of one wavelength line and one row per header pressure); `ExoText` says the lines parse to the file's numbers.
    * HITRAN: `srcHitranTab hk blocks t0 w0 x0` = the table `(wavenumber_grid, temperature_grid, xsec_grid)` the
      regenerated end of `load_hitran_file` leaves behind when the reading loop has collected `hLoad blocks`;
      `srcHitranFile tx hk blocks` = the table the regenerated WHOLE function (reading loop, `read_header`, clipping, grouping
      into ranges included) loads from the text lines `tx.lines blocks` (`HText`: tokeniser / number parsers / how a block is
      written; `tx.Ok`: the tokens parse back; `HashOk`: `hashwn` separates the file's headers).  The tie's
      hypotheses are discharged: `hlt` (ℝ is linearly ordered), every range has a temperature (`hitran_ranges`).
    * names: the regenerated `PickleOpacity_name`, `ExoTransmit_name`, `HDF5KTable_name`, `…_clean_molecule_name`,
      `…_discover`, with `pathlib.Path(x).stem = stemS` and `sanitize_molecule_string = sanitizeStr` (the model's scanner;
      the regular expression is not translated).
    * cache: `srcGet fs klasses s m` = the regenerated `OpacityCache()[m]` on the Python layout of the state `s`
      (instantiated as in `src_getitem`: classes `Fmt`, `discover = discoverM fs`, constructor `constructM`); it returns
      `((opacity_dict, world), outcome)`.  Every other method is tied on its own (one call = one `step`,
      `src_set_interpolation`, `src_clear_cache`, …); a history is a `run` of the model, each step of which is one tied
      call, so the corollaries speak of the regenerated `__getitem__` applied to the layout of any state a history
      reaches.  Tie hypothesis kept visible: `VisitOrder fs klasses` (the model lists a directory's files in the order
      in which the classes are visited).
    * k-table cache: `srcKGet fs klasses pa s m` = the regenerated `KTableCache()[m]` (`src_k_getitem`: it is `stepK`);
      with `UniqueDisc fs` it is the cross-section machine (`ktable_same_machine`), so `served_same`, `loaded_once`,
      `interp_effective` are restated about it.
    * CIA cache: `srcCiaGet fs stem s m` = the regenerated `CIACache()[m]` (`src_cia_getitem`: it is `CiaSM.step`);
      hypothesis kept visible: `hdisc` (the model's pair name of a file is its stem up to the first `_`).

  Not restated (no tie)
    * `hitran_range_row`: a statement about the specification `rangeRow` alone.  (`hitran_clip_nonneg`, `hitran_ranges`: the
      reading loop is translated now — `src_load_hitran_file`, restated as `src_file_hitran_*`.)
    * `sanitize_idem`, `sanitize_alnum`, and the `sanitizeStr` / `.cia` conjuncts of `sanitize_examples`: `sanitizeStr` is
      the parameter standing for the regular expression; the sanitising of CIA pair names is not translated.  The file-name
      conjuncts of `sanitize_examples` are restated.
    * `names_consistent` for `.cia` (not translated) — restated for `.pickleXsec`, `.hdfK`, `.exo`.
    * `mem_mode_ignored`: about `loadObj`, the model of the constructor call (the parameter `constructM` of the tie).
    * `inconsistent_entry_reloads`: a concrete `trace` of the model kept as a witness; `dec_enc_pickleC` is restated.
-/
import Props.C14
import Props.C14Src
import Proofs.RealInst
set_option linter.unusedSectionVars false

namespace Taurex.C14SrcProps
open Taurex.Loaders Taurex.Sanitize Taurex.CacheSM Taurex.Interp Taurex.Gen Taurex.C14 Taurex.C14Src

/-! ## readers: the container written from a table loads to that table -/

/-- `PickleOpacity._load_pickle_file`: `(_wavenumber_grid, _temperature_grid, _pressure_grid, _xsec_grid)` -/
noncomputable def srcPickleLoad (f : PickleX ℝ) : List ℝ × List ℝ × List ℝ × List (List (List ℝ)) :=
  Gen.SrcC14.PickleOpacity_load id f.p f.t f.wno f.xsecarr

theorem srcPickleLoad_eq (f : PickleX ℝ) :
    srcPickleLoad f = ((decPickle f).wn, (decPickle f).t, (decPickle f).p, (decPickle f).x) :=
  src_pickle_opacity_load f

/-- `HDF5Opacity._load_hdf_file`; `p0`, `x0` the previous values of the attributes assigned last -/
noncomputable def srcHdfLoad (f : HdfX ℝ) (mem : Bool) (p0 : List ℝ) (x0 : List (List (List ℝ))) :
    (List ℝ × List ℝ × List ℝ × List (List (List ℝ))) × Except Py.Err Unit :=
  Gen.SrcC14.HDF5Opacity_load id f.binEdges f.p f.units f.t f.xsecarr mem p0
    (fun n => optE (unitDirect n)) (fun n => optE (unitCds n)) x0

theorem srcHdfLoad_eq (f : HdfX ℝ) (mem : Bool) (p0 : List ℝ) (x0 : List (List (List ℝ))) :
    (∀ tab, decHdf f = some tab → srcHdfLoad f mem p0 x0 = ((tab.wn, tab.t, tab.p, tab.x), Except.ok ())) ∧
    (decHdf f = none → srcHdfLoad f mem p0 x0 = ((f.binEdges, f.t, p0, x0), Except.error Py.Err.valueError)) := by
  have h := src_hdf5_opacity_load f mem p0 x0
  unfold srcHdfLoad
  constructor
  · intro tab ht; rw [h, ht]
  · intro ht; rw [h, ht]

/-- `PickleKTable._load_pickle_file`: `(wavenumber grid, ngauss, temperatures, pressures, k-coefficients, weights)` -/
noncomputable def srcPickleKLoad (f : PickleK ℝ) :
    List ℝ × Nat × List ℝ × List ℝ × List (List (List (List ℝ))) × List ℝ :=
  Gen.SrcC14.PickleKTable_load f.binCenters f.kcoeff f.ngauss f.p f.t f.weights

theorem srcPickleKLoad_eq (f : PickleK ℝ) :
    srcPickleKLoad f
      = ((decPickleK f).wn, f.ngauss, (decPickleK f).t, (decPickleK f).p, (decPickleK f).k, (decPickleK f).weights) :=
  src_pickle_ktable_load f

/-- `HDF5KTable._load_pickle_file` -/
noncomputable def srcHdfKLoad (f : HdfK ℝ) (mem : Bool) (p0 w0 : List ℝ) (x0 : List (List (List (List ℝ)))) :
    (List ℝ × Nat × List ℝ × List ℝ × List (List (List (List ℝ))) × List ℝ) × Except Py.Err Unit :=
  Gen.SrcC14.HDF5KTable_load f.binCenters f.kcoeff f.ngauss f.p f.units f.t f.weights mem p0
    (fun n => optE (unitDirect n)) (fun n => optE (unitCds n)) w0 x0

theorem srcHdfKLoad_eq (f : HdfK ℝ) (mem : Bool) (p0 w0 : List ℝ) (x0 : List (List (List (List ℝ)))) :
    (∀ tab, decHdfK f = some tab →
      srcHdfKLoad f mem p0 w0 x0 = ((tab.wn, f.ngauss, tab.t, tab.p, tab.k, tab.weights), Except.ok ())) ∧
    (decHdfK f = none →
      srcHdfKLoad f mem p0 w0 x0 = ((f.binCenters, f.ngauss, f.t, p0, x0, w0), Except.error Py.Err.valueError)) := by
  have h := src_hdf5_ktable_load f mem p0 w0 x0
  unfold srcHdfKLoad
  constructor
  · intro tab ht; rw [h, ht]
  · intro ht; rw [h, ht]

/-- `PickleCIA._load_pickle_file`: `(wavenumber grid, temperature grid, table)` -/
noncomputable def srcPickleCLoad (f : PickleC ℝ) : List ℝ × List ℝ × List (List ℝ) :=
  Gen.SrcC14.PickleCIA_load f.t f.wno f.xsecarr

theorem srcPickleCLoad_eq (f : PickleC ℝ) :
    srcPickleCLoad f = ((decPickleC f).wn, (decPickleC f).t, (decPickleC f).x) :=
  src_pickle_cia_load f

/-- **dec_enc_pickle**, about the regenerated `PickleOpacity._load_pickle_file`: pressures written in bar come back in
    Pa, everything else as stored -/
theorem src_dec_enc_pickle (tab : XTab ℝ) : srcPickleLoad (encPickle tab) = (tab.wn, tab.t, tab.p, tab.x) := by
  rw [srcPickleLoad_eq, dec_enc_pickle]

/-- **dec_enc_hdf**, about the regenerated `HDF5Opacity._load_hdf_file`: with any pressure unit the reader converts the
    declared unit is undone exactly, and the reader does not raise -/
theorem src_dec_enc_hdf (tab : XTab ℝ) (units name : String) (c : ℝ) (hu : unitFactor true units = some c)
    (mem : Bool) (p0 : List ℝ) (x0 : List (List (List ℝ))) :
    srcHdfLoad (encHdf units c name tab) mem p0 x0 = ((tab.wn, tab.t, tab.p, tab.x), Except.ok ()) := by
  exact (srcHdfLoad_eq _ mem p0 x0).1 tab (dec_enc_hdf tab units name c hu)

/-- **dec_enc_pickleC**, about the regenerated `PickleCIA._load_pickle_file`: the table as it is -/
theorem src_dec_enc_pickleC (tab : CTab ℝ) : srcPickleCLoad (encPickleC tab) = (tab.wn, tab.t, tab.x) := by
  rw [srcPickleCLoad_eq, dec_enc_pickleC]

/-- **dec_enc_pickleK**, about the regenerated `PickleKTable._load_pickle_file` -/
theorem src_dec_enc_pickleK (tab : KTab ℝ) (name : String) :
    srcPickleKLoad (encPickleK name tab) = (tab.wn, tab.weights.length, tab.t, tab.p, tab.k, tab.weights) := by
  rw [srcPickleKLoad_eq, dec_enc_pickleK]
  rfl

/-- **dec_enc_hdfK**, about the regenerated `HDF5KTable._load_pickle_file` -/
theorem src_dec_enc_hdfK (tab : KTab ℝ) (units : String) (c : ℝ) (hu : unitFactor true units = some c)
    (mem : Bool) (p0 w0 : List ℝ) (x0 : List (List (List (List ℝ)))) :
    srcHdfKLoad (encHdfK units c tab) mem p0 w0 x0
      = ((tab.wn, tab.weights.length, tab.t, tab.p, tab.k, tab.weights), Except.ok ()) := by
  exact (srcHdfKLoad_eq _ mem p0 w0 x0).1 tab (dec_enc_hdfK tab units c hu)

/-- **formats_agree** (pickle and HDF5 conjuncts), about the regenerated readers: the two cross-section containers
    written from one table load the same attributes, those of the table -/
theorem src_formats_agree (tab : XTab ℝ) (units name : String) (c : ℝ) (hu : unitFactor true units = some c)
    (mem : Bool) (p0 : List ℝ) (x0 : List (List (List ℝ))) :
    srcHdfLoad (encHdf units c name tab) mem p0 x0 = (srcPickleLoad (encPickle tab), Except.ok ()) ∧
    srcPickleLoad (encPickle tab) = (tab.wn, tab.t, tab.p, tab.x) := by
  rw [src_dec_enc_hdf tab units name c hu, src_dec_enc_pickle]
  exact ⟨rfl, rfl⟩

/-- **formats_agree_k**, about the regenerated k-table readers -/
theorem src_formats_agree_k (tab : KTab ℝ) (units name : String) (c : ℝ) (hu : unitFactor true units = some c)
    (mem : Bool) (p0 w0 : List ℝ) (x0 : List (List (List (List ℝ)))) :
    srcHdfKLoad (encHdfK units c tab) mem p0 w0 x0 = (srcPickleKLoad (encPickleK name tab), Except.ok ()) ∧
    srcPickleKLoad (encPickleK name tab) = (tab.wn, tab.weights.length, tab.t, tab.p, tab.k, tab.weights) := by
  rw [src_dec_enc_hdfK tab units c hu, src_dec_enc_pickleK]
  exact ⟨rfl, rfl⟩

/-! ## Exo-Transmit -/

/-- the text lines `l0 :: l1 :: body` parse to the numbers of the file `f` -/
def ExoText (parse : String → List ℝ) (l0 l1 : String) (body : List String) (f : ExoFile ℝ) : Prop :=
  parse l0 = f.trow ∧ parse l1 = f.prow ∧ body.map parse = f.body

/-- a well-formed Exo-Transmit file: non-empty header rows; the body is a sequence of blocks, each a wavelength line followed
    by one row `P xsec(T₀) …` per pressure of the header -/
def ExoWF (f : ExoFile ℝ) : Prop :=
  f.trow ≠ [] ∧ f.prow ≠ [] ∧ ∃ B : List (ℝ × List (List ℝ)), f.body = B.flatMap (fun b => [b.1] :: b.2) ∧
    ∀ b ∈ B, b.2.length = f.prow.length ∧ ∀ r ∈ b.2, r.length = f.trow.length + 1

/-- `np.empty(shape)`: some array of that shape -/
def EmptyOk (E : Nat × Nat × Nat → List (List (List ℝ))) : Prop := ∀ a b c, ∃ g, E (a, b, c) = tab3 a b c g

/-- the table the regenerated `_load_exo_transmit` leaves behind: `(_wavenumber_grid, _temperature_grid, _pressure_grid,
    _xsec_grid)` as an `XTab`, and whether it raised -/
noncomputable def srcExoLoad (parse : String → List ℝ) (E : Nat × Nat × Nat → List (List (List ℝ))) (tiny : ℝ)
    (lines : List String) : XTab ℝ × Except Py.Err Unit :=
  let r := Gen.SrcC14.ExoTransmit_load lines (c1em06 := 1 / 1000000) (c1em60 := tiny) 0 0 0 0 argsort E parse [] [] [] []
  ({ wn := r.1.2.2.1, t := r.1.1, p := r.1.2.1, x := r.1.2.2.2.1 }, r.2)

theorem srcExoLoad_eq (parse : String → List ℝ) (E : Nat × Nat × Nat → List (List (List ℝ))) (hE : EmptyOk E) (tiny : ℝ)
    (l0 l1 : String) (body : List String) (f : ExoFile ℝ) (htx : ExoText parse l0 l1 body f) (hwf : ExoWF f) :
    srcExoLoad parse E tiny (l0 :: l1 :: body) = (decExo tiny f, Except.ok ()) := by
  obtain ⟨h0, h1, hb⟩ := htx
  obtain ⟨hT, hP, B, hB, hrows⟩ := hwf
  have := src_exo_load parse E hE tiny l0 l1 body B (by rw [hb, hB]) (by rw [h0, h1]; exact hrows) (by rw [h0]; exact hT)
    (by rw [h1]; exact hP) 0 0 0 0 [] [] [] []
  unfold srcExoLoad
  rw [this, h0, h1, hb]


theorem exoWF_encExo (tab : XTab ℝ) (ht : tab.t ≠ []) (hp : tab.p ≠ []) : ExoWF (encExo tab) := by
  refine ⟨ht, by simpa [encExo] using hp, _, encExo_body tab, ?_⟩
  intro b hb
  simp only [List.mem_map] at hb
  obtain ⟨k, _, rfl⟩ := hb
  refine ⟨by simp [exoBlock, exoRows, encExo], ?_⟩
  intro r hr
  simp only [exoBlock, exoRows, List.mem_map] at hr
  obtain ⟨i, _, rfl⟩ := hr
  simp [encExo]

section exo
variable (parse : String → List ℝ) (E : Nat × Nat × Nat → List (List (List ℝ))) (hE : EmptyOk E)
  (l0 l1 : String) (body : List String)
include hE

/-- **dec_enc_exo**, about the regenerated `_load_exo_transmit`: the text written from a table (wavelengths ascending, rows
    `P(bar) xsec(T)…` in m²) loads — without raising — to that table, every entry `v` coming back as
    `(v/10000 + tiny)·10000`, wavenumbers re-sorted ascending with the table permuted alike, pressures in Pa -/
theorem src_dec_enc_exo (tiny : ℝ) (tab : XTab ℝ) (htx : ExoText parse l0 l1 body (encExo tab)) (hwf : tab.WF)
    (ht : tab.t ≠ []) (hp : tab.p ≠ []) (hwn : tab.wn.Pairwise (· < ·)) (hpos : ∀ w ∈ tab.wn, 0 < w) :
    srcExoLoad parse E tiny (l0 :: l1 :: body) =
      ({ wn := tab.wn, t := tab.t, p := tab.p,
         x := tab.x.map fun row => row.map fun col => col.map (exoShift tiny) }, Except.ok ()) := by
  rw [srcExoLoad_eq parse E hE tiny l0 l1 body _ htx (exoWF_encExo tab ht hp), dec_enc_exo tiny tab hwf ht hwn hpos]

/-- **dec_enc_exo_exact** and the Exo-Transmit conjunct of **formats_agree**, about the regenerated readers: with the
    reader's `1e-60` set to 0 the text written from a table loads to the table the pickle container loads to — the table
    itself -/
theorem src_formats_agree_exo (tab : XTab ℝ) (htx : ExoText parse l0 l1 body (encExo tab)) (hwf : tab.WF)
    (ht : tab.t ≠ []) (hp : tab.p ≠ []) (hwn : tab.wn.Pairwise (· < ·)) (hpos : ∀ w ∈ tab.wn, 0 < w) :
    (srcExoLoad parse E 0 (l0 :: l1 :: body)).1 = tab ∧
    ((srcExoLoad parse E 0 (l0 :: l1 :: body)).1.wn, (srcExoLoad parse E 0 (l0 :: l1 :: body)).1.t,
      (srcExoLoad parse E 0 (l0 :: l1 :: body)).1.p, (srcExoLoad parse E 0 (l0 :: l1 :: body)).1.x)
      = srcPickleLoad (encPickle tab) := by
  rw [srcExoLoad_eq parse E hE 0 l0 l1 body _ htx (exoWF_encExo tab ht hp), dec_enc_exo_exact tab hwf ht hwn hpos,
    src_dec_enc_pickle]
  exact ⟨rfl, rfl⟩

variable (f : ExoFile ℝ) (htx : ExoText parse l0 l1 body f) (hwf : ExoWF f)
include htx hwf

/-- **exo_sorted**, about the regenerated `_load_exo_transmit`: whatever the order of the wavelength blocks in a
    well-formed file, the loaded wavenumber grid is ascending and a permutation of the file's wavenumbers -/
theorem src_exo_sorted (tiny : ℝ) :
    (srcExoLoad parse E tiny (l0 :: l1 :: body)).1.wn.Pairwise (· ≤ ·) ∧
    (srcExoLoad parse E tiny (l0 :: l1 :: body)).1.wn.Perm ((exoGroup f.body).map (fun b => exoWn b.1)) := by
  rw [srcExoLoad_eq parse E hE tiny l0 l1 body f htx hwf]
  exact exo_sorted tiny f

/-- **exo_aligned**, about the regenerated `_load_exo_transmit`: the table is permuted exactly like the wavenumber axis -/
theorem src_exo_aligned (tiny : ℝ) (i j : Nat) (hi : i < f.prow.length) (hj : j < f.trow.length) :
    let blocks := exoGroup f.body
    let wn0 := blocks.map (fun b => exoWn b.1)
    (srcExoLoad parse E tiny (l0 :: l1 :: body)).1.wn = (argsort wn0).map (fun k => wn0.getD k 0) ∧
    ((srcExoLoad parse E tiny (l0 :: l1 :: body)).1.x.getD i []).getD j [] =
      (argsort wn0).map (fun k => ((((blocks.getD k (0, [])).2.getD i []).getD (j + 1) 0) + tiny) * 10000) := by
  rw [srcExoLoad_eq parse E hE tiny l0 l1 body f htx hwf]
  exact exo_aligned tiny f i j hi hj

/-- **exo_axes**, about the regenerated `_load_exo_transmit`: temperatures as stored, pressures ×1e5, table shaped
    [P][T][wn] -/
theorem src_exo_axes (tiny : ℝ) :
    (srcExoLoad parse E tiny (l0 :: l1 :: body)).1.t = f.trow ∧
    (srcExoLoad parse E tiny (l0 :: l1 :: body)).1.p = f.prow.map (fun v => v * 100000) ∧
    (srcExoLoad parse E tiny (l0 :: l1 :: body)).1.x.length = f.prow.length ∧
    (∀ row ∈ (srcExoLoad parse E tiny (l0 :: l1 :: body)).1.x, row.length = f.trow.length ∧
      ∀ col ∈ row, col.length = (srcExoLoad parse E tiny (l0 :: l1 :: body)).1.wn.length) := by
  rw [srcExoLoad_eq parse E hE tiny l0 l1 body f htx hwf]
  exact exo_axes tiny f

/-- **exo_wn_order_invariant**, about the regenerated `_load_exo_transmit`: two well-formed files whose blocks carry the
    same wavelengths in any two orders load the same wavenumber grid -/
theorem src_exo_wn_order_invariant (tiny : ℝ) (l0' l1' : String) (body' : List String) (f' : ExoFile ℝ)
    (htx' : ExoText parse l0' l1' body' f') (hwf' : ExoWF f')
    (h : ((exoGroup f.body).map (fun b => exoWn b.1)).Perm ((exoGroup f'.body).map (fun b => exoWn b.1))) :
    (srcExoLoad parse E tiny (l0 :: l1 :: body)).1.wn = (srcExoLoad parse E tiny (l0' :: l1' :: body')).1.wn := by
  rw [srcExoLoad_eq parse E hE tiny l0 l1 body f htx hwf, srcExoLoad_eq parse E hE tiny l0' l1' body' f' htx' hwf']
  exact exo_wn_order_invariant tiny f f' h

end exo

/-! ## HITRAN -/

/-- what the regenerated end of `HitranCIA.load_hitran_file` returns after the reading loop collected `hLoad blocks`:
    `((temperature_grid, _wn_dict, wavenumber_grid, xsec_grid), exception)` -/
noncomputable def srcHitranTail (hk : ℝ × ℝ → String) (blocks : List (HBlock ℝ)) (t0 w0 : List ℝ) (x0 : List (List ℝ)) :=
  Gen.SrcC14.HitranCIA_load_tail (hLoad blocks).1 argsort t0 w0 (gdict hk (hLoad blocks).2) x0

/-- the loaded table `(wavenumber_grid, temperature_grid, xsec_grid)` -/
noncomputable def srcHitranTab (hk : ℝ × ℝ → String) (blocks : List (HBlock ℝ)) (t0 w0 : List ℝ) (x0 : List (List ℝ)) :
    CTab ℝ :=
  { wn := (srcHitranTail hk blocks t0 w0 x0).1.2.2.1, t := (srcHitranTail hk blocks t0 w0 x0).1.1,
    x := (srcHitranTail hk blocks t0 w0 x0).1.2.2.2 }

theorem hLoad_ts_ne (blocks : List (HBlock ℝ)) : ∀ g ∈ (hLoad blocks).2, g.ts ≠ [] := by
  intro g hg
  obtain ⟨h1, _, h3⟩ := (hitran_ranges blocks).2.2 g hg
  rw [h1]
  intro h
  exact h3 (List.map_eq_nil_iff.1 h)

theorem srcHitranTab_eq (hk : ℝ × ℝ → String) (blocks : List (HBlock ℝ)) (t0 w0 : List ℝ) (x0 : List (List ℝ)) :
    srcHitranTab hk blocks t0 w0 x0 = decHitran blocks ∧ (srcHitranTail hk blocks t0 w0 x0).2 = Except.ok () := by
  obtain ⟨h1, h2, h3, h4⟩ :=
    src_load_hitran_decHitran (fun _ _ => not_lt) hk blocks (hLoad_ts_ne blocks) t0 w0 x0
  refine ⟨?_, h1⟩
  unfold srcHitranTab srcHitranTail
  rw [h2, h3, h4]

/-- **hitran_nonneg**, about the regenerated `fill_gaps` / `compute_final_grid`: no negative cross-section reaches the
    unified table of ANY HITRAN file -/
theorem src_hitran_nonneg (hk : ℝ × ℝ → String) (blocks : List (HBlock ℝ)) (t0 w0 : List ℝ) (x0 : List (List ℝ)) :
    ∀ row ∈ (srcHitranTab hk blocks t0 w0 x0).x, ∀ v ∈ row, 0 ≤ v := by
  rw [(srcHitranTab_eq hk blocks t0 w0 x0).1]; exact hitran_nonneg blocks

/-- **hitran_interp_nonneg**, about the regenerated `interp_lin_only`: between two non-negative values whose
    temperatures bracket `t` the interpolated value is non-negative -/
theorem src_hitran_interp_nonneg {u v t a b : ℝ} (hu : 0 ≤ u) (hv : 0 ≤ v) (h1 : a ≤ t) (h2 : t ≤ b) :
    0 ≤ Gen.SrcC14.interp_lin_only u v t a b := by
  rw [src_interp_lin_only]; exact hitran_interp_nonneg hu hv h1 h2

/-- **hitran_single_range**, about the regenerated end of `load_hitran_file` and `PickleCIA._load_pickle_file`: a HITRAN
    file with ONE wavenumber range loads to the table it was written from — the same attributes the pickle `.db` form
    gives -/
theorem src_hitran_single_range (hk : ℝ × ℝ → String) (pair : String) (tab : CTab ℝ) (hwf : tab.WF) (ht : tab.t ≠ [])
    (hts : tab.t.Pairwise (· < ·)) (hwn : tab.wn.Pairwise (· ≤ ·)) (t0 w0 : List ℝ) (x0 : List (List ℝ)) :
    ((srcHitranTab hk (encHitran pair tab) t0 w0 x0).wn, (srcHitranTab hk (encHitran pair tab) t0 w0 x0).t,
        (srcHitranTab hk (encHitran pair tab) t0 w0 x0).x) = srcPickleCLoad (encPickleC tab) ∧
    srcHitranTab hk (encHitran pair tab) t0 w0 x0 = tab := by
  rw [(srcHitranTab_eq hk (encHitran pair tab) t0 w0 x0).1, (hitran_single_range pair tab hwf ht hts hwn).2,
    src_dec_enc_pickleC]
  exact ⟨rfl, rfl⟩

/-- **hitran_unified**, about the regenerated end of `load_hitran_file`: for ANY HITRAN file in which no
    `(range, temperature)` pair occurs twice the loaded table IS the documented unified table -/
theorem src_hitran_unified (hk : ℝ × ℝ → String) (blocks : List (HBlock ℝ)) (hu : UniqueBlocks blocks)
    (t0 w0 : List ℝ) (x0 : List (List ℝ)) : srcHitranTab hk blocks t0 w0 x0 = hitranUnified blocks := by
  rw [(srcHitranTab_eq hk blocks t0 w0 x0).1]; exact hitran_unified blocks hu

/-- **hitran_master**, about the regenerated end of `load_hitran_file`: the loaded temperature axis is strictly
    increasing and holds exactly the temperatures that head some block -/
theorem src_hitran_master (hk : ℝ × ℝ → String) (blocks : List (HBlock ℝ)) (t0 w0 : List ℝ) (x0 : List (List ℝ)) :
    (srcHitranTab hk blocks t0 w0 x0).t = (hitranUnified blocks).t ∧ (hitranUnified blocks).t.Pairwise (· < ·) ∧
    ∀ T, T ∈ (hitranUnified blocks).t ↔ ∃ b ∈ blocks, b.temp = T := by
  rw [(srcHitranTab_eq hk blocks t0 w0 x0).1]; exact hitran_master blocks

/-! ### the whole of `load_hitran_file`, reading loop included (`src_load_hitran_file`) -/

/-- the table `(wavenumber_grid, temperature_grid, xsec_grid)` the regenerated `HitranCIA.load_hitran_file` leaves behind for
    the file whose lines are `tx.lines blocks` (text encoding `tx`, hash `hk`), and whether it raised -/
noncomputable def srcHitranFile (tx : HText ℝ) (hk : ℝ × ℝ → String) (blocks : List (HBlock ℝ)) : CTab ℝ × Except Py.Err Unit :=
  let r := Gen.SrcC14.HitranCIA_load_hitran_file (c1em10 := 1 / 10000000000) (tx.lines blocks) (blocks.length + 1)
    (fun a b => hk (a, b)) (fun _ _ => ([], [])) argsort "" tx.splitWs [] tx.toFloat tx.toInt [] [] []
  ({ wn := r.1.2.2.2.1, t := r.1.2.1, x := r.1.2.2.2.2 }, r.2)

theorem srcHitranFile_eq (tx : HText ℝ) (hk : ℝ × ℝ → String) (blocks : List (HBlock ℝ)) (hok : tx.Ok blocks)
    (hh : HashOk hk blocks) : srcHitranFile tx hk blocks = (decHitran blocks, Except.ok ()) := by
  obtain ⟨pn, h⟩ := src_load_hitran_file (fun _ _ => not_lt) tx hk blocks hok hh "" [] [] []
  unfold srcHitranFile
  rw [h]

/-- non-vacuity of the hypotheses of `srcHitranFile_eq`: a one-block file `H2-H2 10 20 2 300 1` / `10 -5` / `20 7` -/
example :
    let b : HBlock ℝ := ⟨"H2-H2", 10, 20, 300, 1, [(10, -5), (20, 7)]⟩
    let tx : HText ℝ :=
      { splitWs := fun s => if s = "h" then ["H2-H2", "10", "20", "2", "300", "1"] else if s = "d1" then ["10", "-5"] else ["20", "7"]
        toFloat := fun s => if s = "10" then 10 else if s = "20" then 20 else if s = "300" then 300 else if s = "-5" then -5
          else if s = "7" then 7 else 1
        toInt := fun _ => 2
        hdr := fun _ => "h"
        dat := fun q => if q.1 = 10 then "d1" else "d2" }
    tx.Ok [b] ∧ HashOk (fun _ => "k") [b] ∧ tx.lines [b] = ["h", "d1", "d2"] := by
  intro b tx
  refine ⟨?_, ?_, ?_⟩
  · intro b' hb'
    simp only [List.mem_singleton] at hb'
    subst hb'
    refine ⟨⟨by decide, by simp [tx, b], by simp [tx, b], by simp [tx, b], by simp [tx, b]⟩, ?_⟩
    intro q hq
    simp only [b, List.mem_cons, List.mem_nil_iff, or_false] at hq
    rcases hq with rfl | rfl <;> simp [tx]
  · intro b1 h1 b2 h2
    simp only [List.mem_singleton] at h1 h2
    subst h1; subst h2
    simp [keyEq, eqv]
  · simp [HText.lines, tx, b]

section hitranfile
variable (tx : HText ℝ) (hk : ℝ × ℝ → String) (blocks : List (HBlock ℝ)) (hok : tx.Ok blocks) (hh : HashOk hk blocks)
include hok hh

/-- **hitran_nonneg** (with **hitran_clip_nonneg**: the clipping is part of the translated reading loop), about the
    regenerated `load_hitran_file` as a whole: the file is read without an exception and no negative cross-section reaches the
    table, whatever the signs of the numbers in the file -/
theorem src_file_hitran_nonneg :
    (srcHitranFile tx hk blocks).2 = Except.ok () ∧ ∀ row ∈ (srcHitranFile tx hk blocks).1.x, ∀ v ∈ row, 0 ≤ v := by
  rw [srcHitranFile_eq tx hk blocks hok hh]; exact ⟨rfl, hitran_nonneg blocks⟩

/-- **hitran_unified**, about the regenerated `load_hitran_file` as a whole: the table loaded from the text of ANY file in
    which no `(range, temperature)` pair occurs twice IS the documented unified table -/
theorem src_file_hitran_unified (hu : UniqueBlocks blocks) : (srcHitranFile tx hk blocks).1 = hitranUnified blocks := by
  rw [srcHitranFile_eq tx hk blocks hok hh]; exact hitran_unified blocks hu

/-- **hitran_master**, about the regenerated `load_hitran_file` as a whole -/
theorem src_file_hitran_master :
    (srcHitranFile tx hk blocks).1.t = (hitranUnified blocks).t ∧ (hitranUnified blocks).t.Pairwise (· < ·) ∧
    ∀ T, T ∈ (hitranUnified blocks).t ↔ ∃ b ∈ blocks, b.temp = T := by
  rw [srcHitranFile_eq tx hk blocks hok hh]; exact hitran_master blocks

end hitranfile

/-- **hitran_single_range**, about the regenerated `load_hitran_file` as a whole and `PickleCIA._load_pickle_file`: the text
    of a HITRAN file with ONE wavenumber range loads to the table it was written from — the attributes the pickle `.db` form
    gives -/
theorem src_file_hitran_single_range (tx : HText ℝ) (hk : ℝ × ℝ → String) (pair : String) (tab : CTab ℝ)
    (hok : tx.Ok (encHitran pair tab)) (hh : HashOk hk (encHitran pair tab)) (hwf : tab.WF) (ht : tab.t ≠ [])
    (hts : tab.t.Pairwise (· < ·)) (hwn : tab.wn.Pairwise (· ≤ ·)) :
    (srcHitranFile tx hk (encHitran pair tab)).1 = tab ∧
    ((srcHitranFile tx hk (encHitran pair tab)).1.wn, (srcHitranFile tx hk (encHitran pair tab)).1.t,
      (srcHitranFile tx hk (encHitran pair tab)).1.x) = srcPickleCLoad (encPickleC tab) := by
  rw [srcHitranFile_eq tx hk _ hok hh, (hitran_single_range pair tab hwf ht hts hwn).2, src_dec_enc_pickleC]
  exact ⟨rfl, rfl⟩

/-- **hitran_ranges**, about the regenerated `load_hitran_file` as a whole: the `_wn_dict` it leaves behind holds one range
    object per distinct `(start, end)` header — the ranges `hLoad` groups the blocks into, each filled up to the master
    temperature grid -/
theorem src_file_hitran_ranges (tx : HText ℝ) (hk : ℝ × ℝ → String) (blocks : List (HBlock ℝ)) (hok : tx.Ok blocks)
    (hh : HashOk hk blocks) :
    (Gen.SrcC14.HitranCIA_load_hitran_file (c1em10 := 1 / 10000000000) (tx.lines blocks) (blocks.length + 1)
        (fun a b => hk (a, b)) (fun _ _ => ([], [])) argsort "" tx.splitWs [] tx.toFloat tx.toInt [] [] []).1.2.2.1
      = gdict hk (fillGaps ((hLoad blocks).1.mergeSort (fun a b => decide (a ≤ b))) (hLoad blocks).2) ∧
    ((hLoad blocks).2.map (·.key)).Nodup ∧ (∀ b ∈ blocks, bKey b ∈ (hLoad blocks).2.map (·.key)) := by
  obtain ⟨pn, h⟩ := src_load_hitran_file (fun _ _ => not_lt) tx hk blocks hok hh "" [] [] []
  rw [h]
  exact ⟨rfl, (hitran_ranges blocks).1, (hitran_ranges blocks).2.1⟩

/-! ## molecule names -/

/-- **sanitize_examples** (file-name conjuncts), about the regenerated name handling of the three classes -/
theorem src_name_examples :
    Gen.SrcC14.PickleOpacity_name "1H2-16O.R100.TauREx.pickle" stemS sanitizeStr = "H2O" ∧
    Gen.SrcC14.ExoTransmit_name "opac1H2-16O.dat" stemS sanitizeStr = "H2O" ∧
    Gen.SrcC14.HDF5KTable_name "1H2-16O__POKAZATEL__R1000.ktable.TauREx.h5" stemS sanitizeStr = "H2O" := by
  obtain ⟨_, _, _, _, _, h6, h7, _, h9, _⟩ := sanitize_examples
  refine ⟨?_, ?_, ?_⟩
  · rw [(src_pickle_opacity_names _ []).2]; exact h6
  · rw [(src_exo_names _ []).2]; exact h7
  · rw [(src_hdf5_ktable_names _ []).2]; exact h9

/-- **clean_noop**, about the regenerated `clean_molecule_name` of the three classes: it never changes a sanitised name -/
theorem src_clean_noop (x : String) :
    Gen.SrcC14.PickleOpacity_clean_molecule_name (sanitizeStr x) = sanitizeStr x ∧
    Gen.SrcC14.PickleKTable_clean_molecule_name (sanitizeStr x) = sanitizeStr x ∧
    Gen.SrcC14.HDF5KTable_clean_molecule_name (sanitizeStr x) = sanitizeStr x := by
  obtain ⟨h1, h2, h3⟩ := src_clean_molecule_name (sanitizeStr x)
  have e : String.ofList (firstPart '_' (sanitizeStr x).toList) = sanitizeStr x := by
    unfold sanitizeStr
    rw [String.toList_ofList, clean_noop]
  exact ⟨h1.trans e, h2.trans e, h3.trans e⟩

/-- **names_consistent**, about the regenerated classes: the name the object built from a file reports
    (`clean_molecule_name` of the name derived from the file name) is the name derived from the file name, which is what
    `discover()` advertises for the file -/
theorem src_names_consistent (fname : String) (files : List String) (interp : Option String) :
    Gen.SrcC14.PickleOpacity_clean_molecule_name (Gen.SrcC14.PickleOpacity_name fname stemS sanitizeStr)
      = Gen.SrcC14.PickleOpacity_name fname stemS sanitizeStr ∧
    Gen.SrcC14.HDF5KTable_clean_molecule_name (Gen.SrcC14.HDF5KTable_name fname stemS sanitizeStr)
      = Gen.SrcC14.HDF5KTable_name fname stemS sanitizeStr ∧
    (Gen.SrcC14.PickleOpacity_discover files stemS sanitizeStr interp).map (·.1)
      = files.map (fun f => Gen.SrcC14.PickleOpacity_name f stemS sanitizeStr) ∧
    (Gen.SrcC14.HDF5KTable_discover files stemS sanitizeStr interp).map (·.1)
      = files.map (fun f => Gen.SrcC14.HDF5KTable_name f stemS sanitizeStr) ∧
    (Gen.SrcC14.ExoTransmit_discover files stemS sanitizeStr interp).map (·.1)
      = files.map (fun f => Gen.SrcC14.ExoTransmit_name f stemS sanitizeStr) := by
  refine ⟨?_, ?_, ?_, ?_, ?_⟩
  · rw [(src_pickle_opacity_names fname []).1, (src_pickle_opacity_names fname []).2,
      names_consistent .pickleXsec fname.toList (by decide)]
  · rw [(src_hdf5_ktable_names fname []).1, (src_hdf5_ktable_names fname []).2,
      names_consistent .hdfK fname.toList (by decide)]
  · rw [src_pickle_opacity_discover, List.map_map]
    exact List.map_congr_left (fun f _ => ((src_pickle_opacity_names f []).2).symm)
  · rw [src_hdf5_ktable_discover, List.map_map]
    exact List.map_congr_left (fun f _ => ((src_hdf5_ktable_names f []).2).symm)
  · rw [src_exo_discover, List.map_map]
    exact List.map_congr_left (fun f _ => ((src_exo_names f []).2).symm)

/-! ## the cache -/

/-- the tie's hypothesis on the file system: the model lists a directory's files in the order in which
    `load_opacity_from_path` visits them (class by class, in the order of `klasses`) -/
def VisitOrder (fs : List Dir) (klasses : List Fmt) : Prop :=
  ∀ s : CSt, klasses.flatMap (fun c => (curFiles fs s).filter (fun e => decide (e.fmt = c))) = curFiles fs s

/-- the regenerated `OpacityCache()[m]` on the layout of the state `s`: `((opacity_dict, world), outcome)` -/
def srcGet (fs : List Dir) (klasses : List Fmt) (s : CSt) (m : String) :
    (List (String × Obj) × World) × Except Py.Err Obj :=
  Gen.SrcC14.OpacityCache_getitem m constructM (discoverM fs) klasses (fun o => o.mol)
    s.dict (worldOf s) s.interp s.memMode s.path

theorem srcGet_eq (fs : List Dir) (klasses : List Fmt) (hord : VisitOrder fs klasses) (s : CSt) (m : String) :
    srcGet fs klasses s m = (encS (step fs s (.get m)).1, respE (step fs s (.get m)).2) :=
  src_getitem fs klasses s m (hord s)

theorem respE_ok {r : Resp} {o : Obj} (h : respE r = Except.ok o) : r = .served o := by
  cases r <;> simp [respE] at h ⊢
  exact h

section cache
variable (fs : List Dir) (klasses : List Fmt) (hord : VisitOrder fs klasses)
include hord

/-- **served_same**, about the regenerated `__getitem__`: between two cache clears a molecule is served by one and the
    same object, and serving it again touches neither the dict nor the world (no further load) -/
theorem src_served_same (s : CSt) (m : String) (o : Obj) (ops : List COp)
    (hops : ∀ op ∈ ops, op.clears = false) (h : (srcGet fs klasses s m).2 = Except.ok o) :
    srcGet fs klasses (run fs (step fs s (.get m)).1 ops) m
      = (encS (run fs (step fs s (.get m)).1 ops), Except.ok o) := by
  rw [srcGet_eq fs klasses hord] at h
  rw [srcGet_eq fs klasses hord, served_same fs s m o ops hops (respE_ok h)]
  rfl

/-- **loaded_once**, about the regenerated `__getitem__`: between two cache clears a molecule is constructed at most
    once — the constructor-call log the request leaves behind holds at most one more call for `m` than the log the
    history started from -/
theorem src_loaded_once (hc : consistent fs) (s : CSt) (m : String) (ops : List COp)
    (hops : ∀ op ∈ ops, op.clears = false) :
    ((srcGet fs klasses (run fs s ops) m).1.2.1.filter (fun e => e.1 == m)).length ≤ loadsOf s m + 1 := by
  rw [srcGet_eq fs klasses hord]
  have h := loaded_once fs hc s m (ops ++ [.get m]) (by
    intro op hop
    rcases List.mem_append.1 hop with h | h
    · exact hops op h
    · simp only [List.mem_singleton] at h; subst h; rfl)
  simp only [run, List.foldl_append, List.foldl_cons, List.foldl_nil] at h
  exact h

/-- **interp_effective**, about the regenerated `__getitem__`: after `set_interpolation k` every object loaded from a
    file and served later has mode `k` (until the mode is changed again) -/
theorem src_interp_effective (s : CSt) (k : Nat) (ops : List COp) (m : String) (o : Obj)
    (hops : ∀ op ∈ ops, ∀ k', op ≠ .setInterp k')
    (h : (srcGet fs klasses (run fs (step fs s (.setInterp k)).1 ops) m).2 = Except.ok o) (hsrc : o.src ≠ none) :
    o.mode = k := by
  rw [srcGet_eq fs klasses hord] at h
  exact interp_effective fs s k ops m o hops (respE_ok h) hsrc

/-- **served_values_history_free**, about the regenerated `__getitem__`: what a request serves from a file is — source
    file, interpolation mode, name, memory flag — exactly what the same request serves on an emptied cache with the same
    configuration (premise: the path was not changed since the cache was last emptied) -/
theorem src_served_values_history_free (hc : consistent fs) (s : CSt) (c : COp) (hcl : c.clears = true)
    (ops : List COp) (hops : ∀ op ∈ ops, ∀ p, op ≠ .setPath p) (m : String) (o : Obj)
    (h : (srcGet fs klasses (run fs (step fs s c).1 ops) m).2 = Except.ok o) (hsrc : o.src ≠ none) :
    ∃ o', (srcGet fs klasses { run fs (step fs s c).1 ops with dict := [] } m).2 = Except.ok o' ∧
      o'.src = o.src ∧ o'.mode = o.mode ∧ o'.mol = o.mol ∧ o'.inMem = o.inMem := by
  rw [srcGet_eq fs klasses hord] at h
  obtain ⟨o', h1, rest⟩ := served_values_history_free fs hc s c hcl ops hops m o (respE_ok h) hsrc
  refine ⟨o', ?_, rest⟩
  rw [srcGet_eq fs klasses hord, h1]
  rfl

/-- **get_missing_error**, about the regenerated `__getitem__`: a molecule that is neither cached nor discoverable under
    the configured path raises `Exception('Opacity could not be loaded')`, leaving dict and world as they were -/
theorem src_get_missing_error (s : CSt) (m : String) (hd : lookup s.dict m = none)
    (hf : ∀ e ∈ curFiles fs s, e.disc ≠ m) :
    srcGet fs klasses s m = (encS s, Except.error Py.Err.exception) := by
  rw [srcGet_eq fs klasses hord, get_missing_error fs s m hd hf]
  rfl

end cache

/-! ## the k-table cache -/

/-- the regenerated `KTableCache()[m]` on the layout of the state `s` (`pa`: what `self._opacity_path` holds — handed on and
    never used): `((opacity_dict, world), outcome)` -/
def srcKGet (fs : List Dir) (klasses : List Fmt) (pa : Option Nat) (s : CSt) (m : String) :
    (List (String × Obj) × World) × Except Py.Err Obj :=
  Gen.SrcC14.KTableCache_getitem m constructM (discoverK fs) klasses s.path (fun o => o.mol)
    s.dict pa (worldOf s) s.interp

theorem srcKGet_eq (fs : List Dir) (klasses : List Fmt) (hord : VisitOrder fs klasses) (pa : Option Nat) (s : CSt)
    (m : String) : srcKGet fs klasses pa s m = (encS (stepK fs s (.get m)).1, respE (stepK fs s (.get m)).2) :=
  src_k_getitem fs klasses s m pa (hord s)

section kcache
variable (fs : List Dir) (klasses : List Fmt) (hord : VisitOrder fs klasses) (hu : UniqueDisc fs) (pa : Option Nat)
include hord hu

/-- **ktable_same_machine**, about the regenerated `KTableCache.__getitem__`: with at most one k-table file per molecule
    and directory it computes what the cross-section machine computes -/
theorem src_ktable_same_machine (s : CSt) (m : String) :
    srcKGet fs klasses pa s m = (encS (step fs s (.get m)).1, respE (step fs s (.get m)).2) := by
  rw [srcKGet_eq fs klasses hord, (ktable_same_machine fs hu s []).1]

/-- **served_same**, about the regenerated `KTableCache.__getitem__` -/
theorem src_k_served_same (s : CSt) (m : String) (o : Obj) (ops : List COp)
    (hops : ∀ op ∈ ops, op.clears = false) (h : (srcKGet fs klasses pa s m).2 = Except.ok o) :
    srcKGet fs klasses pa (run fs (step fs s (.get m)).1 ops) m
      = (encS (run fs (step fs s (.get m)).1 ops), Except.ok o) := by
  rw [src_ktable_same_machine fs klasses hord hu pa] at h
  rw [src_ktable_same_machine fs klasses hord hu pa, served_same fs s m o ops hops (respE_ok h)]
  rfl

/-- **loaded_once**, about the regenerated `KTableCache.__getitem__` -/
theorem src_k_loaded_once (hc : consistent fs) (s : CSt) (m : String) (ops : List COp)
    (hops : ∀ op ∈ ops, op.clears = false) :
    ((srcKGet fs klasses pa (run fs s ops) m).1.2.1.filter (fun e => e.1 == m)).length ≤ loadsOf s m + 1 := by
  rw [src_ktable_same_machine fs klasses hord hu pa]
  have h := loaded_once fs hc s m (ops ++ [.get m]) (by
    intro op hop
    rcases List.mem_append.1 hop with h | h
    · exact hops op h
    · simp only [List.mem_singleton] at h; subst h; rfl)
  simp only [run, List.foldl_append, List.foldl_cons, List.foldl_nil] at h
  exact h

/-- **interp_effective**, about the regenerated `KTableCache.__getitem__`: after `OpacityCache().set_interpolation(k)`
    (which empties the k-table cache as well, `src_set_interpolation`) every k-table loaded and served later has mode `k` -/
theorem src_k_interp_effective (s : CSt) (k : Nat) (ops : List COp) (m : String) (o : Obj)
    (hops : ∀ op ∈ ops, ∀ k', op ≠ .setInterp k')
    (h : (srcKGet fs klasses pa (run fs (step fs s (.setInterp k)).1 ops) m).2 = Except.ok o) (hsrc : o.src ≠ none) :
    o.mode = k := by
  rw [src_ktable_same_machine fs klasses hord hu pa] at h
  exact interp_effective fs s k ops m o hops (respE_ok h) hsrc

end kcache

/-! ## the CIA cache -/

/-- the regenerated `CIACache()[m]` on the layout of the state `s`: `((cia_dict, world), outcome)`; `stem` stands for
    `Path(f).stem` -/
def srcCiaGet (fs : List CiaSM.CDir) (stem : CiaSM.CFile → String) (s : CiaSM.St) (m : String) :
    (List (String × CiaSM.CObj) × CWorld) × Except Py.Err CiaSM.CObj :=
  Gen.SrcC14.CIACache_getitem m () () s.dict s.path constructH constructP (globC fs) isList isStr
    (fun o => o.pair) pathItems Prod.mk stem (s.log, s.nextId)

section ciacache
variable (fs : List CiaSM.CDir) (stem : CiaSM.CFile → String)
  (hdisc : ∀ e, (Py.split1 '_' (stem e)).getD 0 "" = e.disc)
include hdisc

theorem srcCiaGet_eq (s : CiaSM.St) (m : String) :
    srcCiaGet fs stem s m = (encC (CiaSM.step fs s (.get m)).1, respC (CiaSM.step fs s (.get m)).2) :=
  src_cia_getitem fs stem hdisc s m

omit hdisc in
theorem respC_ok {r : CiaSM.Resp} {o : CiaSM.CObj} (h : respC r = Except.ok o) : r = .served o := by
  cases r <;> simp [respC] at h ⊢
  exact h

/-- **cia_served_same**, about the regenerated `CIACache.__getitem__`: a pair that was served is served by the same object
    after any history, and serving it touches neither the dict nor the world -/
theorem src_cia_served_same (s : CiaSM.St) (m : String) (o : CiaSM.CObj) (ops : List CiaSM.Op)
    (h : (srcCiaGet fs stem s m).2 = Except.ok o) :
    srcCiaGet fs stem (CiaSM.run fs (CiaSM.step fs s (.get m)).1 ops) m
      = (encC (CiaSM.run fs (CiaSM.step fs s (.get m)).1 ops), Except.ok o) := by
  rw [srcCiaGet_eq fs stem hdisc] at h
  rw [srcCiaGet_eq fs stem hdisc, cia_served_same fs s m o ops (respC_ok h)]
  rfl

/-- **cia_loaded_once**, about the regenerated `CIACache.__getitem__`: requesting a cached pair leaves the constructor-call
    log as it is -/
theorem src_cia_loaded_once (s : CiaSM.St) (m : String) (o : CiaSM.CObj) (ops : List CiaSM.Op)
    (h : CiaSM.lookup s.dict m = some o) :
    ((srcCiaGet fs stem (CiaSM.run fs s ops) m).1.2.1.filter (fun e => e.1 == m)).length = CiaSM.loadsOf s m := by
  rw [srcCiaGet_eq fs stem hdisc]
  have := cia_loaded_once fs s m o (ops ++ [.get m]) h
  simp only [CiaSM.run, List.foldl_append, List.foldl_cons, List.foldl_nil] at this
  exact this

/-- **cia_first_container_served**, about the regenerated `CIACache.__getitem__`: however many containers of the pair lie in
    the configured path, the request for an uncached pair returns the object built from the FIRST file in scan order that
    advertises it (directories in path order, `.db` before `.cia`); exactly one constructor call is logged; nothing raises -/
theorem src_cia_first_container_served (hc : CiaSM.consistent fs) (s : CiaSM.St) (m : String)
    (hl : CiaSM.lookup s.dict m = none) (e0 : CiaSM.CFile)
    (hf : (CiaSM.scan fs s.path).find? (fun e => e.disc == m) = some e0) :
    srcCiaGet fs stem s m =
      ((s.dict ++ [(m, { id := s.nextId, pair := m, src := some e0.fileId })], (s.log ++ [(m, e0.fileId)], s.nextId + 1)),
       Except.ok { id := s.nextId, pair := m, src := some e0.fileId }) := by
  rw [srcCiaGet_eq fs stem hdisc, cia_first_container_served fs hc s m hl e0 hf]
  rfl

/-- **cia_get_never_dup**, about the regenerated `CIACache.__getitem__`: it raises only `Exception('cia could notn be
    loaded')` — for a pair without a container in the path, leaving dict and world as they were — never the duplicate
    exception of `add_cia` -/
theorem src_cia_get_never_dup (hc : CiaSM.consistent fs) (s : CiaSM.St) (m : String) :
    ((srcCiaGet fs stem s m).2 = Except.error Py.Err.exception →
      (CiaSM.step fs s (.get m)).2 = .missing) ∧
    (CiaSM.lookup s.dict m = none → (CiaSM.scan fs s.path).find? (fun e => e.disc == m) = none →
      srcCiaGet fs stem s m = (encC s, Except.error Py.Err.exception)) := by
  rw [srcCiaGet_eq fs stem hdisc]
  refine ⟨?_, ?_⟩
  · intro h
    have hnd := (cia_get_never_dup fs hc s m).1
    cases hr : (CiaSM.step fs s (.get m)).2 with
    | served o => rw [hr] at h; simp [respC] at h
    | missing => rfl
    | done => simp [CiaSM.step, CiaSM.stepWith] at hr; split at hr <;> (try split at hr) <;> (try split at hr) <;> simp_all
    | dup => exact absurd hr hnd
  · intro hl hf
    rw [(cia_get_never_dup fs hc s m).2 hl hf]
    rfl

/-- the both-containers directory (`H2-H2.db` beside `H2-H2_2011.cia`), about the regenerated `CIACache.__getitem__`: the
    first request is served the `.db` object, the next one the same object -/
theorem src_cia_both_formats_served :
    let fs : List CiaSM.CDir := [[⟨.db, 0, "H2-H2", "H2-H2"⟩, ⟨.cia, 1, "H2-H2", "H2-H2"⟩]]
    let s0 : CiaSM.St := { CiaSM.init with path := some (.single 0) }
    (srcCiaGet fs stem s0 "H2-H2").2 = Except.ok ⟨0, "H2-H2", some 0⟩ ∧
    (srcCiaGet fs stem (CiaSM.step fs s0 (.get "H2-H2")).1 "H2-H2").2 = Except.ok ⟨0, "H2-H2", some 0⟩ ∧
    (CiaSM.step fs s0 (.get "H2-H2")).1.log = [("H2-H2", 0)] := by
  intro fs s0
  rw [srcCiaGet_eq fs stem hdisc, srcCiaGet_eq fs stem hdisc]
  refine ⟨?_, ?_, ?_⟩ <;> decide +kernel

end ciacache

end Taurex.C14SrcProps
