/-
  C17 — observations load independent of row order, with aligned columns and units.

  Theorems about `TaurexModel/Observation.lean` (`load`, `sortRowsDesc`, `edges4`, `widthConv`, `createBinner`,
  `binModel`, `fromTaurex`) — the definitions `driver_c17` executes on `Float` — at the carrier `ℝ`.
  `argsort` is an insertion sort by key; the order-dependent statements assume distinct wavelengths (the
  property's quantifier), the unit statements positive wavelengths.  The non-vacuity examples use `nvA`, `nvB`
  (`Proofs/C17NV.lean`): the rows (2,20,2,1), (4,40,4,2), (1,10,1,1/2) in two different orders.
-/
import Proofs.C17NV
import TaurexModel.ObsHolder

namespace Taurex.C17
open Taurex.Observation Taurex.Binning List

/-- **rows_integrity**: the stored rows are a permutation of the input rows — sorting moves whole rows, columns
    never mix — and the public columns are read off those rows: wavenumber `10000/wl`, value, error of the *same*
    row; with 4 columns the width is the row's own width converted at the row's own wavelength. -/
theorem rows_integrity (fourCol : Bool) (rows : List (ORow ℝ)) :
    (load fourCol rows).rows ~ rows ∧
    (load fourCol rows).wavenumberGrid = (load fourCol rows).rows.map (fun r => 10000 / r.wl) ∧
    (load fourCol rows).spectrum = (load fourCol rows).rows.map ORow.v ∧
    (load fourCol rows).errorBar = (load fourCol rows).rows.map ORow.e :=
  ⟨sortRowsDesc_perm rows, rfl, rfl, rfl⟩

example : (load true nvA).rows ~ nvA := (rows_integrity true nvA).1

/-- **widths_attached** (4 columns): `binWidths[i] = 10000·bw/wl²` of row `i` itself. -/
theorem widths_attached (rows : List (ORow ℝ)) :
    (load true rows).binWidths = (load true rows).rows.map (fun r => 10000 * r.bw / (r.wl * r.wl)) := by
  unfold Obs.binWidths load
  simp only [if_true]
  rw [zipWith_map_same]
  rfl

example : (load true nvA).binWidths = (load true nvA).rows.map (fun r => 10000 * r.bw / (r.wl * r.wl)) :=
  widths_attached nvA

/-- **perm_invariant**: any two orders of the same rows (distinct wavelengths) load to the same object. -/
theorem perm_invariant (fourCol : Bool) (rows₁ rows₂ : List (ORow ℝ)) (hp : rows₁ ~ rows₂)
    (hd : (rows₁.map ORow.wl).Nodup) : load fourCol rows₁ = load fourCol rows₂ := by
  unfold load
  rw [sortRowsDesc_eq_of_perm hp hd]

example : load true nvA = load true nvB := perm_invariant true nvA nvB nv_perm nv_nodup
example : load false nvA = load false nvB := perm_invariant false nvA nvB nv_perm nv_nodup

/-- **wn_ascending**: wavenumbers come out strictly ascending (distinct positive wavelengths). -/
theorem wn_ascending (fourCol : Bool) (rows : List (ORow ℝ)) (hd : (rows.map ORow.wl).Nodup)
    (hpos : ∀ r ∈ rows, 0 < r.wl) : (load fourCol rows).wavenumberGrid.Pairwise (· < ·) :=
  wn_strict rows hd hpos

example : (load true nvA).wavenumberGrid.Pairwise (· < ·) := wn_ascending true nvA nv_nodup nv_pos

/-- **edges_consistent** (4 columns): the edges are, row by row in the stored (descending-wavelength) order,
    `wl + bw/2` then `wl - bw/2`; `binEdges` is `10000/` that, so in ascending wavenumber
    `10000/(wl+bw/2), 10000/(wl-bw/2)` per bin. -/
theorem edges_consistent (rows : List (ORow ℝ)) :
    (load true rows).edgesWl = (load true rows).rows.flatMap (fun r => [r.wl + r.bw / 2, r.wl - r.bw / 2]) ∧
    (load true rows).binEdges =
      (load true rows).rows.flatMap (fun r => [10000 / (r.wl + r.bw / 2), 10000 / (r.wl - r.bw / 2)]) := by
  have h1 : (load true rows).edgesWl =
      (load true rows).rows.flatMap (fun r => [r.wl + r.bw / 2, r.wl - r.bw / 2]) := by
    unfold load
    simp only [if_true]
    unfold edges4
    rw [reverse_flatMap_reverse]
    rfl
  refine ⟨h1, ?_⟩
  unfold Obs.binEdges
  rw [h1, List.map_flatMap]
  rfl

/-- **edges_consistent** (3 columns): widths are the absolute differences of consecutive edges, the edges are the
    mid-points of the stored wavelengths with the two end edges extrapolated by half a spacing, and there is one
    more edge than rows. -/
theorem edges_consistent3 (rows : List (ORow ℝ)) (h : 1 ≤ rows.length) :
    (load false rows).bw = (diffs (load false rows).edgesWl).map absv ∧
    (load false rows).edgesWl = (computeBinEdges ((load false rows).rows.map ORow.wl)).1 ∧
    (load false rows).edgesWl.length = rows.length + 1 ∧ (load false rows).bw.length = rows.length := by
  have hl : (sortRowsDesc rows).length = rows.length := (sortRowsDesc_perm rows).length_eq
  refine ⟨rfl, rfl, ?_, length_bw false rows h⟩
  unfold load
  simp only [Bool.false_eq_true, if_false]
  rw [(length_computeBinEdges _ (by rw [List.length_map, hl]; exact h)).1, List.length_map, hl]

/-- the mid-point rule itself: interior edges are `(a+b)/2` -/
theorem midEdges_is_midpoint (a b : ℝ) (t : List ℝ) :
    midEdges (a :: b :: t) = ((a + b) / 2) :: midEdges (b :: t) := by
  rw [midEdges]; congr 1; ring

example : (load false nvA).edgesWl = [5, 3, 3 / 2, 1 / 2] := by
  have hs : sortRowsDesc nvA = [⟨4, 40, 4, 2⟩, ⟨2, 20, 2, 1⟩, ⟨1, 10, 1, 1 / 2⟩] := by
    norm_num [sortRowsDesc, sortBy, insertBy, nvA]
  unfold load
  simp only [Bool.false_eq_true, if_false, hs]
  norm_num [computeBinEdges, midEdges]

/-- **binner_aligned**: the binner created from the observation holds exactly the observation's centres and
    widths in the observation's order (its internal re-sort is the identity), so output index `i` of
    `bin_model` is the bin of observation `i`. -/
theorem binner_aligned (fourCol : Bool) (rows : List (ORow ℝ)) (hd : (rows.map ORow.wl).Nodup)
    (hpos : ∀ r ∈ rows, 0 < r.wl) (hlen : 1 ≤ rows.length) (native : List (Row ℝ)) :
    (load fourCol rows).createBinner.map TBin.c = (load fourCol rows).wavenumberGrid ∧
    (load fourCol rows).createBinner.map TBin.w = (load fourCol rows).binWidths ∧
    (load fourCol rows).binModel native =
      (List.zipWith (fun c w => ({ c := c, w := w } : TBin ℝ)) (load fourCol rows).wavenumberGrid
        (load fourCol rows).binWidths).map (fun t => fluxBinVal Row.s (nativeBins false native) t.lo t.hi) := by
  set o := load fourCol rows with ho
  have hlen' : o.wavenumberGrid.length = o.binWidths.length := by
    have h1 : o.wavenumberGrid.length = rows.length := by
      unfold Obs.wavenumberGrid
      rw [List.length_map]
      exact (sortRowsDesc_perm rows).length_eq
    have h2 : o.binWidths.length = rows.length := by
      unfold Obs.binWidths
      have hb := length_bw fourCol rows hlen
      rw [← ho] at hb
      have : o.wnWidths = List.zipWith widthConv (o.rows.map ORow.wl) o.bw := rfl
      rw [this, List.length_zipWith, List.length_map, hb]
      have : o.rows.length = rows.length := (sortRowsDesc_perm rows).length_eq
      omega
    omega
  have hz := zipWith_mk_map o.wavenumberGrid o.binWidths hlen'
  have hsorted : (List.zipWith (fun c w => ({ c := c, w := w } : TBin ℝ)) o.wavenumberGrid o.binWidths).Pairwise
      (fun t t' => t.c ≤ t'.c) := by
    have := wn_ascending fourCol rows hd hpos
    rw [← ho, ← hz.1, List.pairwise_map] at this
    exact this.imp le_of_lt
  have hid : o.createBinner =
      List.zipWith (fun c w => ({ c := c, w := w } : TBin ℝ)) o.wavenumberGrid o.binWidths := by
    unfold Obs.createBinner targetBins
    exact sortBy_of_sorted TBin.c _ hsorted
  refine ⟨by rw [hid]; exact hz.1, by rw [hid]; exact hz.2, ?_⟩
  unfold Obs.binModel fluxBindown
  rw [hid]

example : (load true nvA).createBinner.map TBin.c = (load true nvA).wavenumberGrid :=
  (binner_aligned true nvA nv_nodup nv_pos (by simp [nvA]) []).1

/-- **taurex_roundtrip**: a TauREx-HDF5 spectrum `(wn, value, noise, wn width)` converted to array rows and read
    back gives the stored wavenumber and the stored wavenumber width (positive wavenumbers). -/
theorem taurex_roundtrip (r : ORow ℝ) (h : 0 < r.wl) :
    10000 / (fromTaurex r).wl = r.wl ∧ widthConv (fromTaurex r).wl (fromTaurex r).bw = r.bw ∧
    (fromTaurex r).v = r.v ∧ (fromTaurex r).e = r.e := by
  have hne : r.wl ≠ 0 := ne_of_gt h
  refine ⟨?_, ?_, rfl, rfl⟩
  · unfold fromTaurex; simp only; field_simp
  · unfold fromTaurex widthConv; simp only; field_simp

example : widthConv (fromTaurex (⟨2500, 1, 1, 50⟩ : ORow ℝ)).wl (fromTaurex ⟨2500, 1, 1, 50⟩).bw = 50 :=
  (taurex_roundtrip ⟨2500, 1, 1, 50⟩ (by norm_num)).2.1

/-- **holder_invariant** (the consumer of `create_binner`, `Optimizer.__init__ / set_observed`): whatever the history of
    `set_observed` calls on one optimizer — observations replaced by others, `None` in between —, the binner it holds is
    the binner created from the observation it currently holds. -/
theorem holder_invariant (first : Option (Obs ℝ)) (ops : List (Option (Obs ℝ))) (o : Obs ℝ)
    (h : ((Holder.new first).after ops).observed = some o) :
    ((Holder.new first).after ops).binner = some o.createBinner := by
  have step : ∀ (hd : Holder ℝ) (x : Option (Obs ℝ)),
      (∀ o, hd.observed = some o → hd.binner = some o.createBinner) →
      ∀ o, (hd.setObserved x).observed = some o → (hd.setObserved x).binner = some o.createBinner := by
    intro hd x _ o ho
    cases x with
    | none => simp [Holder.setObserved] at ho
    | some ob =>
      simp only [Holder.setObserved, Option.some.injEq] at ho ⊢
      rw [ho]
  have all : ∀ (l : List (Option (Obs ℝ))) (hd : Holder ℝ),
      (∀ o, hd.observed = some o → hd.binner = some o.createBinner) →
      ∀ o, (hd.after l).observed = some o → (hd.after l).binner = some o.createBinner := by
    intro l
    induction l with
    | nil => intro hd inv; exact inv
    | cons x t ih =>
      intro hd inv
      exact ih (hd.setObserved x) (step hd x inv)
  refine all ops (Holder.new first) ?_ o h
  exact step _ first (by intro o ho; simp at ho)

example : ((Holder.new (some (load true nvB))).after [none, some (load true nvA)]).binner =
    some (load true nvA).createBinner :=
  holder_invariant _ _ _ rfl

/-- **holder_aligned**: after any history that ends with the observation `load fourCol rows`, the optimizer holds that
    observation, and the forward model it bins (what `chisq_trans` compares with `observed.spectrum`) is, element by
    element, the overlap mean over the bin (centre, width) of that observation's row `i` — never a bin of an observation
    it held before. -/
theorem holder_aligned (fourCol : Bool) (rows : List (ORow ℝ)) (hd : (rows.map ORow.wl).Nodup)
    (hpos : ∀ r ∈ rows, 0 < r.wl) (hlen : 1 ≤ rows.length) (first : Option (Obs ℝ))
    (ops : List (Option (Obs ℝ))) (native : List (Row ℝ)) :
    ((Holder.new first).after (ops ++ [some (load fourCol rows)])).observed = some (load fourCol rows) ∧
    ((Holder.new first).after (ops ++ [some (load fourCol rows)])).binModel native =
      some ((List.zipWith (fun c w => ({ c := c, w := w } : TBin ℝ)) (load fourCol rows).wavenumberGrid
        (load fourCol rows).binWidths).map (fun t => fluxBinVal Row.s (nativeBins false native) t.lo t.hi)) := by
  have hobs : ((Holder.new first).after (ops ++ [some (load fourCol rows)])).observed = some (load fourCol rows) := by
    simp [Holder.after, Holder.setObserved]
  refine ⟨hobs, ?_⟩
  unfold Holder.binModel
  rw [holder_invariant first _ _ hobs, Option.map_some]
  exact congrArg some (binner_aligned fourCol rows hd hpos hlen native).2.2

example : ((Holder.new (some (load false nvB))).after ([none] ++ [some (load true nvA)])).observed =
    some (load true nvA) :=
  (holder_aligned true nvA nv_nodup nv_pos (by simp [nvA]) _ [none] []).1

/-- **program_binner_of_observation** (the command-line program as the holder, `taurex/taurex.py:main`): whenever the
    program binds its output to the observation — `taurex_spectrum = self` with whatever `[Binning]` section, or an
    observation file with no `[Binning]` section / `bin_type = observed` — and gets as far as writing the output, the binner
    it holds then is the binner created from the observation it holds then; with `self` that observation is the one built
    from the instrument result (never the native binner or the `[Binning]` grid chosen before the instrument ran). -/
theorem program_binner_of_observation (b : BinDecl) (o : ObsDecl ℝ) (inst : Option (List (ORow ℝ))) (p : Program ℝ)
    (h : Program.run b o inst = some p)
    (hbound : o = ObsDecl.self ∨
      ((∃ ob, o = ObsDecl.given ob) ∧ (b = BinDecl.absent ∨ b = BinDecl.observed))) :
    ∃ ob, p.observed = some ob ∧ p.binner = ProgBinner.ofObs ob.createBinner ∧
      (∀ ob', o = ObsDecl.given ob' → ob = ob') ∧
      (o = ObsDecl.self → ∃ rows, inst = some rows ∧ ob = load true (rows.map fromTaurex)) := by
  rcases hbound with rfl | ⟨⟨ob, rfl⟩, rfl | rfl⟩
  · cases b <;> cases inst <;> simp [Program.run, Program.choose] at h
    all_goals
      subst h
      refine ⟨_, rfl, rfl, ?_, ?_⟩
      · intro _ h; cases h
      · intro _; exact ⟨_, rfl, rfl⟩
  · simp [Program.run, Program.choose] at h
    subst h
    exact ⟨ob, rfl, rfl, by intro _ h; cases h; rfl, by intro h; cases h⟩
  · simp [Program.run, Program.choose] at h
    subst h
    exact ⟨ob, rfl, rfl, by intro _ h; cases h; rfl, by intro h; cases h⟩

/-- non-vacuity: `self` on a declared `[Binning]` grid with an instrument result: the program ends up with the binner of
    the observation made from the instrument rows -/
example : ∃ p, Program.run BinDecl.manual (ObsDecl.self : ObsDecl ℝ) (some nvA) = some p ∧
    p.binner = ProgBinner.ofObs (load true (nvA.map fromTaurex)).createBinner :=
  ⟨_, rfl, rfl⟩

/-- **program_aligned**: `taurex_spectrum = self` with an instrument result `(wn, spectrum, noise, wn width)` of distinct
    positive wavenumbers, whatever the `[Binning]` section (`bin_type = observed` stops the program): the program holds the
    observation built from those rows, and the binned forward model it writes is, element by element, the overlap mean over
    the bin (centre, width) of that observation's row `i`. -/
theorem program_aligned (b : BinDecl) (hb : b ≠ BinDecl.observed) (rows : List (ORow ℝ))
    (hd : (rows.map ORow.wl).Nodup) (hpos : ∀ r ∈ rows, 0 < r.wl) (hlen : 1 ≤ rows.length) (native : List (Row ℝ)) :
    ∃ p, Program.run b ObsDecl.self (some rows) = some p ∧
      p.observed = some (load true (rows.map fromTaurex)) ∧
      p.binModel native =
        some ((List.zipWith (fun c w => ({ c := c, w := w } : TBin ℝ)) (load true (rows.map fromTaurex)).wavenumberGrid
          (load true (rows.map fromTaurex)).binWidths).map
            (fun t => fluxBinVal Row.s (nativeBins false native) t.lo t.hi)) := by
  have hd' : ((rows.map fromTaurex).map ORow.wl).Nodup := by
    rw [List.map_map]
    have : (rows.map (ORow.wl ∘ fromTaurex)) = (rows.map ORow.wl).map (fun x => 10000 / x) := by
      rw [List.map_map]; rfl
    rw [this]
    refine List.Nodup.map_on ?_ hd
    intro x hx y hy hxy
    obtain ⟨r, hr, rfl⟩ := List.mem_map.1 hx
    obtain ⟨r', hr', rfl⟩ := List.mem_map.1 hy
    have h1 := ne_of_gt (hpos r hr)
    have h2 := ne_of_gt (hpos r' hr')
    field_simp at hxy
    linarith
  have hpos' : ∀ r ∈ rows.map fromTaurex, 0 < r.wl := by
    intro r hr
    obtain ⟨r0, hr0, rfl⟩ := List.mem_map.1 hr
    unfold fromTaurex
    simp only
    exact div_pos (by norm_num) (hpos r0 hr0)
  have hal := binner_aligned true (rows.map fromTaurex) hd' hpos' (by simpa using hlen) native
  refine ⟨{ observed := some (load true (rows.map fromTaurex)),
            binner := ProgBinner.ofObs (load true (rows.map fromTaurex)).createBinner }, ?_, rfl, ?_⟩
  · cases b <;> simp [Program.run, Program.choose] at hb ⊢
  · simp only [Program.binModel]
    exact congrArg some hal.2.2

example : ∃ p, Program.run BinDecl.absent (ObsDecl.self : ObsDecl ℝ) (some nvA) = some p ∧
    p.observed = some (load true (nvA.map fromTaurex)) := by
  obtain ⟨p, h1, h2, _⟩ := program_aligned BinDecl.absent (by decide) nvA nv_nodup nv_pos (by simp [nvA]) []
  exact ⟨p, h1, h2⟩

end Taurex.C17
