/-
  C03 — the property theorems restated about the REGENERATED source.  `Props/C03Src.lean` proves that the definitions
  translated on every run from `Contribution.prepare`, `AbsorptionContribution.prepare` / `prepare_each`,
  `CIAContribution.prepare_each`, the kernels `contribute_tau` / `contribute_cia`, the three `contribute` methods and
  `TransmissionModel.path_integral` are the model's `sumComps`, `compAbs`, `compCIA`, (called as `path_integral` calls them)
  `addContrib` of kind `lin` / `sq` / `layerOnly`, and `tauCut` over the contribution list; `Props/C03.lean` proves the property
  about these.  The corollaries below compose the two: they are statements about the text of the code as it is now, at the
  real carrier.

  What is composed
    * `srcTau cia n ngrid path dens l sigma wn`: entry `[l, wn]` of the table the regenerated kernel (`contribute_tau`, or
      `contribute_cia` when `cia`) leaves when run on a zeroed `tau` with the arguments `path_integral` passes
      (`startK = 0`, `endK = n - l`, `density_offset = l`) — the optical depth of ONE contribution with prepared opacity
      `sigma` run alone (`model_contrib`); the model's `tauFull … [⟨kind, sigma⟩]`.  Tie hypothesis kept visible: `wn < ngrid`.
    * `Gen.SrcC03.contribution_prepare` (= `sumComps`, no hypotheses) and `Gen.SrcC03.absorption_prepare`
      (= `some (sumComps comps)` when anything was yielded; the `some S` is kept as a hypothesis).
    * `srcAbsComp … gases i` / `srcCIAComp … pairs i`: the `i`-th array the regenerated generator
      `AbsorptionContribution.prepare_each` / `CIAContribution.prepare_each` yields (= `compAbs` / `compCIA` on the layers,
      zero outside).  Tie hypothesis kept visible: position `i` exists in the list (`gases[i]? = some g`).
    * `srcTrans newMethod … cs l wn`: entry `[l, wn]` of the `exp(-tau)` table the regenerated
      `TransmissionModel.path_integral` returns for the contribution LIST `cs` (the loop over the layers, the loop over
      `self.contribution_list` with its `tau[layer].min() > 10` break, `compute_absorption`; `contrib.contribute` resolved
      to the three regenerated `contribute` methods by `C03Src.dispatch`); = `trans (tauCut … cs)` on the regenerated chord
      row `srcPath` (tie hypotheses kept visible: `0 < total`, `l < n`, `wn < nwn`).  `cs = [c]` is one iteration of
      `model_contrib`'s loop, `cs = [⟨κ, component⟩]` one of `model_full_contrib`'s.  `tauCut_single`,
      `product_within_cutoff`, `order_within_cutoff` are restated with every transmittance the source's;
      `transmittance_mul` with the per-contribution factors the source's and the total the documented integral `tauFull`
      (the code has no loop without the break); `tauFull_append`, `tauFull_perm` (and `transmittance_mul` with both sides
      the source's) for rows that come back unsaturated (`Unsaturated`: a condition on the RETURNED row), where the break
      provably did not fire.
    * `srcTauCloud`: the regenerated `SimpleCloudsContribution.contribute` on a zeroed table (kind `layerOnly`).
    * `srcContribDict`: the dict the regenerated `SimpleForwardModel.model_contrib()` returns (the loop that sets
      `self.contribution_list = [contrib]`, calls `contrib.prepare`, runs the regenerated `path_integral`, and stores the
      result under `contrib.name`; `name` and the effect `prepare` of `contrib.prepare` on the object are parameters).
      `product_within_cutoff` is restated with the factors READ FROM THAT DICT (`src_model_contrib_product`, for pairwise
      distinct names); for colliding names the dict provably loses an entry (`src_model_contrib_collision`: the known
      finding K4 as a theorem about the source).

  Not restated (no tie)
    * `SimpleForwardModel.model_full_contrib` (a generator-driven variant of the same loop: `for name, __ in
      contrib.prepare_each(…)` re-running `path_integral` while the generator is suspended) is not translated; its iterations
      are `srcTrans … [⟨κ, component⟩]` (`src_component_product_kinds`).
    * the `compScaled` (Rayleigh) conjunct of `sigma_prop`: the regenerated `RayleighContribution.prepare_each` skips
      molecules by a test on the mixing ratio itself, so the yielded lists of a profile and of its multiple are not
      index-aligned.
    * `nv_nonneg`: hypothesis builder for the examples.
-/
import Props.C03
import Props.C03Src
set_option linter.unusedSectionVars false

namespace Taurex.C03SrcProps
open Taurex.Transmission Taurex.Sigma Taurex.C03 Taurex.C03Src

/-! ### one contribution run alone: the kernels on a zeroed table -/

/-- the model's name for the kernel: `contribute_tau` is kind `lin`, `contribute_cia` kind `sq` -/
def kindOf (cia : Bool) : Kind := if cia then .sq else .lin

/-- entry `[l, wn]` of `tau` after the regenerated kernel ran on a zeroed table, called as `path_integral` calls it -/
noncomputable def srcTau (cia : Bool) (n ngrid : ℕ) (path dens : ℕ → ℝ) (l : ℕ) (sigma : ℕ → ℕ → ℝ) (wn : ℕ) : ℝ :=
  if cia then Gen.SrcC03.contribute_cia 0 (n - l) l sigma dens path ngrid l (fun _ _ => 0) l wn
  else Gen.SrcC03.contribute_tau 0 (n - l) l sigma dens path ngrid l (fun _ _ => 0) l wn

theorem srcTau_eq (cia : Bool) (n ngrid : ℕ) (path dens : ℕ → ℝ) (l : ℕ) (sigma : ℕ → ℕ → ℝ) (wn : ℕ)
    (hwn : wn < ngrid) :
    srcTau cia n ngrid path dens l sigma wn = tauFull n path dens l [{ kind := kindOf cia, sigma := sigma }] wn := by
  cases cia
  · simp only [srcTau, kindOf, Bool.false_eq_true, if_false]
    rw [src_contribute_tau_call]
    simp only [hwn, and_self, if_true]
    rfl
  · simp only [srcTau, kindOf, if_true]
    rw [src_contribute_cia_call]
    simp only [hwn, and_self, if_true]
    rfl

/-- each contribution's optical depth (regenerated kernel on the `sigma_xsec` the regenerated `Contribution.prepare`
    stores) is the sum over its components, each run through the same kernel alone -/
theorem src_component_sum (cia : Bool) (n ngrid nW nL : ℕ) (path dens : ℕ → ℝ) (l : ℕ) (comps : List (ℕ → ℕ → ℝ))
    (wn : ℕ) (hwn : wn < ngrid) :
    srcTau cia n ngrid path dens l (Gen.SrcC03.contribution_prepare nW comps nL) wn
      = (comps.map (fun s => srcTau cia n ngrid path dens l s wn)).sum := by
  have e : (fun s => srcTau cia n ngrid path dens l s wn)
      = fun s => tauFull n path dens l [{ kind := kindOf cia, sigma := s }] wn :=
    funext fun s => srcTau_eq cia n ngrid path dens l s wn hwn
  rw [srcTau_eq cia n ngrid path dens l _ wn hwn, src_contribution_prepare nL nW comps, e]
  exact component_sum n path dens l (kindOf cia) comps wn

/-- the same for the `sigma_xsec` the regenerated `AbsorptionContribution.prepare` stores (when it stores one) -/
theorem src_component_sum_absorption (n ngrid nW nL : ℕ) (path dens : ℕ → ℝ) (l : ℕ) (comps : List (ℕ → ℕ → ℝ))
    (S : ℕ → ℕ → ℝ) (hS : Gen.SrcC03.absorption_prepare nW comps nL = some S) (wn : ℕ) (hwn : wn < ngrid) :
    srcTau false n ngrid path dens l S wn = (comps.map (fun s => srcTau false n ngrid path dens l s wn)).sum := by
  rw [src_absorption_prepare nL nW comps] at hS
  have hS' : S = sumComps comps := by
    by_cases hc : comps = []
    · simp [hc] at hS
    · simp only [hc, if_false, Option.some.injEq] at hS
      exact hS.symm
  have e : (fun s => srcTau false n ngrid path dens l s wn)
      = fun s => tauFull n path dens l [{ kind := kindOf false, sigma := s }] wn :=
    funext fun s => srcTau_eq false n ngrid path dens l s wn hwn
  rw [srcTau_eq false n ngrid path dens l _ wn hwn, hS', e]
  exact component_sum n path dens l (kindOf false) comps wn

/-- … so its transmittance is the product over the components (what `model_full_contrib` returns) -/
theorem src_component_product (cia : Bool) (n ngrid nW nL : ℕ) (path dens : ℕ → ℝ) (l : ℕ)
    (comps : List (ℕ → ℕ → ℝ)) (wn : ℕ) (hwn : wn < ngrid) :
    Transmission.trans (srcTau cia n ngrid path dens l (Gen.SrcC03.contribution_prepare nW comps nL) wn)
      = (comps.map (fun s => Transmission.trans (srcTau cia n ngrid path dens l s wn))).prod := by
  have e : (fun s => Transmission.trans (srcTau cia n ngrid path dens l s wn))
      = fun s => Transmission.trans (tauFull n path dens l [{ kind := kindOf cia, sigma := s }] wn) :=
    funext fun s => by rw [srcTau_eq cia n ngrid path dens l s wn hwn]
  rw [srcTau_eq cia n ngrid path dens l _ wn hwn, src_contribution_prepare nL nW comps, e]
  exact component_product n path dens l (kindOf cia) comps wn

/-- a contribution's optical depth (regenerated kernel) is proportional to its weighted opacity -/
theorem src_tau_prop (cia : Bool) (n ngrid : ℕ) (path dens : ℕ → ℝ) (l : ℕ) (sig : ℕ → ℕ → ℝ) (s : ℝ) (wn : ℕ)
    (hwn : wn < ngrid) :
    srcTau cia n ngrid path dens l (fun a b => s * sig a b) wn = s * srcTau cia n ngrid path dens l sig wn := by
  rw [srcTau_eq cia n ngrid path dens l _ wn hwn, srcTau_eq cia n ngrid path dens l _ wn hwn]
  exact tau_prop n path dens l (kindOf cia) sig s wn

/-! ### the components the generators yield -/

section comps
variable {ι : Type}

/-- the `i`-th array the regenerated `AbsorptionContribution.prepare_each` yields (cross-section mode) -/
noncomputable def srcAbsComp (nW nlayers : ℕ) (T P : ℕ → ℝ) (opacity : ι → ℝ → ℝ → ℕ → ℝ) (mix : ι → ℕ → ℝ)
    (gases : List ι) (i : ℕ) : ℕ → ℕ → ℝ :=
  (Gen.SrcC03.absorption_prepare_each nW P T gases mix nlayers opacity).getD i (fun _ _ => 0)

theorem srcAbsComp_eq (nW nlayers : ℕ) (T P : ℕ → ℝ) (opacity : ι → ℝ → ℝ → ℕ → ℝ) (mix : ι → ℕ → ℝ)
    (gases : List ι) (i : ℕ) (g : ι) (hg : gases[i]? = some g) :
    srcAbsComp nW nlayers T P opacity mix gases i
      = fun l wn => if l < nlayers then compAbs (fun l wn => opacity g (T l) (P l) wn) (mix g) l wn else 0 := by
  unfold srcAbsComp
  rw [src_absorption_prepare_each]
  simp [List.getD_eq_getElem?_getD, List.getElem?_map, hg]

/-- the `i`-th array the regenerated `CIAContribution.prepare_each` yields -/
noncomputable def srcCIAComp (nW nL : ℕ) (T : ℕ → ℝ) (ciaXsec : ι → ℝ → ℕ → ℝ) (mixOne mixTwo : ι → ℕ → ℝ)
    (pairs : List ι) (i : ℕ) : ℕ → ℕ → ℝ :=
  (Gen.SrcC03.cia_prepare_each nW T ciaXsec mixOne mixTwo nL pairs).getD i (fun _ _ => 0)

theorem srcCIAComp_eq (nW nL : ℕ) (T : ℕ → ℝ) (ciaXsec : ι → ℝ → ℕ → ℝ) (mixOne mixTwo : ι → ℕ → ℝ)
    (pairs : List ι) (i : ℕ) (p : ι) (hp : pairs[i]? = some p) :
    srcCIAComp nW nL T ciaXsec mixOne mixTwo pairs i
      = fun l wn => if l < nL then compCIA (fun l wn => ciaXsec p (T l) wn) (mixOne p) (mixTwo p) l wn else 0 := by
  unfold srcCIAComp
  rw [src_cia_prepare_each]
  simp [List.getD_eq_getElem?_getD, List.getElem?_map, hp]

/-- a gas at zero abundance: the array the regenerated `AbsorptionContribution.prepare_each` yields for it is zero -/
theorem src_zero_abundance_abs (nW nlayers : ℕ) (T P : ℕ → ℝ) (opacity : ι → ℝ → ℝ → ℕ → ℝ) (mix : ι → ℕ → ℝ)
    (gases : List ι) (i : ℕ) (g : ι) (hg : gases[i]? = some g) (h0 : mix g = fun _ => 0) :
    srcAbsComp nW nlayers T P opacity mix gases i = (fun _ _ => 0) := by
  rw [srcAbsComp_eq nW nlayers T P opacity mix gases i g hg, h0,
    (zero_abundance (fun l wn => opacity g (T l) (P l) wn) (fun _ => 0) []).1]
  funext l wn; simp

/-- a pair one of whose partners is at zero abundance: the array the regenerated `CIAContribution.prepare_each` yields for
    it is zero -/
theorem src_zero_abundance_cia (nW nL : ℕ) (T : ℕ → ℝ) (ciaXsec : ι → ℝ → ℕ → ℝ) (mixOne mixTwo : ι → ℕ → ℝ)
    (pairs : List ι) (i : ℕ) (p : ι) (hp : pairs[i]? = some p) :
    (mixOne p = (fun _ => 0) → srcCIAComp nW nL T ciaXsec mixOne mixTwo pairs i = (fun _ _ => 0)) ∧
    (mixTwo p = (fun _ => 0) → srcCIAComp nW nL T ciaXsec mixOne mixTwo pairs i = (fun _ _ => 0)) := by
  rw [srcCIAComp_eq nW nL T ciaXsec mixOne mixTwo pairs i p hp]
  constructor
  · intro h0
    rw [h0, (zero_abundance (fun l wn => ciaXsec p (T l) wn) (mixTwo p) []).2.1]
    funext l wn; simp
  · intro h0
    rw [h0, (zero_abundance (fun l wn => ciaXsec p (T l) wn) (mixOne p) []).2.2.1]
    funext l wn; simp

/-- … and a zero component changes nothing in the `sigma_xsec` the regenerated `Contribution.prepare` stores -/
theorem src_zero_component (nW nL : ℕ) (comps : List (ℕ → ℕ → ℝ)) :
    Gen.SrcC03.contribution_prepare nW ((fun _ _ => (0 : ℝ)) :: comps) nL
      = Gen.SrcC03.contribution_prepare nW comps nL := by
  rw [src_contribution_prepare, src_contribution_prepare]
  exact (zero_abundance (fun _ _ => 0) (fun _ => 0) comps).2.2.2

/-- the array yielded for a gas is proportional to that gas's abundance (regenerated
    `AbsorptionContribution.prepare_each`, run on a mixing-ratio table and on one in which gas `g` is scaled by `s`) -/
theorem src_sigma_prop_abs (nW nlayers : ℕ) (T P : ℕ → ℝ) (opacity : ι → ℝ → ℝ → ℕ → ℝ) (mix mix' : ι → ℕ → ℝ)
    (gases : List ι) (i : ℕ) (g : ι) (hg : gases[i]? = some g) (s : ℝ) (hs : mix' g = fun j => s * mix g j)
    (l wn : ℕ) :
    srcAbsComp nW nlayers T P opacity mix' gases i l wn = s * srcAbsComp nW nlayers T P opacity mix gases i l wn := by
  rw [srcAbsComp_eq nW nlayers T P opacity mix' gases i g hg, srcAbsComp_eq nW nlayers T P opacity mix gases i g hg, hs]
  simp only
  split
  · exact (sigma_prop (fun l wn => opacity g (T l) (P l) wn) (mix g) (fun _ => 0) s l wn).1
  · simp

/-- the array yielded for a pair is proportional to the abundance of either partner (regenerated
    `CIAContribution.prepare_each`) -/
theorem src_sigma_prop_cia (nW nL : ℕ) (T : ℕ → ℝ) (ciaXsec : ι → ℝ → ℕ → ℝ) (mixOne mixTwo mixOne' mixTwo' : ι → ℕ → ℝ)
    (pairs : List ι) (i : ℕ) (p : ι) (hp : pairs[i]? = some p) (s : ℝ)
    (h1 : mixOne' p = fun j => s * mixOne p j) (h2 : mixTwo' p = fun j => s * mixTwo p j) (l wn : ℕ) :
    srcCIAComp nW nL T ciaXsec mixOne' mixTwo pairs i l wn = s * srcCIAComp nW nL T ciaXsec mixOne mixTwo pairs i l wn ∧
    srcCIAComp nW nL T ciaXsec mixOne mixTwo' pairs i l wn = s * srcCIAComp nW nL T ciaXsec mixOne mixTwo pairs i l wn := by
  rw [srcCIAComp_eq nW nL T ciaXsec mixOne' mixTwo pairs i p hp, srcCIAComp_eq nW nL T ciaXsec mixOne mixTwo' pairs i p hp,
    srcCIAComp_eq nW nL T ciaXsec mixOne mixTwo pairs i p hp, h1, h2]
  simp only
  have h := sigma_prop (fun l wn => ciaXsec p (T l) wn) (mixOne p) (mixTwo p) s l wn
  split
  · exact ⟨h.2.1, h.2.2.1⟩
  · simp

end comps

/-! ### the loop over a LIST of contributions: the regenerated `path_integral` -/

section loop
variable {newMethod : Bool} {rp rs : ℝ} {n nwn total : ℕ} {zb z dz dens : ℕ → ℝ}
  {planetPaths : (ℕ → ℝ) → (ℕ → ℕ → ℝ) → (ℕ → ℕ → ℝ) → List (ℕ → ℝ)}

/-- row `l` of the chord table the regenerated `path_integral` computes first (`self.path_length[l]`): the regenerated
    `compute_path_length_old(dz)`, or for `new_path_method=True` the regenerated `compute_path_length()` (whose 3-D
    geometry is the parameter `planetPaths`); `k ↦ 0` past the end of the list, as the loop reads it -/
noncomputable def srcPath (newMethod : Bool) (rp : ℝ) (n : ℕ) (zb z dz : ℕ → ℝ)
    (planetPaths : (ℕ → ℝ) → (ℕ → ℕ → ℝ) → (ℕ → ℕ → ℝ) → List (ℕ → ℝ)) (l : ℕ) : ℕ → ℝ :=
  (if newMethod then Gen.SrcC03.compute_path_length dz n planetPaths rp zb z
   else Gen.SrcC03.compute_path_length_old dz n rp z).getD l (fun _ => 0)

/-- entry `[l, wn]` of the `exp(-tau)` table the regenerated `path_integral` returns for the contribution list `cs`
    (`model()[2]`; with `cs = [c]` what `model_contrib` stores for `c`, with `cs = [⟨κ, component⟩]` what
    `model_full_contrib` stores), Python's dynamic dispatch `contrib.contribute(…)` resolved to the three regenerated
    `contribute` methods (`C03Src.dispatch`) -/
noncomputable def srcTrans (newMethod : Bool) (rp rs : ℝ) (n nwn total : ℕ) (zb z dz dens : ℕ → ℝ)
    (planetPaths : (ℕ → ℝ) → (ℕ → ℕ → ℝ) → (ℕ → ℕ → ℝ) → List (ℕ → ℝ)) (cs : List (Contrib ℝ)) (l wn : ℕ) : ℝ :=
  (Gen.SrcC03.path_integral nwn cs (dispatch nwn total n) dz dens n newMethod planetPaths rp rs zb z).2 l wn

/-- the tie: the returned transmittance is the model's loop WITH the early exit, `tauCut`, on the regenerated chords -/
theorem srcTrans_eq (ht : 0 < total) (cs : List (Contrib ℝ)) (l wn : ℕ) (hl : l < n) (hwn : wn < nwn) :
    srcTrans newMethod rp rs n nwn total zb z dz dens planetPaths cs l wn
      = Transmission.trans (tauCut n nwn (srcPath newMethod rp n zb z dz planetPaths l) dens l cs wn) :=
  (src_path_integral n nwn total ht rp rs z dz dens zb cs newMethod planetPaths).1 l hl wn hwn

/-- `tauCut_single` about the source: the regenerated `path_integral` run on ONE contribution (`model_contrib`) is never
    cut — it returns the documented integral of that contribution -/
theorem src_tauCut_single (ht : 0 < total) (c : Contrib ℝ) (l wn : ℕ) (hl : l < n) (hwn : wn < nwn) :
    srcTrans newMethod rp rs n nwn total zb z dz dens planetPaths [c] l wn
      = Transmission.trans (tauFull n (srcPath newMethod rp n zb z dz planetPaths l) dens l [c] wn) := by
  rw [srcTrans_eq ht [c] l wn hl hwn, tauCut_single n nwn (by omega)]

/-- `transmittance_mul` about the source: the transmittance of the documented integral over the whole list (`tauFull`, the
    sum without the early exit — the code has no such loop) is the product of what the regenerated `path_integral` returns
    for each contribution alone -/
theorem src_transmittance_mul (ht : 0 < total) (cs : List (Contrib ℝ)) (l wn : ℕ) (hl : l < n) (hwn : wn < nwn) :
    Transmission.trans (tauFull n (srcPath newMethod rp n zb z dz planetPaths l) dens l cs wn)
      = (cs.map (fun c => srcTrans newMethod rp rs n nwn total zb z dz dens planetPaths [c] l wn)).prod := by
  rw [transmittance_mul]
  congr 1
  apply List.map_congr_left
  intro c _
  rw [src_tauCut_single ht c l wn hl hwn]

/-- `product_within_cutoff` about the source: what the regenerated `path_integral` returns for the whole list is never
    below the product of what it returns for each contribution alone (`model_contrib`), and exceeds it by at most
    `exp(-10)` -/
theorem src_product_within_cutoff (ht : 0 < total) (l : ℕ) (hl : l < n)
    (hp : ∀ k < n - l, 0 ≤ srcPath newMethod rp n zb z dz planetPaths l k) (hd : ∀ j < n, 0 ≤ dens j)
    (cs : List (Contrib ℝ)) (hcs : ∀ c ∈ cs, c.Nonneg) (wn : ℕ) (hwn : wn < nwn) :
    (cs.map (fun c => srcTrans newMethod rp rs n nwn total zb z dz dens planetPaths [c] l wn)).prod
        ≤ srcTrans newMethod rp rs n nwn total zb z dz dens planetPaths cs l wn ∧
    srcTrans newMethod rp rs n nwn total zb z dz dens planetPaths cs l wn
        - (cs.map (fun c => srcTrans newMethod rp rs n nwn total zb z dz dens planetPaths [c] l wn)).prod
      ≤ Transmission.trans 10 := by
  have e : (fun c => srcTrans newMethod rp rs n nwn total zb z dz dens planetPaths [c] l wn)
      = fun c => Transmission.trans (tauCut n nwn (srcPath newMethod rp n zb z dz planetPaths l) dens l [c] wn) :=
    funext fun c => srcTrans_eq ht [c] l wn hl hwn
  rw [e, srcTrans_eq ht cs l wn hl hwn]
  exact product_within_cutoff n nwn _ dens l hp hd cs hcs wn hwn

/-- `order_within_cutoff` about the source: the regenerated `path_integral` run on two insertion orders of the same
    contributions returns transmittances within `exp(-10)` of each other -/
theorem src_order_within_cutoff (ht : 0 < total) (l : ℕ) (hl : l < n)
    (hp : ∀ k < n - l, 0 ≤ srcPath newMethod rp n zb z dz planetPaths l k) (hd : ∀ j < n, 0 ≤ dens j)
    (cs cs' : List (Contrib ℝ)) (hcs : ∀ c ∈ cs, c.Nonneg) (h : cs.Perm cs') (wn : ℕ) (hwn : wn < nwn) :
    |srcTrans newMethod rp rs n nwn total zb z dz dens planetPaths cs l wn
        - srcTrans newMethod rp rs n nwn total zb z dz dens planetPaths cs' l wn| ≤ Transmission.trans 10 := by
  rw [srcTrans_eq ht cs l wn hl hwn, srcTrans_eq ht cs' l wn hl hwn]
  exact order_within_cutoff n nwn _ dens l hp hd cs cs' hcs h wn hwn

/-- what "the early exit did not fire in row `l`" looks like on the RETURNED table: some column of the row is not below
    `exp(-10)` -/
def Unsaturated (newMethod : Bool) (rp rs : ℝ) (n nwn total : ℕ) (zb z dz dens : ℕ → ℝ)
    (planetPaths : (ℕ → ℝ) → (ℕ → ℕ → ℝ) → (ℕ → ℕ → ℝ) → List (ℕ → ℝ)) (cs : List (Contrib ℝ)) (l : ℕ) : Prop :=
  ∃ w < nwn, Transmission.trans 10 ≤ srcTrans newMethod rp rs n nwn total zb z dz dens planetPaths cs l w

/-- a row the regenerated `path_integral` returns unsaturated is exactly the documented integral over the whole list -/
theorem srcTrans_eq_full (ht : 0 < total) (l : ℕ) (hl : l < n)
    (hp : ∀ k < n - l, 0 ≤ srcPath newMethod rp n zb z dz planetPaths l k) (hd : ∀ j < n, 0 ≤ dens j)
    (cs : List (Contrib ℝ)) (hcs : ∀ c ∈ cs, c.Nonneg)
    (hU : Unsaturated newMethod rp rs n nwn total zb z dz dens planetPaths cs l) (wn : ℕ) (hwn : wn < nwn) :
    srcTrans newMethod rp rs n nwn total zb z dz dens planetPaths cs l wn
      = Transmission.trans (tauFull n (srcPath newMethod rp n zb z dz planetPaths l) dens l cs wn) := by
  obtain ⟨w, hw, h10⟩ := hU
  rw [srcTrans_eq ht cs l w hl hw] at h10
  rw [srcTrans_eq ht cs l wn hl hwn, tauCut_eq_full_of_trans n nwn _ dens l hp hd cs hcs w hw h10 wn]

/-- a sub-list of contributions of an unsaturated row is unsaturated too (its full sum is not larger) -/
theorem unsaturated_of_le (ht : 0 < total) (l : ℕ) (hl : l < n)
    (hp : ∀ k < n - l, 0 ≤ srcPath newMethod rp n zb z dz planetPaths l k) (hd : ∀ j < n, 0 ≤ dens j)
    (cs ds : List (Contrib ℝ)) (hcs : ∀ c ∈ cs, c.Nonneg) (hds : ∀ c ∈ ds, c.Nonneg)
    (hle : ∀ wn, tauFull n (srcPath newMethod rp n zb z dz planetPaths l) dens l ds wn
      ≤ tauFull n (srcPath newMethod rp n zb z dz planetPaths l) dens l cs wn)
    (hU : Unsaturated newMethod rp rs n nwn total zb z dz dens planetPaths cs l) :
    Unsaturated newMethod rp rs n nwn total zb z dz dens planetPaths ds l := by
  have hfull := srcTrans_eq_full ht l hl hp hd cs hcs hU
  obtain ⟨w, hw, h10⟩ := hU
  refine ⟨w, hw, ?_⟩
  rw [hfull w hw] at h10
  rw [srcTrans_eq ht ds l w hl hw]
  exact h10.trans (trans_anti ((tauCut_le_full n nwn _ dens l hp hd ds hds w).trans (hle w)))

/-- `tauFull_append` about the source: when the row of the concatenated list comes back unsaturated, the regenerated
    `path_integral` is multiplicative over concatenation (the optical depths add) -/
theorem src_tauFull_append (ht : 0 < total) (l : ℕ) (hl : l < n)
    (hp : ∀ k < n - l, 0 ≤ srcPath newMethod rp n zb z dz planetPaths l k) (hd : ∀ j < n, 0 ≤ dens j)
    (cs ds : List (Contrib ℝ)) (hcs : ∀ c ∈ cs, c.Nonneg) (hds : ∀ c ∈ ds, c.Nonneg)
    (hU : Unsaturated newMethod rp rs n nwn total zb z dz dens planetPaths (cs ++ ds) l) (wn : ℕ) (hwn : wn < nwn) :
    srcTrans newMethod rp rs n nwn total zb z dz dens planetPaths (cs ++ ds) l wn
      = srcTrans newMethod rp rs n nwn total zb z dz dens planetPaths cs l wn
        * srcTrans newMethod rp rs n nwn total zb z dz dens planetPaths ds l wn := by
  have hall : ∀ c ∈ cs ++ ds, c.Nonneg := fun c hc => (List.mem_append.1 hc).elim (hcs c) (hds c)
  have h1 : ∀ w, 0 ≤ tauFull n (srcPath newMethod rp n zb z dz planetPaths l) dens l cs w :=
    tauFull_nonneg' n _ dens l hp hd cs hcs
  have h2 : ∀ w, 0 ≤ tauFull n (srcPath newMethod rp n zb z dz planetPaths l) dens l ds w :=
    tauFull_nonneg' n _ dens l hp hd ds hds
  have hUc := unsaturated_of_le ht l hl hp hd (cs ++ ds) cs hall hcs
    (fun w => by rw [tauFull_append]; linarith [h2 w]) hU
  have hUd := unsaturated_of_le ht l hl hp hd (cs ++ ds) ds hall hds
    (fun w => by rw [tauFull_append]; linarith [h1 w]) hU
  rw [srcTrans_eq_full ht l hl hp hd (cs ++ ds) hall hU wn hwn, srcTrans_eq_full ht l hl hp hd cs hcs hUc wn hwn,
    srcTrans_eq_full ht l hl hp hd ds hds hUd wn hwn, tauFull_append, trans_add]

/-- `tauFull_perm` about the source: when the row comes back unsaturated, the regenerated `path_integral` returns the
    same row for every insertion order of the contributions -/
theorem src_tauFull_perm (ht : 0 < total) (l : ℕ) (hl : l < n)
    (hp : ∀ k < n - l, 0 ≤ srcPath newMethod rp n zb z dz planetPaths l k) (hd : ∀ j < n, 0 ≤ dens j)
    (cs cs' : List (Contrib ℝ)) (hcs : ∀ c ∈ cs, c.Nonneg) (h : cs.Perm cs')
    (hU : Unsaturated newMethod rp rs n nwn total zb z dz dens planetPaths cs l) (wn : ℕ) (hwn : wn < nwn) :
    srcTrans newMethod rp rs n nwn total zb z dz dens planetPaths cs l wn
      = srcTrans newMethod rp rs n nwn total zb z dz dens planetPaths cs' l wn := by
  have hcs' : ∀ c ∈ cs', c.Nonneg := fun c hc => hcs c (h.mem_iff.2 hc)
  have hU' := unsaturated_of_le ht l hl hp hd cs cs' hcs hcs'
    (fun w => le_of_eq (tauFull_perm n _ dens l cs cs' h w).symm) hU
  rw [srcTrans_eq_full ht l hl hp hd cs hcs hU wn hwn, srcTrans_eq_full ht l hl hp hd cs' hcs' hU' wn hwn,
    tauFull_perm n _ dens l cs cs' h wn]

/-- `transmittance_mul`, both sides the source: an unsaturated row of the regenerated `path_integral` is exactly the
    product of the rows it returns for each contribution alone -/
theorem src_transmittance_mul_unsaturated (ht : 0 < total) (l : ℕ) (hl : l < n)
    (hp : ∀ k < n - l, 0 ≤ srcPath newMethod rp n zb z dz planetPaths l k) (hd : ∀ j < n, 0 ≤ dens j)
    (cs : List (Contrib ℝ)) (hcs : ∀ c ∈ cs, c.Nonneg)
    (hU : Unsaturated newMethod rp rs n nwn total zb z dz dens planetPaths cs l) (wn : ℕ) (hwn : wn < nwn) :
    srcTrans newMethod rp rs n nwn total zb z dz dens planetPaths cs l wn
      = (cs.map (fun c => srcTrans newMethod rp rs n nwn total zb z dz dens planetPaths [c] l wn)).prod := by
  rw [srcTrans_eq_full ht l hl hp hd cs hcs hU wn hwn, src_transmittance_mul ht cs l wn hl hwn]

/-- `component_product` for EVERY kind (also the cloud's `layerOnly`), as `model_full_contrib` computes it: the regenerated
    `path_integral` run on a contribution whose `sigma_xsec` the regenerated `Contribution.prepare` summed from `comps`
    returns the product of the rows it returns for each component alone -/
theorem src_component_product_kinds (ht : 0 < total) (κ : Kind) (nW nL : ℕ) (comps : List (ℕ → ℕ → ℝ)) (l wn : ℕ)
    (hl : l < n) (hwn : wn < nwn) :
    srcTrans newMethod rp rs n nwn total zb z dz dens planetPaths
        [{ kind := κ, sigma := Gen.SrcC03.contribution_prepare nW comps nL }] l wn
      = (comps.map (fun s => srcTrans newMethod rp rs n nwn total zb z dz dens planetPaths
          [{ kind := κ, sigma := s }] l wn)).prod := by
  have e : (fun s => srcTrans newMethod rp rs n nwn total zb z dz dens planetPaths [{ kind := κ, sigma := s }] l wn)
      = fun s => Transmission.trans
          (tauFull n (srcPath newMethod rp n zb z dz planetPaths l) dens l [{ kind := κ, sigma := s }] wn) :=
    funext fun s => src_tauCut_single ht _ l wn hl hwn
  rw [src_tauCut_single ht _ l wn hl hwn, src_contribution_prepare nL nW comps, e]
  exact component_product n _ dens l κ comps wn

end loop

/-! ### the cloud deck: `SimpleCloudsContribution.contribute` (kind `layerOnly`) -/

/-- entry `[l, wn]` of `tau` after the regenerated `SimpleCloudsContribution.contribute` ran on a zeroed table -/
noncomputable def srcTauCloud (nL nW : ℕ) (l : ℕ) (sigma : ℕ → ℕ → ℝ) (wn : ℕ) : ℝ :=
  Gen.SrcC03.clouds_contribute l (fun _ _ => 0) nL nW sigma l wn

theorem srcTauCloud_eq (n nL nW : ℕ) (path dens : ℕ → ℝ) (l : ℕ) (sigma : ℕ → ℕ → ℝ) (wn : ℕ) :
    srcTauCloud nL nW l sigma wn = tauFull n path dens l [{ kind := .layerOnly, sigma := sigma }] wn := by
  unfold srcTauCloud
  rw [src_clouds_contribute n l nL nW sigma dens path]
  simp only [if_true]
  rfl

/-- `component_sum` for kind `layerOnly` about the regenerated cloud method -/
theorem src_component_sum_cloud (nL nW : ℕ) (l : ℕ) (comps : List (ℕ → ℕ → ℝ)) (wn : ℕ) :
    srcTauCloud nL nW l (Gen.SrcC03.contribution_prepare nW comps nL) wn
      = (comps.map (fun s => srcTauCloud nL nW l s wn)).sum := by
  have e : (fun s => srcTauCloud nL nW l s wn)
      = fun s => tauFull 0 (fun _ => 0) (fun _ => 0) l [{ kind := .layerOnly, sigma := s }] wn :=
    funext fun s => srcTauCloud_eq 0 nL nW (fun _ => 0) (fun _ => 0) l s wn
  rw [srcTauCloud_eq 0 nL nW (fun _ => 0) (fun _ => 0), src_contribution_prepare nL nW comps, e]
  exact component_sum 0 _ _ l .layerOnly comps wn

/-- `tau_prop` for kind `layerOnly` about the regenerated cloud method -/
theorem src_tau_prop_cloud (nL nW : ℕ) (l : ℕ) (sig : ℕ → ℕ → ℝ) (s : ℝ) (wn : ℕ) :
    srcTauCloud nL nW l (fun a b => s * sig a b) wn = s * srcTauCloud nL nW l sig wn := by
  rw [srcTauCloud_eq 0 nL nW (fun _ => 0) (fun _ => 0), srcTauCloud_eq 0 nL nW (fun _ => 0) (fun _ => 0)]
  exact tau_prop 0 _ _ l .layerOnly sig s wn

/-! ### `model_contrib`: the per-contribution loop and the dict it returns -/

section contrib
variable {newMethod : Bool} {rp rs : ℝ} {n nwn total : ℕ} {zb z dz dens grid : ℕ → ℝ}
  {planetPaths : (ℕ → ℝ) → (ℕ → ℕ → ℝ) → (ℕ → ℕ → ℝ) → List (ℕ → ℝ)}

/-- the dict the regenerated `SimpleForwardModel.model_contrib()` returns: `name` reads `contrib.name`, `prepare` is the
    effect of `contrib.prepare(…)` on the contribution (what `model()` applies to every contribution as well) -/
noncomputable def srcContribDict (newMethod : Bool) (rp rs : ℝ) (n nwn total : ℕ) (zb z dz dens grid : ℕ → ℝ)
    (planetPaths : (ℕ → ℝ) → (ℕ → ℕ → ℝ) → (ℕ → ℕ → ℝ) → List (ℕ → ℝ)) (name : Contrib ℝ → String)
    (prepare : Contrib ℝ → Contrib ℝ) (cs : List (Contrib ℝ)) : List (String × ((ℕ → ℝ) × (ℕ → ℕ → ℝ))) :=
  (Gen.SrcC03.model_contrib cs (dispatch nwn total n) dz dens n nwn name grid newMethod planetPaths prepare rp rs zb z).2

/-- contributions with pairwise distinct names: the dict has one entry per contribution, in order, holding what the
    regenerated `path_integral` returns for that contribution ALONE -/
theorem src_model_contrib_entries (name : Contrib ℝ → String) (prepare : Contrib ℝ → Contrib ℝ) (cs : List (Contrib ℝ))
    (hnd : (cs.map (fun c => name (prepare c))).Nodup) :
    srcContribDict newMethod rp rs n nwn total zb z dz dens grid planetPaths name prepare cs
      = cs.map (fun c => (name (prepare c),
          Gen.SrcC03.path_integral nwn [prepare c] (dispatch nwn total n) dz dens n newMethod planetPaths rp rs zb z)) := by
  unfold srcContribDict
  rw [src_model_contrib]
  simpa using dictFill_nodup (fun c => name (prepare c)) _ cs [] (by simpa using hnd)

/-- `product_within_cutoff` with `model_contrib` itself regenerated: for distinct names, the product of the transmittances
    stored in the dict `model_contrib()` returns is never above what `path_integral` returns for the whole (prepared) list,
    and falls short of it by at most `exp(-10)` -/
theorem src_model_contrib_product (ht : 0 < total) (name : Contrib ℝ → String) (prepare : Contrib ℝ → Contrib ℝ)
    (l : ℕ) (hl : l < n) (hp : ∀ k < n - l, 0 ≤ srcPath newMethod rp n zb z dz planetPaths l k) (hd : ∀ j < n, 0 ≤ dens j)
    (cs : List (Contrib ℝ)) (hcs : ∀ c ∈ cs, (prepare c).Nonneg)
    (hnd : (cs.map (fun c => name (prepare c))).Nodup) (wn : ℕ) (hwn : wn < nwn) :
    ((srcContribDict newMethod rp rs n nwn total zb z dz dens grid planetPaths name prepare cs).map
        (fun e => e.2.2 l wn)).prod
        ≤ srcTrans newMethod rp rs n nwn total zb z dz dens planetPaths (cs.map prepare) l wn ∧
    srcTrans newMethod rp rs n nwn total zb z dz dens planetPaths (cs.map prepare) l wn
        - ((srcContribDict newMethod rp rs n nwn total zb z dz dens grid planetPaths name prepare cs).map
            (fun e => e.2.2 l wn)).prod ≤ Transmission.trans 10 := by
  rw [src_model_contrib_entries name prepare cs hnd, List.map_map]
  have e : (cs.map ((fun e : String × ((ℕ → ℝ) × (ℕ → ℕ → ℝ)) => e.2.2 l wn) ∘ fun c => (name (prepare c),
        Gen.SrcC03.path_integral nwn [prepare c] (dispatch nwn total n) dz dens n newMethod planetPaths rp rs zb z)))
      = (cs.map prepare).map (fun c => srcTrans newMethod rp rs n nwn total zb z dz dens planetPaths [c] l wn) := by
    rw [List.map_map]; rfl
  rw [e]
  exact src_product_within_cutoff ht l hl hp hd (cs.map prepare)
    (fun c hc => by obtain ⟨c', hc', rfl⟩ := List.mem_map.1 hc; exact hcs c' hc') wn hwn

/-- K4 about the source: when two contributions carry the same name, the dict `model_contrib()` returns has FEWER entries
    than there are contributions (the later one replaced the earlier), so no product over its entries can be the model's -/
theorem src_model_contrib_collision (name : Contrib ℝ → String) (prepare : Contrib ℝ → Contrib ℝ) (cs : List (Contrib ℝ))
    (hdup : ¬ (cs.map (fun c => name (prepare c))).Nodup) :
    (srcContribDict newMethod rp rs n nwn total zb z dz dens grid planetPaths name prepare cs).length < cs.length := by
  unfold srcContribDict
  rw [src_model_contrib]
  simpa using dictFill_length_lt (fun c => name (prepare c)) _ cs [] (by simpa using hdup) (by simp)

end contrib

end Taurex.C03SrcProps
