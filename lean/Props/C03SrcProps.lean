/-
  C03 — the property theorems restated about the REGENERATED source.  `Props/C03Src.lean` proves that the definitions
  translated on every run from `Contribution.prepare`, `AbsorptionContribution.prepare` / `prepare_each`,
  `CIAContribution.prepare_each` and the kernels `contribute_tau` / `contribute_cia` are the model's `sumComps`, `compAbs`,
  `compCIA` and (called as `path_integral` calls them) `addContrib` of kind `lin` / `sq`; `Props/C03.lean` proves the property
  about these.  The corollaries below compose the two: they are statements about the text of the code as it is now, at the
  real carrier.

  What is composed
    * `srcTau cia n ngrid path dens l sigma wn`: entry `[l, wn]` of the table the regenerated kernel (`contribute_tau`, or
      `contribute_cia` when `cia`) leaves when run on a zeroed `tau` with the arguments `path_integral` passes
      (`startK = 0`, `endK = n - l`, `density_offset = l`) — the optical depth of ONE contribution with prepared opacity
      `sigma` run alone (`model_contrib`); the model's `tauFull … [⟨kind, sigma⟩]`.  Tie hypothesis kept visible: `wn < ngrid`.
    * `Gen.SrcC03.contribution_prepare` (= `sumComps`, no hypotheses) and `Gen.SrcC03.absorption_prepare`
      (= `some (sumComps comps)` when anything was yielded; the `some S` is kept as a hypothesis).
    * `srcAbsComp … gases i` / `srcCIAComp … pairs i`: the `i`-th array the regenerated generator
      `AbsorptionContribution.prepare_each` / `CIAContribution.prepare_each` yields (= `compAbs` / `compCIA` on the layers,
      zero outside).  Tie hypothesis kept visible: position `i` exists in the list (`gases[i]? = some g`).

  Not restated (no tie)
    * `tauFull_append`, `tauFull_perm`, `transmittance_mul`, `tauCut_single`, `product_within_cutoff`,
      `order_within_cutoff`: they speak of the loop over a LIST of contributions (`tauFull cs`, `tauCut cs`).  The C03
      translation contains the kernels but not `path_integral` / `model_contrib`, so there is no regenerated expression for
      the loop (it is tied, with the early exit, in `Props/C01Src.lean` from C01's own translation of `path_integral`; the
      cut-off band about that definition is `C01SrcProps.src_depth_cut_within`).
    * the `compScaled` (Rayleigh) conjunct of `sigma_prop`: the regenerated `RayleighContribution.prepare_each` skips
      molecules by a test on the mixing ratio itself, so the yielded lists of a profile and of its multiple are not
      index-aligned; and kind `layerOnly` in `component_sum` / `component_product` / `tau_prop` (the cloud's `contribute` is
      not in the C03 translation): the corollaries are for the kinds `lin` and `sq`.
    * `nv_nonneg`: hypothesis builder for the examples.
-/
import Props.C03
import Props.C03Src
set_option linter.unusedSectionVars false

namespace Taurex.C03SrcProps
open Taurex.Transmission Taurex.Sigma Taurex.C03 Taurex.C03Src

/-! ### one contribution run alone: the kernels on a zeroed table -/

/-- the model's name for the kernel: `contribute_tau` is kind `lin`, `contribute_cia` kind `sq` -/
def kindOf (cia : Bool) : Kind := if cia then .sq else .lin

/-- entry `[l, wn]` of `tau` after the regenerated kernel ran on a zeroed table, called as `path_integral` calls it -/
noncomputable def srcTau (cia : Bool) (n ngrid : ℕ) (path dens : ℕ → ℝ) (l : ℕ) (sigma : ℕ → ℕ → ℝ) (wn : ℕ) : ℝ :=
  if cia then Gen.SrcC03.contribute_cia 0 (n - l) l sigma dens path ngrid l (fun _ _ => 0) l wn
  else Gen.SrcC03.contribute_tau 0 (n - l) l sigma dens path ngrid l (fun _ _ => 0) l wn

theorem srcTau_eq (cia : Bool) (n ngrid : ℕ) (path dens : ℕ → ℝ) (l : ℕ) (sigma : ℕ → ℕ → ℝ) (wn : ℕ)
    (hwn : wn < ngrid) :
    srcTau cia n ngrid path dens l sigma wn = tauFull n path dens l [{ kind := kindOf cia, sigma := sigma }] wn := by
  cases cia
  · simp only [srcTau, kindOf, Bool.false_eq_true, if_false]
    rw [src_contribute_tau_call]
    simp only [hwn, and_self, if_true]
    rfl
  · simp only [srcTau, kindOf, if_true]
    rw [src_contribute_cia_call]
    simp only [hwn, and_self, if_true]
    rfl

/-- each contribution's optical depth (regenerated kernel on the `sigma_xsec` the regenerated `Contribution.prepare`
    stores) is the sum over its components, each run through the same kernel alone -/
theorem src_component_sum (cia : Bool) (n ngrid nW nL : ℕ) (path dens : ℕ → ℝ) (l : ℕ) (comps : List (ℕ → ℕ → ℝ))
    (wn : ℕ) (hwn : wn < ngrid) :
    srcTau cia n ngrid path dens l (Gen.SrcC03.contribution_prepare nW comps nL) wn
      = (comps.map (fun s => srcTau cia n ngrid path dens l s wn)).sum := by
  have e : (fun s => srcTau cia n ngrid path dens l s wn)
      = fun s => tauFull n path dens l [{ kind := kindOf cia, sigma := s }] wn :=
    funext fun s => srcTau_eq cia n ngrid path dens l s wn hwn
  rw [srcTau_eq cia n ngrid path dens l _ wn hwn, src_contribution_prepare nL nW comps, e]
  exact component_sum n path dens l (kindOf cia) comps wn

/-- the same for the `sigma_xsec` the regenerated `AbsorptionContribution.prepare` stores (when it stores one) -/
theorem src_component_sum_absorption (n ngrid nW nL : ℕ) (path dens : ℕ → ℝ) (l : ℕ) (comps : List (ℕ → ℕ → ℝ))
    (S : ℕ → ℕ → ℝ) (hS : Gen.SrcC03.absorption_prepare nW comps nL = some S) (wn : ℕ) (hwn : wn < ngrid) :
    srcTau false n ngrid path dens l S wn = (comps.map (fun s => srcTau false n ngrid path dens l s wn)).sum := by
  rw [src_absorption_prepare nL nW comps] at hS
  have hS' : S = sumComps comps := by
    by_cases hc : comps = []
    · simp [hc] at hS
    · simp only [hc, if_false, Option.some.injEq] at hS
      exact hS.symm
  have e : (fun s => srcTau false n ngrid path dens l s wn)
      = fun s => tauFull n path dens l [{ kind := kindOf false, sigma := s }] wn :=
    funext fun s => srcTau_eq false n ngrid path dens l s wn hwn
  rw [srcTau_eq false n ngrid path dens l _ wn hwn, hS', e]
  exact component_sum n path dens l (kindOf false) comps wn

/-- … so its transmittance is the product over the components (what `model_full_contrib` returns) -/
theorem src_component_product (cia : Bool) (n ngrid nW nL : ℕ) (path dens : ℕ → ℝ) (l : ℕ)
    (comps : List (ℕ → ℕ → ℝ)) (wn : ℕ) (hwn : wn < ngrid) :
    Transmission.trans (srcTau cia n ngrid path dens l (Gen.SrcC03.contribution_prepare nW comps nL) wn)
      = (comps.map (fun s => Transmission.trans (srcTau cia n ngrid path dens l s wn))).prod := by
  have e : (fun s => Transmission.trans (srcTau cia n ngrid path dens l s wn))
      = fun s => Transmission.trans (tauFull n path dens l [{ kind := kindOf cia, sigma := s }] wn) :=
    funext fun s => by rw [srcTau_eq cia n ngrid path dens l s wn hwn]
  rw [srcTau_eq cia n ngrid path dens l _ wn hwn, src_contribution_prepare nL nW comps, e]
  exact component_product n path dens l (kindOf cia) comps wn

/-- a contribution's optical depth (regenerated kernel) is proportional to its weighted opacity -/
theorem src_tau_prop (cia : Bool) (n ngrid : ℕ) (path dens : ℕ → ℝ) (l : ℕ) (sig : ℕ → ℕ → ℝ) (s : ℝ) (wn : ℕ)
    (hwn : wn < ngrid) :
    srcTau cia n ngrid path dens l (fun a b => s * sig a b) wn = s * srcTau cia n ngrid path dens l sig wn := by
  rw [srcTau_eq cia n ngrid path dens l _ wn hwn, srcTau_eq cia n ngrid path dens l _ wn hwn]
  exact tau_prop n path dens l (kindOf cia) sig s wn

/-! ### the components the generators yield -/

section comps
variable {ι : Type}

/-- the `i`-th array the regenerated `AbsorptionContribution.prepare_each` yields (cross-section mode) -/
noncomputable def srcAbsComp (nW nlayers : ℕ) (T P : ℕ → ℝ) (opacity : ι → ℝ → ℝ → ℕ → ℝ) (mix : ι → ℕ → ℝ)
    (gases : List ι) (i : ℕ) : ℕ → ℕ → ℝ :=
  (Gen.SrcC03.absorption_prepare_each nW P T gases mix nlayers opacity).getD i (fun _ _ => 0)

theorem srcAbsComp_eq (nW nlayers : ℕ) (T P : ℕ → ℝ) (opacity : ι → ℝ → ℝ → ℕ → ℝ) (mix : ι → ℕ → ℝ)
    (gases : List ι) (i : ℕ) (g : ι) (hg : gases[i]? = some g) :
    srcAbsComp nW nlayers T P opacity mix gases i
      = fun l wn => if l < nlayers then compAbs (fun l wn => opacity g (T l) (P l) wn) (mix g) l wn else 0 := by
  unfold srcAbsComp
  rw [src_absorption_prepare_each]
  simp [List.getD_eq_getElem?_getD, List.getElem?_map, hg]

/-- the `i`-th array the regenerated `CIAContribution.prepare_each` yields -/
noncomputable def srcCIAComp (nW nL : ℕ) (T : ℕ → ℝ) (ciaXsec : ι → ℝ → ℕ → ℝ) (mixOne mixTwo : ι → ℕ → ℝ)
    (pairs : List ι) (i : ℕ) : ℕ → ℕ → ℝ :=
  (Gen.SrcC03.cia_prepare_each nW T ciaXsec mixOne mixTwo nL pairs).getD i (fun _ _ => 0)

theorem srcCIAComp_eq (nW nL : ℕ) (T : ℕ → ℝ) (ciaXsec : ι → ℝ → ℕ → ℝ) (mixOne mixTwo : ι → ℕ → ℝ)
    (pairs : List ι) (i : ℕ) (p : ι) (hp : pairs[i]? = some p) :
    srcCIAComp nW nL T ciaXsec mixOne mixTwo pairs i
      = fun l wn => if l < nL then compCIA (fun l wn => ciaXsec p (T l) wn) (mixOne p) (mixTwo p) l wn else 0 := by
  unfold srcCIAComp
  rw [src_cia_prepare_each]
  simp [List.getD_eq_getElem?_getD, List.getElem?_map, hp]

/-- a gas at zero abundance: the array the regenerated `AbsorptionContribution.prepare_each` yields for it is zero -/
theorem src_zero_abundance_abs (nW nlayers : ℕ) (T P : ℕ → ℝ) (opacity : ι → ℝ → ℝ → ℕ → ℝ) (mix : ι → ℕ → ℝ)
    (gases : List ι) (i : ℕ) (g : ι) (hg : gases[i]? = some g) (h0 : mix g = fun _ => 0) :
    srcAbsComp nW nlayers T P opacity mix gases i = (fun _ _ => 0) := by
  rw [srcAbsComp_eq nW nlayers T P opacity mix gases i g hg, h0,
    (zero_abundance (fun l wn => opacity g (T l) (P l) wn) (fun _ => 0) []).1]
  funext l wn; simp

/-- a pair one of whose partners is at zero abundance: the array the regenerated `CIAContribution.prepare_each` yields for
    it is zero -/
theorem src_zero_abundance_cia (nW nL : ℕ) (T : ℕ → ℝ) (ciaXsec : ι → ℝ → ℕ → ℝ) (mixOne mixTwo : ι → ℕ → ℝ)
    (pairs : List ι) (i : ℕ) (p : ι) (hp : pairs[i]? = some p) :
    (mixOne p = (fun _ => 0) → srcCIAComp nW nL T ciaXsec mixOne mixTwo pairs i = (fun _ _ => 0)) ∧
    (mixTwo p = (fun _ => 0) → srcCIAComp nW nL T ciaXsec mixOne mixTwo pairs i = (fun _ _ => 0)) := by
  rw [srcCIAComp_eq nW nL T ciaXsec mixOne mixTwo pairs i p hp]
  constructor
  · intro h0
    rw [h0, (zero_abundance (fun l wn => ciaXsec p (T l) wn) (mixTwo p) []).2.1]
    funext l wn; simp
  · intro h0
    rw [h0, (zero_abundance (fun l wn => ciaXsec p (T l) wn) (mixOne p) []).2.2.1]
    funext l wn; simp

/-- … and a zero component changes nothing in the `sigma_xsec` the regenerated `Contribution.prepare` stores -/
theorem src_zero_component (nW nL : ℕ) (comps : List (ℕ → ℕ → ℝ)) :
    Gen.SrcC03.contribution_prepare nW ((fun _ _ => (0 : ℝ)) :: comps) nL
      = Gen.SrcC03.contribution_prepare nW comps nL := by
  rw [src_contribution_prepare, src_contribution_prepare]
  exact (zero_abundance (fun _ _ => 0) (fun _ => 0) comps).2.2.2

/-- the array yielded for a gas is proportional to that gas's abundance (regenerated
    `AbsorptionContribution.prepare_each`, run on a mixing-ratio table and on one in which gas `g` is scaled by `s`) -/
theorem src_sigma_prop_abs (nW nlayers : ℕ) (T P : ℕ → ℝ) (opacity : ι → ℝ → ℝ → ℕ → ℝ) (mix mix' : ι → ℕ → ℝ)
    (gases : List ι) (i : ℕ) (g : ι) (hg : gases[i]? = some g) (s : ℝ) (hs : mix' g = fun j => s * mix g j)
    (l wn : ℕ) :
    srcAbsComp nW nlayers T P opacity mix' gases i l wn = s * srcAbsComp nW nlayers T P opacity mix gases i l wn := by
  rw [srcAbsComp_eq nW nlayers T P opacity mix' gases i g hg, srcAbsComp_eq nW nlayers T P opacity mix gases i g hg, hs]
  simp only
  split
  · exact (sigma_prop (fun l wn => opacity g (T l) (P l) wn) (mix g) (fun _ => 0) s l wn).1
  · simp

/-- the array yielded for a pair is proportional to the abundance of either partner (regenerated
    `CIAContribution.prepare_each`) -/
theorem src_sigma_prop_cia (nW nL : ℕ) (T : ℕ → ℝ) (ciaXsec : ι → ℝ → ℕ → ℝ) (mixOne mixTwo mixOne' mixTwo' : ι → ℕ → ℝ)
    (pairs : List ι) (i : ℕ) (p : ι) (hp : pairs[i]? = some p) (s : ℝ)
    (h1 : mixOne' p = fun j => s * mixOne p j) (h2 : mixTwo' p = fun j => s * mixTwo p j) (l wn : ℕ) :
    srcCIAComp nW nL T ciaXsec mixOne' mixTwo pairs i l wn = s * srcCIAComp nW nL T ciaXsec mixOne mixTwo pairs i l wn ∧
    srcCIAComp nW nL T ciaXsec mixOne mixTwo' pairs i l wn = s * srcCIAComp nW nL T ciaXsec mixOne mixTwo pairs i l wn := by
  rw [srcCIAComp_eq nW nL T ciaXsec mixOne' mixTwo pairs i p hp, srcCIAComp_eq nW nL T ciaXsec mixOne mixTwo' pairs i p hp,
    srcCIAComp_eq nW nL T ciaXsec mixOne mixTwo pairs i p hp, h1, h2]
  simp only
  have h := sigma_prop (fun l wn => ciaXsec p (T l) wn) (mixOne p) (mixTwo p) s l wn
  split
  · exact ⟨h.2.1, h.2.2.1⟩
  · simp

end comps

end Taurex.C03SrcProps
