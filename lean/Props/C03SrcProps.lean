/-
  C03 — the property theorems restated about the REGENERATED source.  `Props/C03Src.lean` proves that the definitions
  translated on every run from `Contribution.prepare`, `AbsorptionContribution.prepare` / `prepare_each`,
  `CIAContribution.prepare_each`, the kernels `contribute_tau` / `contribute_cia`, the three `contribute` methods and
  `TransmissionModel.path_integral` are the model's `sumComps`, `compAbs`, `compCIA`, (called as `path_integral` calls them)
  `addContrib` of kind `lin` / `sq` / `layerOnly`, and `tauCut` over the contribution list; `Props/C03.lean` proves the property
  about these.  The corollaries below compose the two: they are statements about the text of the code as it is now, at the
  real carrier.

  What is composed
    * `srcTau cia n ngrid path dens l sigma wn`: entry `[l, wn]` of the table the regenerated kernel (`contribute_tau`, or
      `contribute_cia` when `cia`) leaves when run on a zeroed `tau` with the arguments `path_integral` passes
      (`startK = 0`, `endK = n - l`, `density_offset = l`) — the optical depth of ONE contribution with prepared opacity
      `sigma` run alone (`model_contrib`); the model's `tauFull … [⟨kind, sigma⟩]`.  Tie hypothesis kept visible: `wn < ngrid`.
    * `Gen.SrcC03.contribution_prepare` (= `sumComps`, no hypotheses) and `Gen.SrcC03.absorption_prepare`
      (= `some (sumComps comps)` when anything was yielded; the `some S` is kept as a hypothesis).
    * `srcAbsComp … gases i` / `srcCIAComp … pairs i`: the `i`-th array the regenerated generator
      `AbsorptionContribution.prepare_each` / `CIAContribution.prepare_each` yields (= `compAbs` / `compCIA` on the layers,
      zero outside).  Tie hypothesis kept visible: position `i` exists in the list (`gases[i]? = some g`).
    * `srcTrans newMethod … cs l wn`: entry `[l, wn]` of the `exp(-tau)` table the regenerated
      `TransmissionModel.path_integral` returns for the contribution LIST `cs` (the loop over the layers, the loop over
      `self.contribution_list` with its `tau[layer].min() > 10` break, `compute_absorption`; `contrib.contribute` resolved
      to the three regenerated `contribute` methods by `C03Src.dispatch`); = `trans (tauCut … cs)` on the regenerated chord
      row `srcPath` (tie hypotheses kept visible: `0 < total`, `l < n`, `wn < nwn`).  `cs = [c]` is one iteration of
      `model_contrib`'s loop, `cs = [⟨κ, component⟩]` one of `model_full_contrib`'s.  `tauCut_single`,
      `product_within_cutoff`, `order_within_cutoff` are restated with every transmittance the source's;
      `transmittance_mul` with the per-contribution factors the source's and the total the documented integral `tauFull`
      (the code has no loop without the break); `tauFull_append`, `tauFull_perm` (and `transmittance_mul` with both sides
      the source's) for rows that come back unsaturated (`Unsaturated`: a condition on the RETURNED row), where the break
      provably did not fire.
    * `srcTauCloud`: the regenerated `SimpleCloudsContribution.contribute` on a zeroed table (kind `layerOnly`).
    * `srcContribDict`: the dict the regenerated `SimpleForwardModel.model_contrib()` returns (the loop that sets
      `self.contribution_list = [contrib]`, calls `contrib.prepare`, runs the regenerated `path_integral`, and stores the
      result under `contrib.name`; `name` and the effect `prepare` of `contrib.prepare` on the object are parameters).
      `product_within_cutoff` is restated with the factors READ FROM THAT DICT (`src_model_contrib_product`, for pairwise
      distinct names); for colliding names the dict provably loses an entry (`src_model_contrib_collision`: the known
      finding K4 as a theorem about the source).

    * `srcFullDict`: the dict the regenerated `SimpleForwardModel.model_full_contrib()` returns.  The generator
      `contrib.prepare_each(…)` is SUSPENDED while `path_integral` re-runs; the protocol is explicit: `prepareEach c` is the
      list of (yielded name, state of the contribution at that yield), and iteration `i` runs the regenerated `path_integral`
      on that state.  `statesOf κ names published`: the states of a contribution of kind `κ` whose generator has published
      the arrays `published` in `self.sigma_xsec` — for the three generators the regenerated `*_prepare_each_published`
      (`Props/C03Src.lean`: provably the yielded components).  `component_product` is restated with the factors READ FROM
      THAT DICT (`src_full_contrib_component_product`: their product is what `model_contrib()` stores for the contribution);
      `src_model_full_contrib_entries`, `src_model_full_contrib_collision` (K4).
    * `srcRayComp`, `rayleighKept`: the arrays the regenerated `RayleighContribution.prepare_each` yields and the molecules it
      yields them for.  The `compScaled` conjunct of `sigma_prop` is restated for a POSITIVE factor
      (`src_sigma_prop_rayleigh`): the generator skips molecules by a test on the mixing ratio (`np.max(mix) == 0.0`), which
      a positive factor provably leaves alone (`zeroAbundance_scale`), so the yielded lists of a profile and of its multiple
      are index-aligned; for a factor ≤ 0 they need not be (a zero factor removes the component).

  Not restated (no tie)
    * `nv_nonneg`: hypothesis builder for the examples.
-/
import Props.C03
import Props.C03Src
set_option linter.unusedSectionVars false

namespace Taurex.C03SrcProps
open Taurex.Transmission Taurex.Sigma Taurex.C03 Taurex.C03Src

/-! ### one contribution run alone: the kernels on a zeroed table -/

/-- the model's name for the kernel: `contribute_tau` is kind `lin`, `contribute_cia` kind `sq` -/
def kindOf (cia : Bool) : Kind := if cia then .sq else .lin

/-- entry `[l, wn]` of `tau` after the regenerated kernel ran on a zeroed table, called as `path_integral` calls it -/
noncomputable def srcTau (cia : Bool) (n ngrid : ℕ) (path dens : ℕ → ℝ) (l : ℕ) (sigma : ℕ → ℕ → ℝ) (wn : ℕ) : ℝ :=
  if cia then Gen.SrcC03.contribute_cia 0 (n - l) l sigma dens path ngrid l (fun _ _ => 0) l wn
  else Gen.SrcC03.contribute_tau 0 (n - l) l sigma dens path ngrid l (fun _ _ => 0) l wn

theorem srcTau_eq (cia : Bool) (n ngrid : ℕ) (path dens : ℕ → ℝ) (l : ℕ) (sigma : ℕ → ℕ → ℝ) (wn : ℕ)
    (hwn : wn < ngrid) :
    srcTau cia n ngrid path dens l sigma wn = tauFull n path dens l [{ kind := kindOf cia, sigma := sigma }] wn := by
  cases cia
  · simp only [srcTau, kindOf, Bool.false_eq_true, if_false]
    rw [src_contribute_tau_call]
    simp only [hwn, and_self, if_true]
    rfl
  · simp only [srcTau, kindOf, if_true]
    rw [src_contribute_cia_call]
    simp only [hwn, and_self, if_true]
    rfl

/-- each contribution's optical depth (regenerated kernel on the `sigma_xsec` the regenerated `Contribution.prepare`
    stores) is the sum over its components, each run through the same kernel alone -/
theorem src_component_sum (cia : Bool) (n ngrid nW nL : ℕ) (path dens : ℕ → ℝ) (l : ℕ) (comps : List (ℕ → ℕ → ℝ))
    (wn : ℕ) (hwn : wn < ngrid) :
    srcTau cia n ngrid path dens l (Gen.SrcC03.contribution_prepare nW comps nL) wn
      = (comps.map (fun s => srcTau cia n ngrid path dens l s wn)).sum := by
  have e : (fun s => srcTau cia n ngrid path dens l s wn)
      = fun s => tauFull n path dens l [{ kind := kindOf cia, sigma := s }] wn :=
    funext fun s => srcTau_eq cia n ngrid path dens l s wn hwn
  rw [srcTau_eq cia n ngrid path dens l _ wn hwn, src_contribution_prepare nL nW comps, e]
  exact component_sum n path dens l (kindOf cia) comps wn

/-- the same for the `sigma_xsec` the regenerated `AbsorptionContribution.prepare` stores (when it stores one) -/
theorem src_component_sum_absorption (n ngrid nW nL : ℕ) (path dens : ℕ → ℝ) (l : ℕ) (comps : List (ℕ → ℕ → ℝ))
    (S : ℕ → ℕ → ℝ) (hS : Gen.SrcC03.absorption_prepare nW comps nL = some S) (wn : ℕ) (hwn : wn < ngrid) :
    srcTau false n ngrid path dens l S wn = (comps.map (fun s => srcTau false n ngrid path dens l s wn)).sum := by
  rw [src_absorption_prepare nL nW comps] at hS
  have hS' : S = sumComps comps := by
    by_cases hc : comps = []
    · simp [hc] at hS
    · simp only [hc, if_false, Option.some.injEq] at hS
      exact hS.symm
  have e : (fun s => srcTau false n ngrid path dens l s wn)
      = fun s => tauFull n path dens l [{ kind := kindOf false, sigma := s }] wn :=
    funext fun s => srcTau_eq false n ngrid path dens l s wn hwn
  rw [srcTau_eq false n ngrid path dens l _ wn hwn, hS', e]
  exact component_sum n path dens l (kindOf false) comps wn

/-- … so its transmittance is the product over the components (what `model_full_contrib` returns) -/
theorem src_component_product (cia : Bool) (n ngrid nW nL : ℕ) (path dens : ℕ → ℝ) (l : ℕ)
    (comps : List (ℕ → ℕ → ℝ)) (wn : ℕ) (hwn : wn < ngrid) :
    Transmission.trans (srcTau cia n ngrid path dens l (Gen.SrcC03.contribution_prepare nW comps nL) wn)
      = (comps.map (fun s => Transmission.trans (srcTau cia n ngrid path dens l s wn))).prod := by
  have e : (fun s => Transmission.trans (srcTau cia n ngrid path dens l s wn))
      = fun s => Transmission.trans (tauFull n path dens l [{ kind := kindOf cia, sigma := s }] wn) :=
    funext fun s => by rw [srcTau_eq cia n ngrid path dens l s wn hwn]
  rw [srcTau_eq cia n ngrid path dens l _ wn hwn, src_contribution_prepare nL nW comps, e]
  exact component_product n path dens l (kindOf cia) comps wn

/-- a contribution's optical depth (regenerated kernel) is proportional to its weighted opacity -/
theorem src_tau_prop (cia : Bool) (n ngrid : ℕ) (path dens : ℕ → ℝ) (l : ℕ) (sig : ℕ → ℕ → ℝ) (s : ℝ) (wn : ℕ)
    (hwn : wn < ngrid) :
    srcTau cia n ngrid path dens l (fun a b => s * sig a b) wn = s * srcTau cia n ngrid path dens l sig wn := by
  rw [srcTau_eq cia n ngrid path dens l _ wn hwn, srcTau_eq cia n ngrid path dens l _ wn hwn]
  exact tau_prop n path dens l (kindOf cia) sig s wn

/-! ### the components the generators yield -/

section comps
variable {ι : Type}

/-- the `i`-th array the regenerated `AbsorptionContribution.prepare_each` yields (cross-section mode) -/
noncomputable def srcAbsComp (nW nlayers : ℕ) (T P : ℕ → ℝ) (opacity : ι → ℝ → ℝ → ℕ → ℝ) (mix : ι → ℕ → ℝ)
    (gases : List ι) (i : ℕ) : ℕ → ℕ → ℝ :=
  (Gen.SrcC03.absorption_prepare_each nW P T gases mix nlayers opacity).getD i (fun _ _ => 0)

theorem srcAbsComp_eq (nW nlayers : ℕ) (T P : ℕ → ℝ) (opacity : ι → ℝ → ℝ → ℕ → ℝ) (mix : ι → ℕ → ℝ)
    (gases : List ι) (i : ℕ) (g : ι) (hg : gases[i]? = some g) :
    srcAbsComp nW nlayers T P opacity mix gases i
      = fun l wn => if l < nlayers then compAbs (fun l wn => opacity g (T l) (P l) wn) (mix g) l wn else 0 := by
  unfold srcAbsComp
  rw [src_absorption_prepare_each]
  simp [List.getD_eq_getElem?_getD, List.getElem?_map, hg]

/-- the `i`-th array the regenerated `CIAContribution.prepare_each` yields -/
noncomputable def srcCIAComp (nW nL : ℕ) (T : ℕ → ℝ) (ciaXsec : ι → ℝ → ℕ → ℝ) (mixOne mixTwo : ι → ℕ → ℝ)
    (pairs : List ι) (i : ℕ) : ℕ → ℕ → ℝ :=
  (Gen.SrcC03.cia_prepare_each nW T ciaXsec mixOne mixTwo nL pairs).getD i (fun _ _ => 0)

theorem srcCIAComp_eq (nW nL : ℕ) (T : ℕ → ℝ) (ciaXsec : ι → ℝ → ℕ → ℝ) (mixOne mixTwo : ι → ℕ → ℝ)
    (pairs : List ι) (i : ℕ) (p : ι) (hp : pairs[i]? = some p) :
    srcCIAComp nW nL T ciaXsec mixOne mixTwo pairs i
      = fun l wn => if l < nL then compCIA (fun l wn => ciaXsec p (T l) wn) (mixOne p) (mixTwo p) l wn else 0 := by
  unfold srcCIAComp
  rw [src_cia_prepare_each]
  simp [List.getD_eq_getElem?_getD, List.getElem?_map, hp]

/-- a gas at zero abundance: the array the regenerated `AbsorptionContribution.prepare_each` yields for it is zero -/
theorem src_zero_abundance_abs (nW nlayers : ℕ) (T P : ℕ → ℝ) (opacity : ι → ℝ → ℝ → ℕ → ℝ) (mix : ι → ℕ → ℝ)
    (gases : List ι) (i : ℕ) (g : ι) (hg : gases[i]? = some g) (h0 : mix g = fun _ => 0) :
    srcAbsComp nW nlayers T P opacity mix gases i = (fun _ _ => 0) := by
  rw [srcAbsComp_eq nW nlayers T P opacity mix gases i g hg, h0,
    (zero_abundance (fun l wn => opacity g (T l) (P l) wn) (fun _ => 0) []).1]
  funext l wn; simp

/-- a pair one of whose partners is at zero abundance: the array the regenerated `CIAContribution.prepare_each` yields for
    it is zero -/
theorem src_zero_abundance_cia (nW nL : ℕ) (T : ℕ → ℝ) (ciaXsec : ι → ℝ → ℕ → ℝ) (mixOne mixTwo : ι → ℕ → ℝ)
    (pairs : List ι) (i : ℕ) (p : ι) (hp : pairs[i]? = some p) :
    (mixOne p = (fun _ => 0) → srcCIAComp nW nL T ciaXsec mixOne mixTwo pairs i = (fun _ _ => 0)) ∧
    (mixTwo p = (fun _ => 0) → srcCIAComp nW nL T ciaXsec mixOne mixTwo pairs i = (fun _ _ => 0)) := by
  rw [srcCIAComp_eq nW nL T ciaXsec mixOne mixTwo pairs i p hp]
  constructor
  · intro h0
    rw [h0, (zero_abundance (fun l wn => ciaXsec p (T l) wn) (mixTwo p) []).2.1]
    funext l wn; simp
  · intro h0
    rw [h0, (zero_abundance (fun l wn => ciaXsec p (T l) wn) (mixOne p) []).2.2.1]
    funext l wn; simp

/-- … and a zero component changes nothing in the `sigma_xsec` the regenerated `Contribution.prepare` stores -/
theorem src_zero_component (nW nL : ℕ) (comps : List (ℕ → ℕ → ℝ)) :
    Gen.SrcC03.contribution_prepare nW ((fun _ _ => (0 : ℝ)) :: comps) nL
      = Gen.SrcC03.contribution_prepare nW comps nL := by
  rw [src_contribution_prepare, src_contribution_prepare]
  exact (zero_abundance (fun _ _ => 0) (fun _ => 0) comps).2.2.2

/-- the array yielded for a gas is proportional to that gas's abundance (regenerated
    `AbsorptionContribution.prepare_each`, run on a mixing-ratio table and on one in which gas `g` is scaled by `s`) -/
theorem src_sigma_prop_abs (nW nlayers : ℕ) (T P : ℕ → ℝ) (opacity : ι → ℝ → ℝ → ℕ → ℝ) (mix mix' : ι → ℕ → ℝ)
    (gases : List ι) (i : ℕ) (g : ι) (hg : gases[i]? = some g) (s : ℝ) (hs : mix' g = fun j => s * mix g j)
    (l wn : ℕ) :
    srcAbsComp nW nlayers T P opacity mix' gases i l wn = s * srcAbsComp nW nlayers T P opacity mix gases i l wn := by
  rw [srcAbsComp_eq nW nlayers T P opacity mix' gases i g hg, srcAbsComp_eq nW nlayers T P opacity mix gases i g hg, hs]
  simp only
  split
  · exact (sigma_prop (fun l wn => opacity g (T l) (P l) wn) (mix g) (fun _ => 0) s l wn).1
  · simp

/-- the array yielded for a pair is proportional to the abundance of either partner (regenerated
    `CIAContribution.prepare_each`) -/
theorem src_sigma_prop_cia (nW nL : ℕ) (T : ℕ → ℝ) (ciaXsec : ι → ℝ → ℕ → ℝ) (mixOne mixTwo mixOne' mixTwo' : ι → ℕ → ℝ)
    (pairs : List ι) (i : ℕ) (p : ι) (hp : pairs[i]? = some p) (s : ℝ)
    (h1 : mixOne' p = fun j => s * mixOne p j) (h2 : mixTwo' p = fun j => s * mixTwo p j) (l wn : ℕ) :
    srcCIAComp nW nL T ciaXsec mixOne' mixTwo pairs i l wn = s * srcCIAComp nW nL T ciaXsec mixOne mixTwo pairs i l wn ∧
    srcCIAComp nW nL T ciaXsec mixOne mixTwo' pairs i l wn = s * srcCIAComp nW nL T ciaXsec mixOne mixTwo pairs i l wn := by
  rw [srcCIAComp_eq nW nL T ciaXsec mixOne' mixTwo pairs i p hp, srcCIAComp_eq nW nL T ciaXsec mixOne mixTwo' pairs i p hp,
    srcCIAComp_eq nW nL T ciaXsec mixOne mixTwo pairs i p hp, h1, h2]
  simp only
  have h := sigma_prop (fun l wn => ciaXsec p (T l) wn) (mixOne p) (mixTwo p) s l wn
  split
  · exact ⟨h.2.1, h.2.2.1⟩
  · simp

end comps

/-! ### the loop over a LIST of contributions: the regenerated `path_integral` -/

section loop
variable {newMethod : Bool} {rp rs : ℝ} {n nwn total : ℕ} {zb z dz dens : ℕ → ℝ}
  {planetPaths : (ℕ → ℝ) → (ℕ → ℕ → ℝ) → (ℕ → ℕ → ℝ) → List (ℕ → ℝ)}

/-- row `l` of the chord table the regenerated `path_integral` computes first (`self.path_length[l]`): the regenerated
    `compute_path_length_old(dz)`, or for `new_path_method=True` the regenerated `compute_path_length()` (whose 3-D
    geometry is the parameter `planetPaths`); `k ↦ 0` past the end of the list, as the loop reads it -/
noncomputable def srcPath (newMethod : Bool) (rp : ℝ) (n : ℕ) (zb z dz : ℕ → ℝ)
    (planetPaths : (ℕ → ℝ) → (ℕ → ℕ → ℝ) → (ℕ → ℕ → ℝ) → List (ℕ → ℝ)) (l : ℕ) : ℕ → ℝ :=
  (if newMethod then Gen.SrcC03.compute_path_length dz n planetPaths rp zb z
   else Gen.SrcC03.compute_path_length_old dz n rp z).getD l (fun _ => 0)

/-- entry `[l, wn]` of the `exp(-tau)` table the regenerated `path_integral` returns for the contribution list `cs`
    (`model()[2]`; with `cs = [c]` what `model_contrib` stores for `c`, with `cs = [⟨κ, component⟩]` what
    `model_full_contrib` stores), Python's dynamic dispatch `contrib.contribute(…)` resolved to the three regenerated
    `contribute` methods (`C03Src.dispatch`) -/
noncomputable def srcTrans (newMethod : Bool) (rp rs : ℝ) (n nwn total : ℕ) (zb z dz dens : ℕ → ℝ)
    (planetPaths : (ℕ → ℝ) → (ℕ → ℕ → ℝ) → (ℕ → ℕ → ℝ) → List (ℕ → ℝ)) (cs : List (Contrib ℝ)) (l wn : ℕ) : ℝ :=
  (Gen.SrcC03.path_integral nwn cs (dispatch nwn total n) dz dens n newMethod planetPaths rp rs zb z).2 l wn

/-- the tie: the returned transmittance is the model's loop WITH the early exit, `tauCut`, on the regenerated chords -/
theorem srcTrans_eq (ht : 0 < total) (cs : List (Contrib ℝ)) (l wn : ℕ) (hl : l < n) (hwn : wn < nwn) :
    srcTrans newMethod rp rs n nwn total zb z dz dens planetPaths cs l wn
      = Transmission.trans (tauCut n nwn (srcPath newMethod rp n zb z dz planetPaths l) dens l cs wn) :=
  (src_path_integral n nwn total ht rp rs z dz dens zb cs newMethod planetPaths).1 l hl wn hwn

/-- `tauCut_single` about the source: the regenerated `path_integral` run on ONE contribution (`model_contrib`) is never
    cut — it returns the documented integral of that contribution -/
theorem src_tauCut_single (ht : 0 < total) (c : Contrib ℝ) (l wn : ℕ) (hl : l < n) (hwn : wn < nwn) :
    srcTrans newMethod rp rs n nwn total zb z dz dens planetPaths [c] l wn
      = Transmission.trans (tauFull n (srcPath newMethod rp n zb z dz planetPaths l) dens l [c] wn) := by
  rw [srcTrans_eq ht [c] l wn hl hwn, tauCut_single n nwn (by omega)]

/-- `transmittance_mul` about the source: the transmittance of the documented integral over the whole list (`tauFull`, the
    sum without the early exit — the code has no such loop) is the product of what the regenerated `path_integral` returns
    for each contribution alone -/
theorem src_transmittance_mul (ht : 0 < total) (cs : List (Contrib ℝ)) (l wn : ℕ) (hl : l < n) (hwn : wn < nwn) :
    Transmission.trans (tauFull n (srcPath newMethod rp n zb z dz planetPaths l) dens l cs wn)
      = (cs.map (fun c => srcTrans newMethod rp rs n nwn total zb z dz dens planetPaths [c] l wn)).prod := by
  rw [transmittance_mul]
  congr 1
  apply List.map_congr_left
  intro c _
  rw [src_tauCut_single ht c l wn hl hwn]

/-- `product_within_cutoff` about the source: what the regenerated `path_integral` returns for the whole list is never
    below the product of what it returns for each contribution alone (`model_contrib`), and exceeds it by at most
    `exp(-10)` -/
theorem src_product_within_cutoff (ht : 0 < total) (l : ℕ) (hl : l < n)
    (hp : ∀ k < n - l, 0 ≤ srcPath newMethod rp n zb z dz planetPaths l k) (hd : ∀ j < n, 0 ≤ dens j)
    (cs : List (Contrib ℝ)) (hcs : ∀ c ∈ cs, c.Nonneg) (wn : ℕ) (hwn : wn < nwn) :
    (cs.map (fun c => srcTrans newMethod rp rs n nwn total zb z dz dens planetPaths [c] l wn)).prod
        ≤ srcTrans newMethod rp rs n nwn total zb z dz dens planetPaths cs l wn ∧
    srcTrans newMethod rp rs n nwn total zb z dz dens planetPaths cs l wn
        - (cs.map (fun c => srcTrans newMethod rp rs n nwn total zb z dz dens planetPaths [c] l wn)).prod
      ≤ Transmission.trans 10 := by
  have e : (fun c => srcTrans newMethod rp rs n nwn total zb z dz dens planetPaths [c] l wn)
      = fun c => Transmission.trans (tauCut n nwn (srcPath newMethod rp n zb z dz planetPaths l) dens l [c] wn) :=
    funext fun c => srcTrans_eq ht [c] l wn hl hwn
  rw [e, srcTrans_eq ht cs l wn hl hwn]
  exact product_within_cutoff n nwn _ dens l hp hd cs hcs wn hwn

/-- `order_within_cutoff` about the source: the regenerated `path_integral` run on two insertion orders of the same
    contributions returns transmittances within `exp(-10)` of each other -/
theorem src_order_within_cutoff (ht : 0 < total) (l : ℕ) (hl : l < n)
    (hp : ∀ k < n - l, 0 ≤ srcPath newMethod rp n zb z dz planetPaths l k) (hd : ∀ j < n, 0 ≤ dens j)
    (cs cs' : List (Contrib ℝ)) (hcs : ∀ c ∈ cs, c.Nonneg) (h : cs.Perm cs') (wn : ℕ) (hwn : wn < nwn) :
    |srcTrans newMethod rp rs n nwn total zb z dz dens planetPaths cs l wn
        - srcTrans newMethod rp rs n nwn total zb z dz dens planetPaths cs' l wn| ≤ Transmission.trans 10 := by
  rw [srcTrans_eq ht cs l wn hl hwn, srcTrans_eq ht cs' l wn hl hwn]
  exact order_within_cutoff n nwn _ dens l hp hd cs cs' hcs h wn hwn

/-- what "the early exit did not fire in row `l`" looks like on the RETURNED table: some column of the row is not below
    `exp(-10)` -/
def Unsaturated (newMethod : Bool) (rp rs : ℝ) (n nwn total : ℕ) (zb z dz dens : ℕ → ℝ)
    (planetPaths : (ℕ → ℝ) → (ℕ → ℕ → ℝ) → (ℕ → ℕ → ℝ) → List (ℕ → ℝ)) (cs : List (Contrib ℝ)) (l : ℕ) : Prop :=
  ∃ w < nwn, Transmission.trans 10 ≤ srcTrans newMethod rp rs n nwn total zb z dz dens planetPaths cs l w

/-- a row the regenerated `path_integral` returns unsaturated is exactly the documented integral over the whole list -/
theorem srcTrans_eq_full (ht : 0 < total) (l : ℕ) (hl : l < n)
    (hp : ∀ k < n - l, 0 ≤ srcPath newMethod rp n zb z dz planetPaths l k) (hd : ∀ j < n, 0 ≤ dens j)
    (cs : List (Contrib ℝ)) (hcs : ∀ c ∈ cs, c.Nonneg)
    (hU : Unsaturated newMethod rp rs n nwn total zb z dz dens planetPaths cs l) (wn : ℕ) (hwn : wn < nwn) :
    srcTrans newMethod rp rs n nwn total zb z dz dens planetPaths cs l wn
      = Transmission.trans (tauFull n (srcPath newMethod rp n zb z dz planetPaths l) dens l cs wn) := by
  obtain ⟨w, hw, h10⟩ := hU
  rw [srcTrans_eq ht cs l w hl hw] at h10
  rw [srcTrans_eq ht cs l wn hl hwn, tauCut_eq_full_of_trans n nwn _ dens l hp hd cs hcs w hw h10 wn]

/-- a sub-list of contributions of an unsaturated row is unsaturated too (its full sum is not larger) -/
theorem unsaturated_of_le (ht : 0 < total) (l : ℕ) (hl : l < n)
    (hp : ∀ k < n - l, 0 ≤ srcPath newMethod rp n zb z dz planetPaths l k) (hd : ∀ j < n, 0 ≤ dens j)
    (cs ds : List (Contrib ℝ)) (hcs : ∀ c ∈ cs, c.Nonneg) (hds : ∀ c ∈ ds, c.Nonneg)
    (hle : ∀ wn, tauFull n (srcPath newMethod rp n zb z dz planetPaths l) dens l ds wn
      ≤ tauFull n (srcPath newMethod rp n zb z dz planetPaths l) dens l cs wn)
    (hU : Unsaturated newMethod rp rs n nwn total zb z dz dens planetPaths cs l) :
    Unsaturated newMethod rp rs n nwn total zb z dz dens planetPaths ds l := by
  have hfull := srcTrans_eq_full ht l hl hp hd cs hcs hU
  obtain ⟨w, hw, h10⟩ := hU
  refine ⟨w, hw, ?_⟩
  rw [hfull w hw] at h10
  rw [srcTrans_eq ht ds l w hl hw]
  exact h10.trans (trans_anti ((tauCut_le_full n nwn _ dens l hp hd ds hds w).trans (hle w)))

/-- `tauFull_append` about the source: when the row of the concatenated list comes back unsaturated, the regenerated
    `path_integral` is multiplicative over concatenation (the optical depths add) -/
theorem src_tauFull_append (ht : 0 < total) (l : ℕ) (hl : l < n)
    (hp : ∀ k < n - l, 0 ≤ srcPath newMethod rp n zb z dz planetPaths l k) (hd : ∀ j < n, 0 ≤ dens j)
    (cs ds : List (Contrib ℝ)) (hcs : ∀ c ∈ cs, c.Nonneg) (hds : ∀ c ∈ ds, c.Nonneg)
    (hU : Unsaturated newMethod rp rs n nwn total zb z dz dens planetPaths (cs ++ ds) l) (wn : ℕ) (hwn : wn < nwn) :
    srcTrans newMethod rp rs n nwn total zb z dz dens planetPaths (cs ++ ds) l wn
      = srcTrans newMethod rp rs n nwn total zb z dz dens planetPaths cs l wn
        * srcTrans newMethod rp rs n nwn total zb z dz dens planetPaths ds l wn := by
  have hall : ∀ c ∈ cs ++ ds, c.Nonneg := fun c hc => (List.mem_append.1 hc).elim (hcs c) (hds c)
  have h1 : ∀ w, 0 ≤ tauFull n (srcPath newMethod rp n zb z dz planetPaths l) dens l cs w :=
    tauFull_nonneg' n _ dens l hp hd cs hcs
  have h2 : ∀ w, 0 ≤ tauFull n (srcPath newMethod rp n zb z dz planetPaths l) dens l ds w :=
    tauFull_nonneg' n _ dens l hp hd ds hds
  have hUc := unsaturated_of_le ht l hl hp hd (cs ++ ds) cs hall hcs
    (fun w => by rw [tauFull_append]; linarith [h2 w]) hU
  have hUd := unsaturated_of_le ht l hl hp hd (cs ++ ds) ds hall hds
    (fun w => by rw [tauFull_append]; linarith [h1 w]) hU
  rw [srcTrans_eq_full ht l hl hp hd (cs ++ ds) hall hU wn hwn, srcTrans_eq_full ht l hl hp hd cs hcs hUc wn hwn,
    srcTrans_eq_full ht l hl hp hd ds hds hUd wn hwn, tauFull_append, trans_add]

/-- `tauFull_perm` about the source: when the row comes back unsaturated, the regenerated `path_integral` returns the
    same row for every insertion order of the contributions -/
theorem src_tauFull_perm (ht : 0 < total) (l : ℕ) (hl : l < n)
    (hp : ∀ k < n - l, 0 ≤ srcPath newMethod rp n zb z dz planetPaths l k) (hd : ∀ j < n, 0 ≤ dens j)
    (cs cs' : List (Contrib ℝ)) (hcs : ∀ c ∈ cs, c.Nonneg) (h : cs.Perm cs')
    (hU : Unsaturated newMethod rp rs n nwn total zb z dz dens planetPaths cs l) (wn : ℕ) (hwn : wn < nwn) :
    srcTrans newMethod rp rs n nwn total zb z dz dens planetPaths cs l wn
      = srcTrans newMethod rp rs n nwn total zb z dz dens planetPaths cs' l wn := by
  have hcs' : ∀ c ∈ cs', c.Nonneg := fun c hc => hcs c (h.mem_iff.2 hc)
  have hU' := unsaturated_of_le ht l hl hp hd cs cs' hcs hcs'
    (fun w => le_of_eq (tauFull_perm n _ dens l cs cs' h w).symm) hU
  rw [srcTrans_eq_full ht l hl hp hd cs hcs hU wn hwn, srcTrans_eq_full ht l hl hp hd cs' hcs' hU' wn hwn,
    tauFull_perm n _ dens l cs cs' h wn]

/-- `transmittance_mul`, both sides the source: an unsaturated row of the regenerated `path_integral` is exactly the
    product of the rows it returns for each contribution alone -/
theorem src_transmittance_mul_unsaturated (ht : 0 < total) (l : ℕ) (hl : l < n)
    (hp : ∀ k < n - l, 0 ≤ srcPath newMethod rp n zb z dz planetPaths l k) (hd : ∀ j < n, 0 ≤ dens j)
    (cs : List (Contrib ℝ)) (hcs : ∀ c ∈ cs, c.Nonneg)
    (hU : Unsaturated newMethod rp rs n nwn total zb z dz dens planetPaths cs l) (wn : ℕ) (hwn : wn < nwn) :
    srcTrans newMethod rp rs n nwn total zb z dz dens planetPaths cs l wn
      = (cs.map (fun c => srcTrans newMethod rp rs n nwn total zb z dz dens planetPaths [c] l wn)).prod := by
  rw [srcTrans_eq_full ht l hl hp hd cs hcs hU wn hwn, src_transmittance_mul ht cs l wn hl hwn]

/-- `component_product` for EVERY kind (also the cloud's `layerOnly`), as `model_full_contrib` computes it: the regenerated
    `path_integral` run on a contribution whose `sigma_xsec` the regenerated `Contribution.prepare` summed from `comps`
    returns the product of the rows it returns for each component alone -/
theorem src_component_product_kinds (ht : 0 < total) (κ : Kind) (nW nL : ℕ) (comps : List (ℕ → ℕ → ℝ)) (l wn : ℕ)
    (hl : l < n) (hwn : wn < nwn) :
    srcTrans newMethod rp rs n nwn total zb z dz dens planetPaths
        [{ kind := κ, sigma := Gen.SrcC03.contribution_prepare nW comps nL }] l wn
      = (comps.map (fun s => srcTrans newMethod rp rs n nwn total zb z dz dens planetPaths
          [{ kind := κ, sigma := s }] l wn)).prod := by
  have e : (fun s => srcTrans newMethod rp rs n nwn total zb z dz dens planetPaths [{ kind := κ, sigma := s }] l wn)
      = fun s => Transmission.trans
          (tauFull n (srcPath newMethod rp n zb z dz planetPaths l) dens l [{ kind := κ, sigma := s }] wn) :=
    funext fun s => src_tauCut_single ht _ l wn hl hwn
  rw [src_tauCut_single ht _ l wn hl hwn, src_contribution_prepare nL nW comps, e]
  exact component_product n _ dens l κ comps wn

end loop

/-! ### the cloud deck: `SimpleCloudsContribution.contribute` (kind `layerOnly`) -/

/-- entry `[l, wn]` of `tau` after the regenerated `SimpleCloudsContribution.contribute` ran on a zeroed table -/
noncomputable def srcTauCloud (nL nW : ℕ) (l : ℕ) (sigma : ℕ → ℕ → ℝ) (wn : ℕ) : ℝ :=
  Gen.SrcC03.clouds_contribute l (fun _ _ => 0) nL nW sigma l wn

theorem srcTauCloud_eq (n nL nW : ℕ) (path dens : ℕ → ℝ) (l : ℕ) (sigma : ℕ → ℕ → ℝ) (wn : ℕ) :
    srcTauCloud nL nW l sigma wn = tauFull n path dens l [{ kind := .layerOnly, sigma := sigma }] wn := by
  unfold srcTauCloud
  rw [src_clouds_contribute n l nL nW sigma dens path]
  simp only [if_true]
  rfl

/-- `component_sum` for kind `layerOnly` about the regenerated cloud method -/
theorem src_component_sum_cloud (nL nW : ℕ) (l : ℕ) (comps : List (ℕ → ℕ → ℝ)) (wn : ℕ) :
    srcTauCloud nL nW l (Gen.SrcC03.contribution_prepare nW comps nL) wn
      = (comps.map (fun s => srcTauCloud nL nW l s wn)).sum := by
  have e : (fun s => srcTauCloud nL nW l s wn)
      = fun s => tauFull 0 (fun _ => 0) (fun _ => 0) l [{ kind := .layerOnly, sigma := s }] wn :=
    funext fun s => srcTauCloud_eq 0 nL nW (fun _ => 0) (fun _ => 0) l s wn
  rw [srcTauCloud_eq 0 nL nW (fun _ => 0) (fun _ => 0), src_contribution_prepare nL nW comps, e]
  exact component_sum 0 _ _ l .layerOnly comps wn

/-- `tau_prop` for kind `layerOnly` about the regenerated cloud method -/
theorem src_tau_prop_cloud (nL nW : ℕ) (l : ℕ) (sig : ℕ → ℕ → ℝ) (s : ℝ) (wn : ℕ) :
    srcTauCloud nL nW l (fun a b => s * sig a b) wn = s * srcTauCloud nL nW l sig wn := by
  rw [srcTauCloud_eq 0 nL nW (fun _ => 0) (fun _ => 0), srcTauCloud_eq 0 nL nW (fun _ => 0) (fun _ => 0)]
  exact tau_prop 0 _ _ l .layerOnly sig s wn

/-! ### `model_contrib`: the per-contribution loop and the dict it returns -/

section contrib
variable {newMethod : Bool} {rp rs : ℝ} {n nwn total : ℕ} {zb z dz dens grid : ℕ → ℝ}
  {planetPaths : (ℕ → ℝ) → (ℕ → ℕ → ℝ) → (ℕ → ℕ → ℝ) → List (ℕ → ℝ)}

/-- the dict the regenerated `SimpleForwardModel.model_contrib()` returns: `name` reads `contrib.name`, `prepare` is the
    effect of `contrib.prepare(…)` on the contribution (what `model()` applies to every contribution as well) -/
noncomputable def srcContribDict (newMethod : Bool) (rp rs : ℝ) (n nwn total : ℕ) (zb z dz dens grid : ℕ → ℝ)
    (planetPaths : (ℕ → ℝ) → (ℕ → ℕ → ℝ) → (ℕ → ℕ → ℝ) → List (ℕ → ℝ)) (name : Contrib ℝ → String)
    (prepare : Contrib ℝ → Contrib ℝ) (cs : List (Contrib ℝ)) : List (String × ((ℕ → ℝ) × (ℕ → ℕ → ℝ))) :=
  (Gen.SrcC03.model_contrib cs (dispatch nwn total n) dz dens n nwn name grid newMethod planetPaths prepare rp rs zb z).2

/-- contributions with pairwise distinct names: the dict has one entry per contribution, in order, holding what the
    regenerated `path_integral` returns for that contribution ALONE -/
theorem src_model_contrib_entries (name : Contrib ℝ → String) (prepare : Contrib ℝ → Contrib ℝ) (cs : List (Contrib ℝ))
    (hnd : (cs.map (fun c => name (prepare c))).Nodup) :
    srcContribDict newMethod rp rs n nwn total zb z dz dens grid planetPaths name prepare cs
      = cs.map (fun c => (name (prepare c),
          Gen.SrcC03.path_integral nwn [prepare c] (dispatch nwn total n) dz dens n newMethod planetPaths rp rs zb z)) := by
  unfold srcContribDict
  rw [src_model_contrib]
  simpa using dictFill_nodup (fun c => name (prepare c)) _ cs [] (by simpa using hnd)

/-- `product_within_cutoff` with `model_contrib` itself regenerated: for distinct names, the product of the transmittances
    stored in the dict `model_contrib()` returns is never above what `path_integral` returns for the whole (prepared) list,
    and falls short of it by at most `exp(-10)` -/
theorem src_model_contrib_product (ht : 0 < total) (name : Contrib ℝ → String) (prepare : Contrib ℝ → Contrib ℝ)
    (l : ℕ) (hl : l < n) (hp : ∀ k < n - l, 0 ≤ srcPath newMethod rp n zb z dz planetPaths l k) (hd : ∀ j < n, 0 ≤ dens j)
    (cs : List (Contrib ℝ)) (hcs : ∀ c ∈ cs, (prepare c).Nonneg)
    (hnd : (cs.map (fun c => name (prepare c))).Nodup) (wn : ℕ) (hwn : wn < nwn) :
    ((srcContribDict newMethod rp rs n nwn total zb z dz dens grid planetPaths name prepare cs).map
        (fun e => e.2.2 l wn)).prod
        ≤ srcTrans newMethod rp rs n nwn total zb z dz dens planetPaths (cs.map prepare) l wn ∧
    srcTrans newMethod rp rs n nwn total zb z dz dens planetPaths (cs.map prepare) l wn
        - ((srcContribDict newMethod rp rs n nwn total zb z dz dens grid planetPaths name prepare cs).map
            (fun e => e.2.2 l wn)).prod ≤ Transmission.trans 10 := by
  rw [src_model_contrib_entries name prepare cs hnd, List.map_map]
  have e : (cs.map ((fun e : String × ((ℕ → ℝ) × (ℕ → ℕ → ℝ)) => e.2.2 l wn) ∘ fun c => (name (prepare c),
        Gen.SrcC03.path_integral nwn [prepare c] (dispatch nwn total n) dz dens n newMethod planetPaths rp rs zb z)))
      = (cs.map prepare).map (fun c => srcTrans newMethod rp rs n nwn total zb z dz dens planetPaths [c] l wn) := by
    rw [List.map_map]; rfl
  rw [e]
  exact src_product_within_cutoff ht l hl hp hd (cs.map prepare)
    (fun c hc => by obtain ⟨c', hc', rfl⟩ := List.mem_map.1 hc; exact hcs c' hc') wn hwn

/-- K4 about the source: when two contributions carry the same name, the dict `model_contrib()` returns has FEWER entries
    than there are contributions (the later one replaced the earlier), so no product over its entries can be the model's -/
theorem src_model_contrib_collision (name : Contrib ℝ → String) (prepare : Contrib ℝ → Contrib ℝ) (cs : List (Contrib ℝ))
    (hdup : ¬ (cs.map (fun c => name (prepare c))).Nodup) :
    (srcContribDict newMethod rp rs n nwn total zb z dz dens grid planetPaths name prepare cs).length < cs.length := by
  unfold srcContribDict
  rw [src_model_contrib]
  simpa using dictFill_length_lt (fun c => name (prepare c)) _ cs [] (by simpa using hdup) (by simp)

end contrib

/-! ### `model_full_contrib`: the per-component loop driven by the suspended generator -/

section full
variable {newMethod : Bool} {rp rs : ℝ} {n nwn total : ℕ} {zb z dz dens grid : ℕ → ℝ}
  {planetPaths : (ℕ → ℝ) → (ℕ → ℕ → ℝ) → (ℕ → ℕ → ℝ) → List (ℕ → ℝ)}

/-- the dict the regenerated `SimpleForwardModel.model_full_contrib()` returns: `cname` reads `contrib.name`,
    `prepareEach c` lists the (yielded name, state of `c` at that yield) pairs of the generator `c.prepare_each(…)` -/
noncomputable def srcFullDict (newMethod : Bool) (rp rs : ℝ) (n nwn total : ℕ) (zb z dz dens grid : ℕ → ℝ)
    (planetPaths : (ℕ → ℝ) → (ℕ → ℕ → ℝ) → (ℕ → ℕ → ℝ) → List (ℕ → ℝ)) (cname : Contrib ℝ → String)
    (prepareEach : Contrib ℝ → List (String × Contrib ℝ)) (cs : List (Contrib ℝ)) :
    List (String × List (String × ((ℕ → ℝ) × (ℕ → ℕ → ℝ)))) :=
  (Gen.SrcC03.model_full_contrib cname cs (dispatch nwn total n) dz dens n nwn grid newMethod planetPaths prepareEach
    rp rs zb z).2

/-- the states a generator leaves its contribution in: the kind (the class) stays, `sigma_xsec` is what the generator has
    published at that yield — one state per element of `published`, under the yielded names `names` -/
def statesOf (κ : Kind) (names : List String) (published : List (ℕ → ℕ → ℝ)) : List (String × Contrib ℝ) :=
  List.zipWith (fun nm s => (nm, ({ kind := κ, sigma := s } : Contrib ℝ))) names published

/-- contributions with pairwise distinct names: the dict has one entry per contribution, in order, holding one record per
    yield of its generator: the yielded name and what the regenerated `path_integral` returns for the contribution ALONE in
    the state it is in at that yield -/
theorem src_model_full_contrib_entries (cname : Contrib ℝ → String)
    (prepareEach : Contrib ℝ → List (String × Contrib ℝ)) (cs : List (Contrib ℝ)) (hnd : (cs.map cname).Nodup) :
    srcFullDict newMethod rp rs n nwn total zb z dz dens grid planetPaths cname prepareEach cs
      = cs.map (fun c => (cname c, (prepareEach c).map (fun g => (g.1,
          Gen.SrcC03.path_integral nwn [g.2] (dispatch nwn total n) dz dens n newMethod planetPaths rp rs zb z)))) := by
  unfold srcFullDict
  rw [src_model_full_contrib]
  simpa using dictFill_nodup cname _ cs [] (by simpa using hnd)

/-- **`component_product` with `model_full_contrib` itself regenerated** (every kind): a contribution whose generator
    publishes the arrays `published` (for CIA / Rayleigh / absorption the regenerated `*_prepare_each_published`, provably
    the yielded components: `src_cia_published`, …) — the product over the records `model_full_contrib()` stores for it of
    their transmittance at `[l, wn]` is the transmittance the regenerated `path_integral` returns for the contribution
    with the `sigma_xsec` that the regenerated `Contribution.prepare` sums from the same arrays: what `model_contrib()`
    stores for it.  No cut-off term: a single contribution is never cut. -/
theorem src_full_contrib_component_product (ht : 0 < total) (cname : Contrib ℝ → String)
    (prepareEach : Contrib ℝ → List (String × Contrib ℝ)) (cs : List (Contrib ℝ)) (hnd : (cs.map cname).Nodup)
    (c : Contrib ℝ) (hc : c ∈ cs) (κ : Kind) (names : List String) (published : List (ℕ → ℕ → ℝ))
    (hlen : names.length = published.length) (hpe : prepareEach c = statesOf κ names published) (nW nL : ℕ)
    (l wn : ℕ) (hl : l < n) (hwn : wn < nwn) :
    ∃ recs, (srcFullDict newMethod rp rs n nwn total zb z dz dens grid planetPaths cname prepareEach cs).lookup (cname c)
        = some recs ∧ recs.map (·.1) = names ∧
      (recs.map (fun r => r.2.2 l wn)).prod
        = srcTrans newMethod rp rs n nwn total zb z dz dens planetPaths
            [{ kind := κ, sigma := Gen.SrcC03.contribution_prepare nW published nL }] l wn := by
  rw [src_model_full_contrib_entries cname prepareEach cs hnd]
  have hlook : ∀ (cs : List (Contrib ℝ)), c ∈ cs → (cs.map cname).Nodup →
      (cs.map (fun c => (cname c, (prepareEach c).map (fun g => (g.1,
          Gen.SrcC03.path_integral nwn [g.2] (dispatch nwn total n) dz dens n newMethod planetPaths rp rs zb z))))).lookup
          (cname c)
        = some ((prepareEach c).map (fun g => (g.1,
          Gen.SrcC03.path_integral nwn [g.2] (dispatch nwn total n) dz dens n newMethod planetPaths rp rs zb z))) := by
    intro cs
    induction cs with
    | nil => intro h; cases h
    | cons d ds ih =>
      intro hmem hnd
      simp only [List.map_cons, List.nodup_cons] at hnd
      by_cases hd : d = c
      · subst hd; simp
      · have hne : (cname c == cname d) = false := by
          have hcds : c ∈ ds := by
            rcases List.mem_cons.1 hmem with h | h
            · exact absurd h.symm hd
            · exact h
          have : cname c ≠ cname d := fun he => hnd.1 (he ▸ List.mem_map.2 ⟨c, hcds, rfl⟩)
          simpa using this
        have hcds : c ∈ ds := by
          rcases List.mem_cons.1 hmem with h | h
          · exact absurd h.symm hd
          · exact h
        simp only [List.map_cons, List.lookup_cons, hne]
        exact ih hcds hnd.2
  refine ⟨_, hlook cs hc hnd, ?_, ?_⟩
  · rw [hpe, List.map_map]
    unfold statesOf
    clear hlook hpe
    induction names generalizing published with
    | nil => simp
    | cons a as ih =>
      cases published with
      | nil => simp at hlen
      | cons p ps =>
        simp only [List.zipWith_cons_cons, List.map_cons, Function.comp, List.cons.injEq, true_and]
        exact ih ps (by simpa using hlen)
  · rw [src_component_product_kinds ht κ nW nL published l wn hl hwn, hpe, List.map_map]
    unfold statesOf
    clear hlook hpe
    congr 1
    induction names generalizing published with
    | nil =>
      cases published with
      | nil => simp
      | cons p ps => simp at hlen
    | cons a as ih =>
      cases published with
      | nil => simp at hlen
      | cons p ps =>
        simp only [List.zipWith_cons_cons, List.map_cons, Function.comp, List.cons.injEq]
        exact ⟨rfl, ih ps (by simpa using hlen)⟩

/-- K4 about the regenerated `model_full_contrib`: when two contributions carry the same name the dict has FEWER entries
    than there are contributions (the later list of records replaced the earlier) -/
theorem src_model_full_contrib_collision (cname : Contrib ℝ → String)
    (prepareEach : Contrib ℝ → List (String × Contrib ℝ)) (cs : List (Contrib ℝ)) (hdup : ¬ (cs.map cname).Nodup) :
    (srcFullDict newMethod rp rs n nwn total zb z dz dens grid planetPaths cname prepareEach cs).length < cs.length := by
  unfold srcFullDict
  rw [src_model_full_contrib]
  simpa using dictFill_length_lt cname _ cs [] (by simpa using hdup) (by simp)

end full

/-! ### the Rayleigh conjunct of `sigma_prop` -/

section rayleigh
variable {ι : Type}

/-- the largest element of a profile scales with a positive factor -/
theorem foldl_max_scale (s : ℝ) (hs : 0 < s) (f : ℕ → ℝ) (ks : List ℕ) (a : ℝ) :
    ks.foldl (fun acc k => if acc < s * f (k + 1) then s * f (k + 1) else acc) (s * a)
      = s * ks.foldl (fun acc k => if acc < f (k + 1) then f (k + 1) else acc) a := by
  induction ks generalizing a with
  | nil => rfl
  | cons k ks ih =>
    simp only [List.foldl_cons]
    by_cases h : a < f (k + 1)
    · rw [if_pos ((mul_lt_mul_iff_right₀ hs).2 h), if_pos h, ih]
    · rw [if_neg (fun h' => h ((mul_lt_mul_iff_right₀ hs).1 h')), if_neg h, ih]

/-- the code's test `np.max(mix) == 0.0` does not see a positive factor: the molecules `RayleighContribution.prepare_each`
    skips are the same for a profile and for its positive multiple -/
theorem zeroAbundance_scale (nL : ℕ) (mix : ℕ → ℝ) (s : ℝ) (hs : 0 < s) :
    zeroAbundance nL (fun j => s * mix j) = zeroAbundance nL mix := by
  unfold zeroAbundance
  simp only
  rw [foldl_max_scale s hs mix]
  generalize (List.range (nL - 1)).foldl (fun acc k => if acc < mix (k + 1) then mix (k + 1) else acc) (mix 0) = m
  have h1 : s * m ≤ 0 ↔ m ≤ 0 := by
    constructor
    · intro h
      by_contra hm
      have := mul_pos hs (lt_of_not_ge hm)
      exact absurd h (not_le.2 this)
    · intro h
      exact mul_nonpos_of_nonneg_of_nonpos hs.le h
  have h2 : 0 ≤ s * m ↔ 0 ≤ m := by
    constructor
    · intro h
      by_contra hm
      have := mul_neg_of_pos_of_neg hs (lt_of_not_ge hm)
      exact absurd h (not_le.2 this)
    · intro h
      exact mul_nonneg hs.le h
  simp only [h1, h2]

/-- the molecules for which the regenerated `RayleighContribution.prepare_each` yields a component, in order -/
noncomputable def rayleighKept (nL : ℕ) (lawDefined : ι → Bool) (mix : ι → ℕ → ℝ) (molecules : List ι) : List ι :=
  molecules.filter (fun g => !zeroAbundance nL (mix g) && lawDefined g)

/-- the `i`-th array the regenerated `RayleighContribution.prepare_each` yields -/
noncomputable def srcRayComp (nW nL : ℕ) (law : ι → ℕ → ℝ) (lawDefined : ι → Bool) (mix : ι → ℕ → ℝ)
    (molecules : List ι) (i : ℕ) : ℕ → ℕ → ℝ :=
  (Gen.SrcC03.rayleigh_prepare_each nW law lawDefined mix molecules nL).getD i (fun _ _ => 0)

theorem srcRayComp_eq (nW nL : ℕ) (law : ι → ℕ → ℝ) (lawDefined : ι → Bool) (mix : ι → ℕ → ℝ) (molecules : List ι)
    (i : ℕ) (g : ι) (hg : (rayleighKept nL lawDefined mix molecules)[i]? = some g) :
    srcRayComp nW nL law lawDefined mix molecules i = compScaled (law g) (mix g) := by
  unfold srcRayComp
  rw [src_rayleigh_prepare_each]
  unfold rayleighKept at hg
  simp [List.getD_eq_getElem?_getD, List.getElem?_map, hg]

/-- **the `compScaled` (Rayleigh) conjunct of `sigma_prop` about the regenerated `RayleighContribution.prepare_each`**,
    run on a mixing-ratio table `mix` and on one (`mix'`) in which some molecules are scaled by a POSITIVE factor `s` and
    the others are unchanged.  The generator skips a molecule by a test on the mixing ratio itself (`np.max(mix) == 0.0`);
    a positive factor does not change that test (`zeroAbundance_scale`), so both runs yield for the same molecules, in the
    same order (`rayleighKept` agree), and the array yielded at position `i` for a scaled molecule is `s` times the
    original one. -/
theorem src_sigma_prop_rayleigh (nW nL : ℕ) (law : ι → ℕ → ℝ) (lawDefined : ι → Bool) (mix mix' : ι → ℕ → ℝ)
    (molecules : List ι) (s : ℝ) (hs : 0 < s)
    (hscale : ∀ h ∈ molecules, mix' h = mix h ∨ mix' h = fun j => s * mix h j) :
    rayleighKept nL lawDefined mix' molecules = rayleighKept nL lawDefined mix molecules ∧
    ∀ (i : ℕ) (g : ι), (rayleighKept nL lawDefined mix molecules)[i]? = some g → (mix' g = fun j => s * mix g j) →
      ∀ l wn, srcRayComp nW nL law lawDefined mix' molecules i l wn
        = s * srcRayComp nW nL law lawDefined mix molecules i l wn := by
  have hk : rayleighKept nL lawDefined mix' molecules = rayleighKept nL lawDefined mix molecules := by
    unfold rayleighKept
    apply List.filter_congr
    intro h hh
    rcases hscale h hh with e | e
    · rw [e]
    · rw [e, zeroAbundance_scale nL (mix h) s hs]
  refine ⟨hk, fun i g hg hgs l wn => ?_⟩
  rw [srcRayComp_eq nW nL law lawDefined mix' molecules i g (by rw [hk]; exact hg),
    srcRayComp_eq nW nL law lawDefined mix molecules i g hg, hgs]
  have h := (sigma_prop (fun _ w => law g w) (mix g) (fun _ => 0) s l wn).2.2.2
  simpa using h

end rayleigh

end Taurex.C03SrcProps
