/-
  C06 — the property theorems restated about the REGENERATED source.  `Props/C06Src.lean` proves that the definitions
  translated on every run from `Optimizer.chisq_trans`, `Optimizer.update_model` and the closures built by the three
  `compute_fit` methods (`nestle_loglike` / `multinest_loglike` / `polychord_loglike`, `…_uniform_prior`) are the model's
  `chisq`, `updateModel`, `loglike`, `priorTransform`; `Props/C06.lean` proves the property about these.  The corollaries
  below compose the two: they are statements about the text of the code as it is now, at the real carrier.

  What is composed.  The tie is in pieces (the closures call `self.chisq_trans`, which calls `self.update_model` and the
  forward model: each is translated on its own, the callee a parameter of the caller), so a model statement
  `loglike … = .fin G` becomes the chain the code executes:
    * `srcChisq obs sig m wn` = the regenerated `chisq_trans` on a model evaluation that succeeded with binned spectrum `m`
      (carrier `Option ℝ`, `none` = NaN, as in the tie `src_chisq`); `srcChisqInvalid` = the same when the forward model
      raised `InvalidModelException`.  The corollaries say it returns a number `c` (`= some c`) or NaN (`= none`).
    * `srcLoglike s pi obs sig pt nfit c` = the regenerated log-likelihood closure of sampler `s` (`nestle`, `multinest`,
      `polychord`: component 0 of the returned pair) when `self.chisq_trans(…)` returns `c`.  Tie hypothesis kept visible:
      for MultiNest / PolyChord `nfit ≤ len(cube)` (`CubeOK`).
    * `srcPrior s params priors cube` = the regenerated prior callback of sampler `s`.  Tie hypotheses kept visible:
      `params.length = priors.length`, `cube.length = priors.length`.
    * `srcWritten params priors vals` = the values the regenerated `update_model` writes through `fset`, in order
      (`none` = its `ValueError`).  Tie hypothesis kept visible: `params.length = priors.length`.
  The forward model + binner stays the parameter `fm` of the model theorems: a hypothesis `fm written = .ok …` names the
  binned spectrum at the values the regenerated `update_model` wrote.
  `loglike_of_fin` / `callback_of_some` are the two composition steps (model statement ⇒ chain of source statements).

    * `srcCallback s pi obs sig pt nfit wn out` = the regenerated log-likelihood closure of sampler `s` CALLING the regenerated
      `chisq_trans`, both at the NaN-aware carrier `Option ℝ` (`none` = NaN, NaN-propagating `+ - * / sqrt log`, the ties
      `src_*_loglike_nan`), when evaluating the forward model gave `out` (a binned spectrum or `InvalidModelException`).
      `callback_of_some_nan` is the composition step for it (finite or not); `src_invalid_not_finite_full` restates
      `invalid_not_finite` in full: the NaN chi-square of an invalid model comes out of every sampler's closure as NaN.

  Not restated (no tie)
    * `fault_sequence`: the sequence of calls is made by the external sampler (`runSequence` is the model of that loop, there
      is no source for it); that each call depends on its argument alone is the form of the translated closures (pure
      functions of `theta`).
-/
import Props.C06
import Props.C06Src
set_option linter.unusedSectionVars false

namespace Taurex.C06SrcProps
open Taurex.Likelihood Taurex.C06 Taurex.C06Src

/-! ### the source expressions -/

/-- the regenerated `chisq_trans` when the model evaluation succeeded with binned spectrum `m` (`none` entries: NaN) -/
noncomputable def srcChisq (obs sig : List ℝ) (m wn : List (Option ℝ)) : Option ℝ :=
  Gen.SrcC06.chisq_trans (α := Option ℝ) (datastd := sig.map some) (final_model := m) (isnan := Option.isNone)
    (np_nan := none) (raised_InvalidModelException := false) (spectrum := obs.map some) (wavenumberGrid := wn)

theorem srcChisq_eq (obs sig : List ℝ) (m wn : List (Option ℝ)) :
    srcChisq obs sig m wn = valOpt (chisq obs sig (.ok m)) :=
  src_chisq obs sig m wn

/-- the regenerated `chisq_trans` when the forward model raised `InvalidModelException` -/
noncomputable def srcChisqInvalid (obs sig : List ℝ) (m wn : List (Option ℝ)) : Option ℝ :=
  Gen.SrcC06.chisq_trans (α := Option ℝ) (datastd := sig.map some) (final_model := m) (isnan := Option.isNone)
    (np_nan := none) (raised_InvalidModelException := true) (spectrum := obs.map some) (wavenumberGrid := wn)

/-- the wrapped samplers -/
inductive Sampler where
  | nestle
  | multinest
  | polychord

/-- the guard of the MultiNest / PolyChord ties: the cube holds at least the `nfit` fitted parameters -/
def CubeOK (s : Sampler) (pt : List ℝ) (nfit : ℕ) : Prop :=
  match s with
  | .nestle => True
  | _ => nfit ≤ pt.length

/-- the regenerated log-likelihood closure of sampler `s` at the point `pt`, when `self.chisq_trans(…)` returns `c` -/
noncomputable def srcLoglike (s : Sampler) (pi : ℝ) (obs sig pt : List ℝ) (nfit : ℕ) (c : ℝ) : ℝ :=
  match s with
  | .nestle => Gen.SrcC06.nestle_loglike pt obs sig (c0p5 := 1 / 2) (chisq_trans := fun _ _ _ => c) (pi := pi)
  | .multinest => Gen.SrcC06.multinest_loglike pt nfit (c0p5 := 1 / 2) (chisq_trans := fun _ _ _ => c) (errorBar := sig)
      (pi := pi) (spectrum := obs)
  | .polychord =>
    (Gen.SrcC06.polychord_loglike pt obs sig nfit (c0p5 := 1 / 2) (chisq_trans := fun _ _ _ => c) (pi := pi)).1

theorem srcLoglike_eq (s : Sampler) (pi : ℝ) (obs sig pt : List ℝ) (nfit : ℕ) (c : ℝ) (h : CubeOK s pt nfit) :
    srcLoglike s pi obs sig pt nfit c = -(normTerm pi sig) - (1 / 2) * c := by
  cases s
  · exact src_nestle_loglike pi (fun _ _ _ => c) pt obs sig
  · exact src_multinest_loglike pi (fun _ _ _ => c) pt obs sig nfit h
  · simp only [srcLoglike]
    rw [src_polychord_loglike pi (fun _ _ _ => c) pt obs sig nfit h]

/-- the regenerated prior callback of sampler `s` -/
noncomputable def srcPrior {ρ : Type} (s : Sampler) (params : List ρ) (priors : List (Prior ℝ)) (cube : List ℝ) :
    List ℝ :=
  match s with
  | .nestle => Gen.SrcC06.nestle_uniform_prior cube priors (sample := fun p u => p.sample u)
  | .multinest => Gen.SrcC06.multinest_uniform_prior cube priors (sample := fun p u => p.sample u)
  | .polychord => Gen.SrcC06.polychord_uniform_prior cube params priors (sample := fun p u => p.sample u)

theorem srcPrior_eq {ρ : Type} (s : Sampler) (params : List ρ) (priors : List (Prior ℝ)) (cube : List ℝ)
    (hp : params.length = priors.length) (hlen : cube.length = priors.length) :
    srcPrior s params priors cube = priorTransform priors cube := by
  cases s
  · exact src_nestle_prior priors cube hlen.symm
  · simp only [srcPrior]
    rw [src_multinest_prior priors cube (by omega), ← hlen]
    simp
  · exact src_polychord_prior params priors cube hp hlen.symm

/-- the values the regenerated `update_model(vals)` writes, in order (`none`: its `ValueError`) -/
noncomputable def srcWritten {ρ : Type} (params : List ρ) (priors : List (Prior ℝ)) (vals : List ℝ) :
    Option (List ℝ) :=
  (Gen.SrcC06.update_model vals params priors (prior := fun p v => p.prior v)).map (List.map (fun e => e.2.2))

theorem srcWritten_eq {ρ : Type} (params : List ρ) (priors : List (Prior ℝ)) (vals : List ℝ)
    (hp : params.length = priors.length) : srcWritten params priors vals = updateModel priors vals :=
  src_update_model params priors vals hp

/-! ### the two composition steps -/

/-- a finite model likelihood `G`, read on the source: the regenerated `chisq_trans` returns a number `c`, and the regenerated
    closure of every sampler, handed `c`, returns `G` -/
theorem loglike_of_fin (pi : ℝ) (obs sig : List ℝ) (m wn : List (Option ℝ)) (G : ℝ)
    (h : loglike pi obs sig (.ok m) = .fin G) :
    ∃ c, srcChisq obs sig m wn = some c ∧
      ∀ (s : Sampler) (pt : List ℝ) (nfit : ℕ), CubeOK s pt nfit → srcLoglike s pi obs sig pt nfit c = G := by
  cases hc : chisq obs sig (.ok m) with
  | fin c =>
    refine ⟨c, by rw [srcChisq_eq, hc]; rfl, fun s pt nfit hs => ?_⟩
    rw [srcLoglike_eq s pi obs sig pt nfit c hs]
    simp only [loglike, hc] at h
    exact Val.fin.inj h
  | nan => simp [loglike, hc] at h
  | posInf => simp [loglike, hc] at h

/-- a value of the model callback, read on the source: the regenerated `update_model` writes a list `written` (no
    `ValueError`) and the value is the likelihood of the forward model at `written` -/
theorem callback_of_some {ρ : Type} (pi : ℝ) (params : List ρ) (priors : List (Prior ℝ)) (fm : List ℝ → ModelOut ℝ)
    (obs sig theta : List ℝ) (hp : params.length = priors.length) (v : Val ℝ)
    (h : loglikeCallback pi priors fm obs sig theta = some v) :
    ∃ written, srcWritten params priors theta = some written ∧ loglike pi obs sig (fm written) = v := by
  rw [srcWritten_eq params priors theta hp]
  unfold loglikeCallback at h
  cases hu : updateModel priors theta with
  | none => simp [hu] at h
  | some w =>
    simp only [hu, Option.some.injEq] at h
    exact ⟨w, rfl, h⟩

/-! ### the NaN-aware chain: closure ∘ `chisq_trans` at the carrier `Option ℝ` -/

/-- did evaluating the forward model raise `InvalidModelException` -/
def raisedOf (out : ModelOut ℝ) : Bool :=
  match out with
  | .invalid => true
  | .ok _ => false

/-- the binned spectrum when it did not (after a raise `final_model` is never read) -/
def binnedOf (out : ModelOut ℝ) : List (Option ℝ) :=
  match out with
  | .ok m => m
  | .invalid => []

/-- `self.chisq_trans(fit_params, data, datastd)` as the closures call it: the regenerated `chisq_trans` (it reads the error
    bars from its argument, the observed spectrum and grid from `self._observed`) when the forward model gave `out` -/
noncomputable def srcChisqFn (obs : List ℝ) (wn : List (Option ℝ)) (out : ModelOut ℝ) :
    List (Option ℝ) → List (Option ℝ) → List (Option ℝ) → Option ℝ :=
  fun _ _ std => Gen.SrcC06.chisq_trans (α := Option ℝ) (datastd := std) (final_model := binnedOf out)
    (isnan := Option.isNone) (np_nan := none) (raised_InvalidModelException := raisedOf out) (spectrum := obs.map some)
    (wavenumberGrid := wn)

theorem srcChisqFn_eq (obs sig : List ℝ) (wn : List (Option ℝ)) (out : ModelOut ℝ) (a b : List (Option ℝ)) :
    srcChisqFn obs wn out a b (sig.map some) = valOpt (chisq obs sig out) := by
  cases out with
  | ok m => exact src_chisq obs sig m wn
  | invalid => exact src_chisq_invalid obs sig [] wn

/-- the regenerated log-likelihood closure of sampler `s` at the point `pt`, calling the regenerated `chisq_trans`, at the
    NaN-aware carrier (`none` = NaN) -/
noncomputable def srcCallback (s : Sampler) (pi : ℝ) (obs sig pt : List ℝ) (nfit : ℕ) (wn : List (Option ℝ))
    (out : ModelOut ℝ) : Option ℝ :=
  match s with
  | .nestle => Gen.SrcC06.nestle_loglike (α := Option ℝ) (pt.map some) (obs.map some) (sig.map some)
      (c0p5 := some (1 / 2)) (chisq_trans := srcChisqFn obs wn out) (pi := some pi)
  | .multinest => Gen.SrcC06.multinest_loglike (α := Option ℝ) (pt.map some) nfit (c0p5 := some (1 / 2))
      (chisq_trans := srcChisqFn obs wn out) (errorBar := sig.map some) (pi := some pi) (spectrum := obs.map some)
  | .polychord => (Gen.SrcC06.polychord_loglike (α := Option ℝ) (pt.map some) (obs.map some) (sig.map some) nfit
      (c0p5 := some (1 / 2)) (chisq_trans := srcChisqFn obs wn out) (pi := some pi)).1

/-- closure ∘ `chisq_trans`, regenerated, is the model's `loglike` — finite or NaN -/
theorem srcCallback_eq (s : Sampler) (pi : ℝ) (obs sig pt : List ℝ) (nfit : ℕ) (wn : List (Option ℝ))
    (out : ModelOut ℝ) (h : CubeOK s pt nfit) :
    srcCallback s pi obs sig pt nfit wn out = valOpt (loglike pi obs sig out) := by
  rw [src_loglike_nan pi obs sig [] out, src_nestle_loglike_nan]
  cases s
  · simp only [srcCallback]
    rw [src_nestle_loglike_nan, srcChisqFn_eq]
  · simp only [srcCallback]
    rw [src_multinest_loglike_nan _ _ _ _ _ _ (by rw [List.length_map]; exact h), srcChisqFn_eq]
  · simp only [srcCallback]
    rw [src_polychord_loglike_nan _ _ _ _ _ _ (by rw [List.length_map]; exact h), srcChisqFn_eq]

/-- a value of the model callback — finite or not —, read on the source: the regenerated `update_model` writes a list
    `written` (no `ValueError`) and the regenerated closure of every sampler, calling the regenerated `chisq_trans` on the
    forward model's output at `written`, returns that value (`none` for NaN) -/
theorem callback_of_some_nan {ρ : Type} (pi : ℝ) (params : List ρ) (priors : List (Prior ℝ)) (fm : List ℝ → ModelOut ℝ)
    (obs sig theta : List ℝ) (wn : List (Option ℝ)) (hp : params.length = priors.length) (v : Val ℝ)
    (h : loglikeCallback pi priors fm obs sig theta = some v) :
    ∃ written, srcWritten params priors theta = some written ∧
      ∀ (s : Sampler) (pt : List ℝ) (nfit : ℕ), CubeOK s pt nfit →
        srcCallback s pi obs sig pt nfit wn (fm written) = valOpt v := by
  obtain ⟨w, hw, hl⟩ := callback_of_some pi params priors fm obs sig theta hp v h
  exact ⟨w, hw, fun s pt nfit hs => by rw [srcCallback_eq s pi obs sig pt nfit wn _ hs, hl]⟩

/-! ### the property theorems -/

/-- **loglike_gaussian**, about the regenerated code: for a valid, finite binned model the regenerated `chisq_trans` returns a
    number and the regenerated closure of every sampler turns it into `-Σ log(σ√2π) - χ²/2` -/
theorem src_loglike_gaussian (obs sig m : List ℝ) (wn : List (Option ℝ)) (hs : sig.length = obs.length)
    (hm : m.length = obs.length) (hne : obs ≠ []) (hpos : ∀ s ∈ sig, 0 < s) :
    ∃ c, srcChisq obs sig (m.map some) wn = some c ∧
      ∀ (s : Sampler) (pt : List ℝ) (nfit : ℕ), CubeOK s pt nfit →
        srcLoglike s Real.pi obs sig pt nfit c = -(logNorm sig) - chiSq obs sig m / 2 :=
  loglike_of_fin Real.pi obs sig _ wn _ (loglike_gaussian obs sig m hs hm hne hpos)

/-- **callback_gaussian**, about the regenerated code: at a point `θ` of the sampled space the regenerated `update_model`
    writes exactly the prior-transformed values `prior_i(θ_i)` in parameter order; with `m` the binned forward model at these
    values, the regenerated `chisq_trans` returns a number and the closure of every sampler returns the Gaussian
    log-likelihood of `m` -/
theorem src_callback_gaussian {ρ : Type} (params : List ρ) (priors : List (Prior ℝ)) (fm : List ℝ → ModelOut ℝ)
    (obs sig m theta : List ℝ) (wn : List (Option ℝ)) (hp : params.length = priors.length)
    (hlen : theta.length = priors.length)
    (hfm : fm (List.zipWith (fun p v => p.prior v) priors theta) = .ok (m.map some))
    (hs : sig.length = obs.length) (hm : m.length = obs.length) (hne : obs ≠ []) (hpos : ∀ s ∈ sig, 0 < s) :
    ∃ written, srcWritten params priors theta = some written ∧
      written = List.zipWith (fun p v => p.prior v) priors theta ∧ fm written = .ok (m.map some) ∧
      ∃ c, srcChisq obs sig (m.map some) wn = some c ∧
        ∀ (s : Sampler) (pt : List ℝ) (nfit : ℕ), CubeOK s pt nfit →
          srcLoglike s Real.pi obs sig pt nfit c = -(logNorm sig) - chiSq obs sig m / 2 := by
  obtain ⟨w, hw, hl⟩ := callback_of_some Real.pi params priors fm obs sig theta hp _
    (callback_gaussian priors fm obs sig m theta hlen hfm hs hm hne hpos)
  have hw' : w = List.zipWith (fun p v => p.prior v) priors theta := by
    rw [srcWritten_eq params priors theta hp, updateModel, if_pos hlen] at hw
    exact (Option.some.inj hw).symm
  refine ⟨w, hw, hw', hw' ▸ hfm, ?_⟩
  rw [hw', hfm] at hl
  exact loglike_of_fin Real.pi obs sig _ wn _ hl

/-- **exact_fit**, about the regenerated code: a perfect fit has the maximal likelihood `-Σ log(σ√2π)` -/
theorem src_exact_fit (obs sig : List ℝ) (wn : List (Option ℝ)) (hs : sig.length = obs.length) (hne : obs ≠ [])
    (hpos : ∀ s ∈ sig, 0 < s) :
    ∃ c, srcChisq obs sig (obs.map some) wn = some c ∧
      ∀ (s : Sampler) (pt : List ℝ) (nfit : ℕ), CubeOK s pt nfit →
        srcLoglike s Real.pi obs sig pt nfit c = -(logNorm sig) :=
  loglike_of_fin Real.pi obs sig _ wn _ (exact_fit obs sig hs hne hpos)

/-- **loglike_le_norm**, about the regenerated code: the likelihood of any valid finite model is bounded by the
    normalisation term -/
theorem src_loglike_le_norm (obs sig m : List ℝ) (wn : List (Option ℝ)) (hs : sig.length = obs.length)
    (hm : m.length = obs.length) (hne : obs ≠ []) (hpos : ∀ s ∈ sig, 0 < s) :
    ∃ c, srcChisq obs sig (m.map some) wn = some c ∧
      ∀ (s : Sampler) (pt : List ℝ) (nfit : ℕ), CubeOK s pt nfit →
        srcLoglike s Real.pi obs sig pt nfit c ≤ -(logNorm sig) := by
  obtain ⟨v, hv, hle⟩ := loglike_le_norm obs sig m hs hm hne hpos
  obtain ⟨c, hc, hall⟩ := loglike_of_fin Real.pi obs sig _ wn v hv
  exact ⟨c, hc, fun s pt nfit h => by rw [hall s pt nfit h]; exact hle⟩

/-- **invalid_not_finite**, about the regenerated code: for a vector of the right length the regenerated `update_model` does not
    raise, and when the forward model raises `InvalidModelException` the regenerated `chisq_trans` returns NaN — no exception
    leaves it, no number comes out -/
theorem src_invalid_not_finite {ρ : Type} (params : List ρ) (priors : List (Prior ℝ)) (obs sig theta : List ℝ)
    (m wn : List (Option ℝ)) (hp : params.length = priors.length) (hlen : theta.length = priors.length) :
    (∃ written, srcWritten params priors theta = some written) ∧ srcChisqInvalid obs sig m wn = none := by
  obtain ⟨⟨v, hv⟩, hnan⟩ := invalid_not_finite priors (fun _ => ModelOut.invalid) obs sig theta hlen
  obtain ⟨w, hw, _⟩ := callback_of_some Real.pi params priors _ obs sig theta hp v hv
  refine ⟨⟨w, hw⟩, ?_⟩
  -- the model callback is NaN on an invalid model, so the model's chi-square is not a number
  have h2 := hnan rfl
  obtain ⟨w', _, hl⟩ := callback_of_some Real.pi params priors _ obs sig theta hp _ h2
  show Gen.SrcC06.chisq_trans (α := Option ℝ) (datastd := sig.map some) (final_model := m) (isnan := Option.isNone)
    (np_nan := none) (raised_InvalidModelException := true) (spectrum := obs.map some) (wavenumberGrid := wn) = none
  rw [src_chisq_invalid obs sig m wn]
  cases hc : chisq obs sig (ModelOut.invalid : ModelOut ℝ) with
  | fin c => simp [loglike, hc] at hl
  | nan => rfl
  | posInf => rfl

/-- **invalid_not_finite** in full, about the regenerated code: for a vector of the right length the regenerated `update_model`
    does not raise and writes the prior-transformed values; when the forward model raises `InvalidModelException` there, the
    regenerated closure of every sampler, calling the regenerated `chisq_trans`, returns NaN — through `chisq_trans`'s
    `except` branch and the closure's own `-… - 0.5*chi_t` — never a number -/
theorem src_invalid_not_finite_full {ρ : Type} (params : List ρ) (priors : List (Prior ℝ)) (fm : List ℝ → ModelOut ℝ)
    (obs sig theta : List ℝ) (wn : List (Option ℝ)) (hp : params.length = priors.length)
    (hlen : theta.length = priors.length) :
    ∃ written, srcWritten params priors theta = some written ∧
      written = List.zipWith (fun p v => p.prior v) priors theta ∧
      (fm written = .invalid →
        ∀ (s : Sampler) (pt : List ℝ) (nfit : ℕ), CubeOK s pt nfit →
          srcCallback s Real.pi obs sig pt nfit wn (fm written) = none) := by
  obtain ⟨⟨v, hv⟩, hnan⟩ := invalid_not_finite priors fm obs sig theta hlen
  obtain ⟨w, hw, hall⟩ := callback_of_some_nan Real.pi params priors fm obs sig theta wn hp v hv
  have hw' : w = List.zipWith (fun p v => p.prior v) priors theta := by
    rw [srcWritten_eq params priors theta hp, updateModel, if_pos hlen] at hw
    exact (Option.some.inj hw).symm
  refine ⟨w, hw, hw', fun hinv s pt nfit hs => ?_⟩
  have hv' : v = .nan := by
    have := hnan (hw' ▸ hinv)
    rw [hv] at this
    exact Option.some.inj this
  rw [hall s pt nfit hs, hv']
  rfl

/-- the same for any outcome of the forward model: the regenerated chain returns the model's `loglike` of it, a number exactly
    when the model's value is finite -/
theorem src_callback_value {ρ : Type} (params : List ρ) (priors : List (Prior ℝ)) (fm : List ℝ → ModelOut ℝ)
    (obs sig theta : List ℝ) (wn : List (Option ℝ)) (hp : params.length = priors.length)
    (hlen : theta.length = priors.length) :
    ∃ written, srcWritten params priors theta = some written ∧
      ∀ (s : Sampler) (pt : List ℝ) (nfit : ℕ), CubeOK s pt nfit →
        srcCallback s Real.pi obs sig pt nfit wn (fm written) = valOpt (loglike Real.pi obs sig (fm written)) := by
  obtain ⟨⟨v, hv⟩, _⟩ := invalid_not_finite priors fm obs sig theta hlen
  obtain ⟨w, hw, _⟩ := callback_of_some_nan Real.pi params priors fm obs sig theta wn hp v hv
  exact ⟨w, hw, fun s pt nfit hs => srcCallback_eq s Real.pi obs sig pt nfit wn _ hs⟩

/-- **nan_bins**, about the regenerated `chisq_trans`: NaN bins of the model are skipped by the sum (`np.nansum`); a model
    that is NaN in every bin gives NaN -/
theorem src_nan_bins (obs sig : List ℝ) (m wn : List (Option ℝ)) :
    (srcChisq obs sig m wn = none ∨
      srcChisq obs sig m wn = some (((residuals obs sig m).filterMap id).sum)) ∧
    srcChisq obs sig (List.replicate obs.length none) wn = none := by
  obtain ⟨h1, h2⟩ := nan_bins obs sig m
  rw [srcChisq_eq, srcChisq_eq, h2]
  refine ⟨?_, rfl⟩
  rcases h1 with h | h <;> rw [h]
  · exact Or.inl rfl
  · exact Or.inr rfl

/-- **transform_order**, about the regenerated prior callbacks and `update_model`: entry `i` of the transformed cube is
    `prior_i.sample(u_i)` for every sampler, parameter `i` is written with `prior_i.prior(θ_i)`, and writing the transformed
    cube writes `prior_i.prior(prior_i.sample(u_i))` -/
theorem src_transform_order {ρ : Type} (s : Sampler) (params : List ρ) (priors : List (Prior ℝ)) (cube : List ℝ)
    (hp : params.length = priors.length) (hlen : cube.length = priors.length) :
    (∀ (i : Nat) (h : i < priors.length),
      (srcPrior s params priors cube)[i]? = some ((priors[i]).sample (cube[i]'(hlen ▸ h)))) ∧
    (∀ (i : Nat) (h : i < priors.length),
      (srcWritten params priors cube).map (fun l => l[i]?) = some (some ((priors[i]).prior (cube[i]'(hlen ▸ h))))) ∧
    srcWritten params priors (srcPrior s params priors cube) =
      some (List.zipWith (fun p u => p.prior (p.sample u)) priors cube) := by
  rw [srcPrior_eq s params priors cube hp hlen, srcWritten_eq params priors _ hp, srcWritten_eq params priors _ hp]
  exact transform_order priors cube hlen

/-- **cube_gaussian**, about the regenerated code: for a point `u` of the unit cube, the regenerated prior callback followed by
    the regenerated `update_model` writes `prior_i.prior(prior_i.sample(u_i))`; with `m` the binned forward model at these
    values the closure of every sampler returns the Gaussian log-likelihood of `m` -/
theorem src_cube_gaussian {ρ : Type} (s₀ : Sampler) (params : List ρ) (priors : List (Prior ℝ))
    (fm : List ℝ → ModelOut ℝ) (obs sig m cube : List ℝ) (wn : List (Option ℝ)) (hp : params.length = priors.length)
    (hlen : cube.length = priors.length)
    (hfm : fm (List.zipWith (fun p u => p.prior (p.sample u)) priors cube) = .ok (m.map some))
    (hs : sig.length = obs.length) (hm : m.length = obs.length) (hne : obs ≠ []) (hpos : ∀ s ∈ sig, 0 < s) :
    ∃ written, srcWritten params priors (srcPrior s₀ params priors cube) = some written ∧
      written = List.zipWith (fun p u => p.prior (p.sample u)) priors cube ∧ fm written = .ok (m.map some) ∧
      ∃ c, srcChisq obs sig (m.map some) wn = some c ∧
        ∀ (s : Sampler) (pt : List ℝ) (nfit : ℕ), CubeOK s pt nfit →
          srcLoglike s Real.pi obs sig pt nfit c = -(logNorm sig) - chiSq obs sig m / 2 := by
  have hcube := cube_gaussian priors fm obs sig m cube hlen hfm hs hm hne hpos
  unfold cubeLoglike at hcube
  obtain ⟨w, hw, hl⟩ := callback_of_some Real.pi params priors fm obs sig _ hp _ hcube
  rw [← srcPrior_eq s₀ params priors cube hp hlen] at hw
  have hw' : w = List.zipWith (fun p u => p.prior (p.sample u)) priors cube := by
    have h3 := (src_transform_order s₀ params priors cube hp hlen).2.2
    rw [hw] at h3
    exact Option.some.inj h3
  refine ⟨w, hw, hw', hw' ▸ hfm, ?_⟩
  rw [hw', hfm] at hl
  exact loglike_of_fin Real.pi obs sig _ wn _ hl

/-- **perm_sensitive**, about the regenerated prior callbacks: exchanging two priors of different supports changes the
    transformed point, for every sampler -/
theorem src_perm_sensitive {ρ : Type} (s : Sampler) (params : List ρ) (hp : params.length = 2) :
    srcPrior s params [uniform (0 : ℝ) 1, uniform 10 20] [1 / 2, 1 / 4] ≠
    srcPrior s params [uniform (10 : ℝ) 20, uniform 0 1] [1 / 2, 1 / 4] := by
  rw [srcPrior_eq s params _ _ (by simpa using hp) (by simp), srcPrior_eq s params _ _ (by simpa using hp) (by simp)]
  exact perm_sensitive

end Taurex.C06SrcProps
