/-
  C15 — the property theorems restated about the REGENERATED source.  `Props/C15Src.lean` proves that the definitions
  translated on every run (dialect `dyn`: dynamically typed Python values `Dyn.Val`, exceptions `Dyn.Exc`, one oracle
  `World.ext` for what the code asks of classes, `ClassFactory`, `inspect` and the other objects — FOR EVERY world) from
  `ParameterParser.transform`, `generic_factory` (and the ten section factories), `get_keywordarg_dict`, `create_klass`,
  `determine_klass`, `create_profile` (taurex/parameter/parameterparser.py, factory.py, taurex/mixin/core.py) return, on
  the embedding `emb` / `embCfg` of the model's data, the embedding of what `Factory.transform`, `Factory.factory`,
  `Factory.createKlass`, `Factory.determineKlass`, `Factory.createProfile` (up to the constructor call) return, a model
  error `e` being the exception class `errExc e`; `Props/C15.lean` proves the property about these.  The corollaries below
  compose the two: they are statements about the text of the code as it is now.

  What is composed
    * `SrcC15.transform w.ext (.dict sec) key`: `TransformsTo w sec key x` says that it returns the typed value `emb x`
      AND stores it back under `key`.  Tie hypotheses kept visible: the key is hashable and the section holds `emb v`.
    * `SrcC15.generic_factory w.ext (.str kw) (.obj (.base name sec))` for a base class of `genericBases` (the registry
      section `w.reg.sec sec` is the class list `ClassFactory` holds; two worlds whose lists are permutations of each
      other are two iteration orders of the Python `set`).
    * `SrcC15.create_klass w.ext (.dict (embCfg cfg)) (kobj k) (.bool false)`; the constructor defaults are
      `Factory.dictOfPairs k.kwargs` (what `get_keywordarg_dict` builds); the constructor call itself is the world's
      `w.call`.  Tie hypothesis: `KeysNodup cfg` (a Python `dict`).
    * `SrcC15.determine_klass w.ext (.dict (embCfg cfg)) (.str field) f (.obj (.base name sec))`, `f` being the section's
      factory (`hf`; any of the `src_*_factory` ties provides it) and `(name, sec) ∈ mixinBases`; it returns
      `embDK (cfg1, r)` = `(popped config, class, mixin flag)`.
    * `SrcC15.create_profile …` for a base class of `genericBases` ∩ `mixinBases`.
    * `SrcC15.create_star / create_planet / create_optimizer / create_observation / create_instrument …`: the `TypeError` of
      `klass(**config)` is raised by Python's argument binding, which in the tie is the world's `w.call`.  It is modelled
      by the hypothesis `CallBinds w`: where the model's `Factory.instantiate` (`bindArgs` over the signature columns
      `args` / `required` / `varkw` of the REGENERATED `Gen/Registry.lean`) fails, the call raises that exception class.
      `unknown_key_error_lenient` and `lenient_sections_bind_strictly` are restated under it.

  Since `detect_and_return_klass` and `build_new_mixed_class` are translated themselves (`src_detect_and_return_klass`,
  `src_build_new_mixed_class`: the regenerated functions, run against the lower-level oracle `detectExt` of
  Proofs/C15SrcDetect.lean, return what the main oracle answers for them): `custom_class_pick` is restated as
  `src_custom_class_pick`, and the class `mixin_split` resolves to is shown to be what the regenerated
  `build_new_mixed_class` builds, with bases `mixins + (base,)` (`src_mixed_class_bases`).

  Not restated (no tie)
    * the first conjunct of `mixin_split` (`joinWith` / `splitOnC`: string functions of the model; `str.split` is a
      primitive of the dialect); the `determine_klass` conjunct is restated.
    * `registry_disjoint`, `documented_resolve_partial`, `twopoint_unresolved`, `plugin_selectors_pinned`,
      `documented_keys_accepted`: statements about the tables `Gen/Registry.lean` / `Gen/Docs.lean` (themselves
      regenerated from /repo on every run), no function of the code in them.  `documented_selector_builds` IS restated
      (through the regenerated `determine_klass`, in the world whose registry is the regenerated table).
    * the ties of `create_prior`, `generate_contributions`, `create_model`, `create_chemistry`, `create_snr`,
      `ParameterParser.generate_*` and `determine_mixin_args` have no theorem of `Props/C15.lean` about their model
      functions; `create_model` (also a `klass(**kwargs)` section) is not covered by `unknown_key_error_lenient`, which is
      about `Factory.createLenient`.
-/
import Props.C15
import Props.C15Src
set_option linter.unusedSectionVars false

namespace Taurex.C15SrcProps
open Taurex.Gen Taurex.Gen.Dyn Taurex.C15 Taurex.C15L Taurex.C15Src
open Taurex.Factory (Scalar Value Config Klass Registry SectionReg Resolved Err Customs)

/-! ## `ParameterParser.transform` -/

/-- the regenerated `transform(section, key)` types the stored value as `x`: it returns `x` and stores it back under
    the same key -/
def TransformsTo (w : World) (sec : List (V × V)) (key : V) (x : Value) : Prop :=
  SrcC15.transform w.ext (.dict sec) key = .ok (emb x, .dict (Dyn.dictSet sec key (emb x)))

theorem srcTransform_eq (w : World) (sec : List (V × V)) (key : V) (v : Value) (hk : key.hashable = true)
    (h : Dyn.dictGet? sec key = some (emb v)) : TransformsTo w sec key (Factory.transform v) :=
  src_transform w sec key v hk h

/-- **transform_total**, about the regenerated `transform`: every raw value is typed as exactly one of boolean, number,
    string, list of numbers, list of strings (it never fails on a raw string or string list) -/
theorem src_transform_total (w : World) (sec : List (V × V)) (key : V) (hk : key.hashable = true) :
    (∀ s : String, Dyn.dictGet? sec key = some (emb (.scalar (.str s))) →
      (∃ b, TransformsTo w sec key (.scalar (.bool b))) ∨
      (∃ n, TransformsTo w sec key (.scalar n) ∧ isNum n = true) ∨
      TransformsTo w sec key (.scalar (.str s))) ∧
    (∀ l : List Scalar, Dyn.dictGet? sec key = some (emb (.list l)) →
      (∃ ns, TransformsTo w sec key (.list ns) ∧ ∀ n ∈ ns, isNum n = true) ∨
      TransformsTo w sec key (.list l)) := by
  constructor
  · intro s h
    have ht := srcTransform_eq w sec key _ hk h
    rcases transform_total.1 s with ⟨b, hb⟩ | ⟨n, hn, hnum⟩ | hs
    · rw [hb] at ht; exact Or.inl ⟨b, ht⟩
    · rw [hn] at ht; exact Or.inr (Or.inl ⟨n, ht, hnum⟩)
    · rw [hs] at ht; exact Or.inr (Or.inr ht)
  · intro l h
    have ht := srcTransform_eq w sec key _ hk h
    rcases transform_total.2 l with ⟨ns, hn, hnum⟩ | hl
    · rw [hn] at ht; exact Or.inl ⟨ns, ht, hnum⟩
    · rw [hl] at ht; exact Or.inr ht

/-- **transform_cases**, about the regenerated `transform`: the branch order — a word of the true list (any letter case)
    is `True`, a word of the false list is `False`, anything else that `float()` accepts is that number, the rest stays a
    string; a list becomes a list of numbers iff every element converts -/
theorem src_transform_cases (w : World) (sec : List (V × V)) (key : V) (hk : key.hashable = true) (s : String)
    (l : List Scalar) :
    (Dyn.dictGet? sec key = some (emb (.scalar (.str s))) →
      (Factory.trueWords.contains (Factory.lower s) = true → TransformsTo w sec key (.scalar (.bool true))) ∧
      (Factory.trueWords.contains (Factory.lower s) = false → Factory.falseWords.contains (Factory.lower s) = true →
        TransformsTo w sec key (.scalar (.bool false))) ∧
      (Factory.trueWords.contains (Factory.lower s) = false → Factory.falseWords.contains (Factory.lower s) = false →
        TransformsTo w sec key (match Factory.parseNumber s with
          | some n => .scalar n
          | none => .scalar (.str s)))) ∧
    (Dyn.dictGet? sec key = some (emb (.list l)) →
      TransformsTo w sec key (match l.mapM Factory.toFloat with
        | some ns => .list ns
        | none => .list l)) := by
  obtain ⟨h1, h2, h3, h4⟩ := transform_cases s l
  constructor
  · intro h
    have ht := srcTransform_eq w sec key _ hk h
    refine ⟨fun a => ?_, fun a b => ?_, fun a b => ?_⟩
    · rw [h1 a] at ht; exact ht
    · rw [h2 a b] at ht; exact ht
    · rw [h3 a b] at ht; exact ht
  · intro h
    have ht := srcTransform_eq w sec key _ hk h
    rw [h4] at ht; exact ht

theorem dictGet_dictSet_self (sec : List (V × V)) (k : String) (x : V) :
    Dyn.dictGet? (Dyn.dictSet sec (.str k) x) (.str k) = some x := by
  induction sec with
  | nil => simp [Dyn.dictSet, Dyn.dictGet?]
  | cons e t ih =>
    obtain ⟨k', v'⟩ := e
    by_cases h : Dyn.Val.beq k' (.str k) = true
    · simp [Dyn.dictSet, Dyn.dictGet?, h]
    · simp [Dyn.dictSet, Dyn.dictGet?, h, ih]

theorem dictSet_idem (sec : List (V × V)) (k : String) (x : V) :
    Dyn.dictSet (Dyn.dictSet sec (.str k) x) (.str k) x = Dyn.dictSet sec (.str k) x := by
  induction sec with
  | nil => simp [Dyn.dictSet]
  | cons e t ih =>
    obtain ⟨k', v'⟩ := e
    by_cases h : Dyn.Val.beq k' (.str k) = true
    · simp [Dyn.dictSet, h]
    · simp [Dyn.dictSet, h, ih]

/-- **transform_idem**, about the regenerated `transform`: applying it to the section it has already typed (a second
    `ConfigObj.walk`) returns the same value and leaves the section as it is -/
theorem src_transform_idem (w : World) (sec : List (V × V)) (k : String) (v : Value)
    (h : Dyn.dictGet? sec (.str k) = some (emb v)) :
    TransformsTo w sec (.str k) (Factory.transform v) ∧
    SrcC15.transform w.ext (.dict (Dyn.dictSet sec (.str k) (emb (Factory.transform v)))) (.str k)
      = .ok (emb (Factory.transform v), .dict (Dyn.dictSet sec (.str k) (emb (Factory.transform v)))) := by
  refine ⟨srcTransform_eq w sec _ v (hashable_str k) h, ?_⟩
  have h2 := srcTransform_eq w (Dyn.dictSet sec (.str k) (emb (Factory.transform v))) (.str k) (Factory.transform v)
    (hashable_str k) (dictGet_dictSet_self sec k _)
  unfold TransformsTo at h2
  rw [transform_idem, dictSet_idem] at h2
  exact h2

/-! ## the class factories -/

/-- **lookup_unique**, about the regenerated `generic_factory`: with pairwise-disjoint keyword sets the class it returns
    does not depend on the order in which the class set is iterated (two worlds whose class lists are permutations), and
    what it returns is the unique class claiming the keyword -/
theorem src_lookup_unique (w w' : World) (hw : WorldOK w) (hw' : WorldOK w') (kw name sec : String)
    (h : (name, sec) ∈ genericBases) (hd : Factory.pairwiseDisjoint (w.reg.sec sec).classes = true)
    (hp : (w'.reg.sec sec).classes.Perm (w.reg.sec sec).classes) :
    SrcC15.generic_factory w'.ext (.str kw) (.obj (.base name sec))
      = SrcC15.generic_factory w.ext (.str kw) (.obj (.base name sec)) ∧
    (∀ k, SrcC15.generic_factory w.ext (.str kw) (.obj (.base name sec)) = .ok (kobj k) →
      Factory.candidates (w.reg.sec sec).classes kw = [k]) := by
  obtain ⟨h1, h2⟩ := lookup_unique (w.reg.sec sec).classes (w'.reg.sec sec).classes kw hd hp
  rw [src_generic_factory w hw kw name sec h, src_generic_factory w' hw' kw name sec h]
  constructor
  · simp only [Factory.factory, h1]
  · intro k hk
    apply h2
    simp only [Factory.factory] at hk
    cases hl : Factory.lookup (w.reg.sec sec).classes kw with
    | none => rw [hl] at hk; cases hk
    | some k' =>
      rw [hl] at hk
      simp only [embE, kobj, Except.ok.injEq, Dyn.Val.obj.injEq, Obj.klass.injEq] at hk
      rw [hk]

/-- **create_strict**, about the regenerated `create_klass`: it raises `KeyError` when some config key is not a
    constructor keyword (before the class is called); otherwise the class is called with the defaults in their order, each
    overridden by the config value of the same key when there is one -/
theorem src_create_strict (w : World) (k : Klass) (cfg : Config) (hc : KeysNodup cfg) :
    ((∃ kv ∈ cfg, Factory.hasKey (Factory.dictOfPairs k.kwargs) kv.1 = false) →
      SrcC15.create_klass w.ext (.dict (embCfg cfg)) (kobj k) (.bool false) = .error .KeyError) ∧
    ((∀ kv ∈ cfg, Factory.hasKey (Factory.dictOfPairs k.kwargs) kv.1 = true) →
      SrcC15.create_klass w.ext (.dict (embCfg cfg)) (kobj k) (.bool false)
        = w.call (.klass k) []
            (embKw ((Factory.dictOfPairs k.kwargs).map (fun kv => (kv.1, (cfg.lookup kv.1).getD kv.2))))) := by
  obtain ⟨h1, _, h3⟩ := create_strict (Factory.dictOfPairs k.kwargs) cfg
  constructor
  · intro h
    obtain ⟨key, hkey⟩ := h1.1 h
    rw [src_create_klass w k cfg hc, hkey]
    rfl
  · intro h
    rw [src_create_klass w k cfg hc, h3 h hc]

/-! ## `determine_klass` -/

section determine
variable (w : World) (hw : WorldOK w) (name sec field : String) (f : V → M V)
  (hf : ∀ kw, f (.str kw) = embE kobj (Factory.factory (w.reg.sec sec) kw)) (hb : (name, sec) ∈ mixinBases)
include hw hf hb

/-- **mixin_split** (the `determine_klass` conjunct), about the regenerated `determine_klass`: a `+` selector with at
    least two parts whose last part names a class `base` and whose other parts name the mixins `ms` (no mixin twice)
    resolves to the mixed class `(ms…, base)`, the selector popped from the section -/
theorem src_mixin_split (sel : String) (rest : Config) (p q : String) (ps : List String) (base : Klass)
    (ms : List Klass) (hc : Factory.lower sel ≠ "custom") (hparts : Factory.splitPlus (Factory.lower sel) = p :: q :: ps)
    (hbase : Factory.factory (w.reg.sec sec) (Factory.lastOf (p :: q :: ps)) = .ok base)
    (hm : (Factory.initOf (p :: q :: ps)).mapM (Factory.mixinFactory (w.reg.sec sec)) = .ok ms)
    (hd : Factory.hasDup (ms.map (·.path)) = false) (hfree : Factory.hasKey rest field = false) :
    SrcC15.determine_klass w.ext (.dict (embCfg ((field, .scalar (.str sel)) :: rest))) (.str field) f
        (.obj (.base name sec)) = .ok (embDK (rest, .mixed ms base)) := by
  rw [src_determine_klass w hw name sec field _ f hf hb,
    (mixin_split (w.reg.sec sec) w.customs sec field sel rest p q ps base ms hc hparts hbase hm hd hfree).2]
  rfl

/-- **unknown_selector_error**, about the regenerated `determine_klass`: a selector no class of the section claims (not
    `custom`, no `+`) raises `NotImplementedError`; a selector typed as a number / boolean / list raises
    `AttributeError`; a missing selector raises `KeyError` -/
theorem src_unknown_selector_error (cfg : Config) :
    (∀ sel one, cfg.lookup field = some (.scalar (.str sel)) → Factory.lower sel ≠ "custom" →
      Factory.splitPlus (Factory.lower sel) = [one] → Factory.lookup (w.reg.sec sec).classes one = none →
      SrcC15.determine_klass w.ext (.dict (embCfg cfg)) (.str field) f (.obj (.base name sec))
        = .error .NotImplementedError) ∧
    (∀ v, cfg.lookup field = some v → (∀ s, v ≠ .scalar (.str s)) →
      SrcC15.determine_klass w.ext (.dict (embCfg cfg)) (.str field) f (.obj (.base name sec))
        = .error .AttributeError) ∧
    (cfg.lookup field = none →
      SrcC15.determine_klass w.ext (.dict (embCfg cfg)) (.str field) f (.obj (.base name sec))
        = .error .KeyError) := by
  obtain ⟨h1, h2, h3⟩ := unknown_selector_error (w.reg.sec sec) w.customs sec field cfg
  refine ⟨fun sel one a b c d => ?_, fun v a b => ?_, fun a => ?_⟩
  · rw [src_determine_klass w hw name sec field _ f hf hb, h1 sel one a b c d]; rfl
  · rw [src_determine_klass w hw name sec field _ f hf hb, h2 v a b]; rfl
  · rw [src_determine_klass w hw name sec field _ f hf hb, h3 a]; rfl

end determine

/-- **documented_selector_builds**, about the regenerated `determine_klass` in the world whose class registry is the
    regenerated table: every documented selector, written as in the documentation in a section of its own, goes through
    `determine_klass` to a plain class with nothing left in the section, and that class is the documented one -/
theorem src_documented_selector_builds (w : World) (hw : WorldOK w) (hreg : w.reg = Registry.registry)
    (hcus : w.customs = []) (name : String) (f : V → M V) :
    ∀ d ∈ Docs.selectors, d.inPackage = true → (d.sec, d.keyword) ∉ knownUnresolved →
      d.sec ≠ "prior" → d.sec ≠ "contribution" → (name, d.sec) ∈ mixinBases →
      (∀ kw, f (.str kw) = embE kobj (Factory.factory (w.reg.sec d.sec) kw)) →
      ∃ k, SrcC15.determine_klass w.ext (.dict (embCfg [("field", .scalar (.str d.keyword))])) (.str "field") f
            (.obj (.base name d.sec)) = .ok (embDK ([], .plain k)) ∧
        d.cls.all (· == k.path) = true := by
  intro d hd h1 h2 h3 h4 hb hf
  have h := documented_selector_builds d hd h1 h2 h3 h4
  rw [src_determine_klass w hw name d.sec "field" _ f hf hb, hreg, hcus]
  generalize Factory.determineKlass (Registry.registry.sec d.sec) [] d.sec "field"
    [("field", Value.scalar (Scalar.str d.keyword))] = r at h ⊢
  split at h
  · rename_i k
    exact ⟨k, rfl, h⟩
  · cases h

/-! ## `create_profile`: an unknown key is an error -/

/-- **unknown_key_error_strict**, about the regenerated `create_profile` (temperature, pressure, chemistry, gas profiles),
    for a plain or composite class `r`: a key left in the section that is not among the constructor keywords
    `get_keywordarg_dict` finds makes it raise `KeyError` -/
theorem src_unknown_key_error_strict_resolved (w : World) (hw : WorldOK w) (name sec field : String) (cfg : Config)
    (f : V → M V) (hc : KeysNodup cfg) (h1 : (name, sec) ∈ genericBases) (h2 : (name, sec) ∈ mixinBases)
    (cfg1 : Config) (r : Resolved) (kv : String × Value)
    (hr : Factory.determineKlass (w.reg.sec sec) w.customs sec field cfg = .ok (cfg1, r))
    (hm : kv ∈ cfg1) (hk : Factory.hasKey (kwargDictP r) kv.1 = false) :
    SrcC15.create_profile w.ext (.dict (embCfg cfg)) f (.obj (.base name sec)) (.str field) = .error .KeyError := by
  obtain ⟨key, hkey⟩ := (create_strict (kwargDictP r) cfg1).1.1 ⟨kv, hm, hk⟩
  rw [src_create_profile w hw name sec field cfg f hc h1 h2]
  simp only [hr, hkey]
  rfl

/-- **unknown_key_error_strict**, about the regenerated `create_profile`, for a plain class (distinct parameter names,
    which the language guarantees): a config key that is not a constructor keyword raises `KeyError` -/
theorem src_unknown_key_error_strict (w : World) (hw : WorldOK w) (name sec field : String) (cfg : Config)
    (f : V → M V) (hc : KeysNodup cfg) (h1 : (name, sec) ∈ genericBases) (h2 : (name, sec) ∈ mixinBases)
    (cfg1 : Config) (k : Klass) (kv : String × Value) (hkn : KeysNodup k.kwargs)
    (hr : Factory.determineKlass (w.reg.sec sec) w.customs sec field cfg = .ok (cfg1, .plain k))
    (hm : kv ∈ cfg1) (hk : Factory.hasKey k.kwargs kv.1 = false) :
    SrcC15.create_profile w.ext (.dict (embCfg cfg)) f (.obj (.base name sec)) (.str field) = .error .KeyError := by
  refine src_unknown_key_error_strict_resolved w hw name sec field cfg f hc h1 h2 cfg1 (.plain k) kv hr hm ?_
  show Factory.hasKey (Factory.dictOfPairs k.kwargs) kv.1 = false
  rw [dictOfPairs_nodup _ hkn]; exact hk

/-! ## `klass(**config)` sections: an unknown key is a `TypeError` -/

/-- the world's constructor call binds its keyword arguments as Python does: where `Factory.instantiate` (`bindArgs` over
    the regenerated signature columns `args` / `required` / `varkw` of `Gen/Registry.lean`) fails, the call raises that
    exception class -/
def CallBinds (w : World) : Prop :=
  ∀ r kw e, Factory.instantiate r kw = .error e → w.call (robjO r) [] (embKw kw) = .error (errExc e)

/-- the lenient creators up to the constructor call (`lenientV`): an unknown key of a plain class without `**kwargs` is a
    `TypeError` in every world whose constructor calls bind as Python does -/
theorem lenientV_unknown_key (w : World) (hb : CallBinds w) (sec field : String) (cfg cfg1 : Config) (k : Klass)
    (kv : String × Value) (hr : Factory.determineKlass (w.reg.sec sec) w.customs sec field cfg = .ok (cfg1, .plain k))
    (hv : k.varkw = false) (hm : kv ∈ cfg1) (hk : k.args.contains kv.1 = false) :
    lenientV w sec field cfg = .error .TypeError := by
  obtain ⟨key, hkey⟩ := unknown_key_error_lenient (w.reg.sec sec) w.customs sec field cfg cfg1 k kv hr hv hm hk
  have hi : Factory.instantiate (.plain k) cfg1 = .error (.typeError key) := by
    simpa [Factory.createLenient, hr, bind, Except.bind] using hkey
  simp only [lenientV, hr]
  exact hb _ _ _ hi

section lenient
variable (w : World) (hw : WorldOK w) (hb : CallBinds w) (cfg cfg1 : Config) (k : Klass) (kv : String × Value)
  (hv : k.varkw = false) (hm : kv ∈ cfg1) (hk : k.args.contains kv.1 = false)
include hw hb hv hm hk

/-- **unknown_key_error_lenient**, about the regenerated `create_star` -/
theorem src_unknown_key_error_star
    (hr : Factory.determineKlass (w.reg.sec "star") w.customs "star" "star_type" cfg = .ok (cfg1, .plain k)) :
    SrcC15.create_star w.ext (.dict (embCfg cfg)) = .error .TypeError := by
  rw [src_create_star_split w hw, lenientV_unknown_key w hb _ _ cfg cfg1 k kv hr hv hm hk]; rfl

/-- **unknown_key_error_lenient**, about the regenerated `create_optimizer` -/
theorem src_unknown_key_error_optimizer
    (hr : Factory.determineKlass (w.reg.sec "optimizer") w.customs "optimizer" "optimizer" cfg = .ok (cfg1, .plain k)) :
    SrcC15.create_optimizer w.ext (.dict (embCfg cfg)) = .error .TypeError := by
  rw [src_create_optimizer_split w hw, lenientV_unknown_key w hb _ _ cfg cfg1 k kv hr hv hm hk]; rfl

/-- **unknown_key_error_lenient**, about the regenerated `create_observation` -/
theorem src_unknown_key_error_observation
    (hr : Factory.determineKlass (w.reg.sec "observation") w.customs "observation" "observation" cfg
      = .ok (cfg1, .plain k)) :
    SrcC15.create_observation w.ext (.dict (embCfg cfg)) = .error .TypeError := by
  rw [src_create_observation_split w hw, lenientV_unknown_key w hb _ _ cfg cfg1 k kv hr hv hm hk]; rfl

/-- **unknown_key_error_lenient**, about the regenerated `create_instrument` -/
theorem src_unknown_key_error_instrument
    (hr : Factory.determineKlass (w.reg.sec "instrument") w.customs "instrument" "instrument" cfg
      = .ok (cfg1, .plain k)) :
    SrcC15.create_instrument w.ext (.dict (embCfg cfg)) = .error .TypeError := by
  rw [src_create_instrument_split w hw, lenientV_unknown_key w hb _ _ cfg cfg1 k kv hr hv hm hk]; rfl

/-- **unknown_key_error_lenient**, about the regenerated `create_planet` (`planet_type` defaulted to `simple`) -/
theorem src_unknown_key_error_planet (hc : KeysNodup cfg)
    (hr : Factory.determineKlass (w.reg.sec "planet") w.customs "planet" "planet_type" (planetCfg cfg)
      = .ok (cfg1, .plain k)) :
    SrcC15.create_planet w.ext (.dict (embCfg cfg)) = .error .TypeError := by
  rw [src_create_planet_split w hw cfg hc, lenientV_unknown_key w hb _ _ (planetCfg cfg) cfg1 k kv hr hv hm hk]; rfl

end lenient

/-- a section without mixins never resolves to a composite class -/
theorem determineKlass_plain_of_no_mixins (sr : SectionReg) (customs : Customs) (sec field : String) (cfg cfg1 : Config)
    (r : Resolved) (hmix : sr.mixins = []) (h : Factory.determineKlass sr customs sec field cfg = .ok (cfg1, r)) :
    ∃ k, r = .plain k := by
  unfold Factory.determineKlass at h
  cases hp : Factory.popKey cfg field with
  | none => simp [hp] at h
  | some p =>
    obtain ⟨v, c1⟩ := p
    simp only [hp] at h
    cases v with
    | scalar s =>
      cases s with
      | str sel =>
        simp only at h
        split at h
        · cases hp2 : Factory.popKey c1 "python_file" with
          | none => simp [hp2] at h
          | some p2 =>
            obtain ⟨v2, c2⟩ := p2
            simp only [hp2] at h
            cases v2 with
            | scalar s2 =>
              cases s2 with
              | str file =>
                simp only at h
                cases hcu : customs.lookup file with
                | none => simp [hcu] at h
                | some members =>
                  simp only [hcu] at h
                  cases hd : Factory.detectKlass members sec with
                  | error e => simp [hd, Except.map] at h
                  | ok k => simp [hd, Except.map] at h; exact ⟨k, h.2.symm⟩
              | _ => simp at h
            | _ => simp at h
        · split at h
          · rename_i one _
            cases hf : Factory.factory sr one with
            | error e => simp [hf, Except.map] at h
            | ok k => simp [hf, Except.map] at h; exact ⟨k, h.2.symm⟩
          · rename_i hne
            exfalso
            cases hf : Factory.factory sr (Factory.lastOf (Factory.splitPlus (Factory.lower sel))) with
            | error e => simp [hf, bind, Except.bind] at h
            | ok b =>
              cases hparts : Factory.splitPlus (Factory.lower sel) with
              | nil =>
                simp only [Factory.splitPlus, List.map_eq_nil_iff] at hparts
                exact C15Src.splitOnC_ne_nil _ _ hparts
              | cons a t =>
                cases t with
                | nil => exact hne a hparts
                | cons b' t' =>
                  have : (Factory.initOf (a :: b' :: t')).mapM (Factory.mixinFactory sr)
                      = .error (.notImplemented a) := by
                    simp only [Factory.initOf, List.mapM_cons, Factory.mixinFactory, hmix, Factory.lookup, List.find?_nil]
                    rfl
                  rw [hparts] at hf
                  simp [hf, hparts, this, bind, Except.bind] at h
      | _ => simp at h
    | _ => simp at h

/-- without custom files a plain class comes from the section's class list -/
theorem determineKlass_plain_mem (sr : SectionReg) (sec field : String) (cfg cfg1 : Config) (k : Klass)
    (h : Factory.determineKlass sr [] sec field cfg = .ok (cfg1, .plain k)) : k ∈ sr.classes := by
  unfold Factory.determineKlass at h
  cases hp : Factory.popKey cfg field with
  | none => simp [hp] at h
  | some p =>
    obtain ⟨v, c1⟩ := p
    simp only [hp] at h
    cases v with
    | scalar s =>
      cases s with
      | str sel =>
        simp only at h
        split at h
        · cases hp2 : Factory.popKey c1 "python_file" with
          | none => simp [hp2] at h
          | some p2 =>
            obtain ⟨v2, c2⟩ := p2
            simp only [hp2] at h
            cases v2 with
            | scalar s2 => cases s2 <;> simp at h
            | _ => simp at h
        · split at h
          · rename_i one _
            cases hf : Factory.factory sr one with
            | error e => simp [hf, Except.map] at h
            | ok k' =>
              simp [hf, Except.map] at h
              have hk : k' = k := h.2
              subst hk
              unfold Factory.factory at hf
              cases hl : Factory.lookup sr.classes one with
              | none => simp [hl] at hf
              | some k'' =>
                simp [hl] at hf
                subst hf
                exact List.mem_of_find?_eq_some hl
          · cases hf : Factory.factory sr (Factory.lastOf (Factory.splitPlus (Factory.lower sel))) with
            | error e => simp [hf, bind, Except.bind] at h
            | ok b =>
              cases hm : (Factory.initOf (Factory.splitPlus (Factory.lower sel))).mapM (Factory.mixinFactory sr) with
              | error e => simp [hf, hm, bind, Except.bind] at h
              | ok ms =>
                simp only [hf, hm, bind, Except.bind] at h
                split at h
                · simp [throw, throwThe, MonadExceptOf.throw] at h
                · simp [pure, Except.pure] at h
      | _ => simp at h
    | _ => simp at h

/-- **lenient_sections_bind_strictly** composed with **unknown_key_error_lenient**, about the regenerated creators, in the
    world whose class registry is the regenerated table (no custom files) and whose constructor calls bind as Python does:
    in the sections built by `klass(**config)` no class swallows unknown keys and no selector resolves to a composite
    class, so EVERY key left in the section that is not a parameter of the resolved class makes the creator raise
    `TypeError` -/
theorem lenientV_strict (w : World) (hreg : w.reg = Registry.registry) (hcus : w.customs = []) (hb : CallBinds w)
    (s : String) (hs : s ∈ lenientSections) (field : String) (cfg cfg1 : Config) (r : Resolved) (kv : String × Value)
    (hr : Factory.determineKlass (w.reg.sec s) w.customs s field cfg = .ok (cfg1, r)) (hm : kv ∈ cfg1)
    (hk : ∀ k, r = .plain k → k.args.contains kv.1 = false) :
    lenientV w s field cfg = .error .TypeError := by
  obtain ⟨hmix, hvar⟩ := lenient_sections_bind_strictly s hs
  have hr' := hr
  rw [hreg, hcus] at hr'
  obtain ⟨k, rfl⟩ := determineKlass_plain_of_no_mixins _ _ _ _ _ _ _ hmix hr'
  have hmem := determineKlass_plain_mem _ _ _ _ _ _ hr'
  exact lenientV_unknown_key w hb s field cfg cfg1 k kv hr (hvar k hmem) hm (hk k rfl)

theorem src_lenient_sections_bind_strictly (w : World) (hw : WorldOK w) (hreg : w.reg = Registry.registry)
    (hcus : w.customs = []) (hb : CallBinds w) (cfg cfg1 : Config) (r : Resolved) (kv : String × Value) (hm : kv ∈ cfg1)
    (hk : ∀ k, r = .plain k → k.args.contains kv.1 = false) :
    (Factory.determineKlass (w.reg.sec "star") w.customs "star" "star_type" cfg = .ok (cfg1, r) →
      SrcC15.create_star w.ext (.dict (embCfg cfg)) = .error .TypeError) ∧
    (Factory.determineKlass (w.reg.sec "optimizer") w.customs "optimizer" "optimizer" cfg = .ok (cfg1, r) →
      SrcC15.create_optimizer w.ext (.dict (embCfg cfg)) = .error .TypeError) ∧
    (Factory.determineKlass (w.reg.sec "observation") w.customs "observation" "observation" cfg = .ok (cfg1, r) →
      SrcC15.create_observation w.ext (.dict (embCfg cfg)) = .error .TypeError) ∧
    (Factory.determineKlass (w.reg.sec "instrument") w.customs "instrument" "instrument" cfg = .ok (cfg1, r) →
      SrcC15.create_instrument w.ext (.dict (embCfg cfg)) = .error .TypeError) ∧
    (KeysNodup cfg →
      Factory.determineKlass (w.reg.sec "planet") w.customs "planet" "planet_type" (planetCfg cfg) = .ok (cfg1, r) →
      SrcC15.create_planet w.ext (.dict (embCfg cfg)) = .error .TypeError) := by
  refine ⟨fun hr => ?_, fun hr => ?_, fun hr => ?_, fun hr => ?_, fun hc hr => ?_⟩
  · rw [src_create_star_split w hw, lenientV_strict w hreg hcus hb "star" (by decide) _ cfg cfg1 r kv hr hm hk]; rfl
  · rw [src_create_optimizer_split w hw, lenientV_strict w hreg hcus hb "optimizer" (by decide) _ cfg cfg1 r kv hr hm hk]; rfl
  · rw [src_create_observation_split w hw, lenientV_strict w hreg hcus hb "observation" (by decide) _ cfg cfg1 r kv hr hm hk]
    rfl
  · rw [src_create_instrument_split w hw, lenientV_strict w hreg hcus hb "instrument" (by decide) _ cfg cfg1 r kv hr hm hk]
    rfl
  · rw [src_create_planet_split w hw cfg hc,
      lenientV_strict w hreg hcus hb "planet" (by decide) _ (planetCfg cfg) cfg1 r kv hr hm hk]
    rfl

-- non-vacuity: a world whose registry is the regenerated table and whose constructor calls bind as Python does
example : ∃ w : World, WorldOK w ∧ w.reg = Registry.registry ∧ w.customs = [] ∧ CallBinds w := by
  refine ⟨{ reg := Registry.registry, customs := [], kwErr := fun _ => none, argsPre := fun _ => [],
            varargs := fun _ => .none, varkw := fun _ => .none, call := fun _ _ _ => .error .TypeError,
            hasattr := fun _ _ => false }, ?_, rfl, rfl, ?_⟩
  · intro k e h; cases h
  · intro r kw e h
    have : ∃ key, e = .typeError key := by
      cases r with
      | plain k =>
        simp only [Factory.instantiate, Factory.bindArgs] at h
        split at h
        · simp [Except.map] at h; exact ⟨_, h.symm⟩
        · split at h
          · simp [Except.map] at h; exact ⟨_, h.symm⟩
          · simp [Except.map] at h
      | mixed ms b =>
        simp only [Factory.instantiate, Factory.bindArgs] at h
        split at h
        · simp [Except.map] at h; exact ⟨_, h.symm⟩
        · split at h
          · simp [Except.map] at h; exact ⟨_, h.symm⟩
          · simp [Except.map] at h
    obtain ⟨key, rfl⟩ := this
    rfl

/-! ## the custom-file class and the mixed class, through the regenerated `detect_and_return_klass` /
     `build_new_mixed_class` (run against the lower-level oracle `detectExt`: importlib, `inspect.getmembers`, `type()`) -/

/-- **custom_class_pick**, about the regenerated `detect_and_return_klass`: for a file of the world, whatever base classes
    it has imported and wherever `inspect.getmembers` lists them, the function returns a class of the file that derives
    from the section's base and has the smallest name among those — or raises `Exception` exactly when the file has no
    such class; a file the world does not have raises `Exception` too -/
theorem src_custom_class_pick (w : World) (imp : String → Imports) (file n sec : String) :
    (∀ members, w.customs.lookup file = some members →
      (∀ v, SrcC15.detect_and_return_klass (detectExt w imp) (.str file) (.obj (.base n sec)) = .ok v →
        ∃ k, v = kobj k ∧ k ∈ members ∧ k.sections.contains sec = true ∧
          ∀ k' ∈ members, k'.sections.contains sec = true → k.name ≤ k'.name) ∧
      ((∀ k ∈ members, k.sections.contains sec = false) →
        SrcC15.detect_and_return_klass (detectExt w imp) (.str file) (.obj (.base n sec)) = .error .Exception) ∧
      ((∃ k ∈ members, k.sections.contains sec = true) →
        ∃ k, SrcC15.detect_and_return_klass (detectExt w imp) (.str file) (.obj (.base n sec)) = .ok (kobj k))) ∧
    (w.customs.lookup file = none →
      SrcC15.detect_and_return_klass (detectExt w imp) (.str file) (.obj (.base n sec)) = .error .Exception) := by
  have hsrc := src_detect_and_return_klass w imp file n sec
  have hR : w.ext.call (.fn "detect_and_return_klass") [.str file, .obj (.base n sec)] []
      = (match w.customs.lookup file with
         | none => .error .Exception
         | some members => embE kobj (Factory.detectKlass members sec)) := rfl
  rw [hR] at hsrc
  refine ⟨fun members hl => ?_, fun hl => ?_⟩
  · have hsrc' : SrcC15.detect_and_return_klass (detectExt w imp) (.str file) (.obj (.base n sec))
        = embE kobj (Factory.detectKlass members sec) := by
      rw [hsrc, hl]
    obtain ⟨h1, h2, h3⟩ := custom_class_pick members sec
    refine ⟨fun v hv => ?_, fun hnone => ?_, fun hex => ?_⟩
    · rw [hsrc'] at hv
      cases hd : Factory.detectKlass members sec with
      | error e => rw [hd] at hv; cases hv
      | ok k =>
        rw [hd] at hv
        have : kobj k = v := by
          have hv' : (Except.ok (kobj k) : M V) = Except.ok v := hv
          injection hv'
        exact ⟨k, this.symm, h1 k hd⟩
    · rw [hsrc', h2 hnone]; rfl
    · obtain ⟨k, hk⟩ := h3 hex
      exact ⟨k, by rw [hsrc', hk]; rfl⟩
  · rw [hsrc, hl]

/-- **mixin_split, the class that is built**, about the regenerated `build_new_mixed_class`: for a base class and a list of
    mixins without repetition (the base not among them) the function returns the class whose bases are
    `tuple(mixins) + (base,)` — mixins first, in the order of the `+` selector, the base class last (the MRO order in which
    `mixed_init` and `determine_mixin_args` treat them); a repeated mixin is a `TypeError` -/
theorem src_mixed_class_bases (w : World) (imp : String → Imports) (b : Klass) (ms : List Klass)
    (hb : (ms.map (·.path)).contains b.path = false) :
    (Factory.hasDup (ms.map (·.path)) = false →
      SrcC15.build_new_mixed_class (detectExt w imp) (kobj b) (.list (ms.map kobj)) = .ok (.obj (.mixed ms b)) ∧
      (detectExt w imp).getattr (.mixed ms b) "__bases__" = .ok (.tuple ((ms ++ [b]).map kobj))) ∧
    (Factory.hasDup (ms.map (·.path)) = true →
      SrcC15.build_new_mixed_class (detectExt w imp) (kobj b) (.list (ms.map kobj)) = .error .TypeError) := by
  have h := src_build_new_mixed_class w imp b ms hb
  rw [ext_call_build] at h
  refine ⟨fun hd => ⟨by rw [h, hd]; rfl, rfl⟩, fun hd => by rw [h, hd]; rfl⟩

end Taurex.C15SrcProps
