/-
  C18 — the property theorems restated about the REGENERATED source.  `Props/C18Src.lean` proves that the definitions
  translated on every run from `OnlineVariance.reset`, `.update`, `.variance` and `.combine_variance`
  (taurex/util/math.py) are the model's `Acc.empty`, `update` (a stream of them: `accOf`), `variance` and
  `combine nanByValue`; `Props/C18.lean` proves the property about these.  The corollaries below compose the two: they are
  statements about the text of the code as it is now, over ℝ.

  What is composed
    * `srcStream l` = the attribute tuple `(count, wcount, wcount2, mean, M2)` after the regenerated `reset()` followed by
      the regenerated `update(x, w)` for every sample of `l` (`pyUpdate`: the `ZeroDivisionError` parameter `false`, as in
      the tie); `= enc (accOf l) …`.  The Python float `count` is shown to be `l.length`.
    * `srcCombine exch ranks` = the regenerated `combine_variance(averages, variances, counts)` called as
      `parallelVariance` calls it on the gathered objects — `averages = [exch (meanObj a)]`, `variances = [exch (variance
      a)]`, `counts = [a.wcount]` for the rank accumulators `a ∈ ranks`, `exch` = what one inter-rank exchange does to a
      float object (`ser`: pickling; `id`: no mpi4py) — at the carrier of Python float objects (`Obj ℝ`, `is_np_nan` = the
      identity tag), projected to values as in the tie.  The tie's hypotheses `hbeq` (numpy's `==` is `≤ ∧ ≥`) and
      `hrefl` are discharged for ℝ.  `.map (·.2)` is `finalvariance[-1]`, `.map (·.1)` the pooled mean.
      With `ranks = parts.map accOf` the accumulators are, by `srcStream_eq`, those the regenerated `reset`/`update` leave
      behind, and the gathered variance objects are those the regenerated `variance` property returns
      (`src_variance_stream`).
    * the part of `parallelVariance` around the call — `if mean is None: mean = np.nan` (`meanObj`), the gathers, and the
      test `sum(all_counts) < 2 → np.nan` — is NOT translated.  The corollaries therefore speak of the `combine_variance`
      call, i.e. the branch `sum(all_counts) ≥ 2`, and keep that hypothesis visible (`2 ≤ … length`).

  Not restated (no tie)
    * `pooled_lt2`, and the `xs.length < 2` case of `split_invariant`: the NaN comes from the test in
      `parallelVariance`, which is not translated.
    * `strided_partition`, `derived_order`, `derived_order_pinned`, `derived_order_tie_witness`: about `partition` /
      `strided` (`sample_list[rank::size]` in `generate_profiles`) and `derivedTraceGather` (`compute_derived_trace`), not
      translated for C18 (the re-ordering of `compute_derived_trace` is tied and restated in `Props/C09SrcProps.lean`).
      `partition` appears below only as the way the sample list is cut into blocks.
    * `nan_identity_witness`, and `derived_order_pinned`: regression models of the code BEFORE the fix commits
      (`nanByIdentity`, `derivedTraceGatherPinned`); the source as it is now has no such function.
-/
import Props.C18
import Props.C18Src
set_option linter.unusedSectionVars false

namespace Taurex.C18SrcProps
open Taurex Taurex.Variance Taurex.C18 Taurex.C18Src

/-! ### the streaming update -/

/-- the attributes `(count, wcount, wcount2, mean, M2)` after the regenerated `reset()` and one regenerated
    `update(x, w)` per sample -/
noncomputable def srcStream (l : List (ℝ × ℝ)) : ℝ × ℝ × ℝ × Option ℝ × Option ℝ :=
  l.foldl pyUpdate Gen.SrcC18.OnlineVariance_reset

theorem srcStream_eq (l : List (ℝ × ℝ)) :
    srcStream l = enc (accOf l) (l.foldl (fun c _ => c + 1) 0) (l.foldl (fun s p => s + p.2 * p.2) 0) :=
  src_update_stream l

/-- the Python float `count` after `n` updates is `n` -/
theorem count_fold (l : List (ℝ × ℝ)) (c : ℝ) : l.foldl (fun c _ => c + 1) c = c + l.length := by
  induction l generalizing c with
  | nil => simp
  | cons p l ih => rw [List.foldl_cons, ih]; simp only [List.length_cons]; push_cast; ring

/-- the model's natural `count` after `n` updates is `n` (no hypothesis on the weights) -/
theorem accOf_count (l : List (ℝ × ℝ)) : (accOf l).count = l.length := by
  have h : ∀ (l : List (ℝ × ℝ)) (a : Acc ℝ),
      (l.foldl (fun a p => update a p.1 p.2) a).count = a.count + l.length := by
    intro l
    induction l with
    | nil => intro a; rfl
    | cons p l ih =>
      intro a
      rw [List.foldl_cons, ih]
      simp only [update, List.length_cons]
      omega
  have := h l Acc.empty
  simpa [accOf, Acc.empty] using this

/-- **update_invariant**, about the regenerated `reset` / `update`: after any samples whose non-empty weight prefixes
    have positive sums the attributes hold the count, the total weight, the weighted mean `Σwx/Σw` and
    `M2 = Σ w (x - mean)²` (and `mean`, `M2` are no longer `None`) -/
theorem src_update_invariant (l : List (ℝ × ℝ)) (hne : l ≠ [])
    (hpos : ∀ k, 0 < k → k ≤ l.length → 0 < wsum (l.take k)) :
    (srcStream l).1 = l.length ∧ (srcStream l).2.1 = wsum l ∧ (srcStream l).2.2.2.1 = some (wmean l) ∧
      (srcStream l).2.2.2.2 = some (sumBy (fun p => p.2 * ((p.1 - wmean l) * (p.1 - wmean l))) l) := by
  obtain ⟨h1, h2, h3, h4⟩ := update_invariant l hne hpos
  have h0 : (accOf l).count ≠ 0 := by
    rw [h1]; exact fun h => hne (List.length_eq_zero_iff.1 h)
  rw [srcStream_eq]
  refine ⟨?_, h2, ?_, ?_⟩
  · show l.foldl (fun c _ => c + 1) 0 = _
    rw [count_fold, zero_add]
  · show pyOpt (accOf l) (accOf l).mean = _
    rw [pyOpt, if_neg h0, h3]
  · show pyOpt (accOf l) (accOf l).m2 = _
    rw [pyOpt, if_neg h0, h4]

/-- the object a rank sends as its variance is the one the regenerated `variance` property returns on the attributes the
    regenerated `reset`/`update` left behind (`np.nan` itself below two samples; `nanv` = the value of `np.nan`) -/
theorem src_variance_stream (l : List (ℝ × ℝ)) (nanv : ℝ) :
    variance (accOf l) = if (srcStream l).1 < 2 then npNan
      else Obj.ofNum (Gen.SrcC18.OnlineVariance_variance (M2 := (srcStream l).2.2.2.2) (count := (srcStream l).1)
                        (np_nan := nanv) (wcount := (srcStream l).2.1)) := by
  have hc : l.foldl (fun (c : ℝ) _ => c + 1) 0 < 2 ↔ (accOf l).count < 2 := by
    rw [count_fold, zero_add, accOf_count]
    exact_mod_cast Iff.rfl
  have h := src_variance (accOf l) _ (l.foldl (fun s p => s + p.2 * p.2) 0) nanv hc
  rw [srcStream_eq]
  exact h

/-! ### the pooled combination -/

theorem real_beq (a b : ℝ) : (a == b) = (decide (a ≤ b) && decide (b ≤ a)) := by
  by_cases h : a = b
  · subst h; simp
  · have h1 : (a == b) = false := by simp [h]
    have h2 : (decide (a ≤ b) && decide (b ≤ a)) = false := by
      rw [Bool.and_eq_false_iff, decide_eq_false_iff_not, decide_eq_false_iff_not]
      by_cases hab : a ≤ b
      · exact Or.inr (fun hba => h (le_antisymm hab hba))
      · exact Or.inl hab
    rw [h1, h2]

/-- the regenerated `combine_variance(averages, variances, counts)` on the objects gathered from the rank accumulators
    `ranks` through the exchange `exch`: `(average, squares/size)` as values; `none` = the Python raises -/
noncomputable def srcCombine (exch : Obj ℝ → Obj ℝ) (ranks : List (Acc ℝ)) : Option (Val ℝ × Val ℝ) :=
  (Gen.SrcC18.combine_variance (α := Obj ℝ) (ranks.map (fun a => exch (meanObj a)))
      (ranks.map (fun a => exch (variance a))) ((ranks.map (·.wcount)).map Obj.ofNum)
      (is_np_nan := fun o => o.isNpNan)).map (fun p => (p.1.val, p.2.val))

theorem srcCombine_eq (exch : Obj ℝ → Obj ℝ) (ranks : List (Acc ℝ)) :
    srcCombine exch ranks
      = combine nanByValue (ranks.map (fun a => exch (meanObj a))) (ranks.map (fun a => exch (variance a)))
          (ranks.map (·.wcount)) :=
  src_combine real_beq le_refl _ _ _

/-- with at least two samples in total, what every rank reports (`pooledVariance`) is the second component of the
    regenerated `combine_variance` call -/
theorem pooled_eq_srcCombine (exch : Obj ℝ → Obj ℝ) (parts : List (List (ℝ × ℝ)))
    (hpos : ∀ part ∈ parts, ∀ p ∈ part, 0 < p.2) (h2 : 2 ≤ parts.flatten.length) :
    pooledVariance exch parts = (srcCombine exch (parts.map accOf)).map (·.2) := by
  rw [srcCombine_eq]
  unfold pooledVariance parallelVariance
  simp only [counts_sum (summ_forall hpos)]
  rw [if_neg (by omega)]

/-- **combine_two_pass**, about the regenerated `combine_variance`: pooled = two-pass, for ANY assignment of the samples
    to ranks (blocks may be empty or hold one sample), through the serialisation of every gathered value -/
theorem src_combine_two_pass (parts : List (List (ℝ × ℝ))) (hpos : ∀ part ∈ parts, ∀ p ∈ part, 0 < p.2)
    (h2 : 2 ≤ parts.flatten.length) :
    (srcCombine ser (parts.map accOf)).map (·.2) = some (Val.fin (twoPassVar parts.flatten)) := by
  rw [← pooled_eq_srcCombine ser parts hpos h2]; exact combine_two_pass parts hpos h2

/-- **combine_mean**, about the regenerated `combine_variance`: the pooled mean it returns is the weighted mean of all
    samples -/
theorem src_combine_mean (parts : List (List (ℝ × ℝ))) (hpos : ∀ part ∈ parts, ∀ p ∈ part, 0 < p.2)
    (hne : parts.flatten ≠ []) :
    (srcCombine ser (parts.map accOf)).map (·.1) = some (Val.fin (wmean parts.flatten)) := by
  rw [srcCombine_eq]; exact combine_mean parts hpos hne

/-- **single_process_two_pass**, about the regenerated `combine_variance`: the single process without mpi4py (nothing is
    serialised, one block) computes the same two-pass variance -/
theorem src_single_process_two_pass (xs : List (ℝ × ℝ)) (hpos : ∀ p ∈ xs, 0 < p.2) (h2 : 2 ≤ xs.length) :
    (srcCombine id ([xs].map accOf)).map (·.2) = some (Val.fin (twoPassVar xs)) := by
  rw [← pooled_eq_srcCombine id [xs] (by simpa using hpos) (by simpa using h2)]
  exact single_process_two_pass xs hpos h2

/-- the blocks `samples[rank::size]` inherit positive weights and the total length -/
theorem partition_facts {size : ℕ} (hs : 0 < size) (xs : List (ℝ × ℝ)) (hpos : ∀ p ∈ xs, 0 < p.2) :
    (∀ part ∈ partition size xs, ∀ p ∈ part, 0 < p.2) ∧ (partition size xs).flatten.length = xs.length := by
  have hperm := (strided_partition hs xs).1
  refine ⟨?_, hperm.length_eq⟩
  intro part hpart p hp
  exact hpos p (hperm.subset (List.mem_flatten.2 ⟨part, hpart, hp⟩))

/-- **split_invariant** (at least two samples), about the regenerated `reset` / `update` / `combine_variance`: for every
    number of ranks the post-processing loop (strided blocks, streaming update on each rank, gather through pickling,
    pooled combination) returns what the single process returns, the two-pass weighted variance of all samples -/
theorem src_split_invariant {size : ℕ} (hs : 0 < size) (xs : List (ℝ × ℝ)) (hpos : ∀ p ∈ xs, 0 < p.2)
    (h2 : 2 ≤ xs.length) :
    (srcCombine ser ((partition size xs).map accOf)).map (·.2) = (srcCombine id ([xs].map accOf)).map (·.2) ∧
    (srcCombine ser ((partition size xs).map accOf)).map (·.2) = some (Val.fin (twoPassVar xs)) := by
  obtain ⟨hpp, hlen⟩ := partition_facts hs xs hpos
  rw [← pooled_eq_srcCombine ser (partition size xs) hpp (by omega),
    ← pooled_eq_srcCombine id [xs] (by simpa using hpos) (by simpa using h2)]
  obtain ⟨e1, e2⟩ := split_invariant hs xs hpos
  refine ⟨e1, ?_⟩
  have e3 : splitVariance size xs = some (Val.fin (twoPassVar xs)) := by
    rw [e2, if_neg (by omega)]
  exact e3

/-- **split_invariant_sizes** (at least two samples), about the regenerated `combine_variance`: the same result for any
    two rank counts -/
theorem src_split_invariant_sizes {s₁ s₂ : ℕ} (h₁ : 0 < s₁) (h₂ : 0 < s₂) (xs : List (ℝ × ℝ))
    (hpos : ∀ p ∈ xs, 0 < p.2) (h2 : 2 ≤ xs.length) :
    (srcCombine ser ((partition s₁ xs).map accOf)).map (·.2) = (srcCombine ser ((partition s₂ xs).map accOf)).map (·.2) := by
  rw [(src_split_invariant h₁ xs hpos h2).2, (src_split_invariant h₂ xs hpos h2).2]

end Taurex.C18SrcProps
