/-
  C18 — the property theorems restated about the REGENERATED source.  `Props/C18Src.lean` proves that the definitions
  translated on every run from `OnlineVariance.reset`, `.update`, `.variance`, `.combine_variance`, `.parallelVariance`
  (taurex/util/math.py), the generator `sample_iter` of `Optimizer.generate_profiles` and `Optimizer.compute_derived_trace`
  (taurex/optimizer/optimizer.py) are the model's `Acc.empty`, `update` (a stream of them: `accOf`), `variance`,
  `combine nanByValue`, `parallelVariance nanByValue`, `strided` and `derivedTraceGather`; `Props/C18.lean` proves the
  property about these.  The corollaries below compose the two: they are
  statements about the text of the code as it is now, over ℝ.

  What is composed
    * `srcStream l` = the attribute tuple `(count, wcount, wcount2, mean, M2)` after the regenerated `reset()` followed by
      the regenerated `update(x, w)` for every sample of `l` (`pyUpdate`: the `ZeroDivisionError` parameter `false`, as in
      the tie); `= enc (accOf l) …`.  The Python float `count` is shown to be `l.length`.
    * `srcCombine exch ranks` = the regenerated `combine_variance(averages, variances, counts)` called as
      `parallelVariance` calls it on the gathered objects — `averages = [exch (meanObj a)]`, `variances = [exch (variance
      a)]`, `counts = [a.wcount]` for the rank accumulators `a ∈ ranks`, `exch` = what one inter-rank exchange does to a
      float object (`ser`: pickling; `id`: no mpi4py) — at the carrier of Python float objects (`Obj ℝ`, `is_np_nan` = the
      identity tag), projected to values as in the tie.  The tie's hypotheses `hbeq` (numpy's `==` is `≤ ∧ ≥`) and
      `hrefl` are discharged for ℝ.  `.map (·.2)` is `finalvariance[-1]`, `.map (·.1)` the pooled mean.
      With `ranks = parts.map accOf` the accumulators are, by `srcStream_eq`, those the regenerated `reset`/`update` leave
      behind, and the gathered variance objects are those the regenerated `variance` property returns
      (`src_variance_stream`).
    * `srcRankVariance exch parts r` = what rank `r` reports: the regenerated `parallelVariance()` (tie
      `src_parallelVariance`) called on the attributes `srcStream parts[r]` left by the regenerated `reset`/`update`, the k-th
      `mpi.allgather` being the rank-ordered list of what every rank contributes to it (`gatherAt`; the calling rank's entry is
      the value the regenerated code computed), each through `exch`; `= pooledVariance exch parts` for EVERY rank.  This
      covers the gathers, `if mean is None: mean = np.nan`, the test `sum(all_counts) < 2 → np.nan`, the call of
      `combine_variance` and `finalvariance[-1]`.
    * the generator `sample_iter` of `generate_profiles` (`sample_list[rank::size]`, tie `src_sample_iter`) and
      `compute_derived_trace` for one derived parameter (`range(rank, n, size)`, the three `mpi.allreduce(…, 'SUM')`,
      `argsort`, `[restore]`; tie `src_compute_derived_trace`), instantiated as in the ties.

  Not restated (no source function)
    * `nan_identity_witness`, `derived_order_pinned`, and the pinned half of `derived_order_tie_witness`: regression models
      of the code BEFORE the fix commits (`nanByIdentity`, `derivedTraceGatherPinned`); the source as it is now has no such
      function.  The current-code half of `derived_order_tie_witness` is `src_derived_order_tie_witness`.
-/
import Props.C18
import Props.C18Src
set_option linter.unusedSectionVars false

namespace Taurex.C18SrcProps
open Taurex Taurex.Variance Taurex.C18 Taurex.C18Src

/-! ### the streaming update -/

/-- the attributes `(count, wcount, wcount2, mean, M2)` after the regenerated `reset()` and one regenerated
    `update(x, w)` per sample -/
noncomputable def srcStream (l : List (ℝ × ℝ)) : ℝ × ℝ × ℝ × Option ℝ × Option ℝ :=
  l.foldl pyUpdate Gen.SrcC18.OnlineVariance_reset

theorem srcStream_eq (l : List (ℝ × ℝ)) :
    srcStream l = enc (accOf l) (l.foldl (fun c _ => c + 1) 0) (l.foldl (fun s p => s + p.2 * p.2) 0) :=
  src_update_stream l

/-- the Python float `count` after `n` updates is `n` -/
theorem count_fold (l : List (ℝ × ℝ)) (c : ℝ) : l.foldl (fun c _ => c + 1) c = c + l.length := by
  induction l generalizing c with
  | nil => simp
  | cons p l ih => rw [List.foldl_cons, ih]; simp only [List.length_cons]; push_cast; ring

/-- the model's natural `count` after `n` updates is `n` (no hypothesis on the weights) -/
theorem accOf_count (l : List (ℝ × ℝ)) : (accOf l).count = l.length := by
  have h : ∀ (l : List (ℝ × ℝ)) (a : Acc ℝ),
      (l.foldl (fun a p => update a p.1 p.2) a).count = a.count + l.length := by
    intro l
    induction l with
    | nil => intro a; rfl
    | cons p l ih =>
      intro a
      rw [List.foldl_cons, ih]
      simp only [update, List.length_cons]
      omega
  have := h l Acc.empty
  simpa [accOf, Acc.empty] using this

/-- **update_invariant**, about the regenerated `reset` / `update`: after any samples whose non-empty weight prefixes
    have positive sums the attributes hold the count, the total weight, the weighted mean `Σwx/Σw` and
    `M2 = Σ w (x - mean)²` (and `mean`, `M2` are no longer `None`) -/
theorem src_update_invariant (l : List (ℝ × ℝ)) (hne : l ≠ [])
    (hpos : ∀ k, 0 < k → k ≤ l.length → 0 < wsum (l.take k)) :
    (srcStream l).1 = l.length ∧ (srcStream l).2.1 = wsum l ∧ (srcStream l).2.2.2.1 = some (wmean l) ∧
      (srcStream l).2.2.2.2 = some (sumBy (fun p => p.2 * ((p.1 - wmean l) * (p.1 - wmean l))) l) := by
  obtain ⟨h1, h2, h3, h4⟩ := update_invariant l hne hpos
  have h0 : (accOf l).count ≠ 0 := by
    rw [h1]; exact fun h => hne (List.length_eq_zero_iff.1 h)
  rw [srcStream_eq]
  refine ⟨?_, h2, ?_, ?_⟩
  · show l.foldl (fun c _ => c + 1) 0 = _
    rw [count_fold, zero_add]
  · show pyOpt (accOf l) (accOf l).mean = _
    rw [pyOpt, if_neg h0, h3]
  · show pyOpt (accOf l) (accOf l).m2 = _
    rw [pyOpt, if_neg h0, h4]

/-- the object a rank sends as its variance is the one the regenerated `variance` property returns on the attributes the
    regenerated `reset`/`update` left behind (`np.nan` itself below two samples; `nanv` = the value of `np.nan`) -/
theorem src_variance_stream (l : List (ℝ × ℝ)) (nanv : ℝ) :
    variance (accOf l) = if (srcStream l).1 < 2 then npNan
      else Obj.ofNum (Gen.SrcC18.OnlineVariance_variance (M2 := (srcStream l).2.2.2.2) (count := (srcStream l).1)
                        (np_nan := nanv) (wcount := (srcStream l).2.1)) := by
  have hc : l.foldl (fun (c : ℝ) _ => c + 1) 0 < 2 ↔ (accOf l).count < 2 := by
    rw [count_fold, zero_add, accOf_count]
    exact_mod_cast Iff.rfl
  have h := src_variance (accOf l) _ (l.foldl (fun s p => s + p.2 * p.2) 0) nanv hc
  rw [srcStream_eq]
  exact h

/-! ### the pooled combination -/

theorem real_beq (a b : ℝ) : (a == b) = (decide (a ≤ b) && decide (b ≤ a)) := by
  by_cases h : a = b
  · subst h; simp
  · have h1 : (a == b) = false := by simp [h]
    have h2 : (decide (a ≤ b) && decide (b ≤ a)) = false := by
      rw [Bool.and_eq_false_iff, decide_eq_false_iff_not, decide_eq_false_iff_not]
      by_cases hab : a ≤ b
      · exact Or.inr (fun hba => h (le_antisymm hab hba))
      · exact Or.inl hab
    rw [h1, h2]

/-- the regenerated `combine_variance(averages, variances, counts)` on the objects gathered from the rank accumulators
    `ranks` through the exchange `exch`: `(average, squares/size)` as values; `none` = the Python raises -/
noncomputable def srcCombine (exch : Obj ℝ → Obj ℝ) (ranks : List (Acc ℝ)) : Option (Val ℝ × Val ℝ) :=
  (Gen.SrcC18.combine_variance (α := Obj ℝ) (ranks.map (fun a => exch (meanObj a)))
      (ranks.map (fun a => exch (variance a))) ((ranks.map (·.wcount)).map Obj.ofNum)
      (is_np_nan := fun o => o.isNpNan)).map (fun p => (p.1.val, p.2.val))

theorem srcCombine_eq (exch : Obj ℝ → Obj ℝ) (ranks : List (Acc ℝ)) :
    srcCombine exch ranks
      = combine nanByValue (ranks.map (fun a => exch (meanObj a))) (ranks.map (fun a => exch (variance a)))
          (ranks.map (·.wcount)) :=
  src_combine real_beq le_refl _ _ _

/-- with at least two samples in total, what every rank reports (`pooledVariance`) is the second component of the
    regenerated `combine_variance` call -/
theorem pooled_eq_srcCombine (exch : Obj ℝ → Obj ℝ) (parts : List (List (ℝ × ℝ)))
    (hpos : ∀ part ∈ parts, ∀ p ∈ part, 0 < p.2) (h2 : 2 ≤ parts.flatten.length) :
    pooledVariance exch parts = (srcCombine exch (parts.map accOf)).map (·.2) := by
  rw [srcCombine_eq]
  unfold pooledVariance parallelVariance
  simp only [counts_sum (summ_forall hpos)]
  rw [if_neg (by omega)]

/-- **combine_two_pass**, about the regenerated `combine_variance`: pooled = two-pass, for ANY assignment of the samples
    to ranks (blocks may be empty or hold one sample), through the serialisation of every gathered value -/
theorem src_combine_two_pass (parts : List (List (ℝ × ℝ))) (hpos : ∀ part ∈ parts, ∀ p ∈ part, 0 < p.2)
    (h2 : 2 ≤ parts.flatten.length) :
    (srcCombine ser (parts.map accOf)).map (·.2) = some (Val.fin (twoPassVar parts.flatten)) := by
  rw [← pooled_eq_srcCombine ser parts hpos h2]; exact combine_two_pass parts hpos h2

/-- **combine_mean**, about the regenerated `combine_variance`: the pooled mean it returns is the weighted mean of all
    samples -/
theorem src_combine_mean (parts : List (List (ℝ × ℝ))) (hpos : ∀ part ∈ parts, ∀ p ∈ part, 0 < p.2)
    (hne : parts.flatten ≠ []) :
    (srcCombine ser (parts.map accOf)).map (·.1) = some (Val.fin (wmean parts.flatten)) := by
  rw [srcCombine_eq]; exact combine_mean parts hpos hne

/-- **single_process_two_pass**, about the regenerated `combine_variance`: the single process without mpi4py (nothing is
    serialised, one block) computes the same two-pass variance -/
theorem src_single_process_two_pass (xs : List (ℝ × ℝ)) (hpos : ∀ p ∈ xs, 0 < p.2) (h2 : 2 ≤ xs.length) :
    (srcCombine id ([xs].map accOf)).map (·.2) = some (Val.fin (twoPassVar xs)) := by
  rw [← pooled_eq_srcCombine id [xs] (by simpa using hpos) (by simpa using h2)]
  exact single_process_two_pass xs hpos h2

/-- the blocks `samples[rank::size]` inherit positive weights and the total length -/
theorem partition_facts {size : ℕ} (hs : 0 < size) (xs : List (ℝ × ℝ)) (hpos : ∀ p ∈ xs, 0 < p.2) :
    (∀ part ∈ partition size xs, ∀ p ∈ part, 0 < p.2) ∧ (partition size xs).flatten.length = xs.length := by
  have hperm := (strided_partition hs xs).1
  refine ⟨?_, hperm.length_eq⟩
  intro part hpart p hp
  exact hpos p (hperm.subset (List.mem_flatten.2 ⟨part, hpart, hp⟩))

/-- **split_invariant** (at least two samples), about the regenerated `reset` / `update` / `combine_variance`: for every
    number of ranks the post-processing loop (strided blocks, streaming update on each rank, gather through pickling,
    pooled combination) returns what the single process returns, the two-pass weighted variance of all samples -/
theorem src_split_invariant {size : ℕ} (hs : 0 < size) (xs : List (ℝ × ℝ)) (hpos : ∀ p ∈ xs, 0 < p.2)
    (h2 : 2 ≤ xs.length) :
    (srcCombine ser ((partition size xs).map accOf)).map (·.2) = (srcCombine id ([xs].map accOf)).map (·.2) ∧
    (srcCombine ser ((partition size xs).map accOf)).map (·.2) = some (Val.fin (twoPassVar xs)) := by
  obtain ⟨hpp, hlen⟩ := partition_facts hs xs hpos
  rw [← pooled_eq_srcCombine ser (partition size xs) hpp (by omega),
    ← pooled_eq_srcCombine id [xs] (by simpa using hpos) (by simpa using h2)]
  obtain ⟨e1, e2⟩ := split_invariant hs xs hpos
  refine ⟨e1, ?_⟩
  have e3 : splitVariance size xs = some (Val.fin (twoPassVar xs)) := by
    rw [e2, if_neg (by omega)]
  exact e3

/-- **split_invariant_sizes** (at least two samples), about the regenerated `combine_variance`: the same result for any
    two rank counts -/
theorem src_split_invariant_sizes {s₁ s₂ : ℕ} (h₁ : 0 < s₁) (h₂ : 0 < s₂) (xs : List (ℝ × ℝ))
    (hpos : ∀ p ∈ xs, 0 < p.2) (h2 : 2 ≤ xs.length) :
    (srcCombine ser ((partition s₁ xs).map accOf)).map (·.2) = (srcCombine ser ((partition s₂ xs).map accOf)).map (·.2) := by
  rw [(src_split_invariant h₁ xs hpos h2).2, (src_split_invariant h₂ xs hpos h2).2]

/-! ### `parallelVariance` on every rank -/

/-- the Python float `count` -/
theorem cnt_lt2 (n : ℕ) : ((n : ℝ) < 2) ↔ n < 2 := by exact_mod_cast Iff.rfl

theorem cnt_sum (l : List ℕ) : sumList (l.map (fun n : ℕ => (n : ℝ))) < 2 ↔ l.sum < 2 := by
  have h : ∀ (l : List ℕ) (a : ℝ), (l.map (fun n : ℕ => (n : ℝ))).foldl (· + ·) a = a + (l.sum : ℕ) := by
    intro l
    induction l with
    | nil => intro a; simp
    | cons x l ih => intro a; rw [List.map_cons, List.foldl_cons, ih, List.sum_cons]; push_cast; ring
  rw [sumList, h, zero_add]
  exact_mod_cast Iff.rfl

/-- what rank `r` reports: the regenerated `parallelVariance()` called on the attributes that the regenerated `reset()` /
    `update(x, w)` stream over the rank's block `parts[r]` left behind (`srcStream`), the four `mpi.allgather`s returning the
    rank-ordered contributions of all ranks (`gatherAt`), each through the exchange `exch`; `none` = the Python raises -/
noncomputable def srcRankVariance (exch : Obj ℝ → Obj ℝ) (parts : List (List (ℝ × ℝ))) (r : ℕ) : Option (Val ℝ) :=
  (Gen.SrcC18.parallelVariance (α := Obj ℝ) (M2 := (srcStream (parts.getD r [])).2.2.2.2.map Obj.ofNum)
      (count := Obj.ofNum (srcStream (parts.getD r [])).1) (mean := (srcStream (parts.getD r [])).2.2.2.1.map Obj.ofNum)
      (np_nan := npNan) (wcount := Obj.ofNum (srcStream (parts.getD r [])).2.1)
      (allgather := gatherAt exch (fun n : ℕ => (n : ℝ)) (parts.map accOf) r) (is_np_nan := fun o => o.isNpNan)).map Obj.val

theorem srcRankVariance_eq (exch : Obj ℝ → Obj ℝ) (hex : ∀ x : ℝ, exch (Obj.ofNum x) = Obj.ofNum x)
    (parts : List (List (ℝ × ℝ))) (r : ℕ) (hr : r < parts.length) :
    srcRankVariance exch parts r = pooledVariance exch parts := by
  unfold srcRankVariance pooledVariance
  have hl : parts.getD r [] = parts[r] := by simp [List.getD_eq_getElem?_getD, hr]
  rw [hl, srcStream_eq]
  have hc : List.foldl (fun (c : ℝ) (_ : ℝ × ℝ) => c + 1) 0 parts[r] = ((accOf parts[r]).count : ℝ) := by
    rw [count_fold, zero_add, accOf_count]
  have hr' : (parts.map accOf)[r]? = some (accOf parts[r]) := by simp [hr]
  have := src_parallelVariance real_beq le_refl (fun n : ℕ => (n : ℝ)) cnt_lt2 cnt_sum exch hex (parts.map accOf) r
    (accOf parts[r]) hr'
  rw [← this]
  show Option.map Obj.val (Gen.SrcC18.parallelVariance (α := Obj ℝ) (M2 := (pyOpt _ _).map Obj.ofNum) (count := Obj.ofNum _)
    (mean := (pyOpt _ _).map Obj.ofNum) (np_nan := npNan) (wcount := Obj.ofNum _) (allgather := _) (is_np_nan := _)) = _
  rw [hc]
  rfl

theorem ser_ofNum (x : ℝ) : ser (Obj.ofNum x) = Obj.ofNum x := rfl

/-- **pooled_lt2**, about the regenerated `reset` / `update` / `variance` / `parallelVariance`: with fewer than two samples
    in total EVERY rank reports NaN (the test `sum(all_counts) < 2` of `parallelVariance`), whatever the exchange does to the
    identity of the gathered objects -/
theorem src_pooled_lt2 (exch : Obj ℝ → Obj ℝ) (hex : ∀ x : ℝ, exch (Obj.ofNum x) = Obj.ofNum x)
    (parts : List (List (ℝ × ℝ))) (hpos : ∀ part ∈ parts, ∀ p ∈ part, 0 < p.2) (h2 : parts.flatten.length < 2)
    (r : ℕ) (hr : r < parts.length) : srcRankVariance exch parts r = some Val.nan := by
  rw [srcRankVariance_eq exch hex parts r hr]; exact pooled_lt2 exch parts hpos h2

example : srcRankVariance ser [[], [((3 : ℝ), (1 : ℝ))], []] 1 = some Val.nan :=
  src_pooled_lt2 ser ser_ofNum _ (by
    intro part hpart p hp
    simp at hpart
    rcases hpart with rfl | rfl | rfl <;> simp at hp
    subst hp; norm_num) (by simp) 1 (by simp)

/-- **combine_two_pass**, about the whole regenerated `parallelVariance` on every rank (gathers, the `< 2` test, the NaN
    mean object of an empty rank, `combine_variance`): with positive weights and at least two samples in total every rank
    reports the two-pass weighted variance of all samples, for ANY assignment of the samples to ranks -/
theorem src_rank_two_pass (parts : List (List (ℝ × ℝ))) (hpos : ∀ part ∈ parts, ∀ p ∈ part, 0 < p.2)
    (h2 : 2 ≤ parts.flatten.length) (r : ℕ) (hr : r < parts.length) :
    srcRankVariance ser parts r = some (Val.fin (twoPassVar parts.flatten)) := by
  rw [srcRankVariance_eq ser ser_ofNum parts r hr]; exact combine_two_pass parts hpos h2

/-- **split_invariant** (in full: also below two samples), about the regenerated `reset` / `update` / `variance` /
    `parallelVariance` / `combine_variance`: for every number of ranks, EVERY rank of the post-processing loop (strided blocks,
    streaming update, gathers through pickling, the `< 2` test, pooled combination) reports what the single process without
    mpi4py reports: the two-pass weighted variance of all samples, or NaN when there are fewer than two -/
theorem src_split_invariant_full {size : ℕ} (hs : 0 < size) (xs : List (ℝ × ℝ)) (hpos : ∀ p ∈ xs, 0 < p.2)
    (r : ℕ) (hr : r < size) :
    srcRankVariance ser (partition size xs) r = srcRankVariance id [xs] 0 ∧
    srcRankVariance ser (partition size xs) r
      = if xs.length < 2 then some Val.nan else some (Val.fin (twoPassVar xs)) := by
  rw [srcRankVariance_eq ser ser_ofNum _ r (by rw [partition_length]; exact hr),
    srcRankVariance_eq id (fun _ => rfl) [xs] 0 (by simp)]
  exact split_invariant hs xs hpos

/-- **split_invariant_sizes** (in full), about the regenerated code: any two rank counts, any two ranks -/
theorem src_split_invariant_sizes_full {s₁ s₂ : ℕ} (xs : List (ℝ × ℝ)) (hpos : ∀ p ∈ xs, 0 < p.2)
    (r₁ r₂ : ℕ) (h₁ : r₁ < s₁) (h₂ : r₂ < s₂) :
    srcRankVariance ser (partition s₁ xs) r₁ = srcRankVariance ser (partition s₂ xs) r₂ := by
  rw [(src_split_invariant_full (by omega) xs hpos r₁ h₁).2, (src_split_invariant_full (by omega) xs hpos r₂ h₂).2]

example : srcRankVariance ser (partition 2 [((1 : ℝ), (0.2 : ℝ)), (4, 0.3), (2, 0.5)]) 1 =
    srcRankVariance ser (partition 7 [((1 : ℝ), (0.2 : ℝ)), (4, 0.3), (2, 0.5)]) 5 :=
  src_split_invariant_sizes_full _ (by
    intro p hp; simp at hp; rcases hp with rfl | rfl | rfl <;> norm_num) 1 5 (by norm_num) (by norm_num)

/-! ### the rank partitions -/

/-- **strided_partition**, about the regenerated generator `sample_iter` of `generate_profiles`
    (`for parameters, weight in sample_list[rank::size]`): over the ranks `0 … size-1` the yielded weights are, concatenated, a
    permutation of the weights of all samples (each sample exactly once); and when the samples are the indices `0 … n-1`
    (the state of the forward model read as "the parameters last written"), rank `r` visits exactly the indices below `n`
    congruent to `r` -/
theorem src_strided_partition {P W : Type} {size : ℕ} (hs : 0 < size) (xs : List (P × ℝ)) (um : W → P → W) (w0 : W) :
    (((List.range size).map (fun r => (Gen.SrcC18.sample_iter xs r size um w0).map Prod.snd)).flatten.Perm
        (xs.map Prod.snd)) ∧
    ∀ (n r i : ℕ) (wt : ℕ → ℝ) (i0 : ℕ), r < size →
      (i ∈ (Gen.SrcC18.sample_iter ((List.range n).map (fun j => (j, wt j))) r size (fun _ p => p) i0).map Prod.fst
        ↔ i < n ∧ i % size = r) := by
  constructor
  · have h1 : (List.range size).map (fun r => (Gen.SrcC18.sample_iter xs r size um w0).map Prod.snd)
        = (partition size xs).map (List.map Prod.snd) := by
      unfold partition
      rw [List.map_map]
      apply List.map_congr_left
      intro r hr
      rw [src_sample_iter xs r size (List.mem_range.1 hr), walk_snd]
      rfl
    rw [h1, ← List.map_flatten]
    exact ((strided_partition hs xs).1).map _
  · intro n r i wt i0 hr
    rw [src_sample_iter _ r size hr, walk_fst, strided_map, List.map_map]
    have : (Prod.fst ∘ fun j : ℕ => (j, wt j)) = id := rfl
    rw [this, List.map_id]
    exact (strided_partition hs ([] : List ℕ)).2.2 n r i hr

example : (Gen.SrcC18.sample_iter [((10 : ℕ), (0.2 : ℝ)), (11, 0.5), (12, 0.3)] 0 2 (fun _ p => p) 0)
    = [(10, 0.2), (12, 0.3)] := by
  rw [src_sample_iter _ 0 2 (by norm_num)]
  simp [strided, walk, List.zipIdx]

/-! ### `compute_derived_trace` -/

/-- **derived_order**, about the regenerated `compute_derived_trace` (one derived parameter): on every rank `r` of every
    number of ranks — evaluation of the samples `range(r, n, size)`, gather of the per-rank traces and sample indices in rank
    order, `argsort` of the gathered indices, `[restore]` — the stored trace is the trace in sample order -/
theorem src_derived_order {P W : Type} (n size r : ℕ) (hr : r < size) (samples : ℕ → P) (weights : ℕ → ℝ)
    (um : W → P → W) (ip : W → W) (dv : W → ℝ) (value : P → ℝ) (hdv : ∀ w p, dv (ip (um w p)) = value p) (w0 : W)
    (average : List ℝ → List ℝ → ℝ) (quantile_corner : List ℝ → List ℝ → List ℝ → List ℝ) (q16 q50 q84 : ℝ) :
    Gen.SrcC18.compute_derived_trace n
        (allreduce := fun k => concatAt size r (sentTrace size n (fun i => value (samples i)) weights k))
        (allreduce_nat := fun _ => concatAt size r (fun j => strided j size (List.range n)))
        (argsort_nat := argsort) (average := average) (c0p16 := q16) (c0p5 := q50) (c0p84 := q84) (derived_values := dv)
        (initialize_profiles := ip) (mpi_rank := r) (mpi_size := size) (quantile_corner := quantile_corner)
        (samples := samples) (update_model := um) (w__ := w0) (weights := weights)
      = (List.range n).map (fun i => value (samples i)) := by
  rw [src_compute_derived_trace n size r hr samples weights um ip dv value hdv w0 average quantile_corner q16 q50 q84]
  exact derived_order (by omega) _

/-- the current-code half of **derived_order_tie_witness**, about the regenerated `compute_derived_trace`: three samples of
    EQUAL weight on two ranks (gathered as `[t0, t2, t1]`) are stored in sample order, on both ranks -/
theorem src_derived_order_tie_witness (r : ℕ) (hr : r < 2) :
    Gen.SrcC18.compute_derived_trace (P := ℕ) (W := ℕ) 3
        (allreduce := fun k => concatAt 2 r (sentTrace 2 3 (fun i => [(10 : ℝ), 11, 12].getD i 0) (fun _ => 1) k))
        (allreduce_nat := fun _ => concatAt 2 r (fun j => strided j 2 (List.range 3)))
        (argsort_nat := argsort) (average := fun _ _ => 0) (c0p16 := 0.16) (c0p5 := 0.5) (c0p84 := 0.84)
        (derived_values := fun i => [(10 : ℝ), 11, 12].getD i 0) (initialize_profiles := id) (mpi_rank := r) (mpi_size := 2)
        (quantile_corner := fun _ _ _ => []) (samples := fun i => i) (update_model := fun _ p => p) (w__ := 0)
        (weights := fun _ => 1)
      = [10, 11, 12] ∧ gatherLists (partition 2 [(10 : ℝ), 11, 12]) ≠ [10, 11, 12] := by
  refine ⟨?_, by simp [gatherLists, partition, strided, List.range, List.range.loop, List.zipIdx]⟩
  rw [src_derived_order 3 2 r hr (fun i => i) (fun _ => 1) (fun _ p => p) id (fun i => [(10 : ℝ), 11, 12].getD i 0)
    (fun i => [(10 : ℝ), 11, 12].getD i 0) (fun _ _ => rfl)]
  simp [List.range, List.range.loop]

end Taurex.C18SrcProps
