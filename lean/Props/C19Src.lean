/-
  C19 — source tie.  `TaurexModel/Gen/SrcC19.lean` is regenerated on every run by `harness/translate.py` (dialect
  `shaped`, harness/translate_shaped.py) from the source text of
      taurex/contributions/simpleclouds.py   SimpleCloudsContribution.prepare_each, .contribute
      taurex/contributions/leemie.py         LeeMieContribution.prepare_each
      taurex/contributions/flatmie.py        FlatMieContribution.prepare_each
  (whole-array numpy code: masks, `a[mask, :] = v`, slices, `[::-1]`, `np.searchsorted`, `sorted`, `.max()`/`.min()`).
  The theorems state that each regenerated definition is the model function of `TaurexModel/Haze.lean` that the C19
  theorems are about and `driver_c19` executes — for EVERY carrier, with no algebra:
    * clouds, Lee haze: unconditional (both sides unfold to the same tests and the same arithmetic);
    * grey haze (FlatMie): for the layers `l < nLayers`, under the one order fact the code's `sorted([top, bottom])`
      relies on, `a ≤ b ↔ ¬ b < a` (true in ℝ — `src_flat_prepare_each_real` — and for floats that are not NaN);
      the window search (`np.searchsorted`), the slice arithmetic, the normalisation by `weight.max()` and the final
      `[::-1]` are matched index by index.
  Parameters read from attributes are instantiated with what the objects hold: `np.inf` ↦ `inf`, numpy's float power ↦
  the model's `powr` (C19's ASSUMPTIONS: `x**y = exp(y log x)`), the literals `0.2`, `1e-6` ↦ `1/5`, `1/1000000`
  (passed BY NAME: the parameter of a float literal is named after its value, so a changed literal breaks the tie).
  The `*_shapes` theorems discharge the companion obligations of the translator: every pair of axis lengths numpy
  requires to agree does agree and no slice stop exceeds its axis (so no slice is silently clipped or broadcast).
-/
import TaurexModel.Gen.SrcC19
import TaurexModel.Haze
import Proofs.RealInst
set_option linter.unusedSectionVars false

namespace Taurex.C19Src
open Taurex.Transmission Taurex.Haze

section
variable {α : Type} [Add α] [Sub α] [Mul α] [Div α] [Neg α] [LT α] [LE α]
  [DecidableLT α] [DecidableLE α] [OfNat α 0] [OfNat α 1] [OfNat α 2] [OfNat α 10] [Transc α]
  [OfNat α 4] [OfNat α 5] [OfNat α 10000] [OfNat α 1000000]

/-! ### optically thick cloud deck -/

/-- the value the code stores for a model opacity: `np.inf` (the parameter `inf`) for `Ext.inf` -/
def Ext.toCarrier (inf : α) : Ext α → α
  | .fin x => x
  | .inf => inf

/-- `SimpleCloudsContribution.prepare_each`: `contrib[pressureProfile >= cloud_pressure, :] = np.inf` on zeros, at every
    layer and wavenumber -/
theorem src_clouds_prepare_each (nL nW : Nat) (P : Nat → α) (p0 inf : α) (l wn : Nat) :
    Gen.SrcC19.clouds_prepare_each nW P inf nL p0 l wn = Ext.toCarrier inf (cloudSigma P p0 l) := by
  unfold Gen.SrcC19.clouds_prepare_each cloudSigma
  by_cases h : p0 ≤ P l <;> simp [h, Ext.toCarrier]

/-- `SimpleCloudsContribution.contribute`: `tau[layer] += self.sigma_xsec[layer, :]` — the cloud adds the opacity of its
    own layer only, to the whole row (kind `layerOnly` of `Transmission.addContrib`) -/
theorem src_clouds_contribute (n l nL nW : Nat) (sigma : Nat → Nat → α) (dens path : Nat → α) (tau : Nat → Nat → α) :
    Gen.SrcC19.clouds_contribute l tau nL nW sigma
      = fun i j => if i = l then addContrib ⟨.layerOnly, sigma⟩ n path dens l (tau l) j else tau i j := rfl

/-- … on the zero row `path_integral` starts from this is the `0 + s` of `cloudyTau` -/
theorem src_clouds_contribute_first (l nL nW : Nat) (sigma : Nat → Nat → α) (wn : Nat) :
    Gen.SrcC19.clouds_contribute l (fun _ _ => 0) nL nW sigma l wn = 0 + sigma l wn := by
  simp [Gen.SrcC19.clouds_contribute]

/-! ### Lee et al. haze -/

/-- `LeeMieContribution.prepare_each`, every layer and wavenumber: the window test on the layer pressures (unset bound
    → first / last layer pressure) and the extinction law -/
theorem src_lee_prepare_each (n nW : Nat) (P wnv : Nat → α) (bottomRaw topRaw pi a q mix : α) (l wn : Nat) :
    Gen.SrcC19.lee_prepare_each wnv nW P (a := a) (bottomRaw := bottomRaw) (c0p2 := 1 / 5) (c1em06 := 1 / 1000000)
        (mix := mix) (nL := n) (pi := pi) (powf := powr) (q := q) (topRaw := topRaw) l wn
      = leeSigma n P bottomRaw topRaw pi a q mix wnv l wn := by
  unfold Gen.SrcC19.lee_prepare_each leeSigma leeBound leeLaw
  simp only [decide_eq_true_eq, Bool.and_eq_true]

theorem src_lee_prepare_each_shapes (n nW : Nat) (P wnv : Nat → α) (bottomRaw topRaw pi a q mix c1 c2 : α)
    (pw : α → α → α) : Gen.SrcC19.lee_prepare_each_shapes wnv nW P a bottomRaw c1 c2 mix n pi pw q topRaw := by
  unfold Gen.SrcC19.lee_prepare_each_shapes
  intros; rfl

/-! ### grey haze between two pressures -/

/-- `FlatMieContribution.prepare_each` on the layers of the atmosphere -/
theorem src_flat_prepare_each (hord : ∀ a b : α, a ≤ b ↔ ¬ b < a) (n nW : Nat) (plev : Nat → α)
    (bottomRaw topRaw mix : α) (l wn : Nat) (hl : l < n) :
    Gen.SrcC19.flat_prepare_each nW bottomRaw mix n plev topRaw l wn = flatSigma n plev bottomRaw topRaw mix l := by
  unfold Gen.SrcC19.flat_prepare_each flatSigma flatSigmaRevW flatBound
  simp only [Nat.add_sub_cancel, Nat.add_comm 1, decide_eq_true_eq]
  have hlev : ∀ i, log10 (plev (n - i)) = flatLevel n plev i := fun i => rfl
  simp only [hlev]
  generalize flatLevel n plev = lev
  have hmax : List.foldl (fun acc s => if acc < lev (s + 1) then lev (s + 1) else acc) (lev 0) (List.range n)
      = maxTo n lev := rfl
  have hmin : List.foldl (fun acc s => if lev (s + 1) < acc then lev (s + 1) else acc) (lev 0) (List.range n)
      = minTo n lev := rfl
  simp only [hmax, hmin]
  generalize (if bottomRaw < 0 then maxTo n lev else log10 bottomRaw) = bottom
  generalize (if topRaw < 0 then minTo n lev else log10 topRaw) = top
  have hlo : (if top ≤ bottom then top else bottom) = (if bottom < top then bottom else top) := by
    by_cases h : bottom < top <;> simp [h, hord top bottom]
  have hhi : (if top ≤ bottom then bottom else top) = (if bottom < top then top else bottom) := by
    by_cases h : bottom < top <;> simp [h, hord top bottom]
  rw [hlo, hhi]
  generalize (if bottom < top then bottom else top) = lo
  generalize (if bottom < top then top else bottom) = hi
  have hs : List.countP (fun x => decide (x ≤ lo)) (List.map (fun i => lev (i + 1)) (List.range n))
      = flatStart n lev lo := rfl
  have ht : List.countP (fun x => decide (x ≤ hi)) (List.map (fun i => lev (i + 1)) (List.range (n - 1)))
      = flatStop n lev hi := rfl
  simp only [hs, ht]
  generalize flatStart n lev lo = s
  generalize flatStop n lev hi = t
  have hov : ∀ i, (if ((if lev (i + 1) < hi then lev (i + 1) else hi) - (if lo < lev i then lev i else lo)) < 0 then 0
      else ((if lev (i + 1) < hi then lev (i + 1) else hi) - (if lo < lev i then lev i else lo)))
      = flatOverlap lev lo hi i := fun i => rfl
  simp only [Nat.add_zero, hov]
  have hts : t + 1 - s - 1 = t - s := by omega
  have hw : List.foldl (fun acc j => if acc < flatOverlap lev lo hi (s + (j + 1)) then flatOverlap lev lo hi (s + (j + 1))
      else acc) (flatOverlap lev lo hi s) (List.range (t + 1 - s - 1)) = flatWmax lev lo hi s t := by
    rw [hts]; rfl
  simp only [hw]
  generalize flatWmax lev lo hi s t = wmax
  have hi1 : n - 1 - l < n := by omega
  by_cases hc : 0 < t + 1 - s ∧ 0 < wmax
  · have hc' : (decide (0 < t + 1 - s) && decide (0 < wmax)) = true := by simp [hc.1, hc.2]
    simp only [hc', if_true]
    by_cases hr : s ≤ n - 1 - l ∧ n - 1 - l < t + 1
    · have e : s + (n - 1 - l - s) = n - 1 - l := by omega
      have hr' : s ≤ n - 1 - l ∧ n - 1 - l ≤ t ∧ n - 1 - l < n ∧ 0 < wmax := ⟨hr.1, by omega, hi1, hc.2⟩
      simp only [hr, hr', e, and_self, if_true]
    · have hr' : ¬ (s ≤ n - 1 - l ∧ n - 1 - l ≤ t ∧ n - 1 - l < n ∧ 0 < wmax) := by
        intro h; apply hr; exact ⟨h.1, by omega⟩
      simp only [hr, hr', if_false]
  · have hc' : ¬ ((decide (0 < t + 1 - s) && decide (0 < wmax)) = true) := by
      simpa [Bool.and_eq_true] using hc
    have hr' : ¬ (s ≤ n - 1 - l ∧ n - 1 - l ≤ t ∧ n - 1 - l < n ∧ 0 < wmax) := by
      intro h; apply hc; exact ⟨by omega, h.2.2.2⟩
    simp only [hc', hr', if_false, Bool.false_eq_true]

theorem countP_map_range_le (m : Nat) (f : Nat → α) (p : α → Bool) :
    ((List.range m).map f).countP p ≤ m := by
  have := List.countP_le_length (p := p) (l := (List.range m).map f)
  simpa using this

/-- the slices of `FlatMieContribution.prepare_each` stay inside their arrays (at least one layer) -/
theorem src_flat_prepare_each_shapes (n nW : Nat) (hn : 1 ≤ n) (plev : Nat → α) (bottomRaw topRaw mix : α) :
    Gen.SrcC19.flat_prepare_each_shapes nW bottomRaw mix n plev topRaw := by
  unfold Gen.SrcC19.flat_prepare_each_shapes
  refine ⟨by omega, ?_, ?_⟩
  · intros
    refine Nat.le_trans (Nat.add_le_add_right (countP_map_range_le _ _ _) 1) ?_
    omega
  · intros
    refine Nat.le_trans (Nat.add_le_add_right (countP_map_range_le _ _ _) 1) ?_
    show _ ≤ n
    omega

end

/-- the grey-haze tie at the carrier of the C19 theorems -/
theorem src_flat_prepare_each_real (n nW : Nat) (plev : Nat → ℝ) (bottomRaw topRaw mix : ℝ) (l wn : Nat) (hl : l < n) :
    Gen.SrcC19.flat_prepare_each nW bottomRaw mix n plev topRaw l wn = flatSigma n plev bottomRaw topRaw mix l :=
  src_flat_prepare_each (fun _ _ => not_lt.symm) n nW plev bottomRaw topRaw mix l wn hl

end Taurex.C19Src
