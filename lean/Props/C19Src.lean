/-
  C19 — source tie.  `TaurexModel/Gen/SrcC19.lean` is regenerated on every run by `harness/translate.py` (dialect
  `shaped`, harness/translate_shaped.py) from the source text of
      taurex/contributions/simpleclouds.py   SimpleCloudsContribution.prepare_each, .contribute
      taurex/contributions/leemie.py         LeeMieContribution.prepare_each
      taurex/contributions/flatmie.py        FlatMieContribution.prepare_each
  (whole-array numpy code: masks, `a[mask, :] = v`, slices, `[::-1]`, `np.searchsorted`, `sorted`, `.max()`/`.min()`).
  The theorems state that each regenerated definition is the model function of `TaurexModel/Haze.lean` that the C19
  theorems are about and `driver_c19` executes — for EVERY carrier, with no algebra:
    * clouds, Lee haze: unconditional (both sides unfold to the same tests and the same arithmetic);
    * grey haze (FlatMie): for the layers `l < nLayers`, under the one order fact the code's `sorted([top, bottom])`
      relies on, `a ≤ b ↔ ¬ b < a` (true in ℝ — `src_flat_prepare_each_real` — and for floats that are not NaN);
      the window search (`np.searchsorted`), the slice arithmetic, the normalisation by `weight.max()` and the final
      `[::-1]` are matched index by index.
  Parameters read from attributes are instantiated with what the objects hold: `np.inf` ↦ `inf`, numpy's float power ↦
  the model's `powr` (C19's ASSUMPTIONS: `x**y = exp(y log x)`), the literals `0.2`, `1e-6` ↦ `1/5`, `1/1000000`
  (passed BY NAME: the parameter of a float literal is named after its value, so a changed literal breaks the tie).
  The `*_shapes` theorems discharge the companion obligations of the translator: every pair of axis lengths numpy
  requires to agree does agree and no slice stop exceeds its axis (so no slice is silently clipped or broadcast).
  The run the cloud theorems are about — `TransmissionModel.path_integral` (loop over the layers, loop over the contribution
  list with its `tau[layer].min() > 10` break), the `contribute` methods it dispatches to, the chord lengths and
  `compute_absorption` (`np.exp(-tau)`) — is re-translated here from C01's specs and tied, for EVERY carrier, to the model of
  `TaurexModel/Transmission.lean` (`src_path_integral*`, the statements and proofs of `Props/C01Src.lean` about
  `Gen.SrcC19`).  Being generic, these ties also hold at the extended carrier `XR` of `Proofs/C19Ext.lean`, where `np.inf`
  is a value: `src_cloudy_run*` state that the regenerated run with the regenerated cloud opacity first returns the model's
  `cloudyTrans` / `cloudyDepth`.
-/
import TaurexModel.Gen.SrcC19
import TaurexModel.Haze
import TaurexModel.Geometry
import Proofs.RealInst
import Proofs.C01SrcLemmas
import Proofs.C19Ext
set_option linter.unusedSectionVars false

namespace Taurex.C19Src
open Taurex.Transmission Taurex.Haze
open Taurex.C01Src (fold_kernel foldl_append_singleton cutLoop foldl_break fold_layers tauCutFrom_congr
  tauCutFrom_congr_path depth_congr)

section
variable {α : Type} [Add α] [Sub α] [Mul α] [Div α] [Neg α] [LT α] [LE α]
  [DecidableLT α] [DecidableLE α] [OfNat α 0] [OfNat α 1] [OfNat α 2] [OfNat α 10] [Transc α]
  [OfNat α 4] [OfNat α 5] [OfNat α 10000] [OfNat α 1000000]

/-! ### optically thick cloud deck -/

/-- the value the code stores for a model opacity: `np.inf` (the parameter `inf`) for `Ext.inf` -/
def Ext.toCarrier (inf : α) : Ext α → α
  | .fin x => x
  | .inf => inf

/-- `SimpleCloudsContribution.prepare_each`: `contrib[pressureProfile >= cloud_pressure, :] = np.inf` on zeros, at every
    layer and wavenumber -/
theorem src_clouds_prepare_each (nL nW : Nat) (P : Nat → α) (p0 inf : α) (l wn : Nat) :
    Gen.SrcC19.clouds_prepare_each nW P inf nL p0 l wn = Ext.toCarrier inf (cloudSigma P p0 l) := by
  unfold Gen.SrcC19.clouds_prepare_each cloudSigma
  by_cases h : p0 ≤ P l <;> simp [h, Ext.toCarrier]

/-- what the suspended `SimpleCloudsContribution.prepare_each` has PUBLISHED in `self.sigma_xsec` at its yield — the array
    `contribute` reads when `model_full_contrib` re-runs `path_integral` for the 'Clouds' component — IS the yielded deck
    (on the pinned tree the generator stored the deck in `self._contrib` only and `sigma_xsec` kept the deck of the last
    `prepare()`: repaired in /repo, DESIGN §6) -/
theorem src_clouds_published (nL nW : Nat) (P : Nat → α) (p0 inf : α) :
    Gen.SrcC19.clouds_prepare_each_published nW P inf nL p0 = Gen.SrcC19.clouds_prepare_each nW P inf nL p0 := rfl

/-- … hence the deck the component route integrates is the documented one, at every layer and wavenumber -/
theorem src_clouds_published_deck (nL nW : Nat) (P : Nat → α) (p0 inf : α) (l wn : Nat) :
    Gen.SrcC19.clouds_prepare_each_published nW P inf nL p0 l wn = Ext.toCarrier inf (cloudSigma P p0 l) := by
  rw [src_clouds_published]; exact src_clouds_prepare_each nL nW P p0 inf l wn

/-- `SimpleCloudsContribution.contribute`: `tau[layer] += self.sigma_xsec[layer, :]` — the cloud adds the opacity of its
    own layer only, to the whole row (kind `layerOnly` of `Transmission.addContrib`) -/
theorem src_clouds_contribute (n l nL nW : Nat) (sigma : Nat → Nat → α) (dens path : Nat → α) (tau : Nat → Nat → α) :
    Gen.SrcC19.clouds_contribute l tau nL nW sigma
      = fun i j => if i = l then addContrib ⟨.layerOnly, sigma⟩ n path dens l (tau l) j else tau i j := rfl

/-- … on the zero row `path_integral` starts from this is the `0 + s` of `cloudyTau` -/
theorem src_clouds_contribute_first (l nL nW : Nat) (sigma : Nat → Nat → α) (wn : Nat) :
    Gen.SrcC19.clouds_contribute l (fun _ _ => 0) nL nW sigma l wn = 0 + sigma l wn := by
  simp [Gen.SrcC19.clouds_contribute]

/-! ### Lee et al. haze -/

/-- `LeeMieContribution.prepare_each`, every layer and wavenumber: the window test on the layer pressures (unset bound
    → first / last layer pressure) and the extinction law -/
theorem src_lee_prepare_each (n nW : Nat) (P wnv : Nat → α) (bottomRaw topRaw pi a q mix : α) (l wn : Nat) :
    Gen.SrcC19.lee_prepare_each wnv nW P (a := a) (bottomRaw := bottomRaw) (c0p2 := 1 / 5) (c1em06 := 1 / 1000000)
        (mix := mix) (nL := n) (pi := pi) (powf := powr) (q := q) (topRaw := topRaw) l wn
      = leeSigma n P bottomRaw topRaw pi a q mix wnv l wn := by
  unfold Gen.SrcC19.lee_prepare_each leeSigma leeBound leeLaw
  simp only [decide_eq_true_eq, Bool.and_eq_true]

theorem src_lee_prepare_each_shapes (n nW : Nat) (P wnv : Nat → α) (bottomRaw topRaw pi a q mix c1 c2 : α)
    (pw : α → α → α) : Gen.SrcC19.lee_prepare_each_shapes wnv nW P a bottomRaw c1 c2 mix n pi pw q topRaw := by
  unfold Gen.SrcC19.lee_prepare_each_shapes
  intros; rfl

/-! ### grey haze between two pressures -/

/-- `FlatMieContribution.prepare_each` on the layers of the atmosphere -/
theorem src_flat_prepare_each (hord : ∀ a b : α, a ≤ b ↔ ¬ b < a) (n nW : Nat) (plev : Nat → α)
    (bottomRaw topRaw mix : α) (l wn : Nat) (hl : l < n) :
    Gen.SrcC19.flat_prepare_each nW bottomRaw mix n plev topRaw l wn = flatSigma n plev bottomRaw topRaw mix l := by
  unfold Gen.SrcC19.flat_prepare_each flatSigma flatSigmaRevW flatBound
  simp only [Nat.add_sub_cancel, Nat.add_comm 1, decide_eq_true_eq]
  have hlev : ∀ i, log10 (plev (n - i)) = flatLevel n plev i := fun i => rfl
  simp only [hlev]
  generalize flatLevel n plev = lev
  have hmax : List.foldl (fun acc s => if acc < lev (s + 1) then lev (s + 1) else acc) (lev 0) (List.range n)
      = maxTo n lev := rfl
  have hmin : List.foldl (fun acc s => if lev (s + 1) < acc then lev (s + 1) else acc) (lev 0) (List.range n)
      = minTo n lev := rfl
  simp only [hmax, hmin]
  generalize (if bottomRaw < 0 then maxTo n lev else log10 bottomRaw) = bottom
  generalize (if topRaw < 0 then minTo n lev else log10 topRaw) = top
  have hlo : (if top ≤ bottom then top else bottom) = (if bottom < top then bottom else top) := by
    by_cases h : bottom < top <;> simp [h, hord top bottom]
  have hhi : (if top ≤ bottom then bottom else top) = (if bottom < top then top else bottom) := by
    by_cases h : bottom < top <;> simp [h, hord top bottom]
  rw [hlo, hhi]
  generalize (if bottom < top then bottom else top) = lo
  generalize (if bottom < top then top else bottom) = hi
  have hs : List.countP (fun x => decide (x ≤ lo)) (List.map (fun i => lev (i + 1)) (List.range n))
      = flatStart n lev lo := rfl
  have ht : List.countP (fun x => decide (x ≤ hi)) (List.map (fun i => lev (i + 1)) (List.range (n - 1)))
      = flatStop n lev hi := rfl
  simp only [hs, ht]
  generalize flatStart n lev lo = s
  generalize flatStop n lev hi = t
  have hov : ∀ i, (if ((if lev (i + 1) < hi then lev (i + 1) else hi) - (if lo < lev i then lev i else lo)) < 0 then 0
      else ((if lev (i + 1) < hi then lev (i + 1) else hi) - (if lo < lev i then lev i else lo)))
      = flatOverlap lev lo hi i := fun i => rfl
  simp only [Nat.add_zero, hov]
  have hts : t + 1 - s - 1 = t - s := by omega
  have hw : List.foldl (fun acc j => if acc < flatOverlap lev lo hi (s + (j + 1)) then flatOverlap lev lo hi (s + (j + 1))
      else acc) (flatOverlap lev lo hi s) (List.range (t + 1 - s - 1)) = flatWmax lev lo hi s t := by
    rw [hts]; rfl
  simp only [hw]
  generalize flatWmax lev lo hi s t = wmax
  have hi1 : n - 1 - l < n := by omega
  by_cases hc : 0 < t + 1 - s ∧ 0 < wmax
  · have hc' : (decide (0 < t + 1 - s) && decide (0 < wmax)) = true := by simp [hc.1, hc.2]
    simp only [hc', if_true]
    by_cases hr : s ≤ n - 1 - l ∧ n - 1 - l < t + 1
    · have e : s + (n - 1 - l - s) = n - 1 - l := by omega
      have hr' : s ≤ n - 1 - l ∧ n - 1 - l ≤ t ∧ n - 1 - l < n ∧ 0 < wmax := ⟨hr.1, by omega, hi1, hc.2⟩
      simp only [hr, hr', e, and_self, if_true]
    · have hr' : ¬ (s ≤ n - 1 - l ∧ n - 1 - l ≤ t ∧ n - 1 - l < n ∧ 0 < wmax) := by
        intro h; apply hr; exact ⟨h.1, by omega⟩
      simp only [hr, hr', if_false]
  · have hc' : ¬ ((decide (0 < t + 1 - s) && decide (0 < wmax)) = true) := by
      simpa [Bool.and_eq_true] using hc
    have hr' : ¬ (s ≤ n - 1 - l ∧ n - 1 - l ≤ t ∧ n - 1 - l < n ∧ 0 < wmax) := by
      intro h; apply hc; exact ⟨by omega, h.2.2.2⟩
    simp only [hc', hr', if_false, Bool.false_eq_true]

theorem countP_map_range_le (m : Nat) (f : Nat → α) (p : α → Bool) :
    ((List.range m).map f).countP p ≤ m := by
  have := List.countP_le_length (p := p) (l := (List.range m).map f)
  simpa using this

/-- the slices of `FlatMieContribution.prepare_each` stay inside their arrays (at least one layer) -/
theorem src_flat_prepare_each_shapes (n nW : Nat) (hn : 1 ≤ n) (plev : Nat → α) (bottomRaw topRaw mix : α) :
    Gen.SrcC19.flat_prepare_each_shapes nW bottomRaw mix n plev topRaw := by
  unfold Gen.SrcC19.flat_prepare_each_shapes
  refine ⟨by omega, ?_, ?_⟩
  · intros
    refine Nat.le_trans (Nat.add_le_add_right (countP_map_range_le _ _ _) 1) ?_
    omega
  · intros
    refine Nat.le_trans (Nat.add_le_add_right (countP_map_range_le _ _ _) 1) ?_
    show _ ≤ n
    omega

/-! ## the transmission run (C01's specs, re-translated into `Gen.SrcC19`) -/

/-! ### the optical-depth kernels -/

/-- `contribute_tau` (both loops): row `layer`, columns below `ngrid`, receive
    `Σ_{k = startK}^{endK-1} sigma[k+layer, wn] * path[k] * density[k+density_offset]` added in that order; every other
    entry of `tau` is untouched -/
theorem src_contribute_tau (s e off : Nat) (sigma : Nat → Nat → α) (dens path : Nat → α) (ngrid l : Nat)
    (tau : Nat → Nat → α) :
    Gen.SrcC19.contribute_tau s e off sigma dens path ngrid l tau
      = fun i j => if i = l ∧ j < ngrid then
          (List.range' s (e - s)).foldl (fun acc k => acc + sigma (k + l) j * path k * dens (k + off)) (tau l j)
        else tau i j :=
  fold_kernel l ngrid s (e - s) (fun k wn => sigma (k + l) wn * path k * dens (k + off)) tau

/-- `contribute_cia`: the same with the density squared -/
theorem src_contribute_cia (s e off : Nat) (sigma : Nat → Nat → α) (dens path : Nat → α) (ngrid l : Nat)
    (tau : Nat → Nat → α) :
    Gen.SrcC19.contribute_cia s e off sigma dens path ngrid l tau
      = fun i j => if i = l ∧ j < ngrid then
          (List.range' s (e - s)).foldl
            (fun acc k => acc + sigma (k + l) j * path k * dens (k + off) * dens (k + off)) (tau l j)
        else tau i j :=
  fold_kernel l ngrid s (e - s) (fun k wn => sigma (k + l) wn * path k * dens (k + off) * dens (k + off)) tau

/-- `Contribution.contribute` hands `self.sigma_xsec`, `self._ngrid` to `contribute_tau` -/
theorem src_contribution_contribute (s e off l : Nat) (dens path : Nat → α) (tau sigma : Nat → Nat → α) (ngrid : Nat) :
    Gen.SrcC19.contribution_contribute s e off l dens tau path ngrid sigma
      = Gen.SrcC19.contribute_tau s e off sigma dens path ngrid l tau := rfl

/-- `CIAContribution.contribute` with at least one pair (`self._total_cia > 0`) runs `contribute_cia`; with no pair it
    leaves `tau` alone (its `sigma_xsec` is then identically zero) -/
theorem src_cia_contribute (s e off l : Nat) (dens path : Nat → α) (tau sigma : Nat → Nat → α) (ngrid total : Nat) :
    Gen.SrcC19.cia_contribute s e off l dens tau path ngrid sigma total
      = if 0 < total then Gen.SrcC19.contribute_cia s e off sigma dens path ngrid l tau else tau := by
  unfold Gen.SrcC19.cia_contribute
  by_cases h : 0 < total <;> simp [h]

/-- the kernel as `path_integral` calls it, for a prepared contribution of kind `lin`: the new row is `addContrib` -/
theorem src_contribute_tau_call (n l ngrid : Nat) (sigma : Nat → Nat → α) (dens path : Nat → α) (tau : Nat → Nat → α) :
    Gen.SrcC19.contribute_tau 0 (n - l) l sigma dens path ngrid l tau
      = fun i j => if i = l ∧ j < ngrid then addContrib ⟨.lin, sigma⟩ n path dens l (tau l) j else tau i j := by
  rw [src_contribute_tau]
  simp only [addContrib, accFrom, nTerms, term, Nat.sub_zero, List.range_eq_range']

theorem src_contribute_cia_call (n l ngrid : Nat) (sigma : Nat → Nat → α) (dens path : Nat → α) (tau : Nat → Nat → α) :
    Gen.SrcC19.contribute_cia 0 (n - l) l sigma dens path ngrid l tau
      = fun i j => if i = l ∧ j < ngrid then addContrib ⟨.sq, sigma⟩ n path dens l (tau l) j else tau i j := by
  rw [src_contribute_cia]
  simp only [addContrib, accFrom, nTerms, term, Nat.sub_zero, List.range_eq_range']

/-! ### transit depth and chord lengths -/

/-- `compute_absorption(tau, dz)`: the pair (`depth` per wavenumber, `exp(-tau)`) -/
theorem src_compute_absorption (n nW : Nat) (rp rs : α) (z dz : Nat → α) (tau : Nat → Nat → α) :
    Gen.SrcC19.compute_absorption tau dz n nW rp rs z
      = (fun wn => depth rp rs n z dz (fun l => trans (tau l wn)), fun l wn => trans (tau l wn)) := rfl

/-- `compute_path_length_old(dz)`: the list, layer by layer, of the chord segments `chordOld` (as whole functions of the
    segment index: also the slice arithmetic `k[1:] = …[layer+1:]`, `k[1:] -= …[layer:nLayers-1]` is matched) -/
theorem src_compute_path_length_old (n : Nat) (rp : α) (z dz : Nat → α) :
    Gen.SrcC19.compute_path_length_old dz n rp z = (List.range n).map (fun l => chordOld rp z dz l) := by
  unfold Gen.SrcC19.compute_path_length_old
  simp only [Nat.sub_zero]
  rw [foldl_append_singleton]
  simp only [List.nil_append]
  congr 1
  funext l k
  unfold chordOld oldHalf oldMid oldP Transmission.sq
  cases k with
  | zero => simp
  | succ k =>
    have e3 : l + 1 + k = l + (k + 1) := by omega
    simp [e3]

/-- the slices combined element-wise in `compute_path_length_old` have equal lengths (what numpy requires; hence no
    length-1 slice is silently broadcast) -/
theorem src_compute_path_length_old_shapes (n : Nat) (rp : α) (z dz : Nat → α) :
    Gen.SrcC19.compute_path_length_old_shapes dz n rp z := by
  unfold Gen.SrcC19.compute_path_length_old_shapes
  refine ⟨?_, ?_, ?_⟩ <;> intros <;> omega

/-! ### new path method: what is handed to the 3-D geometry -/

/-- a `(3, n)` numpy array whose columns are the vectors `f j` -/
def rows (f : Nat → Geometry.V3 α) : Nat → Nat → α :=
  fun r j => if r = 1 then (f j).y else if r = 0 then (f j).x else (f j).z

/-- `parallel_vector(R, alt, max_alt)` (for an array `alt`): column `j` of `viewer` / `tangent` is the model's
    `Geometry.parallelVector R alt[j] max_alt` — in particular the ray origin `-(R + 2·max_alt)` -/
theorem src_parallel_vector (R maxAlt : α) (alt : Nat → α) (nA : Nat) :
    Gen.SrcC19.parallel_vector R alt maxAlt nA
      = (rows (fun j => (Geometry.parallelVector R (alt j) maxAlt).1),
         rows (fun j => (Geometry.parallelVector R (alt j) maxAlt).2)) := by
  unfold Gen.SrcC19.parallel_vector rows Geometry.parallelVector
  refine Prod.ext ?_ ?_ <;> funext r j <;> by_cases h1 : r = 1 <;> by_cases h0 : r = 0 <;> simp [h1, h0]

/-- `TransmissionModel.compute_path_length`: the rows come from `planet.compute_path_length` (→
    `compute_path_length_3d`, a parameter) called with the altitude boundaries and, for tangent layer `l`, the line of
    sight `parallelVector rp (z[l] + dz[l]/2) (max of the boundaries)` — the inputs of the model's
    `Geometry.layerDists` -/
theorem src_compute_path_length (n : Nat) (rp : α) (zb z dz : Nat → α)
    (planetPaths : (Nat → α) → (Nat → Nat → α) → (Nat → Nat → α) → List (Nat → α)) :
    Gen.SrcC19.compute_path_length dz n planetPaths rp zb z
      = planetPaths zb
          (rows (fun l => (Geometry.parallelVector rp (z l + dz l / 2) (Geometry.arrMax n zb)).1))
          (rows (fun l => (Geometry.parallelVector rp (z l + dz l / 2) (Geometry.arrMax n zb)).2)) := by
  unfold Gen.SrcC19.compute_path_length
  simp only [src_parallel_vector]
  rfl

/-! ### the whole `path_integral` -/

/-- what `contrib.contribute(self, s, e, off, layer, density, tau, path_length=dl)` executes (Python's dynamic
    dispatch) for a prepared contribution of each model kind: `Contribution.contribute` (absorption, Rayleigh, hazes:
    kernel `contribute_tau`), `CIAContribution.contribute`, `SimpleCloudsContribution.contribute`; `ngrid` is the
    contributions' `self._ngrid` (= `wngrid.shape[0]`, set by `prepare`), `total` is `CIAContribution._total_cia` -/
def dispatch (ngrid total nL : Nat) (c : Contrib α) (s e off layer : Nat) (dens : Nat → α) (tau : Nat → Nat → α)
    (path : Nat → α) : Nat → Nat → α :=
  match c.kind with
  | .lin => Gen.SrcC19.contribution_contribute s e off layer dens tau path ngrid c.sigma
  | .sq => Gen.SrcC19.cia_contribute s e off layer dens tau path ngrid c.sigma total
  | .layerOnly => Gen.SrcC19.clouds_contribute layer tau nL ngrid c.sigma

/-- one dispatched call, as `path_integral` makes it: rows other than `l` are untouched, row `l` below `nwn` is
    `addContrib` -/
theorem dispatch_row (n nwn total : Nat) (ht : 0 < total) (c : Contrib α) (l : Nat) (dens path : Nat → α)
    (tau : Nat → Nat → α) :
    (∀ i j, i ≠ l → dispatch nwn total n c 0 (n - l) l l dens tau path i j = tau i j) ∧
    (∀ j < nwn, dispatch nwn total n c 0 (n - l) l l dens tau path l j = addContrib c n path dens l (tau l) j) := by
  obtain ⟨kind, sigma⟩ := c
  cases kind
  · simp only [dispatch, src_contribution_contribute, src_contribute_tau_call]
    exact ⟨fun i j hi => by simp [hi], fun j hj => by simp [hj]⟩
  · simp only [dispatch, src_cia_contribute, if_pos ht, src_contribute_cia_call]
    exact ⟨fun i j hi => by simp [hi], fun j hj => by simp [hj]⟩
  · simp only [dispatch, src_clouds_contribute n l n nwn sigma dens path]
    exact ⟨fun i j hi => by simp [hi], fun j _ => by simp⟩

/-- the loop over the contribution list (with its break) on row `l` of the table -/
theorem layer_loop (n nwn total : Nat) (ht : 0 < total) (l : Nat) (dens path : Nat → α) (cs : List (Contrib α))
    (tau : Nat → Nat → α) :
    (∀ i j, i ≠ l →
      cutLoop (fun t : Nat → Nat → α => saturated nwn (t l))
        (fun c t => dispatch nwn total n c 0 (n - l) l l dens t path) cs tau i j = tau i j) ∧
    (∀ j < nwn,
      cutLoop (fun t : Nat → Nat → α => saturated nwn (t l))
        (fun c t => dispatch nwn total n c 0 (n - l) l l dens t path) cs tau l j
        = tauCutFrom n nwn path dens l cs (tau l) j) := by
  induction cs generalizing tau with
  | nil => exact ⟨fun _ _ _ => rfl, fun _ _ => rfl⟩
  | cons c cs ih =>
    simp only [cutLoop, tauCutFrom]
    cases hs : saturated nwn (tau l)
    · simp only [Bool.false_eq_true, if_false]
      have hd := dispatch_row n nwn total ht c l dens path tau
      have h := ih (dispatch nwn total n c 0 (n - l) l l dens tau path)
      refine ⟨fun i j hi => ?_, fun j hj => ?_⟩
      · rw [h.1 i j hi, hd.1 i j hi]
      · rw [h.2 j hj]
        exact tauCutFrom_congr n nwn path dens l cs _ _ hd.2 j hj
    · simp only [if_true]
      exact ⟨fun _ _ _ => trivial, fun _ _ => trivial⟩

/-- **`path_integral`, optical depth part**: for whatever list of chord rows `paths` the code computed, entry
    `(l, wn)` of the returned `exp(-tau)` is the transmittance of the model's loop with the early exit, `tauCut`, and the
    returned absorption is `depth` of these.  (`0 < total`: a CIA contribution, if present, has at least one pair.) -/
theorem src_path_integral (n nwn total : Nat) (ht : 0 < total) (rp rs : α) (z dz dens : Nat → α)
    (zb : Nat → α) (cs : List (Contrib α)) (newMethod : Bool)
    (planetPaths : (Nat → α) → (Nat → Nat → α) → (Nat → Nat → α) → List (Nat → α)) :
    let paths := if newMethod then Gen.SrcC19.compute_path_length dz n planetPaths rp zb z
      else Gen.SrcC19.compute_path_length_old dz n rp z
    let r := Gen.SrcC19.path_integral nwn cs (dispatch nwn total n) dz dens n newMethod planetPaths rp rs zb z
    (∀ l < n, ∀ wn < nwn,
        r.2 l wn = trans (tauCut n nwn (paths.getD l (fun _ => 0)) dens l cs wn)) ∧
    (∀ wn < nwn,
        r.1 wn = depth rp rs n z dz (fun l => trans (tauCut n nwn (paths.getD l (fun _ => 0)) dens l cs wn))) := by
  intro paths r
  -- the table after the loop over the layers
  have key : ∀ l wn, l < n → wn < nwn →
      (List.range' 0 n).foldl (fun (T : Nat → Nat → α) (l : Nat) =>
          cutLoop (fun t : Nat → Nat → α => saturated nwn (t l))
            (fun c t => dispatch nwn total n c 0 (n - l) l l dens t (paths.getD l (fun _ => 0))) cs T)
        (fun _ _ => (0 : α)) l wn
      = tauCut n nwn (paths.getD l (fun _ => 0)) dens l cs wn := by
    intro l wn hl hwn
    refine ((fold_layers n nwn _ (fun _ _ => (0 : α))
      (fun l wn => tauCut n nwn (paths.getD l (fun _ => 0)) dens l cs wn) ?_ ?_) l wn).1 hl hwn
    · intro l T i j hi
      exact (layer_loop n nwn total ht l dens _ cs T).1 i j hi
    · intro l T hT j hj
      rw [(layer_loop n nwn total ht l dens _ cs T).2 j hj]
      unfold tauCut
      exact tauCutFrom_congr n nwn _ dens l cs _ _ (fun w _ => hT w) j hj
  have hr : r = Gen.SrcC19.compute_absorption
      ((List.range' 0 n).foldl (fun (T : Nat → Nat → α) (l : Nat) =>
          cutLoop (fun t : Nat → Nat → α => saturated nwn (t l))
            (fun c t => dispatch nwn total n c 0 (n - l) l l dens t (paths.getD l (fun _ => 0))) cs T)
        (fun _ _ => (0 : α))) dz n nwn rp rs z := by
    show Gen.SrcC19.path_integral nwn cs (dispatch nwn total n) dz dens n newMethod planetPaths rp rs zb z = _
    unfold Gen.SrcC19.path_integral
    simp only [← foldl_break]
    cases newMethod <;> rfl
  rw [hr, src_compute_absorption]
  refine ⟨fun l hl wn hwn => ?_, fun wn hwn => ?_⟩
  · simp only [key l wn hl hwn]
  · simp only
    exact depth_congr rp rs n z dz _ _ (fun l hl => by rw [key l wn hl hwn])

theorem chord_old (rp : α) (zb z dz : Nat → α) (l : Nat) : chord false rp zb z dz l = chordOld rp z dz l := by
  funext k; simp [chord]

theorem chord_new (rp : α) (zb z dz : Nat → α) (l : Nat) : chord true rp zb z dz l = chordNew rp zb z dz l := by
  funext k; simp [chord]

/-- **`path_integral` with the old path method** (`new_path_method=False`) is the model `modelTrans` / `modelDepth` with
    the early exit -/
theorem src_path_integral_old (n nwn total : Nat) (ht : 0 < total) (rp rs : α) (zb z dz dens : Nat → α)
    (cs : List (Contrib α)) (planetPaths : (Nat → α) → (Nat → Nat → α) → (Nat → Nat → α) → List (Nat → α)) :
    let r := Gen.SrcC19.path_integral nwn cs (dispatch nwn total n) dz dens n false planetPaths rp rs zb z
    (∀ l < n, ∀ wn < nwn, r.2 l wn = modelTrans true false rp n nwn zb z dz dens cs l wn) ∧
    (∀ wn < nwn, r.1 wn = modelDepth true false rp rs n nwn zb z dz dens cs wn) := by
  intro r
  have h := src_path_integral n nwn total ht rp rs z dz dens zb cs false planetPaths
  simp only [Bool.false_eq_true, if_false, src_compute_path_length_old] at h
  have hp : ∀ l < n, ((List.range n).map (fun l => chordOld rp z dz l)).getD l (fun _ => 0) = chordOld rp z dz l := by
    intro l hl
    simp [List.getD, hl]
  refine ⟨fun l hl wn hwn => ?_, fun wn hwn => ?_⟩
  · rw [h.1 l hl wn hwn, hp l hl]
    simp only [modelTrans, chord_old, if_true]
  · rw [h.2 wn hwn]
    simp only [modelDepth, modelTrans, chord_old, if_true]
    exact depth_congr rp rs n z dz _ _ (fun l hl => by rw [hp l hl])

/-- **`path_integral` with the new path method**: if the rows `planet.compute_path_length` returns for the lines of sight
    of `src_compute_path_length` (the 3-D geometry: modelled by `Geometry.pathRow3d` and proved equal to the closed form
    in `C01.path3d_eq_chordNew`) are the chords `chordNew` on their `n - l` segments, the result is the model with
    `newMethod = true` -/
theorem src_path_integral_new (n nwn total : Nat) (ht : 0 < total) (rp rs : α) (zb z dz dens : Nat → α)
    (cs : List (Contrib α)) (planetPaths : (Nat → α) → (Nat → Nat → α) → (Nat → Nat → α) → List (Nat → α))
    (hnew : ∀ l < n, ∀ k < n - l,
      (planetPaths zb
          (rows (fun l => (Geometry.parallelVector rp (z l + dz l / 2) (Geometry.arrMax n zb)).1))
          (rows (fun l => (Geometry.parallelVector rp (z l + dz l / 2) (Geometry.arrMax n zb)).2))).getD l (fun _ => 0) k
        = chordNew rp zb z dz l k) :
    let r := Gen.SrcC19.path_integral nwn cs (dispatch nwn total n) dz dens n true planetPaths rp rs zb z
    (∀ l < n, ∀ wn < nwn, r.2 l wn = modelTrans true true rp n nwn zb z dz dens cs l wn) ∧
    (∀ wn < nwn, r.1 wn = modelDepth true true rp rs n nwn zb z dz dens cs wn) := by
  intro r
  have h := src_path_integral n nwn total ht rp rs z dz dens zb cs true planetPaths
  simp only [if_true, src_compute_path_length] at h
  have hp : ∀ l < n, tauCut n nwn ((planetPaths zb
          (rows (fun l => (Geometry.parallelVector rp (z l + dz l / 2) (Geometry.arrMax n zb)).1))
          (rows (fun l => (Geometry.parallelVector rp (z l + dz l / 2) (Geometry.arrMax n zb)).2))).getD l
            (fun _ => 0)) dens l cs
      = tauCut n nwn (chordNew rp zb z dz l) dens l cs := by
    intro l hl
    unfold tauCut
    exact tauCutFrom_congr_path n nwn _ _ dens l cs _ (hnew l hl)
  refine ⟨fun l hl wn hwn => ?_, fun wn hwn => ?_⟩
  · rw [h.1 l hl wn hwn, hp l hl]
    simp only [modelTrans, chord_new, if_true]
  · rw [h.2 wn hwn]
    simp only [modelDepth, modelTrans, chord_new, if_true]
    exact depth_congr rp rs n z dz _ _ (fun l hl => by rw [hp l hl])

end

/-- the grey-haze tie at the carrier of the C19 theorems -/
theorem src_flat_prepare_each_real (n nW : Nat) (plev : Nat → ℝ) (bottomRaw topRaw mix : ℝ) (l wn : Nat) (hl : l < n) :
    Gen.SrcC19.flat_prepare_each nW bottomRaw mix n plev topRaw l wn = flatSigma n plev bottomRaw topRaw mix l :=
  src_flat_prepare_each (fun _ _ => not_lt.symm) n nW plev bottomRaw topRaw mix l wn hl

/-! ## the cloudy run at the extended carrier `XR` (Proofs/C19Ext.lean), where `np.inf` is a value

  All inputs are finite (`lift`, `fin`) except the cloud's opacity: the regenerated `prepare_each` is run with `np.inf := pinf`.
  The contribution list is `[cloud deck] ++ rest` (`build()` sorts by `order`, the cloud's is 3, every other built-in
  contribution's 5).  `total` = `CIAContribution._total_cia` (`0 < total`: a CIA contribution, if present, has a pair). -/

open Taurex.C19Ext Taurex.C19Ext.XR

/-- the regenerated `SimpleCloudsContribution.prepare_each` at `XR`, run with `np.inf` as the value `pinf`: `pinf` at and
    below the cloud top, `0` above — the opacity table of the model's cloud deck -/
theorem src_clouds_prepare_each_XR (nL nW : Nat) (P : Nat → ℝ) (p0 : ℝ) :
    Gen.SrcC19.clouds_prepare_each (α := XR) nW (lift P) pinf nL (fin p0) = (cloudC P p0).sigma := by
  funext l wn
  unfold Gen.SrcC19.clouds_prepare_each cloudC cloudSigma
  by_cases h : p0 ≤ P l <;> simp [h, ofExt]

/-- the prepared contribution list of a model with a cloud deck, at `XR`: the cloud's `sigma_xsec` is what the
    regenerated `prepare_each` computes -/
noncomputable def cloudyList (nL nW : Nat) (P : Nat → ℝ) (p0 : ℝ) (rest : List (Contrib ℝ)) : List (Contrib XR) :=
  ⟨.layerOnly, Gen.SrcC19.clouds_prepare_each (α := XR) nW (lift P) pinf nL (fin p0)⟩ :: rest.map liftC

theorem cloudyList_eq (nL nW : Nat) (P : Nat → ℝ) (p0 : ℝ) (rest : List (Contrib ℝ)) :
    cloudyList nL nW P p0 rest = cloudC P p0 :: rest.map liftC := by
  unfold cloudyList
  rw [src_clouds_prepare_each_XR]
  rfl

/-- the regenerated `path_integral` (absorption, `exp(-tau)`) of that model, at `XR` -/
noncomputable def cloudyRun (newMethod : Bool) (rp rs : ℝ) (n nwn total : Nat) (zb z dz dens P : Nat → ℝ) (p0 : ℝ)
    (rest : List (Contrib ℝ)) (planetPaths : (Nat → XR) → (Nat → Nat → XR) → (Nat → Nat → XR) → List (Nat → XR)) :
    (Nat → XR) × (Nat → Nat → XR) :=
  Gen.SrcC19.path_integral (α := XR) nwn (cloudyList n nwn P p0 rest) (dispatch nwn total n) (lift dz) (lift dens) n
    newMethod planetPaths (fin rp) (fin rs) (lift zb) (lift z)

/-- **the cloudy run, old path method**: the regenerated `path_integral` at `XR` — with the regenerated cloud opacity, the
    regenerated `contribute` methods, chord lengths and `compute_absorption` — returns the model's `cloudyTrans` (entry by
    entry of `exp(-tau)`) and `cloudyDepth`, as finite values -/
theorem src_cloudy_run_old (rp rs : ℝ) (n nwn total : Nat) (ht : 0 < total) (zb z dz dens P : Nat → ℝ) (p0 : ℝ)
    (rest : List (Contrib ℝ)) (planetPaths : (Nat → XR) → (Nat → Nat → XR) → (Nat → Nat → XR) → List (Nat → XR)) :
    (∀ l < n, ∀ wn < nwn, (cloudyRun false rp rs n nwn total zb z dz dens P p0 rest planetPaths).2 l wn
        = fin (cloudyTrans false rp n nwn zb z dz dens P p0 rest l wn)) ∧
    (∀ wn < nwn, (cloudyRun false rp rs n nwn total zb z dz dens P p0 rest planetPaths).1 wn
        = fin (cloudyDepth false rp rs n nwn zb z dz dens P p0 rest wn)) := by
  have h := src_path_integral_old (α := XR) n nwn total ht (fin rp) (fin rs) (lift zb) (lift z) (lift dz) (lift dens)
    (cloudyList n nwn P p0 rest) planetPaths
  simp only [cloudyList_eq] at h
  unfold cloudyRun
  simp only [cloudyList_eq]
  refine ⟨fun l hl wn hwn => ?_, fun wn hwn => ?_⟩
  · rw [h.1 l hl wn hwn]
    exact modelTrans_cloudy false rp n nwn zb z dz dens P p0 rest l wn (Nat.lt_of_le_of_lt (Nat.zero_le _) hwn)
  · rw [h.2 wn hwn]
    exact modelDepth_cloudy false rp rs n nwn zb z dz dens P p0 rest wn (Nat.lt_of_le_of_lt (Nat.zero_le _) hwn)

/-- **the cloudy run, new path method**, under the hypothesis of `src_path_integral_new` (the 3-D geometry returns the
    chords `chordNew`) -/
theorem src_cloudy_run_new (rp rs : ℝ) (n nwn total : Nat) (ht : 0 < total) (zb z dz dens P : Nat → ℝ) (p0 : ℝ)
    (rest : List (Contrib ℝ)) (planetPaths : (Nat → XR) → (Nat → Nat → XR) → (Nat → Nat → XR) → List (Nat → XR))
    (hnew : ∀ l < n, ∀ k < n - l,
      (planetPaths (lift zb)
          (rows (fun l => (Geometry.parallelVector (fin rp) (lift z l + lift dz l / 2) (Geometry.arrMax n (lift zb))).1))
          (rows (fun l => (Geometry.parallelVector (fin rp) (lift z l + lift dz l / 2) (Geometry.arrMax n (lift zb))).2))).getD
            l (fun _ => 0) k
        = chordNew (fin rp) (lift zb) (lift z) (lift dz) l k) :
    (∀ l < n, ∀ wn < nwn, (cloudyRun true rp rs n nwn total zb z dz dens P p0 rest planetPaths).2 l wn
        = fin (cloudyTrans true rp n nwn zb z dz dens P p0 rest l wn)) ∧
    (∀ wn < nwn, (cloudyRun true rp rs n nwn total zb z dz dens P p0 rest planetPaths).1 wn
        = fin (cloudyDepth true rp rs n nwn zb z dz dens P p0 rest wn)) := by
  have h := src_path_integral_new (α := XR) n nwn total ht (fin rp) (fin rs) (lift zb) (lift z) (lift dz) (lift dens)
    (cloudyList n nwn P p0 rest) planetPaths hnew
  simp only [cloudyList_eq] at h
  unfold cloudyRun
  simp only [cloudyList_eq]
  refine ⟨fun l hl wn hwn => ?_, fun wn hwn => ?_⟩
  · rw [h.1 l hl wn hwn]
    exact modelTrans_cloudy true rp n nwn zb z dz dens P p0 rest l wn (Nat.lt_of_le_of_lt (Nat.zero_le _) hwn)
  · rw [h.2 wn hwn]
    exact modelDepth_cloudy true rp rs n nwn zb z dz dens P p0 rest wn (Nat.lt_of_le_of_lt (Nat.zero_le _) hwn)

/-- the same model WITHOUT the cloud deck (old path method), at `XR` on finite inputs: `fin` of the model at `ℝ` -/
theorem src_clear_run_old (rp rs : ℝ) (n nwn total : Nat) (ht : 0 < total) (zb z dz dens : Nat → ℝ)
    (rest : List (Contrib ℝ)) (planetPaths : (Nat → XR) → (Nat → Nat → XR) → (Nat → Nat → XR) → List (Nat → XR)) :
    ∀ l < n, ∀ wn < nwn,
      (Gen.SrcC19.path_integral (α := XR) nwn (rest.map liftC) (dispatch nwn total n) (lift dz) (lift dens) n false
        planetPaths (fin rp) (fin rs) (lift zb) (lift z)).2 l wn
        = fin (modelTrans true false rp n nwn zb z dz dens rest l wn) := by
  intro l hl wn hwn
  rw [(src_path_integral_old (α := XR) n nwn total ht (fin rp) (fin rs) (lift zb) (lift z) (lift dz) (lift dens)
    (rest.map liftC) planetPaths).1 l hl wn hwn]
  exact modelTrans_fin false rp n nwn zb z dz dens rest l wn

/-- … and with the new path method, under the hypothesis of `src_path_integral_new` -/
theorem src_clear_run_new (rp rs : ℝ) (n nwn total : Nat) (ht : 0 < total) (zb z dz dens : Nat → ℝ)
    (rest : List (Contrib ℝ)) (planetPaths : (Nat → XR) → (Nat → Nat → XR) → (Nat → Nat → XR) → List (Nat → XR))
    (hnew : ∀ l < n, ∀ k < n - l,
      (planetPaths (lift zb)
          (rows (fun l => (Geometry.parallelVector (fin rp) (lift z l + lift dz l / 2) (Geometry.arrMax n (lift zb))).1))
          (rows (fun l => (Geometry.parallelVector (fin rp) (lift z l + lift dz l / 2) (Geometry.arrMax n (lift zb))).2))).getD
            l (fun _ => 0) k
        = chordNew (fin rp) (lift zb) (lift z) (lift dz) l k) :
    ∀ l < n, ∀ wn < nwn,
      (Gen.SrcC19.path_integral (α := XR) nwn (rest.map liftC) (dispatch nwn total n) (lift dz) (lift dens) n true
        planetPaths (fin rp) (fin rs) (lift zb) (lift z)).2 l wn
        = fin (modelTrans true true rp n nwn zb z dz dens rest l wn) := by
  intro l hl wn hwn
  rw [(src_path_integral_new (α := XR) n nwn total ht (fin rp) (fin rs) (lift zb) (lift z) (lift dz) (lift dens)
    (rest.map liftC) planetPaths hnew).1 l hl wn hwn]
  exact modelTrans_fin true rp n nwn zb z dz dens rest l wn

end Taurex.C19Src
