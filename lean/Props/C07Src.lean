/-
  C07 — source tie.  `TaurexModel/Gen/SrcC07.lean` is regenerated on every run by `harness/translate.py` (dialect `py`,
  harness/translate_py.py) from the source text of taurex/optimizer/optimizer.py: the module-level `compile_params` and the
  methods of `Optimizer` that set up and apply a retrieval.  The theorems below state that each regenerated definition, run
  on the Python-object layout of a model state (`Proofs/C07SrcLemmas.lean`: `fpDict` = `obj.fittingParameters`, a dict of
  tuples `(name, latex, fget, fset, mode, to_fit, bounds)`; `entryTuple` = an element of `fitting_parameters`; getters and
  setters are handles `(owner, name)` into the world `St`), computes exactly what `TaurexModel/OptimizerSM.lean` — the state
  machine `driver_c07` executes and the C07 theorems are about — computes: the same new containers, the same exception class.
  Generic in the names `ν`, the LaTeX type `L` and the carrier `α` (no algebra: they also hold for `Float`).

  Instantiation of what the translated text leaves open (function parameters of the generated definitions):
    prior objects `ρ := Prior α`; `Uniform(bounds=b) := mkUniform b.1 b.2`; `LogUniform(lin_bounds=b) := mkLogUniformLin …`
    (`ValueError` where the model has `none`); `p.priorMode := modeCode p.mode`; `p.prior(x) := p.back x` — these are tied to
    taurex/core/priors.py by Props/C08Src.lean; `math.log10 := log10?` (`ValueError` unless `0 < x`);
    `fget() := callGet s h`, `fset(x) := callSet s h x` for a handle `h = (owner, name)`.
  Hypotheses `(names _).Nodup` / `(_.map (·.1)).Nodup`: the keys of a Python dict are pairwise distinct.

  Last section: the glue between an input file and the optimizer, taurex/parameter/parameterparser.py
  (`ParameterParser.generate_fitting_parameters`, `generate_derived_parameters`, `setup_optimizer`), translated with the
  dialect `dyn` (harness/translate_dyn.py: dynamically typed values `Dyn.Val`, ONE oracle for everything the text delegates
  to objects) and tied to `TaurexModel/FittingSection.lean` (`parseFitting`, `splitAll` + `deriveRecs`, `setupOptimizer`).
  The oracle `fext` (Proofs/C07SrcFitting.lean, read its header) says: `self._raw_config.dict()` is a dict `c` whose
  entries `Fitting` / `Derive` are the sections as typed by `ParameterParser.transform` (`SecAt`: present with these lines,
  or absent); `create_prior(v)` returns the prior `mk v` or raises `pexc` (both arbitrary); a method call on the optimizer
  with arguments of the documented shapes is ONE `step` of the state machine (the methods themselves are tied above).
  Generic in the carrier `α` and in the `BEq` of objects (never used: dict keys are strings).
-/
import Proofs.C07SrcLemmas
import Proofs.C07SrcFitting
import TaurexModel.Ops.C07
set_option linter.unusedSectionVars false

namespace Taurex.C07Src
open Taurex.Priors Taurex.OptimizerSM Taurex.Gen Taurex.C07

section
variable {ν α L : Type} [DecidableEq ν] [Add α] [Sub α] [Mul α] [Div α] [Neg α] [LT α] [LE α]
  [DecidableLT α] [DecidableLE α] [Taurex.Transc α] [OfNat α 0]

/-- `Optimizer.enable_fit(parameter)` is `step s (.enableFit n)`: the two `fittingParameters` dicts afterwards and the
    exception (`KeyError` for an unknown name) are the model's -/
theorem src_enable_fit (lx : ν → L) (s : St ν α) (hm : (names s.model).Nodup) (ho : (names s.obs).Nodup) (n : ν) :
    Gen.SrcC07.Optimizer_enable_fit n (fpDict lx .model s.model) (fpDict lx .obs s.obs)
      = ((fpDict lx .model (step s (.enableFit n)).1.model, fpDict lx .obs (step s (.enableFit n)).1.obs),
         outE (step s (.enableFit n)).2) :=
  withParam_enc lx s n (fun p => { p with fit := true }) (fun _ => rfl) hm ho
    (fun v => (v.1, v.2.1, v.2.2.1, v.2.2.2.1, v.2.2.2.2.1, true, v.2.2.2.2.2.2)) (fun _ _ _ => rfl)

/-- `Optimizer.disable_fit(parameter)` is `step s (.disableFit n)` -/
theorem src_disable_fit (lx : ν → L) (s : St ν α) (hm : (names s.model).Nodup) (ho : (names s.obs).Nodup) (n : ν) :
    Gen.SrcC07.Optimizer_disable_fit n (fpDict lx .model s.model) (fpDict lx .obs s.obs)
      = ((fpDict lx .model (step s (.disableFit n)).1.model, fpDict lx .obs (step s (.disableFit n)).1.obs),
         outE (step s (.disableFit n)).2) :=
  withParam_enc lx s n (fun p => { p with fit := false }) (fun _ => rfl) hm ho
    (fun v => (v.1, v.2.1, v.2.2.1, v.2.2.2.1, v.2.2.2.2.1, false, v.2.2.2.2.2.2)) (fun _ _ _ => rfl)

/-- `Optimizer.set_boundary(parameter, new_boundaries)` is `step s (.setBoundary n b0 b1)` -/
theorem src_set_boundary (lx : ν → L) (s : St ν α) (hm : (names s.model).Nodup) (ho : (names s.obs).Nodup) (n : ν)
    (b0 b1 : α) :
    Gen.SrcC07.Optimizer_set_boundary n (b0, b1) (fpDict lx .model s.model) (fpDict lx .obs s.obs)
      = ((fpDict lx .model (step s (.setBoundary n b0 b1)).1.model, fpDict lx .obs (step s (.setBoundary n b0 b1)).1.obs),
         outE (step s (.setBoundary n b0 b1)).2) :=
  withParam_enc lx s n (fun p => { p with b0 := b0, b1 := b1 }) (fun _ => rfl) hm ho
    (fun v => (v.1, v.2.1, v.2.2.1, v.2.2.2.1, v.2.2.2.2.1, v.2.2.2.2.2.1, (b0, b1))) (fun _ _ _ => rfl)

/-- `Optimizer.set_factor_boundary(parameter, factors)` is `step s (.setFactorBoundary n f0 f1)`; the getter of the stored
    tuple is called in the world `s` -/
theorem src_set_factor_boundary (lx : ν → L) (s : St ν α) (hm : (names s.model).Nodup) (ho : (names s.obs).Nodup) (n : ν)
    (f0 f1 : α) :
    Gen.SrcC07.Optimizer_set_factor_boundary n (f0, f1) callGet (fpDict lx .model s.model) (fpDict lx .obs s.obs) s
      = ((fpDict lx .model (step s (.setFactorBoundary n f0 f1)).1.model,
          fpDict lx .obs (step s (.setFactorBoundary n f0 f1)).1.obs), outE (step s (.setFactorBoundary n f0 f1)).2) :=
  withParam_enc lx s n (fun p => { p with b0 := f0 * p.value, b1 := f1 * p.value }) (fun _ => rfl) hm ho
    (fun v => (v.1, v.2.1, v.2.2.1, v.2.2.2.1, v.2.2.2.2.1, v.2.2.2.2.2.1,
               (f0 * callGet s v.2.2.1, f1 * callGet s v.2.2.1)))
    (fun o p hp => by
      have hn : p.name = n := by simpa using List.find?_some hp
      simp [tupleOf, callGet, hn, getValue_of_find s o n p hp])

/-- `Optimizer.set_mode(parameter, new_mode)` is `step s (.setMode n m)`: `KeyError` for an unknown name, else `ValueError`
    for a string that is neither 'log' nor 'linear' after lower-casing, else the tuple is stored with the lower-cased string -/
theorem src_set_mode (lx : ν → L) (s : St ν α) (hm : (names s.model).Nodup) (ho : (names s.obs).Nodup) (n : ν) (m : String) :
    Gen.SrcC07.Optimizer_set_mode n m (fpDict lx .model s.model) (fpDict lx .obs s.obs)
      = ((fpDict lx .model (step s (.setMode n m)).1.model, fpDict lx .obs (step s (.setMode n m)).1.obs),
         outE (step s (.setMode n m)).2) := by
  cases hp : parseMode m with
  | some md =>
    have hstep : step s (.setMode n m) = withParam s n (fun p => { p with mode := md }) := by
      simp only [step, hp, withParam]
    rw [hstep, ← withParam_enc lx s n (fun p => { p with mode := md }) (fun _ => rfl) hm ho
      (fun v => (v.1, v.2.1, v.2.2.1, v.2.2.2.1, modeStr md, v.2.2.2.2.2.1, v.2.2.2.2.2.2)) (fun _ _ _ => rfl)]
    unfold Gen.SrcC07.Optimizer_set_mode
    simp only [Py.lower, parseMode_some m md hp, modeStr_valid, Bool.not_true, Bool.false_eq_true, if_false]
  | none =>
    unfold Gen.SrcC07.Optimizer_set_mode
    simp only []
    rcases lookup_enc lx s n with ⟨p, _, _, hh, hd⟩ | ⟨hh, hd⟩
    · rw [hd]
      simp [Py.lower, parseMode_none m hp, step, hh, hp, outE]
    · rw [hd]
      simp [step, hh, outE]

/-- `Optimizer.set_prior(parameter, prior)` is `step s (.setPrior n p)`: `ValueError` for an unknown name, else the prior is
    stored in `_user_priors` and in `_fit_priors` -/
theorem src_set_prior (lx : ν → L) (s : St ν α) (n : ν) (p : Prior α) :
    Gen.SrcC07.Optimizer_set_prior n p s.fitPriors (fpDict lx .model s.model) (fpDict lx .obs s.obs) s.userPriors
      = (((step s (.setPrior n p)).1.userPriors, (step s (.setPrior n p)).1.fitPriors), outE (step s (.setPrior n p)).2) := by
  unfold Gen.SrcC07.Optimizer_set_prior
  simp only [dhas_owner, dset_eq_tset, step]
  cases hasName (table s (ownerOf s n)) n <;> simp [outE]

/-- `set_prior` leaves both parameter tables (and everything else but the two prior dicts) as they are -/
theorem src_set_prior_frame (s : St ν α) (n : ν) (p : Prior α) :
    (step s (.setPrior n p)).1 = { s with userPriors := (step s (.setPrior n p)).1.userPriors,
                                          fitPriors := (step s (.setPrior n p)).1.fitPriors } := by
  simp only [step]
  cases hasName (table s (ownerOf s n)) n <;> rfl

/-- the common shape of `enable_derived` / `disable_derived` on the dict layout is the model's `withDerived` -/
theorem src_with_derived (lx : ν → L) (s : St ν α) (hm : (s.dmodel.map (·.name)).Nodup) (ho : (s.dobs.map (·.name)).Nodup)
    (n : ν) (c : Bool) :
    Py.caseE (Py.dgetE (if (if Py.dhas (dpDict lx .model s.dmodel) n then 0 else 1 : Nat) = 0
                      then dpDict lx .model s.dmodel else dpDict lx .obs s.dobs) n)
      (fun e => ((dpDict lx .model s.dmodel, dpDict lx .obs s.dobs), (Except.error e : Except Py.Err Unit)))
      (fun v =>
       ((if (if Py.dhas (dpDict lx .model s.dmodel) n then 0 else 1 : Nat) = 0
           then Py.dset (dpDict lx .model s.dmodel) n (v.1, v.2.1, v.2.2.1, c) else dpDict lx .model s.dmodel,
         if (if Py.dhas (dpDict lx .model s.dmodel) n then 0 else 1 : Nat) = 1
           then Py.dset (dpDict lx .obs s.dobs) n (v.1, v.2.1, v.2.2.1, c) else dpDict lx .obs s.dobs), Except.ok ()))
      = ((dpDict lx .model (withDerived s n c).1.dmodel, dpDict lx .obs (withDerived s n c).1.dobs),
         outE (withDerived s n c).2) := by
  rw [dhas_dpDict]
  cases hmn : hasDerived s.dmodel n with
  | true =>
    obtain ⟨d, hd, _⟩ := findD_of_hasDerived s.dmodel n hmn
    have hg : Py.dgetE (dpDict lx .model s.dmodel) n = .ok (dtupleOf lx .model d) :=
      dgetE_of_get _ _ _ (by rw [dget_dpDict, hd]; rfl)
    simp only [if_true, hg, Py.caseE_ok]
    have := dset_dpDict lx .model n c s.dmodel d hm hd
    simp only [dtupleOf] at this ⊢
    rw [this]
    simp [withDerived, hmn, outE]
  | false =>
    simp only [Bool.false_eq_true, if_false, Nat.succ_ne_self, if_true]
    cases hon : hasDerived s.dobs n with
    | true =>
      obtain ⟨d, hd, _⟩ := findD_of_hasDerived s.dobs n hon
      have hg : Py.dgetE (dpDict lx .obs s.dobs) n = .ok (dtupleOf lx .obs d) :=
        dgetE_of_get _ _ _ (by rw [dget_dpDict, hd]; rfl)
      simp only [hg, Py.caseE_ok]
      have := dset_dpDict lx .obs n c s.dobs d ho hd
      simp only [dtupleOf] at this ⊢
      rw [this]
      simp [withDerived, hmn, hon, outE]
    | false =>
      have hg : Py.dgetE (dpDict lx .obs s.dobs) n = .error .keyError :=
        dgetE_of_none _ _ (by rw [dget_dpDict, findD_none s.dobs n hon]; rfl)
      simp only [hg, Py.caseE_error]
      simp [withDerived, hmn, hon, outE]

/-- `Optimizer.enable_derived(parameter)` is `step s (.enableDerived n)` -/
theorem src_enable_derived (lx : ν → L) (s : St ν α) (hm : (s.dmodel.map (·.name)).Nodup) (ho : (s.dobs.map (·.name)).Nodup)
    (n : ν) :
    Gen.SrcC07.Optimizer_enable_derived n (dpDict lx .model s.dmodel) (dpDict lx .obs s.dobs)
      = ((dpDict lx .model (step s (.enableDerived n)).1.dmodel, dpDict lx .obs (step s (.enableDerived n)).1.dobs),
         outE (step s (.enableDerived n)).2) :=
  src_with_derived lx s hm ho n true

/-- `Optimizer.disable_derived(parameter)` is `step s (.disableDerived n)` -/
theorem src_disable_derived (lx : ν → L) (s : St ν α) (hm : (s.dmodel.map (·.name)).Nodup) (ho : (s.dobs.map (·.name)).Nodup)
    (n : ν) :
    Gen.SrcC07.Optimizer_disable_derived n (dpDict lx .model s.dmodel) (dpDict lx .obs s.dobs)
      = ((dpDict lx .model (step s (.disableDerived n)).1.dmodel, dpDict lx .obs (step s (.disableDerived n)).1.dobs),
         outE (step s (.disableDerived n)).2) :=
  src_with_derived lx s hm ho n false

/-- `Optimizer.derived_names` on the compiled derived tuples -/
theorem src_derived_names (lx : ν → L) (dm dob : List (Derived ν)) :
    Gen.SrcC07.Optimizer_derived_names (derivedTuples lx .model dm ++ derivedTuples lx .obs dob)
      = derivedOf dm ++ derivedOf dob := by
  simp [Gen.SrcC07.Optimizer_derived_names, derivedTuples_names]

/-- **`Optimizer.update_model(fit_params)` is `step s (.updateModel v)`**: `ValueError` for a vector of the wrong length
    (world untouched), else every setter of the compiled rows is called with `prior.prior(value)`, in order -/
theorem src_update_model (lx : ν → L) (s : St ν α) (v : List α) :
    Gen.SrcC07.Optimizer_update_model v callSet (s.compiled.map (entryTuple lx)) s.compiledPriors Prior.back s
      = ((step s (.updateModel v)).1, outE (step s (.updateModel v)).2) := by
  unfold Gen.SrcC07.Optimizer_update_model
  simp only [step, updateModel, List.length_map]
  by_cases h : v.length = s.compiled.length
  · simp only [h, decide_true, Bool.not_true, Bool.false_eq_true, if_false, ne_eq, not_true_eq_false]
    rw [foldl_update lx s.compiled s.compiledPriors v s]
    rfl
  · simp [h, outE]

/-- `Optimizer.fit_values` is `fitValues s` (`ValueError` of `math.log10` where the model has `none`), in any state whose
    compiled rows refer to existing parameters (`compiled_invariant` in Props/C07.lean: every state reached from a fresh
    optimizer) -/
theorem src_fit_values (lx : ν → L) (s : St ν α)
    (hex : ∀ e ∈ s.compiled, (getValue s e.owner e.name).isSome = true) :
    Gen.SrcC07.Optimizer_fit_values callGet (s.compiled.map (entryTuple lx)) s.compiledPriors mathLog10
        (fun p => modeCode p.mode) s = optE .valueError (fitValues s) :=
  mapE_fit_values lx s s.compiled s.compiledPriors hex

/-- `Optimizer.fit_boundaries` is `fitBoundaries s` -/
theorem src_fit_boundaries (lx : ν → L) (s : St ν α) :
    Gen.SrcC07.Optimizer_fit_boundaries (s.compiled.map (entryTuple lx)) s.compiledPriors mathLog10
        (fun p => modeCode p.mode) = optE .valueError (fitBoundaries s) :=
  mapE_fit_boundaries lx s.compiled s.compiledPriors

/-- **module-level `compile_params(fitparams, driveparams, fit_priors)`, success**: when the model's `compileTable` returns
    rows, the translated function returns exactly them — the compiled tuples, their priors, the prior dict with the default
    priors recorded, the derived tuples with the compute flag set — and leaves the in/out argument `fit_priors` equal to the
    returned dict (`_fit_priors = fit_priors or {}`: the SAME object) unless it was empty (then a fresh dict was filled and
    the argument stays empty) -/
theorem src_compile_params_ok (lx : ν → L) (o : Owner) (ps : List (Param ν α)) (ds : List (Derived ν)) (tbl : Table ν α)
    (r : List (Entry ν α) × List (Prior α) × Table ν α) (hc : compileTable o ps tbl = some r) :
    Gen.SrcC07.compile_params (fpDict lx o ps) (dpDict lx o ds) tbl logUniformLin uniformBounds
      = (if tbl.isEmpty then tbl else r.2.2,
         Except.ok (r.1.map (entryTuple lx), r.2.1, r.2.2, derivedTuples lx o ds)) := by
  unfold Gen.SrcC07.compile_params
  simp only [values_fpDict, values_dpDict]
  by_cases he : tbl.isEmpty = true
  · have ht : tbl = [] := List.isEmpty_iff.1 he
    subst ht
    simp only [List.isEmpty_nil, Bool.not_true, Bool.false_eq_true, if_false, if_true]
    rw [forE_compile_some lx o _ ?_ ps [] [] _ r hc]
    rw [foldl_derived lx o _ ?_ ds []]
    · simp
    · intro acc d; rfl
    · fit_step
  · simp only [he, Bool.not_false, if_true, Bool.false_eq_true, if_false]
    rw [forE_compile_some lx o _ ?_ ps [] [] _ r hc]
    rw [foldl_derived lx o _ ?_ ds []]
    · simp
    · intro acc d; rfl
    · fit_step

/-- **module-level `compile_params`, failure**: when `compileTable` is `none` (a log-mode parameter with a non-positive
    bound and no prior of its own), the translated function raises `ValueError`; a non-empty in/out dict has by then
    received the default priors `extra` built before the failure, all under names it did not have -/
theorem src_compile_params_error (lx : ν → L) (o : Owner) (ps : List (Param ν α)) (ds : List (Derived ν)) (tbl : Table ν α)
    (hc : compileTable o ps tbl = none) :
    ∃ extra, Gen.SrcC07.compile_params (fpDict lx o ps) (dpDict lx o ds) tbl logUniformLin uniformBounds
      = (if tbl.isEmpty then tbl else tbl ++ extra, Except.error Py.Err.valueError) ∧
      ∀ kv ∈ extra, tget tbl kv.1 = none := by
  unfold Gen.SrcC07.compile_params
  simp only [values_fpDict, values_dpDict]
  by_cases he : tbl.isEmpty = true
  · have ht : tbl = [] := List.isEmpty_iff.1 he
    subst ht
    simp only [List.isEmpty_nil, Bool.not_true, Bool.false_eq_true, if_false, if_true]
    generalize hR : Py.forE _ _ _ = R
    have key : ∃ ae' ap' extra, R = ((ae', ap', ([] : Table ν α) ++ extra), some Py.Err.valueError) ∧
        ∀ kv ∈ extra, tget ([] : Table ν α) kv.1 = none := by
      rw [← hR]; exact forE_compile_none lx o _ (by fit_step) ps [] [] _ hc
    obtain ⟨ae', ap', extra, hfor, _⟩ := key
    subst hfor
    exact ⟨[], by simp, by simp⟩
  · simp only [he, Bool.not_false, if_true, Bool.false_eq_true, if_false]
    generalize hR : Py.forE _ _ _ = R
    have key : ∃ ae' ap' extra, R = ((ae', ap', tbl ++ extra), some Py.Err.valueError) ∧
        ∀ kv ∈ extra, tget tbl kv.1 = none := by
      rw [← hR]; exact forE_compile_none lx o _ (by fit_step) ps [] [] _ hc
    obtain ⟨ae', ap', extra, hfor, hx⟩ := key
    subst hfor
    exact ⟨extra, by simp, hx⟩

/-- `d.update(e)` where `d` is `e` itself or empty (the two aliasing cases of `_fit_priors = fit_priors or {}`) -/
theorem dupdate_alias (tbl t : Table ν α) (hn : (t.map (·.1)).Nodup) :
    Py.dupdate (if tbl.isEmpty then tbl else t) t = t := by
  by_cases he : tbl.isEmpty = true
  · have ht : tbl = [] := List.isEmpty_iff.1 he
    subst ht
    simpa using dupdate_nil t hn
  · simp only [he, Bool.false_eq_true, if_false]
    exact dupdate_self t hn

/-- **`Optimizer.compile_params()`, success, is `step s .compile`**: `_fit_priors`, `fitting_parameters`, `fitting_priors`
    afterwards are the model's `fitPriors`, `compiled` (as tuples), `compiledPriors`; `derived_parameters` are the tuples of
    the derived parameters with the compute flag, whose names are the model's `derivedCompiled` -/
theorem src_Optimizer_compile_params_ok (lx : ν → L) (s : St ν α) (hu : (s.userPriors.map (·.1)).Nodup)
    (hok : (step s .compile).2 = .ok) :
    Gen.SrcC07.Optimizer_compile_params logUniformLin uniformBounds (dpDict lx .model s.dmodel) (fpDict lx .model s.model)
        (dpDict lx .obs s.dobs) (fpDict lx .obs s.obs) s.userPriors
      = (((step s .compile).1.fitPriors, (step s .compile).1.compiled.map (entryTuple lx),
          (step s .compile).1.compiledPriors, derivedTuples lx .model s.dmodel ++ derivedTuples lx .obs s.dobs),
         Except.ok ()) ∧
    (derivedTuples lx .model s.dmodel ++ derivedTuples lx .obs s.dobs).map (·.1) = (step s .compile).1.derivedCompiled := by
  simp only [step, compile] at hok ⊢
  cases h1 : compileTable .model s.model s.userPriors with
  | none => simp [h1] at hok
  | some r1 =>
    obtain ⟨es, ps, t⟩ := r1
    simp only [h1] at hok ⊢
    cases h2 : compileTable .obs s.obs t with
    | none => simp [h2] at hok
    | some r2 =>
      obtain ⟨es', ps', t'⟩ := r2
      have hn1 := compileTable_nodup .model s.model _ _ h1 hu
      have hn2 := compileTable_nodup .obs s.obs _ _ h2 hn1
      refine ⟨?_, by simp [derivedTuples_names]⟩
      unfold Gen.SrcC07.Optimizer_compile_params
      simp only [src_compile_params_ok lx .model s.model s.dmodel s.userPriors _ h1, Py.caseE_ok,
        dupdate_alias s.userPriors t hn1, src_compile_params_ok lx .obs s.obs s.dobs t _ h2,
        dupdate_alias t t' hn2, List.map_append]

/-- **`Optimizer.compile_params()`, failure**: the exception is the model's (`ValueError`), `fitting_parameters`,
    `fitting_priors` and the names of `derived_parameters` are left as the model leaves them.  `_fit_priors` is the model's
    `fitPriors` PLUS the default priors `extra` the failing `compile_params` call had already stored through the shared
    dict (`_fit_priors = fit_priors or {}` is the caller's own dict when it is non-empty), all under names the model's table
    does not have: every look-up that succeeds in the model's table gives the same prior here.  (The model does not record
    these extra entries; they are dropped by the next `compile_params`, which starts from `_user_priors`.) -/
theorem src_Optimizer_compile_params_error (lx : ν → L) (s : St ν α) (hu : (s.userPriors.map (·.1)).Nodup)
    (herr : (step s .compile).2 ≠ .ok) :
    ∃ extra D,
      Gen.SrcC07.Optimizer_compile_params logUniformLin uniformBounds (dpDict lx .model s.dmodel) (fpDict lx .model s.model)
          (dpDict lx .obs s.dobs) (fpDict lx .obs s.obs) s.userPriors
        = (((step s .compile).1.fitPriors ++ extra, (step s .compile).1.compiled.map (entryTuple lx),
            (step s .compile).1.compiledPriors, D), outE (step s .compile).2) ∧
      D.map (·.1) = (step s .compile).1.derivedCompiled ∧
      ∀ kv ∈ extra, tget (step s .compile).1.fitPriors kv.1 = none := by
  simp only [step, compile] at herr ⊢
  cases h1 : compileTable .model s.model s.userPriors with
  | none =>
    obtain ⟨extra, hgen, hx⟩ := src_compile_params_error lx .model s.model s.dmodel s.userPriors h1
    refine ⟨if s.userPriors.isEmpty then [] else extra, [], ?_, rfl, ?_⟩
    · unfold Gen.SrcC07.Optimizer_compile_params
      simp only [hgen, Py.caseE_error, outE]
      by_cases he : s.userPriors.isEmpty = true <;> simp [he]
    · intro kv hkv
      by_cases he : s.userPriors.isEmpty = true
      · simp [he] at hkv
      · simp only [he, Bool.false_eq_true, if_false] at hkv
        exact hx kv hkv
  | some r1 =>
    obtain ⟨es, ps, t⟩ := r1
    simp only [h1] at herr ⊢
    have hn1 := compileTable_nodup .model s.model _ _ h1 hu
    cases h2 : compileTable .obs s.obs t with
    | some r2 => simp [h2] at herr
    | none =>
      obtain ⟨extra, hgen, hx⟩ := src_compile_params_error lx .obs s.obs s.dobs t h2
      refine ⟨if t.isEmpty then [] else extra, derivedTuples lx .model s.dmodel, ?_, derivedTuples_names lx .model s.dmodel, ?_⟩
      · unfold Gen.SrcC07.Optimizer_compile_params
        simp only [src_compile_params_ok lx .model s.model s.dmodel s.userPriors _ h1, Py.caseE_ok,
          dupdate_alias s.userPriors t hn1, hgen, Py.caseE_error, outE]
        by_cases he : t.isEmpty = true <;> simp [he]
      · intro kv hkv
        by_cases he : t.isEmpty = true
        · simp [he] at hkv
        · simp only [he, Bool.false_eq_true, if_false] at hkv
          exact hx kv hkv

/-- `compile_params` reads the two parameter tables, the derived tables and `_user_priors`, and assigns only the four
    attributes above: the model's step leaves everything else as it is -/
theorem src_Optimizer_compile_params_frame (s : St ν α) :
    (step s .compile).1 = { s with fitPriors := (step s .compile).1.fitPriors, compiled := (step s .compile).1.compiled,
                                   compiledPriors := (step s .compile).1.compiledPriors,
                                   derivedCompiled := (step s .compile).1.derivedCompiled } := by
  simp only [step, compile]
  cases h1 : compileTable .model s.model s.userPriors with
  | none => rfl
  | some r1 =>
    obtain ⟨es, ps, t⟩ := r1
    simp only []
    cases h2 : compileTable .obs s.obs t <;> rfl

/-- the five tuple-rewriting methods read and write nothing but the two `fittingParameters` dicts (and call a getter):
    the model's `withParam` step leaves every other component and every parameter VALUE (the world) as it is -/
theorem src_table_ops_frame (s : St ν α) (n : ν) (f : Param ν α → Param ν α) (hn : ∀ p, (f p).name = p.name)
    (hv : ∀ p, (f p).value = p.value) :
    (withParam s n f).1 = { s with model := (withParam s n f).1.model, obs := (withParam s n f).1.obs } ∧
    ∀ o m, getValue (withParam s n f).1 o m = getValue s o m := by
  have key : ∀ (ps : List (Param ν α)) (m : ν),
      ((modifyParam ps n f).find? (fun p => decide (p.name = m))).map (·.value)
        = (ps.find? (fun p => decide (p.name = m))).map (·.value) := by
    intro ps m
    induction ps with
    | nil => rfl
    | cons q ps ih =>
      rw [modifyParam_cons]
      by_cases hq : q.name = n
      · simp only [hq, if_true]
        by_cases hm : q.name = m
        · simp only [List.find?_cons, hn, hm, decide_true, Option.map_some, hv]
        · simp only [List.find?_cons, hn, hm, decide_false]
          exact ih
      · simp only [hq, if_false]
        by_cases hm : q.name = m
        · simp only [List.find?_cons, hm, decide_true]
        · simp only [List.find?_cons, hm, decide_false]
          exact ih
  unfold withParam
  by_cases hh : hasName (table s (ownerOf s n)) n = true
  · simp only [hh, if_true]
    cases ownerOf s n
    · exact ⟨rfl, fun o m => by cases o <;> simp [getValue, table, setTable, key]⟩
    · exact ⟨rfl, fun o m => by cases o <;> simp [getValue, table, setTable, key]⟩
  · simp [hh]

end

section
variable {α L : Type} [Add α] [Sub α] [Mul α] [Div α] [Neg α] [LT α] [LE α]
  [DecidableLT α] [DecidableLE α] [Taurex.Transc α] [OfNat α 0]

/-- `Optimizer.fit_names` (names are strings here: `'log_{}'.format(name)`) is `fitNames s` rendered by the driver's
    `fName`; `KeyError` of `_fit_priors[name]` where the model has `none` -/
theorem src_fit_names (lx : String → L) (s : St String α) :
    Gen.SrcC07.Optimizer_fit_names s.fitPriors (s.compiled.map (entryTuple lx)) (fun p => modeCode p.mode)
      = optE .keyError ((fitNames s).map (List.map Taurex.Ops.C07.fName)) := by
  unfold Gen.SrcC07.Optimizer_fit_names fitNames
  generalize s.compiled = es
  induction es with
  | nil => simp [fitNamesAux, optE]
  | cons e es ih =>
    rw [List.map_cons, Py.mapE_cons, ih]
    simp only [fitNamesAux, entryTuple, Py.dgetE, dget_eq_tget]
    cases hg : tget s.fitPriors e.name with
    | none => simp [optE]
    | some p =>
      cases fitNamesAux s.fitPriors es <;> cases hm : p.mode <;> simp [optE, modeCode, Taurex.Ops.C07.fName, hm]

end

/-! ### taurex/parameter/parameterparser.py: `[Fitting]` / `[Derive]` sections -> optimizer calls (dialect `dyn`) -/

section
open Taurex.FittingSection Taurex.Gen.Dyn
variable {α : Type} [LT α] [DecidableLT α] [OfNat α 0] [Mul α] [Transc α] [BEq (FObj α)]

/-- **`ParameterParser.generate_fitting_parameters()` is `parseFitting`** (`FitOutcome`): where the model returns records,
    the translated function returns a dict with the same parameter names in the same order whose inner dicts hold under
    `fit` / `bounds` / `mode` / `factor` / `prior` what the records hold (`GrpSim`; options with any other name are stored in
    the dict and read by nobody); where the model has `valueError` (a key that is not `name:option`) it raises `ValueError`,
    where it has `priorError` it raises what `create_prior` raised; the optimizer state is untouched.  An absent section is
    an empty one. -/
theorem src_generate_fitting_parameters (mk : FV α → Option (Prior α)) (pexc : Exc) (c : List (FV α × FV α))
    (fitting : List (String × OptVal α)) (hF : SecAt c "Fitting" fitting) (s : St String α) :
    FitOutcome pexc s (parseFitting (fun v => mk (embV v)) fitting [])
      (Gen.SrcC07.generate_fitting_parameters (fext mk pexc (.dict c)) (.obj .self) s) := by
  unfold Gen.SrcC07.generate_fitting_parameters
  simp only [eff_bind, getAttr_raw, callMethod_dict, contains_str, dictHas_eq_get]
  rcases hF with hF | ⟨hF, hnil⟩
  · simp only [hF, Option.isSome_some, if_true, eff_bind, getItem_str _ _ _ _ _ _ hF, m_items_dict]
    generalize hR : Dyn.forM (m := FM α) _ _ _ s = R
    have key : FitOutcome pexc s (parseFitting (fun v => mk (embV v)) fitting []) R := by
      rw [← hR]
      refine forM_parse _ pexc _ ?_ fitting [] [] s trivial
      intro D grp k v s hsim
      simp only [eff_bind, unpack2_tuple, m_split_colon]
      cases hk : splitKey k with
      | none =>
        rw [unpack2_parts_err _ _ _ _ (splitKey_none k hk)]
        simp only [lineStep, hk]
        exact rfl
      | some ab =>
        obtain ⟨a, b⟩ := ab
        rw [splitKey_some k a b hk]
        obtain ⟨d, hget, hrs, hset⟩ := grpSim_ensure D grp hsim a
        simp only [unpack2_parts_ok, contains_str, defaultsD] at hget hset ⊢
        simp only [ite_setItem, eqB_str]
        by_cases hb : b = "prior"
        · subst hb
          simp only [beq_self_eq_true, if_true, eff_bind, global_create_prior, call_create_prior, lineStep, hk,
            setOpt_prior]
          cases hmk : mk (embV v) with
          | none => exact rfl
          | some p =>
            simp only [Option.map_some, eff_pure, getItem_str _ _ _ _ _ _ hget, setItem_str]
            exact ⟨_, rfl, hset _ _ (recSim_set_prior d _ p hrs)⟩
        · have hb' : (b == "prior") = false := by simpa using hb
          obtain ⟨r', hr'⟩ := setOpt_other_isSome (fun v => mk (embV v)) ((getRec grp a).getD {}) a b v hb
          simp only [hb', Bool.false_eq_true, if_false, eff_pure, getItem_str _ _ _ _ _ _ hget, setItem_str, lineStep, hk, hr']
          exact ⟨_, rfl, hset _ _ (recSim_set_other _ d _ r' a b v hrs hb hr')⟩
    cases hm : parseFitting (fun v => mk (embV v)) fitting [] with
    | error e => rw [fitOutcome_err hm key]; exact rfl
    | ok g =>
      obtain ⟨D, hD, hs⟩ := fitOutcome_ok hm key
      rw [hD]
      exact ⟨D, rfl, hs⟩
  · subst hnil
    simp [hF, parseFitting, FitOutcome, GrpSim]

/-- **`ParameterParser.generate_derived_parameters()` is `splitAll` + `deriveRecs`** (`DOutcome`): a dict with the same
    names in the same order whose inner dicts hold under `compute` what the model's records hold (`DSim`), or `ValueError`
    for a key that is not `name:option`; the optimizer state is untouched -/
theorem src_generate_derived_parameters (mk : FV α → Option (Prior α)) (pexc : Exc) (c : List (FV α × FV α))
    (derive : List (String × OptVal α)) (hD : SecAt c "Derive" derive) (s : St String α) :
    DOutcome s ((splitAll derive).map (fun dl => deriveRecs dl []))
      (Gen.SrcC07.generate_derived_parameters (fext mk pexc (.dict c)) (.obj .self) s) := by
  unfold Gen.SrcC07.generate_derived_parameters
  simp only [eff_bind, getAttr_raw, callMethod_dict, contains_str, dictHas_eq_get]
  rcases hD with hD | ⟨hD, hnil⟩
  · simp only [hD, Option.isSome_some, if_true, eff_bind, getItem_str _ _ _ _ _ _ hD, m_items_dict]
    generalize hR : Dyn.forM (m := FM α) _ _ _ s = R
    have key : DOutcome s ((splitAll derive).map (fun dl => deriveRecs dl [])) R := by
      rw [← hR]
      refine forM_derive _ ?_ derive [] [] s trivial
      intro D drecs k v s hsim
      simp only [eff_bind, unpack2_tuple, m_split_colon]
      cases hk : splitKey k with
      | none =>
        rw [unpack2_parts_err _ _ _ _ (splitKey_none k hk)]
        simp only [dlineStep, hk]
        exact rfl
      | some ab =>
        obtain ⟨a, b⟩ := ab
        rw [splitKey_some k a b hk]
        obtain ⟨d, hget, hset⟩ := dSim_line D drecs hsim a b v
        simp only [unpack2_parts_ok, contains_str, defaultsC] at hget hset ⊢
        simp only [ite_setItem, getItem_str _ _ _ _ _ _ hget, setItem_str, dlineStep, hk]
        exact ⟨_, rfl, hset⟩
    cases hm : (splitAll derive).map (fun dl => deriveRecs dl []) with
    | none => rw [dOutcome_none hm key]; exact rfl
    | some g =>
      obtain ⟨D, hD', hs⟩ := dOutcome_some hm key
      rw [hD']
      exact ⟨D, rfl, hs⟩
  · subst hnil
    simp [hD, splitAll, deriveRecs, DOutcome, DSim]

/-- **`ParameterParser.setup_optimizer(optimizer)` is `setupOptimizer`**: the optimizer state afterwards is the model's,
    and the call returns `None` / raises the class the model's outcome stands for (`resV`: `KeyError`, `ValueError`, what
    `create_prior` raised).  Hypothesis `hsup`: no `bounds` / `factor` / `mode` value has a shape outside the documented
    ones (a pair of numbers / a string) — the model's `unsupported`, which the harness does not judge either. -/
theorem src_setup_optimizer (mk : FV α → Option (Prior α)) (pexc : Exc) (c : List (FV α × FV α))
    (fitting derive : List (String × OptVal α)) (hF : SecAt c "Fitting" fitting) (hD : SecAt c "Derive" derive)
    (s : St String α)
    (hsup : (setupOptimizer (fun v => mk (embV v)) s fitting derive).2.1 ≠ .unsupported) :
    Gen.SrcC07.setup_optimizer (fext mk pexc (.dict c)) (.obj .self) (.obj .optimizer) s
      = (resV pexc (setupOptimizer (fun v => mk (embV v)) s fitting derive).2.1,
         (setupOptimizer (fun v => mk (embV v)) s fitting derive).1) := by
  have hgen := src_generate_fitting_parameters mk pexc c fitting hF s
  unfold setupOptimizer at hsup ⊢
  unfold Gen.SrcC07.setup_optimizer
  rw [eff_bind]
  cases hp : parseFitting (fun v => mk (embV v)) fitting [] with
  | error e =>
    rw [fitOutcome_err hp hgen]
    rcases parseFitting_error _ _ _ _ hp with he | he <;> subst he <;> rfl
  | ok grp =>
    obtain ⟨D, hgD, hsim⟩ := fitOutcome_ok hp hgen
    rw [hgD]
    simp only [hp] at hsup ⊢
    cases hf : fittingOps grp with
    | none => simp [hf] at hsup
    | some fops =>
      simp only [hf] at hsup ⊢
      simp only [eff_bind, m_items_dict]
      generalize hR : Dyn.forM (m := FM α) _ _ _ s = R
      have key : R = (resU pexc (runStop s fops).2.1, (runStop s fops).1) := by
        rw [← hR]
        refine forM_fitOps pexc _ ?_ D grp fops hsim hf s
        intro n r d ops hrs hops
        obtain ⟨h1, h2, h3, h4, h5⟩ := hrs
        obtain ⟨b1, b2, b3⟩ := recOps_not_bad n r ops hops
        rw [recOps_eq n r ops hops]
        simp only [unpack2_fn, eff_pure_bind, getItem_fn _ _ _ _ _ _ h1, getItem_fn _ _ _ _ _ _ h2,
          getItem_fn _ _ _ _ _ _ h3, getItem_fn _ _ _ _ _ _ h4, getItem_fn _ _ _ _ _ _ h5, truthy_embV_fn, truthy_embO_fn]
        refine runSim_append pexc _ _ _ _ (stage_fit mk pexc _ n r) ?_
        refine runSim_append pexc _ _ _ _ (stage_factor mk pexc _ n r.factor b1) ?_
        refine runSim_append pexc _ _ _ _ (stage_bounds mk pexc _ n r.bounds b2) ?_
        refine runSim_append pexc _ _ _ _ (stage_mode mk pexc _ n r.mode b3) ?_
        exact stage_prior mk pexc _ n r.prior
      rw [key]
      cases ho : (runStop s fops).2.1 with
      | ok =>
        simp only [resU]
        have hder := src_generate_derived_parameters mk pexc c derive hD (runStop s fops).1
        cases hsd : splitAll derive with
        | none =>
          rw [dOutcome_none (by simp [hsd]) hder]
          rfl
        | some dl =>
          obtain ⟨D', hgD', hsim'⟩ := dOutcome_some (by simp [hsd]; rfl) hder
          rw [hgD']
          simp only [m_items_dict]
          generalize hR' : Dyn.forM (m := FM α) _ _ _ (runStop s fops).1 = R'
          have key' : R' = (resU pexc (runStop (runStop s fops).1 (deriveOps (deriveRecs dl []))).2.1,
              (runStop (runStop s fops).1 (deriveOps (deriveRecs dl []))).1) := by
            rw [← hR']
            refine forM_deriveOps pexc _ ?_ D' _ hsim' _
            intro n cv d hc
            simp only [unpack2_fn, eff_pure_bind, getItem_fn _ _ _ _ _ _ hc]
            exact stage_derive mk pexc _ n cv
          rw [key']
          cases (runStop (runStop s fops).1 (deriveOps (deriveRecs dl []))).2.1 <;> rfl
      | keyError => simp only [resU, resV, ho]
      | valueError => simp only [resU, resV, ho]
      | priorError => simp only [resU, resV, ho]
      | unsupported => simp only [resU, resV, ho]

/-- the sections of `cfgOf fitting derive` are `fitting` and `derive` -/
theorem secAt_cfgOf (fitting derive : List (String × OptVal α)) :
    SecAt (α := α) [(.str "Fitting", .dict (embSec fitting)), (.str "Derive", .dict (embSec derive))] "Fitting" fitting ∧
    SecAt (α := α) [(.str "Fitting", .dict (embSec fitting)), (.str "Derive", .dict (embSec derive))] "Derive" derive := by
  constructor <;> left <;> simp [dictGet?, beq_str]

end

end Taurex.C07Src
