/-
  C07 — source tie.  `TaurexModel/Gen/SrcC07.lean` is regenerated on every run by `harness/translate.py` (dialect `py`,
  harness/translate_py.py) from the source text of taurex/optimizer/optimizer.py: the module-level `compile_params` and the
  methods of `Optimizer` that set up and apply a retrieval.  The theorems below state that each regenerated definition, run
  on the Python-object layout of a model state (`Proofs/C07SrcLemmas.lean`: `fpDict` = `obj.fittingParameters`, a dict of
  tuples `(name, latex, fget, fset, mode, to_fit, bounds)`; `entryTuple` = an element of `fitting_parameters`; getters and
  setters are handles `(owner, name)` into the world `St`), computes exactly what `TaurexModel/OptimizerSM.lean` — the state
  machine `driver_c07` executes and the C07 theorems are about — computes: the same new containers, the same exception class.
  Generic in the names `ν`, the LaTeX type `L` and the carrier `α` (no algebra: they also hold for `Float`).

  Instantiation of what the translated text leaves open (function parameters of the generated definitions):
    prior objects `ρ := Prior α`; `Uniform(bounds=b) := mkUniform b.1 b.2`; `LogUniform(lin_bounds=b) := mkLogUniformLin …`
    (`ValueError` where the model has `none`); `p.priorMode := modeCode p.mode`; `p.prior(x) := p.back x` — these are tied to
    taurex/core/priors.py by Props/C08Src.lean; `math.log10 := log10?` (`ValueError` unless `0 < x`);
    `fget() := callGet s h`, `fset(x) := callSet s h x` for a handle `h = (owner, name)`.
  Hypotheses `(names _).Nodup` / `(_.map (·.1)).Nodup`: the keys of a Python dict are pairwise distinct.
-/
import Proofs.C07SrcLemmas
import TaurexModel.Ops.C07
set_option linter.unusedSectionVars false

namespace Taurex.C07Src
open Taurex.Priors Taurex.OptimizerSM Taurex.Gen Taurex.C07

section
variable {ν α L : Type} [DecidableEq ν] [Add α] [Sub α] [Mul α] [Div α] [Neg α] [LT α] [LE α]
  [DecidableLT α] [DecidableLE α] [Taurex.Transc α] [OfNat α 0]

/-- `Optimizer.enable_fit(parameter)` is `step s (.enableFit n)`: the two `fittingParameters` dicts afterwards and the
    exception (`KeyError` for an unknown name) are the model's -/
theorem src_enable_fit (lx : ν → L) (s : St ν α) (hm : (names s.model).Nodup) (ho : (names s.obs).Nodup) (n : ν) :
    Gen.SrcC07.Optimizer_enable_fit n (fpDict lx .model s.model) (fpDict lx .obs s.obs)
      = ((fpDict lx .model (step s (.enableFit n)).1.model, fpDict lx .obs (step s (.enableFit n)).1.obs),
         outE (step s (.enableFit n)).2) :=
  withParam_enc lx s n (fun p => { p with fit := true }) (fun _ => rfl) hm ho
    (fun v => (v.1, v.2.1, v.2.2.1, v.2.2.2.1, v.2.2.2.2.1, true, v.2.2.2.2.2.2)) (fun _ _ _ => rfl)

/-- `Optimizer.disable_fit(parameter)` is `step s (.disableFit n)` -/
theorem src_disable_fit (lx : ν → L) (s : St ν α) (hm : (names s.model).Nodup) (ho : (names s.obs).Nodup) (n : ν) :
    Gen.SrcC07.Optimizer_disable_fit n (fpDict lx .model s.model) (fpDict lx .obs s.obs)
      = ((fpDict lx .model (step s (.disableFit n)).1.model, fpDict lx .obs (step s (.disableFit n)).1.obs),
         outE (step s (.disableFit n)).2) :=
  withParam_enc lx s n (fun p => { p with fit := false }) (fun _ => rfl) hm ho
    (fun v => (v.1, v.2.1, v.2.2.1, v.2.2.2.1, v.2.2.2.2.1, false, v.2.2.2.2.2.2)) (fun _ _ _ => rfl)

/-- `Optimizer.set_boundary(parameter, new_boundaries)` is `step s (.setBoundary n b0 b1)` -/
theorem src_set_boundary (lx : ν → L) (s : St ν α) (hm : (names s.model).Nodup) (ho : (names s.obs).Nodup) (n : ν)
    (b0 b1 : α) :
    Gen.SrcC07.Optimizer_set_boundary n (b0, b1) (fpDict lx .model s.model) (fpDict lx .obs s.obs)
      = ((fpDict lx .model (step s (.setBoundary n b0 b1)).1.model, fpDict lx .obs (step s (.setBoundary n b0 b1)).1.obs),
         outE (step s (.setBoundary n b0 b1)).2) :=
  withParam_enc lx s n (fun p => { p with b0 := b0, b1 := b1 }) (fun _ => rfl) hm ho
    (fun v => (v.1, v.2.1, v.2.2.1, v.2.2.2.1, v.2.2.2.2.1, v.2.2.2.2.2.1, (b0, b1))) (fun _ _ _ => rfl)

/-- `Optimizer.set_factor_boundary(parameter, factors)` is `step s (.setFactorBoundary n f0 f1)`; the getter of the stored
    tuple is called in the world `s` -/
theorem src_set_factor_boundary (lx : ν → L) (s : St ν α) (hm : (names s.model).Nodup) (ho : (names s.obs).Nodup) (n : ν)
    (f0 f1 : α) :
    Gen.SrcC07.Optimizer_set_factor_boundary n (f0, f1) callGet (fpDict lx .model s.model) (fpDict lx .obs s.obs) s
      = ((fpDict lx .model (step s (.setFactorBoundary n f0 f1)).1.model,
          fpDict lx .obs (step s (.setFactorBoundary n f0 f1)).1.obs), outE (step s (.setFactorBoundary n f0 f1)).2) :=
  withParam_enc lx s n (fun p => { p with b0 := f0 * p.value, b1 := f1 * p.value }) (fun _ => rfl) hm ho
    (fun v => (v.1, v.2.1, v.2.2.1, v.2.2.2.1, v.2.2.2.2.1, v.2.2.2.2.2.1,
               (f0 * callGet s v.2.2.1, f1 * callGet s v.2.2.1)))
    (fun o p hp => by
      have hn : p.name = n := by simpa using List.find?_some hp
      simp [tupleOf, callGet, hn, getValue_of_find s o n p hp])

/-- `Optimizer.set_mode(parameter, new_mode)` is `step s (.setMode n m)`: `KeyError` for an unknown name, else `ValueError`
    for a string that is neither 'log' nor 'linear' after lower-casing, else the tuple is stored with the lower-cased string -/
theorem src_set_mode (lx : ν → L) (s : St ν α) (hm : (names s.model).Nodup) (ho : (names s.obs).Nodup) (n : ν) (m : String) :
    Gen.SrcC07.Optimizer_set_mode n m (fpDict lx .model s.model) (fpDict lx .obs s.obs)
      = ((fpDict lx .model (step s (.setMode n m)).1.model, fpDict lx .obs (step s (.setMode n m)).1.obs),
         outE (step s (.setMode n m)).2) := by
  cases hp : parseMode m with
  | some md =>
    have hstep : step s (.setMode n m) = withParam s n (fun p => { p with mode := md }) := by
      simp only [step, hp, withParam]
    rw [hstep, ← withParam_enc lx s n (fun p => { p with mode := md }) (fun _ => rfl) hm ho
      (fun v => (v.1, v.2.1, v.2.2.1, v.2.2.2.1, modeStr md, v.2.2.2.2.2.1, v.2.2.2.2.2.2)) (fun _ _ _ => rfl)]
    unfold Gen.SrcC07.Optimizer_set_mode
    simp only [Py.lower, parseMode_some m md hp, modeStr_valid, Bool.not_true, Bool.false_eq_true, if_false]
  | none =>
    unfold Gen.SrcC07.Optimizer_set_mode
    simp only []
    rcases lookup_enc lx s n with ⟨p, _, _, hh, hd⟩ | ⟨hh, hd⟩
    · rw [hd]
      simp [Py.lower, parseMode_none m hp, step, hh, hp, outE]
    · rw [hd]
      simp [step, hh, outE]

/-- `Optimizer.set_prior(parameter, prior)` is `step s (.setPrior n p)`: `ValueError` for an unknown name, else the prior is
    stored in `_user_priors` and in `_fit_priors` -/
theorem src_set_prior (lx : ν → L) (s : St ν α) (n : ν) (p : Prior α) :
    Gen.SrcC07.Optimizer_set_prior n p s.fitPriors (fpDict lx .model s.model) (fpDict lx .obs s.obs) s.userPriors
      = (((step s (.setPrior n p)).1.userPriors, (step s (.setPrior n p)).1.fitPriors), outE (step s (.setPrior n p)).2) := by
  unfold Gen.SrcC07.Optimizer_set_prior
  simp only [dhas_owner, dset_eq_tset, step]
  cases hasName (table s (ownerOf s n)) n <;> simp [outE]

/-- `set_prior` leaves both parameter tables (and everything else but the two prior dicts) as they are -/
theorem src_set_prior_frame (s : St ν α) (n : ν) (p : Prior α) :
    (step s (.setPrior n p)).1 = { s with userPriors := (step s (.setPrior n p)).1.userPriors,
                                          fitPriors := (step s (.setPrior n p)).1.fitPriors } := by
  simp only [step]
  cases hasName (table s (ownerOf s n)) n <;> rfl

/-- the common shape of `enable_derived` / `disable_derived` on the dict layout is the model's `withDerived` -/
theorem src_with_derived (lx : ν → L) (s : St ν α) (hm : (s.dmodel.map (·.name)).Nodup) (ho : (s.dobs.map (·.name)).Nodup)
    (n : ν) (c : Bool) :
    Py.caseE (Py.dgetE (if (if Py.dhas (dpDict lx .model s.dmodel) n then 0 else 1 : Nat) = 0
                      then dpDict lx .model s.dmodel else dpDict lx .obs s.dobs) n)
      (fun e => ((dpDict lx .model s.dmodel, dpDict lx .obs s.dobs), (Except.error e : Except Py.Err Unit)))
      (fun v =>
       ((if (if Py.dhas (dpDict lx .model s.dmodel) n then 0 else 1 : Nat) = 0
           then Py.dset (dpDict lx .model s.dmodel) n (v.1, v.2.1, v.2.2.1, c) else dpDict lx .model s.dmodel,
         if (if Py.dhas (dpDict lx .model s.dmodel) n then 0 else 1 : Nat) = 1
           then Py.dset (dpDict lx .obs s.dobs) n (v.1, v.2.1, v.2.2.1, c) else dpDict lx .obs s.dobs), Except.ok ()))
      = ((dpDict lx .model (withDerived s n c).1.dmodel, dpDict lx .obs (withDerived s n c).1.dobs),
         outE (withDerived s n c).2) := by
  rw [dhas_dpDict]
  cases hmn : hasDerived s.dmodel n with
  | true =>
    obtain ⟨d, hd, _⟩ := findD_of_hasDerived s.dmodel n hmn
    have hg : Py.dgetE (dpDict lx .model s.dmodel) n = .ok (dtupleOf lx .model d) :=
      dgetE_of_get _ _ _ (by rw [dget_dpDict, hd]; rfl)
    simp only [if_true, hg, Py.caseE_ok]
    have := dset_dpDict lx .model n c s.dmodel d hm hd
    simp only [dtupleOf] at this ⊢
    rw [this]
    simp [withDerived, hmn, outE]
  | false =>
    simp only [Bool.false_eq_true, if_false, Nat.succ_ne_self, if_true]
    cases hon : hasDerived s.dobs n with
    | true =>
      obtain ⟨d, hd, _⟩ := findD_of_hasDerived s.dobs n hon
      have hg : Py.dgetE (dpDict lx .obs s.dobs) n = .ok (dtupleOf lx .obs d) :=
        dgetE_of_get _ _ _ (by rw [dget_dpDict, hd]; rfl)
      simp only [hg, Py.caseE_ok]
      have := dset_dpDict lx .obs n c s.dobs d ho hd
      simp only [dtupleOf] at this ⊢
      rw [this]
      simp [withDerived, hmn, hon, outE]
    | false =>
      have hg : Py.dgetE (dpDict lx .obs s.dobs) n = .error .keyError :=
        dgetE_of_none _ _ (by rw [dget_dpDict, findD_none s.dobs n hon]; rfl)
      simp only [hg, Py.caseE_error]
      simp [withDerived, hmn, hon, outE]

/-- `Optimizer.enable_derived(parameter)` is `step s (.enableDerived n)` -/
theorem src_enable_derived (lx : ν → L) (s : St ν α) (hm : (s.dmodel.map (·.name)).Nodup) (ho : (s.dobs.map (·.name)).Nodup)
    (n : ν) :
    Gen.SrcC07.Optimizer_enable_derived n (dpDict lx .model s.dmodel) (dpDict lx .obs s.dobs)
      = ((dpDict lx .model (step s (.enableDerived n)).1.dmodel, dpDict lx .obs (step s (.enableDerived n)).1.dobs),
         outE (step s (.enableDerived n)).2) :=
  src_with_derived lx s hm ho n true

/-- `Optimizer.disable_derived(parameter)` is `step s (.disableDerived n)` -/
theorem src_disable_derived (lx : ν → L) (s : St ν α) (hm : (s.dmodel.map (·.name)).Nodup) (ho : (s.dobs.map (·.name)).Nodup)
    (n : ν) :
    Gen.SrcC07.Optimizer_disable_derived n (dpDict lx .model s.dmodel) (dpDict lx .obs s.dobs)
      = ((dpDict lx .model (step s (.disableDerived n)).1.dmodel, dpDict lx .obs (step s (.disableDerived n)).1.dobs),
         outE (step s (.disableDerived n)).2) :=
  src_with_derived lx s hm ho n false

/-- `Optimizer.derived_names` on the compiled derived tuples -/
theorem src_derived_names (lx : ν → L) (dm dob : List (Derived ν)) :
    Gen.SrcC07.Optimizer_derived_names (derivedTuples lx .model dm ++ derivedTuples lx .obs dob)
      = derivedOf dm ++ derivedOf dob := by
  simp [Gen.SrcC07.Optimizer_derived_names, derivedTuples_names]

/-- **`Optimizer.update_model(fit_params)` is `step s (.updateModel v)`**: `ValueError` for a vector of the wrong length
    (world untouched), else every setter of the compiled rows is called with `prior.prior(value)`, in order -/
theorem src_update_model (lx : ν → L) (s : St ν α) (v : List α) :
    Gen.SrcC07.Optimizer_update_model v callSet (s.compiled.map (entryTuple lx)) s.compiledPriors Prior.back s
      = ((step s (.updateModel v)).1, outE (step s (.updateModel v)).2) := by
  unfold Gen.SrcC07.Optimizer_update_model
  simp only [step, updateModel, List.length_map]
  by_cases h : v.length = s.compiled.length
  · simp only [h, decide_true, Bool.not_true, Bool.false_eq_true, if_false, ne_eq, not_true_eq_false]
    rw [foldl_update lx s.compiled s.compiledPriors v s]
    rfl
  · simp [h, outE]

/-- `Optimizer.fit_values` is `fitValues s` (`ValueError` of `math.log10` where the model has `none`), in any state whose
    compiled rows refer to existing parameters (`compiled_invariant` in Props/C07.lean: every state reached from a fresh
    optimizer) -/
theorem src_fit_values (lx : ν → L) (s : St ν α)
    (hex : ∀ e ∈ s.compiled, (getValue s e.owner e.name).isSome = true) :
    Gen.SrcC07.Optimizer_fit_values callGet (s.compiled.map (entryTuple lx)) s.compiledPriors mathLog10
        (fun p => modeCode p.mode) s = optE .valueError (fitValues s) :=
  mapE_fit_values lx s s.compiled s.compiledPriors hex

/-- `Optimizer.fit_boundaries` is `fitBoundaries s` -/
theorem src_fit_boundaries (lx : ν → L) (s : St ν α) :
    Gen.SrcC07.Optimizer_fit_boundaries (s.compiled.map (entryTuple lx)) s.compiledPriors mathLog10
        (fun p => modeCode p.mode) = optE .valueError (fitBoundaries s) :=
  mapE_fit_boundaries lx s.compiled s.compiledPriors

/-- **module-level `compile_params(fitparams, driveparams, fit_priors)`, success**: when the model's `compileTable` returns
    rows, the translated function returns exactly them — the compiled tuples, their priors, the prior dict with the default
    priors recorded, the derived tuples with the compute flag set — and leaves the in/out argument `fit_priors` equal to the
    returned dict (`_fit_priors = fit_priors or {}`: the SAME object) unless it was empty (then a fresh dict was filled and
    the argument stays empty) -/
theorem src_compile_params_ok (lx : ν → L) (o : Owner) (ps : List (Param ν α)) (ds : List (Derived ν)) (tbl : Table ν α)
    (r : List (Entry ν α) × List (Prior α) × Table ν α) (hc : compileTable o ps tbl = some r) :
    Gen.SrcC07.compile_params (fpDict lx o ps) (dpDict lx o ds) tbl logUniformLin uniformBounds
      = (if tbl.isEmpty then tbl else r.2.2,
         Except.ok (r.1.map (entryTuple lx), r.2.1, r.2.2, derivedTuples lx o ds)) := by
  unfold Gen.SrcC07.compile_params
  simp only [values_fpDict, values_dpDict]
  by_cases he : tbl.isEmpty = true
  · have ht : tbl = [] := List.isEmpty_iff.1 he
    subst ht
    simp only [List.isEmpty_nil, Bool.not_true, Bool.false_eq_true, if_false, if_true]
    rw [forE_compile_some lx o _ ?_ ps [] [] _ r hc]
    rw [foldl_derived lx o _ ?_ ds []]
    · simp
    · intro acc d; rfl
    · fit_step
  · simp only [he, Bool.not_false, if_true, Bool.false_eq_true, if_false]
    rw [forE_compile_some lx o _ ?_ ps [] [] _ r hc]
    rw [foldl_derived lx o _ ?_ ds []]
    · simp
    · intro acc d; rfl
    · fit_step

/-- **module-level `compile_params`, failure**: when `compileTable` is `none` (a log-mode parameter with a non-positive
    bound and no prior of its own), the translated function raises `ValueError`; a non-empty in/out dict has by then
    received the default priors `extra` built before the failure, all under names it did not have -/
theorem src_compile_params_error (lx : ν → L) (o : Owner) (ps : List (Param ν α)) (ds : List (Derived ν)) (tbl : Table ν α)
    (hc : compileTable o ps tbl = none) :
    ∃ extra, Gen.SrcC07.compile_params (fpDict lx o ps) (dpDict lx o ds) tbl logUniformLin uniformBounds
      = (if tbl.isEmpty then tbl else tbl ++ extra, Except.error Py.Err.valueError) ∧
      ∀ kv ∈ extra, tget tbl kv.1 = none := by
  unfold Gen.SrcC07.compile_params
  simp only [values_fpDict, values_dpDict]
  by_cases he : tbl.isEmpty = true
  · have ht : tbl = [] := List.isEmpty_iff.1 he
    subst ht
    simp only [List.isEmpty_nil, Bool.not_true, Bool.false_eq_true, if_false, if_true]
    generalize hR : Py.forE _ _ _ = R
    have key : ∃ ae' ap' extra, R = ((ae', ap', ([] : Table ν α) ++ extra), some Py.Err.valueError) ∧
        ∀ kv ∈ extra, tget ([] : Table ν α) kv.1 = none := by
      rw [← hR]; exact forE_compile_none lx o _ (by fit_step) ps [] [] _ hc
    obtain ⟨ae', ap', extra, hfor, _⟩ := key
    subst hfor
    exact ⟨[], by simp, by simp⟩
  · simp only [he, Bool.not_false, if_true, Bool.false_eq_true, if_false]
    generalize hR : Py.forE _ _ _ = R
    have key : ∃ ae' ap' extra, R = ((ae', ap', tbl ++ extra), some Py.Err.valueError) ∧
        ∀ kv ∈ extra, tget tbl kv.1 = none := by
      rw [← hR]; exact forE_compile_none lx o _ (by fit_step) ps [] [] _ hc
    obtain ⟨ae', ap', extra, hfor, hx⟩ := key
    subst hfor
    exact ⟨extra, by simp, hx⟩

/-- `d.update(e)` where `d` is `e` itself or empty (the two aliasing cases of `_fit_priors = fit_priors or {}`) -/
theorem dupdate_alias (tbl t : Table ν α) (hn : (t.map (·.1)).Nodup) :
    Py.dupdate (if tbl.isEmpty then tbl else t) t = t := by
  by_cases he : tbl.isEmpty = true
  · have ht : tbl = [] := List.isEmpty_iff.1 he
    subst ht
    simpa using dupdate_nil t hn
  · simp only [he, Bool.false_eq_true, if_false]
    exact dupdate_self t hn

/-- **`Optimizer.compile_params()`, success, is `step s .compile`**: `_fit_priors`, `fitting_parameters`, `fitting_priors`
    afterwards are the model's `fitPriors`, `compiled` (as tuples), `compiledPriors`; `derived_parameters` are the tuples of
    the derived parameters with the compute flag, whose names are the model's `derivedCompiled` -/
theorem src_Optimizer_compile_params_ok (lx : ν → L) (s : St ν α) (hu : (s.userPriors.map (·.1)).Nodup)
    (hok : (step s .compile).2 = .ok) :
    Gen.SrcC07.Optimizer_compile_params logUniformLin uniformBounds (dpDict lx .model s.dmodel) (fpDict lx .model s.model)
        (dpDict lx .obs s.dobs) (fpDict lx .obs s.obs) s.userPriors
      = (((step s .compile).1.fitPriors, (step s .compile).1.compiled.map (entryTuple lx),
          (step s .compile).1.compiledPriors, derivedTuples lx .model s.dmodel ++ derivedTuples lx .obs s.dobs),
         Except.ok ()) ∧
    (derivedTuples lx .model s.dmodel ++ derivedTuples lx .obs s.dobs).map (·.1) = (step s .compile).1.derivedCompiled := by
  simp only [step, compile] at hok ⊢
  cases h1 : compileTable .model s.model s.userPriors with
  | none => simp [h1] at hok
  | some r1 =>
    obtain ⟨es, ps, t⟩ := r1
    simp only [h1] at hok ⊢
    cases h2 : compileTable .obs s.obs t with
    | none => simp [h2] at hok
    | some r2 =>
      obtain ⟨es', ps', t'⟩ := r2
      have hn1 := compileTable_nodup .model s.model _ _ h1 hu
      have hn2 := compileTable_nodup .obs s.obs _ _ h2 hn1
      refine ⟨?_, by simp [derivedTuples_names]⟩
      unfold Gen.SrcC07.Optimizer_compile_params
      simp only [src_compile_params_ok lx .model s.model s.dmodel s.userPriors _ h1, Py.caseE_ok,
        dupdate_alias s.userPriors t hn1, src_compile_params_ok lx .obs s.obs s.dobs t _ h2,
        dupdate_alias t t' hn2, List.map_append]

/-- **`Optimizer.compile_params()`, failure**: the exception is the model's (`ValueError`), `fitting_parameters`,
    `fitting_priors` and the names of `derived_parameters` are left as the model leaves them.  `_fit_priors` is the model's
    `fitPriors` PLUS the default priors `extra` the failing `compile_params` call had already stored through the shared
    dict (`_fit_priors = fit_priors or {}` is the caller's own dict when it is non-empty), all under names the model's table
    does not have: every look-up that succeeds in the model's table gives the same prior here.  (The model does not record
    these extra entries; they are dropped by the next `compile_params`, which starts from `_user_priors`.) -/
theorem src_Optimizer_compile_params_error (lx : ν → L) (s : St ν α) (hu : (s.userPriors.map (·.1)).Nodup)
    (herr : (step s .compile).2 ≠ .ok) :
    ∃ extra D,
      Gen.SrcC07.Optimizer_compile_params logUniformLin uniformBounds (dpDict lx .model s.dmodel) (fpDict lx .model s.model)
          (dpDict lx .obs s.dobs) (fpDict lx .obs s.obs) s.userPriors
        = (((step s .compile).1.fitPriors ++ extra, (step s .compile).1.compiled.map (entryTuple lx),
            (step s .compile).1.compiledPriors, D), outE (step s .compile).2) ∧
      D.map (·.1) = (step s .compile).1.derivedCompiled ∧
      ∀ kv ∈ extra, tget (step s .compile).1.fitPriors kv.1 = none := by
  simp only [step, compile] at herr ⊢
  cases h1 : compileTable .model s.model s.userPriors with
  | none =>
    obtain ⟨extra, hgen, hx⟩ := src_compile_params_error lx .model s.model s.dmodel s.userPriors h1
    refine ⟨if s.userPriors.isEmpty then [] else extra, [], ?_, rfl, ?_⟩
    · unfold Gen.SrcC07.Optimizer_compile_params
      simp only [hgen, Py.caseE_error, outE]
      by_cases he : s.userPriors.isEmpty = true <;> simp [he]
    · intro kv hkv
      by_cases he : s.userPriors.isEmpty = true
      · simp [he] at hkv
      · simp only [he, Bool.false_eq_true, if_false] at hkv
        exact hx kv hkv
  | some r1 =>
    obtain ⟨es, ps, t⟩ := r1
    simp only [h1] at herr ⊢
    have hn1 := compileTable_nodup .model s.model _ _ h1 hu
    cases h2 : compileTable .obs s.obs t with
    | some r2 => simp [h2] at herr
    | none =>
      obtain ⟨extra, hgen, hx⟩ := src_compile_params_error lx .obs s.obs s.dobs t h2
      refine ⟨if t.isEmpty then [] else extra, derivedTuples lx .model s.dmodel, ?_, derivedTuples_names lx .model s.dmodel, ?_⟩
      · unfold Gen.SrcC07.Optimizer_compile_params
        simp only [src_compile_params_ok lx .model s.model s.dmodel s.userPriors _ h1, Py.caseE_ok,
          dupdate_alias s.userPriors t hn1, hgen, Py.caseE_error, outE]
        by_cases he : t.isEmpty = true <;> simp [he]
      · intro kv hkv
        by_cases he : t.isEmpty = true
        · simp [he] at hkv
        · simp only [he, Bool.false_eq_true, if_false] at hkv
          exact hx kv hkv

/-- `compile_params` reads the two parameter tables, the derived tables and `_user_priors`, and assigns only the four
    attributes above: the model's step leaves everything else as it is -/
theorem src_Optimizer_compile_params_frame (s : St ν α) :
    (step s .compile).1 = { s with fitPriors := (step s .compile).1.fitPriors, compiled := (step s .compile).1.compiled,
                                   compiledPriors := (step s .compile).1.compiledPriors,
                                   derivedCompiled := (step s .compile).1.derivedCompiled } := by
  simp only [step, compile]
  cases h1 : compileTable .model s.model s.userPriors with
  | none => rfl
  | some r1 =>
    obtain ⟨es, ps, t⟩ := r1
    simp only []
    cases h2 : compileTable .obs s.obs t <;> rfl

/-- the five tuple-rewriting methods read and write nothing but the two `fittingParameters` dicts (and call a getter):
    the model's `withParam` step leaves every other component and every parameter VALUE (the world) as it is -/
theorem src_table_ops_frame (s : St ν α) (n : ν) (f : Param ν α → Param ν α) (hn : ∀ p, (f p).name = p.name)
    (hv : ∀ p, (f p).value = p.value) :
    (withParam s n f).1 = { s with model := (withParam s n f).1.model, obs := (withParam s n f).1.obs } ∧
    ∀ o m, getValue (withParam s n f).1 o m = getValue s o m := by
  have key : ∀ (ps : List (Param ν α)) (m : ν),
      ((modifyParam ps n f).find? (fun p => decide (p.name = m))).map (·.value)
        = (ps.find? (fun p => decide (p.name = m))).map (·.value) := by
    intro ps m
    induction ps with
    | nil => rfl
    | cons q ps ih =>
      rw [modifyParam_cons]
      by_cases hq : q.name = n
      · simp only [hq, if_true]
        by_cases hm : q.name = m
        · simp only [List.find?_cons, hn, hm, decide_true, Option.map_some, hv]
        · simp only [List.find?_cons, hn, hm, decide_false]
          exact ih
      · simp only [hq, if_false]
        by_cases hm : q.name = m
        · simp only [List.find?_cons, hm, decide_true]
        · simp only [List.find?_cons, hm, decide_false]
          exact ih
  unfold withParam
  by_cases hh : hasName (table s (ownerOf s n)) n = true
  · simp only [hh, if_true]
    cases ownerOf s n
    · exact ⟨rfl, fun o m => by cases o <;> simp [getValue, table, setTable, key]⟩
    · exact ⟨rfl, fun o m => by cases o <;> simp [getValue, table, setTable, key]⟩
  · simp [hh]

end

section
variable {α L : Type} [Add α] [Sub α] [Mul α] [Div α] [Neg α] [LT α] [LE α]
  [DecidableLT α] [DecidableLE α] [Taurex.Transc α] [OfNat α 0]

/-- `Optimizer.fit_names` (names are strings here: `'log_{}'.format(name)`) is `fitNames s` rendered by the driver's
    `fName`; `KeyError` of `_fit_priors[name]` where the model has `none` -/
theorem src_fit_names (lx : String → L) (s : St String α) :
    Gen.SrcC07.Optimizer_fit_names s.fitPriors (s.compiled.map (entryTuple lx)) (fun p => modeCode p.mode)
      = optE .keyError ((fitNames s).map (List.map Taurex.Ops.C07.fName)) := by
  unfold Gen.SrcC07.Optimizer_fit_names fitNames
  generalize s.compiled = es
  induction es with
  | nil => simp [fitNamesAux, optE]
  | cons e es ih =>
    rw [List.map_cons, Py.mapE_cons, ih]
    simp only [fitNamesAux, entryTuple, Py.dgetE, dget_eq_tget]
    cases hg : tget s.fitPriors e.name with
    | none => simp [optE]
    | some p =>
      cases fitNamesAux s.fitPriors es <;> cases hm : p.mode <;> simp [optE, modeCode, Taurex.Ops.C07.fName, hm]

end

end Taurex.C07Src
