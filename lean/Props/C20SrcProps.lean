/-
  C20 — the property theorems restated about the REGENERATED source.  `Props/C20Src.lean` proves that the definitions
  translated on every run from `contribute_ktau`, `contribute_tau`, `AbsorptionContribution.contribute` (both modes) and
  `EmissionModel.evaluate_emission_ktables` (with `contribute_ktau_emission`, `black_body`, the `contribute` methods of the
  non-molecular contributions) compute the model's `ktauRow`, `tauRowX`, `emissionK`; `Props/C20.lean` proves the property
  about these.  The corollaries below compose the two: they are statements about the text of the code as it is now, at
  the real carrier.

  What is composed (one wavenumber; arrays as the tie instantiates them: `fn l = fun i => l.getD i 0`, `at3 sigma3` =
  `sigma_xsec[:, wn, :]`, `ngauss = ws.length`)
    * `srcKRow sigma3 path dens ws n l tau` = entry `layer = l` of what the regenerated
      `contribute_ktau(0, n-l, l, …, tau, …, layer=l, ngauss)` returns (`= ktauRow … (tau l)`); `srcKtau …` the same on a
      zeroed row: the optical depth the k-path ADDS (`= ktau (tau_temp[g])_g ws`, the `taus` of the model theorems
      instantiated with the `tau_temp[g] = tauG … g` of the code).
    * `srcTransK … = exp(-srcKtau …)`: the transmittance `np.exp(-tau)` formed from that optical depth (as
      `compute_absorption` forms it).  `srcTransK_eq`: it is the model's `transK` — the loop-internal `transtemp`, which
      `contribute_ktau` does not return — for weights `≥ 0` summing to one (hypotheses kept visible).
    * `srcXRow sigma path dens n l tau` = entry `l` of the regenerated `contribute_tau(0, n-l, l, …, layer=l, tau)`
      (`= tauRowX … (tau l)`); `srcAbsK` / `srcAbsX` = the regenerated `AbsorptionContribution.contribute` with
      `_use_ktables` true / false.
    * `srcEmissionK …` = component `I` of the regenerated `evaluate_emission_ktables` for one wavenumber and one emission
      angle, instantiated as in `src_evaluate_emission_ktables` (`dispatchK`, `molK`: Python's dynamic dispatch resolved to
      the regenerated `contribute` methods).  The tie's hypothesis `0 + x = x` is discharged (ℝ).
  The right-hand sides `tauG` (in hypotheses and in the weighted sum), `avgSigma`, `intensityUncut` stay the model's: they
  are what the code is compared with.

  Not restated (no tie)
    * nothing is skipped outright.  `k_jensen`, `k_trans_unit`, `k_degenerate`, `k_tau_bounds` are stated in `Props/C20.lean`
      for an arbitrary list `taus`; the source only ever forms `taus = (tau_temp[g])_g`, so the corollaries are their
      instances at that list.  `k_avg_linear` keeps the model's `tauG` on its left-hand side (loop-internal) and has the
      regenerated `contribute_tau` on its right.
    * the ties `src_compute_absorption`, `src_black_body`, `src_contribute_ktau_emission`, `…_mu`, `…_w` have no theorem of
      `Props/C20.lean` about their model functions alone (`depth`, `planck`, `kRange` enter through `emissionK`).
-/
import Props.C20
import Props.C20Src
set_option linter.unusedSectionVars false

namespace Taurex.C20SrcProps
open Taurex.Emission Taurex.KTau Taurex.SrcLemmas Taurex.C20 Taurex.C20Src

/-! ### the instantiated source expressions -/

/-- `contribute_ktau(0, n-l, l, sigma, density, path, weights, tau, ngrid, l, ngauss)[l]`, regenerated source -/
noncomputable def srcKRow (sigma3 : List (List ℝ)) (path dens ws : List ℝ) (n l : ℕ) (tau : ℕ → ℝ) : ℝ :=
  Gen.SrcC20.contribute_ktau 0 (n - l) l (at3 sigma3) (fn dens) (fn path) (fn ws) tau l ws.length l

theorem srcKRow_eq (sigma3 : List (List ℝ)) (path dens ws : List ℝ) (n l : ℕ) (tau : ℕ → ℝ) :
    srcKRow sigma3 path dens ws n l tau = ktauRow sigma3 path dens ws n l (tau l) :=
  src_contribute_ktau sigma3 path dens ws n l tau

/-- what the regenerated `contribute_ktau` adds to a zeroed row: the optical depth of the k-path -/
noncomputable def srcKtau (sigma3 : List (List ℝ)) (path dens ws : List ℝ) (n l : ℕ) : ℝ :=
  srcKRow sigma3 path dens ws n l (fun _ => 0)

theorem srcKtau_eq (sigma3 : List (List ℝ)) (path dens ws : List ℝ) (n l : ℕ) :
    srcKtau sigma3 path dens ws n l = ktau ((List.range ws.length).map (tauG sigma3 path dens n l)) ws := by
  unfold srcKtau
  rw [srcKRow_eq]
  unfold ktauRow
  exact zero_add _

/-- the transmittance `exp(-tau)` of the optical depth the regenerated `contribute_ktau` adds -/
noncomputable def srcTransK (sigma3 : List (List ℝ)) (path dens ws : List ℝ) (n l : ℕ) : ℝ :=
  Real.exp (-(srcKtau sigma3 path dens ws n l))

theorem srcTransK_eq (sigma3 : List (List ℝ)) (path dens ws : List ℝ) (n l : ℕ)
    (hw0 : ∀ w ∈ ws, 0 ≤ w) (hw : ws.sum = 1) :
    srcTransK sigma3 path dens ws n l = transK ((List.range ws.length).map (tauG sigma3 path dens n l)) ws := by
  have hpos : 0 < transK ((List.range ws.length).map (tauG sigma3 path dens n l)) ws :=
    lt_of_lt_of_le (Real.exp_pos _) (k_jensen _ ws (by simp) hw0 hw)
  unfold srcTransK
  rw [srcKtau_eq]
  unfold ktau
  simp only [log_real, neg_neg]
  exact Real.exp_log hpos

/-- `contribute_tau(0, n-l, l, sigma, density, path, …, layer=l, tau)[l]`, regenerated source -/
noncomputable def srcXRow (sigma path dens : List ℝ) (n l : ℕ) (tau : ℕ → ℝ) : ℝ :=
  Gen.SrcC20.contribute_tau 0 (n - l) l (fn sigma) (fn dens) (fn path) l tau l

theorem srcXRow_eq (sigma path dens : List ℝ) (n l : ℕ) (tau : ℕ → ℝ) :
    srcXRow sigma path dens n l tau = tauRowX sigma path dens n l (tau l) :=
  src_contribute_tau sigma path dens n l tau

/-- `AbsorptionContribution.contribute` with `_use_ktables = True`, entry `l` of the returned `tau` -/
noncomputable def srcAbsK (sigma3 : List (List ℝ)) (path dens ws : List ℝ) (sx : ℕ → ℝ) (n l : ℕ) (tau : ℕ → ℝ) : ℝ :=
  Gen.SrcC20.absorption_contribute 0 (n - l) l l (fn dens) tau (fn path) ws.length (at3 sigma3) sx true (fn ws) l

/-- `AbsorptionContribution.contribute` with `_use_ktables = False` -/
noncomputable def srcAbsX (sk : ℕ → ℕ → ℝ) (sigma path dens : List ℝ) (w : ℕ → ℝ) (ng n l : ℕ) (tau : ℕ → ℝ) : ℝ :=
  Gen.SrcC20.absorption_contribute 0 (n - l) l l (fn dens) tau (fn path) ng sk (fn sigma) false w l

/-- component `I` of `EmissionModel.evaluate_emission_ktables`, one wavenumber `nu`, one emission angle `mq` -/
noncomputable def srcEmissionK (pi h c kb lit mq nu : ℝ) (nonmol : List (Kind × List ℝ)) (sigma3 : List (List ℝ))
    (ws dz dens temps : List ℝ) : ℝ :=
  Gen.SrcC20.evaluate_emission_ktables nu ws.length kb pi h c lit (dispatchK nonmol) (fn dz) (fn dens) true
    (molK sigma3 ws) mq temps.length nonmol.length (at3 sigma3) (fn temps) (fn ws)

theorem srcEmissionK_eq (pi h c kb lit mq nu : ℝ) (nonmol : List (Kind × List ℝ)) (sigma3 : List (List ℝ))
    (ws dz dens temps : List ℝ) :
    srcEmissionK pi h c kb lit mq nu nonmol sigma3 ws dz dens temps
      = emissionK (pcOf pi h c kb lit) nonmol sigma3 ws dz dens temps nu (1 / mq) :=
  src_evaluate_emission_ktables zero_add pi h c kb lit mq nu nonmol sigma3 ws dz dens temps

/-! ### the transmittance along a path -/

section path
variable (sigma3 : List (List ℝ)) (path dens ws : List ℝ) (n l : ℕ)

/-- **k_jensen**, about the regenerated `contribute_ktau`: the transmittance of the k-path is at least the exponential of
    the weight-averaged optical depth of its g-points -/
theorem src_k_jensen (hw0 : ∀ w ∈ ws, 0 ≤ w) (hw : ws.sum = 1) :
    Real.exp (-((((List.range ws.length).map (tauG sigma3 path dens n l)).zip ws).map (fun p => p.1 * p.2)).sum)
      ≤ srcTransK sigma3 path dens ws n l := by
  rw [srcTransK_eq sigma3 path dens ws n l hw0 hw]
  exact k_jensen _ ws (by simp) hw0 hw

/-- **k_trans_unit**, about the regenerated `contribute_ktau`: the transmittance along the path lies in `(0, 1]` for
    non-negative per-point optical depths -/
theorem src_k_trans_unit (hw0 : ∀ w ∈ ws, 0 ≤ w) (hw : ws.sum = 1)
    (ht : ∀ g < ws.length, 0 ≤ tauG sigma3 path dens n l g) :
    0 < srcTransK sigma3 path dens ws n l ∧ srcTransK sigma3 path dens ws n l ≤ 1 := by
  rw [srcTransK_eq sigma3 path dens ws n l hw0 hw]
  refine k_trans_unit _ ws (by simp) hw0 hw ?_
  intro t htm
  simp only [List.mem_map, List.mem_range] at htm
  obtain ⟨g, hg, rfl⟩ := htm
  exact ht g hg

/-- **k_tau_bounds**, about the regenerated `contribute_ktau`: the optical depth it adds is non-negative and at most the
    weight-averaged optical depth -/
theorem src_k_tau_bounds (hw0 : ∀ w ∈ ws, 0 ≤ w) (hw : ws.sum = 1)
    (ht : ∀ g < ws.length, 0 ≤ tauG sigma3 path dens n l g) :
    0 ≤ srcKtau sigma3 path dens ws n l ∧
    srcKtau sigma3 path dens ws n l
      ≤ ((((List.range ws.length).map (tauG sigma3 path dens n l)).zip ws).map (fun p => p.1 * p.2)).sum := by
  rw [srcKtau_eq]
  refine k_tau_bounds _ ws (by simp) hw0 hw ?_
  intro t htm
  simp only [List.mem_map, List.mem_range] at htm
  obtain ⟨g, hg, rfl⟩ := htm
  exact ht g hg

/-- **k_degenerate**, about the regenerated `contribute_ktau`: all g-points carry the same optical depth `τ` ⇒ it adds
    exactly `τ`, for any weights summing to one -/
theorem src_k_degenerate (τ : ℝ) (hall : ∀ g < ws.length, tauG sigma3 path dens n l g = τ) (hw : ws.sum = 1) :
    srcKtau sigma3 path dens ws n l = τ := by
  rw [srcKtau_eq]
  refine k_degenerate _ ws τ (by simp) ?_ hw
  intro t htm
  simp only [List.mem_map, List.mem_range] at htm
  obtain ⟨g, hg, rfl⟩ := htm
  exact hall g hg

/-- **k_avg_linear**, right-hand side the regenerated `contribute_tau` (on a zeroed row): the weight-averaged optical
    depth of the g-points is the optical depth of the weight-averaged coefficient used as a cross-section -/
theorem src_k_avg_linear :
    ((((List.range ws.length).map (tauG sigma3 path dens n l)).zip ws).map (fun p => p.1 * p.2)).sum
      = srcXRow ((List.range n).map (avgSigma sigma3 ws)) path dens n l (fun _ => 0) := by
  rw [srcXRow_eq]; exact k_avg_linear sigma3 path dens ws n l

/-- **k_jensen_row**, about the regenerated `contribute_ktau` and `contribute_tau`: the k-transmittance of a tangent layer
    is at least the transmittance obtained from the weight-averaged coefficient used as a cross-section -/
theorem src_k_jensen_row (hw0 : ∀ w ∈ ws, 0 ≤ w) (hw : ws.sum = 1) :
    Real.exp (-(srcXRow ((List.range n).map (avgSigma sigma3 ws)) path dens n l (fun _ => 0)))
      ≤ srcTransK sigma3 path dens ws n l := by
  rw [srcTransK_eq sigma3 path dens ws n l hw0 hw, srcXRow_eq]
  exact k_jensen_row sigma3 path dens ws n l hw0 hw

end path

/-! ### degenerate k-distribution = cross-sections -/

/-- **k_degenerate_row**, about the regenerated kernels: with coefficients identical across g, `contribute_ktau` leaves in
    `tau[l]` exactly what `contribute_tau` leaves for the same numbers used as a cross-section -/
theorem src_k_degenerate_row (sigma3 : List (List ℝ)) (sigma path dens ws : List ℝ) (n l : ℕ) (tau : ℕ → ℝ)
    (hdeg : ∀ k g, g < ws.length → at3 sigma3 k g = sigma.getD k 0) (hw : ws.sum = 1) :
    srcKRow sigma3 path dens ws n l tau = srcXRow sigma path dens n l tau := by
  rw [srcKRow_eq, srcXRow_eq]
  exact k_degenerate_row sigma3 sigma path dens ws n l (tau l) hdeg hw

/-- **k_degenerate_row**, about the regenerated `AbsorptionContribution.contribute`: the k-table mode and the cross-section
    mode of the method leave the same `tau[l]` (whatever the unused table of the other mode holds) -/
theorem src_k_degenerate_contribute (sigma3 : List (List ℝ)) (sigma path dens ws : List ℝ) (sx w : ℕ → ℝ)
    (sk : ℕ → ℕ → ℝ) (ng n l : ℕ) (tau : ℕ → ℝ)
    (hdeg : ∀ k g, g < ws.length → at3 sigma3 k g = sigma.getD k 0) (hw : ws.sum = 1) :
    srcAbsK sigma3 path dens ws sx n l tau = srcAbsX sk sigma path dens w ng n l tau := by
  unfold srcAbsK srcAbsX
  rw [src_absorption_contribute_k, src_absorption_contribute_x]
  exact k_degenerate_row sigma3 sigma path dens ws n l (tau l) hdeg hw

/-- **k_degenerate_emission**, about the regenerated `evaluate_emission_ktables`: with coefficients identical across g
    (weights summing to one) the k-table intensity equals the documented (unclamped) integral of the cross-section model
    on the same numbers, the molecular absorption entering as an ordinary `σ·dz·ρ` contribution -/
theorem src_k_degenerate_emission (pi h c kb lit mq nu : ℝ) (nonmol : List (Kind × List ℝ)) (sigma3 : List (List ℝ))
    (sigma ws dz dens temps : List ℝ)
    (hdeg : ∀ j g, g < ws.length → at3 sigma3 j g = sigma.getD j 0) (hw : ws.sum = 1) :
    srcEmissionK pi h c kb lit mq nu nonmol sigma3 ws dz dens temps
      = intensityUncut (pcOf pi h c kb lit) dz dens temps (1 / mq) ⟨nu, (Kind.lin, sigma) :: nonmol⟩ := by
  rw [srcEmissionK_eq]
  exact k_degenerate_emission (pcOf pi h c kb lit) nonmol sigma3 sigma ws dz dens temps nu (1 / mq) hdeg hw

/-- **k_emission_without_molecules**, about the regenerated `evaluate_emission_ktables` with `molecule_absorption is None`
    (no AbsorptionContribution in the list; the non-molecular entries of `model_contrib()`): the k-table path returns the
    documented (unclamped) integral of the cross-section model over the same contributions, whatever k-tables are
    installed (`molc`, `sk`, `w`, `ng` stand for what the code then does not read) -/
theorem src_k_emission_without_molecules (pi h c kb lit mq nu : ℝ) (contribs : List (Kind × List ℝ))
    (dz dens temps : List ℝ) (ng : ℕ) (molc : ℕ → ℕ → ℕ → ℕ → (ℕ → ℝ) → ℝ → (ℕ → ℝ) → ℝ) (sk : ℕ → ℕ → ℝ) (w : ℕ → ℝ) :
    Gen.SrcC20.evaluate_emission_ktables nu ng kb pi h c lit (dispatchK contribs) (fn dz) (fn dens) false
        molc mq temps.length contribs.length sk (fn temps) w
      = intensityUncut (pcOf pi h c kb lit) dz dens temps (1 / mq) ⟨nu, contribs⟩ := by
  rw [src_evaluate_emission_ktables_nomol]
  exact k_emission_without_molecules (pcOf pi h c kb lit) contribs dz dens temps nu (1 / mq)

end Taurex.C20SrcProps
