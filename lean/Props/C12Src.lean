/-
  C12 — source tie.  `TaurexModel/Gen/SrcC12.lean` is regenerated on every run by `harness/translate.py` (idioms of
  `harness/translate_arr.py`) from the source text of taurex/data/profiles/temperature/isothermal.py and guillot.py.  The
  theorems below state, for EVERY carrier (no algebra is used), that each regenerated definition is the hand-written model
  function of `TaurexModel/Temperature.lean` that the C12 theorems are about and that `driver_c12` executes.
  Hypotheses on externals / on the order are explicit:
    * `hpow : ∀ x, rpow x c = sqrt (sqrt x)` — the model's reading of `T4 ** 0.25` (ASSUMPTIONS of harness/c12.py);
    * `hle : ∀ a b, a ≤ b ↔ ¬ b < a` — the carrier's order is total (ℝ, ℚ, floats without NaN): the code tests `x == 0.0`
      (IEEE equality = `x ≤ 0 ∧ 0 ≤ x`), the model tests `¬ x < 0 ∧ ¬ 0 < x`; they differ only for NaN parameters, which
      are outside the property's quantifier.
    * the functions translated in the dialect `seq` (harness/translate_seq.py: `taurex.util.movingaverage`, the WHOLE
      `NPoint.profile`, `TemperatureArray.__init__` / `profile`) keep arrays as lists of run-time length and raise where
      Python / numpy raise (`Except.error "InvalidTemperatureException"`, `"ValueError"`); `outcomeOf` reads that as the
      model's `Outcome`.  Externals are instantiated with the model's `npInterp` / `linspace` (TaurexModel/NpInterp.lean),
      Python's `int()` / int → float are the parameters `pyInt` / `toF`, whose properties are explicit hypotheses (`hF`, `hw`,
      `hhalf`); the cumsum trick of `movingaverage` equals the model's window means over ℝ only (`src_movingaverage`), it
      enters the generic `src_npoint_profile` as the hypothesis `hma`.
  A source change that alters one of these functions makes the corresponding theorem fail to check.
-/
import TaurexModel.Gen.SrcC12
import TaurexModel.Temperature
import Proofs.C10Src
import Proofs.SeqSrcReal
set_option linter.unusedSectionVars false

namespace Taurex.C12Src
open Taurex Taurex.NpInterp Taurex.Temperature
open Taurex.C10Src (listOf listOf_map listOf_congr listOf_getD zipWith_listOf listOf_length foldl_congr_mem)
open Taurex.SeqSrc (outcomeOf outcomeOf_ok assemble_tie assemble_side ma_cumsum)

section
variable {α : Type} [Add α] [Sub α] [Mul α] [Div α] [Neg α] [LT α] [LE α]
  [DecidableLT α] [DecidableLE α] [Taurex.Transc α] [OfNat α 0] [OfNat α 1] [OfNat α 2] [OfNat α 3] [OfNat α 4]

/-- `Isothermal.profile` (`T = np.zeros(nlayers); T[:] = T_iso`) is `isothermal`, entry by entry.  Generic. -/
theorem src_isothermal (t : α) (n i : Nat) (hi : i < n) :
    Gen.SrcC12.isothermal_profile t n i = (isothermal t n).getD i 0 := by
  simp [Gen.SrcC12.isothermal_profile, isothermal, List.getD_eq_getElem?_getD, hi]

/-- IEEE `x == 0` against the model's `isZero`, on a totally ordered carrier -/
theorem eq_zero_iff_isZero (hle : ∀ a b : α, a ≤ b ↔ ¬ b < a) (x : α) :
    (decide (x ≤ (0 : α)) && decide ((0 : α) ≤ x)) = isZero x := by
  unfold isZero
  by_cases h1 : x < 0 <;> by_cases h2 : (0 : α) < x <;> simp [hle, h1, h2]

/-- `Guillot2010._check_values` raises `InvalidModelException` exactly when the model says `rejected`
    (generic, for a total order `hle`). -/
theorem src_guillot_check (hle : ∀ a b : α, a ≤ b ↔ ¬ b < a) (q : GuillotParams α) :
    Gen.SrcC12.guillot_check_values q.tInt q.tIrr q.kappaIr q.kappaV1 q.kappaV2 = q.rejected := by
  unfold Gen.SrcC12.guillot_check_values GuillotParams.rejected
  simp only [eq_zero_iff_isZero hle]

/-- **the Guillot closed form for one layer**: `Guillot2010.profile` evaluated at one entry `p` of the pressure profile is
    `none` (InvalidModelException) when `_check_values` raises and otherwise `sqrt (sqrt T4)` with the model's `guillotT4`
    at `tau = kappa_ir * p / g`, the exponential integrals being `expn(2, gamma_i * tau)`.  Generic; both sides unfold to
    the same term once `T4 ** 0.25` is read as `sqrt (sqrt T4)` (`hpow`). -/
theorem src_guillot_layer (q : GuillotParams α) (g p c : α) (expn rpow : α → α → α)
    (hpow : ∀ x, rpow x c = sqrt (sqrt x)) :
    Gen.SrcC12.guillot_profile q.tInt q.tIrr q.alpha c expn q.kappaIr q.kappaV1 q.kappaV2 g p rpow
      = if Gen.SrcC12.guillot_check_values q.tInt q.tIrr q.kappaIr q.kappaV1 q.kappaV2 then none
        else some (sqrt (sqrt (guillotT4 q (q.kappaIr * p / g)
              (expn 2 (q.kappaV1 / q.kappaIr * (q.kappaIr * p / g)))
              (expn 2 (q.kappaV2 / q.kappaIr * (q.kappaIr * p / g)))))) := by
  unfold Gen.SrcC12.guillot_profile
  simp only [hpow]
  rfl

/-- **the whole profile**: the model `guillot` on a pressure list `P` (with `e21[l] = expn(2, gamma_1 tau_l)`,
    `e22[l] = expn(2, gamma_2 tau_l)`, as the harness hands them in) is `invalid` exactly when the code raises for every
    layer, and otherwise its list holds, layer by layer, the value the code returns.  Generic (total order `hle`). -/
theorem src_guillot_profile (hle : ∀ a b : α, a ≤ b ↔ ¬ b < a) (q : GuillotParams α) (g c : α)
    (expn rpow : α → α → α) (hpow : ∀ x, rpow x c = sqrt (sqrt x)) (P : List α) :
    match guillot q g P (P.map fun p => expn 2 (q.kappaV1 / q.kappaIr * (q.kappaIr * p / g)))
        (P.map fun p => expn 2 (q.kappaV2 / q.kappaIr * (q.kappaIr * p / g))) with
    | .ok l => l.length = P.length ∧ ∀ i, i < P.length →
        Gen.SrcC12.guillot_profile q.tInt q.tIrr q.alpha c expn q.kappaIr q.kappaV1 q.kappaV2 g (P.getD i 0) rpow
          = some (l.getD i 0)
    | .invalid => ∀ p,
        Gen.SrcC12.guillot_profile q.tInt q.tIrr q.alpha c expn q.kappaIr q.kappaV1 q.kappaV2 g p rpow = none
    | .error => False := by
  unfold guillot
  by_cases hr : q.rejected = true
  · simp only [hr, if_true]
    intro p
    rw [src_guillot_layer q g p c expn rpow hpow, src_guillot_check hle, hr]
    rfl
  · simp only [hr]
    refine ⟨by simp, ?_⟩
    intro i hi
    rw [src_guillot_layer q g _ c expn rpow hpow, src_guillot_check hle]
    simp [hr, List.getD_eq_getElem?_getD, hi]

/-- **the node lists of `NPoint.profile`** (`Tnodes = [T_surface, *t_points, T_top]`, `Pnodes = [Psurface, *p_points, Ptop]`
    with an unset or negative `P_surface` / `P_top` replaced by the first / last entry of the pressure grid) are
    `NPointParams.tNodes` and `NPointParams.pNodes`.  Generic. -/
theorem src_npoint_nodes (q : NPointParams α) (pressure : List α) :
    Gen.SrcC12.npoint_nodes pressure.length q.pSurface q.pTop q.tSurface q.tTop q.pPoints
        (fun i => pressure.getD i 0) q.tPoints
      = (q.tNodes, q.pNodes pressure) := by
  unfold Gen.SrcC12.npoint_nodes NPointParams.tNodes NPointParams.pNodes resolveP
  cases q.pSurface <;> cases q.pTop <;> simp

/-! ### NPoint.check_profile -/

theorem any_range_succ (n : Nat) (f : Nat → Bool) :
    (List.range' 0 (n + 1)).any f = (f 0 || (List.range' 0 n).any (fun i => f (i + 1))) := by
  rw [List.range'_succ, List.any_cons, List.range'_succ_left, List.any_map]
  rfl

/-- the index loop `any(Ppt[i] <= Ppt[i+1] for i in range(len(Ppt)-1))` is the model's recursion over the node list -/
theorem any_inverted (l : List α) :
    (List.range' 0 (l.length - 1)).any (fun i => decide (l.getD i 0 ≤ l.getD (i + 1) 0)) = pressureInverted l := by
  induction l with
  | nil => rfl
  | cons a t ih =>
    cases t with
    | nil => rfl
    | cons b t =>
      simp only [List.length_cons, Nat.add_sub_cancel] at ih ⊢
      rw [any_range_succ, pressureInverted, ← ih]
      rfl

theorem any_slope (limit : α) : ∀ (p t : List α), t.length = p.length →
    (List.range' 0 (p.length - 1)).any (fun i => decide (limit ≤
        (let a__ := (t.getD (i + 1) 0 - t.getD i 0) / (log10 (p.getD (i + 1) 0) - log10 (p.getD i 0));
         if a__ < (0 : α) then (-a__) else a__)))
      = slopeTooHigh limit p t := by
  intro p
  induction p with
  | nil => intro t _; rfl
  | cons a p ih =>
    intro t ht
    match t, ht with
    | t0 :: t, ht =>
      cases p with
      | nil => rfl
      | cons b p =>
        match t, ht with
        | t1 :: t, ht =>
          have ih' := ih (t1 :: t) (by simpa using ht)
          simp only [List.length_cons, Nat.add_sub_cancel] at ih' ⊢
          rw [any_range_succ, slopeTooHigh, ← ih']
          rfl

/-- **node validity checks** `NPoint.check_profile(Pnodes, Tnodes)` (called by `profile` with the two node lists of equal
    length `[Psurface, *p_points, Ptop]`, `[T_surface, *t_points, T_top]`) raises `InvalidTemperatureException` exactly
    when the model says `pressureInverted … || slopeTooHigh …` (the body of `NPointParams.rejected`).
    Generic: induction over the node list, no algebra. -/
theorem src_npoint_check (limit : α) (pn tn : List α) (h : tn.length = pn.length) :
    Gen.SrcC12.npoint_check_profile (fun i => pn.getD i 0) (fun i => tn.getD i 0) pn.length limit
      = (pressureInverted pn || slopeTooHigh limit pn tn) := by
  unfold Gen.SrcC12.npoint_check_profile
  rw [any_inverted pn, any_slope limit pn tn h]
  cases pressureInverted pn <;> cases slopeTooHigh limit pn tn <;> rfl

/-- as `NPoint.profile` calls it: with the node lists built from the constructor arguments and the pressure grid -/
theorem src_npoint_rejected (q : NPointParams α) (pressure : List α) (h : q.tPoints.length = q.pPoints.length) :
    Gen.SrcC12.npoint_check_profile (fun i => (q.pNodes pressure).getD i 0) (fun i => q.tNodes.getD i 0)
        (q.pNodes pressure).length q.limitSlope
      = q.rejected pressure := by
  rw [src_npoint_check]
  · rfl
  · simp [NPointParams.tNodes, NPointParams.pNodes, h]

/-! ### Rodgers2000 -/

/-- `Rodgers2000.gen_covariance` (`exp(-|log(p[:, None] / p[None, :])| / h)`, numpy broadcasting) is `genCovariance`:
    row `i`, column `j` is `exp(-1 * |log(p_i / p_j)| / h)`.  Generic. -/
theorem src_rodgers_gen_covariance (h : α) (n : Nat) (p : Nat → α) :
    (List.range n).map (fun i => listOf n (Gen.SrcC12.rodgers_gen_covariance h p i))
      = genCovariance h (listOf n p) := by
  unfold Gen.SrcC12.rodgers_gen_covariance genCovariance
  simp only [listOf, List.map_map, Function.comp_def]
  rfl

/-- column sums of a square matrix held as rows cut from a function -/
theorem colSums_rows (n : Nat) (C : Nat → Nat → α) :
    colSums ((List.range n).map (fun i => listOf n (C i)))
      = listOf n (fun j => List.foldl (fun a r => a + C r j) 0 (List.range n)) := by
  unfold colSums
  have hlen : (((List.range n).map (fun i => listOf n (C i))).getD 0 []).length = n := by
    cases n with
    | zero => rfl
    | succ k => simp [List.getD_eq_getElem?_getD, listOf_length]
  rw [hlen]
  apply listOf_congr
  intro j hj
  simp only [sumL, List.map_map, List.foldl_map, Function.comp_def]
  apply foldl_congr_mem
  intro a r hr
  rw [listOf_getD n (C r) j hj]

/-- **row-normalised correlation weights** `Rodgers2000.correlate_temp(cov)` on an `n × n` matrix with `n` layer
    temperatures is `correlateTemp`: `weights[i][j] = cov[i][j] / (sum of COLUMN i)` and `weights.dot(T)`, the BLAS product
    being read as the left-to-right sum `dot W x m i = sumL [W i j * x j | j < m]` (numpy does not specify the order of the
    additions; ASSUMPTIONS of harness/c12.py).  Generic. -/
theorem src_rodgers_correlate (n : Nat) (C : Nat → Nat → α) (T : Nat → α) :
    listOf n (Gen.SrcC12.rodgers_correlate_temp C n T
        (fun W x m i => sumL (listOf m (fun j => W i j * x j))) n)
      = correlateTemp ((List.range n).map (fun i => listOf n (C i))) (listOf n T) := by
  unfold Gen.SrcC12.rodgers_correlate_temp correlateTemp
  rw [colSums_rows]
  simp only [← List.range_eq_range']
  conv => rhs; rw [show List.range n = (List.range n).map id from (List.map_id _).symm]
  unfold listOf
  rw [List.map_map, List.zipWith_map, List.zipWith_self]
  apply List.map_congr_left
  intro i _
  simp only [Function.comp_def, id, List.map_id]
  have := zipWith_listOf n (C i) T (fun c tj => c / List.foldl (fun a r => a + C r i) 0 (List.range n) * tj)
  unfold listOf at this
  rw [this]

/-- `Rodgers2000.profile`: the user's covariance if one was given, else `gen_covariance()`, then `correlate_temp`: `rodgers`
    (square `n × n` covariance, `n` layers; `dot` as in `src_rodgers_correlate`).  Generic. -/
theorem src_rodgers_profile (n : Nat) (h : α) (T p : Nat → α) (uc : Option (Nat → Nat → α)) :
    listOf n (Gen.SrcC12.rodgers_profile T h uc (fun W x m i => sumL (listOf m (fun j => W i j * x j))) n n p)
      = rodgers (listOf n T) h (uc.map (fun C => (List.range n).map (fun i => listOf n (C i)))) (listOf n p) := by
  unfold Gen.SrcC12.rodgers_profile rodgers
  cases uc with
  | none =>
    simp only [Option.map_none]
    rw [← src_rodgers_gen_covariance, ← src_rodgers_correlate]
  | some C =>
    simp only [Option.map_some]
    rw [← src_rodgers_correlate]

/-! ### the whole `NPoint.profile` (dialect `seq`: lists of run-time length, Python ints, numpy's shape tests) -/

section
variable [NatConv α] [OfNat α 100]

/-- `wsize = int(…); if wsize % 2 == 0: wsize += 1` on Python ints, for a non-negative truncation, is `oddWindow` -/
theorem odd_window_int (t : Nat) :
    (if decide ((Int.ofNat t) % 2 = (0 : Int)) then Int.ofNat t + (1 : Int) else Int.ofNat t)
      = Int.ofNat (if t % 2 = 0 then t + 1 else t) := by
  simp only [Int.ofNat_eq_natCast, decide_eq_true_eq]
  by_cases h : t % 2 = 0
  · have : ((t : Int) % 2 = 0) := by omega
    rw [if_pos this, if_pos h]; simp
  · have : ¬ ((t : Int) % 2 = 0) := by omega
    rw [if_neg this, if_neg h]

theorem oddWindow_odd_gen (n : Nat) (w : α) : oddWindow n w % 2 = 1 := by
  unfold oddWindow
  simp only []
  split <;> omega

/-- `Pnodes = [Psurface, *p_points, Ptop]` with the optional end pressures resolved as the `seq` translation writes it -/
theorem seq_pnodes (q : NPointParams α) (pressure : List α) :
    ([Option.elim q.pSurface (pressure.getD 0 (0 : α))
        (fun v__ => if (decide (v__ < (0 : α))) = true then pressure.getD 0 (0 : α) else v__)] ++ q.pPoints ++
      [Option.elim q.pTop (pressure.getD (pressure.length - 1) (0 : α))
        (fun v__ => if (decide (v__ < (0 : α))) = true then pressure.getD (pressure.length - 1) (0 : α) else v__)])
      = q.pNodes pressure := by
  unfold NPointParams.pNodes resolveP
  cases q.pSurface <;> cases q.pTop <;> simp

/-- **`NPoint.profile`, the whole function**, as `initialize_profile` leaves the object (`nlayers`, the pressure grid) and
    with `np.all(Tnodes == Tnodes[0])` false (a Python list compared with a Python float; see `src_npoint_profile_alleq` for
    the other reading), is `nPoint`: `InvalidTemperatureException` = `invalid`, numpy's ValueError at the slice store =
    `error`.  `np.interp` is the model's `npInterp` (applied to every abscissa), `pyInt` is Python's `int()` and `toF` the
    int → float conversion.  Hypotheses (all of them facts about numbers, none about the code):
    `hF` float(n) is the model's `ofNat'`; `hw` the window product is truncated to a NON-NEGATIVE int (true for a
    non-negative window); `hhalf` `int(k / 2) = k // 2` for `k ≥ 0`; `hma` the cumsum trick of `movingaverage` gives the
    window means (`src_movingaverage`: exact over ℝ, up to rounding on floats).  Generic in the carrier. -/
theorem src_npoint_profile (q : NPointParams α) (nlayers : Nat) (pressure : List α) (pyInt : α → Int) (toF : Int → α)
    (hlen : q.tPoints.length = q.pPoints.length)
    (hF : ∀ n : Nat, toF (Int.ofNat n) = ofNat' n)
    (hw : pyInt (ofNat' nlayers * (q.window / 100)) = Int.ofNat (truncNat (ofNat' nlayers * (q.window / 100))))
    (hhalf : ∀ k : Nat, pyInt (toF (Int.ofNat k) / 2) = Int.ofNat (k / 2))
    (hma : Gen.SrcC12.movingaverage (q.interpolated pressure) (Int.ofNat (oddWindow nlayers q.window)) toF
      = Except.ok (movingAverage (q.interpolated pressure) (oddWindow nlayers q.window))) :
    outcomeOf "InvalidTemperatureException"
      (Gen.SrcC12.npoint_profile q.pSurface q.pTop q.tSurface q.tTop false (fun x xp fp => npInterp xp fp x)
        q.limitSlope nlayers q.pPoints pressure pyInt q.window q.tPoints toF)
      = nPoint q nlayers pressure := by
  have hT : ([q.tSurface] ++ q.tPoints ++ [q.tTop]) = q.tNodes := by simp [NPointParams.tNodes]
  have hP := seq_pnodes q pressure
  unfold Gen.SrcC12.npoint_profile nPoint
  simp only [hT, hP]
  rw [src_npoint_rejected q pressure hlen]
  cases hr : q.rejected pressure
  · simp only [Bool.false_eq_true, if_false]
    have hTP : (List.map (fun x__ => npInterp (List.map (fun x__ => log10 x__) (List.reverse (q.pNodes pressure)))
          (List.reverse q.tNodes) x__) (List.map (fun x__ => log10 x__) (List.reverse pressure)))
        = q.interpolated pressure := by
      unfold NPointParams.interpolated
      simp only [List.map_map, List.map_reverse, Function.comp_def]
    rw [hTP, hF, hw, odd_window_int]
    have hodd : (if truncNat (ofNat' nlayers * (q.window / 100)) % 2 = 0
        then truncNat (ofNat' nlayers * (q.window / 100)) + 1 else truncNat (ofNat' nlayers * (q.window / 100)))
        = oddWindow nlayers q.window := rfl
    rw [hodd, hma]
    simp only []
    obtain ⟨hle, hone⟩ := assemble_side (q.interpolated pressure) (oddWindow nlayers q.window)
      (oddWindow_odd_gen nlayers q.window)
    have hsub : Int.ofNat (q.interpolated pressure).length
        - Int.ofNat (movingAverage (q.interpolated pressure) (oddWindow nlayers q.window)).length
        = Int.ofNat ((q.interpolated pressure).length
          - (movingAverage (q.interpolated pressure) (oddWindow nlayers q.window)).length) := by
      simp only [Int.ofNat_eq_natCast]; omega
    rw [hsub, hhalf]
    exact assemble_tie "InvalidTemperatureException" (by decide) _ _ hone
  · simp [outcomeOf]

/-- a node list that fails `check_profile` makes `profile` raise `InvalidTemperatureException`, whatever the rest.  Generic. -/
theorem src_npoint_profile_invalid (q : NPointParams α) (nlayers : Nat) (pressure : List α) (pyInt : α → Int)
    (toF : Int → α) (allEq : Bool) (interp : α → List α → List α → α)
    (hlen : q.tPoints.length = q.pPoints.length) (hv : q.rejected pressure = true) :
    Gen.SrcC12.npoint_profile q.pSurface q.pTop q.tSurface q.tTop allEq interp
        q.limitSlope nlayers q.pPoints pressure pyInt q.window q.tPoints toF
      = Except.error "InvalidTemperatureException" := by
  have hT : ([q.tSurface] ++ q.tPoints ++ [q.tTop]) = q.tNodes := by simp [NPointParams.tNodes]
  have hP := seq_pnodes q pressure
  unfold Gen.SrcC12.npoint_profile
  simp only [hT, hP]
  rw [src_npoint_rejected q pressure hlen, hv]
  rfl

/-- the other reading of `np.all(Tnodes == Tnodes[0])` (a numpy scalar `T_surface`: element-wise comparison, true exactly
    when all node temperatures are equal): the profile that passes the node check is the constant `1 * T_surface`, one
    value per layer.  Generic. -/
theorem src_npoint_profile_alleq (q : NPointParams α) (nlayers : Nat) (pressure : List α) (pyInt : α → Int)
    (toF : Int → α) (hlen : q.tPoints.length = q.pPoints.length) (hv : q.rejected pressure = false) :
    Gen.SrcC12.npoint_profile q.pSurface q.pTop q.tSurface q.tTop true (fun x xp fp => npInterp xp fp x)
        q.limitSlope nlayers q.pPoints pressure pyInt q.window q.tPoints toF
      = Except.ok (pressure.map (fun _ => (1 : α) * q.tSurface)) := by
  have hT : ([q.tSurface] ++ q.tPoints ++ [q.tTop]) = q.tNodes := by simp [NPointParams.tNodes]
  have hP := seq_pnodes q pressure
  unfold Gen.SrcC12.npoint_profile
  simp only [hT, hP]
  rw [src_npoint_rejected q pressure hlen, hv]
  simp [NPointParams.tNodes]

end

/-! ### TemperatureArray (`__init__` + `profile`, one translation per calling pattern) -/

/-- the model's reading of `scipy.interpolate.interp1d(x, y, bounds_error=False, fill_value=(lo, hi))` (kind='linear'): the
    nodes are sorted by abscissa (stable), `np.interp` between them, the two fill values outside the node range — the
    expression `tempArrayPressure` is built from (ASSUMPTIONS of harness/c12.py) -/
def interp1dModel (xs ys : List α) (_boundsError : Bool) (fill : α × α) (x : α) : α :=
  let nodes := sortByKey (xs.zip ys)
  let sx := nodes.map (·.1)
  let sy := nodes.map (·.2)
  if x < sx.getD 0 0 then fill.1
  else if sx.getD (sx.length - 1) 0 < x then fill.2
  else npInterp sx sy x

/-- **`TemperatureArray(tp_array, None, reverse)` + `profile`** (no pressure points: the table itself when it has one value
    per layer, else `np.interp` over `np.linspace(1, 0, ·)[::-1]`) is `tempArray tp none rev`; `np.linspace` / `np.interp` are
    the model's `linspace` / `npInterp`.  Generic. -/
theorem src_temparray_plain [NatConv α] (tp : List α) (rev : Bool) (n : Nat) (pressure : List α) :
    Gen.SrcC12.temparray_profile_plain (fun x xp fp => npInterp xp fp x) (fun a b k => linspace a b k) n
        (Gen.SrcC12.temparray_init_plain tp rev)
      = tempArray tp none rev n pressure := by
  unfold Gen.SrcC12.temparray_profile_plain Gen.SrcC12.temparray_init_plain tempArray tempArrayPlain
  simp only [decide_eq_true_eq]

/-- **`TemperatureArray(tp_array, p_points, reverse)` + `profile`** (pressure points given: the interpolant built by
    `__init__` from `log10(p_points)` and the table, with the fill values `(tp[-1], tp[0])`, applied to `log10` of every layer
    pressure) is `tempArray tp (some pp) rev`, `interp1d` being `interp1dModel`.  Generic. -/
theorem src_temparray_pressure [NatConv α] (tp pp : List α) (rev : Bool) (n : Nat) (pressure : List α) :
    Gen.SrcC12.temparray_profile_pressure (Gen.SrcC12.temparray_init_pressure tp pp rev interp1dModel).2.2
        (Gen.SrcC12.temparray_init_pressure tp pp rev interp1dModel).2.1 pressure
      = tempArray tp (some pp) rev n pressure := by
  unfold Gen.SrcC12.temparray_profile_pressure Gen.SrcC12.temparray_init_pressure tempArray tempArrayPressure
    interp1dModel
  simp only [List.map_map, Function.comp_def]

end

/-- **`taurex.util.movingaverage`** (the cumsum trick `ret = cumsum(a); ret[n:] = ret[n:] - ret[:-n]; ret[n-1:] / n`, with
    the shape tests numpy makes at the subtraction and at the slice store) for a window `w ≥ 1` never raises and returns
    the `len(a) - w + 1` window means of the model's `movingAverage` (none when the window is longer than the array).
    An algebraic identity (telescoping sums): over ℝ. -/
theorem src_movingaverage (a : List ℝ) (w : Nat) (hw : 1 ≤ w) (toF : Int → ℝ)
    (hF : ∀ n : Nat, toF (Int.ofNat n) = (n : ℝ)) :
    Gen.SrcC12.movingaverage a (Int.ofNat w) toF = Except.ok (movingAverage a w) := by
  obtain ⟨h1, h2, h3⟩ := ma_cumsum a w hw (toF (Int.ofNat w)) (hF w)
  unfold Gen.SrcC12.movingaverage
  simp only [h1, h2, Bool.not_true, Bool.false_eq_true, if_false, h3]

end Taurex.C12Src
