/-
  C12 — source tie.  `TaurexModel/Gen/SrcC12.lean` is regenerated on every run by `harness/translate.py` (idioms of
  `harness/translate_arr.py`) from the source text of taurex/data/profiles/temperature/isothermal.py and guillot.py.  The
  theorems below state, for EVERY carrier (no algebra is used), that each regenerated definition is the hand-written model
  function of `TaurexModel/Temperature.lean` that the C12 theorems are about and that `driver_c12` executes.
  Hypotheses on externals / on the order are explicit:
    * `hpow : ∀ x, rpow x c = sqrt (sqrt x)` — the model's reading of `T4 ** 0.25` (ASSUMPTIONS of harness/c12.py);
    * `hle : ∀ a b, a ≤ b ↔ ¬ b < a` — the carrier's order is total (ℝ, ℚ, floats without NaN): the code tests `x == 0.0`
      (IEEE equality = `x ≤ 0 ∧ 0 ≤ x`), the model tests `¬ x < 0 ∧ ¬ 0 < x`; they differ only for NaN parameters, which
      are outside the property's quantifier.
  A source change that alters one of these functions makes the corresponding theorem fail to check.
-/
import TaurexModel.Gen.SrcC12
import TaurexModel.Temperature
import Proofs.C10Src
set_option linter.unusedSectionVars false

namespace Taurex.C12Src
open Taurex Taurex.NpInterp Taurex.Temperature
open Taurex.C10Src (listOf listOf_map listOf_congr listOf_getD zipWith_listOf listOf_length foldl_congr_mem)

section
variable {α : Type} [Add α] [Sub α] [Mul α] [Div α] [Neg α] [LT α] [LE α]
  [DecidableLT α] [DecidableLE α] [Taurex.Transc α] [OfNat α 0] [OfNat α 1] [OfNat α 2] [OfNat α 3] [OfNat α 4]

/-- `Isothermal.profile` (`T = np.zeros(nlayers); T[:] = T_iso`) is `isothermal`, entry by entry.  Generic. -/
theorem src_isothermal (t : α) (n i : Nat) (hi : i < n) :
    Gen.SrcC12.isothermal_profile t n i = (isothermal t n).getD i 0 := by
  simp [Gen.SrcC12.isothermal_profile, isothermal, List.getD_eq_getElem?_getD, hi]

/-- IEEE `x == 0` against the model's `isZero`, on a totally ordered carrier -/
theorem eq_zero_iff_isZero (hle : ∀ a b : α, a ≤ b ↔ ¬ b < a) (x : α) :
    (decide (x ≤ (0 : α)) && decide ((0 : α) ≤ x)) = isZero x := by
  unfold isZero
  by_cases h1 : x < 0 <;> by_cases h2 : (0 : α) < x <;> simp [hle, h1, h2]

/-- `Guillot2010._check_values` raises `InvalidModelException` exactly when the model says `rejected`
    (generic, for a total order `hle`). -/
theorem src_guillot_check (hle : ∀ a b : α, a ≤ b ↔ ¬ b < a) (q : GuillotParams α) :
    Gen.SrcC12.guillot_check_values q.tInt q.tIrr q.kappaIr q.kappaV1 q.kappaV2 = q.rejected := by
  unfold Gen.SrcC12.guillot_check_values GuillotParams.rejected
  simp only [eq_zero_iff_isZero hle]

/-- **the Guillot closed form for one layer**: `Guillot2010.profile` evaluated at one entry `p` of the pressure profile is
    `none` (InvalidModelException) when `_check_values` raises and otherwise `sqrt (sqrt T4)` with the model's `guillotT4`
    at `tau = kappa_ir * p / g`, the exponential integrals being `expn(2, gamma_i * tau)`.  Generic; both sides unfold to
    the same term once `T4 ** 0.25` is read as `sqrt (sqrt T4)` (`hpow`). -/
theorem src_guillot_layer (q : GuillotParams α) (g p c : α) (expn rpow : α → α → α)
    (hpow : ∀ x, rpow x c = sqrt (sqrt x)) :
    Gen.SrcC12.guillot_profile q.tInt q.tIrr q.alpha c expn q.kappaIr q.kappaV1 q.kappaV2 g p rpow
      = if Gen.SrcC12.guillot_check_values q.tInt q.tIrr q.kappaIr q.kappaV1 q.kappaV2 then none
        else some (sqrt (sqrt (guillotT4 q (q.kappaIr * p / g)
              (expn 2 (q.kappaV1 / q.kappaIr * (q.kappaIr * p / g)))
              (expn 2 (q.kappaV2 / q.kappaIr * (q.kappaIr * p / g)))))) := by
  unfold Gen.SrcC12.guillot_profile
  simp only [hpow]
  rfl

/-- **the whole profile**: the model `guillot` on a pressure list `P` (with `e21[l] = expn(2, gamma_1 tau_l)`,
    `e22[l] = expn(2, gamma_2 tau_l)`, as the harness hands them in) is `invalid` exactly when the code raises for every
    layer, and otherwise its list holds, layer by layer, the value the code returns.  Generic (total order `hle`). -/
theorem src_guillot_profile (hle : ∀ a b : α, a ≤ b ↔ ¬ b < a) (q : GuillotParams α) (g c : α)
    (expn rpow : α → α → α) (hpow : ∀ x, rpow x c = sqrt (sqrt x)) (P : List α) :
    match guillot q g P (P.map fun p => expn 2 (q.kappaV1 / q.kappaIr * (q.kappaIr * p / g)))
        (P.map fun p => expn 2 (q.kappaV2 / q.kappaIr * (q.kappaIr * p / g))) with
    | .ok l => l.length = P.length ∧ ∀ i, i < P.length →
        Gen.SrcC12.guillot_profile q.tInt q.tIrr q.alpha c expn q.kappaIr q.kappaV1 q.kappaV2 g (P.getD i 0) rpow
          = some (l.getD i 0)
    | .invalid => ∀ p,
        Gen.SrcC12.guillot_profile q.tInt q.tIrr q.alpha c expn q.kappaIr q.kappaV1 q.kappaV2 g p rpow = none
    | .error => False := by
  unfold guillot
  by_cases hr : q.rejected = true
  · simp only [hr, if_true]
    intro p
    rw [src_guillot_layer q g p c expn rpow hpow, src_guillot_check hle, hr]
    rfl
  · simp only [hr]
    refine ⟨by simp, ?_⟩
    intro i hi
    rw [src_guillot_layer q g _ c expn rpow hpow, src_guillot_check hle]
    simp [hr, List.getD_eq_getElem?_getD, hi]

/-- **the node lists of `NPoint.profile`** (`Tnodes = [T_surface, *t_points, T_top]`, `Pnodes = [Psurface, *p_points, Ptop]`
    with an unset or negative `P_surface` / `P_top` replaced by the first / last entry of the pressure grid) are
    `NPointParams.tNodes` and `NPointParams.pNodes`.  Generic. -/
theorem src_npoint_nodes (q : NPointParams α) (pressure : List α) :
    Gen.SrcC12.npoint_nodes pressure.length q.pSurface q.pTop q.tSurface q.tTop q.pPoints
        (fun i => pressure.getD i 0) q.tPoints
      = (q.tNodes, q.pNodes pressure) := by
  unfold Gen.SrcC12.npoint_nodes NPointParams.tNodes NPointParams.pNodes resolveP
  cases q.pSurface <;> cases q.pTop <;> simp

/-! ### NPoint.check_profile -/

theorem any_range_succ (n : Nat) (f : Nat → Bool) :
    (List.range' 0 (n + 1)).any f = (f 0 || (List.range' 0 n).any (fun i => f (i + 1))) := by
  rw [List.range'_succ, List.any_cons, List.range'_succ_left, List.any_map]
  rfl

/-- the index loop `any(Ppt[i] <= Ppt[i+1] for i in range(len(Ppt)-1))` is the model's recursion over the node list -/
theorem any_inverted (l : List α) :
    (List.range' 0 (l.length - 1)).any (fun i => decide (l.getD i 0 ≤ l.getD (i + 1) 0)) = pressureInverted l := by
  induction l with
  | nil => rfl
  | cons a t ih =>
    cases t with
    | nil => rfl
    | cons b t =>
      simp only [List.length_cons, Nat.add_sub_cancel] at ih ⊢
      rw [any_range_succ, pressureInverted, ← ih]
      rfl

theorem any_slope (limit : α) : ∀ (p t : List α), t.length = p.length →
    (List.range' 0 (p.length - 1)).any (fun i => decide (limit ≤
        (let a__ := (t.getD (i + 1) 0 - t.getD i 0) / (log10 (p.getD (i + 1) 0) - log10 (p.getD i 0));
         if a__ < (0 : α) then (-a__) else a__)))
      = slopeTooHigh limit p t := by
  intro p
  induction p with
  | nil => intro t _; rfl
  | cons a p ih =>
    intro t ht
    match t, ht with
    | t0 :: t, ht =>
      cases p with
      | nil => rfl
      | cons b p =>
        match t, ht with
        | t1 :: t, ht =>
          have ih' := ih (t1 :: t) (by simpa using ht)
          simp only [List.length_cons, Nat.add_sub_cancel] at ih' ⊢
          rw [any_range_succ, slopeTooHigh, ← ih']
          rfl

/-- **node validity checks** `NPoint.check_profile(Pnodes, Tnodes)` (called by `profile` with the two node lists of equal
    length `[Psurface, *p_points, Ptop]`, `[T_surface, *t_points, T_top]`) raises `InvalidTemperatureException` exactly
    when the model says `pressureInverted … || slopeTooHigh …` (the body of `NPointParams.rejected`).
    Generic: induction over the node list, no algebra. -/
theorem src_npoint_check (limit : α) (pn tn : List α) (h : tn.length = pn.length) :
    Gen.SrcC12.npoint_check_profile (fun i => pn.getD i 0) (fun i => tn.getD i 0) pn.length limit
      = (pressureInverted pn || slopeTooHigh limit pn tn) := by
  unfold Gen.SrcC12.npoint_check_profile
  rw [any_inverted pn, any_slope limit pn tn h]
  cases pressureInverted pn <;> cases slopeTooHigh limit pn tn <;> rfl

/-- as `NPoint.profile` calls it: with the node lists built from the constructor arguments and the pressure grid -/
theorem src_npoint_rejected (q : NPointParams α) (pressure : List α) (h : q.tPoints.length = q.pPoints.length) :
    Gen.SrcC12.npoint_check_profile (fun i => (q.pNodes pressure).getD i 0) (fun i => q.tNodes.getD i 0)
        (q.pNodes pressure).length q.limitSlope
      = q.rejected pressure := by
  rw [src_npoint_check]
  · rfl
  · simp [NPointParams.tNodes, NPointParams.pNodes, h]

/-! ### Rodgers2000 -/

/-- `Rodgers2000.gen_covariance` (`exp(-|log(p[:, None] / p[None, :])| / h)`, numpy broadcasting) is `genCovariance`:
    row `i`, column `j` is `exp(-1 * |log(p_i / p_j)| / h)`.  Generic. -/
theorem src_rodgers_gen_covariance (h : α) (n : Nat) (p : Nat → α) :
    (List.range n).map (fun i => listOf n (Gen.SrcC12.rodgers_gen_covariance h p i))
      = genCovariance h (listOf n p) := by
  unfold Gen.SrcC12.rodgers_gen_covariance genCovariance
  simp only [listOf, List.map_map, Function.comp_def]
  rfl

/-- column sums of a square matrix held as rows cut from a function -/
theorem colSums_rows (n : Nat) (C : Nat → Nat → α) :
    colSums ((List.range n).map (fun i => listOf n (C i)))
      = listOf n (fun j => List.foldl (fun a r => a + C r j) 0 (List.range n)) := by
  unfold colSums
  have hlen : (((List.range n).map (fun i => listOf n (C i))).getD 0 []).length = n := by
    cases n with
    | zero => rfl
    | succ k => simp [List.getD_eq_getElem?_getD, listOf_length]
  rw [hlen]
  apply listOf_congr
  intro j hj
  simp only [sumL, List.map_map, List.foldl_map, Function.comp_def]
  apply foldl_congr_mem
  intro a r hr
  rw [listOf_getD n (C r) j hj]

/-- **row-normalised correlation weights** `Rodgers2000.correlate_temp(cov)` on an `n × n` matrix with `n` layer
    temperatures is `correlateTemp`: `weights[i][j] = cov[i][j] / (sum of COLUMN i)` and `weights.dot(T)`, the BLAS product
    being read as the left-to-right sum `dot W x m i = sumL [W i j * x j | j < m]` (numpy does not specify the order of the
    additions; ASSUMPTIONS of harness/c12.py).  Generic. -/
theorem src_rodgers_correlate (n : Nat) (C : Nat → Nat → α) (T : Nat → α) :
    listOf n (Gen.SrcC12.rodgers_correlate_temp C n T
        (fun W x m i => sumL (listOf m (fun j => W i j * x j))) n)
      = correlateTemp ((List.range n).map (fun i => listOf n (C i))) (listOf n T) := by
  unfold Gen.SrcC12.rodgers_correlate_temp correlateTemp
  rw [colSums_rows]
  simp only [← List.range_eq_range']
  conv => rhs; rw [show List.range n = (List.range n).map id from (List.map_id _).symm]
  unfold listOf
  rw [List.map_map, List.zipWith_map, List.zipWith_self]
  apply List.map_congr_left
  intro i _
  simp only [Function.comp_def, id, List.map_id]
  have := zipWith_listOf n (C i) T (fun c tj => c / List.foldl (fun a r => a + C r i) 0 (List.range n) * tj)
  unfold listOf at this
  rw [this]

/-- `Rodgers2000.profile`: the user's covariance if one was given, else `gen_covariance()`, then `correlate_temp`: `rodgers`
    (square `n × n` covariance, `n` layers; `dot` as in `src_rodgers_correlate`).  Generic. -/
theorem src_rodgers_profile (n : Nat) (h : α) (T p : Nat → α) (uc : Option (Nat → Nat → α)) :
    listOf n (Gen.SrcC12.rodgers_profile T h uc (fun W x m i => sumL (listOf m (fun j => W i j * x j))) n n p)
      = rodgers (listOf n T) h (uc.map (fun C => (List.range n).map (fun i => listOf n (C i)))) (listOf n p) := by
  unfold Gen.SrcC12.rodgers_profile rodgers
  cases uc with
  | none =>
    simp only [Option.map_none]
    rw [← src_rodgers_gen_covariance, ← src_rodgers_correlate]
  | some C =>
    simp only [Option.map_some]
    rw [← src_rodgers_correlate]

end

end Taurex.C12Src
