/-
  C12 — the property theorems restated about the REGENERATED source.  `Props/C12Src.lean` proves that the definitions
  translated on every run from `Isothermal.profile`, `Rodgers2000.gen_covariance/correlate_temp/profile`, the node lists and
  `check_profile` of `NPoint`, `Guillot2010._check_values/profile` compute the model's `isothermal`, `genCovariance`,
  `correlateTemp`, `rodgers`, `NPointParams.tNodes/pNodes/rejected`, `GuillotParams.rejected`, `guillot`; `Props/C12.lean`
  proves the property about those.  The corollaries below compose the two: statements about the text of the code as it
  is now, over ℝ.

  Source expressions (instantiated exactly as the tie theorems instantiate them; the code's arrays are functions
  `Nat → ℝ`, `listOf n` cuts them to the `n` layers):
  * `srcIso t n` — the regenerated `Isothermal.profile`;
  * `srcRodgers n h T p uc` — the regenerated `Rodgers2000.profile` on `n` layers (`uc` = the user covariance if one was
    given, as an array; `covOf n C` its `n × n` rows), the BLAS product `weights.dot(T)` read as the left-to-right sum;
  * `srcNPointRaises q pressure` — the regenerated `NPoint.check_profile` applied to the node lists the regenerated
    `NPoint.profile` builds (`true` = `InvalidTemperatureException`);
  * `Gen.SrcC12.guillot_check_values …` (`true` = `InvalidModelException`) and `srcGuillot q g c expn rpow p` — the
    regenerated `Guillot2010.profile` at one entry `p` of the pressure profile (`none` = `InvalidModelException`).
  Hypotheses of the ties that stay visible: `hpow` (`T4 ** 0.25` read as `sqrt (sqrt T4)`), the constructor's
  `len(t_points) = len(p_points)`; the tie's total-order hypothesis `hle` holds in ℝ.

  * `srcNPoint q nlayers pressure allEq` — the regenerated WHOLE `NPoint.profile` (node lists, `check_profile`, `np.interp`
    in log10 P = the model's `npInterp`, the `int(…)` window with `%`, `movingaverage`, border, slice store), with Python's
    `int()` on reals `pyIntR` (truncation toward zero) and int → float `toFloatR`; `Except.error "InvalidTemperatureException"`
    / `"ValueError"` are the exceptions the code raises.  `allEq` is the value of `np.all(Tnodes == Tnodes[0])` (False for a
    Python-float `T_surface`, element-wise for a numpy scalar): the restated theorems hold for BOTH values.
    `npoint_len`, `npoint_between`, `npoint_const` are restated about it (`src_npoint_len`, `src_npoint_between`,
    `src_npoint_const`; the window is a non-negative number: `hw0`, the tie's hypothesis that `int(…)` of the window product
    is not negative);

  * `srcTempArray tp pp rev n pressure` — the regenerated `TemperatureArray.__init__` followed by the regenerated `profile`
    (both calling patterns: without / with pressure points), `np.linspace` / `np.interp` = the model's, `interp1d` =
    `interp1dModel` (sorted nodes + `np.interp` + fill values); `array_between` is restated about it (`src_array_between`);

  Restated only in part:
  * `guillot_rejects` / `guillot_positive` are restated layer by layer (the regenerated `profile` is point-wise in the
    pressure; the list length is a statement about the model's list only).
-/
import Props.C12
import Props.C12Src
set_option linter.unusedSectionVars false

namespace Taurex.C12SrcProps
open Taurex Taurex.NpInterp Taurex.Temperature Taurex.C12 Taurex.C12Src
open Taurex.C10Src (listOf listOf_length listOf_getD)
open Taurex.SeqSrc (outcomeOf outcomeOf_ok_iff pyIntR toFloatR pyIntR_nonneg toFloatR_nat pyIntR_half oddWindow_pos)

/-! ### the instantiated source expressions -/

/-- the regenerated `Isothermal.profile`, `n` layers -/
noncomputable def srcIso (t : ℝ) (n : Nat) : List ℝ := listOf n (Gen.SrcC12.isothermal_profile t n)

/-- an `n × n` covariance array as rows -/
noncomputable def covOf (n : Nat) (C : Nat → Nat → ℝ) : List (List ℝ) := (List.range n).map (fun i => listOf n (C i))

/-- the regenerated `Rodgers2000.profile`, `n` layers -/
noncomputable def srcRodgers (n : Nat) (h : ℝ) (T p : Nat → ℝ) (uc : Option (Nat → Nat → ℝ)) : List ℝ :=
  listOf n (Gen.SrcC12.rodgers_profile T h uc (fun W x m i => sumL (listOf m (fun j => W i j * x j))) n n p)

/-- the regenerated `NPoint.check_profile(Pnodes, Tnodes)` on the node lists the regenerated `NPoint.profile` builds -/
noncomputable def srcNPointRaises (q : NPointParams ℝ) (pressure : List ℝ) : Bool :=
  Gen.SrcC12.npoint_check_profile
    (fun i => (Gen.SrcC12.npoint_nodes pressure.length q.pSurface q.pTop q.tSurface q.tTop q.pPoints
      (fun i => pressure.getD i 0) q.tPoints).2.getD i 0)
    (fun i => (Gen.SrcC12.npoint_nodes pressure.length q.pSurface q.pTop q.tSurface q.tTop q.pPoints
      (fun i => pressure.getD i 0) q.tPoints).1.getD i 0)
    (Gen.SrcC12.npoint_nodes pressure.length q.pSurface q.pTop q.tSurface q.tTop q.pPoints
      (fun i => pressure.getD i 0) q.tPoints).2.length q.limitSlope

/-- the regenerated `Guillot2010.profile` at one entry `p` of the pressure profile -/
noncomputable def srcGuillot (q : GuillotParams ℝ) (g c : ℝ) (expn rpow : ℝ → ℝ → ℝ) (p : ℝ) : Option ℝ :=
  Gen.SrcC12.guillot_profile q.tInt q.tIrr q.alpha c expn q.kappaIr q.kappaV1 q.kappaV2 g p rpow

theorem real_le_iff : ∀ a b : ℝ, a ≤ b ↔ ¬ b < a := fun _ _ => not_lt.symm

theorem listOf_forall (n : Nat) (f : Nat → ℝ) (P : ℝ → Prop) (h : ∀ i, i < n → P (f i)) : ∀ x ∈ listOf n f, P x := by
  intro x hx
  simp only [listOf, List.mem_map, List.mem_range] at hx
  obtain ⟨i, hi, rfl⟩ := hx
  exact h i hi

theorem srcIso_eq (t : ℝ) (n : Nat) : srcIso t n = isothermal t n := by
  apply List.ext_getElem
  · simp [srcIso, listOf, isothermal]
  · intro i h1 h2
    have hi : i < n := by simpa [srcIso, listOf] using h1
    have h := src_isothermal t n i hi
    rw [List.getD_eq_getElem?_getD, List.getElem?_eq_getElem h2] at h
    simp only [srcIso, listOf, List.getElem_map, List.getElem_range]
    rw [h]; rfl

theorem srcRodgers_eq (n : Nat) (h : ℝ) (T p : Nat → ℝ) (uc : Option (Nat → Nat → ℝ)) :
    srcRodgers n h T p uc = rodgers (listOf n T) h (uc.map (covOf n)) (listOf n p) :=
  src_rodgers_profile n h T p uc

theorem srcNPointRaises_eq (q : NPointParams ℝ) (pressure : List ℝ) (h : q.tPoints.length = q.pPoints.length) :
    srcNPointRaises q pressure = q.rejected pressure := by
  unfold srcNPointRaises
  rw [src_npoint_nodes]
  exact src_npoint_rejected q pressure h

theorem srcGuillotCheck_eq (q : GuillotParams ℝ) :
    Gen.SrcC12.guillot_check_values q.tInt q.tIrr q.kappaIr q.kappaV1 q.kappaV2 = q.rejected :=
  src_guillot_check real_le_iff q

/-! ### isothermal -/

/-- Isothermal: one value per layer, all equal to the control temperature, about the regenerated `profile` -/
theorem src_iso_const (t : ℝ) (n : Nat) : (srcIso t n).length = n ∧ ∀ v ∈ srcIso t n, v = t := by
  rw [srcIso_eq]; exact iso_const t n

/-! ### NPoint -/

/-- the regenerated `NPoint.check_profile`, on the node lists the regenerated `NPoint.profile` builds, raises exactly when
    two consecutive pressure nodes are not strictly decreasing or a segment's slope |ΔT / Δlog10 P| reaches the limit -/
theorem src_npoint_rejects (q : NPointParams ℝ) (pressure : List ℝ) (h : q.tPoints.length = q.pPoints.length) :
    srcNPointRaises q pressure = true ↔
      (∃ i, ∃ _ : i + 1 < (q.pNodes pressure).length, (q.pNodes pressure)[i] ≤ (q.pNodes pressure)[i + 1]) ∨
      (∃ i, ∃ _ : i + 1 < (q.pNodes pressure).length, ∃ _ : i + 1 < q.tNodes.length,
        q.limitSlope ≤ |(q.tNodes[i + 1] - q.tNodes[i]) /
          (log10 (q.pNodes pressure)[i + 1] - log10 (q.pNodes pressure)[i])|) := by
  rw [srcNPointRaises_eq q pressure h, ← nPoint_invalid_iff q 0 pressure]
  exact npoint_rejects q 0 pressure

/-! ### NPoint: the whole regenerated `profile` -/

/-- the regenerated `NPoint.profile` (`allEq` = the value of `np.all(Tnodes == Tnodes[0])`) -/
noncomputable def srcNPoint (q : NPointParams ℝ) (nlayers : Nat) (pressure : List ℝ) (allEq : Bool) :
    Except String (List ℝ) :=
  Gen.SrcC12.npoint_profile q.pSurface q.pTop q.tSurface q.tTop allEq (fun x xp fp => npInterp xp fp x)
    q.limitSlope nlayers q.pPoints pressure pyIntR q.window q.tPoints toFloatR

/-- the tie, over ℝ: for a non-negative window and `np.all(Tnodes == Tnodes[0])` false the regenerated `profile` IS the
    model's `nPoint` -/
theorem srcNPoint_eq (q : NPointParams ℝ) (n : Nat) (pressure : List ℝ) (hlen : q.tPoints.length = q.pPoints.length)
    (hw0 : 0 ≤ q.window) :
    outcomeOf "InvalidTemperatureException" (srcNPoint q n pressure false) = nPoint q n pressure := by
  unfold srcNPoint
  refine src_npoint_profile q n pressure pyIntR toFloatR hlen toFloatR_nat ?_ pyIntR_half ?_
  · have : (0 : ℝ) ≤ ofNat' n * (q.window / 100) := by
      simp only [ofNat'_real]; positivity
    rw [pyIntR_nonneg this]; rfl
  · exact src_movingaverage _ _ (oddWindow_pos n q.window) toFloatR toFloatR_nat

/-- the regenerated `profile` in the other reading of `np.all(Tnodes == Tnodes[0])`: a value exactly when the node check
    passes, and then the constant `1 * T_surface` -/
theorem srcNPoint_alleq (q : NPointParams ℝ) (n : Nat) (pressure prof : List ℝ)
    (hlen : q.tPoints.length = q.pPoints.length) (hok : srcNPoint q n pressure true = .ok prof) :
    q.rejected pressure = false ∧ prof = pressure.map (fun _ => 1 * q.tSurface) := by
  unfold srcNPoint at hok
  cases hr : q.rejected pressure
  · rw [src_npoint_profile_alleq q n pressure pyIntR toFloatR hlen hr] at hok
    exact ⟨rfl, (Except.ok.inj hok).symm⟩
  · rw [src_npoint_profile_invalid q n pressure pyIntR toFloatR true _ hlen hr] at hok
    exact absurd hok (by simp)

/-- NPoint with a smoothing window that is a percentage (0..100) never fails for any layer count: when the regenerated
    `check_profile` does not raise on the node lists, the regenerated `profile` returns exactly one value per layer — no
    ValueError at the border store, whatever `np.all(Tnodes == Tnodes[0])` evaluates to -/
theorem src_npoint_len (q : NPointParams ℝ) (n : Nat) (pressure : List ℝ) (allEq : Bool) (hn : n = pressure.length)
    (hlen : q.tPoints.length = q.pPoints.length) (hw0 : 0 ≤ q.window) (hw1 : q.window ≤ 100)
    (hv : srcNPointRaises q pressure = false) :
    ∃ prof, srcNPoint q n pressure allEq = .ok prof ∧ prof.length = n := by
  rw [srcNPointRaises_eq q pressure hlen] at hv
  cases allEq
  · obtain ⟨prof, hp, hl⟩ := npoint_len q n pressure hn hw0 hw1 hv
    rw [← srcNPoint_eq q n pressure hlen hw0, outcomeOf_ok_iff] at hp
    exact ⟨prof, hp, hl⟩
  · refine ⟨_, src_npoint_profile_alleq q n pressure pyIntR toFloatR hlen hv, ?_⟩
    simp [hn]

/-- the regenerated `NPoint.profile`, smoothing included, never leaves the range `[lo, hi]` spanned by its node
    temperatures (so positive nodes give a positive profile); guards as in `npoint_between`, non-negative window -/
theorem src_npoint_between (q : NPointParams ℝ) (n : Nat) (pressure prof : List ℝ) (allEq : Bool) (lo hi : ℝ)
    (hlen : q.tPoints.length = q.pPoints.length) (hw0 : 0 ≤ q.window)
    (hpos : 0 < resolveP q.pTop (pressure.getD (pressure.length - 1) 0))
    (hT : ∀ t ∈ q.tNodes, lo ≤ t ∧ t ≤ hi) (hok : srcNPoint q n pressure allEq = .ok prof) :
    ∀ t ∈ prof, lo ≤ t ∧ t ≤ hi := by
  cases allEq
  · have h := srcNPoint_eq q n pressure hlen hw0
    rw [hok] at h
    exact npoint_between q n pressure prof lo hi hlen hpos hT h.symm
  · obtain ⟨_, rfl⟩ := srcNPoint_alleq q n pressure prof hlen hok
    intro t ht
    simp only [List.mem_map] at ht
    obtain ⟨_, _, rfl⟩ := ht
    rw [one_mul]
    exact hT _ (by simp [NPointParams.tNodes])

/-- all node temperatures equal ⇒ the regenerated `NPoint.profile` is that constant -/
theorem src_npoint_const (q : NPointParams ℝ) (n : Nat) (pressure prof : List ℝ) (allEq : Bool) (c : ℝ)
    (hlen : q.tPoints.length = q.pPoints.length) (hw0 : 0 ≤ q.window)
    (hpos : 0 < resolveP q.pTop (pressure.getD (pressure.length - 1) 0))
    (hT : ∀ t ∈ q.tNodes, t = c) (hok : srcNPoint q n pressure allEq = .ok prof) : ∀ t ∈ prof, t = c := by
  intro t ht
  have := src_npoint_between q n pressure prof allEq c c hlen hw0 hpos
    (fun t ht => by rw [hT t ht]; exact ⟨le_refl _, le_refl _⟩) hok t ht
  linarith [this.1, this.2]

/-! ### TemperatureArray -/

/-- the regenerated `TemperatureArray(tp_array, p_points, reverse)` followed by the regenerated `profile` -/
noncomputable def srcTempArray (tp : List ℝ) (pp : Option (List ℝ)) (rev : Bool) (n : Nat) (pressure : List ℝ) : List ℝ :=
  match pp with
  | none => Gen.SrcC12.temparray_profile_plain (fun x xp fp => npInterp xp fp x) (fun a b k => linspace a b k) n
      (Gen.SrcC12.temparray_init_plain tp rev)
  | some pts => Gen.SrcC12.temparray_profile_pressure
      (Gen.SrcC12.temparray_init_pressure tp pts rev interp1dModel).2.2
      (Gen.SrcC12.temparray_init_pressure tp pts rev interp1dModel).2.1 pressure

theorem srcTempArray_eq (tp : List ℝ) (pp : Option (List ℝ)) (rev : Bool) (n : Nat) (pressure : List ℝ) :
    srcTempArray tp pp rev n pressure = tempArray tp pp rev n pressure := by
  cases pp with
  | none => exact src_temparray_plain tp rev n pressure
  | some pts => exact src_temparray_pressure tp pts rev n pressure

/-- TemperatureArray (both code paths, optional reversal), about the regenerated `__init__` + `profile`: one value per
    layer, inside the range of the tabulated temperatures -/
theorem src_array_between (tp : List ℝ) (pp : Option (List ℝ)) (rev : Bool) (n : Nat) (pressure : List ℝ)
    (lo hi : ℝ) (hne : 0 < tp.length) (hpp : ∀ pts, pp = some pts → 0 < pts.length)
    (hn : n = pressure.length) (hT : ∀ t ∈ tp, lo ≤ t ∧ t ≤ hi) :
    (srcTempArray tp pp rev n pressure).length = n ∧ ∀ t ∈ srcTempArray tp pp rev n pressure, lo ≤ t ∧ t ≤ hi := by
  rw [srcTempArray_eq]; exact array_between tp pp rev n pressure lo hi hne hpp hn hT

/-! ### Rodgers 2000 -/

/-- Rodgers 2000 with the default covariance: one value per layer, each inside the range of the layer temperatures,
    about the regenerated `profile` (`gen_covariance` + `correlate_temp`) -/
theorem src_rodgers_between (n : Nat) (h : ℝ) (T p : Nat → ℝ) (lo hi : ℝ) (hh : h ≠ 0)
    (hp : ∀ i, i < n → 0 < p i) (hT : ∀ i, i < n → lo ≤ T i ∧ T i ≤ hi) :
    (srcRodgers n h T p none).length = n ∧ ∀ t ∈ srcRodgers n h T p none, lo ≤ t ∧ t ≤ hi := by
  rw [srcRodgers_eq]
  have := rodgers_between (listOf n T) h (listOf n p) lo hi hh (listOf_forall n p _ hp)
    (by rw [listOf_length, listOf_length]) (listOf_forall n T _ hT)
  rwa [listOf_length] at this

/-- Rodgers: equal layer temperatures give a constant profile, about the regenerated `profile` -/
theorem src_rodgers_const (n : Nat) (h : ℝ) (T p : Nat → ℝ) (c : ℝ) (hh : h ≠ 0)
    (hp : ∀ i, i < n → 0 < p i) (hT : ∀ i, i < n → T i = c) :
    ∀ t ∈ srcRodgers n h T p none, t = c := by
  rw [srcRodgers_eq]
  exact rodgers_const (listOf n T) h (listOf n p) c hh (listOf_forall n p _ hp)
    (by rw [listOf_length, listOf_length]) (listOf_forall n T _ hT)

/-- Rodgers with a user covariance: row-normalised non-negative weights (row sums equal to the column sums the code
    divides by, e.g. any symmetric matrix) keep the regenerated `profile` inside the range of the layer temperatures -/
theorem src_rodgers_user_between (n : Nat) (h : ℝ) (T p : Nat → ℝ) (C : Nat → Nat → ℝ) (lo hi : ℝ)
    (hnn : ∀ i, i < n → ∀ j, j < n → 0 ≤ C i j)
    (hbal : ∀ i (h1 : i < (covOf n C).length) (h2 : i < (colSums (covOf n C)).length),
      (colSums (covOf n C))[i] = sumL (covOf n C)[i] ∧ 0 < sumL (covOf n C)[i])
    (hT : ∀ i, i < n → lo ≤ T i ∧ T i ≤ hi) :
    ∀ t ∈ srcRodgers n h T p (some C), lo ≤ t ∧ t ≤ hi := by
  rw [srcRodgers_eq]
  refine rodgers_user_between (listOf n T) h (covOf n C) (listOf n p) lo hi ?_ ?_ hbal (listOf_forall n T _ hT)
  · intro row hrow
    simp only [covOf, List.mem_map, List.mem_range] at hrow
    obtain ⟨i, hi, rfl⟩ := hrow
    exact listOf_forall n (C i) _ (hnn i hi)
  · intro row hrow
    simp only [covOf, List.mem_map, List.mem_range] at hrow
    obtain ⟨i, _, rfl⟩ := hrow
    rw [listOf_length, listOf_length]

/-! ### Guillot 2010 -/

theorem rejected_iff_invalid (q : GuillotParams ℝ) :
    q.rejected = true ↔ guillot q 0 [] [] [] = .invalid := by
  unfold guillot
  by_cases hr : q.rejected = true <;> simp [hr]

/-- the regenerated `_check_values` raises — and the regenerated `profile` raises instead of returning a value, for every
    layer — exactly for zero opacities (`kappa_ir = 0` or a zero `kappa_v`) or a negative irradiation / internal
    temperature; otherwise `profile` returns a value for every layer -/
theorem src_guillot_rejects (q : GuillotParams ℝ) (g c : ℝ) (expn rpow : ℝ → ℝ → ℝ)
    (hpow : ∀ x, rpow x c = sqrt (sqrt x)) (p : ℝ) :
    (Gen.SrcC12.guillot_check_values q.tInt q.tIrr q.kappaIr q.kappaV1 q.kappaV2 = true ↔
      q.kappaIr = 0 ∨ q.kappaV1 = 0 ∨ q.kappaV2 = 0 ∨ q.tIrr < 0 ∨ q.tInt < 0) ∧
    (srcGuillot q g c expn rpow p = none ↔
      q.kappaIr = 0 ∨ q.kappaV1 = 0 ∨ q.kappaV2 = 0 ∨ q.tIrr < 0 ∨ q.tInt < 0) ∧
    (¬ (q.kappaIr = 0 ∨ q.kappaV1 = 0 ∨ q.kappaV2 = 0 ∨ q.tIrr < 0 ∨ q.tInt < 0) →
      ∃ t, srcGuillot q g c expn rpow p = some t) := by
  have hcheck : Gen.SrcC12.guillot_check_values q.tInt q.tIrr q.kappaIr q.kappaV1 q.kappaV2 = true ↔
      q.kappaIr = 0 ∨ q.kappaV1 = 0 ∨ q.kappaV2 = 0 ∨ q.tIrr < 0 ∨ q.tInt < 0 := by
    rw [srcGuillotCheck_eq, rejected_iff_invalid]
    exact (guillot_rejects q 0 [] [] []).1
  have hlayer := src_guillot_layer q g p c expn rpow hpow
  refine ⟨hcheck, ?_, ?_⟩
  · rw [← hcheck]
    unfold srcGuillot
    rw [hlayer]
    cases Gen.SrcC12.guillot_check_values q.tInt q.tIrr q.kappaIr q.kappaV1 q.kappaV2 <;> simp
  · intro hn
    rw [← hcheck] at hn
    unfold srcGuillot
    rw [hlayer]
    simp only [Bool.not_eq_true] at hn
    rw [hn]
    exact ⟨_, rfl⟩

/-- **Guillot positivity**, about the regenerated `profile`: for positive opacities, non-negative temperatures not both
    zero, `0 ≤ alpha ≤ 1`, positive gravity, and ANY `expn(2, ·)` with the exponential-integral bounds
    `0 ≤ E2 x ≤ exp(-x)/(1+x)` on `x ≥ 0`, every layer of non-negative pressure gets a strictly positive temperature -/
theorem src_guillot_positive (q : GuillotParams ℝ) (g c : ℝ) (expn rpow : ℝ → ℝ → ℝ)
    (hpow : ∀ x, rpow x c = sqrt (sqrt x))
    (hE : ∀ x, 0 ≤ x → 0 ≤ expn 2 x ∧ expn 2 x ≤ Real.exp (-x) / (1 + x))
    (hg : 0 < g) (hk : 0 < q.kappaIr) (h1 : 0 < q.kappaV1) (h2 : 0 < q.kappaV2)
    (hirr : 0 ≤ q.tIrr) (hint : 0 ≤ q.tInt) (hpos : q.tIrr ≠ 0 ∨ q.tInt ≠ 0)
    (ha0 : 0 ≤ q.alpha) (ha1 : q.alpha ≤ 1) (p : ℝ) (hp : 0 ≤ p) :
    ∃ t, srcGuillot q g c expn rpow p = some t ∧ 0 < t := by
  obtain ⟨prof, hok, hl, hpt⟩ := guillot_positive q g [p] (expn 2) hE hg
    (by intro x hx; simp at hx; rw [hx]; exact hp) hk h1 h2 hirr hint hpos ha0 ha1
  have hm := src_guillot_profile real_le_iff q g c expn rpow hpow [p]
  rw [hok] at hm
  obtain ⟨_, hi⟩ := hm
  have h0 := hi 0 (by simp)
  simp only [List.getD_cons_zero] at h0
  refine ⟨prof.getD 0 0, h0, hpt _ ?_⟩
  have hlen : 0 < prof.length := by rw [hl]; simp
  rw [List.getD_eq_getElem?_getD, List.getElem?_eq_getElem hlen]
  exact List.getElem_mem hlen

end Taurex.C12SrcProps
