/-
  C12 — the property theorems restated about the REGENERATED source.  `Props/C12Src.lean` proves that the definitions
  translated on every run from `Isothermal.profile`, `Rodgers2000.gen_covariance/correlate_temp/profile`, the node lists and
  `check_profile` of `NPoint`, `Guillot2010._check_values/profile` compute the model's `isothermal`, `genCovariance`,
  `correlateTemp`, `rodgers`, `NPointParams.tNodes/pNodes/rejected`, `GuillotParams.rejected`, `guillot`; `Props/C12.lean`
  proves the property about those.  The corollaries below compose the two: statements about the text of the code as it
  is now, over ℝ.

  Source expressions (instantiated exactly as the tie theorems instantiate them; the code's arrays are functions
  `Nat → ℝ`, `listOf n` cuts them to the `n` layers):
  * `srcIso t n` — the regenerated `Isothermal.profile`;
  * `srcRodgers n h T p uc` — the regenerated `Rodgers2000.profile` on `n` layers (`uc` = the user covariance if one was
    given, as an array; `covOf n C` its `n × n` rows), the BLAS product `weights.dot(T)` read as the left-to-right sum;
  * `srcNPointRaises q pressure` — the regenerated `NPoint.check_profile` applied to the node lists the regenerated
    `NPoint.profile` builds (`true` = `InvalidTemperatureException`);
  * `Gen.SrcC12.guillot_check_values …` (`true` = `InvalidModelException`) and `srcGuillot q g c expn rpow p` — the
    regenerated `Guillot2010.profile` at one entry `p` of the pressure profile (`none` = `InvalidModelException`).
  Hypotheses of the ties that stay visible: `hpow` (`T4 ** 0.25` read as `sqrt (sqrt T4)`), the constructor's
  `len(t_points) = len(p_points)`; the tie's total-order hypothesis `hle` holds in ℝ.

  Not restated (no tie):
  * `npoint_len`, `npoint_between`, `npoint_const`: the interpolation and smoothing of `NPoint.profile`
    (`NPointParams.interpolated`, `assembleSmoothed`, i.e. the `.ok` branch of `nPoint`) are not translated; only the node
    lists and the rejection test are (`src_npoint_rejects`);
  * `array_between`: `tempArray` (`TemperatureArray.profile`) is not translated;
  * `guillot_rejects` / `guillot_positive` are restated layer by layer (the regenerated `profile` is point-wise in the
    pressure; the list length is a statement about the model's list only).
-/
import Props.C12
import Props.C12Src
set_option linter.unusedSectionVars false

namespace Taurex.C12SrcProps
open Taurex Taurex.NpInterp Taurex.Temperature Taurex.C12 Taurex.C12Src
open Taurex.C10Src (listOf listOf_length listOf_getD)

/-! ### the instantiated source expressions -/

/-- the regenerated `Isothermal.profile`, `n` layers -/
noncomputable def srcIso (t : ℝ) (n : Nat) : List ℝ := listOf n (Gen.SrcC12.isothermal_profile t n)

/-- an `n × n` covariance array as rows -/
noncomputable def covOf (n : Nat) (C : Nat → Nat → ℝ) : List (List ℝ) := (List.range n).map (fun i => listOf n (C i))

/-- the regenerated `Rodgers2000.profile`, `n` layers -/
noncomputable def srcRodgers (n : Nat) (h : ℝ) (T p : Nat → ℝ) (uc : Option (Nat → Nat → ℝ)) : List ℝ :=
  listOf n (Gen.SrcC12.rodgers_profile T h uc (fun W x m i => sumL (listOf m (fun j => W i j * x j))) n n p)

/-- the regenerated `NPoint.check_profile(Pnodes, Tnodes)` on the node lists the regenerated `NPoint.profile` builds -/
noncomputable def srcNPointRaises (q : NPointParams ℝ) (pressure : List ℝ) : Bool :=
  Gen.SrcC12.npoint_check_profile
    (fun i => (Gen.SrcC12.npoint_nodes pressure.length q.pSurface q.pTop q.tSurface q.tTop q.pPoints
      (fun i => pressure.getD i 0) q.tPoints).2.getD i 0)
    (fun i => (Gen.SrcC12.npoint_nodes pressure.length q.pSurface q.pTop q.tSurface q.tTop q.pPoints
      (fun i => pressure.getD i 0) q.tPoints).1.getD i 0)
    (Gen.SrcC12.npoint_nodes pressure.length q.pSurface q.pTop q.tSurface q.tTop q.pPoints
      (fun i => pressure.getD i 0) q.tPoints).2.length q.limitSlope

/-- the regenerated `Guillot2010.profile` at one entry `p` of the pressure profile -/
noncomputable def srcGuillot (q : GuillotParams ℝ) (g c : ℝ) (expn rpow : ℝ → ℝ → ℝ) (p : ℝ) : Option ℝ :=
  Gen.SrcC12.guillot_profile q.tInt q.tIrr q.alpha c expn q.kappaIr q.kappaV1 q.kappaV2 g p rpow

theorem real_le_iff : ∀ a b : ℝ, a ≤ b ↔ ¬ b < a := fun _ _ => not_lt.symm

theorem listOf_forall (n : Nat) (f : Nat → ℝ) (P : ℝ → Prop) (h : ∀ i, i < n → P (f i)) : ∀ x ∈ listOf n f, P x := by
  intro x hx
  simp only [listOf, List.mem_map, List.mem_range] at hx
  obtain ⟨i, hi, rfl⟩ := hx
  exact h i hi

theorem srcIso_eq (t : ℝ) (n : Nat) : srcIso t n = isothermal t n := by
  apply List.ext_getElem
  · simp [srcIso, listOf, isothermal]
  · intro i h1 h2
    have hi : i < n := by simpa [srcIso, listOf] using h1
    have h := src_isothermal t n i hi
    rw [List.getD_eq_getElem?_getD, List.getElem?_eq_getElem h2] at h
    simp only [srcIso, listOf, List.getElem_map, List.getElem_range]
    rw [h]; rfl

theorem srcRodgers_eq (n : Nat) (h : ℝ) (T p : Nat → ℝ) (uc : Option (Nat → Nat → ℝ)) :
    srcRodgers n h T p uc = rodgers (listOf n T) h (uc.map (covOf n)) (listOf n p) :=
  src_rodgers_profile n h T p uc

theorem srcNPointRaises_eq (q : NPointParams ℝ) (pressure : List ℝ) (h : q.tPoints.length = q.pPoints.length) :
    srcNPointRaises q pressure = q.rejected pressure := by
  unfold srcNPointRaises
  rw [src_npoint_nodes]
  exact src_npoint_rejected q pressure h

theorem srcGuillotCheck_eq (q : GuillotParams ℝ) :
    Gen.SrcC12.guillot_check_values q.tInt q.tIrr q.kappaIr q.kappaV1 q.kappaV2 = q.rejected :=
  src_guillot_check real_le_iff q

/-! ### isothermal -/

/-- Isothermal: one value per layer, all equal to the control temperature, about the regenerated `profile` -/
theorem src_iso_const (t : ℝ) (n : Nat) : (srcIso t n).length = n ∧ ∀ v ∈ srcIso t n, v = t := by
  rw [srcIso_eq]; exact iso_const t n

/-! ### NPoint -/

/-- the regenerated `NPoint.check_profile`, on the node lists the regenerated `NPoint.profile` builds, raises exactly when
    two consecutive pressure nodes are not strictly decreasing or a segment's slope |ΔT / Δlog10 P| reaches the limit -/
theorem src_npoint_rejects (q : NPointParams ℝ) (pressure : List ℝ) (h : q.tPoints.length = q.pPoints.length) :
    srcNPointRaises q pressure = true ↔
      (∃ i, ∃ _ : i + 1 < (q.pNodes pressure).length, (q.pNodes pressure)[i] ≤ (q.pNodes pressure)[i + 1]) ∨
      (∃ i, ∃ _ : i + 1 < (q.pNodes pressure).length, ∃ _ : i + 1 < q.tNodes.length,
        q.limitSlope ≤ |(q.tNodes[i + 1] - q.tNodes[i]) /
          (log10 (q.pNodes pressure)[i + 1] - log10 (q.pNodes pressure)[i])|) := by
  rw [srcNPointRaises_eq q pressure h, ← nPoint_invalid_iff q 0 pressure]
  exact npoint_rejects q 0 pressure

/-! ### Rodgers 2000 -/

/-- Rodgers 2000 with the default covariance: one value per layer, each inside the range of the layer temperatures,
    about the regenerated `profile` (`gen_covariance` + `correlate_temp`) -/
theorem src_rodgers_between (n : Nat) (h : ℝ) (T p : Nat → ℝ) (lo hi : ℝ) (hh : h ≠ 0)
    (hp : ∀ i, i < n → 0 < p i) (hT : ∀ i, i < n → lo ≤ T i ∧ T i ≤ hi) :
    (srcRodgers n h T p none).length = n ∧ ∀ t ∈ srcRodgers n h T p none, lo ≤ t ∧ t ≤ hi := by
  rw [srcRodgers_eq]
  have := rodgers_between (listOf n T) h (listOf n p) lo hi hh (listOf_forall n p _ hp)
    (by rw [listOf_length, listOf_length]) (listOf_forall n T _ hT)
  rwa [listOf_length] at this

/-- Rodgers: equal layer temperatures give a constant profile, about the regenerated `profile` -/
theorem src_rodgers_const (n : Nat) (h : ℝ) (T p : Nat → ℝ) (c : ℝ) (hh : h ≠ 0)
    (hp : ∀ i, i < n → 0 < p i) (hT : ∀ i, i < n → T i = c) :
    ∀ t ∈ srcRodgers n h T p none, t = c := by
  rw [srcRodgers_eq]
  exact rodgers_const (listOf n T) h (listOf n p) c hh (listOf_forall n p _ hp)
    (by rw [listOf_length, listOf_length]) (listOf_forall n T _ hT)

/-- Rodgers with a user covariance: row-normalised non-negative weights (row sums equal to the column sums the code
    divides by, e.g. any symmetric matrix) keep the regenerated `profile` inside the range of the layer temperatures -/
theorem src_rodgers_user_between (n : Nat) (h : ℝ) (T p : Nat → ℝ) (C : Nat → Nat → ℝ) (lo hi : ℝ)
    (hnn : ∀ i, i < n → ∀ j, j < n → 0 ≤ C i j)
    (hbal : ∀ i (h1 : i < (covOf n C).length) (h2 : i < (colSums (covOf n C)).length),
      (colSums (covOf n C))[i] = sumL (covOf n C)[i] ∧ 0 < sumL (covOf n C)[i])
    (hT : ∀ i, i < n → lo ≤ T i ∧ T i ≤ hi) :
    ∀ t ∈ srcRodgers n h T p (some C), lo ≤ t ∧ t ≤ hi := by
  rw [srcRodgers_eq]
  refine rodgers_user_between (listOf n T) h (covOf n C) (listOf n p) lo hi ?_ ?_ hbal (listOf_forall n T _ hT)
  · intro row hrow
    simp only [covOf, List.mem_map, List.mem_range] at hrow
    obtain ⟨i, hi, rfl⟩ := hrow
    exact listOf_forall n (C i) _ (hnn i hi)
  · intro row hrow
    simp only [covOf, List.mem_map, List.mem_range] at hrow
    obtain ⟨i, _, rfl⟩ := hrow
    rw [listOf_length, listOf_length]

/-! ### Guillot 2010 -/

theorem rejected_iff_invalid (q : GuillotParams ℝ) :
    q.rejected = true ↔ guillot q 0 [] [] [] = .invalid := by
  unfold guillot
  by_cases hr : q.rejected = true <;> simp [hr]

/-- the regenerated `_check_values` raises — and the regenerated `profile` raises instead of returning a value, for every
    layer — exactly for zero opacities (`kappa_ir = 0` or a zero `kappa_v`) or a negative irradiation / internal
    temperature; otherwise `profile` returns a value for every layer -/
theorem src_guillot_rejects (q : GuillotParams ℝ) (g c : ℝ) (expn rpow : ℝ → ℝ → ℝ)
    (hpow : ∀ x, rpow x c = sqrt (sqrt x)) (p : ℝ) :
    (Gen.SrcC12.guillot_check_values q.tInt q.tIrr q.kappaIr q.kappaV1 q.kappaV2 = true ↔
      q.kappaIr = 0 ∨ q.kappaV1 = 0 ∨ q.kappaV2 = 0 ∨ q.tIrr < 0 ∨ q.tInt < 0) ∧
    (srcGuillot q g c expn rpow p = none ↔
      q.kappaIr = 0 ∨ q.kappaV1 = 0 ∨ q.kappaV2 = 0 ∨ q.tIrr < 0 ∨ q.tInt < 0) ∧
    (¬ (q.kappaIr = 0 ∨ q.kappaV1 = 0 ∨ q.kappaV2 = 0 ∨ q.tIrr < 0 ∨ q.tInt < 0) →
      ∃ t, srcGuillot q g c expn rpow p = some t) := by
  have hcheck : Gen.SrcC12.guillot_check_values q.tInt q.tIrr q.kappaIr q.kappaV1 q.kappaV2 = true ↔
      q.kappaIr = 0 ∨ q.kappaV1 = 0 ∨ q.kappaV2 = 0 ∨ q.tIrr < 0 ∨ q.tInt < 0 := by
    rw [srcGuillotCheck_eq, rejected_iff_invalid]
    exact (guillot_rejects q 0 [] [] []).1
  have hlayer := src_guillot_layer q g p c expn rpow hpow
  refine ⟨hcheck, ?_, ?_⟩
  · rw [← hcheck]
    unfold srcGuillot
    rw [hlayer]
    cases Gen.SrcC12.guillot_check_values q.tInt q.tIrr q.kappaIr q.kappaV1 q.kappaV2 <;> simp
  · intro hn
    rw [← hcheck] at hn
    unfold srcGuillot
    rw [hlayer]
    simp only [Bool.not_eq_true] at hn
    rw [hn]
    exact ⟨_, rfl⟩

/-- **Guillot positivity**, about the regenerated `profile`: for positive opacities, non-negative temperatures not both
    zero, `0 ≤ alpha ≤ 1`, positive gravity, and ANY `expn(2, ·)` with the exponential-integral bounds
    `0 ≤ E2 x ≤ exp(-x)/(1+x)` on `x ≥ 0`, every layer of non-negative pressure gets a strictly positive temperature -/
theorem src_guillot_positive (q : GuillotParams ℝ) (g c : ℝ) (expn rpow : ℝ → ℝ → ℝ)
    (hpow : ∀ x, rpow x c = sqrt (sqrt x))
    (hE : ∀ x, 0 ≤ x → 0 ≤ expn 2 x ∧ expn 2 x ≤ Real.exp (-x) / (1 + x))
    (hg : 0 < g) (hk : 0 < q.kappaIr) (h1 : 0 < q.kappaV1) (h2 : 0 < q.kappaV2)
    (hirr : 0 ≤ q.tIrr) (hint : 0 ≤ q.tInt) (hpos : q.tIrr ≠ 0 ∨ q.tInt ≠ 0)
    (ha0 : 0 ≤ q.alpha) (ha1 : q.alpha ≤ 1) (p : ℝ) (hp : 0 ≤ p) :
    ∃ t, srcGuillot q g c expn rpow p = some t ∧ 0 < t := by
  obtain ⟨prof, hok, hl, hpt⟩ := guillot_positive q g [p] (expn 2) hE hg
    (by intro x hx; simp at hx; rw [hx]; exact hp) hk h1 h2 hirr hint hpos ha0 ha1
  have hm := src_guillot_profile real_le_iff q g c expn rpow hpow [p]
  rw [hok] at hm
  obtain ⟨_, hi⟩ := hm
  have h0 := hi 0 (by simp)
  simp only [List.getD_cons_zero] at h0
  refine ⟨prof.getD 0 0, h0, hpt _ ?_⟩
  have hlen : 0 < prof.length := by rw [hl]; simp
  rw [List.getD_eq_getElem?_getD, List.getElem?_eq_getElem hlen]
  exact List.getElem_mem hlen

end Taurex.C12SrcProps
