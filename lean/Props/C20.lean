/-
  C20 — correlated-k reduces to cross-sections when the k-distribution is degenerate.
  Theorems about `TaurexModel/KTau.lean` (the definitions `driver_c20` executes), over the real carrier.
  Weights `≥ 0`, `Σ w = 1` throughout.
-/
import Proofs.C20
import Proofs.C20Avg

namespace Taurex.C20
open Taurex.Emission Taurex.KTau

/-- Jensen: the weight-averaged exponential is at least the exponential of the weight-averaged optical depth
    (i.e. the k-transmittance is at least the transmittance of the averaged coefficient). -/
theorem k_jensen (taus ws : List ℝ) (hlen : taus.length = ws.length) (hw0 : ∀ w ∈ ws, 0 ≤ w) (hw : ws.sum = 1) :
    Real.exp (-((taus.zip ws).map (fun p => p.1 * p.2)).sum) ≤ transK taus ws := by
  rw [transK_eq]
  have h := tangent_sum (taus.zip ws) (-((taus.zip ws).map (fun p => p.1 * p.2)).sum)
    (fun p hp => hw0 p.2 (List.of_mem_zip hp).2)
  rw [sum_snd_zip taus ws hlen, hw] at h
  have e : (1 - -((taus.zip ws).map (fun p => p.1 * p.2)).sum) * 1 - ((taus.zip ws).map (fun p => p.1 * p.2)).sum = 1 := by
    ring
  rw [e, mul_one] at h
  exact h

example : Real.exp (-(([1, 2, 5].zip [(1/2 : ℝ), 1/3, 1/6]).map (fun p => p.1 * p.2)).sum)
    ≤ transK [1, 2, 5] [1/2, 1/3, 1/6] :=
  k_jensen _ _ rfl (by intro w hw; simp at hw; rcases hw with h | h | h <;> subst h <;> norm_num) (by norm_num)

/-- the transmittance along a path lies in `(0, 1]` for non-negative optical depths -/
theorem k_trans_unit (taus ws : List ℝ) (hlen : taus.length = ws.length) (hw0 : ∀ w ∈ ws, 0 ≤ w) (hw : ws.sum = 1)
    (ht : ∀ t ∈ taus, 0 ≤ t) : 0 < transK taus ws ∧ transK taus ws ≤ 1 := by
  constructor
  · exact lt_of_lt_of_le (Real.exp_pos _) (k_jensen taus ws hlen hw0 hw)
  · rw [transK_eq]
    have := exp_le_one_sum (taus.zip ws) (fun p hp => hw0 p.2 (List.of_mem_zip hp).2)
      (fun p hp => ht p.1 (List.of_mem_zip hp).1)
    rw [sum_snd_zip taus ws hlen, hw] at this
    exact this

example : 0 < transK [1, 2, 5] [(1/2 : ℝ), 1/3, 1/6] ∧ transK [1, 2, 5] [(1/2 : ℝ), 1/3, 1/6] ≤ 1 :=
  k_trans_unit _ _ rfl (by intro w hw; simp at hw; rcases hw with h | h | h <;> subst h <;> norm_num) (by norm_num)
    (by intro t ht; simp at ht; rcases ht with h | h | h <;> subst h <;> norm_num)

/-- the optical depth the k-path adds is non-negative and at most the weight-averaged optical depth -/
theorem k_tau_bounds (taus ws : List ℝ) (hlen : taus.length = ws.length) (hw0 : ∀ w ∈ ws, 0 ≤ w) (hw : ws.sum = 1)
    (ht : ∀ t ∈ taus, 0 ≤ t) :
    0 ≤ ktau taus ws ∧ ktau taus ws ≤ ((taus.zip ws).map (fun p => p.1 * p.2)).sum := by
  obtain ⟨hpos, hle⟩ := k_trans_unit taus ws hlen hw0 hw ht
  have hj := k_jensen taus ws hlen hw0 hw
  unfold ktau
  simp only [log_real]
  constructor
  · have := Real.log_nonpos hpos.le hle
    linarith
  · have := Real.log_le_log (Real.exp_pos _) hj
    rw [Real.log_exp] at this
    linarith

/-- degenerate k-distribution (all g-points carry the same optical depth): the k-path adds exactly `τ`,
    for any weights summing to one -/
theorem k_degenerate (taus ws : List ℝ) (τ : ℝ) (hlen : taus.length = ws.length) (hall : ∀ t ∈ taus, t = τ)
    (hw : ws.sum = 1) : ktau taus ws = τ := by
  unfold ktau
  simp only [log_real]
  rw [transK_const taus ws τ hlen hall, hw, mul_one, Real.log_exp]
  ring

example : ktau [3, 3, 3] [(1/2 : ℝ), 1/3, 1/6] = 3 :=
  k_degenerate _ _ 3 rfl (by intro t ht; simp at ht; exact ht) (by norm_num)

/-- transmission: with coefficients identical across g, `contribute_ktau` adds to `tau[l, wn]` exactly what
    `contribute_tau` adds for the same numbers used as a cross-section -/
theorem k_degenerate_row (sigma3 : List (List ℝ)) (sigma path dens ws : List ℝ) (n l : Nat) (acc : ℝ)
    (hdeg : ∀ k g, g < ws.length → at3 sigma3 k g = sigma.getD k 0) (hw : ws.sum = 1) :
    ktauRow sigma3 path dens ws n l acc = tauRowX sigma path dens n l acc := by
  unfold ktauRow
  rw [tauRowX_acc]
  congr 1
  apply k_degenerate _ _ _ (by simp) _ hw
  intro t ht
  simp only [List.mem_map, List.mem_range] at ht
  obtain ⟨g, hg, rfl⟩ := ht
  unfold tauG tauRowX
  congr 1
  funext a k
  rw [hdeg (k + l) g hg]

example : ktauRow [[2, 2], [3, 3]] [1, 1] [1, 1] [(1/4 : ℝ), 3/4] 2 0 0 = tauRowX [2, 3] [1, 1] [1, 1] 2 0 0 :=
  k_degenerate_row _ _ _ _ _ 2 0 0 (by
    intro k g hg
    simp at hg
    match k, g, hg with
    | 0, 0, _ => rfl
    | 0, 1, _ => rfl
    | 1, 0, _ => rfl
    | 1, 1, _ => rfl
    | k + 2, 0, _ => simp [at3]
    | k + 2, 1, _ => simp [at3]) (by norm_num)

/-- emission: with coefficients identical across g (and weights summing to one) the k-table intensity of
    `evaluate_emission_ktables` equals the documented (unclamped) integral of the cross-section model on the same
    numbers, the molecular absorption entering as an ordinary `σ·dz·ρ` contribution.  Together with `C02.clamp_band`
    this bounds the difference to the cross-section code path by the licensed `exp(-10)` band. -/
theorem k_degenerate_emission (k : PC ℝ) (nonmol : List (Kind × List ℝ)) (sigma3 : List (List ℝ))
    (sigma ws dz dens temps : List ℝ) (nu m : ℝ)
    (hdeg : ∀ j g, g < ws.length → at3 sigma3 j g = sigma.getD j 0) (hw : ws.sum = 1) :
    emissionK k nonmol sigma3 ws dz dens temps nu m
      = intensityUncut k dz dens temps m ⟨nu, (Kind.lin, sigma) :: nonmol⟩ :=
  emissionK_deg k nonmol sigma3 sigma ws dz dens temps nu m hdeg hw

example : emissionK ⟨3, 1, 1, 1, 1, 1⟩ [(Kind.sq, [1, 1])] [[2, 2], [3, 3]] [(1/4 : ℝ), 3/4] [1, 1] [1, 2] [5, 4] 2 1
    = intensityUncut ⟨3, 1, 1, 1, 1, 1⟩ [1, 1] [1, 2] [5, 4] 1 ⟨2, [(Kind.lin, [2, 3]), (Kind.sq, [1, 1])]⟩ :=
  k_degenerate_emission _ _ _ _ _ _ _ _ _ _ (by
    intro k g hg
    simp at hg
    match k, g, hg with
    | 0, 0, _ => rfl
    | 0, 1, _ => rfl
    | 1, 0, _ => rfl
    | 1, 1, _ => rfl
    | k + 2, 0, _ => simp [at3]
    | k + 2, 1, _ => simp [at3]) (by norm_num)

/-- emission WITHOUT a molecular absorption contribution (a model built from scattering / haze / CIA contributions only; each
    non-molecular entry of `model_contrib()`): the k-table path `evaluate_emission_ktables` then computes, for whatever
    k-tables are installed, the documented (unclamped) integral of the cross-section model over the same contributions.
    Together with `C02.clamp_band` this bounds the difference to the cross-section code path by the licensed band, as in
    `k_degenerate_emission`; with a single molecular contribution and no other, `k_degenerate_emission` (`nonmol = []`) is
    the statement for the `Absorption` entry of `model_contrib()`. -/
theorem k_emission_without_molecules (k : PC ℝ) (contribs : List (Kind × List ℝ)) (dz dens temps : List ℝ) (nu m : ℝ) :
    emissionKNoMol k contribs dz dens temps nu m = intensityUncut k dz dens temps m ⟨nu, contribs⟩ := by
  rw [intensityUncut_fold]
  unfold emissionKNoMol
  simp only [exp_real, layerTau, dTau, surfTau]
  congr 3
  ring

example : emissionKNoMol ⟨3, 1, 1, 1, 1, 1⟩ [(Kind.lin, [2, 3]), (Kind.sq, [1, 1])] [1, 1] [1, 2] [5, 4] 2 (1 : ℝ)
    = intensityUncut ⟨3, 1, 1, 1, 1, 1⟩ [1, 1] [1, 2] [5, 4] 1 ⟨2, [(Kind.lin, [2, 3]), (Kind.sq, [1, 1])]⟩ :=
  k_emission_without_molecules _ _ _ _ _ _ _

/-- **linear identification**: the weight-averaged optical depth of the g-points is the optical depth of the
    weight-averaged coefficient -/
theorem k_avg_linear (sigma3 : List (List ℝ)) (path dens ws : List ℝ) (n l : Nat) :
    ((((List.range ws.length).map (tauG sigma3 path dens n l)).zip ws).map (fun p => p.1 * p.2)).sum
      = tauRowX ((List.range n).map (avgSigma sigma3 ws)) path dens n l 0 := by
  rw [zip_range_map]
  unfold tauG tauRowX
  simp only [foldl_add_sum', zero_add]
  have h := sum_comm_range (fun k g => at3 sigma3 (k + l) g) (fun k => path.getD k 0 * dens.getD (k + l) 0)
    (fun g => ws.getD g 0) (n - l) ws.length
  simp only [← mul_assoc] at h
  rw [h]
  congr 1
  apply List.map_congr_left
  intro k hk
  have hk' : k + l < n := by
    have := List.mem_range.1 hk; omega
  have : ((List.range n).map (avgSigma sigma3 ws)).getD (k + l) 0 = avgSigma sigma3 ws (k + l) := by
    simp [List.getD_eq_getElem?_getD, hk']
  rw [this]
  unfold avgSigma
  ring

/-- **Jensen at row level**: the k-transmittance of a tangent layer is at least the transmittance obtained from the
    weight-averaged coefficient used as a cross-section -/
theorem k_jensen_row (sigma3 : List (List ℝ)) (path dens ws : List ℝ) (n l : Nat)
    (hw0 : ∀ w ∈ ws, 0 ≤ w) (hw : ws.sum = 1) :
    Real.exp (-(tauRowX ((List.range n).map (avgSigma sigma3 ws)) path dens n l 0))
      ≤ transK ((List.range ws.length).map (tauG sigma3 path dens n l)) ws := by
  rw [← k_avg_linear]
  exact k_jensen _ ws (by simp) hw0 hw

/-- NV: two layers, two g-points, weights 1/4 and 3/4 -/
example : (∀ w ∈ [(1/4 : ℝ), 3/4], 0 ≤ w) ∧ [(1/4 : ℝ), 3/4].sum = 1 := by
  constructor
  · intro w hw; simp at hw; rcases hw with rfl | rfl <;> norm_num
  · norm_num

end Taurex.C20
