/-
  C18 — source tie.  `TaurexModel/Gen/SrcC18.lean` is regenerated on every run by `harness/translate.py` (dialect `obj`)
  from the source text of taurex/util/math.py:OnlineVariance.  The theorems below state, for EVERY carrier (no algebra is
  used), that the regenerated methods are the hand-written model functions of `TaurexModel/Variance.lean` that the C18
  theorems are about and that `driver_c18` executes.

  How the Python state is related to the model's `Acc`:
  * `self.mean` / `self.M2` are `None` until the first `update` (`Option α` in the translation).  The model keeps plain
    numbers and the invariant "`mean is None` ⇔ `count = 0`" (`reset` clears, `update` sets): `pyOpt a v` is the Python
    attribute of the accumulator `a` whose model field is `v`.  `src_update_stream` shows that the translated `reset`
    followed by the translated `update`s stays inside that encoding, so the invariant is a theorem about the translated
    code, not an assumption;
  * `self.count` is a Python float that `update` increments by one, `self.wcount2` accumulates `weight*weight`; the model
    counts in `Nat` and has no `wcount2` (nothing reads it).  The tie carries them as the free components `c`, `w2`;
  * `try: … except ZeroDivisionError` in `update`: whether `weight / self.wcount` raises is the parameter
    `raised_ZeroDivisionError`; it is `false` inside the quantified domain (numpy scalars never raise; the optimizer adds
    1e-300 to every weight, the C18 theorems assume positive weights) — the same reading as the model's doc comment;
  * `raise_value`: a `TypeError` (`None` used in arithmetic) is never reached from an encoded state.

  Second half (dialect `par`, harness/translate_par.py): the PARALLEL code —
  `OnlineVariance.parallelVariance`, the generator `sample_iter` of `Optimizer.generate_profiles` and
  `Optimizer.compute_derived_trace` (taurex/optimizer/optimizer.py).
  * An MPI collective is matched across the ranks by the order of the calls: the k-th collective call of a function is the
    parameter `allgather k x` / `allreduce k x` (x = what THIS rank contributes, the value = what the collective returns on this
    rank).  The ties quantify over the local states of ALL ranks and over the calling rank `r`, and instantiate the k-th
    collective with the list, in rank order, of what every rank contributes to it — the calling rank's entry being the `x` the
    regenerated code computed (`gatherAt`, `concatAt` in `Proofs/C18SrcPar.lean`).  That the calling rank's `x` is what the
    model says it sends is proved from the regenerated code, for every `r`; so every entry of the list is what the
    regenerated code sends on that rank.
  * `range(rank, n, size)` / `sample_list[rank::size]` are translated to `List.range' rank ((n - rank + size - 1) / size) size`
    (and the elements at those indices); `strided_range_eq` / `slice_eq_strided` prove that this is the model's `strided`.
    `rank < size` is what MPI guarantees.
  * the objects the optimizer acts on (`update_model`, `initialize_profiles`, `derived_values`) are one opaque state `W`
    threaded through the calls (the translator's `world`).
-/
import TaurexModel.Gen.SrcC18
import TaurexModel.Variance
import Proofs.C18SrcLemmas
import Proofs.C18SrcPar
set_option linter.unusedSectionVars false
set_option linter.unusedVariables false
set_option linter.unusedSimpArgs false

namespace Taurex.C18Src
open Taurex.Variance

section
variable {α : Type} [Add α] [Sub α] [Mul α] [Div α] [Neg α] [LT α] [LE α]
  [DecidableLT α] [DecidableLE α] [Taurex.Transc α] [BEq α] [OfNat α 0] [OfNat α 1] [OfNat α 2]

/-- the Python attribute (`self.mean`, `self.M2`) of an accumulator whose model field is `v`: `None` before the first update -/
def pyOpt (a : Acc α) (v : α) : Option α := if a.count = 0 then none else some v

/-- the five attributes `(count, wcount, wcount2, mean, M2)` of the Python object that the accumulator `a` stands for -/
def enc (a : Acc α) (c w2 : α) : α × α × α × Option α × Option α :=
  (c, a.wcount, w2, pyOpt a a.mean, pyOpt a a.m2)

/-- `OnlineVariance.update(value, weight)` applied to an attribute tuple -/
def pyUpdate (st : α × α × α × Option α × Option α) (p : α × α) : α × α × α × Option α × Option α :=
  Gen.SrcC18.OnlineVariance_update p.1 p.2 (M2 := st.2.2.2.2) (count := st.1) (mean := st.2.2.2.1)
    (raised_ZeroDivisionError := false) (wcount := st.2.1) (wcount2 := st.2.2.1)

/-- `OnlineVariance.reset()` is the encoding of `Acc.empty` -/
theorem src_reset : (Gen.SrcC18.OnlineVariance_reset : α × α × α × Option α × Option α) = enc Acc.empty 0 0 := rfl

/-- one `OnlineVariance.update` on the attributes of `a` gives the attributes of the model's `update a x w` -/
theorem src_update (a : Acc α) (x w c w2 : α) :
    pyUpdate (enc a c w2) (x, w) = enc (update a x w) (c + 1) (w2 + w * w) := by
  by_cases h : a.count = 0 <;>
    simp [pyUpdate, enc, pyOpt, Gen.SrcC18.OnlineVariance_update, update, h]

/-- a stream of updates from any encoded state -/
theorem src_update_fold (l : List (α × α)) (a : Acc α) (c w2 : α) :
    l.foldl pyUpdate (enc a c w2)
      = enc (l.foldl (fun a p => update a p.1 p.2) a) (l.foldl (fun c _ => c + 1) c)
          (l.foldl (fun s p => s + p.2 * p.2) w2) := by
  induction l generalizing a c w2 with
  | nil => rfl
  | cons p l ih =>
    obtain ⟨x, w⟩ := p
    simp only [List.foldl_cons]
    rw [src_update, ih]

/-- a whole stream: `reset()` then `update(x, w)` for every sample is the model's `accOf` — in particular the translated
    code keeps `mean`/`M2` None exactly while no sample has been seen -/
theorem src_update_stream (l : List (α × α)) :
    l.foldl pyUpdate Gen.SrcC18.OnlineVariance_reset
      = enc (accOf l) (l.foldl (fun c _ => c + 1) 0) (l.foldl (fun s p => s + p.2 * p.2) 0) := by
  rw [src_reset]
  exact src_update_fold l Acc.empty 0 0

/-- the `variance` property: the threshold `count < 2` and the quotient `M2 / wcount` are the model's; `hc` relates the
    Python float `count` (value `c`) to the model's natural `count`; `nanv` is whatever `np.nan` evaluates to -/
theorem src_variance (a : Acc α) (c w2 nanv : α) (hc : c < 2 ↔ a.count < 2) :
    variance a = if c < 2 then npNan
      else Obj.ofNum (Gen.SrcC18.OnlineVariance_variance (M2 := (enc a c w2).2.2.2.2) (count := c) (np_nan := nanv)
                        (wcount := (enc a c w2).2.1)) := by
  by_cases h : a.count < 2
  · simp [variance, h, hc]
  · have h0 : a.count ≠ 0 := by omega
    simp [variance, h, hc, enc, pyOpt, h0, Gen.SrcC18.OnlineVariance_variance]

/-- below two samples the property returns the `np.nan` object itself (whatever the attributes are) -/
theorem src_variance_nan (m2 : Option α) (c nanv wc : α) (h : c < 2) :
    Gen.SrcC18.OnlineVariance_variance (M2 := m2) (count := c) (np_nan := nanv) (wcount := wc) = nanv := by
  simp [Gen.SrcC18.OnlineVariance_variance, h]

/-! ## `combine_variance`

  The pooled combination is compared with the model at the carrier of Python float OBJECTS (`Variance.Obj α`, instances in
  `Proofs/C18SrcLemmas.lean`): the code distinguishes `avg is np.nan` (identity, parameter `is_np_nan` = the object's tag)
  from `var != var` (value).  `averages` / `variance` are the gathered objects, `counts` the gathered weights (numbers).
  `none` = the Python raises (`None /= size`, `None += …`).  Hypotheses: `hbeq` — the model tests `cnt == 0` with the
  carrier's `BEq`, the translation reads numpy's float `==` as `a ≤ b ∧ b ≤ a` (both hold of IEEE doubles and of ℝ);
  `hrefl` — a number is `≤` itself (so that `var != var` singles out NaN). -/

/-- `combine_variance(averages, variance, counts)` is the model's `combine` with the NaN-by-value test (current code) -/
theorem src_combine (hbeq : ∀ a b : α, (a == b) = (decide (a ≤ b) && decide (b ≤ a))) (hrefl : ∀ x : α, x ≤ x)
    (avgs vars : List (Obj α)) (counts : List α) :
    (Gen.SrcC18.combine_variance (α := Obj α) avgs vars (counts.map Obj.ofNum) (is_np_nan := fun o => o.isNpNan)).map
        (fun p => (p.1.val, p.2.val))
      = combine nanByValue avgs vars counts := by
  unfold Gen.SrcC18.combine_variance combine
  dsimp only
  rw [show (0 : Obj α) = Obj.ofNum 0 from rfl, sum_ofNum]
  generalize hA : List.foldl _ none (List.zip avgs (counts.map Obj.ofNum)) = A
  have h1 : A.map Obj.val = loop1 (avgs.zip counts) none := by
    rw [← hA]
    refine loop1_gen _ ?_ avgs counts none
    intro g avg cnt
    have hz : (decide (Obj.ofNum cnt ≤ (Obj.ofNum 0 : Obj α)) && decide ((Obj.ofNum 0 : Obj α) ≤ Obj.ofNum cnt))
        = (cnt == 0) := by
      rw [hbeq, decide_le, decide_le]; rfl
    simp only [hz, step1M]
    by_cases h0 : (cnt == 0) = true
    · simp [h0]
    · cases hn : avg.isNpNan <;> cases g <;> simp [h0, hn] <;> rfl
  rw [← h1]
  cases A with
  | none => rfl
  | some a =>
    simp only [Option.map_some]
    have hc : List.map (fun (x : Obj α) => x * (Obj.ofNum (List.foldl (fun x1 x2 => x1 + x2) 0 counts) /
          Obj.ofNum (List.foldl (fun x1 x2 => x1 + x2) 0 counts))) (List.map Obj.ofNum counts)
        = (counts.map (fun c => c * (sumList counts / sumList counts))).map Obj.ofNum := by
      rw [List.map_map, List.map_map]; rfl
    rw [hc]
    generalize hB : List.foldl _ (some none) (List.zip avgs (List.zip (List.map Obj.ofNum _) vars)) = B
    have h2 : B.map (Option.map Obj.val) = loop2 nanByValue (vdiv a.val (Val.fin (sumList counts)))
        (avgs.zip ((counts.map (fun c => c * (sumList counts / sumList counts))).zip vars)) none := by
      rw [← hB]
      refine loop2_gen nanByValue _ _ ?hn ?hf avgs vars _ none
      case hn => intro it; rfl
      case hf =>
        intro g avg cnt var
        have hz : (decide (Obj.ofNum cnt ≤ (Obj.ofNum 0 : Obj α)) && decide ((Obj.ofNum 0 : Obj α) ≤ Obj.ofNum cnt))
            = (cnt == 0) := by
          rw [hbeq, decide_le, decide_le]; rfl
        have hp : decide ((Obj.ofNum 0 : Obj α) < Obj.ofNum cnt) = decide (0 < cnt) := by
          rw [decide_lt]; rfl
        have hv : (decide (var ≤ var) && decide (var ≤ var)) = !(nanByValue var) := by
          rw [decide_le]; unfold Obj.leB nanByValue; cases var.val <;> simp [hrefl]
        simp only [hz, hp, hv, step2M]
        by_cases h0 : (cnt == 0) = true
        · simp [h0]
        · by_cases hpos : 0 < cnt <;> cases hn : nanByValue var <;> cases g <;> simp [h0, hpos, hn] <;> rfl
    rw [← h2]
    cases B with
    | none => rfl
    | some sq => cases sq <;> rfl


/-- the hypotheses of `src_combine` hold, e.g., of the natural numbers -/
example : (∀ a b : Nat, (a == b) = (decide (a ≤ b) && decide (b ≤ a))) ∧ (∀ x : Nat, x ≤ x) := by
  refine ⟨fun a b => ?_, fun x => Nat.le_refl x⟩
  by_cases h : a = b
  · simp [h]
  · have h1 : (a == b) = false := by simp [h]
    have h2 : (decide (a ≤ b) && decide (b ≤ a)) = false := by
      simp only [Bool.and_eq_false_iff, decide_eq_false_iff_not]; omega
    rw [h1, h2]

end

/-! ## the parallel code (dialect `par`) -/

section
variable {α : Type} [Add α] [Sub α] [Mul α] [Div α] [Neg α] [LT α] [LE α]
  [DecidableLT α] [DecidableLE α] [Taurex.Transc α] [BEq α] [OfNat α 0] [OfNat α 1] [OfNat α 2]

/-- the regenerated `variance` property at the carrier of float objects, on the attributes of `a`, is the model's `variance`
    (the object `np.nan` itself below two samples); `cnt n` = the Python float `self.count` after n updates -/
theorem src_variance_obj (a : Acc α) (cnt : ℕ → α) (hc1 : ∀ n, cnt n < 2 ↔ n < 2) :
    Gen.SrcC18.OnlineVariance_variance (α := Obj α) (M2 := (pyOpt a a.m2).map Obj.ofNum) (count := Obj.ofNum (cnt a.count))
        (np_nan := npNan) (wcount := Obj.ofNum a.wcount) = variance a := by
  unfold Gen.SrcC18.OnlineVariance_variance variance
  have h2 : decide (Obj.ofNum (cnt a.count) < (2 : Obj α)) = decide (a.count < 2) := by
    rw [decide_lt]
    show decide (cnt a.count < 2) = _
    exact decide_eq_decide.2 (hc1 a.count)
  rw [h2]
  by_cases h : a.count < 2
  · simp [h]
  · have h0 : a.count ≠ 0 := by omega
    simp [h, pyOpt, h0]
    rfl

/-- `OnlineVariance.parallelVariance()` on rank `r` of the ranks whose accumulators are `ranks` (`ranks[r] = a`: the attributes
    of the calling object are those of `a`), with the four `mpi.allgather`s returning the rank-ordered lists of what every rank
    contributes (`gatherAt`: its variance object, its mean object — `np.nan` for a `None` mean —, `wcount`, `count`; each
    through one exchange `exch`), is the model's `parallelVariance nanByValue exch ranks` — including the test
    `sum(all_counts) < 2 → np.nan` and the NaN mean object.  Hypotheses: `hbeq`, `hrefl` as in `src_combine`; `cnt` = the
    Python float of a count with `hc1`, `hcs` (comparing such floats / their left-to-right sum with 2 is comparing the
    naturals: exact in IEEE doubles below 2^53, and in ℝ); `hex`: an exchange returns a number as that number (pickling keeps
    the value; only the identity of `np.nan` is lost). -/
theorem src_parallelVariance (hbeq : ∀ a b : α, (a == b) = (decide (a ≤ b) && decide (b ≤ a))) (hrefl : ∀ x : α, x ≤ x)
    (cnt : ℕ → α) (hc1 : ∀ n, cnt n < 2 ↔ n < 2) (hcs : ∀ l : List ℕ, sumList (l.map cnt) < 2 ↔ l.sum < 2)
    (exch : Obj α → Obj α) (hex : ∀ x : α, exch (Obj.ofNum x) = Obj.ofNum x)
    (ranks : List (Acc α)) (r : ℕ) (a : Acc α) (hr : ranks[r]? = some a) :
    (Gen.SrcC18.parallelVariance (α := Obj α) (M2 := (pyOpt a a.m2).map Obj.ofNum) (count := Obj.ofNum (cnt a.count))
        (mean := (pyOpt a a.mean).map Obj.ofNum) (np_nan := npNan) (wcount := Obj.ofNum a.wcount)
        (allgather := gatherAt exch cnt ranks r) (is_np_nan := fun o => o.isNpNan)).map Obj.val
      = parallelVariance nanByValue exch ranks := by
  unfold Gen.SrcC18.parallelVariance parallelVariance
  dsimp only
  rw [src_variance_obj a cnt hc1]
  generalize hg1 : gatherAt exch cnt ranks r 1 _ = G1
  have hG1 : G1 = ranks.map (fun b => exch (sentBy cnt 1 b)) := by
    rw [← hg1]
    refine gatherAt_eq exch cnt ranks r 1 a _ hr ?_
    unfold pyOpt sentBy meanObj
    by_cases h : a.count = 0 <;> simp [h]
  rw [hG1, gatherAt_eq exch cnt ranks r 0 a (variance a) hr rfl,
    gatherAt_eq exch cnt ranks r 2 a (Obj.ofNum a.wcount) hr rfl,
    gatherAt_eq exch cnt ranks r 3 a (Obj.ofNum (cnt a.count)) hr rfl]
  have hcounts : ranks.map (fun b => exch (sentBy cnt 2 b)) = (ranks.map (·.wcount)).map Obj.ofNum := by
    rw [List.map_map]; apply List.map_congr_left; intro b _; exact hex _
  have hall : ranks.map (fun b => exch (sentBy cnt 3 b)) = ((ranks.map (·.count)).map cnt).map Obj.ofNum := by
    rw [List.map_map, List.map_map]; apply List.map_congr_left; intro b _; exact hex _
  rw [hcounts, hall]
  simp only [sentBy]
  rw [show (0 : Obj α) = Obj.ofNum 0 from rfl, sum_ofNum]
  have h2 : decide (Obj.ofNum (List.foldl (· + ·) 0 ((ranks.map (·.count)).map cnt)) < (2 : Obj α))
      = decide ((ranks.map (·.count)).sum < 2) := by
    rw [decide_lt]
    show decide (sumList ((ranks.map (·.count)).map cnt) < 2) = _
    exact decide_eq_decide.2 (hcs _)
  rw [h2]
  by_cases h : (ranks.map (·.count)).sum < 2
  · simp [h]; rfl
  · simp only [h, decide_false, Bool.false_eq_true, if_false]
    rw [← src_combine hbeq hrefl]
    generalize Gen.SrcC18.combine_variance (α := Obj α) _ _ _ _ = X
    cases X <;> rfl

/-- the hypotheses on `cnt` hold, e.g., of the natural numbers themselves -/
example : (∀ n : ℕ, id n < 2 ↔ n < 2) ∧ (∀ l : List ℕ, sumList (l.map id) < 2 ↔ l.sum < 2) := by
  refine ⟨fun _ => Iff.rfl, fun l => ?_⟩
  have h : ∀ (l : List ℕ) (a : ℕ), l.foldl (· + ·) a = a + l.sum := by
    intro l
    induction l with
    | nil => intro a; simp
    | cons x l ih => intro a; rw [List.foldl_cons, ih, List.sum_cons]; omega
  rw [List.map_id, sumList, h, Nat.zero_add]

end

/-- the generator `sample_iter` that `generate_profiles` hands to `compute_error`, on rank `rank` of `size`: it visits the
    samples `sample_list[rank::size]` — the model's `strided rank size sample_list` — in order; for each, `update_model`
    is applied to the state of the forward model and the weight is yielded (`walk`: the list of (state at the yield, weight)).
    Generic in the sample type, the weights' carrier and the state. -/
theorem src_sample_iter {α P W : Type} (sample_list : List (P × α)) (rank size : ℕ) (hr : rank < size)
    (um : W → P → W) (w0 : W) :
    Gen.SrcC18.sample_iter sample_list rank size um w0 = walk um w0 (strided rank size sample_list) := by
  unfold Gen.SrcC18.sample_iter
  dsimp only
  rw [show (List.length sample_list - rank + size - 1) / size = rangeCount rank sample_list.length size from rfl,
    slice_eq_strided hr, walk_fold]
  rfl

section
variable {α : Type} [OfNat α 0]

/-- what rank `j` contributes to the k-th `mpi.allreduce(…, op='SUM')` of `compute_derived_trace` for one derived parameter
    whose value on sample i is `tr i` and whose weight is `wt i` (k = 1: its trace, k = 2: its weights): the entries of its
    samples `range(j, n, size)` in order -/
def sentTrace (size n : ℕ) (tr wt : ℕ → α) (k j : ℕ) : List α :=
  strided j size ((List.range n).map (if k = 1 then tr else wt))

/-- `Optimizer.compute_derived_trace` for one derived parameter, on rank `r` of `size`, `n` samples: the loop over
    `range(rank, n, size)` evaluates the rank's samples in order; the three `mpi.allreduce(…, op='SUM')` return the
    concatenation in rank order (`concatAt`) of the ranks' index lists `range(j, n, size)` (= `strided j size (range n)`),
    traces and weights; `restore = all_index.argsort()` (`argsort`: the model's) and `[restore]`.  The stored 'trace' is the
    model's `derivedTraceGather size` of the trace in sample order.  `hdv`: the derived value read after
    `update_model(p)`, `initialize_profiles()` depends on `p` only (what C07 states of the update).  The quantile summary
    (`quantile_corner`, `np.average`, the literals) does not enter the stored trace: arbitrary. -/
theorem src_compute_derived_trace {P W : Type} (n size r : ℕ) (hr : r < size) (samples : ℕ → P) (weights : ℕ → α)
    (um : W → P → W) (ip : W → W) (dv : W → α) (value : P → α) (hdv : ∀ w p, dv (ip (um w p)) = value p) (w0 : W)
    (average : List α → List α → α) (quantile_corner : List α → List α → List α → List α) (q16 q50 q84 : α) :
    Gen.SrcC18.compute_derived_trace n
        (allreduce := fun k => concatAt size r (sentTrace size n (fun i => value (samples i)) weights k))
        (allreduce_nat := fun _ => concatAt size r (fun j => strided j size (List.range n)))
        (argsort_nat := argsort) (average := average) (c0p16 := q16) (c0p5 := q50) (c0p84 := q84) (derived_values := dv)
        (initialize_profiles := ip) (mpi_rank := r) (mpi_size := size) (quantile_corner := quantile_corner)
        (samples := samples) (update_model := um) (w__ := w0) (weights := weights)
      = derivedTraceGather size ((List.range n).map (fun i => value (samples i))) := by
  have hs : 0 < size := by omega
  unfold Gen.SrcC18.compute_derived_trace
  dsimp only
  rw [show (n - r + size - 1) / size = rangeCount r n size from rfl]
  rw [trace_fold um ip dv value hdv samples weights _ w0 [] []]
  rw [List.nil_append, map_range'_strided hr,
    concatAt_eq size r (fun j => strided j size (List.range n)) _ (strided_range_eq hr n).symm,
    concatAt_eq size r (sentTrace size n (fun i => value (samples i)) weights 1) _ (by simp [sentTrace])]
  set trace := (List.range n).map (fun i => value (samples i)) with htr
  have hgi : ((List.range size).map (fun j => strided j size (List.range n))).flatten
      = gatherLists (partition size (List.range trace.length)) := by simp [gatherLists, partition, htr]
  have hgt : ((List.range size).map (sentTrace size n (fun i => value (samples i)) weights 1)).flatten
      = gatherLists (partition size trace) := by
    simp only [gatherLists, partition, htr]; congr 1
  rw [hgi, hgt]
  unfold derivedTraceGather restoreOrder
  dsimp only
  apply map_getD_eq_takeIdx
  intro i hi
  have hp := argsort_perm (gatherLists (partition size (List.range trace.length)))
  have hlen1 : (gatherLists (partition size (List.range trace.length))).length = trace.length := by
    have := (partition_flatten_perm hs (List.range trace.length)).length_eq
    simpa [gatherLists] using this
  have hlen2 : (gatherLists (partition size trace)).length = trace.length :=
    (partition_flatten_perm hs trace).length_eq
  rw [hlen1] at hp
  rw [hlen2]
  exact List.mem_range.1 (hp.subset hi)

/-- the keys of the stored record: the translated component is the one stored under 'trace' -/
theorem src_compute_derived_trace_keys : Gen.SrcC18.compute_derived_trace_keys = ["trace"] := rfl

end

end Taurex.C18Src
