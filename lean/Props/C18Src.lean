/-
  C18 — source tie.  `TaurexModel/Gen/SrcC18.lean` is regenerated on every run by `harness/translate.py` (dialect `obj`)
  from the source text of taurex/util/math.py:OnlineVariance.  The theorems below state, for EVERY carrier (no algebra is
  used), that the regenerated methods are the hand-written model functions of `TaurexModel/Variance.lean` that the C18
  theorems are about and that `driver_c18` executes.

  How the Python state is related to the model's `Acc`:
  * `self.mean` / `self.M2` are `None` until the first `update` (`Option α` in the translation).  The model keeps plain
    numbers and the invariant "`mean is None` ⇔ `count = 0`" (`reset` clears, `update` sets): `pyOpt a v` is the Python
    attribute of the accumulator `a` whose model field is `v`.  `src_update_stream` shows that the translated `reset`
    followed by the translated `update`s stays inside that encoding, so the invariant is a theorem about the translated
    code, not an assumption;
  * `self.count` is a Python float that `update` increments by one, `self.wcount2` accumulates `weight*weight`; the model
    counts in `Nat` and has no `wcount2` (nothing reads it).  The tie carries them as the free components `c`, `w2`;
  * `try: … except ZeroDivisionError` in `update`: whether `weight / self.wcount` raises is the parameter
    `raised_ZeroDivisionError`; it is `false` inside the quantified domain (numpy scalars never raise; the optimizer adds
    1e-300 to every weight, the C18 theorems assume positive weights) — the same reading as the model's doc comment;
  * `raise_value`: a `TypeError` (`None` used in arithmetic) is never reached from an encoded state.
-/
import TaurexModel.Gen.SrcC18
import TaurexModel.Variance
import Proofs.C18SrcLemmas
set_option linter.unusedSectionVars false
set_option linter.unusedVariables false
set_option linter.unusedSimpArgs false

namespace Taurex.C18Src
open Taurex.Variance

section
variable {α : Type} [Add α] [Sub α] [Mul α] [Div α] [Neg α] [LT α] [LE α]
  [DecidableLT α] [DecidableLE α] [Taurex.Transc α] [BEq α] [OfNat α 0] [OfNat α 1] [OfNat α 2]

/-- the Python attribute (`self.mean`, `self.M2`) of an accumulator whose model field is `v`: `None` before the first update -/
def pyOpt (a : Acc α) (v : α) : Option α := if a.count = 0 then none else some v

/-- the five attributes `(count, wcount, wcount2, mean, M2)` of the Python object that the accumulator `a` stands for -/
def enc (a : Acc α) (c w2 : α) : α × α × α × Option α × Option α :=
  (c, a.wcount, w2, pyOpt a a.mean, pyOpt a a.m2)

/-- `OnlineVariance.update(value, weight)` applied to an attribute tuple -/
def pyUpdate (st : α × α × α × Option α × Option α) (p : α × α) : α × α × α × Option α × Option α :=
  Gen.SrcC18.OnlineVariance_update p.1 p.2 (M2 := st.2.2.2.2) (count := st.1) (mean := st.2.2.2.1)
    (raised_ZeroDivisionError := false) (wcount := st.2.1) (wcount2 := st.2.2.1)

/-- `OnlineVariance.reset()` is the encoding of `Acc.empty` -/
theorem src_reset : (Gen.SrcC18.OnlineVariance_reset : α × α × α × Option α × Option α) = enc Acc.empty 0 0 := rfl

/-- one `OnlineVariance.update` on the attributes of `a` gives the attributes of the model's `update a x w` -/
theorem src_update (a : Acc α) (x w c w2 : α) :
    pyUpdate (enc a c w2) (x, w) = enc (update a x w) (c + 1) (w2 + w * w) := by
  by_cases h : a.count = 0 <;>
    simp [pyUpdate, enc, pyOpt, Gen.SrcC18.OnlineVariance_update, update, h]

/-- a stream of updates from any encoded state -/
theorem src_update_fold (l : List (α × α)) (a : Acc α) (c w2 : α) :
    l.foldl pyUpdate (enc a c w2)
      = enc (l.foldl (fun a p => update a p.1 p.2) a) (l.foldl (fun c _ => c + 1) c)
          (l.foldl (fun s p => s + p.2 * p.2) w2) := by
  induction l generalizing a c w2 with
  | nil => rfl
  | cons p l ih =>
    obtain ⟨x, w⟩ := p
    simp only [List.foldl_cons]
    rw [src_update, ih]

/-- a whole stream: `reset()` then `update(x, w)` for every sample is the model's `accOf` — in particular the translated
    code keeps `mean`/`M2` None exactly while no sample has been seen -/
theorem src_update_stream (l : List (α × α)) :
    l.foldl pyUpdate Gen.SrcC18.OnlineVariance_reset
      = enc (accOf l) (l.foldl (fun c _ => c + 1) 0) (l.foldl (fun s p => s + p.2 * p.2) 0) := by
  rw [src_reset]
  exact src_update_fold l Acc.empty 0 0

/-- the `variance` property: the threshold `count < 2` and the quotient `M2 / wcount` are the model's; `hc` relates the
    Python float `count` (value `c`) to the model's natural `count`; `nanv` is whatever `np.nan` evaluates to -/
theorem src_variance (a : Acc α) (c w2 nanv : α) (hc : c < 2 ↔ a.count < 2) :
    variance a = if c < 2 then npNan
      else Obj.ofNum (Gen.SrcC18.OnlineVariance_variance (M2 := (enc a c w2).2.2.2.2) (count := c) (np_nan := nanv)
                        (wcount := (enc a c w2).2.1)) := by
  by_cases h : a.count < 2
  · simp [variance, h, hc]
  · have h0 : a.count ≠ 0 := by omega
    simp [variance, h, hc, enc, pyOpt, h0, Gen.SrcC18.OnlineVariance_variance]

/-- below two samples the property returns the `np.nan` object itself (whatever the attributes are) -/
theorem src_variance_nan (m2 : Option α) (c nanv wc : α) (h : c < 2) :
    Gen.SrcC18.OnlineVariance_variance (M2 := m2) (count := c) (np_nan := nanv) (wcount := wc) = nanv := by
  simp [Gen.SrcC18.OnlineVariance_variance, h]

/-! ## `combine_variance`

  The pooled combination is compared with the model at the carrier of Python float OBJECTS (`Variance.Obj α`, instances in
  `Proofs/C18SrcLemmas.lean`): the code distinguishes `avg is np.nan` (identity, parameter `is_np_nan` = the object's tag)
  from `var != var` (value).  `averages` / `variance` are the gathered objects, `counts` the gathered weights (numbers).
  `none` = the Python raises (`None /= size`, `None += …`).  Hypotheses: `hbeq` — the model tests `cnt == 0` with the
  carrier's `BEq`, the translation reads numpy's float `==` as `a ≤ b ∧ b ≤ a` (both hold of IEEE doubles and of ℝ);
  `hrefl` — a number is `≤` itself (so that `var != var` singles out NaN). -/

/-- `combine_variance(averages, variance, counts)` is the model's `combine` with the NaN-by-value test (current code) -/
theorem src_combine (hbeq : ∀ a b : α, (a == b) = (decide (a ≤ b) && decide (b ≤ a))) (hrefl : ∀ x : α, x ≤ x)
    (avgs vars : List (Obj α)) (counts : List α) :
    (Gen.SrcC18.combine_variance (α := Obj α) avgs vars (counts.map Obj.ofNum) (is_np_nan := fun o => o.isNpNan)).map
        (fun p => (p.1.val, p.2.val))
      = combine nanByValue avgs vars counts := by
  unfold Gen.SrcC18.combine_variance combine
  dsimp only
  rw [show (0 : Obj α) = Obj.ofNum 0 from rfl, sum_ofNum]
  generalize hA : List.foldl _ none (List.zip avgs (counts.map Obj.ofNum)) = A
  have h1 : A.map Obj.val = loop1 (avgs.zip counts) none := by
    rw [← hA]
    refine loop1_gen _ ?_ avgs counts none
    intro g avg cnt
    have hz : (decide (Obj.ofNum cnt ≤ (Obj.ofNum 0 : Obj α)) && decide ((Obj.ofNum 0 : Obj α) ≤ Obj.ofNum cnt))
        = (cnt == 0) := by
      rw [hbeq, decide_le, decide_le]; rfl
    simp only [hz, step1M]
    by_cases h0 : (cnt == 0) = true
    · simp [h0]
    · cases hn : avg.isNpNan <;> cases g <;> simp [h0, hn] <;> rfl
  rw [← h1]
  cases A with
  | none => rfl
  | some a =>
    simp only [Option.map_some]
    have hc : List.map (fun (x : Obj α) => x * (Obj.ofNum (List.foldl (fun x1 x2 => x1 + x2) 0 counts) /
          Obj.ofNum (List.foldl (fun x1 x2 => x1 + x2) 0 counts))) (List.map Obj.ofNum counts)
        = (counts.map (fun c => c * (sumList counts / sumList counts))).map Obj.ofNum := by
      rw [List.map_map, List.map_map]; rfl
    rw [hc]
    generalize hB : List.foldl _ (some none) (List.zip avgs (List.zip (List.map Obj.ofNum _) vars)) = B
    have h2 : B.map (Option.map Obj.val) = loop2 nanByValue (vdiv a.val (Val.fin (sumList counts)))
        (avgs.zip ((counts.map (fun c => c * (sumList counts / sumList counts))).zip vars)) none := by
      rw [← hB]
      refine loop2_gen nanByValue _ _ ?hn ?hf avgs vars _ none
      case hn => intro it; rfl
      case hf =>
        intro g avg cnt var
        have hz : (decide (Obj.ofNum cnt ≤ (Obj.ofNum 0 : Obj α)) && decide ((Obj.ofNum 0 : Obj α) ≤ Obj.ofNum cnt))
            = (cnt == 0) := by
          rw [hbeq, decide_le, decide_le]; rfl
        have hp : decide ((Obj.ofNum 0 : Obj α) < Obj.ofNum cnt) = decide (0 < cnt) := by
          rw [decide_lt]; rfl
        have hv : (decide (var ≤ var) && decide (var ≤ var)) = !(nanByValue var) := by
          rw [decide_le]; unfold Obj.leB nanByValue; cases var.val <;> simp [hrefl]
        simp only [hz, hp, hv, step2M]
        by_cases h0 : (cnt == 0) = true
        · simp [h0]
        · by_cases hpos : 0 < cnt <;> cases hn : nanByValue var <;> cases g <;> simp [h0, hpos, hn] <;> rfl
    rw [← h2]
    cases B with
    | none => rfl
    | some sq => cases sq <;> rfl


/-- the hypotheses of `src_combine` hold, e.g., of the natural numbers -/
example : (∀ a b : Nat, (a == b) = (decide (a ≤ b) && decide (b ≤ a))) ∧ (∀ x : Nat, x ≤ x) := by
  refine ⟨fun a b => ?_, fun x => Nat.le_refl x⟩
  by_cases h : a = b
  · simp [h]
  · have h1 : (a == b) = false := by simp [h]
    have h2 : (decide (a ≤ b) && decide (b ≤ a)) = false := by
      simp only [Bool.and_eq_false_iff, decide_eq_false_iff_not]; omega
    rw [h1, h2]

end

end Taurex.C18Src
