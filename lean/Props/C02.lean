/-
  C02 — emission / direct-image spectra equal the layered thermal integral.
  Theorems about `TaurexModel/Emission.lean` (the definitions `driver_c02` executes), over the real carrier.
  `Row`-level statements quantify over arbitrary layer rows that satisfy `Chain` (consecutive layers share an
  interface) and `RowsOk` (optical depth grows downwards, the clamp only drops transmittances of depth ≥ 10);
  the `full model` section proves that the rows `evaluate_emission` builds satisfy both, and restates the results
  for `intensity` / `fluxCol` / `eclipse`.
-/
import Proofs.C02Full
import Proofs.C02Flux
import Proofs.C02K
import TaurexModel.EmissionBreakdown

namespace Taurex.C02
open Taurex.Emission

/-! ### quadrature, Planck function, direct-image scaling -/

/-- Gauss–Legendre nodes/weights mapped to [0,1]: `Σ w μ = 1/2` (what `path_integral` multiplies `I` with),
    for any node count, from the two moment conditions of `leggauss`. -/
theorem quad_half (xs wts : List ℝ) (hlen : xs.length = wts.length) (hx : ∀ x ∈ xs, -1 < x)
    (h0 : wts.sum = 2) (h1 : ((xs.zip wts).map (fun p => p.2 * p.1)).sum = 0) :
    angleSum ((xs.zip wts).map (fun p => (1, wOf p.2, muInvOf p.1))) = 1 / 2 := by
  rw [angleSum_eq, List.map_map]
  have hs : ((xs.zip wts).map (fun p => p.2)).sum = 2 := by
    have : (xs.zip wts).map (fun p => p.2) = wts := by
      have := List.map_snd_zip (l₁ := xs) (l₂ := wts) (by omega)
      simpa using this
    rw [this, h0]
  have hq := quad_sum (xs.zip wts) (by
    intro p hp
    have := hx p.1 (List.of_mem_zip hp).1
    linarith)
  have : (List.map ((fun q : ℝ × ℝ × ℝ => q.1 * (q.2.1 / q.2.2)) ∘ fun p : ℝ × ℝ => ((1 : ℝ), wOf p.2, muInvOf p.1)) (xs.zip wts))
      = (xs.zip wts).map (fun p => wOf p.2 / muInvOf p.1) := by
    apply List.map_congr_left; intro p _; simp
  rw [this, hq, h1, hs]; norm_num

example : angleSum (([(-1/2 : ℝ), 1/2].zip [1, 1]).map (fun p => (1, wOf p.2, muInvOf p.1))) = 1 / 2 :=
  quad_half _ _ rfl (by intro x hx; simp at hx; rcases hx with h | h <;> subst h <;> norm_num)
    (by norm_num) (by norm_num)

/-- the Planck function of the kernel is positive -/
theorem planck_pos (k : PC ℝ) (hk : PCPos k) (nu t : ℝ) (hnu : 0 < nu) (ht : 0 < t) : 0 < planck k nu t :=
  planck_pos' k hk nu t hnu ht

/-- … and increasing in temperature -/
theorem planck_mono_T (k : PC ℝ) (hk : PCPos k) (nu t1 t2 : ℝ) (hnu : 0 < nu) (ht1 : 0 < t1) (h12 : t1 ≤ t2) :
    planck k nu t1 ≤ planck k nu t2 :=
  planck_mono' k hk nu t1 t2 hnu ht1 h12

example : PCPos ⟨3, 1, 1, 1, 1, 1⟩ := by unfold PCPos; norm_num

/-- direct imaging: `direct = f · Rp² / (2 d²)` with `d = distance · parsec` -/
theorem direct_scale (pi f rp dist pc : ℝ) (hpi : pi ≠ 0) (hd : dist * pc ≠ 0) :
    direct pi f rp dist pc = f * (rp * rp) / (2 * ((dist * pc) * (dist * pc))) := by
  unfold direct
  field_simp
  ring

example : direct (3 : ℝ) 5 2 1 4 = 5 * (2 * 2) / (2 * ((1 * 4) * (1 * 4))) := direct_scale 3 5 2 1 4 (by norm_num) (by norm_num)

/-! ### the layer recursion (one wavenumber, one angle) -/

/-- `I = Σ_l c_l · B(T_l)/π + e₀ · B(T₀)/π` with every `c_l ≥ 0`, and the weights sum to
    `1 + (exp(-τ₀/μ) - f(τ₀))`, which lies in `[1, 1 + exp(-10)]` (the clamp modelled exactly). -/
theorem coeffs_sum (m : ℝ) (hm : 1 ≤ m) (rows : List (Row ℝ)) (t : ℝ) (k : Bool)
    (hc : Chain t k rows) (hok : RowsOk rows) (hk : k = false → 10 ≤ t) :
    (∀ r ∈ rows, 0 ≤ coeff m r) ∧
    intensityRows 1 t m (rows.map (fun r => { r with b := 1 })) = 1 + (Real.exp ((-t) * m) - trans k t m) ∧
    0 ≤ Real.exp ((-t) * m) - trans k t m ∧ Real.exp ((-t) * m) - trans k t m ≤ Real.exp (-10) := by
  refine ⟨rowsOk_coeff_nonneg m (by linarith) rows hok, ?_, weight_total_bounds m hm t k hk⟩
  rw [intensityRows_eq, List.map_map]
  have : (List.map ((fun r : Row ℝ => r.b * coeff m r) ∘ fun r => { r with b := 1 }) rows) = rows.map (coeff m) := by
    apply List.map_congr_left; intro r _; simp [coeff]
  rw [this, one_mul, weight_total m rows t k hc]

/-- isothermal rows (every `B(T_l)/π = b`): the intensity is `b` times the total weight; exactly `b` when the
    bottom of the atmosphere is not clamped. -/
theorem isothermal_exact (m b : ℝ) (rows : List (Row ℝ)) (t : ℝ) (hc : Chain t true rows)
    (hb : ∀ r ∈ rows, r.b = b) : intensityRows b t m rows = b := by
  rw [intensityRows_eq, sum_const m b rows hb, ← mul_add, weight_total m rows t true hc, trans_true]
  ring

/-- … and within a relative `exp(-10)` above `b` in general -/
theorem isothermal_within (m b : ℝ) (hm : 1 ≤ m) (hb0 : 0 ≤ b) (rows : List (Row ℝ)) (t : ℝ) (k : Bool)
    (hc : Chain t k rows) (hk : k = false → 10 ≤ t) (hb : ∀ r ∈ rows, r.b = b) :
    b ≤ intensityRows b t m rows ∧ intensityRows b t m rows ≤ b * (1 + Real.exp (-10)) := by
  rw [intensityRows_eq, sum_const m b rows hb, ← mul_add, weight_total m rows t k hc]
  obtain ⟨h0, h1⟩ := weight_total_bounds m hm t k hk
  constructor <;> nlinarith

/-- any profile: the intensity lies between the coldest source function and `(1+exp(-10))` times the hottest -/
theorem between_hot_cold (m b0 bmin bmax : ℝ) (hm : 1 ≤ m) (hmin : 0 ≤ bmin) (rows : List (Row ℝ)) (t : ℝ) (k : Bool)
    (hc : Chain t k rows) (hok : RowsOk rows) (hk : k = false → 10 ≤ t)
    (hb0 : bmin ≤ b0 ∧ b0 ≤ bmax) (hb : ∀ r ∈ rows, bmin ≤ r.b ∧ r.b ≤ bmax) :
    bmin ≤ intensityRows b0 t m rows ∧ intensityRows b0 t m rows ≤ (1 + Real.exp (-10)) * bmax := by
  have hcn := rowsOk_coeff_nonneg m (by linarith) rows hok
  obtain ⟨hlo, hhi⟩ := sum_bounds m bmin bmax rows hcn hb
  obtain ⟨h0, h1⟩ := weight_total_bounds m hm t k hk
  have hw := weight_total m rows t k hc
  have he : 0 ≤ Real.exp ((-t) * m) := Real.exp_nonneg _
  have hmax : 0 ≤ bmax := le_trans hmin (le_trans hb0.1 hb0.2)
  rw [intensityRows_eq]
  constructor
  · nlinarith [mul_nonneg (sub_nonneg.2 hb0.1) he]
  · nlinarith [mul_nonneg (sub_nonneg.2 hb0.2) he]

/-- NV: three layers, one wavenumber; the bottom layer's `dtau` (12) is clamped, the rest is not -/
def nvRows : List (Row ℝ) :=
  [⟨3, 11, false, 12, false⟩, ⟨2, 1, true, 11, false⟩, ⟨1, 0, true, 1, true⟩]

example : Chain 12 false nvRows ∧ RowsOk nvRows ∧ (∀ r ∈ nvRows, (1 : ℝ) ≤ r.b ∧ r.b ≤ 3) := by
  refine ⟨⟨rfl, rfl, rfl, rfl, rfl, rfl, rfl, rfl⟩, ?_, ?_⟩
  · intro r hr
    simp [nvRows] at hr
    rcases hr with h | h | h <;> subst h <;> norm_num
  · intro r hr
    simp [nvRows] at hr
    rcases hr with h | h | h <;> subst h <;> norm_num

/-! ### the full model: the rows `evaluate_emission` builds -/

/-- valid atmosphere for one column: it is one of the columns the clamp looks at, all inputs are non-negative,
    its wavenumber is positive, temperatures lie in `[tmin, tmax]` with `0 < tmin`, at least one layer -/
structure Valid (k : PC ℝ) (cols : List (Col ℝ)) (dz dens temps : List ℝ) (col : Col ℝ) (tmin tmax : ℝ) : Prop where
  pc : PCPos k
  mem : col ∈ cols
  nonneg : ∀ c ∈ cols, InputsNonneg c.sig dz dens
  nu : 0 < col.nu
  tpos : 0 < tmin
  trange : ∀ l, l < temps.length → tmin ≤ temps.getD l 0 ∧ temps.getD l 0 ≤ tmax
  layers : temps ≠ []

theorem surf_sound (cols : List (Col ℝ)) (dz dens temps : List ℝ) (col : Col ℝ) (hc : col ∈ cols)
    (h : keepFrom cols dz dens temps.length 0 = false) : (10 : ℝ) ≤ surfTau dz dens temps col := by
  unfold keepFrom at h
  have h1 : ¬ vmin (cols.map (fun c => tauRange c.sig dz dens 0 temps.length)) < 10 := by simpa using h
  exact le_trans (not_lt.1 h1)
    (vmin_le _ _ (List.mem_map_of_mem (f := fun c : Col ℝ => tauRange c.sig dz dens 0 temps.length) hc))

/-- the spectrum of any atmosphere lies between the Planck functions of its coldest and hottest temperature
    (intensity per angle, `1 ≤ 1/μ`), the upper bound relaxed by the licensed `exp(-10)` -/
theorem intensity_between (k : PC ℝ) (cols : List (Col ℝ)) (dz dens temps : List ℝ) (col : Col ℝ) (tmin tmax m : ℝ)
    (hv : Valid k cols dz dens temps col tmin tmax) (hm : 1 ≤ m) :
    planck k col.nu tmin / k.pi ≤ intensity k cols dz dens temps m col ∧
    intensity k cols dz dens temps m col ≤ (1 + Real.exp (-10)) * (planck k col.nu tmax / k.pi) := by
  have hpi : 0 < k.pi := hv.pc.1
  have hlen : 0 < temps.length := List.length_pos_of_ne_nil hv.layers
  have hB : ∀ l, l < temps.length → planck k col.nu tmin / k.pi ≤ planck k col.nu (temps.getD l 0) / k.pi ∧
      planck k col.nu (temps.getD l 0) / k.pi ≤ planck k col.nu tmax / k.pi := by
    intro l hl
    obtain ⟨h1, h2⟩ := hv.trange l hl
    exact ⟨div_le_div_of_nonneg_right (planck_mono' k hv.pc _ _ _ hv.nu hv.tpos h1) hpi.le,
      div_le_div_of_nonneg_right (planck_mono' k hv.pc _ _ _ hv.nu (lt_of_lt_of_le hv.tpos h1) h2) hpi.le⟩
  unfold intensity
  apply between_hot_cold m _ _ _ hm (div_nonneg (planck_pos' k hv.pc _ _ hv.nu hv.tpos).le hpi.le) _ _ _
    (rowsOf_chain k cols dz dens temps col) (rowsOf_ok k cols dz dens temps col hv.mem hv.nonneg)
    (surf_sound cols dz dens temps col hv.mem) (hB 0 hlen)
  intro r hr
  obtain ⟨l, hl, rfl⟩ := mem_rowsOf k cols dz dens temps col r hr
  exact hB l hl

/-- isothermal atmosphere, bottom not clamped: the intensity at every angle is exactly `B(T)/π`,
    whatever the composition -/
theorem intensity_isothermal_exact (k : PC ℝ) (cols : List (Col ℝ)) (dz dens temps : List ℝ) (col : Col ℝ) (t m : ℝ)
    (hT : ∀ l, l < temps.length → temps.getD l 0 = t) (hne : temps ≠ [])
    (hk : keepFrom cols dz dens temps.length 0 = true) :
    intensity k cols dz dens temps m col = planck k col.nu t / k.pi := by
  have hlen : 0 < temps.length := List.length_pos_of_ne_nil hne
  unfold intensity b0Of
  rw [hT 0 hlen]
  apply isothermal_exact
  · have := rowsOf_chain k cols dz dens temps col
    rw [hk] at this
    exact this
  · intro r hr
    obtain ⟨l, hl, rfl⟩ := mem_rowsOf k cols dz dens temps col r hr
    simp only [hT l hl]

/-- … and in general (bottom clamped or not) within a relative `exp(-10)` above `B(T)/π` -/
theorem intensity_isothermal_within (k : PC ℝ) (cols : List (Col ℝ)) (dz dens temps : List ℝ) (col : Col ℝ) (t m : ℝ)
    (hv : Valid k cols dz dens temps col t t) (hm : 1 ≤ m) :
    planck k col.nu t / k.pi ≤ intensity k cols dz dens temps m col ∧
    intensity k cols dz dens temps m col ≤ planck k col.nu t / k.pi * (1 + Real.exp (-10)) := by
  have h := intensity_between k cols dz dens temps col t t m hv hm
  constructor
  · exact h.1
  · rw [mul_comm]; exact h.2

/-- isothermal atmosphere: the eclipse spectrum is exactly the blackbody ratio `B(T)/B(T*) (Rp/Rs)²` -/
theorem eclipse_isothermal_exact (k : PC ℝ) (cols : List (Col ℝ)) (dz dens temps : List ℝ) (col : Col ℝ)
    (t ts rp rs : ℝ) (xs wts : List ℝ)
    (hpi : k.pi ≠ 0)
    (hT : ∀ l, l < temps.length → temps.getD l 0 = t) (hne : temps ≠ [])
    (hk : keepFrom cols dz dens temps.length 0 = true)
    (hlen : xs.length = wts.length) (hx : ∀ x ∈ xs, -1 < x)
    (h0 : wts.sum = 2) (h1 : ((xs.zip wts).map (fun p => p.2 * p.1)).sum = 0) :
    eclipse (fluxCol k k.pi cols dz dens temps xs wts col) (planck k col.nu ts) rp rs
      = planck k col.nu t / planck k col.nu ts * ((rp / rs) * (rp / rs)) := by
  unfold fluxCol
  have hI : xs.map (fun x => intensity k cols dz dens temps (muInvOf x) col)
      = xs.map (fun _ => planck k col.nu t / k.pi) := by
    apply List.map_congr_left
    intro x _
    exact intensity_isothermal_exact k cols dz dens temps col t _ hT hne hk
  rw [hI, fluxOf_const]
  have hs : ((xs.zip wts).map (fun p => p.2)).sum = 2 := by
    have : (xs.zip wts).map (fun p => p.2) = wts := by
      have := List.map_snd_zip (l₁ := xs) (l₂ := wts) (by omega)
      simpa using this
    rw [this, h0]
  rw [quad_sum (xs.zip wts) (by
    intro p hp
    have := hx p.1 (List.of_mem_zip hp).1
    linarith), h1, hs]
  unfold eclipse
  congr 1
  field_simp
  ring

/-- the licensed deviation: the clamped intensity differs from the documented (unclamped) integral by at most
    `exp(-10)` times the source functions of the clamped layers -/
theorem clamp_band (k : PC ℝ) (cols : List (Col ℝ)) (dz dens temps : List ℝ) (col : Col ℝ) (tmin tmax m : ℝ)
    (hv : Valid k cols dz dens temps col tmin tmax) (hm : 1 ≤ m) :
    |intensity k cols dz dens temps m col - intensityUncut k dz dens temps m col|
      ≤ Real.exp (-10) * ((rowsOf k cols dz dens temps col).map (fun r => if r.keepD then 0 else r.b)).sum := by
  unfold intensity intensityUncut
  rw [rowsUncut_eq k cols]
  apply clamp_band_rows _ _ _ hm _ (rowsOf_ok k cols dz dens temps col hv.mem hv.nonneg)
  intro r hr
  obtain ⟨l, hl, rfl⟩ := mem_rowsOf k cols dz dens temps col r hr
  exact div_nonneg (planck_pos' k hv.pc _ _ hv.nu (lt_of_lt_of_le hv.tpos (hv.trange l hl).1)).le hv.pc.1.le

/-- NV: two layers, two wavenumbers, one contribution of each kind; every hypothesis of `Valid` holds -/
example : Valid ⟨3, 1, 1, 1, 1, 1⟩
    [⟨1, [(Kind.lin, [1, 2]), (Kind.sq, [0, 1])]⟩, ⟨2, [(Kind.lin, [20, 3]), (Kind.sq, [1, 1])]⟩]
    [1, 1] [1, 2] [5, 4] ⟨2, [(Kind.lin, [20, 3]), (Kind.sq, [1, 1])]⟩ 4 5 := by
  refine ⟨by unfold PCPos; norm_num, by simp, ?_, by norm_num, by norm_num, ?_, by simp⟩
  · intro c hc
    simp at hc
    rcases hc with rfl | rfl
    · refine ⟨?_, ?_, ?_⟩
      · intro c hc x hx
        simp at hc
        rcases hc with rfl | rfl <;> simp at hx <;> rcases hx with rfl | rfl <;> norm_num
      · intro x hx; simp at hx; subst hx; norm_num
      · intro x hx; simp at hx; rcases hx with rfl | rfl <;> norm_num
    · refine ⟨?_, ?_, ?_⟩
      · intro c hc x hx
        simp at hc
        rcases hc with rfl | rfl <;> simp at hx
        · rcases hx with rfl | rfl <;> norm_num
        · subst hx; norm_num
      · intro x hx; simp at hx; subst hx; norm_num
      · intro x hx; simp at hx; rcases hx with rfl | rfl <;> norm_num
  · intro l hl
    simp at hl
    match l, hl with
    | 0, _ => norm_num
    | 1, _ => norm_num

/-- **flux level**: the emergent flux of any valid atmosphere (Gauss–Legendre quadrature with non-negative weights, any
    number of angles) lies between the Planck functions of its coldest and hottest temperature, the upper bound relaxed by
    the licensed `exp(-10)`; `npPi` is `np.pi` of `path_integral`, `k.pi` the `PI` of the black-body kernel. -/
theorem flux_between (k : PC ℝ) (npPi : ℝ) (cols : List (Col ℝ)) (dz dens temps : List ℝ) (col : Col ℝ)
    (tmin tmax : ℝ) (xs wts : List ℝ)
    (hv : Valid k cols dz dens temps col tmin tmax) (hnp : 0 ≤ npPi)
    (hlen : xs.length = wts.length) (hx : ∀ x ∈ xs, -1 < x ∧ x ≤ 1) (hw : ∀ w ∈ wts, 0 ≤ w)
    (h0 : wts.sum = 2) (h1 : ((xs.zip wts).map (fun p => p.2 * p.1)).sum = 0) :
    npPi / k.pi * planck k col.nu tmin ≤ fluxCol k npPi cols dz dens temps xs wts col ∧
    fluxCol k npPi cols dz dens temps xs wts col ≤ (1 + Real.exp (-10)) * (npPi / k.pi * planck k col.nu tmax) := by
  have hpi : 0 < k.pi := hv.pc.1
  unfold fluxCol
  rw [fluxOf_map]
  have hS : ((xs.zip wts).map (fun p => wOf p.2 / muInvOf p.1)).sum = 1 / 2 := by
    have hs : ((xs.zip wts).map (fun p => p.2)).sum = 2 := by
      have : (xs.zip wts).map (fun p => p.2) = wts := by
        have := List.map_snd_zip (l₁ := xs) (l₂ := wts) (by omega)
        simpa using this
      rw [this, h0]
    rw [quad_sum (xs.zip wts) (by
      intro p hp
      have := (hx p.1 (List.of_mem_zip hp).1).1
      linarith), h1, hs]
    norm_num
  have hb := sum_weighted_bounds (fun x => intensity k cols dz dens temps (muInvOf x) col)
    (planck k col.nu tmin / k.pi) ((1 + Real.exp (-10)) * (planck k col.nu tmax / k.pi)) (xs.zip wts)
    (fun p => wOf p.2 / muInvOf p.1)
    (by
      intro p hp
      have hxp := hx p.1 (List.of_mem_zip hp).1
      have hm : 1 ≤ muInvOf p.1 := by
        unfold muInvOf muOf
        rw [le_div_iff₀ (by linarith)]
        linarith
      exact intensity_between k cols dz dens temps col tmin tmax _ hv hm)
    (by
      intro p hp
      have hxp := hx p.1 (List.of_mem_zip hp).1
      have hwp := hw p.2 (List.of_mem_zip hp).2
      have hm : 0 < muInvOf p.1 := by
        unfold muInvOf muOf
        apply div_pos one_pos
        linarith
      exact div_nonneg (by unfold wOf; linarith) hm.le)
  rw [hS] at hb
  obtain ⟨hlo, hhi⟩ := hb
  have e1 : npPi / k.pi * planck k col.nu tmin = 2 * npPi * (planck k col.nu tmin / k.pi * (1 / 2)) := by
    field_simp
  have e2 : (1 + Real.exp (-10)) * (npPi / k.pi * planck k col.nu tmax)
      = 2 * npPi * ((1 + Real.exp (-10)) * (planck k col.nu tmax / k.pi) * (1 / 2)) := by
    field_simp
  rw [e1, e2]
  constructor
  · exact mul_le_mul_of_nonneg_left hlo (by linarith)
  · exact mul_le_mul_of_nonneg_left hhi (by linarith)

/-- **eclipse level**: with `np.pi = PI` and a positive stellar SED, the eclipse depth lies between the black-body ratios
    of the coldest and hottest layer, times `(Rp/Rs)²`, the upper bound relaxed by `exp(-10)` -/
theorem eclipse_between (k : PC ℝ) (cols : List (Col ℝ)) (dz dens temps : List ℝ) (col : Col ℝ)
    (tmin tmax sed rp rs : ℝ) (xs wts : List ℝ)
    (hv : Valid k cols dz dens temps col tmin tmax) (hsed : 0 < sed)
    (hlen : xs.length = wts.length) (hx : ∀ x ∈ xs, -1 < x ∧ x ≤ 1) (hw : ∀ w ∈ wts, 0 ≤ w)
    (h0 : wts.sum = 2) (h1 : ((xs.zip wts).map (fun p => p.2 * p.1)).sum = 0) :
    planck k col.nu tmin / sed * ((rp / rs) * (rp / rs))
      ≤ eclipse (fluxCol k k.pi cols dz dens temps xs wts col) sed rp rs ∧
    eclipse (fluxCol k k.pi cols dz dens temps xs wts col) sed rp rs
      ≤ (1 + Real.exp (-10)) * (planck k col.nu tmax / sed * ((rp / rs) * (rp / rs))) := by
  have hpi : 0 < k.pi := hv.pc.1
  obtain ⟨hlo, hhi⟩ := flux_between k k.pi cols dz dens temps col tmin tmax xs wts hv hpi.le hlen hx hw h0 h1
  rw [div_self hpi.ne', one_mul] at hlo hhi
  unfold eclipse
  have hr : 0 ≤ (rp / rs) * (rp / rs) := mul_self_nonneg _
  constructor
  · apply mul_le_mul_of_nonneg_right _ hr
    exact div_le_div_of_nonneg_right hlo hsed.le
  · have : (1 + Real.exp (-10)) * (planck k col.nu tmax / sed * ((rp / rs) * (rp / rs)))
        = ((1 + Real.exp (-10)) * planck k col.nu tmax) / sed * ((rp / rs) * (rp / rs)) := by ring
    rw [this]
    apply mul_le_mul_of_nonneg_right _ hr
    exact div_le_div_of_nonneg_right hhi hsed.le

/-- NV for the quadrature hypotheses: the two-point Gauss–Legendre rule -/
example : ∀ w ∈ [(1:ℝ), 1], 0 ≤ w := by intro w hw; simp at hw; subst hw; norm_num

/-! ### the contribution function (`tau`, the third value `model()` returns) -/

/-- the contribution function of a layer is the weight with which that layer's source function enters the intensity
    along the vertical (`_mu = 1`): `exp(-layer_tau) - exp(-dtau)`, each term dropped by its clamp -/
theorem contrib_eq_coeff (r : Row ℝ) : contribOf r = coeff 1 r := by
  cases hL : r.keepL <;> cases hD : r.keepD <;> simp [contribOf, cut, coeff, Emission.trans, hL, hD]

/-- every entry of the contribution function is non-negative, and the entries of one wavenumber sum to the fraction of
    the vertical ray absorbed by the whole column, `1 - f(surface_tau)` (`f` = `exp(-·)` with the clamp modelled exactly):
    within `exp(-10)` above `1 - exp(-surface_tau)` -/
theorem contrib_sum (k : PC ℝ) (cols : List (Col ℝ)) (dz dens temps : List ℝ) (col : Col ℝ) (hc : col ∈ cols)
    (hn : ∀ c ∈ cols, InputsNonneg c.sig dz dens) :
    (∀ x ∈ contribFn k cols dz dens temps col, 0 ≤ x) ∧
    (contribFn k cols dz dens temps col).sum
      = 1 - trans (keepFrom cols dz dens temps.length 0) (surfTau dz dens temps col) 1 ∧
    1 - Real.exp (-(surfTau dz dens temps col)) ≤ (contribFn k cols dz dens temps col).sum ∧
    (contribFn k cols dz dens temps col).sum ≤ 1 - Real.exp (-(surfTau dz dens temps col)) + Real.exp (-10) := by
  have hfn : contribFn k cols dz dens temps col = (rowsOf k cols dz dens temps col).map (coeff 1) := by
    unfold contribFn
    exact List.map_congr_left (fun r _ => contrib_eq_coeff r)
  have hok := rowsOf_ok k cols dz dens temps col hc hn
  have hch := rowsOf_chain k cols dz dens temps col
  have hw := weight_total 1 _ _ _ hch
  obtain ⟨b0, b1⟩ := weight_total_bounds 1 (le_refl _) (surfTau dz dens temps col)
    (keepFrom cols dz dens temps.length 0) (surf_sound cols dz dens temps col hc)
  have he : (-(surfTau dz dens temps col)) * 1 = -(surfTau dz dens temps col) := by ring
  rw [he] at hw b0 b1
  refine ⟨?_, ?_, ?_, ?_⟩
  · intro x hx
    rw [hfn] at hx
    obtain ⟨r, hr, rfl⟩ := List.mem_map.1 hx
    exact rowsOk_coeff_nonneg 1 (by norm_num) _ hok r hr
  · rw [hfn]; linarith
  · rw [hfn]; linarith
  · rw [hfn]; linarith

example : contribOf (⟨3, 1, true, 11, false⟩ : Row ℝ) = Real.exp (-1) := by
  simp [contribOf, cut]

/-! ### correlated-k opacity mode (`opacity_method = ktables`): `KTau.emissionK`, the model of
    `evaluate_emission_ktables` that `driver_c20` executes.  Weights `≥ 0`, `Σ w = 1`. -/

open Taurex.KTau in
/-- in correlated-k mode the intensity at one emission angle IS the documented integral: the surface blackbody attenuated by
    the full column plus, per layer, `B(T_l)/π` times the difference of the transmittances above and below it, where the
    transmittance from a level to space is `exp(-τ_other/μ) · Σ_g w_g exp(-τ_g/μ)` (`levelTrans`).  Over the reals the
    g-weighted transmittance of the column is never zero, so writing the surface term as `exp(-(-log Σ_g …))` loses nothing. -/
theorem ktable_levels (k : PC ℝ) (nonmol : List (Kind × List ℝ)) (sigma3 : List (List ℝ))
    (ws dz dens temps : List ℝ) (nu m : ℝ) (hw0 : ∀ w ∈ ws, 0 ≤ w) (hw : ws.sum = 1) :
    emissionK k nonmol sigma3 ws dz dens temps nu m
      = planck k nu (temps.getD 0 0) / k.pi * levelTrans nonmol sigma3 ws dz dens temps.length m 0
        + ((List.range temps.length).map (fun l => planck k nu (temps.getD l 0) / k.pi
            * (levelTrans nonmol sigma3 ws dz dens temps.length m (l + 1)
               - levelTrans nonmol sigma3 ws dz dens temps.length m l))).sum ∧
    levelTrans nonmol sigma3 ws dz dens temps.length m temps.length = 1 :=
  ⟨emissionK_levels k nonmol sigma3 ws dz dens temps nu m hw0 hw,
   levelTrans_top nonmol sigma3 ws dz dens temps.length m hw⟩

open Taurex.KTau in
/-- hence an isothermal atmosphere returns exactly the blackbody intensity `B(T)/π` at every angle, whatever the
    k-coefficients, the weights and the other opacity sources are — however opaque the column -/
theorem ktable_isothermal (k : PC ℝ) (nonmol : List (Kind × List ℝ)) (sigma3 : List (List ℝ))
    (ws dz dens temps : List ℝ) (nu m T : ℝ) (hn : 0 < temps.length) (hT : ∀ l < temps.length, temps.getD l 0 = T)
    (hw0 : ∀ w ∈ ws, 0 ≤ w) (hw : ws.sum = 1) :
    emissionK k nonmol sigma3 ws dz dens temps nu m = planck k nu T / k.pi := by
  rw [emissionK_levels k nonmol sigma3 ws dz dens temps nu m hw0 hw, hT 0 hn]
  have e : (List.range temps.length).map (fun l => planck k nu (temps.getD l 0) / k.pi
        * (levelTrans nonmol sigma3 ws dz dens temps.length m (l + 1)
           - levelTrans nonmol sigma3 ws dz dens temps.length m l))
      = (List.range temps.length).map (fun l => planck k nu T / k.pi
        * (levelTrans nonmol sigma3 ws dz dens temps.length m (l + 1)
           - levelTrans nonmol sigma3 ws dz dens temps.length m l)) := by
    apply List.map_congr_left
    intro l hl
    rw [hT l (List.mem_range.1 hl)]
  rw [e, List.sum_map_mul_left, telescope (levelTrans nonmol sigma3 ws dz dens temps.length m),
    levelTrans_top nonmol sigma3 ws dz dens temps.length m hw]
  ring

-- non-vacuity: two layers at 7 K (in the units of the constants), two g-points three decades apart, a CIA-like second source
open Taurex.KTau in
example : emissionK ⟨3, 1, 1, 1, 1, 1⟩ [(Kind.sq, [1, 1])] [[2, 2000], [3, 3000]] [(1/4 : ℝ), 3/4] [1, 1] [1, 2] [7, 7] 2 5
    = planck ⟨3, 1, 1, 1, 1, 1⟩ 2 7 / 3 :=
  ktable_isothermal _ _ _ _ _ _ _ _ _ 7 (by norm_num) (by
    intro l hl
    simp only [List.length_cons, List.length_nil] at hl
    match l, hl with
    | 0, _ => rfl
    | 1, _ => rfl) (by
    intro w hw
    simp only [List.mem_cons, List.not_mem_nil, or_false] at hw
    rcases hw with rfl | rfl <;> norm_num) (by norm_num)

open Taurex.KTau in
/-- and any intensity lies between the blackbody intensities of bounds `lo ≤ B(T_l)/π ≤ hi` on the layers (the coldest and
    the hottest layer, by `planck_mono_T`): non-negative opacities, thicknesses, densities, `0 ≤ 1/μ` -/
theorem ktable_between (k : PC ℝ) (nonmol : List (Kind × List ℝ)) (sigma3 : List (List ℝ))
    (ws dz dens temps : List ℝ) (nu m lo hi : ℝ) (hn : 0 < temps.length) (hm : 0 ≤ m)
    (hB : ∀ l < temps.length, lo ≤ planck k nu (temps.getD l 0) / k.pi ∧ planck k nu (temps.getD l 0) / k.pi ≤ hi)
    (hnn : InputsNonneg nonmol dz dens) (hs : ∀ j g, 0 ≤ at3 sigma3 j g)
    (hw0 : ∀ w ∈ ws, 0 ≤ w) (hw : ws.sum = 1) :
    lo ≤ emissionK k nonmol sigma3 ws dz dens temps nu m ∧ emissionK k nonmol sigma3 ws dz dens temps nu m ≤ hi := by
  rw [emissionK_levels k nonmol sigma3 ws dz dens temps nu m hw0 hw]
  obtain ⟨a, b⟩ := weighted_telescope (levelTrans nonmol sigma3 ws dz dens temps.length m)
    (fun l => planck k nu (temps.getD l 0) / k.pi) temps.length lo hi hB
    (fun l hl => levelTrans_mono nonmol sigma3 ws dz dens temps.length m hm hnn hs hw0 l hl)
  rw [levelTrans_top nonmol sigma3 ws dz dens temps.length m hw] at a b
  have h0 := levelTrans_nonneg nonmol sigma3 ws dz dens temps.length m hw0 0
  obtain ⟨p1, p2⟩ := hB 0 hn
  constructor <;> nlinarith

-- non-vacuity: two layers at 7 and 9, two g-points three decades apart
open Taurex.KTau in
example : min (planck ⟨3, 1, 1, 1, 1, 1⟩ 2 7 / 3) (planck ⟨3, 1, 1, 1, 1, 1⟩ 2 9 / 3)
      ≤ emissionK ⟨3, 1, 1, 1, 1, 1⟩ [] [[2, 2000], [3, 3000]] [(1/4 : ℝ), 3/4] [1, 1] [1, 2] [7, 9] 2 5 ∧
    emissionK ⟨3, 1, 1, 1, 1, 1⟩ [] [[2, 2000], [3, 3000]] [(1/4 : ℝ), 3/4] [1, 1] [1, 2] [7, 9] 2 5
      ≤ max (planck ⟨3, 1, 1, 1, 1, 1⟩ 2 7 / 3) (planck ⟨3, 1, 1, 1, 1, 1⟩ 2 9 / 3) :=
  ktable_between _ _ _ _ _ _ _ _ _ _ _ (by norm_num) (by norm_num) (by
    intro l hl
    simp only [List.length_cons, List.length_nil] at hl
    match l, hl with
    | 0, _ => exact ⟨min_le_left _ _, le_max_left _ _⟩
    | 1, _ => exact ⟨min_le_right _ _, le_max_right _ _⟩)
    ⟨by simp, by intro x hx; simp at hx; subst hx; norm_num,
      by intro x hx; simp at hx; rcases hx with rfl | rfl <;> norm_num⟩
    (by
      intro j g
      unfold at3
      match j with
      | 0 => exact getD_nonneg _ (by intro x hx; simp at hx; rcases hx with rfl | rfl <;> norm_num) g
      | 1 => exact getD_nonneg _ (by intro x hx; simp at hx; rcases hx with rfl | rfl <;> norm_num) g
      | j + 2 => simp)
    (by
      intro w hw
      simp only [List.mem_cons, List.not_mem_nil, or_false] at hw
      rcases hw with rfl | rfl <;> norm_num) (by norm_num)

/-! ### the per-contribution break-down (`model_contrib`): one star initialisation, one normalisation per contribution -/

theorem normalisedBy_blocks (s : Option Nat) (g : Nat) (l : List Nat) :
    normalisedBy s (l.flatMap (contribBlock g)) = l.map (fun i => (i, g, s)) := by
  induction l with
  | nil => rfl
  | cons i r ih => simp [List.flatMap_cons, contribBlock, normalisedBy, ih]

/-- In `model_contrib` every contribution, in list order and exactly once, is integrated on the grid in use and its flux divided
    by the stellar SED that `Star.initialize` stored on THAT grid: each per-contribution eclipse spectrum is scaled by the
    stellar blackbody of the wavenumbers it is reported on. -/
theorem breakdown_normalised_on_own_grid (n : Nat) (clip : Bool) :
    normalisedBy none (contribModelSteps n clip)
      = (List.range n).map (fun i => (i, (if clip then 1 else 0), some (if clip then 1 else 0))) := by
  unfold contribModelSteps
  simp only [List.cons_append, List.nil_append, normalisedBy]
  exact normalisedBy_blocks _ _ _

theorem starInits_blocks (g : Nat) (l : List Nat) : starInits (l.flatMap (contribBlock g)) = 0 := by
  induction l with
  | nil => rfl
  | cons i r ih =>
    unfold starInits at ih ⊢
    simp [List.flatMap_cons, contribBlock, ih]

/-- … and the star is initialised exactly once however many contributions are normalised: the stored SED has to serve all of
    them unchanged (the situation in which a `compute_final_flux` that rescales the stored SED shows). -/
theorem breakdown_one_star_initialisation (n : Nat) (clip : Bool) : starInits (contribModelSteps n clip) = 1 := by
  unfold contribModelSteps
  have h := starInits_blocks (if clip then 1 else 0) (List.range n)
  unfold starInits at h ⊢
  simp [h]

-- non-vacuity: three contributions on a clipped grid
example : normalisedBy none (contribModelSteps 3 true) = [(0, 1, some 1), (1, 1, some 1), (2, 1, some 1)]
    ∧ starInits (contribModelSteps 3 true) = 1 := by decide


end Taurex.C02
