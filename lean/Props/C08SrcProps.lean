/-
  C08 — the property theorems restated about the REGENERATED source.  `Props/C08Src.lean` proves that the methods translated
  on every run from taurex/core/priors.py (`Prior.prior`, `Uniform.set_bounds/sample/boundaries`, `Gaussian.sample/boundaries`
  and the five constructors) equal the model's `Prior.back`, `mkUniform`/`mkLogUniform`/`mkGaussian`/`mkLogGaussian`/
  `mkLogUniformLin`, `Prior.sample`, `Prior.boundaries`; `Props/C08.lean` proves the property about those.  The corollaries
  below compose the two: they are statements about the text of the code as it is now, over ℝ.

  Source expressions (instantiated exactly as the tie theorems instantiate them):
  * `srcUniformSample b0 b1 u`   — `Uniform(bounds=[b0,b1]).sample(u)` = `LogUniform(bounds=[b0,b1]).sample(u)`: the translated
    `Uniform.sample` on the attributes the translated `set_bounds` left behind, `scipy.stats.uniform.ppf` = `uPpf`;
  * `srcUniformBoundaries b0 b1` — `Uniform.boundaries()` on those attributes;
  * `srcGaussianSample ppf mean std u`, `srcGaussianBoundaries ppf mean std` — `Gaussian.sample/boundaries` (inherited by
    `LogGaussian`) with `_loc = mean`, `_scale = std`, `scipy.stats.norm.ppf` = `nPpf ppf` (`ppf` = `ndtri`, a parameter);
  * `Gen.SrcC08.Prior_prior x (modeCode m)` — `Prior.prior(x)` of an object whose `_prior_mode` is `m`;
  * `Gen.SrcC08.Uniform_init`, `LogUniform_init`, `Gaussian_init`, `LogGaussian_init` — the attribute tuples the constructors
    leave behind; `srcLogLinValue l0 l1 b0 b1 u` — `prior(sample(u))` of `LogUniform(bounds=[b0,b1], lin_bounds=[l0,l1])`
    evaluated on the attributes of the translated constructor.

  Hypotheses of the ties that stay visible: the translation's `math.log10` is total whereas Python raises for non-positive
  arguments, so every corollary about `lin_bounds` / `lin_mean` / `lin_std` carries the positivity of those arguments.

  Not restated (no tie):
  * `log_lin_equiv`, second half (non-positive `lin_bounds` are refused): the `ValueError` of `math.log10` is not in the
    translation (the tie `src_loguniform_init_lin` only speaks where the model constructs an object);
  * `default_from_bounds`: `defaultPrior` (the default-prior dispatch inside `compile_params`) has no tie;
  * `parse_print_tokens`, `parse_print`: `parsePrior`/`printPrior` (`parse_priors`, `create_prior`) have no tie.
-/
import Props.C08
import Props.C08Src
set_option linter.unusedSectionVars false

namespace Taurex.C08SrcProps
open Taurex.Priors Taurex.C08 Taurex.C08Src

/-! ### the instantiated source expressions -/

/-- `Uniform(bounds=[b0,b1]).sample(u)` (also `LogUniform(bounds=[b0,b1]).sample(u)`: inherited), regenerated source -/
noncomputable def srcUniformSample (b0 b1 u : ℝ) : ℝ :=
  Gen.SrcC08.Uniform_sample u (low_bounds := (Gen.SrcC08.Uniform_set_bounds b0 b1).1)
    (scale := (Gen.SrcC08.Uniform_set_bounds b0 b1).2.2) (uniform_ppf := uPpf)

/-- `Uniform(bounds=[b0,b1]).boundaries()` (inherited by `LogUniform`), regenerated source -/
noncomputable def srcUniformBoundaries (b0 b1 : ℝ) : ℝ × ℝ :=
  Gen.SrcC08.Uniform_boundaries (low_bounds := (Gen.SrcC08.Uniform_set_bounds b0 b1).1)
    (up_bounds := (Gen.SrcC08.Uniform_set_bounds b0 b1).2.1)

/-- `Gaussian(mean, std).sample(u)` (inherited by `LogGaussian`), regenerated source -/
noncomputable def srcGaussianSample (ppf : ℝ → ℝ) (mean std u : ℝ) : ℝ :=
  Gen.SrcC08.Gaussian_sample u (loc := mean) (scale := std) (norm_ppf := nPpf ppf)

/-- `Gaussian(mean, std).boundaries()` (inherited by `LogGaussian`), regenerated source -/
noncomputable def srcGaussianBoundaries (ppf : ℝ → ℝ) (mean std : ℝ) : ℝ × ℝ :=
  Gen.SrcC08.Gaussian_boundaries (c0p1 := 0.1) (c0p9 := 0.9) (loc := mean) (scale := std) (norm_ppf := nPpf ppf)

/-- `p.prior(p.sample(u))` for `p = LogUniform(bounds=[b0,b1], lin_bounds=[l0,l1])`: the translated `Prior.prior` and
    `Uniform.sample` on the attributes `(_prior_mode, _low_bounds, _up_bounds, _scale)` of the translated constructor -/
noncomputable def srcLogLinValue (l0 l1 b0 b1 u : ℝ) : ℝ :=
  Gen.SrcC08.Prior_prior
    (Gen.SrcC08.Uniform_sample u (low_bounds := (Gen.SrcC08.LogUniform_init b0 b1 (some (l0, l1))).2.1)
      (scale := (Gen.SrcC08.LogUniform_init b0 b1 (some (l0, l1))).2.2.2) (uniform_ppf := uPpf))
    (Gen.SrcC08.LogUniform_init b0 b1 (some (l0, l1))).1

theorem srcUniformSample_eq (ppf : ℝ → ℝ) (b0 b1 u : ℝ) :
    srcUniformSample b0 b1 u = (mkUniform b0 b1).sample ppf u := src_uniform_sample ppf b0 b1 u

theorem srcUniformSample_eq_log (ppf : ℝ → ℝ) (b0 b1 u : ℝ) :
    srcUniformSample b0 b1 u = (mkLogUniform b0 b1).sample ppf u := src_loguniform_sample ppf b0 b1 u

theorem srcUniformSample_fun_eq (ppf : ℝ → ℝ) (b0 b1 : ℝ) :
    srcUniformSample b0 b1 = (mkUniform b0 b1).sample ppf ∧ srcUniformSample b0 b1 = (mkLogUniform b0 b1).sample ppf :=
  ⟨funext (srcUniformSample_eq ppf b0 b1), funext (srcUniformSample_eq_log ppf b0 b1)⟩

theorem srcUniformBoundaries_eq (ppf : ℝ → ℝ) (b0 b1 : ℝ) :
    srcUniformBoundaries b0 b1 = (mkUniform b0 b1).boundaries ppf ∧
    srcUniformBoundaries b0 b1 = (mkLogUniform b0 b1).boundaries ppf := src_uniform_boundaries ppf b0 b1

theorem srcGaussianSample_eq (ppf : ℝ → ℝ) (mean std u : ℝ) :
    srcGaussianSample ppf mean std u = (mkGaussian mean std).sample ppf u ∧
    srcGaussianSample ppf mean std u = (Prior.logGaussian mean std).sample ppf u := src_gaussian_sample ppf mean std u

theorem srcGaussianSample_fun_eq (ppf : ℝ → ℝ) (mean std : ℝ) :
    srcGaussianSample ppf mean std = (mkGaussian mean std).sample ppf ∧
    srcGaussianSample ppf mean std = (Prior.logGaussian mean std).sample ppf :=
  ⟨funext fun u => (srcGaussianSample_eq ppf mean std u).1, funext fun u => (srcGaussianSample_eq ppf mean std u).2⟩

theorem srcGaussianBoundaries_eq (ppf : ℝ → ℝ) (mean std : ℝ) :
    srcGaussianBoundaries ppf mean std = (mkGaussian mean std).boundaries ppf ∧
    srcGaussianBoundaries ppf mean std = (Prior.logGaussian mean std).boundaries ppf :=
  src_gaussian_boundaries ppf mean std

/-! ### uniform priors -/

/-- the order of the two bounds is irrelevant: the attributes `set_bounds` stores, the constructed objects
    (`Uniform` and `LogUniform`) and every sample are the same for `[a, b]` and `[b, a]` -/
theorem src_uniform_order_free (a b : ℝ) :
    Gen.SrcC08.Uniform_set_bounds a b = Gen.SrcC08.Uniform_set_bounds b a ∧
    Gen.SrcC08.Uniform_init a b = Gen.SrcC08.Uniform_init b a ∧
    Gen.SrcC08.LogUniform_init a b none = Gen.SrcC08.LogUniform_init b a none ∧
    (∀ u, srcUniformSample a b u = srcUniformSample b a u) := by
  have h := (uniform_order_free a b).1
  simp only [mkUniform, Prior.uniform.injEq] at h
  obtain ⟨h1, h2⟩ := h
  refine ⟨?_, ?_, ?_, ?_⟩
  · rw [src_set_bounds, src_set_bounds, h1, h2]
  · rw [src_uniform_init, src_uniform_init, h1, h2]; rfl
  · rw [src_loguniform_init, src_loguniform_init, h1, h2]; rfl
  · intro u
    rw [srcUniformSample_eq id, srcUniformSample_eq id, (uniform_order_free a b).1]

/-- the stored bounds are (min, max) whatever the order given, about the regenerated source -/
theorem src_uniform_boundaries_minmax (a b : ℝ) : srcUniformBoundaries a b = (min a b, max a b) := by
  rw [(srcUniformBoundaries_eq id a b).1]; exact (uniform_boundaries a b id).1

/-- `sample` of a uniform (and log-uniform) prior is `low + (high - low) * u`, about the regenerated source -/
theorem src_uniform_sample_formula (a b u : ℝ) : srcUniformSample a b u = min a b + (max a b - min a b) * u := by
  rw [srcUniformSample_eq id]; exact (uniform_sample a b u id).1

/-- monotone in `u`, strictly when the bounds differ, about the regenerated source -/
theorem src_uniform_mono (a b : ℝ) :
    Monotone (srcUniformSample a b) ∧ (a ≠ b → StrictMono (srcUniformSample a b)) := by
  rw [(srcUniformSample_fun_eq id a b).1]
  exact ⟨(uniform_mono a b id).1, (uniform_mono a b id).2.1⟩

/-- the unit interval is mapped onto `[low, high]`: end points, range, surjectivity, about the regenerated source -/
theorem src_uniform_onto (a b : ℝ) :
    srcUniformSample a b 0 = min a b ∧ srcUniformSample a b 1 = max a b ∧
    (∀ u, 0 ≤ u → u ≤ 1 → min a b ≤ srcUniformSample a b u ∧ srcUniformSample a b u ≤ max a b) ∧
    (∀ x, min a b ≤ x → x ≤ max a b → ∃ u, 0 ≤ u ∧ u ≤ 1 ∧ srcUniformSample a b u = x) := by
  rw [(srcUniformSample_fun_eq id a b).1]
  exact uniform_onto a b id

/-- inverse-CDF identity of the uniform distribution on `[low, high]`, about the regenerated source -/
theorem src_uniform_inverse_cdf (a b u : ℝ) (h : a ≠ b) :
    (srcUniformSample a b u - min a b) / (max a b - min a b) = u := by
  rw [srcUniformSample_eq id]; exact uniform_inverse_cdf a b u id h

/-! ### log space -/

/-- `lin_bounds = [l0, l1]` (both positive) leaves behind exactly the attributes of `bounds = [log10 l0, log10 l1]`,
    whatever `bounds` was given alongside, about the regenerated constructor -/
theorem src_log_lin_equiv (b0 b1 l0 l1 : ℝ) (h0 : 0 < l0) (h1 : 0 < l1) :
    Gen.SrcC08.LogUniform_init b0 b1 (some (l0, l1)) = Gen.SrcC08.LogUniform_init (log10 l0) (log10 l1) none := by
  obtain ⟨lo, up, hp, hinit⟩ :=
    src_loguniform_init_lin b0 b1 l0 l1 _ ((log_lin_equiv l0 l1).1 h0 h1)
  simp only [mkLogUniform, Prior.logUniform.injEq] at hp
  obtain ⟨rfl, rfl⟩ := hp
  rw [hinit, src_loguniform_init]

/-- `lin_mean = m` is the same object as `mean = log10 m`, `lin_std = s` as `std = log10 s`, absent ones keep
    `mean`/`std`, about the regenerated constructor -/
theorem src_log_lin_equiv_gaussian (mean std lm ls : ℝ) (hm : 0 < lm) (hs : 0 < ls) :
    Gen.SrcC08.LogGaussian_init mean std (some lm) none = Gen.SrcC08.LogGaussian_init (log10 lm) std none none ∧
    Gen.SrcC08.LogGaussian_init mean std none (some ls) = Gen.SrcC08.LogGaussian_init mean (log10 ls) none none ∧
    Gen.SrcC08.LogGaussian_init mean std none none = (modeCode .log, mean, std) := by
  obtain ⟨e1, e2, e3⟩ := log_lin_equiv_gaussian mean std lm ls hm hs
  have key : ∀ (m s : ℝ) (a b : Option ℝ) (m' s' : ℝ), mkLogGaussian m s a b = some (.logGaussian m' s') →
      Gen.SrcC08.LogGaussian_init m s a b = (modeCode .log, m', s') := by
    intro m s a b m' s' h
    obtain ⟨loc, sc, hp, hinit⟩ := src_loggaussian_init m s a b _ h
    simp only [Prior.logGaussian.injEq] at hp
    obtain ⟨rfl, rfl⟩ := hp
    exact hinit
  have e1' : mkLogGaussian (log10 lm) std none none = some (.logGaussian (log10 lm) std) :=
    (log_lin_equiv_gaussian (log10 lm) std lm ls hm hs).2.2
  have e2' : mkLogGaussian mean (log10 ls) none none = some (.logGaussian mean (log10 ls)) :=
    (log_lin_equiv_gaussian mean (log10 ls) lm ls hm hs).2.2
  refine ⟨?_, ?_, key _ _ _ _ _ _ e3⟩
  · rw [key _ _ _ _ _ _ (e1.trans e1'), key _ _ _ _ _ _ e1']
  · rw [key _ _ _ _ _ _ (e2.trans e2'), key _ _ _ _ _ _ e2']

/-- what reaches the model: `x` for the linear classes, `10 ** x` for the log classes, so a log-space coordinate
    `log10 v` comes back as `v`, about the regenerated `Prior.prior` -/
theorem src_prior_back_value (p : Prior ℝ) (x v : ℝ) (hv : 0 < v) :
    (p.mode = .linear → Gen.SrcC08.Prior_prior x (modeCode p.mode) = x) ∧
    (p.mode = .log → Gen.SrcC08.Prior_prior x (modeCode p.mode) = (10 : ℝ) ^ x ∧
      Gen.SrcC08.Prior_prior (log10 v) (modeCode p.mode) = v) := by
  rw [src_prior_back, src_prior_back]; exact prior_back p x v hv

/-- the two `Log…` constructors and only they set `_prior_mode = LOG`, about the regenerated constructors -/
theorem src_mode_of_class (a b : ℝ) :
    (Gen.SrcC08.Uniform_init a b).1 = modeCode .linear ∧ (Gen.SrcC08.LogUniform_init a b none).1 = modeCode .log ∧
    (Gen.SrcC08.Gaussian_init a b).1 = modeCode .linear ∧
    (Gen.SrcC08.LogGaussian_init a b none none).1 = modeCode .log := by
  obtain ⟨m1, m2, m3, m4⟩ := mode_of_class a b
  refine ⟨?_, ?_, ?_, ?_⟩
  · rw [src_uniform_init, m1]
  · rw [src_loguniform_init, m2]
  · rw [(src_gaussian_init a b).1, m3]
  · obtain ⟨loc, sc, hp, hinit⟩ := src_loggaussian_init a b none none _
      (log_lin_equiv_gaussian a b 1 1 one_pos one_pos).2.2
    rw [hinit, m4 _ (log_lin_equiv_gaussian a b 1 1 one_pos one_pos).2.2]

theorem srcLogLinValue_eq (ppf : ℝ → ℝ) (l0 l1 b0 b1 u : ℝ) (h0 : 0 < l0) (h1 : 0 < l1) :
    srcLogLinValue l0 l1 b0 b1 u =
      (mkLogUniform (log10 l0) (log10 l1)).back ((mkLogUniform (log10 l0) (log10 l1)).sample ppf u) := by
  unfold srcLogLinValue
  rw [src_log_lin_equiv b0 b1 l0 l1 h0 h1, src_loguniform_init, src_prior_back,
    ← src_loguniform_sample ppf (log10 l0) (log10 l1) u, src_set_bounds]

/-- a log-uniform prior given by linear bounds hands the model values from exactly `[min l, max l]`: the end points
    come back as the linear bounds and `u ↦ prior(sample u)` is monotone, about the regenerated constructor,
    `Uniform.sample` and `Prior.prior` -/
theorem src_log_uniform_linear_range (l0 l1 b0 b1 : ℝ) (h0 : 0 < l0) (h1 : 0 < l1) :
    srcLogLinValue l0 l1 b0 b1 0 = min l0 l1 ∧ srcLogLinValue l0 l1 b0 b1 1 = max l0 l1 ∧
      Monotone (srcLogLinValue l0 l1 b0 b1) := by
  obtain ⟨p, hp, e0, e1, hm⟩ := log_uniform_linear_range l0 l1 h0 h1 id
  rw [(log_lin_equiv l0 l1).1 h0 h1] at hp
  cases Option.some.inj hp
  have hf : srcLogLinValue l0 l1 b0 b1 = fun u =>
      (mkLogUniform (log10 l0) (log10 l1)).back ((mkLogUniform (log10 l0) (log10 l1)).sample id u) :=
    funext fun u => srcLogLinValue_eq id l0 l1 b0 b1 u h0 h1
  rw [hf]
  exact ⟨e0, e1, hm⟩

/-! ### Gaussian priors -/

/-- with a positive width and a monotone standard-normal quantile function, `sample` is monotone (strictly if `ppf` is),
    about the regenerated `Gaussian.sample` (which `LogGaussian` inherits) -/
theorem src_gaussian_mono (mean std : ℝ) (hs : 0 < std) (ppf : ℝ → ℝ) :
    (Monotone ppf → Monotone (srcGaussianSample ppf mean std)) ∧
    (StrictMono ppf → StrictMono (srcGaussianSample ppf mean std)) := by
  rw [(srcGaussianSample_fun_eq ppf mean std).1]
  exact ⟨(gaussian_mono mean std hs ppf).1, (gaussian_mono mean std hs ppf).2.1⟩

/-- inverse-CDF identity: if `ppf` is a right inverse of the standard normal CDF `Φ` at `u`, the CDF of N(mean, std²)
    at `sample u` is `u`, about the regenerated `Gaussian.sample` -/
theorem src_gaussian_inverse_cdf (mean std u : ℝ) (hs : 0 < std) (ppf Φ : ℝ → ℝ) (hΦ : Φ (ppf u) = u) :
    Φ ((srcGaussianSample ppf mean std u - mean) / std) = u := by
  rw [(srcGaussianSample_eq ppf mean std u).1]; exact gaussian_inverse_cdf mean std u hs ppf Φ hΦ

/-- `boundaries()` of a Gaussian are its 10 % and 90 % quantiles, about the regenerated `Gaussian.boundaries` -/
theorem src_gaussian_boundaries_quantiles (mean std : ℝ) (ppf : ℝ → ℝ) :
    srcGaussianBoundaries ppf mean std = (ppf 0.1 * std + mean, ppf 0.9 * std + mean) := by
  rw [(srcGaussianBoundaries_eq ppf mean std).1]; exact gaussian_boundaries mean std ppf

end Taurex.C08SrcProps
