/-
  C09 — posterior summaries are the weighted statistics of the stored samples.
  Theorems about `TaurexModel/Posterior.lean` (the definitions `driver_c09` executes), real carrier.
  Guards: equal lengths, at least one sample, weights `≥ 0` with positive sum — the regime in which the model stands
  for the code (`cdf /= cdf[-1]` divides by the total weight; `np.interp` needs a non-decreasing `cdf`).
-/
import Proofs.C09Lemmas
import Proofs.C09Chains

namespace Taurex.C09
open Taurex.Posterior

/-- every weighted quantile lies between the smallest and the largest sample -/
theorem quantile_between (x w : List ℝ) (q lo hi : ℝ) (hlen : x.length = w.length) (hne : x ≠ [])
    (_hw : ∀ b ∈ w, 0 ≤ b) (_htot : 0 < w.sum) (hlo : ∀ a ∈ x, lo ≤ a) (hhi : ∀ a ∈ x, a ≤ hi) :
    lo ≤ quantileCorner x w q ∧ quantileCorner x w q ≤ hi := by
  have hn : nodes x w ≠ [] := by
    intro h
    have := nodes_length x w
    rw [h] at this
    have hx : 0 < x.length := List.length_pos_iff.2 hne
    simp at this
    omega
  rw [quantileCorner_eq]
  exact ⟨interpPairs_ge q lo _ hn (fun p hp => hlo _ (nodes_snd_mem hp)),
         interpPairs_le q hi _ hn (fun p hp => hhi _ (nodes_snd_mem hp))⟩

example : ∃ x w : List ℝ, x.length = w.length ∧ x ≠ [] ∧ (∀ b ∈ w, 0 ≤ b) ∧ 0 < w.sum ∧
    (∀ a ∈ x, (1 : ℝ) ≤ a) ∧ (∀ a ∈ x, a ≤ 5) :=
  ⟨[3, 1, 2, 5], [1, 1, 0, 2], rfl, by simp, by norm_num, by norm_num, by norm_num, by norm_num⟩

/-- the quantile is non-decreasing in `q` -/
theorem quantile_mono_q (x w : List ℝ) (q q' : ℝ) (_hlen : x.length = w.length)
    (_hw : ∀ b ∈ w, 0 ≤ b) (_htot : 0 < w.sum) (hq : q ≤ q') :
    quantileCorner x w q ≤ quantileCorner x w q' := by
  rw [quantileCorner_eq, quantileCorner_eq]
  exact interpPairs_mono hq _ (nodes_valSorted x w)

example : ((16 : ℝ) / 100 ≤ 50 / 100) ∧ ((50 : ℝ) / 100 ≤ 84 / 100) := by norm_num

/-- The weighted-quantile rule itself.  `nodes x w` (Proofs/C09Lemmas.lean) is the list of pairs
    (cumulative weight fraction, value) of the samples sorted by value.  With strictly positive weights the quantile
    at each cumulative fraction is exactly the corresponding sorted sample. -/
theorem quantile_at_node (x w : List ℝ) (hw : ∀ b ∈ w, 0 < b) :
    ∀ p ∈ nodes x w, quantileCorner x w p.1 = p.2 := by
  intro p hp
  rw [quantileCorner_eq]
  exact interpPairs_node _ (nodes_absStrict x w hw) p hp

/-- … and between two consecutive nodes `a`, `b` (`a.1 ≤ q < b.1`: `a` is the last node whose fraction is `≤ q`) it
    is the linear interpolant, left of the first node the smallest sample, from the last node on the largest:
    this is `np.interp(q, cdf, xsorted)` (weights `≥ 0` suffice for the three cases: the fractions only need to be
    non-decreasing). -/
theorem quantile_is_interp (q : ℝ) (pre post : List (ℝ × ℝ)) (a b : ℝ × ℝ) (ps : List (ℝ × ℝ)) :
    (AbsSorted (pre ++ a :: b :: post) → a.1 ≤ q → q < b.1 →
      interpPairs q (pre ++ a :: b :: post) =
        if a.1 < q then ((b.2 - a.2) / (b.1 - a.1)) * (q - a.1) + a.2 else a.2) ∧
    (AbsSorted (a :: ps) → q < a.1 → interpPairs q (a :: ps) = a.2) ∧
    (∀ hne : ps ≠ [], (∀ p ∈ ps, p.1 ≤ q) → interpPairs q ps = (ps.getLast hne).2) :=
  ⟨fun hs ha hb => interpPairs_cell q a b post ha hb pre hs,
   fun hs hx => interpPairs_left q a ps hs hx,
   fun hne hall => interpPairs_right q ps hne hall⟩

/-- the nodes of 4 samples with positive weights (rational carrier): fractions 1/5, 2/5, 3/5, 1 -/
example : (let s := sortPairs (α := Rat) (List.zip [3, 1, 2, 5] [1, 1, 1, 2]);
    List.zip (cdfOf (s.map Prod.snd)) (s.map Prod.fst)) = [(1 / 5, 1), (2 / 5, 2), (3 / 5, 3), (1, 5)] := by
  decide +kernel

/-- value / lower error / upper error are the 50 %, 50 − 16 % and 84 − 50 % weighted quantiles, the mean the
    weighted mean -/
theorem summary_is_quantiles (t w : List ℝ) :
    (summary t w).value = quantileCorner t w (50 / 100) ∧
    (summary t w).sigmaM = quantileCorner t w (50 / 100) - quantileCorner t w (16 / 100) ∧
    (summary t w).sigmaP = quantileCorner t w (84 / 100) - quantileCorner t w (50 / 100) ∧
    (summary t w).mean = wmean t w := ⟨rfl, rfl, rfl, rfl⟩

/-- the exact summary of 4 samples with a tie in the weights and a zero weight (rational carrier, kernel-evaluated) -/
example : (summary (α := Rat) [3, 1, 2, 5] [1, 1, 0, 2]).value = 3 ∧
    (summary (α := Rat) [3, 1, 2, 5] [1, 1, 0, 2]).sigmaM = 2 ∧
    (summary (α := Rat) [3, 1, 2, 5] [1, 1, 0, 2]).mean = 7 / 2 := by decide +kernel

/-- both errors are non-negative -/
theorem summary_signs (t w : List ℝ) (hlen : t.length = w.length) (hw : ∀ b ∈ w, 0 ≤ b) (htot : 0 < w.sum) :
    0 ≤ (summary t w).sigmaM ∧ 0 ≤ (summary t w).sigmaP := by
  obtain ⟨_, h2, h3, _⟩ := summary_is_quantiles t w
  rw [h2, h3]
  have a := quantile_mono_q t w (16 / 100) (50 / 100) hlen hw htot (by norm_num)
  have b := quantile_mono_q t w (50 / 100) (84 / 100) hlen hw htot (by norm_num)
  constructor <;> linarith

/-- jointly permuting samples and weights changes no quantile when the sample values are distinct -/
theorem quantile_perm (x w x' w' : List ℝ) (q : ℝ) (hlen : x.length = w.length)
    (hp : (List.zip x w).Perm (List.zip x' w')) (hd : x.Nodup) :
    quantileCorner x w q = quantileCorner x' w' q := by
  have hfst : (List.zip x w).map Prod.fst = x := List.map_fst_zip (le_of_eq hlen)
  have h := sortPairs_perm_eq hp (by rw [hfst]; exact hd)
  unfold quantileCorner
  rw [h]

example : ([3, 1, 2, 5] : List ℝ).Nodup ∧
    (List.zip ([3, 1, 2, 5] : List ℝ) ([1, 1, 0, 2] : List ℝ)).Perm
      (List.zip ([5, 2, 1, 3] : List ℝ) ([2, 0, 1, 1] : List ℝ)) := by
  refine ⟨by norm_num, ?_⟩
  have h := List.reverse_perm ([(5, 2), (2, 0), (1, 1), (3, 1)] : List (ℝ × ℝ))
  simpa using h

/-- with tied values the result may depend on the order inside the tie group (why `quantile_perm` needs distinct
    values): two samples of equal value, different weights, rational carrier -/
example : quantileCorner (α := Rat) [1, 2, 2] [1, 1, 2] (3 / 10) ≠ quantileCorner (α := Rat) [1, 2, 2] [1, 2, 1] (3 / 10) := by
  decide +kernel

/-- the MAP index is a valid index, no weight exceeds the weight there, and every earlier weight is smaller:
    it is the first sample of greatest weight -/
theorem map_is_heaviest (w : List ℝ) (hne : w ≠ []) :
    argmaxFirst w < w.length ∧ (∀ j, j < w.length → w.getD j 0 ≤ w.getD (argmaxFirst w) 0) ∧
    (∀ j, j < argmaxFirst w → w.getD j 0 < w.getD (argmaxFirst w) 0) :=
  argmaxFirst_spec w hne

example : argmaxFirst (α := Rat) [1, 4, 0, 4, 2] = 1 := by decide +kernel

/-- the weighted mean lies between the smallest and the largest sample -/
theorem wmean_between (x w : List ℝ) (lo hi : ℝ) (hlen : x.length = w.length) (hw : ∀ b ∈ w, 0 ≤ b)
    (htot : 0 < w.sum) (hlo : ∀ a ∈ x, lo ≤ a) (hhi : ∀ a ∈ x, a ≤ hi) :
    lo ≤ wmean x w ∧ wmean x w ≤ hi := by
  unfold wmean
  rw [sumL_eq, sumL_eq]
  constructor
  · rw [le_div_iff₀ htot]; exact wsum_ge lo x w hlen hlo hw
  · rw [div_le_iff₀ htot]; exact wsum_le hi x w hlen hhi hw

/-- what is stored is the sampler's output unchanged; the MAP vector is the stored sample of greatest weight,
    the trace of parameter `i` is column `i` of the stored samples, the median vector holds the 50 % quantiles -/
theorem traces_unchanged (ndim : Nat) (samples : List (List ℝ)) (weights : List ℝ) :
    (storeOutput ndim samples weights).tracedata = samples ∧
    (storeOutput ndim samples weights).weights = weights ∧
    mapVector (storeOutput ndim samples weights) = samples.getD (argmaxFirst weights) [] ∧
    (∀ i, i < ndim → (storeOutput ndim samples weights).params[i]? = some (summary (column samples i) weights)) ∧
    (∀ (i k : Nat), (column samples i)[k]? = (samples[k]?).map (fun (row : List ℝ) => row.getD i 0)) := by
  refine ⟨rfl, rfl, rfl, ?_, ?_⟩
  · intro i hi
    simp [storeOutput, hi]
  · intro i k
    simp [column]

/-- A derived trace has one entry per sample, entry `i` being the derived value at sample `i`.  The re-ordering step
    of `compute_derived_trace` (`restore = all_index.argsort(); gathered[restore]`) returns the values in sample
    order for **every** gather order: if entry `k` of the gathered list is the value `g` of sample `index[k]` and
    `index` lists every sample once (one process: `0 … n-1`; several ranks: the blocks `r, r+size, …`
    concatenated), the result is `g 0, g 1, …, g (n-1)` — ties or zeros among the weights play no role.
    In one process nothing moves. -/
theorem derived_trace_in_sample_order {γ β : Type} (f : γ → β) (samples : List γ) (g : Nat → β)
    (index : List Nat) (n : Nat) (hp : index.Perm (List.range n)) :
    (derivedTrace f samples).length = samples.length ∧
    (∀ (i : Nat), (derivedTrace f samples)[i]? = (samples[i]?).map f) ∧
    restoreOrder index (index.map g) = (List.range n).map g ∧
    restoreOrder (List.range (derivedTrace f samples).length) (derivedTrace f samples) = derivedTrace f samples :=
  ⟨by simp [derivedTrace], fun i => by simp [derivedTrace], restoreOrder_map g index n hp, restoreOrder_range _⟩

/-- two ranks, five samples: rank 0 holds samples 0, 2, 4, rank 1 holds 1, 3 -/
example : ([0, 2, 4, 1, 3] : List Nat).Perm (List.range 5) ∧
    restoreOrder [0, 2, 4, 1, 3] ["s0", "s2", "s4", "s1", "s3"] = ["s0", "s1", "s2", "s3", "s4"] := by
  decide

/-- **The samples the MultiNest / PolyChord wrappers summarise are the samples of the chains files, unchanged and in file
    order.**  A chains table (`<base>.txt`, `1-.txt`, `clusters/1-_k.txt`: weight, -2 logL, parameter values) gives one
    solution whose samples are the columns `2:` and whose weights are column `0` of the table; `<base>post_separate.dat` in
    MultiNest's layout (`fileOf blocks`: before every mode two empty lines, then one line per sample; modes non-empty, every
    line with its weight, likelihood and at least one parameter, `n` parameters throughout) gives one solution per mode, in
    file order, each with exactly the samples and weights of its lines; PolyChord with several clusters gives one solution
    per cluster file. -/
theorem chain_files_unchanged :
    (∀ data : List (List ℝ), nestChainsSingle data = ([data.map (fun r => r.drop 2)], [data.map (fun r => r.getD 0 0)])) ∧
    (∀ (blocks : List (List (List ℝ))) (n : ℕ), blocks ≠ [] → (∀ b ∈ blocks, b ≠ []) → 1 ≤ n →
      (∀ b ∈ blocks, ∀ r ∈ b, r.length = n + 2) →
      nestChainsModes (fileOf blocks)
        = (blocks.map (fun b => b.map (fun r => r.drop 2)), blocks.map (fun b => b.map (fun r => r.getD 0 0)))) ∧
    (∀ (nfit nc : ℕ) (data : List (List ℝ)) (cluster : ℕ → List (List ℝ)), nc ≠ 1 →
      polyChains nfit true nc data cluster
        = ((List.range nc).map (fun k => (cluster k).map (fun r => (r.drop 2).take nfit)),
           (List.range nc).map (fun k => (cluster k).map (fun r => r.getD 0 0)), nc)) ∧
    (∀ (nfit nc : ℕ) (dc : Bool) (data : List (List ℝ)) (cluster : ℕ → List (List ℝ)), dc = false ∨ nc = 1 →
      polyChains nfit dc nc data cluster
        = ([data.map (fun r => (r.drop 2).take nfit)], [data.map (fun r => r.getD 0 0)], 1)) := by
  refine ⟨fun _ => rfl, ?_, ?_, ?_⟩
  · intro blocks n hne hb hn hlen
    have hrows : ∀ b ∈ blocks, ∀ r ∈ b, 2 < r.length := fun b hb' r hr => by rw [hlen b hb' r hr]; omega
    unfold nestChainsModes
    rw [splitModes_fileOf blocks hne hb hrows]
    simp only [List.map_map]
    congr 1
    apply List.map_congr_left
    intro b hb'
    exact modeArray_rect _ n (fun r hr => by
      obtain ⟨r0, hr0, rfl⟩ := List.mem_map.1 hr
      rw [List.length_drop, hlen b hb' r0 hr0]; omega)
  · intro nfit nc data cluster h1
    simp [polyChains, h1, tableSamplesN, tableWeights]
  · intro nfit nc dc data cluster h
    rcases h with h | h
    · simp [polyChains, h, tableSamplesN, tableWeights]
    · cases dc <;> simp [polyChains, h, tableSamplesN, tableWeights]

example : nestChainsModes (fileOf [[[(1 : ℝ), 0, 7, 8], [3, 0, 9, 10]], [[2, 0, 5, 6]]])
    = ([[[7, 8], [9, 10]], [[5, 6]]], [[1, 3], [2]]) :=
  (chain_files_unchanged.2.1 [[[(1 : ℝ), 0, 7, 8], [3, 0, 9, 10]], [[2, 0, 5, 6]]] 2 (by simp) (by simp) (by norm_num)
    (by simp))

/-- **The solution is evaluated where each parameter's own prior says.**  `update_model` hands the model, for the sampled
    vector `v` (the MAP, the median, every sample of a derived trace), the vector `modelPoint bs v`: it has one entry per
    fitted parameter and entry `i` is `prior_i.prior(v_i)` — the map of the prior object of THAT parameter, whatever the
    other priors are.  For the built-in classes the map is `x` or `10 ** x`; a user-defined prior that overrides `prior`
    (here: natural-log space, scaled units) is applied as it is — it is not re-derived from the prior's log / linear mode —
    so a parameter sampled as `ln y` (resp. `log10 y`) reaches the model as `y`. -/
theorem model_point_through_prior (bs : List (Back ℝ)) (v : List ℝ) (hlen : bs.length = v.length) :
    (modelPoint bs v).length = v.length ∧
    (∀ (i : ℕ) (b : Back ℝ) (x : ℝ), bs[i]? = some b → v[i]? = some x → (modelPoint bs v)[i]? = some (b.apply x)) ∧
    (∀ x : ℝ, Back.identity.apply x = x ∧ Back.pow10.apply x = (10 : ℝ) ^ x ∧ Back.expNat.apply x = Real.exp x) ∧
    (∀ a b x : ℝ, (Back.affine a b).apply x = a * x + b) ∧
    (∀ y : ℝ, 0 < y → Back.expNat.apply (Real.log y) = y ∧ Back.pow10.apply (Real.log y / Real.log 10) = y) := by
  refine ⟨by simp [modelPoint, hlen], ?_, fun x => ⟨rfl, rfl, rfl⟩, fun a b x => rfl, ?_⟩
  · intro i b x hb hx
    simp [modelPoint, List.getElem?_zipWith, hb, hx]
  · intro y hy
    refine ⟨Real.exp_log hy, ?_⟩
    show (10 : ℝ) ^ (Real.log y / Real.log 10) = y
    have h10 : (0 : ℝ) < 10 := by norm_num
    have hl : Real.log 10 ≠ 0 := ne_of_gt (Real.log_pos (by norm_num))
    rw [Real.rpow_def_of_pos h10, mul_div_cancel₀ _ hl, Real.exp_log hy]

/-- three fitted parameters: a built-in linear prior, a built-in log prior and a user-defined prior in scaled units -/
example : modelPoint [Back.identity, Back.pow10, Back.affine 2 (-1)] [(3 : ℝ), 2, 5] = [3, 100, 9] := by
  simp [modelPoint, Back.apply]
  norm_num

/-- a parameter sampled in natural-log space through a user-defined prior reaches the model in linear space, and the
    user-defined map is not the identity a linear-mode prior would otherwise stand for -/
example : Back.expNat.apply (Real.log 7) = (7 : ℝ) ∧ (Back.affine 2 (-1)).apply (5 : ℝ) ≠ Back.identity.apply 5 := by
  refine ⟨((model_point_through_prior [] [] rfl).2.2.2.2 7 (by norm_num)).1, ?_⟩
  simp [Back.apply]
  norm_num

end Taurex.C09
