/-
  C10 — atmospheric composition is a valid mixture for every input.
  Every `theorem` of this file is an audited obligation about the definitions of TaurexModel/Chemistry.lean
  (the ones `driver_c10` executes on Float), here at the real carrier.
  `column rows j` is the list of the layer-`j` values of all rows; `sumL` is Python's `sum`.
-/
import Proofs.C10Lemmas

namespace Taurex.C10
open Taurex.NpInterp Taurex.Chemistry

/-- shape of an accepted mixture: one row per gas (fill gases first, then the trace rows unchanged), one value
    per layer. -/
theorem mix_rows (nFill : Nat) (ratios : List ℝ) (traces rows : List (List ℝ)) (n : Nat) (h1 : 1 ≤ nFill)
    (hr : ∀ r ∈ traces, r.length = n) (hok : mixProfile nFill ratios traces n = .ok rows) :
    rows.length = nFill + traces.length ∧ (∀ r ∈ rows, r.length = n) ∧ rows.drop nFill = traces := by
  obtain ⟨hl, _, rfl⟩ := mixProfile_ok _ _ _ _ _ hok
  have hfl := fill_length nFill ratios ((totalMix traces n).map (fun t => 1 - t)) h1 (fun hne => hl (by omega))
  refine ⟨by rw [List.length_append, hfl], ?_, ?_⟩
  · intro r hr'
    rcases List.mem_append.1 hr' with h | h
    · rw [fill_rows_length _ _ _ r h, List.length_map, totalMix_length _ _ hr]
    · exact hr r h
  · rw [List.drop_left' hfl]

/-- the fill gases share exactly the remainder `1 − Σ traces` of every layer -/
theorem fill_sum (nFill : Nat) (ratios : List ℝ) (traces rows : List (List ℝ)) (n : Nat) (h1 : 1 ≤ nFill)
    (hr : ∀ r ∈ traces, r.length = n) (hratio : ∀ r ∈ ratios, 0 ≤ r)
    (hok : mixProfile nFill ratios traces n = .ok rows) :
    ∀ j, j < n → sumL (column (rows.take nFill) j) = 1 - sumL (column traces j) := by
  obtain ⟨hl, _, rfl⟩ := mixProfile_ok _ _ _ _ _ hok
  have hfl := fill_length nFill ratios ((totalMix traces n).map (fun t => 1 - t)) h1 (fun hne => hl (by omega))
  intro j hj
  rw [List.take_left' hfl, fill_column_sum _ _ _ _ (fun hne => hl (by omega))
    (by have := sumL_nonneg _ hratio; linarith),
    rem_getD _ _ (by rw [totalMix_length _ _ hr]; exact hj), totalMix_getD _ _ _ hj hr]

/-- **the volume mixing ratios of every layer sum to one** -/
theorem mix_sum_one (nFill : Nat) (ratios : List ℝ) (traces rows : List (List ℝ)) (n : Nat) (h1 : 1 ≤ nFill)
    (hr : ∀ r ∈ traces, r.length = n) (hratio : ∀ r ∈ ratios, 0 ≤ r)
    (hok : mixProfile nFill ratios traces n = .ok rows) :
    ∀ j, j < n → sumL (column rows j) = 1 := by
  intro j hj
  have hfs := fill_sum nFill ratios traces rows n h1 hr hratio hok j hj
  have hrows := (mix_rows nFill ratios traces rows n h1 hr hok).2.2
  have : rows = rows.take nFill ++ traces := by rw [← hrows, List.take_append_drop]
  rw [this, column_append, sumL_append, hfs]
  ring

/-- **an accepted mixture has no negative entry** (non-negative traces and ratios) -/
theorem mix_nonneg (nFill : Nat) (ratios : List ℝ) (traces rows : List (List ℝ)) (n : Nat)
    (hratio : ∀ r ∈ ratios, 0 ≤ r) (hnn : ∀ r ∈ traces, ∀ x ∈ r, 0 ≤ x)
    (hok : mixProfile nFill ratios traces n = .ok rows) : ∀ r ∈ rows, ∀ x ∈ r, 0 ≤ x := by
  obtain ⟨_, hle, rfl⟩ := mixProfile_ok _ _ _ _ _ hok
  intro r hr'
  rcases List.mem_append.1 hr' with h | h
  · refine fill_nonneg nFill ratios _ hratio ?_ r h
    intro x hx
    simp only [List.mem_map] at hx
    obtain ⟨t, ht, rfl⟩ := hx
    linarith [hle t ht]
  · exact hnn r h

/-- **every further fill gas is exactly `ratio ×` the first fill gas** -/
theorem fill_ratio (nFill : Nat) (ratios : List ℝ) (traces rows : List (List ℝ)) (n : Nat) (h2 : 2 ≤ nFill)
    (hok : mixProfile nFill ratios traces n = .ok rows) :
    ∀ k (hk : k < ratios.length), rows.getD (k + 1) [] = (rows.getD 0 []).map (fun m => ratios[k] * m) := by
  obtain ⟨hl, _, rfl⟩ := mixProfile_ok _ _ _ _ _ hok
  intro k hk
  rw [fillAtmosphere_many nFill ratios _ (by omega) (hl (by omega))]
  simp only [List.cons_append, List.getD_cons_zero, List.getD_cons_succ]
  rw [getD_eq _ _ (by simp; omega)]
  simp [List.getElem_append_left, hk]

/-- **traces exceeding one anywhere ⇒ the model is rejected as invalid** (so, with `mix_nonneg`, a negative fill
    is never produced) -/
theorem exceed_rejected (nFill : Nat) (ratios : List ℝ) (traces : List (List ℝ)) (n : Nat)
    (h : ∃ t ∈ totalMix traces n, 1 < t) : mixProfile nFill ratios traces n = .invalid := by
  unfold mixProfile
  simp only []
  split_ifs with h1 h2
  · rfl
  · rfl
  · exfalso
    apply h2
    rw [List.any_eq_true]
    obtain ⟨t, ht, hlt⟩ := h
    exact ⟨t, ht, by simpa using hlt⟩

/-- conversely a total of at most one in every layer (exactly one included) is accepted -/
theorem unity_accepted (nFill : Nat) (ratios : List ℝ) (traces : List (List ℝ)) (n : Nat)
    (hl : 1 < nFill → ratios.length = nFill - 1) (h : ∀ t ∈ totalMix traces n, t ≤ 1) :
    ∃ rows, mixProfile nFill ratios traces n = .ok rows := by
  unfold mixProfile
  simp only []
  split_ifs with h1 h2
  · exact absurd (hl h1.1) h1.2
  · exfalso
    rw [List.any_eq_true] at h2
    obtain ⟨t, ht, hlt⟩ := h2
    have := h t ht
    simp only [decide_eq_true_eq] at hlt
    linarith
  · exact ⟨_, rfl⟩

/-- **the mean molecular weight of layer `j` is the abundance-weighted sum of the molecular masses** -/
theorem mu_weighted (mix : List (List ℝ)) (masses : List ℝ) (n : Nat) (hr : ∀ r ∈ mix, r.length = n) :
    ∀ j, j < n → (muProfile mix masses n).getD j 0 =
      sumL ((mix.zip masses).map (fun rm => rm.1.getD j 0 * rm.2)) :=
  fun j hj => muProfile_getD mix masses n j hj hr

/-- the molecules that count as absorbing: registered opacity data minus the `deactive_molecules` option -/
theorem available_spec (registered : List String) (deactive : Option (List String)) (g : String) :
    g ∈ availableActive registered deactive ↔ g ∈ registered ∧ ∀ d, deactive = some d → g ∉ d := by
  cases deactive with
  | none => simp [availableActive]
  | some d => simp [availableActive, List.mem_filter]

example : availableActive ["H2O", "CH4", "CO2"] (some ["CH4"]) = ["H2O", "CO2"] := by decide

/-- **active and inactive gases partition the gas list** by availability, each in the original order, and the
    masks point at exactly those gases -/
theorem partition_perm (gases avail : List String) :
    (activeGases gases avail ++ inactiveGases gases avail).Perm gases ∧
    (activeGases gases avail).Sublist gases ∧ (inactiveGases gases avail).Sublist gases ∧
    (∀ g, g ∈ activeGases gases avail ↔ g ∈ gases ∧ avail.contains g = true) ∧
    (activeMask gases avail).map (fun i => gases.getD i "") = activeGases gases avail ∧
    (inactiveMask gases avail).map (fun i => gases.getD i "") = inactiveGases gases avail := by
  refine ⟨?_, List.filter_sublist, List.filter_sublist, ?_, ?_, ?_⟩
  · exact List.filter_append_perm _ _
  · intro g; simp [activeGases, List.mem_filter]
  · have := maskFrom_map (fun g => avail.contains g) gases [] 0 rfl
    simpa [activeMask, activeGases] using this
  · have := maskFrom_map (fun g => !avail.contains g) gases [] 0 rfl
    simpa [inactiveMask, inactiveGases] using this

/-- **`get_gas_mix_profile(g)` is the row of `g` in `mixProfile`** (row index = position of `g` in the gas list)
    and a `KeyError` exactly for unknown names -/
theorem lookup_row {β : Type} (gases avail : List String) (mix : List (List β)) (g : String) :
    (g ∈ gases → getGasMixProfile gases avail mix g = some (mix.getD (gases.idxOf g) [])) ∧
    (g ∉ gases → getGasMixProfile gases avail mix g = none) := by
  constructor
  · intro hg
    unfold getGasMixProfile
    simp only []
    by_cases ha : avail.contains g = true
    · have hmem : g ∈ activeGases gases avail := List.mem_filter.2 ⟨hg, ha⟩
      rw [if_pos (by simpa using hmem)]
      rw [selectRows_getD _ _ _ (by
        rw [activeMask, maskFrom_length]; exact List.idxOf_lt_length_of_mem hmem)]
      rw [activeMask, activeGases, maskFrom_idxOf (fun g => avail.contains g) g ha gases 0 hg, Nat.zero_add]
    · have hmem : g ∈ inactiveGases gases avail := List.mem_filter.2 ⟨hg, by simpa using ha⟩
      have hnot : g ∉ activeGases gases avail := fun h => ha (List.mem_filter.1 h).2
      rw [if_neg (by simpa using hnot), if_pos (by simpa using hmem)]
      rw [selectRows_getD _ _ _ (by
        rw [inactiveMask, maskFrom_length]; exact List.idxOf_lt_length_of_mem hmem)]
      rw [inactiveMask, inactiveGases, maskFrom_idxOf (fun g => !avail.contains g) g (by simpa using ha) gases 0 hg,
        Nat.zero_add]
  · intro hg
    unfold getGasMixProfile
    simp only []
    have h1 : g ∉ activeGases gases avail := fun h => hg (List.mem_filter.1 h).1
    have h2 : g ∉ inactiveGases gases avail := fun h => hg (List.mem_filter.1 h).1
    rw [if_neg (by simpa using h1), if_neg (by simpa using h2)]

/-! ### non-vacuity of the mixture theorems: 3 fill gases (ratios 1/2, 1/4) + 2 traces whose total is exactly
    one in the bottom layer and 3/8 in the top layer -/

example : (1 ≤ 3) ∧ (∀ r ∈ [[(1 / 2 : ℝ), 1 / 4], [1 / 2, 1 / 8]], r.length = 2) ∧
    (∀ r ∈ [(1 / 2 : ℝ), 1 / 4], 0 ≤ r) ∧ (∀ r ∈ [[(1 / 2 : ℝ), 1 / 4], [1 / 2, 1 / 8]], ∀ x ∈ r, 0 ≤ x) ∧
    (∃ rows, mixProfile 3 [(1 / 2 : ℝ), 1 / 4] [[1 / 2, 1 / 4], [1 / 2, 1 / 8]] 2 = .ok rows) ∧
    totalMix [[(1 / 2 : ℝ), 1 / 4], [1 / 2, 1 / 8]] 2 = [1, 3 / 8] := by
  have ht : totalMix [[(1 / 2 : ℝ), 1 / 4], [1 / 2, 1 / 8]] 2 = [1, 3 / 8] := by
    simp [totalMix, List.replicate]; norm_num
  refine ⟨by norm_num, ?_, ?_, ?_, ?_, ht⟩
  · intro r hr; simp at hr; rcases hr with rfl | rfl <;> rfl
  · intro r hr; simp at hr; rcases hr with rfl | rfl <;> norm_num
  · intro r hr x hx; simp at hr; rcases hr with rfl | rfl <;> simp at hx <;> rcases hx with rfl | rfl <;> norm_num
  · apply unity_accepted
    · intro _; rfl
    · rw [ht]; intro t h; simp at h; rcases h with rfl | rfl <;> norm_num

/- the rejecting side: the same traces with the first one raised to 9/16 exceed one in the bottom layer -/
example : ∃ t ∈ totalMix [[(9 / 16 : ℝ), 1 / 4], [1 / 2, 1 / 8]] 2, 1 < t := by
  refine ⟨17 / 16, ?_, by norm_num⟩
  simp [totalMix, List.replicate]; norm_num

example : (activeGases ["H2", "He", "H2O", "CH4"] ["CH4", "H2O", "CO2"] = ["H2O", "CH4"]) ∧
    (inactiveGases ["H2", "He", "H2O", "CH4"] ["CH4", "H2O", "CO2"] = ["H2", "He"]) ∧
    (activeMask ["H2", "He", "H2O", "CH4"] ["CH4", "H2O", "CO2"] = [2, 3]) := by decide

/-! ### the built-in abundance profiles -/

/-- ConstantGas: one value per layer, each equal to the control value -/
theorem constant_len (mix : ℝ) (n : Nat) : (constantGas mix n).length = n ∧ ∀ v ∈ constantGas mix n, v = mix :=
  constantGas_spec mix n

example : constantGas (1 / 1000 : ℝ) 2 = [1 / 1000 * 1, 1 / 1000 * 1] := rfl

/-- TwoPointGas: one value per layer, each between the two control abundances.  Guards: positive control values
    (`0 < lo`), top pressure positive and strictly below the surface pressure (`n ≥ 2` layers), every layer pressure
    between them. -/
theorem twoPoint_between (surf top lo hi : ℝ) (pressure : List ℝ) (hlo : 0 < lo)
    (hs : lo ≤ surf ∧ surf ≤ hi) (ht : lo ≤ top ∧ top ≤ hi)
    (hpos : 0 < pressure.getD (pressure.length - 1) 0)
    (hlt : pressure.getD (pressure.length - 1) 0 < pressure.getD 0 0)
    (hp : ∀ p ∈ pressure, pressure.getD (pressure.length - 1) 0 ≤ p ∧ p ≤ pressure.getD 0 0) :
    (twoPointGas surf top pressure).length = pressure.length ∧
      ∀ v ∈ twoPointGas surf top pressure, lo ≤ v ∧ v ≤ hi :=
  ⟨twoPointGas_length _ _ _, twoPointGas_within surf top pressure hlo hs ht hpos hlt hp⟩

example : (0 : ℝ) < [(100 : ℝ), 10, 1].getD ([(100 : ℝ), 10, 1].length - 1) 0 ∧
    [(100 : ℝ), 10, 1].getD ([(100 : ℝ), 10, 1].length - 1) 0 < [(100 : ℝ), 10, 1].getD 0 0 ∧
    (∀ p ∈ [(100 : ℝ), 10, 1], [(100 : ℝ), 10, 1].getD ([(100 : ℝ), 10, 1].length - 1) 0 ≤ p ∧
      p ≤ [(100 : ℝ), 10, 1].getD 0 0) := by
  simp; norm_num

/-- ArrayGas: one value per layer for any layer count, each inside the range of the tabulated abundances -/
theorem array_between (arr : List ℝ) (n : Nat) (lo hi : ℝ) (hne : 0 < arr.length)
    (h : ∀ x ∈ arr, lo ≤ x ∧ x ≤ hi) :
    (arrayGas arr n).length = n ∧ ∀ v ∈ arrayGas arr n, lo ≤ v ∧ v ≤ hi :=
  ⟨arrayGas_length arr n, arrayGas_within arr n hne h⟩

example : 0 < [(1 / 100 : ℝ), 1 / 1000000].length ∧
    ∀ x ∈ [(1 / 100 : ℝ), 1 / 1000000], (1 / 1000000 : ℝ) ≤ x ∧ x ≤ 1 / 100 := by
  refine ⟨by simp, ?_⟩
  intro x hx; simp at hx; rcases hx with rfl | rfl <;> norm_num

/-- PowerGas: positive and at most the deep-atmosphere abundance `mix_ratio_surface`
    (`(1/√A₀ + 1/√A_d)⁻² ≤ A₀`), one value per layer -/
theorem power_le_surface (ms alpha beta gamma bf : ℝ) (pressure temperature : List ℝ) (h0 : 0 < ms) :
    (powerGas ms alpha beta gamma bf pressure temperature).length = min pressure.length temperature.length ∧
      ∀ v ∈ powerGas ms alpha beta gamma bf pressure temperature, 0 < v ∧ v ≤ ms :=
  ⟨powerGas_length _ _ _ _ _ _ _, powerGas_within ms alpha beta gamma bf pressure temperature h0⟩

example : (0 : ℝ) < 1 / 1000 := by norm_num

/-- TwoLayerGas (current code: integer odd window ≥ 1, empty border allowed): whenever a profile is returned,
    smoothing included, every abundance lies between the two control abundances.  Guards: positive control
    values, positive non-increasing pressure grid, non-negative window. -/
theorem twoLayer_between (surf top pb w lo hi : ℝ) (n : Nat) (pressure row : List ℝ) (hlo : 0 < lo)
    (hs : lo ≤ surf ∧ surf ≤ hi) (ht : lo ≤ top ∧ top ≤ hi) (hn : n = pressure.length) (hw : 0 ≤ w)
    (hpos : ∀ x ∈ pressure, 0 < x) (hsorted : pressure.Pairwise (fun a b => b ≤ a))
    (hok : twoLayerGas surf top pb w n pressure = .ok row) : ∀ v ∈ row, lo ≤ v ∧ v ≤ hi :=
  twoLayerGas_within surf top pb w n pressure row hlo hs ht hn hw hpos hsorted hok

example : (∀ x ∈ [(100 : ℝ), 10, 1], 0 < x) ∧ [(100 : ℝ), 10, 1].Pairwise (fun a b => b ≤ a) := by
  refine ⟨?_, ?_⟩
  · intro x hx; simp at hx; rcases hx with rfl | rfl | rfl <;> norm_num
  · simp; norm_num

/-- **every built-in profile yields exactly one value per layer for every layer count** (in particular
    TwoLayerGas with any percentage window and 10, 25, 45 … layers never fails) and none of them is negative. -/
theorem profile_len (g : Gas ℝ) (n : Nat) (pressure temperature : List ℝ) (hadm : g.Admissible)
    (hn : n = pressure.length) (hT : n = temperature.length) :
    ∃ row, g.profile n pressure temperature = .ok row ∧ row.length = n ∧ ∀ x ∈ row, 0 ≤ x := by
  obtain ⟨row, hrow⟩ := profile_ok g n pressure temperature hadm hn
  exact ⟨row, hrow, profile_length g n pressure temperature row hn hT hrow,
    profile_nonneg g n pressure temperature row hadm hrow⟩

example : (Gas.twoLayer (1 / 10000 : ℝ) (1 / 100000000) 1000 10).Admissible := by
  simp only [Gas.Admissible]; norm_num

/-- **end to end**: a `TaurexChemistry` over admissible gases never fails; it is either rejected as invalid or
    returns one row per gas whose layers are non-negative and sum to one. -/
theorem chemistry_valid (nFill : Nat) (ratios : List ℝ) (gases : List (Gas ℝ)) (n : Nat)
    (pressure temperature : List ℝ) (h1 : 1 ≤ nFill) (hratio : ∀ r ∈ ratios, 0 ≤ r)
    (hadm : ∀ g ∈ gases, g.Admissible) (hn : n = pressure.length) (hT : n = temperature.length) :
    chemistry nFill ratios gases n pressure temperature = .invalid ∨
    ∃ rows, chemistry nFill ratios gases n pressure temperature = .ok rows ∧
      rows.length = nFill + gases.length ∧ (∀ r ∈ rows, r.length = n) ∧
      (∀ r ∈ rows, ∀ x ∈ r, 0 ≤ x) ∧ ∀ j, j < n → sumL (column rows j) = 1 := by
  unfold chemistry
  split_ifs with hc
  · exact Or.inl rfl
  obtain ⟨traces, htr⟩ := traceProfiles_total n pressure temperature gases
    (fun g hg => profile_ok g n pressure temperature (hadm g hg) hn)
  rw [htr]
  simp only []
  have hf := traceProfiles_ok n pressure temperature gases traces htr
  have hlen : ∀ r ∈ traces, r.length = n := by
    intro r hr
    obtain ⟨g, _, hg⟩ := forall₂_mem_right hf r hr
    exact profile_length g n pressure temperature r hn hT hg
  have hnn : ∀ r ∈ traces, ∀ x ∈ r, 0 ≤ x := by
    intro r hr
    obtain ⟨g, hgm, hg⟩ := forall₂_mem_right hf r hr
    exact profile_nonneg g n pressure temperature r (hadm g hgm) hg
  cases hm : mixProfile nFill ratios traces n with
  | invalid => exact Or.inl rfl
  | error =>
    exfalso
    unfold mixProfile at hm
    simp only [] at hm
    split_ifs at hm
  | ok rows =>
    refine Or.inr ⟨rows, rfl, ?_, (mix_rows nFill ratios traces rows n h1 hlen hm).2.1,
      mix_nonneg nFill ratios traces rows n hratio hnn hm, mix_sum_one nFill ratios traces rows n h1 hlen hratio hm⟩
    rw [(mix_rows nFill ratios traces rows n h1 hlen hm).1, hf.length_eq]

example : ∀ g ∈ [Gas.constant (1 / 1000 : ℝ), Gas.twoPoint (1 / 10000) (1 / 100000000)], g.Admissible := by
  intro g hg
  simp at hg
  rcases hg with rfl | rfl <;> simp only [Gas.Admissible] <;> norm_num

/-! ### availability of opacity data along a session (`OpacityCache`: path changes, files, tables in memory) -/

/-- **the molecules that have opacity data at a moment of a session**: the cross-section files of the directory the
    opacity path points to at that moment, the molecules declared absorbing by the last `force_active`, and the tables
    held in memory — nothing else -/
theorem session_available (s : CacheState) (m : String) :
    m ∈ s.molecules ↔ (∃ i, s.path = some i ∧ m ∈ s.dirs.getD i []) ∨ m ∈ s.forced ∨ m ∈ s.loaded := by
  unfold CacheState.molecules CacheState.discovered
  cases h : s.path with
  | none => simp
  | some i => simp

/-- asking for the available molecules (what constructing a chemistry does) leaves no trace: every later state, hence
    every later answer, is what it would be had the question not been asked -/
theorem session_ask_pure (s : CacheState) (before after : List CacheOp) :
    s.run (before ++ CacheOp.ask :: after) = s.run (before ++ after) := by
  simp [CacheState.run, List.foldl_append, CacheState.step]

/-- after the opacity path is switched, the files of the NEW directory count (with what is in memory) -/
theorem session_set_path (s : CacheState) (i : Nat) (m : String) :
    m ∈ (s.step (.setPath i)).molecules ↔ m ∈ s.dirs.getD i [] ∨ m ∈ s.forced ∨ m ∈ s.loaded := by
  simp [CacheState.step, CacheState.molecules, CacheState.discovered]

/-- **the forced-active list is what the last `force_active` call handed over — nothing that happens afterwards (path
    switches, files, tables, clearing the cache, any number of chemistries constructed) adds to it or takes from it**: a
    molecule found under an earlier path does not stay available through it -/
theorem session_forced_last (s : CacheState) (before after : List CacheOp) (ms : List String)
    (hafter : ∀ op ∈ after, ∀ l, op ≠ CacheOp.force l) :
    (s.run (before ++ CacheOp.force ms :: after)).forced = ms := by
  have key : ∀ (after : List CacheOp) (t : CacheState), (∀ op ∈ after, ∀ l, op ≠ CacheOp.force l) →
      (t.run after).forced = t.forced := by
    intro after
    induction after with
    | nil => intro t _; rfl
    | cons op rest ih =>
      intro t h
      have hrest : ∀ o ∈ rest, ∀ l, o ≠ CacheOp.force l := fun o ho => h o (List.mem_cons_of_mem _ ho)
      have hop : (t.step op).forced = t.forced := by
        cases op with
        | force l => exact absurd rfl (h _ List.mem_cons_self l)
        | register m => simp only [CacheState.step]; split <;> rfl
        | load m => simp only [CacheState.step]; split <;> [rfl; (split <;> rfl)]
        | _ => rfl
      show ((t.step op).run rest).forced = t.forced
      rw [ih (t.step op) hrest, hop]
  have : s.run (before ++ CacheOp.force ms :: after) = ((s.run before).step (.force ms)).run after := by
    simp [CacheState.run, List.foldl_append]
  rw [this, key after _ hafter]
  rfl

/-- what is available right after `force_active ms`: the files of the current path, `ms`, and the tables in memory — the
    list of an earlier `force_active` call no longer counts -/
theorem session_force (s : CacheState) (ms : List String) (m : String) :
    m ∈ (s.step (.force ms)).molecules ↔
      (∃ i, s.path = some i ∧ m ∈ s.dirs.getD i []) ∨ m ∈ ms ∨ m ∈ s.loaded := by
  rw [session_available]
  simp [CacheState.step]

/-- **a chemistry constructed at session state `s` splits its gases exactly by the opacity data available at `s`**
    (minus the deactivated molecules): absorbing = available, non-absorbing = the others -/
theorem session_split (s : CacheState) (deactive : Option (List String)) (gases : List String) (g : String) :
    (g ∈ activeGases gases (availableActive s.molecules deactive) ↔
      g ∈ gases ∧ g ∈ s.molecules ∧ ∀ d, deactive = some d → g ∉ d) ∧
    (g ∈ inactiveGases gases (availableActive s.molecules deactive) ↔
      g ∈ gases ∧ ¬ (g ∈ s.molecules ∧ ∀ d, deactive = some d → g ∉ d)) := by
  have h := available_spec s.molecules deactive g
  constructor
  · simp only [activeGases, List.mem_filter, List.contains_iff_mem]
    rw [h]
  · have hc : ((availableActive s.molecules deactive).contains g = false) ↔
        ¬ g ∈ availableActive s.molecules deactive := by
      rw [← List.contains_iff_mem]; simp
    simp only [inactiveGases, List.mem_filter, Bool.not_eq_true', hc]
    rw [h]

/-- non-vacuity: two directories (H2O / CH4), a chemistry is constructed while the path points to the first, then the path
    is switched: CH4 is the absorber -/
example :
    let s0 : CacheState := { path := none, dirs := [[], []], loaded := [] }
    let hist := [CacheOp.addFile 0 "H2O", .addFile 1 "CH4", .setPath 0, .ask, .setPath 1]
    (s0.run hist).molecules = ["CH4"] ∧
    activeGases ["H2", "He", "H2O", "CH4"] (availableActive (s0.run hist).molecules none) = ["CH4"] := by decide

/-- non-vacuity with a forced molecule: TiO is forced while the path points to the H2O directory and a chemistry is
    constructed there; after the switch to the CH4 directory H2O is no longer available, TiO still is -/
example :
    let s0 : CacheState := { path := none, dirs := [[], []], loaded := [] }
    let hist := [CacheOp.addFile 0 "H2O", .addFile 1 "CH4", .force ["TiO"], .setPath 0, .ask, .setPath 1, .ask]
    (s0.run hist).forced = ["TiO"] ∧ (s0.run hist).molecules = ["CH4", "TiO"] ∧
    activeGases ["H2", "He", "H2O", "CH4", "TiO"] (availableActive (s0.run hist).molecules none) = ["CH4", "TiO"] := by
  decide
end Taurex.C10
