/-
  C04 — opacity interpolation in (T, P) is sound everywhere.
  Theorems about `Taurex.Interp` (the definitions the driver `driver_c04` executes on `Float`),
  instantiated at ℝ.  Grids are strictly increasing with at least two nodes (what every loader produces);
  `pg`/`p` are log10 pressures (see `computeOpacity_eq` for the Pa form).
-/
import Proofs.C04Lemmas
import Proofs.C04Cache

namespace Taurex.C04
open Taurex.Interp Taurex.C04L

/-- bracketing node indices along one axis: the nearest edge node outside the grid, else the two
    neighbours returned by `find_closest_pair` (which bracket the value, `pair_brackets`) -/
noncomputable def bracketIdx (g : List ℝ) (v : ℝ) : Nat × Nat :=
  if v < g.getD 0 0 then (0, 0)
  else if g.getD (g.length - 1) 0 ≤ v then (g.length - 1, g.length - 1)
  else findClosestPair g v

def nodeMin (tab : List (List ℝ)) (pi ti : Nat × Nat) : ℝ :=
  min (min (at2 tab pi.1 ti.1) (at2 tab pi.1 ti.2)) (min (at2 tab pi.2 ti.1) (at2 tab pi.2 ti.2))

def nodeMax (tab : List (List ℝ)) (pi ti : Nat × Nat) : ℝ :=
  max (max (at2 tab pi.1 ti.1) (at2 tab pi.1 ti.2)) (max (at2 tab pi.2 ti.1) (at2 tab pi.2 ti.2))

/-- `find_closest_pair` returns adjacent in-range indices which, inside the grid, bracket the value. -/
theorem pair_brackets (g : List ℝ) (h : Sorted g) (v : ℝ) (hn : 2 ≤ g.length)
    (hlo : g.getD 0 0 ≤ v) (hhi : v ≤ g.getD (g.length - 1) 0) :
    (findClosestPair g v).2 = (findClosestPair g v).1 + 1 ∧ (findClosestPair g v).2 < g.length ∧
    g.getD (findClosestPair g v).1 0 ≤ v ∧ v ≤ g.getD (findClosestPair g v).2 0 :=
  ⟨(pair_adjacent g v hn).1, (pair_adjacent g v hn).2, (C04L.pair_brackets g h v hn hlo hhi).1,
   (C04L.pair_brackets g h v hn hlo hhi).2⟩

example : Sorted [1, 2, 4] ∧ (2 : ℕ) ≤ [(1:ℝ), 2, 4].length ∧ ([(1:ℝ), 2, 4].getD 0 0 ≤ 3) := by
  refine ⟨?_, by simp, by norm_num⟩
  simp [Sorted]; norm_num

/-- inside the grid the pair returned by `find_closest_pair` is a proper bracket -/
theorem bracket_facts (g : List ℝ) (h : Sorted g) (v : ℝ) (hn : 2 ≤ g.length)
    (hlo : ¬ v < g.getD 0 0) (hhi : ¬ g.getD (g.length - 1) 0 ≤ v) :
    g.getD (findClosestPair g v).1 0 < g.getD (findClosestPair g v).2 0 ∧
    g.getD (findClosestPair g v).1 0 ≤ v ∧ v ≤ g.getD (findClosestPair g v).2 0 := by
  obtain ⟨a, b⟩ := pair_adjacent g v hn
  obtain ⟨c, d⟩ := C04L.pair_brackets g h v hn (not_lt.1 hlo) (not_le.1 hhi).le
  exact ⟨sorted_getD_lt h (by omega) b, c, d⟩

/-- **between_nodes (linear mode)**: for every `(T, P)` other than the documented both-below corner the value
    lies between the smallest and largest tabulated values at the bracketing nodes (nearest edge nodes
    outside the grid): never extrapolated. -/
theorem between_nodes_linear (tg pg : List ℝ) (tab : List (List ℝ)) (t p : ℝ)
    (hT : Sorted tg) (hP : Sorted pg) (hnT : 2 ≤ tg.length) (hnP : 2 ≤ pg.length)
    (hnb : ¬ (t < tg.getD 0 0 ∧ p < pg.getD 0 0)) :
    nodeMin tab (bracketIdx pg p) (bracketIdx tg t) ≤ bilinearGrid .linear tg pg tab t p ∧
    bilinearGrid .linear tg pg tab t p ≤ nodeMax tab (bracketIdx pg p) (bracketIdx tg t) := by
  have hT0 : tg.getD 0 0 < tg.getD (tg.length - 1) 0 := sorted_getD_lt hT (by omega) (by omega)
  have hP0 : pg.getD 0 0 < pg.getD (pg.length - 1) 0 := sorted_getD_lt hP (by omega) (by omega)
  by_cases hpmax : pg.getD (pg.length - 1) 0 ≤ p <;> by_cases htmax : tg.getD (tg.length - 1) 0 ≤ t <;>
  by_cases hpmin : p < pg.getD 0 0 <;> by_cases htmin : t < tg.getD 0 0
  all_goals first | (exfalso; linarith) | (exfalso; exact hnb ⟨htmin, hpmin⟩) | skip
  all_goals simp only [bilinearGrid, bracketIdx, nodeMin, nodeMax, hpmax, htmax, hpmin, htmin, decide_true,
    decide_false, Bool.and_true, Bool.and_false, if_true, if_false,
    Bool.false_eq_true, min_self, max_self, le_refl, and_self]
  · -- P ≥ max, T inside: temperature-only interpolation on the last pressure row
    obtain ⟨a, b, c⟩ := bracket_facts tg hT t hnT htmin htmax
    exact interpLin_between _ _ t _ _ a b c
  · -- T ≥ max, P inside
    obtain ⟨a, b, c⟩ := bracket_facts pg hP p hnP hpmin hpmax
    exact interpLin_between _ _ p _ _ a b c
  · -- P < min, T inside
    obtain ⟨a, b, c⟩ := bracket_facts tg hT t hnT htmin htmax
    exact interpLin_between _ _ t _ _ a b c
  · -- T < min, P inside
    obtain ⟨a, b, c⟩ := bracket_facts pg hP p hnP hpmin hpmax
    exact interpLin_between _ _ p _ _ a b c
  · -- interior: bilinear
    obtain ⟨a, b, c⟩ := bracket_facts tg hT t hnT htmin htmax
    obtain ⟨a', b', c'⟩ := bracket_facts pg hP p hnP hpmin hpmax
    exact interpBilin_between _ _ _ _ t _ _ p _ _ a b c a' b' c'

/-- all tabulated values at the four bracketing nodes are positive (what exp mode needs: it takes logarithms) -/
def TabPos (tab : List (List ℝ)) : Prop := ∀ i j, 0 < at2 tab i j

/-- **between_nodes (exp mode)**: same bound for the exponential-in-1/T, linear-in-log P form, for positive
    tables and positive grid temperatures. -/
theorem between_nodes_exp (tg pg : List ℝ) (tab : List (List ℝ)) (t p : ℝ)
    (hT : Sorted tg) (hP : Sorted pg) (hnT : 2 ≤ tg.length) (hnP : 2 ≤ pg.length)
    (hpos : TabPos tab) (hT0pos : 0 < tg.getD 0 0)
    (hnb : ¬ (t < tg.getD 0 0 ∧ p < pg.getD 0 0)) :
    nodeMin tab (bracketIdx pg p) (bracketIdx tg t) ≤ bilinearGrid .exp tg pg tab t p ∧
    bilinearGrid .exp tg pg tab t p ≤ nodeMax tab (bracketIdx pg p) (bracketIdx tg t) := by
  have hT0 : tg.getD 0 0 < tg.getD (tg.length - 1) 0 := sorted_getD_lt hT (by omega) (by omega)
  have hP0 : pg.getD 0 0 < pg.getD (pg.length - 1) 0 := sorted_getD_lt hP (by omega) (by omega)
  have hTl : 0 < tg.getD (findClosestPair tg t).1 0 :=
    lt_of_lt_of_le hT0pos (sorted_getD_le hT (Nat.zero_le _) (by have := pair_adjacent tg t hnT; omega))
  by_cases hpmax : pg.getD (pg.length - 1) 0 ≤ p <;> by_cases htmax : tg.getD (tg.length - 1) 0 ≤ t <;>
  by_cases hpmin : p < pg.getD 0 0 <;> by_cases htmin : t < tg.getD 0 0
  all_goals first | (exfalso; linarith) | (exfalso; exact hnb ⟨htmin, hpmin⟩) | skip
  all_goals simp only [bilinearGrid, bracketIdx, nodeMin, nodeMax, hpmax, htmax, hpmin, htmin, decide_true,
    decide_false, Bool.and_true, Bool.and_false, if_true, if_false,
    Bool.false_eq_true, min_self, max_self, le_refl, and_self]
  · obtain ⟨a, b, c⟩ := bracket_facts tg hT t hnT htmin htmax
    exact interpExp_between _ _ t _ _ (hpos _ _) (hpos _ _) hTl a b c
  · obtain ⟨a, b, c⟩ := bracket_facts pg hP p hnP hpmin hpmax
    exact interpLin_between _ _ p _ _ a b c
  · obtain ⟨a, b, c⟩ := bracket_facts tg hT t hnT htmin htmax
    exact interpExp_between _ _ t _ _ (hpos _ _) (hpos _ _) hTl a b c
  · obtain ⟨a, b, c⟩ := bracket_facts pg hP p hnP hpmin hpmax
    exact interpLin_between _ _ p _ _ a b c
  · obtain ⟨a, b, c⟩ := bracket_facts tg hT t hnT htmin htmax
    obtain ⟨a', b', c'⟩ := bracket_facts pg hP p hnP hpmin hpmax
    exact interpExpLin_between _ _ _ _ t _ _ p _ _ (hpos _ _) (hpos _ _) (hpos _ _) (hpos _ _) hTl a b c a' b' c'

/-- the documented exception: below both the minimum temperature and the minimum pressure the value is zero
    (both modes) -/
theorem both_min_zero (mode : Mode) (tg pg : List ℝ) (tab : List (List ℝ)) (t p : ℝ)
    (hT : Sorted tg) (hP : Sorted pg) (hnT : 2 ≤ tg.length) (hnP : 2 ≤ pg.length)
    (ht : t < tg.getD 0 0) (hp : p < pg.getD 0 0) : bilinearGrid mode tg pg tab t p = 0 := by
  have hT0 : tg.getD 0 0 < tg.getD (tg.length - 1) 0 := sorted_getD_lt hT (by omega) (by omega)
  have hP0 : pg.getD 0 0 < pg.getD (pg.length - 1) 0 := sorted_getD_lt hP (by omega) (by omega)
  have h1 : ¬ pg.getD (pg.length - 1) 0 ≤ p := by linarith
  have h2 : ¬ tg.getD (tg.length - 1) 0 ≤ t := by linarith
  simp only [bilinearGrid, h1, h2, ht, hp, decide_true, decide_false, if_true,
    if_false, Bool.false_eq_true, Bool.and_self]

/-- never negative: with a non-negative table the linear-mode result is non-negative for every `(T, P)` -/
theorem nonneg_linear (tg pg : List ℝ) (tab : List (List ℝ)) (t p : ℝ)
    (hT : Sorted tg) (hP : Sorted pg) (hnT : 2 ≤ tg.length) (hnP : 2 ≤ pg.length)
    (h0 : ∀ i j, 0 ≤ at2 tab i j) : 0 ≤ bilinearGrid .linear tg pg tab t p := by
  by_cases hb : t < tg.getD 0 0 ∧ p < pg.getD 0 0
  · rw [both_min_zero _ tg pg tab t p hT hP hnT hnP hb.1 hb.2]
  · refine le_trans ?_ (between_nodes_linear tg pg tab t p hT hP hnT hnP hb).1
    unfold nodeMin
    exact le_min (le_min (h0 _ _) (h0 _ _)) (le_min (h0 _ _) (h0 _ _))

/-- never negative in exp mode (positive table) -/
theorem nonneg_exp (tg pg : List ℝ) (tab : List (List ℝ)) (t p : ℝ)
    (hT : Sorted tg) (hP : Sorted pg) (hnT : 2 ≤ tg.length) (hnP : 2 ≤ pg.length)
    (hpos : TabPos tab) (hT0pos : 0 < tg.getD 0 0) : 0 ≤ bilinearGrid .exp tg pg tab t p := by
  by_cases hb : t < tg.getD 0 0 ∧ p < pg.getD 0 0
  · rw [both_min_zero _ tg pg tab t p hT hP hnT hnP hb.1 hb.2]
  · refine le_trans ?_ (between_nodes_exp tg pg tab t p hT hP hnT hnP hpos hT0pos hb).1
    unfold nodeMin
    exact le_min (le_min (hpos _ _).le (hpos _ _).le) (le_min (hpos _ _).le (hpos _ _).le)

/-- `compute_opacity` is the dispatch on log10 pressures divided by 10000 (cm² → m²) … -/
theorem computeOpacity_eq (mode : Mode) (tg pgPa : List ℝ) (tab : List (List ℝ)) (t pPa : ℝ) :
    computeOpacity mode tg pgPa tab t pPa
      = bilinearGrid mode tg (pgPa.map (fun x => Real.log x / Real.log 10)) tab t (Real.log pPa / Real.log 10) / 10000 :=
  rfl

/-- … and a strictly increasing positive pressure grid in Pa has a strictly increasing log10 grid, so the
    theorems above apply to the grid as stored. -/
theorem sorted_log10 (pgPa : List ℝ) (h : Sorted pgPa) (hpos : ∀ x ∈ pgPa, 0 < x) :
    Sorted (pgPa.map (fun x => Real.log x / Real.log 10)) := by
  unfold Sorted at *
  rw [List.pairwise_map]
  refine List.Pairwise.imp_of_mem ?_ h
  intro a b ha hb hab
  have h10 : 0 < Real.log 10 := Real.log_pos (by norm_num)
  exact div_lt_div_of_pos_right (Real.log_lt_log (hpos a ha) hab) h10

/-- regression of defect F1 (fixed by /repo commit 4f71cd6): the pinned dispatch extrapolated in the mixed
    corner `T < Tmin ∧ P ≥ Pmax` and returned a negative cross-section from a positive table. -/
theorem pinned_mixed_corner_negative :
    bilinearGridPinned .linear [(1:ℝ), 2] [0, 1] [[1, 3], [1, 3]] 0 2 < 0 ∧
    bilinearGrid .linear [(1:ℝ), 2] [0, 1] [[1, 3], [1, 3]] 0 2 = 1 := by
  constructor <;>
  · simp [bilinearGridPinned, bilinearGrid, findClosestPair, searchLeft, interpTempOnly, interpLin, at2]
    try norm_num

-- non-vacuity: a 3×3 table, strictly increasing grids, a strictly interior point, and the hypotheses of
-- `between_nodes_linear` / `between_nodes_exp` hold for it
example : Sorted [(100:ℝ), 200, 400] ∧ Sorted [(0:ℝ), 1, 3] ∧
    ¬ ((150:ℝ) < [(100:ℝ), 200, 400].getD 0 0 ∧ (2:ℝ) < [(0:ℝ), 1, 3].getD 0 0) := by
  refine ⟨?_, ?_, ?_⟩
  · norm_num [Sorted]
  · norm_num [Sorted]
  · norm_num

/-! ### tabulated values are reproduced at every grid node -/

/-- position of a node value relative to the pair returned for it -/
theorem node_pair (g : List ℝ) (h : Sorted g) (j : Nat) (hn : 2 ≤ g.length) (hj : j < g.length - 1) :
    ¬ g.getD (g.length - 1) 0 ≤ g.getD j 0 ∧ ¬ g.getD j 0 < g.getD 0 0 ∧
    g.getD (findClosestPair g (g.getD j 0)).1 0 < g.getD (findClosestPair g (g.getD j 0)).2 0 ∧
    ((findClosestPair g (g.getD j 0)).1 = j ∨ (findClosestPair g (g.getD j 0)).2 = j) := by
  have hs := searchLeft_node g h j (by omega)
  obtain ⟨a, b⟩ := pair_adjacent g (g.getD j 0) hn
  refine ⟨not_le.2 (sorted_getD_lt h hj (by omega)), not_lt.2 (sorted_getD_le h (Nat.zero_le _) (by omega)),
    sorted_getD_lt h (by omega) b, ?_⟩
  unfold findClosestPair
  simp only [hs]
  omega

theorem interpLin_at (x11 x12 v a b : ℝ) (hab : a < b) :
    (v = a → interpLin x11 x12 v a b = x11) ∧ (v = b → interpLin x11 x12 v a b = x12) :=
  ⟨fun e => by rw [e]; exact interpLin_left _ _ _ _, fun e => by rw [e]; exact interpLin_right _ _ _ _ hab⟩

theorem interpExp_left (x11 x12 a b : ℝ) : interpExp x11 x12 a a b = x11 := by
  unfold interpExp; simp

theorem interpExp_right (x11 x12 a b : ℝ) (h1 : 0 < x11) (h2 : 0 < x12) (ha : 0 < a) (hab : a < b) :
    interpExp x11 x12 b a b = x12 := by
  unfold interpExp
  simp only [exp_real, log_real]
  have hb : b ≠ 0 := by linarith
  have hd : b - a ≠ 0 := by linarith
  have e : b * (-b + a) * Real.log (x11 / x12) / (b * (b - a)) = - Real.log (x11 / x12) := by
    field_simp; ring
  rw [e, Real.exp_neg, Real.exp_log (div_pos h1 h2)]
  field_simp

/-- **at_node (linear mode)**: at every grid node the tabulated value is returned. -/
theorem at_node_linear (tg pg : List ℝ) (tab : List (List ℝ)) (i j : Nat)
    (hT : Sorted tg) (hP : Sorted pg) (hnT : 2 ≤ tg.length) (hnP : 2 ≤ pg.length)
    (hi : i < pg.length) (hj : j < tg.length) :
    bilinearGrid .linear tg pg tab (tg.getD j 0) (pg.getD i 0) = at2 tab i j := by
  by_cases hjl : j = tg.length - 1 <;> by_cases hil : i = pg.length - 1
  · subst hjl; subst hil
    simp only [bilinearGrid, le_refl, decide_true, Bool.and_self, if_true]
  · subst hjl
    obtain ⟨p1, p2, p3, p4⟩ := node_pair pg hP i hnP (by omega)
    simp only [bilinearGrid, le_refl, p1, p2, decide_true, decide_false, Bool.and_true, Bool.false_and, if_true,
      if_false, Bool.false_eq_true, interpPressOnly]
    obtain ⟨l, r⟩ := interpLin_at (at2 tab (findClosestPair pg (pg.getD i 0)).1 (tg.length - 1))
      (at2 tab (findClosestPair pg (pg.getD i 0)).2 (tg.length - 1)) (pg.getD i 0) _ _ p3
    rcases p4 with e | e
    · rw [l (by rw [e])]; rw [e]
    · rw [r (by rw [e])]; rw [e]
  · subst hil
    obtain ⟨t1, t2, t3, t4⟩ := node_pair tg hT j hnT (by omega)
    simp only [bilinearGrid, le_refl, t1, t2, decide_true, decide_false, Bool.and_false, if_true,
      if_false, Bool.false_eq_true, interpTempOnly]
    obtain ⟨l, r⟩ := interpLin_at (at2 tab (pg.length - 1) (findClosestPair tg (tg.getD j 0)).1)
      (at2 tab (pg.length - 1) (findClosestPair tg (tg.getD j 0)).2) (tg.getD j 0) _ _ t3
    rcases t4 with e | e
    · rw [l (by rw [e])]; rw [e]
    · rw [r (by rw [e])]; rw [e]
  · obtain ⟨t1, t2, t3, t4⟩ := node_pair tg hT j hnT (by omega)
    obtain ⟨p1, p2, p3, p4⟩ := node_pair pg hP i hnP (by omega)
    simp only [bilinearGrid, t1, t2, p1, p2, decide_false, if_false,
      Bool.false_eq_true, Bool.and_self]
    rw [interpBilin_nested]
    rcases t4 with e | e <;> rcases p4 with e' | e'
    · rw [(interpLin_at _ _ _ _ _ t3).1 (by rw [e]), (interpLin_at _ _ _ _ _ t3).1 (by rw [e]),
        (interpLin_at _ _ _ _ _ p3).1 (by rw [e']), e, e']
    · rw [(interpLin_at _ _ _ _ _ t3).1 (by rw [e]), (interpLin_at _ _ _ _ _ t3).1 (by rw [e]),
        (interpLin_at _ _ _ _ _ p3).2 (by rw [e']), e, e']
    · rw [(interpLin_at _ _ _ _ _ t3).2 (by rw [e]), (interpLin_at _ _ _ _ _ t3).2 (by rw [e]),
        (interpLin_at _ _ _ _ _ p3).1 (by rw [e']), e, e']
    · rw [(interpLin_at _ _ _ _ _ t3).2 (by rw [e]), (interpLin_at _ _ _ _ _ t3).2 (by rw [e]),
        (interpLin_at _ _ _ _ _ p3).2 (by rw [e']), e, e']

theorem interpExp_at (x11 x12 v a b : ℝ) (h1 : 0 < x11) (h2 : 0 < x12) (ha : 0 < a) (hab : a < b) :
    (v = a → interpExp x11 x12 v a b = x11) ∧ (v = b → interpExp x11 x12 v a b = x12) :=
  ⟨fun e => by rw [e]; exact interpExp_left _ _ _ _, fun e => by rw [e]; exact interpExp_right _ _ _ _ h1 h2 ha hab⟩

/-- **at_node (exp mode)**: at every grid node the tabulated value is returned (positive table, positive
    grid temperatures). -/
theorem at_node_exp (tg pg : List ℝ) (tab : List (List ℝ)) (i j : Nat)
    (hT : Sorted tg) (hP : Sorted pg) (hnT : 2 ≤ tg.length) (hnP : 2 ≤ pg.length)
    (hpos : TabPos tab) (hT0pos : 0 < tg.getD 0 0)
    (hi : i < pg.length) (hj : j < tg.length) :
    bilinearGrid .exp tg pg tab (tg.getD j 0) (pg.getD i 0) = at2 tab i j := by
  have hTl : ∀ v, 0 < tg.getD (findClosestPair tg v).1 0 := fun v =>
    lt_of_lt_of_le hT0pos (sorted_getD_le hT (Nat.zero_le _) (by have := pair_adjacent tg v hnT; omega))
  by_cases hjl : j = tg.length - 1 <;> by_cases hil : i = pg.length - 1
  · subst hjl; subst hil
    simp only [bilinearGrid, le_refl, decide_true, Bool.and_self, if_true]
  · subst hjl
    obtain ⟨p1, p2, p3, p4⟩ := node_pair pg hP i hnP (by omega)
    simp only [bilinearGrid, le_refl, p1, p2, decide_true, decide_false, Bool.and_true, Bool.false_and, if_true,
      if_false, Bool.false_eq_true, interpPressOnly]
    obtain ⟨l, r⟩ := interpLin_at (at2 tab (findClosestPair pg (pg.getD i 0)).1 (tg.length - 1))
      (at2 tab (findClosestPair pg (pg.getD i 0)).2 (tg.length - 1)) (pg.getD i 0) _ _ p3
    rcases p4 with e | e
    · rw [l (by rw [e])]; rw [e]
    · rw [r (by rw [e])]; rw [e]
  · subst hil
    obtain ⟨t1, t2, t3, t4⟩ := node_pair tg hT j hnT (by omega)
    simp only [bilinearGrid, le_refl, t1, t2, decide_true, decide_false, Bool.and_false, if_true,
      if_false, Bool.false_eq_true, interpTempOnly]
    obtain ⟨l, r⟩ := interpExp_at (at2 tab (pg.length - 1) (findClosestPair tg (tg.getD j 0)).1)
      (at2 tab (pg.length - 1) (findClosestPair tg (tg.getD j 0)).2) (tg.getD j 0) _ _ (hpos _ _) (hpos _ _)
      (hTl _) t3
    rcases t4 with e | e
    · rw [l (by rw [e])]; rw [e]
    · rw [r (by rw [e])]; rw [e]
  · obtain ⟨t1, t2, t3, t4⟩ := node_pair tg hT j hnT (by omega)
    obtain ⟨p1, p2, p3, p4⟩ := node_pair pg hP i hnP (by omega)
    simp only [bilinearGrid, t1, t2, p1, p2, decide_false, if_false,
      Bool.false_eq_true, Bool.and_self]
    rw [interpExpLin_nested _ _ _ _ _ _ _ _ _ _ p3]
    rcases p4 with e' | e'
    · rw [(interpLin_at _ _ _ _ _ p3).1 (by rw [e']), (interpLin_at _ _ _ _ _ p3).1 (by rw [e'])]
      rcases t4 with e | e
      · rw [(interpExp_at _ _ _ _ _ (hpos _ _) (hpos _ _) (hTl _) t3).1 (by rw [e]), e, e']
      · rw [(interpExp_at _ _ _ _ _ (hpos _ _) (hpos _ _) (hTl _) t3).2 (by rw [e]), e, e']
    · rw [(interpLin_at _ _ _ _ _ p3).2 (by rw [e']), (interpLin_at _ _ _ _ _ p3).2 (by rw [e'])]
      rcases t4 with e | e
      · rw [(interpExp_at _ _ _ _ _ (hpos _ _) (hpos _ _) (hTl _) t3).1 (by rw [e]), e, e']
      · rw [(interpExp_at _ _ _ _ _ (hpos _ _) (hpos _ _) (hTl _) t3).2 (by rw [e]), e, e']

/-- **interior (linear mode)**: strictly inside the grid the result is the textbook bilinear interpolation in
    (T, log10 P) between the four nodes of the cell. -/
theorem interior_bilinear (tg pg : List ℝ) (tab : List (List ℝ)) (t p : ℝ)
    (h1 : ¬ pg.getD (pg.length - 1) 0 ≤ p) (h2 : ¬ tg.getD (tg.length - 1) 0 ≤ t)
    (h3 : ¬ p < pg.getD 0 0) (h4 : ¬ t < tg.getD 0 0) :
    let tl := (findClosestPair tg t).1; let tr := (findClosestPair tg t).2
    let pl := (findClosestPair pg p).1; let pr := (findClosestPair pg p).2
    let s := (p - pg.getD pl 0) / (pg.getD pr 0 - pg.getD pl 0)
    let u := (t - tg.getD tl 0) / (tg.getD tr 0 - tg.getD tl 0)
    bilinearGrid .linear tg pg tab t p
      = (1 - s) * (1 - u) * at2 tab pl tl + (1 - s) * u * at2 tab pl tr
        + s * (1 - u) * at2 tab pr tl + s * u * at2 tab pr tr := by
  simp only [bilinearGrid, h1, h2, h3, h4, decide_false, if_false, Bool.false_eq_true, Bool.and_self, interpBilin]
  ring

/-- **interior (exp mode)**: strictly inside the grid the result is the documented form: linear in log10 P on both
    temperature nodes, then the weighted geometric mean `a^(1-λ) · b^λ` with `λ = Tmax (T - Tmin) / (T (Tmax - Tmin))`,
    i.e. `log σ` linear in `1/T`. -/
theorem interior_explin (tg pg : List ℝ) (tab : List (List ℝ)) (t p : ℝ)
    (hP : Sorted pg) (hnP : 2 ≤ pg.length) (hpos : TabPos tab)
    (h1 : ¬ pg.getD (pg.length - 1) 0 ≤ p) (h2 : ¬ tg.getD (tg.length - 1) 0 ≤ t)
    (h3 : ¬ p < pg.getD 0 0) (h4 : ¬ t < tg.getD 0 0) :
    let tl := (findClosestPair tg t).1; let tr := (findClosestPair tg t).2
    let pl := (findClosestPair pg p).1; let pr := (findClosestPair pg p).2
    let a := interpLin (at2 tab pl tl) (at2 tab pr tl) p (pg.getD pl 0) (pg.getD pr 0)
    let b := interpLin (at2 tab pl tr) (at2 tab pr tr) p (pg.getD pl 0) (pg.getD pr 0)
    let lam := tg.getD tr 0 * (t - tg.getD tl 0) / (t * (tg.getD tr 0 - tg.getD tl 0))
    bilinearGrid .exp tg pg tab t p = Real.exp ((1 - lam) * Real.log a + lam * Real.log b) := by
  obtain ⟨a', b', c'⟩ := bracket_facts pg hP p hnP h3 h1
  simp only [bilinearGrid, h1, h2, h3, h4, decide_false, if_false, Bool.false_eq_true, Bool.and_self]
  rw [interpExpLin_nested _ _ _ _ _ _ _ _ _ _ a']
  exact interpExp_geo _ _ _ _ _ (interpLin_pos _ _ _ _ _ (hpos _ _) (hpos _ _) a' b' c')
    (interpLin_pos _ _ _ _ _ (hpos _ _) (hpos _ _) a' b' c')

/-! ### the interpolation mode of a table served by a cache (`_interp_mode`, the property's state anchor)

  "The cross-section returned for a molecule" comes from an object a cache builds from a file it discovers; which of the two
  documented forms it follows inside a cell is decided by the mode handed to the loader's constructor.  In the cache machines
  (`CacheSM.loadStep` for OpacityCache, `loadStepK` for KTableCache) that mode is `GlobalCache()['xsec_interpolation'] or
  'linear'` for EVERY loader class: the format of the discovered file is read only to decide `in_memory` of an HDF5
  cross-section.  The harness holds every loader class of /repo (pickle, HDF5, Exo-Transmit cross-sections; pickle, HDF5,
  NEMESIS k-tables) to this on real files. -/

open Taurex.CacheSM in
/-- a molecule not yet cached, discovered in a file of ANY loader class, is served in the configured mode (both caches) -/
theorem discovered_mode (m : String) (s : CSt) (e : FileEntry) (hd : e.disc = m) (ho : e.obj = m)
    (hk : hasKey s.dict m = false) :
    (lookup (loadStepK m s e).dict m).map (·.mode) = some (interpOr s) ∧
    (lookup (loadStep m s e).dict m).map (·.mode) = some (interpOr s) := by
  subst hd
  constructor
  · simp only [loadStepK, addOpacity, ho, hk, beq_self_eq_true, if_true, Bool.not_false, Bool.false_eq_true, if_false]
    rw [C04L.lookup_append_new _ _ _ hk]
    rfl
  · simp only [loadStep, addOpacity, ho, hk, beq_self_eq_true, if_true, Bool.not_false, Bool.false_eq_true, if_false,
      Bool.and_self]
    rw [C04L.lookup_append_new _ _ _ hk]
    rfl

open Taurex.CacheSM in
/-- NV: an Exo-Transmit file of H2O, `xsec_interpolation = 'exp'` configured, nothing cached: served in mode 1 ('exp') -/
example : (lookup (loadStep "H2O" { init with interp := some 1, path := some 0 }
    { fmt := Fmt.exo, fileId := 0, disc := "H2O", obj := "H2O" }).dict "H2O").map (·.mode) = some 1 := by
  decide

open Taurex.CacheSM in
/-- the loader class of the discovered file does not enter what the cache machines do with it (HDF5 cross-sections, whose
    `in_memory` flag is recorded, apart): a k-table file of a class the model has no name for (NEMESIS `.kta`) is the
    machine's k-table file of any other class -/
theorem discovered_mode_any_class (m : String) (s : CSt) (e : FileEntry) (f : Fmt)
    (hf : f ≠ Fmt.hdf) (he : e.fmt ≠ Fmt.hdf) :
    loadStepK m s { e with fmt := f } = loadStepK m s e ∧ loadStep m s { e with fmt := f } = loadStep m s e := by
  simp [loadStepK, loadStep, hf, he]

open Taurex.CacheSM in
example : (Fmt.kpickle ≠ Fmt.hdf) ∧ (Fmt.khdf ≠ Fmt.hdf) ∧ (Fmt.exo ≠ Fmt.hdf) := by decide

end Taurex.C04
