import Proofs.RealInst
import TaurexModel.Interp

namespace Taurex.C04
open Taurex.Interp

/-- linear interpolation stays between its two nodes -/
theorem interpLin_between (x11 x12 p pmin pmax : ℝ) (h : pmin < pmax) (h1 : pmin ≤ p) (h2 : p ≤ pmax) :
    min x11 x12 ≤ interpLin x11 x12 p pmin pmax ∧ interpLin x11 x12 p pmin pmax ≤ max x11 x12 := by
  unfold interpLin
  have hd : 0 < pmax - pmin := by linarith
  set s := (p - pmin) / (pmax - pmin) with hs
  have hs0 : 0 ≤ s := div_nonneg (by linarith) hd.le
  have hs1 : s ≤ 1 := by rw [hs, div_le_one hd]; linarith
  have e : x11 - s * (x11 - x12) = (1 - s) * x11 + s * x12 := by ring
  rw [e]
  constructor
  · have := min_le_left x11 x12; have := min_le_right x11 x12
    nlinarith [mul_nonneg hs0 (sub_nonneg.2 (min_le_right x11 x12)),
               mul_nonneg (sub_nonneg.2 hs1) (sub_nonneg.2 (min_le_left x11 x12))]
  · nlinarith [mul_nonneg hs0 (sub_nonneg.2 (le_max_right x11 x12)),
               mul_nonneg (sub_nonneg.2 hs1) (sub_nonneg.2 (le_max_left x11 x12))]

end Taurex.C04
