/-
  C19 — clouds and hazes act only inside their declared pressure range.
  Statements about `Taurex.Haze` (the definitions `driver_c19` executes on Float) at the carrier ℝ.
  The cloud's infinite opacity is the explicit value `Ext.inf`; "opaque" means the returned transmittance is 0.
-/
import Proofs.C19

open Finset

namespace Taurex.C19
open Taurex.Transmission Taurex.Haze

/-! ### optically thick cloud deck -/

section cloud
variable (newMethod : Bool) (rp rs : ℝ) (n nwn : ℕ) (zb z dz dens P : ℕ → ℝ) (p0 : ℝ) (rest : List (Contrib ℝ))

/-- every tangent layer at or below the cloud top (`P_l ≥ p0`) is opaque at all wavenumbers -/
theorem cloud_opaque_below (l wn : ℕ) (h : p0 ≤ P l) :
    cloudyTrans newMethod rp n nwn zb z dz dens P p0 rest l wn = 0 := by
  simp [cloudyTrans, cloudyTau, cloudSigma, h, Ext.trans]

/-- layers above the cloud top get exactly the transmittance they have without the cloud -/
theorem cloud_above_untouched (l wn : ℕ) (h : P l < p0) :
    cloudyTrans newMethod rp n nwn zb z dz dens P p0 rest l wn
      = modelTrans true newMethod rp n nwn zb z dz dens rest l wn := by
  have h' : ¬ p0 ≤ P l := not_le.2 h
  simp [cloudyTrans, cloudyTau, cloudSigma, h', Ext.trans, modelTrans, tauCut]

/-- the transit depth is at least the documented integral with the cloudy layers fully opaque, and at least
    the depth without the cloud -/
theorem cloud_depth_ge (W : WellFormed newMethod rp rs n zb z dz dens rest) (wn : ℕ) :
    (rp ^ 2 + ∑ l ∈ range n, if p0 ≤ P l then 2 * (rp + z l) * dz l else 0) / rs ^ 2
        ≤ cloudyDepth newMethod rp rs n nwn zb z dz dens P p0 rest wn ∧
    modelDepth true newMethod rp rs n nwn zb z dz dens rest wn
        ≤ cloudyDepth newMethod rp rs n nwn zb z dz dens P p0 rest wn := by
  have hz := fun l hl => W.shells.z_radius_nonneg l hl
  have htau : ∀ l < n, 0 ≤ tauCut n nwn (chord newMethod rp zb z dz l) dens l rest wn := fun l hl =>
    tauCutFrom_ge n nwn _ dens l (W.path_nonneg l hl) W.dens_nonneg rest W.sigma_nonneg (fun _ => 0) wn
  constructor
  · have e : (rp ^ 2 + ∑ l ∈ range n, if p0 ≤ P l then 2 * (rp + z l) * dz l else 0) / rs ^ 2
        = depth rp rs n z dz (fun l => if p0 ≤ P l then 0 else 1) := by
      rw [depth_eq]
      congr 2
      apply Finset.sum_congr rfl
      intro l _
      split <;> simp
    rw [e]
    unfold cloudyDepth
    apply depth_mono_tr rp rs W.rs_pos n z dz _ _ hz W.shells.thick
    intro l hl
    by_cases h : p0 ≤ P l
    · rw [cloud_opaque_below newMethod rp n nwn zb z dz dens P p0 rest l wn h]; simp [h]
    · rw [cloud_above_untouched newMethod rp n nwn zb z dz dens P p0 rest l wn (not_le.1 h)]
      simp only [h, if_false, modelTrans, if_true]
      exact trans_le_one _ (htau l hl)
  · unfold cloudyDepth modelDepth
    apply depth_mono_tr rp rs W.rs_pos n z dz _ _ hz W.shells.thick
    intro l hl
    by_cases h : p0 ≤ P l
    · rw [cloud_opaque_below newMethod rp n nwn zb z dz dens P p0 rest l wn h]
      simp only [modelTrans]; exact (trans_pos _).le
    · rw [cloud_above_untouched newMethod rp n nwn zb z dz dens P p0 rest l wn (not_le.1 h)]

end cloud

/-- non-vacuity: two layers, cloud top between them, one absorber above -/
def nvRest : List (Contrib ℝ) := [{ kind := .lin, sigma := fun _ _ => 1 }]

example : cloudyTrans true 1 2 1 (fun l => (l : ℝ)) (fun l => (l : ℝ)) (fun _ => 1) (fun _ => 1)
    (fun l => if l = 0 then 100 else 1) 10 nvRest 0 0 = 0 :=
  cloud_opaque_below true 1 2 1 _ _ _ _ _ 10 nvRest 0 0 (by norm_num)

example := cloud_above_untouched true 1 2 1 (fun l => (l : ℝ)) (fun l => (l : ℝ)) (fun _ => 1) (fun _ => 1)
    (fun l => if l = 0 then (100 : ℝ) else 1) 10 nvRest 1 0 (by norm_num)

/-! ### grey haze (FlatMie) -/

/-- the window the code uses: both bounds in log10 Pa (an unset bound → the extreme level), sorted;
    layer `l` (surface first) is slice index `n-1-l` (top first) -/
theorem flat_sigma_window (n : ℕ) (plev : ℕ → ℝ) (b t mix : ℝ) (l : ℕ) :
    flatSigma n plev b t mix l
      = flatSigmaRevW n (flatLevel n plev)
          (min (flatBound t (minTo n (flatLevel n plev))) (flatBound b (maxTo n (flatLevel n plev))))
          (max (flatBound t (minTo n (flatLevel n plev))) (flatBound b (maxTo n (flatLevel n plev))))
          mix (n - 1 - l) := by
  unfold flatSigma
  simp only
  generalize flatBound t (minTo n (flatLevel n plev)) = x
  generalize flatBound b (maxTo n (flatLevel n plev)) = y
  by_cases h : x ≤ y
  · simp only [h, if_true, min_eq_left h, max_eq_right h]
  · have h' : y ≤ x := (not_le.1 h).le
    simp only [h, if_false, min_eq_right h', max_eq_left h']

example := flat_sigma_window 4 (fun i => (10 : ℝ) ^ (4 - (i : ℝ))) 100 1000 (1 / 10) 1

/-- a layer wholly outside the window `[lo, hi]` (log10 Pa) gets no extinction -/
theorem flat_outside_zero (n : ℕ) (lev : ℕ → ℝ) (lo hi mix : ℝ) (i : ℕ)
    (h : lev (i + 1) ≤ lo ∨ hi ≤ lev i) : flatSigmaRevW n lev lo hi mix i = 0 := by
  have hw : flatOverlap lev lo hi i = 0 := by
    rw [overlap_eq]
    apply max_eq_right
    rcases h with h | h
    · have := min_le_right hi (lev (i + 1)); have := le_max_left lo (lev i); linarith
    · have := min_le_left hi (lev (i + 1)); have := le_max_right lo (lev i); linarith
  unfold flatSigmaRevW
  simp only [hw]
  split <;> simp

/-- a layer overlapping the window carries `mix · w` with `0 < w ≤ 1`, `w` = its overlap / the largest overlap -/
theorem flat_inside (n : ℕ) (lev : ℕ → ℝ) (hm : LevMono n lev) (lo hi mix : ℝ) (i : ℕ) (hin : i < n)
    (hpos : 0 < flatOverlap lev lo hi i) :
    ∃ w, 0 < w ∧ w ≤ 1 ∧ flatSigmaRevW n lev lo hi mix i = w * mix ∧
      w = flatOverlap lev lo hi i / flatWmax lev lo hi (flatStart n lev lo) (flatStop n lev hi) := by
  obtain ⟨hs, ht⟩ := slice_contains n lev hm lo hi i hin hpos
  have hge := wmax_ge lev lo hi _ _ i hs ht
  have hwpos : 0 < flatWmax lev lo hi (flatStart n lev lo) (flatStop n lev hi) := lt_of_lt_of_le hpos hge
  refine ⟨_, div_pos hpos hwpos, (div_le_one hwpos).2 hge, ?_, rfl⟩
  unfold flatSigmaRevW
  simp [hs, ht, hin, hwpos]

/-- the layer with the largest overlap carries exactly `mix` -/
theorem flat_max_exact (n : ℕ) (lev : ℕ → ℝ) (hm : LevMono n lev) (lo hi mix : ℝ) (i : ℕ) (hin : i < n)
    (hpos : 0 < flatOverlap lev lo hi i) :
    ∃ j, j < n ∧ flatSigmaRevW n lev lo hi mix j = mix := by
  obtain ⟨hs, ht⟩ := slice_contains n lev hm lo hi i hin hpos
  obtain ⟨j, hsj, hjt, hj⟩ := wmax_attained lev lo hi _ _ (le_trans hs ht)
  have hge := wmax_ge lev lo hi _ _ i hs ht
  have hwpos : 0 < flatWmax lev lo hi (flatStart n lev lo) (flatStop n lev hi) := lt_of_lt_of_le hpos hge
  have hjn : j < n := by
    have : flatStop n lev hi ≤ n - 1 := by
      rw [flatStop_eq]
      have := List.countP_le_length (p := fun i => decide (lev (i + 1) ≤ hi)) (l := List.range (n - 1))
      simpa using this
    omega
  refine ⟨j, hjn, ?_⟩
  unfold flatSigmaRevW
  simp only [hsj, hjt, hjn, hwpos, and_self, if_true]
  rw [← hj, div_self (ne_of_gt hwpos), one_mul]

/-- both bounds unset (negative) = the whole atmosphere: the window is `[levels.min(), levels.max()]` and every
    layer with positive thickness overlaps it with its full width -/
theorem flat_unset_whole (n : ℕ) (plev : ℕ → ℝ) (hm : LevMono n (flatLevel n plev)) (b t mix : ℝ) (hb : b < 0)
    (ht : t < 0) (l : ℕ) :
    flatSigma n plev b t mix l
      = flatSigmaRevW n (flatLevel n plev) (flatLevel n plev 0) (flatLevel n plev n) mix (n - 1 - l) ∧
    ∀ i < n, flatOverlap (flatLevel n plev) (flatLevel n plev 0) (flatLevel n plev n) i
      = flatLevel n plev (i + 1) - flatLevel n plev i := by
  constructor
  · unfold flatSigma
    simp only [flatBound, hb, ht, if_true, maxTo_mono n _ hm, minTo_mono n _ hm]
    have h0n : flatLevel n plev 0 ≤ flatLevel n plev n := hm 0 n (Nat.zero_le _) (le_refl _)
    simp [h0n]
  · intro i hi
    rw [overlap_eq]
    have h1 := hm (i + 1) n (by omega) (le_refl _)
    have h2 := hm 0 i (Nat.zero_le _) (by omega)
    have h3 := hm i (i + 1) (by omega) (by omega)
    rw [min_eq_right h1, max_eq_right h2, max_eq_left (by linarith)]

/-- inverted bounds are sorted: swapping two set bounds changes nothing -/
theorem flat_inverted (n : ℕ) (plev : ℕ → ℝ) (b t mix : ℝ) (hb : 0 ≤ b) (ht : 0 ≤ t) (l : ℕ) :
    flatSigma n plev b t mix l = flatSigma n plev t b mix l := by
  unfold flatSigma flatBound
  have hb' : ¬ b < 0 := not_lt.2 hb
  have ht' : ¬ t < 0 := not_lt.2 ht
  simp only [hb', ht', if_false]
  generalize (log10 t : ℝ) = x
  generalize (log10 b : ℝ) = y
  rcases lt_trichotomy x y with h | h | h
  · have h1 : x ≤ y := h.le
    have h2 : ¬ y ≤ x := not_le.2 h
    simp only [h1, h2, if_true, if_false]
  · subst h; rfl
  · have h1 : y ≤ x := h.le
    have h2 : ¬ x ≤ y := not_le.2 h
    simp only [h1, h2, if_true, if_false]

/-- non-vacuity: 4 layers with levels 0,1,2,3,4 (log10), window [0.5, 2.5] covers 2½ layers -/
example : 0 < flatOverlap (fun i => (i : ℝ)) (1 / 2) (5 / 2) 2 := by
  rw [overlap_eq]; norm_num

example : LevMono 4 (fun i => (i : ℝ)) := fun a b h _ => by show (a : ℝ) ≤ (b : ℝ); exact_mod_cast h

example := flat_inside 4 (fun i => (i : ℝ)) (fun a b h _ => by show (a : ℝ) ≤ (b : ℝ); exact_mod_cast h) (1 / 2) (5 / 2) 3 2 (by norm_num)
  (by rw [overlap_eq]; norm_num)

example := flat_outside_zero 4 (fun i => (i : ℝ)) (1 / 2) (5 / 2) 3 3 (Or.inr (by norm_num))

/-! ### Lee haze -/

/-- no extinction in layers whose pressure is outside `[top, bottom]` -/
theorem lee_outside_zero (n : ℕ) (P : ℕ → ℝ) (b t pi a q mix : ℝ) (wnv : ℕ → ℝ) (l wn : ℕ)
    (h : P l < leeBound t (P (n - 1)) ∨ leeBound b (P 0) < P l) :
    leeSigma n P b t pi a q mix wnv l wn = 0 := by
  unfold leeSigma
  simp only
  rw [if_neg]
  rintro ⟨h1, h2⟩
  rcases h with h | h <;> linarith

/-- inside the window the opacity is the declared law `Qext·π·a²` times the mixing ratio, the same in every
    layer; the law is positive -/
theorem lee_inside_law (n : ℕ) (P : ℕ → ℝ) (b t pi a q mix : ℝ) (wnv : ℕ → ℝ) (l wn : ℕ)
    (h1 : leeBound t (P (n - 1)) ≤ P l) (h2 : P l ≤ leeBound b (P 0)) (hpi : 0 < pi) (ha : 0 < a) (hq : 0 ≤ q)
    (hwn : 0 < wnv wn) :
    leeSigma n P b t pi a q mix wnv l wn = leeLaw pi a q (wnv wn) * mix ∧ 0 < leeLaw pi a q (wnv wn) := by
  refine ⟨?_, leeLaw_pos pi a q _ hpi ha hq hwn⟩
  unfold leeSigma
  simp [h1, h2]

/-- both bounds unset = the whole atmosphere (layer pressures decrease with altitude) -/
theorem lee_unset_whole (n : ℕ) (P : ℕ → ℝ) (hP : ∀ l < n, P (n - 1) ≤ P l ∧ P l ≤ P 0) (b t pi a q mix : ℝ)
    (hb : b < 0) (ht : t < 0) (wnv : ℕ → ℝ) (l wn : ℕ) (hl : l < n) :
    leeSigma n P b t pi a q mix wnv l wn = leeLaw pi a q (wnv wn) * mix := by
  unfold leeSigma leeBound
  simp [hb, ht, (hP l hl).1, (hP l hl).2]

example := lee_inside_law 3 (fun l => 100 - (l : ℝ)) 99.5 98.5 3 1 40 (1 / 1000) (fun _ => 1000) 1 0
  (by simp [leeBound]; norm_num) (by simp [leeBound]; norm_num) (by norm_num) (by norm_num) (by norm_num) (by norm_num)

example := lee_outside_zero 3 (fun l => 100 - (l : ℝ)) 99.5 98.5 3 1 40 (1 / 1000) (fun _ => 1000) 0 0
  (Or.inr (by simp [leeBound]; norm_num))

/-! ### a cloud or haze declared in an input file (`factory.create_klass`, the route of every `[[FlatMie]]`,
`[[LeeMie]]`, `[[SimpleClouds]]` section) -/

/-- **a keyword the section declares reaches the constructor with exactly the declared value; a keyword it leaves out
    reaches it with the constructor's default** (bounds: unset).  `declaredArgs` is a function of the constructor's
    defaults and the section alone, so nothing created earlier in the session can change the result. -/
theorem declared_args {β : Type} (defaults config args : List (String × β)) (k : String) (d : β)
    (hk : defaults.lookup k = some d) (h : declaredArgs defaults config = some args) :
    (∀ v, config.lookup k = some v → args.lookup k = some v) ∧ (config.lookup k = none → args.lookup k = some d) := by
  unfold declaredArgs at h
  split at h
  · cases h
    rw [lookup_map_declared config k defaults d hk]
    constructor
    · intro v hv; rw [hv]; rfl
    · intro hn; rw [hn]; rfl
  · cases h

example : declaredArgs [("flat_mix_ratio", (1 : Rat) / 10), ("flat_bottomP", -1), ("flat_topP", -1)]
    [("flat_topP", 1 / 2), ("flat_mix_ratio", 3)] =
    some [("flat_mix_ratio", 3), ("flat_bottomP", -1), ("flat_topP", 1 / 2)] := by decide +kernel

/-- a declared keyword the constructor does not have is rejected (`KeyError`), never dropped silently -/
theorem declared_unknown_rejected {β : Type} (defaults config : List (String × β)) (k : String) (v : β)
    (hc : (k, v) ∈ config) (hk : defaults.lookup k = none) : declaredArgs defaults config = none := by
  unfold declaredArgs
  rw [if_neg]
  intro hall
  have := List.all_eq_true.1 hall (k, v) hc
  simp [hk] at this

example : declaredArgs [("clouds_pressure", (1000 : Rat))] [("cloud_pressure", 5)] = none := by decide +kernel

end Taurex.C19
