/-
  C07 — the property theorems restated about the REGENERATED source.  `Props/C07Src.lean` proves that the definitions
  translated on every run from taurex/optimizer/optimizer.py (`Optimizer.compile_params` with the module-level
  `compile_params`, `update_model`, `fit_values`, `fit_names`, `enable_fit`, `disable_fit`, `set_mode`, `set_boundary`,
  `set_factor_boundary`, `set_prior`, `enable_derived`, `disable_derived`; and, dialect `dyn`, from
  taurex/parameter/parameterparser.py `ParameterParser.setup_optimizer`, `generate_fitting_parameters`,
  `generate_derived_parameters`), run on the Python-object layout of a model state
  `s` (`fpDict` / `dpDict` = the `fittingParameters` / `derivedParameters` dicts, `entryTuple` = an element of
  `fitting_parameters`, getters / setters = handles into the world `s`), compute what the state machine `step s op` of
  `TaurexModel/OptimizerSM.lean` computes; `Props/C07.lean` proves the property about `step` / `run`.  The corollaries below
  compose the two: they are statements about the text of the code as it is now.  Like `Props/C07.lean` they are generic in
  the names `ν` and the carrier `α` (`src_writeback_id` over ℝ; `fit_names` has string names).

  What is composed.  Every method is tied on its own (one call = one `step`); a history is a `run` of the model, each step of
  which is one tied call.  The corollaries therefore speak of the regenerated method applied to the layout of ANY state a
  history reaches (`run init ops`), instantiated exactly as in the tie theorems:
    * `srcCompile lx s` = `Optimizer.compile_params()` (returns `(_fit_priors, fitting_parameters, fitting_priors,
      derived_parameters)` and the exception); the tie hypothesis (the keys of the dict `_user_priors` are distinct in the
      reached state) is PROVED along every history (`userPriors_nodup_run`, Proofs/C07SrcLemmas.lean): it only remains as
      a hypothesis about the start state in `src_compile_history_free_from`, and not at all from a fresh optimizer.
    * `srcUpdate lx s v` = `Optimizer.update_model(v)` (the world afterwards and the exception).
    * `srcFitValues lx s`, `srcFitNames lx s` = the properties `fit_values`, `fit_names`.
    * the eight set-up methods on `fpDict` / `dpDict`; tie hypotheses kept visible: the keys of each dict are distinct.

  The `[Fitting]` / `[Derive]` glue (last section): `srcSetup mk pexc c s` = the regenerated
  `ParameterParser.setup_optimizer(optimizer)` in the world `s` (result / exception and the world afterwards), `srcGenFit` =
  the regenerated `generate_fitting_parameters()`, under the oracle `fext` of Proofs/C07SrcFitting.lean (`c` = the dict
  `self._raw_config.dict()`, `SecAt c "Fitting" fitting`: its section is `fitting` or absent; `create_prior(v)` = `mk v` /
  raises `pexc`; optimizer methods = `step`).  Hypothesis kept visible in the `setup_optimizer` corollaries: `hsup`, no
  `bounds` / `factor` / `mode` value of a shape outside the documented ones (the model's `unsupported`).
    * `src_fitting_section_implied` composes BOTH regenerated functions: `setup_optimizer` from the parser, then
      `Optimizer.compile_params()` from the optimizer, on a fresh optimizer.

  Not restated
    * `implied_names_order`: a statement about the specification `implied` alone (no function of the code in it); it applies
      to the `fitting_parameters` of `src_compile_history_free` as it stands.
    * `compiled_invariant`: about the model invariant `Inv` (a hypothesis builder); it is used below to discharge the guard of
      the `fit_values` tie.
    * `stale_prior_witness_pinned`: regression witness about the pre-fix model `runPinned`, which is no longer the code.
    * In `src_compile_history_free` the returned `_fit_priors` and the `derived_parameters` tuples are existentially
      quantified (`fp`, `D`): the model's `view` does not contain them (the names of `D` are pinned); on failure `_fit_priors`
      also holds default priors stored before the exception (`src_Optimizer_compile_params_error`).
-/
import Props.C07
import Props.C07Src
set_option linter.unusedSectionVars false

namespace Taurex.C07SrcProps
open Taurex.Priors Taurex.OptimizerSM Taurex.Gen Taurex.C07 Taurex.C07Src

theorem outE_eq_ok {o : Out} (h : outE o = Except.ok ()) : o = .ok := by
  cases o <;> simp [outE] at h ⊢

section
variable {ν α L : Type} [DecidableEq ν] [Add α] [Sub α] [Mul α] [Div α] [Neg α] [LT α] [LE α]
  [DecidableLT α] [DecidableLE α] [Taurex.Transc α] [OfNat α 0]

/-! ### the source expressions -/

/-- the regenerated `Optimizer.compile_params()` on the layout of `s` -/
def srcCompile (lx : ν → L) (s : St ν α) :=
  Gen.SrcC07.Optimizer_compile_params logUniformLin uniformBounds (dpDict lx .model s.dmodel) (fpDict lx .model s.model)
    (dpDict lx .obs s.dobs) (fpDict lx .obs s.obs) s.userPriors

/-- the regenerated `Optimizer.update_model(v)` in the world `s` -/
def srcUpdate (lx : ν → L) (s : St ν α) (v : List α) : St ν α × Except Py.Err Unit :=
  Gen.SrcC07.Optimizer_update_model v callSet (s.compiled.map (entryTuple lx)) s.compiledPriors Prior.back s

theorem srcUpdate_eq (lx : ν → L) (s : St ν α) (v : List α) :
    srcUpdate lx s v = ((step s (.updateModel v)).1, outE (step s (.updateModel v)).2) :=
  src_update_model lx s v

/-- the regenerated property `Optimizer.fit_values` in the world `s` -/
def srcFitValues (lx : ν → L) (s : St ν α) : Except Py.Err (List α) :=
  Gen.SrcC07.Optimizer_fit_values callGet (s.compiled.map (entryTuple lx)) s.compiledPriors mathLog10
    (fun p => modeCode p.mode) s

/-! ### history freedom -/

/-- **History freedom**, about the regenerated `Optimizer.compile_params()`: run on the state reached by ANY operation
    sequence from ANY well-formed state whose `_user_priors` is a dict (distinct keys — a hypothesis about the START state
    only; `userPriors_nodup_run` carries it to the reached state), it returns as `fitting_parameters` (in order),
    `fitting_priors`, the names of `derived_parameters`, and as outcome (ok / ValueError) exactly what the specification
    `implied` computes from the current settings alone -/
theorem src_compile_history_free_from (lx : ν → L) (init : St ν α) (hwf : WF init)
    (hu0 : (init.userPriors.map (·.1)).Nodup) (ops : List (Op ν α)) :
    ∃ fp D, srcCompile lx (run init ops)
        = ((fp, (implied (settings (run init ops))).1.entries.map (entryTuple lx),
            (implied (settings (run init ops))).1.priors, D), outE (implied (settings (run init ops))).2) ∧
      D.map (·.1) = (implied (settings (run init ops))).1.derived := by
  have hu := userPriors_nodup_run ops init hu0
  have hI := compile_history_free init hwf ops
  rw [run_append] at hI
  simp only [run] at hI
  rw [← hI]
  by_cases hok : (step (run init ops) .compile).2 = .ok
  · obtain ⟨h1, h2⟩ := src_Optimizer_compile_params_ok lx (run init ops) hu hok
    refine ⟨(step (run init ops) .compile).1.fitPriors,
      derivedTuples lx .model (run init ops).dmodel ++ derivedTuples lx .obs (run init ops).dobs, ?_, h2⟩
    unfold srcCompile
    rw [h1]
    simp only [view, hok, outE]
  · obtain ⟨extra, D, h1, h2, _⟩ := src_Optimizer_compile_params_error lx (run init ops) hu hok
    exact ⟨_, D, h1, h2⟩

/-- **History freedom**, about the regenerated `Optimizer.compile_params()`, without any hypothesis on the reached state:
    run on the state reached by ANY operation sequence from a fresh optimizer over ANY two well-formed objects, it returns
    as `fitting_parameters` (in order), `fitting_priors`, the names of `derived_parameters`, and as outcome (ok /
    ValueError) exactly what the specification `implied` computes from the current settings alone.  (That the keys of
    `_user_priors` are distinct in the reached state — the hypothesis of the tie — is proved: `userPriors_nodup_run_init`.) -/
theorem src_compile_history_free (lx : ν → L) (model obs : List (Param ν α)) (dm dob : List (Derived ν))
    (hwf : WF (initSt model obs dm dob)) (ops : List (Op ν α)) :
    ∃ fp D, srcCompile lx (run (initSt model obs dm dob) ops)
        = ((fp, (implied (settings (run (initSt model obs dm dob) ops))).1.entries.map (entryTuple lx),
            (implied (settings (run (initSt model obs dm dob) ops))).1.priors, D),
           outE (implied (settings (run (initSt model obs dm dob) ops))).2) ∧
      D.map (·.1) = (implied (settings (run (initSt model obs dm dob) ops))).1.derived :=
  src_compile_history_free_from lx _ hwf (by simp [initSt]) ops

/-! ### `update_model` -/

/-- **Frame condition**, about the regenerated `update_model`: a successful update leaves every mode, fit flag and bound of
    both tables, the derived flags, both prior tables and the compiled view untouched, and every parameter that is not a
    compiled row keeps its value -/
theorem src_update_frame (lx : ν → L) (s : St ν α) (v : List α) (hok : (srcUpdate lx s v).2 = Except.ok ()) :
    frame (srcUpdate lx s v).1 = frame s ∧
    ∀ (o : Owner) (n : ν), (∀ e ∈ s.compiled, ¬ (e.owner = o ∧ e.name = n)) →
      getValue (srcUpdate lx s v).1 o n = getValue s o n := by
  rw [srcUpdate_eq] at hok ⊢
  exact update_frame s v (outE_eq_ok hok)

/-- **`update_model` sets exactly the fitted parameters**, about the regenerated method: in any state reached from a
    well-formed one satisfying the compiled-view invariant, a vector of the right length does not raise and sets the parameter
    of row `i` to `prior_i(v_i)` -/
theorem src_update_sets_fitted (lx : ν → L) (init : St ν α) (hwf : WF init) (hinv : Inv init) (ops : List (Op ν α))
    (v : List α) (hlen : v.length = (run init ops).compiled.length) :
    (srcUpdate lx (run init ops) v).2 = Except.ok () ∧
    ∀ epx ∈ (run init ops).compiled.zip ((run init ops).compiledPriors.zip v),
      getValue (srcUpdate lx (run init ops) v).1 epx.1.owner epx.1.name = some (epx.2.1.back epx.2.2) := by
  have h := update_sets_fitted init hwf hinv ops v hlen
  rw [srcUpdate_eq]
  exact ⟨by rw [h.1]; rfl, h.2⟩

/-- a vector of the wrong length is a `ValueError` of the regenerated `update_model` and changes nothing -/
theorem src_update_len_error (lx : ν → L) (s : St ν α) (v : List α) (h : v.length ≠ s.compiled.length) :
    srcUpdate lx s v = (s, Except.error Py.Err.valueError) := by
  rw [srcUpdate_eq, update_len_error s v h]
  rfl

/-! ### unknown names -/

/-- **Unknown names are errors**, about the eight regenerated set-up methods: each raises (`KeyError`; `set_prior`:
    `ValueError`) and returns the dicts it was given -/
theorem src_unknown_is_error (lx : ν → L) (s : St ν α) (hmN : (names s.model).Nodup) (hoN : (names s.obs).Nodup)
    (hdmN : (s.dmodel.map (·.name)).Nodup) (hdoN : (s.dobs.map (·.name)).Nodup)
    (n : ν) (hm : n ∉ names s.model) (ho : n ∉ names s.obs)
    (hdm : n ∉ s.dmodel.map (·.name)) (hdo : n ∉ s.dobs.map (·.name)) (m : String) (a b : α) (p : Prior α) :
    Gen.SrcC07.Optimizer_enable_fit n (fpDict lx .model s.model) (fpDict lx .obs s.obs)
      = ((fpDict lx .model s.model, fpDict lx .obs s.obs), Except.error Py.Err.keyError) ∧
    Gen.SrcC07.Optimizer_disable_fit n (fpDict lx .model s.model) (fpDict lx .obs s.obs)
      = ((fpDict lx .model s.model, fpDict lx .obs s.obs), Except.error Py.Err.keyError) ∧
    Gen.SrcC07.Optimizer_set_mode n m (fpDict lx .model s.model) (fpDict lx .obs s.obs)
      = ((fpDict lx .model s.model, fpDict lx .obs s.obs), Except.error Py.Err.keyError) ∧
    Gen.SrcC07.Optimizer_set_boundary n (a, b) (fpDict lx .model s.model) (fpDict lx .obs s.obs)
      = ((fpDict lx .model s.model, fpDict lx .obs s.obs), Except.error Py.Err.keyError) ∧
    Gen.SrcC07.Optimizer_set_factor_boundary n (a, b) callGet (fpDict lx .model s.model) (fpDict lx .obs s.obs) s
      = ((fpDict lx .model s.model, fpDict lx .obs s.obs), Except.error Py.Err.keyError) ∧
    Gen.SrcC07.Optimizer_set_prior n p s.fitPriors (fpDict lx .model s.model) (fpDict lx .obs s.obs) s.userPriors
      = ((s.userPriors, s.fitPriors), Except.error Py.Err.valueError) ∧
    Gen.SrcC07.Optimizer_enable_derived n (dpDict lx .model s.dmodel) (dpDict lx .obs s.dobs)
      = ((dpDict lx .model s.dmodel, dpDict lx .obs s.dobs), Except.error Py.Err.keyError) ∧
    Gen.SrcC07.Optimizer_disable_derived n (dpDict lx .model s.dmodel) (dpDict lx .obs s.dobs)
      = ((dpDict lx .model s.dmodel, dpDict lx .obs s.dobs), Except.error Py.Err.keyError) := by
  obtain ⟨h1, h2, h3, h4, h5, h6, h7, h8⟩ := unknown_is_error s n hm ho hdm hdo m a b p
  refine ⟨?_, ?_, ?_, ?_, ?_, ?_, ?_, ?_⟩
  · rw [src_enable_fit lx s hmN hoN n, h1]; rfl
  · rw [src_disable_fit lx s hmN hoN n, h2]; rfl
  · rw [src_set_mode lx s hmN hoN n m, h3]; rfl
  · rw [src_set_boundary lx s hmN hoN n a b, h4]; rfl
  · rw [src_set_factor_boundary lx s hmN hoN n a b, h5]; rfl
  · rw [src_set_prior lx s n p, h6]; rfl
  · rw [src_enable_derived lx s hdmN hdoN n, h7]; rfl
  · rw [src_disable_derived lx s hdmN hdoN n, h8]; rfl

end

/-! ### reported names (string names) -/

section
variable {α L : Type} [Add α] [Sub α] [Mul α] [Div α] [Neg α] [LT α] [LE α]
  [DecidableLT α] [DecidableLE α] [Taurex.Transc α] [OfNat α 0]

/-- the regenerated property `Optimizer.fit_names` on the layout of `s` -/
def srcFitNames (lx : String → L) (s : St String α) : Except Py.Err (List String) :=
  Gen.SrcC07.Optimizer_fit_names s.fitPriors (s.compiled.map (entryTuple lx)) (fun p => modeCode p.mode)

/-- **Consistent spaces (names)**, about the regenerated `fit_names`: right after a successful compilation the reported name
    of every row carries the `log_` prefix exactly when the prior of that row is a log-space prior -/
theorem src_spaces_consistent_names (lx : String → L) (s : St String α) (hwf : WF s)
    (hok : (step s .compile).2 = .ok) :
    srcFitNames lx (step s .compile).1
      = Except.ok ((impliedNames (view (step s .compile).1)).map Taurex.Ops.C07.fName) := by
  unfold srcFitNames
  rw [src_fit_names, spaces_consistent_names s hwf hok]
  rfl

/-- the regenerated `fit_names` never raises along any history of a fresh optimizer -/
theorem src_fit_names_total (lx : String → L) (model obs : List (Param String α)) (dm dob : List (Derived String))
    (hwf : WF (initSt model obs dm dob)) (ops : List (Op String α)) :
    ∃ ns, srcFitNames lx (run (initSt model obs dm dob) ops) = Except.ok ns := by
  have h := fit_names_total model obs dm dob hwf ops
  obtain ⟨r, hr⟩ := Option.isSome_iff_exists.1 h
  unfold srcFitNames
  rw [src_fit_names, hr]
  exact ⟨_, rfl⟩

end


/-! ### `[Fitting]` / `[Derive]` sections (`ParameterParser.setup_optimizer`, `generate_fitting_parameters`) -/

section
open Taurex.FittingSection Taurex.Gen.Dyn
variable {α L : Type} [Add α] [Sub α] [Mul α] [Div α] [Neg α] [LT α] [LE α]
  [DecidableLT α] [DecidableLE α] [Taurex.Transc α] [OfNat α 0] [BEq (FObj α)]

/-- the regenerated `ParameterParser.setup_optimizer(optimizer)` in the world `s`: what it returns / raises, and the world
    afterwards -/
def srcSetup (mk : FV α → Option (Prior α)) (pexc : Exc) (c : List (FV α × FV α)) (s : St String α) :
    Except Exc (FV α) × St String α :=
  Gen.SrcC07.setup_optimizer (fext mk pexc (.dict c)) (.obj .self) (.obj .optimizer) s

/-- the regenerated `ParameterParser.generate_fitting_parameters()` -/
def srcGenFit (mk : FV α → Option (Prior α)) (pexc : Exc) (c : List (FV α × FV α)) (s : St String α) :
    Except Exc (FV α) × St String α :=
  Gen.SrcC07.generate_fitting_parameters (fext mk pexc (.dict c)) (.obj .self) s

theorem srcSetup_eq (mk : FV α → Option (Prior α)) (pexc : Exc) (c : List (FV α × FV α))
    (fitting derive : List (String × OptVal α)) (hF : SecAt c "Fitting" fitting) (hD : SecAt c "Derive" derive)
    (s : St String α) (hsup : (setupOptimizer (fun v => mk (embV v)) s fitting derive).2.1 ≠ .unsupported) :
    srcSetup mk pexc c s = (resV pexc (setupOptimizer (fun v => mk (embV v)) s fitting derive).2.1,
                            (setupOptimizer (fun v => mk (embV v)) s fitting derive).1) :=
  src_setup_optimizer mk pexc c fitting derive hF hD s hsup

/-- **The set-up an input file asks for**, about the regenerated `setup_optimizer` AND the regenerated
    `Optimizer.compile_params()`: if `setup_optimizer` returns (raises nothing) on a fresh optimizer (names unique across
    the tables, derived names of model and observation disjoint), then `compile_params()` run on the world it leaves returns
    as `fitting_parameters` (in order), `fitting_priors`, names of `derived_parameters` and outcome exactly what `implied`
    computes from the settings the two sections DESCRIBE (`sectionSettings`) -/
theorem src_fitting_section_implied (lx : String → L) (mk : FV α → Option (Prior α)) (pexc : Exc) (c : List (FV α × FV α))
    (model obs : List (Param String α)) (dm dob : List (Derived String)) (fitting derive : List (String × OptVal α))
    (hF : SecAt c "Fitting" fitting) (hD : SecAt c "Derive" derive)
    (hwf : WF (initSt model obs dm dob)) (hdd : DisjD (initSt model obs dm dob : St String α))
    (hsup : (setupOptimizer (fun v => mk (embV v)) (initSt model obs dm dob) fitting derive).2.1 ≠ .unsupported)
    (hok : (srcSetup mk pexc c (initSt model obs dm dob)).1 = .ok .none) :
    ∃ grp dl, parseFitting (fun v => mk (embV v)) fitting [] = .ok grp ∧ splitAll derive = some dl ∧
      ∃ fp D, srcCompile lx (srcSetup mk pexc c (initSt model obs dm dob)).2
          = ((fp, (implied (sectionSettings (initSt model obs dm dob) grp (deriveRecs dl []))).1.entries.map (entryTuple lx),
              (implied (sectionSettings (initSt model obs dm dob) grp (deriveRecs dl []))).1.priors, D),
             outE (implied (sectionSettings (initSt model obs dm dob) grp (deriveRecs dl []))).2) ∧
        D.map (·.1) = (implied (sectionSettings (initSt model obs dm dob) grp (deriveRecs dl []))).1.derived := by
  rw [srcSetup_eq mk pexc c fitting derive hF hD _ hsup] at hok ⊢
  have hok' := (resV_ok_iff pexc _).1 hok
  obtain ⟨grp, dl, hp, hsd, hset, hw'⟩ :=
    setup_ok_settings (fun v => mk (embV v)) (initSt model obs dm dob) hwf hdd rfl fitting derive hok'
  refine ⟨grp, dl, hp, hsd, ?_⟩
  have hu : ((setupOptimizer (fun v => mk (embV v)) (initSt model obs dm dob) fitting derive).1.userPriors.map
      (·.1)).Nodup := by
    rw [setup_run]
    exact userPriors_nodup_run_init model obs dm dob _
  have h := src_compile_history_free_from lx _ hw' hu []
  simp only [run] at h
  rw [hset] at h
  exact h

/-- **Unknown names and malformed keys in a section are errors**, about the regenerated `setup_optimizer` on any
    well-formed world: a `[Fitting]` key that is not `name:option` makes it raise and leaves the world untouched; a
    `[Fitting]` line naming a parameter found in neither table makes it raise; a `[Derive]` key that is not `name:option`
    makes it raise; a `[Derive]` line `name:compute` naming an unknown derived parameter makes it raise -/
theorem src_fitting_unknown_is_error (mk : FV α → Option (Prior α)) (pexc : Exc) (c : List (FV α × FV α))
    (s : St String α) (hw : WF s) (hd : DisjD s) (fitting derive : List (String × OptVal α))
    (hF : SecAt c "Fitting" fitting) (hD : SecAt c "Derive" derive)
    (hsup : (setupOptimizer (fun v => mk (embV v)) s fitting derive).2.1 ≠ .unsupported) :
    ((∃ kv ∈ fitting, splitKey kv.1 = none) →
      (∃ e, (srcSetup mk pexc c s).1 = .error e) ∧ (srcSetup mk pexc c s).2 = s) ∧
    ((∃ kv ∈ fitting, ∃ a b, splitKey kv.1 = some (a, b) ∧ ¬ Known s a) → ∃ e, (srcSetup mk pexc c s).1 = .error e) ∧
    ((∃ kv ∈ derive, splitKey kv.1 = none) → ∃ e, (srcSetup mk pexc c s).1 = .error e) ∧
    ((∃ kv ∈ derive, ∃ a, splitKey kv.1 = some (a, "compute") ∧ ¬ KnownD s a) →
      ∃ e, (srcSetup mk pexc c s).1 = .error e) := by
  obtain ⟨h1, h2, h3, h4⟩ := fitting_unknown_is_error (fun v => mk (embV v)) s hw hd fitting derive
  rw [srcSetup_eq mk pexc c fitting derive hF hD s hsup]
  exact ⟨fun h => ⟨resV_error pexc _ (h1 h).1, (h1 h).2.1⟩, fun h => resV_error pexc _ (h2 h),
    fun h => resV_error pexc _ (h3 h), fun h => resV_error pexc _ (h4 h)⟩

/-- **The order of the `[Fitting]` lines is irrelevant**, about the regenerated `generate_fitting_parameters`: on two
    input files whose `[Fitting]` lines (split at the colon) are permutations of each other, with keys unique as ConfigObj
    guarantees, it either raises the same exception on both, or returns two dicts that hold (`GrpSim`) records describing
    settings with the same `implied` set-up — which by `src_fitting_section_implied` is what the regenerated
    `setup_optimizer` + `compile_params` produce -/
theorem src_fitting_order_free (mk : FV α → Option (Prior α)) (pexc : Exc) (c c' : List (FV α × FV α))
    (s0 s : St String α) (ents ents' : List (String × OptVal α)) (ls ls' : List (Line α))
    (hF : SecAt c "Fitting" ents) (hF' : SecAt c' "Fitting" ents')
    (hs : splitAll ents = some ls) (hs' : splitAll ents' = some ls') (hperm : ls.Perm ls')
    (hnd : (ls.map lkey).Nodup) (drecs : List (String × Option (OptVal α))) :
    (∃ e, srcGenFit mk pexc c s = (.error e, s) ∧ srcGenFit mk pexc c' s = (.error e, s)) ∨
    (∃ D D' grp grp', srcGenFit mk pexc c s = (.ok (.dict D), s) ∧ srcGenFit mk pexc c' s = (.ok (.dict D'), s) ∧
      GrpSim D grp ∧ GrpSim D' grp' ∧
      implied (sectionSettings s0 grp drecs) = implied (sectionSettings s0 grp' drecs)) := by
  have h := fitting_order_free (fun v => mk (embV v)) s0 ents ents' ls ls' hs hs' hperm hnd drecs
  have g := src_generate_fitting_parameters mk pexc c ents hF s
  have g' := src_generate_fitting_parameters mk pexc c' ents' hF' s
  unfold srcGenFit
  cases hp : parseFitting (fun v => mk (embV v)) ents [] with
  | error e =>
    cases hp' : parseFitting (fun v => mk (embV v)) ents' [] with
    | error e' =>
      rw [hp, hp'] at h
      simp only at h
      subst h
      exact .inl ⟨_, fitOutcome_err hp g, fitOutcome_err hp' g'⟩
    | ok grp' => rw [hp, hp'] at h; exact h.elim
  | ok grp =>
    cases hp' : parseFitting (fun v => mk (embV v)) ents' [] with
    | error e' => rw [hp, hp'] at h; exact h.elim
    | ok grp' =>
      rw [hp, hp'] at h
      simp only at h
      obtain ⟨D, hD, hsim⟩ := fitOutcome_ok hp g
      obtain ⟨D', hD', hsim'⟩ := fitOutcome_ok hp' g'
      exact .inr ⟨D, D', grp, grp', hD, hD', hsim, hsim', h⟩

/-- non-vacuity of `src_fitting_section_implied` / `src_fitting_unknown_is_error`: for the example optimizer and sections of
    Props/C07.lean (`exInit`, `exFitting`, `exDerive`, no `prior` lines) the model's outcome is `ok` (so `hsup` holds), the
    sections are where `SecAt` wants them, and the regenerated `setup_optimizer` returns `None` (`hok`) -/
example [BEq (FObj ℝ)] :
    (setupOptimizer (fun v => (fun _ => none : FV ℝ → Option (Prior ℝ)) (embV v)) exInit exFitting exDerive).2.1 ≠ .unsupported ∧
    SecAt (α := ℝ) [(.str "Fitting", .dict (embSec exFitting)), (.str "Derive", .dict (embSec exDerive))] "Fitting" exFitting ∧
    SecAt (α := ℝ) [(.str "Fitting", .dict (embSec exFitting)), (.str "Derive", .dict (embSec exDerive))] "Derive" exDerive ∧
    (srcSetup (fun _ => none) Exc.ValueError
      [(.str "Fitting", .dict (embSec exFitting)), (.str "Derive", .dict (embSec exDerive))] exInit).1 = .ok .none := by
  have hok : (setupOptimizer (fun _ => none) exInit exFitting exDerive).2.1 = .ok := by
    have k1 : splitKey "T:fit" = some ("T", "fit") := by decide +kernel
    have k2 : splitKey "T:bounds" = some ("T", "bounds") := by decide +kernel
    have k3 : splitKey "H2O:mode" = some ("H2O", "mode") := by decide +kernel
    have k4 : splitKey "Offset_1:fit" = some ("Offset_1", "fit") := by decide +kernel
    have k5 : splitKey "Offset_1:factor" = some ("Offset_1", "factor") := by decide +kernel
    have k6 : splitKey "mu:compute" = some ("mu", "compute") := by decide +kernel
    have c1 : classify "fit" = .fit := by decide +kernel
    have c2 : classify "bounds" = .bounds := by decide +kernel
    have c3 : classify "mode" = .mode := by decide +kernel
    have c4 : classify "factor" = .factor := by decide +kernel
    have m1 : parseMode "linear" = some FitMode.linear := by decide +kernel
    have m2 : "LINEAR".toLower = "linear" := by decide +kernel
    simp [setupOptimizer, exFitting, exDerive, exInit, initSt, parseFitting, k1, k2, k3, k4, k5, k6, setOpt, c1, c2, c3, c4,
      getRec, updRec, fittingOps, recOps, pairOpt, modeOpt, FittingSection.truthy, PairOpt.isBad, ModeOpt.isBad, fitOps,
      factorOps, boundsOps, modeOps, priorOps, runStop, step, withParam, ownerOf, hasName, table, setTable, modifyParam, m1,
      m2, splitAll, deriveRecs, updD, deriveOps, withDerived, hasDerived]
  have hs := secAt_cfgOf (α := ℝ) exFitting exDerive
  have hsup : (setupOptimizer (fun v => (fun _ => none : FV ℝ → Option (Prior ℝ)) (embV v)) exInit exFitting exDerive).2.1
      ≠ .unsupported := by
    show (setupOptimizer (fun _ => none) exInit exFitting exDerive).2.1 ≠ .unsupported
    rw [hok]; decide
  refine ⟨hsup, hs.1, hs.2, ?_⟩
  rw [srcSetup_eq _ _ _ exFitting exDerive hs.1 hs.2 _ hsup]
  show resV _ (setupOptimizer (fun _ => none) exInit exFitting exDerive).2.1 = _
  rw [hok]
  rfl

end

/-! ### write-back identity (over ℝ) -/

section
variable {ν L : Type} [DecidableEq ν]

/-- a compiled row that refers to an existing parameter has a value -/
theorem getValue_isSome_of_mem (s : St ν ℝ) (o : Owner) (n : ν) (h : n ∈ names (table s o)) :
    (getValue s o n).isSome = true := by
  unfold getValue names at *
  obtain ⟨p, hp, hn⟩ := List.mem_map.1 h
  rw [Option.isSome_map, List.find?_isSome]
  exact ⟨p, hp, by simp [hn]⟩

/-- **Write-back identity**, about the regenerated `fit_values` and `update_model`: if `fit_values` returns a vector at all,
    writing it back with `update_model` succeeds and changes nothing -/
theorem src_writeback_id (lx : ν → L) (init : St ν ℝ) (hwf : WF init) (hinv : Inv init) (ops : List (Op ν ℝ))
    (v : List ℝ) (hv : srcFitValues lx (run init ops) = Except.ok v) :
    srcUpdate lx (run init ops) v = (run init ops, Except.ok ()) := by
  obtain ⟨_, _, hex⟩ := Inv_run ops init hwf hinv
  unfold srcFitValues at hv
  rw [src_fit_values lx (run init ops)
    (fun e he => getValue_isSome_of_mem _ _ _ (hex e he))] at hv
  cases hf : fitValues (run init ops) with
  | none => simp [hf, optE] at hv
  | some w =>
    simp only [hf, optE, Except.ok.injEq] at hv
    subst hv
    rw [srcUpdate_eq, writeback_id init hwf hinv ops w hf]
    rfl

end

end Taurex.C07SrcProps
