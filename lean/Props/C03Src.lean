/-
  C03 — source tie.  `TaurexModel/Gen/SrcC03.lean` is regenerated on every run by `harness/translate.py` (dialect
  `shaped`, harness/translate_shaped.py) from the source text of
      taurex/contributions/contribution.py   Contribution.prepare, contribute_tau
      taurex/contributions/cia.py            CIAContribution.prepare_each, contribute_cia, CIAContribution.contribute
      taurex/contributions/rayleigh.py       RayleighContribution.prepare_each
      taurex/contributions/absorption.py     AbsorptionContribution.prepare_each (cross-section mode), .prepare
      taurex/contributions/contribution.py   Contribution.contribute
      taurex/contributions/simpleclouds.py   SimpleCloudsContribution.contribute
      taurex/model/transmission.py           path_integral (the loop over the contribution LIST with its break),
                                             compute_path_length_old, compute_path_length, compute_absorption
      taurex/util/geometry.py                parallel_vector
      taurex/model/simplemodel.py            SimpleForwardModel.model_contrib (the per-contribution loop and its dict),
                                             .model_full_contrib (the per-component loop driven by the generator
                                             `prepare_each`; the three `prepare_each` once more as the list of what
                                             `self.sigma_xsec` holds at each yield: `*_published`)
  The theorems state, for EVERY carrier (induction over the loops, no algebra), that each regenerated definition is the
  model function of `TaurexModel/Sigma.lean` / `TaurexModel/Transmission.lean` that the C03 theorems are about and
  `driver_c03` executes.

  Generators.  `prepare_each` is a generator that re-uses ONE buffer for all its components; the translation returns the
  list of the yielded arrays, each as it is at the time of its `yield` (what `Contribution.prepare`, `model_full_contrib`
  and `store_contributions` read before they resume the generator).  Objects the code only looks things up in (the CIA
  cache, the chemistry, the Rayleigh tables) are parameters: `mixOne p`, `mixTwo p` the mixing-ratio profiles of the two
  partners of pair `p`, `ciaXsec p T` the pair's cross-section at temperature `T`, `law g` / `lawDefined g` the Rayleigh
  cross-section of molecule `g` and whether `rayleigh_sigma_from_name` knows it, `mix g` its mixing-ratio profile.
-/
import TaurexModel.Gen.SrcC03
import TaurexModel.Gen.SrcC19
import TaurexModel.Sigma
import TaurexModel.Transmission
import TaurexModel.Geometry
import Proofs.C01SrcLemmas
set_option linter.unusedSectionVars false

namespace Taurex.C03Src
open Taurex.Sigma Taurex.Transmission Taurex.C01Src

section
variable {α : Type} [Add α] [Sub α] [Mul α] [Div α] [Neg α] [LT α] [LE α]
  [DecidableLT α] [DecidableLE α] [OfNat α 0] [OfNat α 1] [OfNat α 2] [OfNat α 10] [Transc α]

/-! ### components summed into one `sigma_xsec` -/

/-- a fold of whole tables is the table of the element-wise folds -/
theorem foldl_tables (comps : List (Nat → Nat → α)) (init : Nat → Nat → α) :
    comps.foldl (fun (S : Nat → Nat → α) c => fun i j => S i j + c i j) init
      = fun i j => comps.foldl (fun a c => a + c i j) (init i j) := by
  induction comps generalizing init with
  | nil => rfl
  | cons c cs ih => simp only [List.foldl_cons]; rw [ih]

/-- `Contribution.prepare`: `sigma_xsec = zeros; for name, component in prepare_each(…): sigma_xsec += component` — the
    stored `self.sigma_xsec` is `sumComps` of the yielded components (as whole tables) -/
theorem src_contribution_prepare (nL nW : Nat) (comps : List (Nat → Nat → α)) :
    Gen.SrcC03.contribution_prepare nW comps nL = sumComps comps := by
  unfold Gen.SrcC03.contribution_prepare sumComps
  exact foldl_tables comps _

/-! ### collision-induced absorption: one component per pair -/

/-- `for i in range(n): S[i] += f i` on a table -/
theorem fold_rows_add (n : Nat) (f : Nat → Nat → α) (init : Nat → Nat → α) :
    (List.range' 0 n).foldl (fun (S : Nat → Nat → α) idx => fun i j => if i = idx then S idx j + f idx j else S i j) init
      = fun i j => if i < n then init i j + f i j else init i j := by
  induction n with
  | zero => funext i j; simp
  | succ n ih =>
    rw [List.range'_1_concat, List.foldl_append, ih]
    funext i j
    simp only [List.foldl_cons, List.foldl_nil, Nat.zero_add]
    by_cases h : i = n
    · subst h; simp
    · by_cases h2 : i < n
      · have : i < n + 1 := by omega
        simp [h, h2, this]
      · have : ¬ i < n + 1 := by omega
        simp [h, h2, this]

/-- a generator loop that re-initialises its buffer for every element: the yielded list -/
theorem foldl_yield {ι β : Type} (g : ι → β) (xs : List ι) (b0 : β) (ys : List β) :
    (xs.foldl (fun (st : β × List β) x => (g x, st.2 ++ [g x])) (b0, ys)).2 = ys ++ xs.map g := by
  induction xs generalizing b0 ys with
  | nil => simp
  | cons x xs ih => simp only [List.foldl_cons, List.map_cons]; rw [ih]; simp

/-- `CIAContribution.prepare_each`: for each pair the (zeroed) buffer receives, layer by layer,
    `cia(T_l, wngrid) * (mix(pairOne) * mix(pairTwo))[l]` — the component `compCIA` on the `nL` layers -/
theorem src_cia_prepare_each {ι : Type} (nL nW : Nat) (T : Nat → α) (ciaXsec : ι → α → Nat → α)
    (mixOne mixTwo : ι → Nat → α) (pairs : List ι) :
    Gen.SrcC03.cia_prepare_each nW T ciaXsec mixOne mixTwo nL pairs
      = pairs.map (fun p => fun l wn =>
          if l < nL then compCIA (fun l wn => ciaXsec p (T l) wn) (mixOne p) (mixTwo p) l wn else 0) := by
  unfold Gen.SrcC03.cia_prepare_each compCIA
  simp only [fold_rows_add]
  exact (foldl_yield _ pairs _ []).trans (List.nil_append _)

/-! ### Rayleigh scattering: one component per molecule that has abundance and a law -/

theorem foldl_yield_filter {ι β : Type} (skip keep : ι → Bool) (h : ι → β) (xs : List ι) (ys : List β) :
    xs.foldl (fun (ys : List β) x => if skip x then ys else (if keep x then ys ++ [h x] else ys)) ys
      = ys ++ (xs.filter (fun x => !skip x && keep x)).map h := by
  induction xs generalizing ys with
  | nil => simp
  | cons x xs ih =>
    simp only [List.foldl_cons]
    rw [ih]
    cases hs : skip x <;> cases hk : keep x <;> simp [hs, hk]

/-- the code's `np.max(mix) == 0.0` (IEEE equality of the fold of `max`) -/
def zeroAbundance (nL : Nat) (mix : Nat → α) : Bool :=
  let m := (List.range (nL - 1)).foldl (fun acc s => if acc < mix (s + 1) then mix (s + 1) else acc) (mix 0)
  decide (m ≤ 0) && decide (0 ≤ m)

/-- `RayleighContribution.prepare_each`: the molecules whose largest mixing ratio is not `== 0.0` and for which
    `rayleigh_sigma_from_name` has a law each yield `sigma[None, :] * mix[:, None]` = `compScaled` -/
theorem src_rayleigh_prepare_each {ι : Type} (nL nW : Nat) (law : ι → Nat → α) (lawDefined : ι → Bool)
    (mix : ι → Nat → α) (molecules : List ι) :
    Gen.SrcC03.rayleigh_prepare_each nW law lawDefined mix molecules nL
      = (molecules.filter (fun g => !zeroAbundance nL (mix g) && lawDefined g)).map
          (fun g => compScaled (law g) (mix g)) := by
  unfold Gen.SrcC03.rayleigh_prepare_each
  exact (foldl_yield_filter (fun g => zeroAbundance nL (mix g)) lawDefined
    (fun g => compScaled (law g) (mix g)) molecules []).trans (List.nil_append _)

/-! ### molecular absorption (cross-section mode): one component per active gas -/

/-- a generator loop whose every iteration appends `g x`, whatever else its state carries -/
theorem foldl_yield_any {ι β σ : Type} (g : ι → β) (F : σ × List β → ι → σ × List β)
    (hF : ∀ st x, (F st x).2 = st.2 ++ [g x]) (xs : List ι) (st : σ × List β) :
    (xs.foldl F st).2 = st.2 ++ xs.map g := by
  induction xs generalizing st with
  | nil => simp
  | cons x xs ih => simp only [List.foldl_cons, List.map_cons]; rw [ih, hF]; simp

/-- `AbsorptionContribution.prepare_each` with `opacity_method` ≠ 'ktables' (the spec's static assumption
    `self._use_ktables = False`): for each active gas the buffer — allocated for the first gas, zeroed in place for the
    later ones — receives, layer by layer, `opacity(T_l, P_l, wngrid) * gas_mix[l]`: the component `compAbs` on the
    `nlayers` layers -/
theorem src_absorption_prepare_each {ι : Type} (nlayers nW : Nat) (T P : Nat → α) (opacity : ι → α → α → Nat → α)
    (mix : ι → Nat → α) (gases : List ι) :
    Gen.SrcC03.absorption_prepare_each nW P T gases mix nlayers opacity
      = gases.map (fun g => fun l wn =>
          if l < nlayers then compAbs (fun l wn => opacity g (T l) (P l) wn) (mix g) l wn else 0) := by
  unfold Gen.SrcC03.absorption_prepare_each compAbs
  refine (foldl_yield_any _ _ ?_ gases _).trans (List.nil_append _)
  intro st g
  obtain ⟨o, ys⟩ := st
  cases o <;> simp only [fold_rows_add]

/-- the row stored per layer has the length of the buffer's wavenumber axis -/
theorem src_absorption_prepare_each_shapes {ι : Type} (nlayers nW : Nat) (T P : Nat → α)
    (opacity : ι → α → α → Nat → α) (mix : ι → Nat → α) (gases : List ι) :
    Gen.SrcC03.absorption_prepare_each_shapes nW P T gases mix nlayers opacity := by
  unfold Gen.SrcC03.absorption_prepare_each_shapes
  intros; rfl

/-- the part of `AbsorptionContribution.prepare` after the first component -/
theorem foldl_tables_some (comps : List (Nat → Nat → α)) (S : Nat → Nat → α) :
    comps.foldl (fun (o : Option (Nat → Nat → α)) c =>
        some (fun i j => (match o with | none => fun _ _ => (0 : α) | some S => S) i j + c i j)) (some S)
      = some (fun i j => comps.foldl (fun a c => a + c i j) (S i j)) := by
  induction comps generalizing S with
  | nil => rfl
  | cons c cs ih => simp only [List.foldl_cons]; rw [ih]

/-- `AbsorptionContribution.prepare`: `None` when `prepare_each` yields nothing, otherwise `zeros_like(first)` plus all
    components in order = `sumComps` -/
theorem src_absorption_prepare (nL nW : Nat) (comps : List (Nat → Nat → α)) :
    Gen.SrcC03.absorption_prepare nW comps nL = if comps = [] then none else some (sumComps comps) := by
  unfold Gen.SrcC03.absorption_prepare sumComps
  cases comps with
  | nil => rfl
  | cons c cs =>
    simp only [List.foldl_cons, reduceCtorEq, if_false]
    exact foldl_tables_some cs _

/-! ### from `sigma_xsec` to optical depth: the kernels -/

theorem src_contribute_tau (s e off : Nat) (sigma : Nat → Nat → α) (dens path : Nat → α) (ngrid l : Nat)
    (tau : Nat → Nat → α) :
    Gen.SrcC03.contribute_tau s e off sigma dens path ngrid l tau
      = fun i j => if i = l ∧ j < ngrid then
          (List.range' s (e - s)).foldl (fun acc k => acc + sigma (k + l) j * path k * dens (k + off)) (tau l j)
        else tau i j :=
  fold_kernel l ngrid s (e - s) (fun k wn => sigma (k + l) wn * path k * dens (k + off)) tau

/-- `contribute_cia`: density squared -/
theorem src_contribute_cia (s e off : Nat) (sigma : Nat → Nat → α) (dens path : Nat → α) (ngrid l : Nat)
    (tau : Nat → Nat → α) :
    Gen.SrcC03.contribute_cia s e off sigma dens path ngrid l tau
      = fun i j => if i = l ∧ j < ngrid then
          (List.range' s (e - s)).foldl
            (fun acc k => acc + sigma (k + l) j * path k * dens (k + off) * dens (k + off)) (tau l j)
        else tau i j :=
  fold_kernel l ngrid s (e - s) (fun k wn => sigma (k + l) wn * path k * dens (k + off) * dens (k + off)) tau

/-- as `path_integral` calls them: the new row of `tau` is `addContrib` of kind `lin` / `sq` (what `tauFull` sums) -/
theorem src_contribute_tau_call (n l ngrid : Nat) (sigma : Nat → Nat → α) (dens path : Nat → α) (tau : Nat → Nat → α) :
    Gen.SrcC03.contribute_tau 0 (n - l) l sigma dens path ngrid l tau
      = fun i j => if i = l ∧ j < ngrid then addContrib ⟨.lin, sigma⟩ n path dens l (tau l) j else tau i j := by
  rw [src_contribute_tau]
  simp only [addContrib, accFrom, nTerms, term, Nat.sub_zero, List.range_eq_range']

theorem src_contribute_cia_call (n l ngrid : Nat) (sigma : Nat → Nat → α) (dens path : Nat → α) (tau : Nat → Nat → α) :
    Gen.SrcC03.contribute_cia 0 (n - l) l sigma dens path ngrid l tau
      = fun i j => if i = l ∧ j < ngrid then addContrib ⟨.sq, sigma⟩ n path dens l (tau l) j else tau i j := by
  rw [src_contribute_cia]
  simp only [addContrib, accFrom, nTerms, term, Nat.sub_zero, List.range_eq_range']

/-- `CIAContribution.contribute`: the kernel runs iff there is at least one pair -/
theorem src_cia_contribute (s e off l : Nat) (dens path : Nat → α) (tau sigma : Nat → Nat → α) (ngrid total : Nat) :
    Gen.SrcC03.cia_contribute s e off l dens tau path ngrid sigma total
      = if 0 < total then Gen.SrcC03.contribute_cia s e off sigma dens path ngrid l tau else tau := by
  unfold Gen.SrcC03.cia_contribute
  by_cases h : 0 < total <;> simp [h]

/-! ### the loop over the LIST of contributions: `path_integral` and what it calls (C01's specs, re-translated here) -/

/-- `Contribution.contribute` hands `self.sigma_xsec`, `self._ngrid` to `contribute_tau` -/
theorem src_contribution_contribute (s e off l : Nat) (dens path : Nat → α) (tau sigma : Nat → Nat → α) (ngrid : Nat) :
    Gen.SrcC03.contribution_contribute s e off l dens tau path ngrid sigma
      = Gen.SrcC03.contribute_tau s e off sigma dens path ngrid l tau := rfl

/-- `SimpleCloudsContribution.contribute`: `tau[layer] += self.sigma_xsec[layer, :]` — kind `layerOnly` (the whole row) -/
theorem src_clouds_contribute (n l nL nW : Nat) (sigma : Nat → Nat → α) (dens path : Nat → α) (tau : Nat → Nat → α) :
    Gen.SrcC03.clouds_contribute l tau nL nW sigma
      = fun i j => if i = l then addContrib ⟨.layerOnly, sigma⟩ n path dens l (tau l) j else tau i j := rfl

/-! ### transit depth and chord lengths -/

/-- `compute_absorption(tau, dz)`: the pair (`depth` per wavenumber, `exp(-tau)`) -/
theorem src_compute_absorption (n nW : Nat) (rp rs : α) (z dz : Nat → α) (tau : Nat → Nat → α) :
    Gen.SrcC03.compute_absorption tau dz n nW rp rs z
      = (fun wn => depth rp rs n z dz (fun l => trans (tau l wn)), fun l wn => trans (tau l wn)) := rfl

/-- `compute_path_length_old(dz)`: the list, layer by layer, of the chord segments `chordOld` (as whole functions of the
    segment index: also the slice arithmetic `k[1:] = …[layer+1:]`, `k[1:] -= …[layer:nLayers-1]` is matched) -/
theorem src_compute_path_length_old (n : Nat) (rp : α) (z dz : Nat → α) :
    Gen.SrcC03.compute_path_length_old dz n rp z = (List.range n).map (fun l => chordOld rp z dz l) := by
  unfold Gen.SrcC03.compute_path_length_old
  simp only [Nat.sub_zero]
  rw [foldl_append_singleton]
  simp only [List.nil_append]
  congr 1
  funext l k
  unfold chordOld oldHalf oldMid oldP sq
  cases k with
  | zero => simp
  | succ k =>
    have e3 : l + 1 + k = l + (k + 1) := by omega
    simp [e3]

/-- the slices combined element-wise in `compute_path_length_old` have equal lengths (what numpy requires; hence no
    length-1 slice is silently broadcast) -/
theorem src_compute_path_length_old_shapes (n : Nat) (rp : α) (z dz : Nat → α) :
    Gen.SrcC03.compute_path_length_old_shapes dz n rp z := by
  unfold Gen.SrcC03.compute_path_length_old_shapes
  refine ⟨?_, ?_, ?_⟩ <;> intros <;> omega

/-! ### new path method: what is handed to the 3-D geometry -/

/-- a `(3, n)` numpy array whose columns are the vectors `f j` -/
def rows (f : Nat → Geometry.V3 α) : Nat → Nat → α :=
  fun r j => if r = 1 then (f j).y else if r = 0 then (f j).x else (f j).z

/-- `parallel_vector(R, alt, max_alt)` (for an array `alt`): column `j` of `viewer` / `tangent` is the model's
    `Geometry.parallelVector R alt[j] max_alt` — in particular the ray origin `-(R + 2·max_alt)` -/
theorem src_parallel_vector (R maxAlt : α) (alt : Nat → α) (nA : Nat) :
    Gen.SrcC03.parallel_vector R alt maxAlt nA
      = (rows (fun j => (Geometry.parallelVector R (alt j) maxAlt).1),
         rows (fun j => (Geometry.parallelVector R (alt j) maxAlt).2)) := by
  unfold Gen.SrcC03.parallel_vector rows Geometry.parallelVector
  refine Prod.ext ?_ ?_ <;> funext r j <;> by_cases h1 : r = 1 <;> by_cases h0 : r = 0 <;> simp [h1, h0]

/-- `TransmissionModel.compute_path_length`: the rows come from `planet.compute_path_length` (→
    `compute_path_length_3d`, a parameter) called with the altitude boundaries and, for tangent layer `l`, the line of
    sight `parallelVector rp (z[l] + dz[l]/2) (max of the boundaries)` — the inputs of the model's
    `Geometry.layerDists` -/
theorem src_compute_path_length (n : Nat) (rp : α) (zb z dz : Nat → α)
    (planetPaths : (Nat → α) → (Nat → Nat → α) → (Nat → Nat → α) → List (Nat → α)) :
    Gen.SrcC03.compute_path_length dz n planetPaths rp zb z
      = planetPaths zb
          (rows (fun l => (Geometry.parallelVector rp (z l + dz l / 2) (Geometry.arrMax n zb)).1))
          (rows (fun l => (Geometry.parallelVector rp (z l + dz l / 2) (Geometry.arrMax n zb)).2)) := by
  unfold Gen.SrcC03.compute_path_length
  simp only [src_parallel_vector]
  rfl

/-! ### the whole `path_integral` -/

/-- what `contrib.contribute(self, s, e, off, layer, density, tau, path_length=dl)` executes (Python's dynamic
    dispatch) for a prepared contribution of each model kind: `Contribution.contribute` (absorption, Rayleigh, hazes:
    kernel `contribute_tau`), `CIAContribution.contribute`, `SimpleCloudsContribution.contribute`; `ngrid` is the
    contributions' `self._ngrid` (= `wngrid.shape[0]`, set by `prepare`), `total` is `CIAContribution._total_cia` -/
def dispatch (ngrid total nL : Nat) (c : Contrib α) (s e off layer : Nat) (dens : Nat → α) (tau : Nat → Nat → α)
    (path : Nat → α) : Nat → Nat → α :=
  match c.kind with
  | .lin => Gen.SrcC03.contribution_contribute s e off layer dens tau path ngrid c.sigma
  | .sq => Gen.SrcC03.cia_contribute s e off layer dens tau path ngrid c.sigma total
  | .layerOnly => Gen.SrcC03.clouds_contribute layer tau nL ngrid c.sigma

/-- one dispatched call, as `path_integral` makes it: rows other than `l` are untouched, row `l` below `nwn` is
    `addContrib` -/
theorem dispatch_row (n nwn total : Nat) (ht : 0 < total) (c : Contrib α) (l : Nat) (dens path : Nat → α)
    (tau : Nat → Nat → α) :
    (∀ i j, i ≠ l → dispatch nwn total n c 0 (n - l) l l dens tau path i j = tau i j) ∧
    (∀ j < nwn, dispatch nwn total n c 0 (n - l) l l dens tau path l j = addContrib c n path dens l (tau l) j) := by
  obtain ⟨kind, sigma⟩ := c
  cases kind
  · simp only [dispatch, src_contribution_contribute, src_contribute_tau_call]
    exact ⟨fun i j hi => by simp [hi], fun j hj => by simp [hj]⟩
  · simp only [dispatch, src_cia_contribute, if_pos ht, src_contribute_cia_call]
    exact ⟨fun i j hi => by simp [hi], fun j hj => by simp [hj]⟩
  · simp only [dispatch, src_clouds_contribute n l n nwn sigma dens path]
    exact ⟨fun i j hi => by simp [hi], fun j _ => by simp⟩

/-- the loop over the contribution list (with its break) on row `l` of the table -/
theorem layer_loop (n nwn total : Nat) (ht : 0 < total) (l : Nat) (dens path : Nat → α) (cs : List (Contrib α))
    (tau : Nat → Nat → α) :
    (∀ i j, i ≠ l →
      cutLoop (fun t : Nat → Nat → α => saturated nwn (t l))
        (fun c t => dispatch nwn total n c 0 (n - l) l l dens t path) cs tau i j = tau i j) ∧
    (∀ j < nwn,
      cutLoop (fun t : Nat → Nat → α => saturated nwn (t l))
        (fun c t => dispatch nwn total n c 0 (n - l) l l dens t path) cs tau l j
        = tauCutFrom n nwn path dens l cs (tau l) j) := by
  induction cs generalizing tau with
  | nil => exact ⟨fun _ _ _ => rfl, fun _ _ => rfl⟩
  | cons c cs ih =>
    simp only [cutLoop, tauCutFrom]
    cases hs : saturated nwn (tau l)
    · simp only [Bool.false_eq_true, if_false]
      have hd := dispatch_row n nwn total ht c l dens path tau
      have h := ih (dispatch nwn total n c 0 (n - l) l l dens tau path)
      refine ⟨fun i j hi => ?_, fun j hj => ?_⟩
      · rw [h.1 i j hi, hd.1 i j hi]
      · rw [h.2 j hj]
        exact tauCutFrom_congr n nwn path dens l cs _ _ hd.2 j hj
    · simp only [if_true]
      exact ⟨fun _ _ _ => trivial, fun _ _ => trivial⟩

/-- **`path_integral`, optical depth part**: for whatever list of chord rows `paths` the code computed, entry
    `(l, wn)` of the returned `exp(-tau)` is the transmittance of the model's loop with the early exit, `tauCut`, and the
    returned absorption is `depth` of these.  (`0 < total`: a CIA contribution, if present, has at least one pair.) -/
theorem src_path_integral (n nwn total : Nat) (ht : 0 < total) (rp rs : α) (z dz dens : Nat → α)
    (zb : Nat → α) (cs : List (Contrib α)) (newMethod : Bool)
    (planetPaths : (Nat → α) → (Nat → Nat → α) → (Nat → Nat → α) → List (Nat → α)) :
    let paths := if newMethod then Gen.SrcC03.compute_path_length dz n planetPaths rp zb z
      else Gen.SrcC03.compute_path_length_old dz n rp z
    let r := Gen.SrcC03.path_integral nwn cs (dispatch nwn total n) dz dens n newMethod planetPaths rp rs zb z
    (∀ l < n, ∀ wn < nwn,
        r.2 l wn = trans (tauCut n nwn (paths.getD l (fun _ => 0)) dens l cs wn)) ∧
    (∀ wn < nwn,
        r.1 wn = depth rp rs n z dz (fun l => trans (tauCut n nwn (paths.getD l (fun _ => 0)) dens l cs wn))) := by
  intro paths r
  -- the table after the loop over the layers
  have key : ∀ l wn, l < n → wn < nwn →
      (List.range' 0 n).foldl (fun (T : Nat → Nat → α) (l : Nat) =>
          cutLoop (fun t : Nat → Nat → α => saturated nwn (t l))
            (fun c t => dispatch nwn total n c 0 (n - l) l l dens t (paths.getD l (fun _ => 0))) cs T)
        (fun _ _ => (0 : α)) l wn
      = tauCut n nwn (paths.getD l (fun _ => 0)) dens l cs wn := by
    intro l wn hl hwn
    refine ((fold_layers n nwn _ (fun _ _ => (0 : α))
      (fun l wn => tauCut n nwn (paths.getD l (fun _ => 0)) dens l cs wn) ?_ ?_) l wn).1 hl hwn
    · intro l T i j hi
      exact (layer_loop n nwn total ht l dens _ cs T).1 i j hi
    · intro l T hT j hj
      rw [(layer_loop n nwn total ht l dens _ cs T).2 j hj]
      unfold tauCut
      exact tauCutFrom_congr n nwn _ dens l cs _ _ (fun w _ => hT w) j hj
  have hr : r = Gen.SrcC03.compute_absorption
      ((List.range' 0 n).foldl (fun (T : Nat → Nat → α) (l : Nat) =>
          cutLoop (fun t : Nat → Nat → α => saturated nwn (t l))
            (fun c t => dispatch nwn total n c 0 (n - l) l l dens t (paths.getD l (fun _ => 0))) cs T)
        (fun _ _ => (0 : α))) dz n nwn rp rs z := by
    show Gen.SrcC03.path_integral nwn cs (dispatch nwn total n) dz dens n newMethod planetPaths rp rs zb z = _
    unfold Gen.SrcC03.path_integral
    simp only [← foldl_break]
    cases newMethod <;> rfl
  rw [hr, src_compute_absorption]
  refine ⟨fun l hl wn hwn => ?_, fun wn hwn => ?_⟩
  · simp only [key l wn hl hwn]
  · simp only
    exact depth_congr rp rs n z dz _ _ (fun l hl => by rw [key l wn hl hwn])

end

/-! ### `model_contrib`: every contribution run alone, the results in a dict keyed by the contribution's name -/

/-- python `d[k] = v` on a dict kept in insertion order: an existing key keeps its position and gets the new value -/
def dictSet {β : Type} (d : List (String × β)) (k : String) (v : β) : List (String × β) :=
  if d.any (fun e => e.1 == k) then d.map (fun e => if e.1 == k then (k, v) else e) else d ++ [(k, v)]

/-- `for c in cs: d[key c] = val c` -/
def dictFill {ι β : Type} (key : ι → String) (val : ι → β) (cs : List ι) (d : List (String × β)) : List (String × β) :=
  cs.foldl (fun d c => dictSet d (key c) (val c)) d

theorem dictSet_keys_of_mem {β : Type} (d : List (String × β)) (k : String) (v : β) (h : k ∈ d.map (·.1)) :
    (dictSet d k v).map (·.1) = d.map (·.1) := by
  have hany : d.any (fun e => e.1 == k) = true := by
    obtain ⟨e, he, hk⟩ := List.mem_map.1 h
    exact List.any_eq_true.2 ⟨e, he, by simp [hk]⟩
  unfold dictSet
  rw [if_pos hany, List.map_map]
  apply List.map_congr_left
  intro e _
  by_cases hk : e.1 == k
  · simp only [Function.comp, hk, if_true]; exact (beq_iff_eq.1 hk).symm
  · simp [Function.comp, hk]

theorem dictSet_of_not_mem {β : Type} (d : List (String × β)) (k : String) (v : β) (h : k ∉ d.map (·.1)) :
    dictSet d k v = d ++ [(k, v)] := by
  have hany : ¬ d.any (fun e => e.1 == k) = true := by
    intro ht
    obtain ⟨e, he, hk⟩ := List.any_eq_true.1 ht
    exact h (List.mem_map.2 ⟨e, he, beq_iff_eq.1 hk⟩)
  unfold dictSet
  rw [if_neg hany]

/-- distinct names: the dict has one entry per contribution, in order -/
theorem dictFill_nodup {ι β : Type} (key : ι → String) (val : ι → β) (cs : List ι) (d : List (String × β))
    (hnd : (d.map (·.1) ++ cs.map key).Nodup) :
    dictFill key val cs d = d ++ cs.map (fun c => (key c, val c)) := by
  induction cs generalizing d with
  | nil => simp [dictFill]
  | cons c cs ih =>
    have hc : key c ∉ d.map (·.1) := by
      intro hmem
      have := (List.nodup_append.1 hnd).2.2 _ hmem (key c) (by simp)
      exact this rfl
    unfold dictFill
    rw [List.foldl_cons, dictSet_of_not_mem d (key c) (val c) hc]
    have := ih (d ++ [(key c, val c)]) (by simpa [List.append_assoc] using hnd)
    unfold dictFill at this
    rw [this]
    simp

/-- a name that occurs twice (or is already in the dict) costs an entry: the dict ends up with fewer entries than there
    were contributions (K4: `FlatMieContribution` and `LeeMieContribution` are both called 'Mie') -/
theorem dictFill_length_lt {ι β : Type} (key : ι → String) (val : ι → β) (cs : List ι) (d : List (String × β))
    (hbad : ¬ (d.map (·.1) ++ cs.map key).Nodup) (hd : (d.map (·.1)).Nodup) :
    (dictFill key val cs d).length < d.length + cs.length := by
  have hle : ∀ (cs : List ι) (d : List (String × β)), (dictFill key val cs d).length ≤ d.length + cs.length := by
    intro cs
    induction cs with
    | nil => intro d; simp [dictFill]
    | cons c cs ih =>
      intro d
      have h := ih (dictSet d (key c) (val c))
      have hl : (dictSet d (key c) (val c)).length ≤ d.length + 1 := by
        unfold dictSet; split <;> simp
      unfold dictFill at h ⊢
      rw [List.foldl_cons, List.length_cons]
      omega
  induction cs generalizing d with
  | nil => simp at hbad; exact absurd hd hbad
  | cons c cs ih =>
    unfold dictFill
    rw [List.foldl_cons, List.length_cons]
    by_cases hc : key c ∈ d.map (·.1)
    · have hl : (dictSet d (key c) (val c)).length = d.length := by
        have := congrArg List.length (dictSet_keys_of_mem d (key c) (val c) hc)
        simpa using this
      have := hle cs (dictSet d (key c) (val c))
      unfold dictFill at this
      omega
    · rw [dictSet_of_not_mem d (key c) (val c) hc]
      have hd' : ((d ++ [(key c, val c)]).map (·.1)).Nodup := by
        rw [List.map_append, List.nodup_append]
        refine ⟨hd, by simp, ?_⟩
        intro a ha b hb
        simp at hb
        subst hb
        intro hab; subst hab; exact hc ha
      have := ih (d ++ [(key c, val c)]) (by simpa [List.append_assoc] using hbad) hd'
      unfold dictFill at this
      simp at this ⊢
      omega

section
variable {α : Type} [Add α] [Sub α] [Mul α] [Div α] [Neg α] [LT α] [LE α]
  [DecidableLT α] [DecidableLE α] [OfNat α 0] [OfNat α 1] [OfNat α 2] [OfNat α 10] [Transc α]

/-- `SimpleForwardModel.model_contrib()` (no `wngrid`): the native grid, and the dict filled by running the regenerated
    `path_integral` on `[prepare c]` for every contribution `c` in turn, under the key `name (prepare c)` -/
theorem src_model_contrib {ι : Type} (cs : List ι)
    (contribute : ι → Nat → Nat → Nat → Nat → (Nat → α) → (Nat → Nat → α) → (Nat → α) → (Nat → Nat → α))
    (dz dens : Nat → α) (n nW : Nat) (name : ι → String) (grid : Nat → α) (newMethod : Bool)
    (planetPaths : (Nat → α) → (Nat → Nat → α) → (Nat → Nat → α) → List (Nat → α)) (prepare : ι → ι) (rp rs : α)
    (zb z : Nat → α) :
    Gen.SrcC03.model_contrib cs contribute dz dens n nW name grid newMethod planetPaths prepare rp rs zb z
      = (grid, dictFill (fun c => name (prepare c))
          (fun c => Gen.SrcC03.path_integral nW [prepare c] contribute dz dens n newMethod planetPaths rp rs zb z) cs []) :=
  rfl
end

/-! ### `model_full_contrib`: every COMPONENT of every contribution run alone, the generator protocol explicit -/

/-- `for g in gs: xs.append(f g)` -/
theorem foldl_append_map {β γ : Type} (f : β → γ) (l : List β) (init : List γ) :
    l.foldl (fun acc g => acc ++ [f g]) init = init ++ l.map f := by
  induction l generalizing init with
  | nil => simp
  | cons x t ih => simp [ih]

section
variable {α : Type} [Add α] [Sub α] [Mul α] [Div α] [Neg α] [LT α] [LE α]
  [DecidableLT α] [DecidableLE α] [OfNat α 0] [OfNat α 1] [OfNat α 2] [OfNat α 10] [Transc α]

/-- what the suspended `CIAContribution.prepare_each` has published in `self.sigma_xsec` at each yield IS the yielded
    component -/
theorem src_cia_published {ι : Type} (nL nW : Nat) (T : Nat → α) (ciaXsec : ι → α → Nat → α)
    (mixOne mixTwo : ι → Nat → α) (pairs : List ι) :
    Gen.SrcC03.cia_prepare_each_published nW T ciaXsec mixOne mixTwo nL pairs
      = Gen.SrcC03.cia_prepare_each nW T ciaXsec mixOne mixTwo nL pairs := rfl

theorem src_rayleigh_published {ι : Type} (nL nW : Nat) (law : ι → Nat → α) (lawDefined : ι → Bool)
    (mix : ι → Nat → α) (molecules : List ι) :
    Gen.SrcC03.rayleigh_prepare_each_published nW law lawDefined mix molecules nL
      = Gen.SrcC03.rayleigh_prepare_each nW law lawDefined mix molecules nL := rfl

theorem src_absorption_published {ι : Type} (nlayers nW : Nat) (T P : Nat → α) (opacity : ι → α → α → Nat → α)
    (mix : ι → Nat → α) (gases : List ι) :
    Gen.SrcC03.absorption_prepare_each_published nW P T gases mix nlayers opacity
      = Gen.SrcC03.absorption_prepare_each nW P T gases mix nlayers opacity := rfl

theorem src_absorption_published_shapes {ι : Type} (nlayers nW : Nat) (T P : Nat → α)
    (opacity : ι → α → α → Nat → α) (mix : ι → Nat → α) (gases : List ι) :
    Gen.SrcC03.absorption_prepare_each_published_shapes nW P T gases mix nlayers opacity :=
  src_absorption_prepare_each_shapes nlayers nW T P opacity mix gases

section
variable [OfNat α 4] [OfNat α 5] [OfNat α 10000]

/-- the cloud deck and the two hazes (one component each): what each suspended `prepare_each` has published in
    `self.sigma_xsec` at its yield IS the yielded component.  (On the pinned tree `SimpleCloudsContribution.prepare_each` stored
    its deck in `self._contrib` only, so the component route integrated the `sigma_xsec` of the last `prepare()`; repaired in
    /repo — DESIGN §6 — and since then this statement is translatable at all.) -/
theorem src_clouds_published (nL nW : Nat) (P : Nat → α) (p0 inf : α) :
    Gen.SrcC03.clouds_prepare_each_published nW P inf nL p0 = Gen.SrcC03.clouds_prepare_each nW P inf nL p0 := rfl

theorem src_lee_published (n nW : Nat) (P wnv : Nat → α) (bottomRaw topRaw pi a q mix c1 c2 : α) (pw : α → α → α) :
    Gen.SrcC03.lee_prepare_each_published wnv nW P (a := a) (bottomRaw := bottomRaw) (c0p2 := c1) (c1em06 := c2)
        (mix := mix) (nL := n) (pi := pi) (powf := pw) (q := q) (topRaw := topRaw)
      = Gen.SrcC03.lee_prepare_each wnv nW P (a := a) (bottomRaw := bottomRaw) (c0p2 := c1) (c1em06 := c2)
        (mix := mix) (nL := n) (pi := pi) (powf := pw) (q := q) (topRaw := topRaw) := rfl

theorem src_flat_published (n nW : Nat) (plev : Nat → α) (bottomRaw topRaw mix : α) :
    Gen.SrcC03.flat_prepare_each_published nW bottomRaw mix n plev topRaw
      = Gen.SrcC03.flat_prepare_each nW bottomRaw mix n plev topRaw := rfl

/-- … and these are the definitions the C19 ties are about (the same source text, regenerated for both properties): the
    theorems of `Props/C19Src.lean` (`src_clouds_prepare_each`, `src_lee_prepare_each`, `src_flat_prepare_each`: equal to
    `Haze.cloudSigma` / `leeSigma` / `flatSigma`) therefore describe the published components too -/
theorem src_clouds_same_as_c19 (nL nW : Nat) (P : Nat → α) (p0 inf : α) :
    Gen.SrcC03.clouds_prepare_each nW P inf nL p0 = Gen.SrcC19.clouds_prepare_each nW P inf nL p0 := rfl

theorem src_lee_same_as_c19 (n nW : Nat) (P wnv : Nat → α) (bottomRaw topRaw pi a q mix c1 c2 : α) (pw : α → α → α) :
    Gen.SrcC03.lee_prepare_each wnv nW P (a := a) (bottomRaw := bottomRaw) (c0p2 := c1) (c1em06 := c2)
        (mix := mix) (nL := n) (pi := pi) (powf := pw) (q := q) (topRaw := topRaw)
      = Gen.SrcC19.lee_prepare_each wnv nW P (a := a) (bottomRaw := bottomRaw) (c0p2 := c1) (c1em06 := c2)
        (mix := mix) (nL := n) (pi := pi) (powf := pw) (q := q) (topRaw := topRaw) := rfl

theorem src_flat_same_as_c19 (n nW : Nat) (plev : Nat → α) (bottomRaw topRaw mix : α) :
    Gen.SrcC03.flat_prepare_each nW bottomRaw mix n plev topRaw
      = Gen.SrcC19.flat_prepare_each nW bottomRaw mix n plev topRaw := rfl

end

/-- `SimpleForwardModel.model_full_contrib()` (no `wngrid`): the native grid, and the dict that holds, under `contrib.name`
    (read before the generator is created), one record per element of `contrib.prepare_each(…)`: the yielded name and what
    the regenerated `path_integral` returns for the one-element list holding THE STATE THE CONTRIBUTION IS IN AT THAT YIELD
    (`prepareEach c` lists the (yielded name, state at the yield) pairs: the generator is suspended while `path_integral`
    runs, so `contrib.contribute` reads the `sigma_xsec` published before that yield) -/
theorem src_model_full_contrib {ι : Type} (cs : List ι)
    (contribute : ι → Nat → Nat → Nat → Nat → (Nat → α) → (Nat → Nat → α) → (Nat → α) → (Nat → Nat → α))
    (dz dens : Nat → α) (n nW : Nat) (cname : ι → String) (grid : Nat → α) (newMethod : Bool)
    (planetPaths : (Nat → α) → (Nat → Nat → α) → (Nat → Nat → α) → List (Nat → α))
    (prepareEach : ι → List (String × ι)) (rp rs : α) (zb z : Nat → α) :
    Gen.SrcC03.model_full_contrib cname cs contribute dz dens n nW grid newMethod planetPaths prepareEach rp rs zb z
      = (grid, dictFill cname (fun c => (prepareEach c).map (fun g =>
          (g.1, Gen.SrcC03.path_integral nW [g.2] contribute dz dens n newMethod planetPaths rp rs zb z))) cs []) := by
  have h : ∀ c, (prepareEach c).map (fun g =>
        (g.1, Gen.SrcC03.path_integral nW [g.2] contribute dz dens n newMethod planetPaths rp rs zb z))
      = (prepareEach c).foldl (fun acc g => acc ++ [(g.1,
          Gen.SrcC03.path_integral nW [g.2] contribute dz dens n newMethod planetPaths rp rs zb z)]) [] := fun c => by
    rw [foldl_append_map]; rfl
  unfold dictFill dictSet
  simp only [h]
  rfl
end

end Taurex.C03Src
