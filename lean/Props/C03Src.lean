/-
  C03 — source tie.  `TaurexModel/Gen/SrcC03.lean` is regenerated on every run by `harness/translate.py` (dialect
  `shaped`, harness/translate_shaped.py) from the source text of
      taurex/contributions/contribution.py   Contribution.prepare, contribute_tau
      taurex/contributions/cia.py            CIAContribution.prepare_each, contribute_cia, CIAContribution.contribute
      taurex/contributions/rayleigh.py       RayleighContribution.prepare_each
      taurex/contributions/absorption.py     AbsorptionContribution.prepare_each (cross-section mode), .prepare
  The theorems state, for EVERY carrier (induction over the loops, no algebra), that each regenerated definition is the
  model function of `TaurexModel/Sigma.lean` / `TaurexModel/Transmission.lean` that the C03 theorems are about and
  `driver_c03` executes.

  Generators.  `prepare_each` is a generator that re-uses ONE buffer for all its components; the translation returns the
  list of the yielded arrays, each as it is at the time of its `yield` (what `Contribution.prepare`, `model_full_contrib`
  and `store_contributions` read before they resume the generator).  Objects the code only looks things up in (the CIA
  cache, the chemistry, the Rayleigh tables) are parameters: `mixOne p`, `mixTwo p` the mixing-ratio profiles of the two
  partners of pair `p`, `ciaXsec p T` the pair's cross-section at temperature `T`, `law g` / `lawDefined g` the Rayleigh
  cross-section of molecule `g` and whether `rayleigh_sigma_from_name` knows it, `mix g` its mixing-ratio profile.
-/
import TaurexModel.Gen.SrcC03
import TaurexModel.Sigma
import TaurexModel.Transmission
import Proofs.C01SrcLemmas
set_option linter.unusedSectionVars false

namespace Taurex.C03Src
open Taurex.Sigma Taurex.Transmission Taurex.C01Src

section
variable {α : Type} [Add α] [Sub α] [Mul α] [Div α] [Neg α] [LT α] [LE α]
  [DecidableLT α] [DecidableLE α] [OfNat α 0] [OfNat α 1] [OfNat α 2] [OfNat α 10] [Transc α]

/-! ### components summed into one `sigma_xsec` -/

/-- a fold of whole tables is the table of the element-wise folds -/
theorem foldl_tables (comps : List (Nat → Nat → α)) (init : Nat → Nat → α) :
    comps.foldl (fun (S : Nat → Nat → α) c => fun i j => S i j + c i j) init
      = fun i j => comps.foldl (fun a c => a + c i j) (init i j) := by
  induction comps generalizing init with
  | nil => rfl
  | cons c cs ih => simp only [List.foldl_cons]; rw [ih]

/-- `Contribution.prepare`: `sigma_xsec = zeros; for name, component in prepare_each(…): sigma_xsec += component` — the
    stored `self.sigma_xsec` is `sumComps` of the yielded components (as whole tables) -/
theorem src_contribution_prepare (nL nW : Nat) (comps : List (Nat → Nat → α)) :
    Gen.SrcC03.contribution_prepare nW comps nL = sumComps comps := by
  unfold Gen.SrcC03.contribution_prepare sumComps
  exact foldl_tables comps _

/-! ### collision-induced absorption: one component per pair -/

/-- `for i in range(n): S[i] += f i` on a table -/
theorem fold_rows_add (n : Nat) (f : Nat → Nat → α) (init : Nat → Nat → α) :
    (List.range' 0 n).foldl (fun (S : Nat → Nat → α) idx => fun i j => if i = idx then S idx j + f idx j else S i j) init
      = fun i j => if i < n then init i j + f i j else init i j := by
  induction n with
  | zero => funext i j; simp
  | succ n ih =>
    rw [List.range'_1_concat, List.foldl_append, ih]
    funext i j
    simp only [List.foldl_cons, List.foldl_nil, Nat.zero_add]
    by_cases h : i = n
    · subst h; simp
    · by_cases h2 : i < n
      · have : i < n + 1 := by omega
        simp [h, h2, this]
      · have : ¬ i < n + 1 := by omega
        simp [h, h2, this]

/-- a generator loop that re-initialises its buffer for every element: the yielded list -/
theorem foldl_yield {ι β : Type} (g : ι → β) (xs : List ι) (b0 : β) (ys : List β) :
    (xs.foldl (fun (st : β × List β) x => (g x, st.2 ++ [g x])) (b0, ys)).2 = ys ++ xs.map g := by
  induction xs generalizing b0 ys with
  | nil => simp
  | cons x xs ih => simp only [List.foldl_cons, List.map_cons]; rw [ih]; simp

/-- `CIAContribution.prepare_each`: for each pair the (zeroed) buffer receives, layer by layer,
    `cia(T_l, wngrid) * (mix(pairOne) * mix(pairTwo))[l]` — the component `compCIA` on the `nL` layers -/
theorem src_cia_prepare_each {ι : Type} (nL nW : Nat) (T : Nat → α) (ciaXsec : ι → α → Nat → α)
    (mixOne mixTwo : ι → Nat → α) (pairs : List ι) :
    Gen.SrcC03.cia_prepare_each nW T ciaXsec mixOne mixTwo nL pairs
      = pairs.map (fun p => fun l wn =>
          if l < nL then compCIA (fun l wn => ciaXsec p (T l) wn) (mixOne p) (mixTwo p) l wn else 0) := by
  unfold Gen.SrcC03.cia_prepare_each compCIA
  simp only [fold_rows_add]
  exact (foldl_yield _ pairs _ []).trans (List.nil_append _)

/-! ### Rayleigh scattering: one component per molecule that has abundance and a law -/

theorem foldl_yield_filter {ι β : Type} (skip keep : ι → Bool) (h : ι → β) (xs : List ι) (ys : List β) :
    xs.foldl (fun (ys : List β) x => if skip x then ys else (if keep x then ys ++ [h x] else ys)) ys
      = ys ++ (xs.filter (fun x => !skip x && keep x)).map h := by
  induction xs generalizing ys with
  | nil => simp
  | cons x xs ih =>
    simp only [List.foldl_cons]
    rw [ih]
    cases hs : skip x <;> cases hk : keep x <;> simp [hs, hk]

/-- the code's `np.max(mix) == 0.0` (IEEE equality of the fold of `max`) -/
def zeroAbundance (nL : Nat) (mix : Nat → α) : Bool :=
  let m := (List.range (nL - 1)).foldl (fun acc s => if acc < mix (s + 1) then mix (s + 1) else acc) (mix 0)
  decide (m ≤ 0) && decide (0 ≤ m)

/-- `RayleighContribution.prepare_each`: the molecules whose largest mixing ratio is not `== 0.0` and for which
    `rayleigh_sigma_from_name` has a law each yield `sigma[None, :] * mix[:, None]` = `compScaled` -/
theorem src_rayleigh_prepare_each {ι : Type} (nL nW : Nat) (law : ι → Nat → α) (lawDefined : ι → Bool)
    (mix : ι → Nat → α) (molecules : List ι) :
    Gen.SrcC03.rayleigh_prepare_each nW law lawDefined mix molecules nL
      = (molecules.filter (fun g => !zeroAbundance nL (mix g) && lawDefined g)).map
          (fun g => compScaled (law g) (mix g)) := by
  unfold Gen.SrcC03.rayleigh_prepare_each
  exact (foldl_yield_filter (fun g => zeroAbundance nL (mix g)) lawDefined
    (fun g => compScaled (law g) (mix g)) molecules []).trans (List.nil_append _)

/-! ### molecular absorption (cross-section mode): one component per active gas -/

/-- a generator loop whose every iteration appends `g x`, whatever else its state carries -/
theorem foldl_yield_any {ι β σ : Type} (g : ι → β) (F : σ × List β → ι → σ × List β)
    (hF : ∀ st x, (F st x).2 = st.2 ++ [g x]) (xs : List ι) (st : σ × List β) :
    (xs.foldl F st).2 = st.2 ++ xs.map g := by
  induction xs generalizing st with
  | nil => simp
  | cons x xs ih => simp only [List.foldl_cons, List.map_cons]; rw [ih, hF]; simp

/-- `AbsorptionContribution.prepare_each` with `opacity_method` ≠ 'ktables' (the spec's static assumption
    `self._use_ktables = False`): for each active gas the buffer — allocated for the first gas, zeroed in place for the
    later ones — receives, layer by layer, `opacity(T_l, P_l, wngrid) * gas_mix[l]`: the component `compAbs` on the
    `nlayers` layers -/
theorem src_absorption_prepare_each {ι : Type} (nlayers nW : Nat) (T P : Nat → α) (opacity : ι → α → α → Nat → α)
    (mix : ι → Nat → α) (gases : List ι) :
    Gen.SrcC03.absorption_prepare_each nW P T gases mix nlayers opacity
      = gases.map (fun g => fun l wn =>
          if l < nlayers then compAbs (fun l wn => opacity g (T l) (P l) wn) (mix g) l wn else 0) := by
  unfold Gen.SrcC03.absorption_prepare_each compAbs
  refine (foldl_yield_any _ _ ?_ gases _).trans (List.nil_append _)
  intro st g
  obtain ⟨o, ys⟩ := st
  cases o <;> simp only [fold_rows_add]

/-- the row stored per layer has the length of the buffer's wavenumber axis -/
theorem src_absorption_prepare_each_shapes {ι : Type} (nlayers nW : Nat) (T P : Nat → α)
    (opacity : ι → α → α → Nat → α) (mix : ι → Nat → α) (gases : List ι) :
    Gen.SrcC03.absorption_prepare_each_shapes nW P T gases mix nlayers opacity := by
  unfold Gen.SrcC03.absorption_prepare_each_shapes
  intros; rfl

/-- the part of `AbsorptionContribution.prepare` after the first component -/
theorem foldl_tables_some (comps : List (Nat → Nat → α)) (S : Nat → Nat → α) :
    comps.foldl (fun (o : Option (Nat → Nat → α)) c =>
        some (fun i j => (match o with | none => fun _ _ => (0 : α) | some S => S) i j + c i j)) (some S)
      = some (fun i j => comps.foldl (fun a c => a + c i j) (S i j)) := by
  induction comps generalizing S with
  | nil => rfl
  | cons c cs ih => simp only [List.foldl_cons]; rw [ih]

/-- `AbsorptionContribution.prepare`: `None` when `prepare_each` yields nothing, otherwise `zeros_like(first)` plus all
    components in order = `sumComps` -/
theorem src_absorption_prepare (nL nW : Nat) (comps : List (Nat → Nat → α)) :
    Gen.SrcC03.absorption_prepare nW comps nL = if comps = [] then none else some (sumComps comps) := by
  unfold Gen.SrcC03.absorption_prepare sumComps
  cases comps with
  | nil => rfl
  | cons c cs =>
    simp only [List.foldl_cons, reduceCtorEq, if_false]
    exact foldl_tables_some cs _

/-! ### from `sigma_xsec` to optical depth: the kernels -/

theorem src_contribute_tau (s e off : Nat) (sigma : Nat → Nat → α) (dens path : Nat → α) (ngrid l : Nat)
    (tau : Nat → Nat → α) :
    Gen.SrcC03.contribute_tau s e off sigma dens path ngrid l tau
      = fun i j => if i = l ∧ j < ngrid then
          (List.range' s (e - s)).foldl (fun acc k => acc + sigma (k + l) j * path k * dens (k + off)) (tau l j)
        else tau i j :=
  fold_kernel l ngrid s (e - s) (fun k wn => sigma (k + l) wn * path k * dens (k + off)) tau

/-- `contribute_cia`: density squared -/
theorem src_contribute_cia (s e off : Nat) (sigma : Nat → Nat → α) (dens path : Nat → α) (ngrid l : Nat)
    (tau : Nat → Nat → α) :
    Gen.SrcC03.contribute_cia s e off sigma dens path ngrid l tau
      = fun i j => if i = l ∧ j < ngrid then
          (List.range' s (e - s)).foldl
            (fun acc k => acc + sigma (k + l) j * path k * dens (k + off) * dens (k + off)) (tau l j)
        else tau i j :=
  fold_kernel l ngrid s (e - s) (fun k wn => sigma (k + l) wn * path k * dens (k + off) * dens (k + off)) tau

/-- as `path_integral` calls them: the new row of `tau` is `addContrib` of kind `lin` / `sq` (what `tauFull` sums) -/
theorem src_contribute_tau_call (n l ngrid : Nat) (sigma : Nat → Nat → α) (dens path : Nat → α) (tau : Nat → Nat → α) :
    Gen.SrcC03.contribute_tau 0 (n - l) l sigma dens path ngrid l tau
      = fun i j => if i = l ∧ j < ngrid then addContrib ⟨.lin, sigma⟩ n path dens l (tau l) j else tau i j := by
  rw [src_contribute_tau]
  simp only [addContrib, accFrom, nTerms, term, Nat.sub_zero, List.range_eq_range']

theorem src_contribute_cia_call (n l ngrid : Nat) (sigma : Nat → Nat → α) (dens path : Nat → α) (tau : Nat → Nat → α) :
    Gen.SrcC03.contribute_cia 0 (n - l) l sigma dens path ngrid l tau
      = fun i j => if i = l ∧ j < ngrid then addContrib ⟨.sq, sigma⟩ n path dens l (tau l) j else tau i j := by
  rw [src_contribute_cia]
  simp only [addContrib, accFrom, nTerms, term, Nat.sub_zero, List.range_eq_range']

/-- `CIAContribution.contribute`: the kernel runs iff there is at least one pair -/
theorem src_cia_contribute (s e off l : Nat) (dens path : Nat → α) (tau sigma : Nat → Nat → α) (ngrid total : Nat) :
    Gen.SrcC03.cia_contribute s e off l dens tau path ngrid sigma total
      = if 0 < total then Gen.SrcC03.contribute_cia s e off sigma dens path ngrid l tau else tau := by
  unfold Gen.SrcC03.cia_contribute
  by_cases h : 0 < total <;> simp [h]

end

end Taurex.C03Src
