/-
  C14 — opacity / CIA / k-table files of every supported format load to the same physical table; the cache serves
  one object per molecule, loaded once; interpolation-mode changes take effect.
  Every theorem is about the definitions the driver `driver_c14` executes
  (TaurexModel/Loaders.lean, Sanitize.lean, CacheSM.lean — `step` for the cross-section cache, `stepK` for the k-table
  cache, `CiaSM.step` for the CIA cache).  `K` is an arbitrary linearly ordered field (ℚ, ℝ, …).
-/
import Proofs.C14Cache
import Proofs.C14Sanitize
import Proofs.C14Loaders
import Proofs.C14Unified
import Proofs.C14KCia
import Proofs.C14Conf

namespace Taurex.C14
open Taurex.Loaders Taurex.Sanitize Taurex.CacheSM

variable {K : Type} [Field K] [LinearOrder K] [IsStrictOrderedRing K]

/-! ## formats: `dec (enc t) = t` -/

/-- pickle cross-sections: pressures written in bar come back in Pa, everything else as stored -/
theorem dec_enc_pickle (tab : XTab K) : decPickle (encPickle tab) = tab := by
  cases tab
  simp only [decPickle, encPickle, map_div_mul _ (show (100000 : K) ≠ 0 by norm_num)]

/-- the 2×2×3 table used for the non-vacuity examples -/
def exTab : XTab ℚ := ⟨[1, 2, 3], [100, 200], [10, 1000], [[[1, 2, 3], [4, 5, 6]], [[7, 8, 9], [10, 11, 0]]]⟩

example : decPickle (encPickle exTab) = exTab ∧ (encPickle exTab).p = [1/10000, 1/100] := by decide +kernel

/-- HDF5 cross-sections with any pressure unit the reader converts (`Pa bar mbar hPa kPa MPa Torr Ba`, and `atm`,
    `mmHg` through the CDS parser): the declared unit is undone exactly -/
theorem dec_enc_hdf (tab : XTab K) (units name : String) (c : K) (hu : unitFactor true units = some c) :
    decHdf (encHdf units c name tab) = some tab := by
  cases tab
  simp [decHdf, encHdf, hu, map_div_mul _ (unitFactor_ne_zero hu)]

example : unitFactor (α := ℚ) true "atm" = some 101325 ∧ unitFactor (α := ℚ) true "bar" = some 100000 ∧
    decHdf (encHdf "atm" 101325 "H2O" exTab) = some exTab := by decide +kernel

/-- the CIA pickle container stores the table as it is -/
theorem dec_enc_pickleC {α : Type} (tab : CTab α) : decPickleC (encPickleC tab) = tab := rfl

/-- pickle k-tables -/
theorem dec_enc_pickleK (tab : KTab K) (name : String) : decPickleK (encPickleK name tab) = tab := by
  cases tab
  simp only [decPickleK, encPickleK, map_div_mul _ (show (100000 : K) ≠ 0 by norm_num)]

/-- HDF5 k-tables -/
theorem dec_enc_hdfK (tab : KTab K) (units : String) (c : K) (hu : unitFactor true units = some c) :
    decHdfK (encHdfK units c tab) = some tab := by
  cases tab
  simp [decHdfK, encHdfK, hu, map_div_mul _ (unitFactor_ne_zero hu)]

def exKTab : KTab ℚ := ⟨[1, 2], [100, 200], [10, 1000],
  [[[[1, 2], [3, 4]], [[4, 5], [6, 7]]], [[[7, 8], [8, 9]], [[10, 11], [11, 12]]]], [1/4, 3/4]⟩

example : decHdfK (encHdfK "atm" 101325 exKTab) = some exKTab ∧ decPickleK (encPickleK "H2O" exKTab) = exKTab := by
  decide +kernel

/-! ## Exo-Transmit -/

/-- Exo-Transmit text (wavelengths in m ascending, rows `P(bar) xsec(T)…` in m²) decodes to the table it was written
    from, every entry `v` coming back as `(v/10000 + tiny)·10000` (`tiny` = the reader's `1e-60`): wavenumbers
    re-sorted ascending with the table permuted alike, pressures in Pa.  `hpos` guards the reader's division by the
    wavelength (Mathlib's `x/0 = 0` would not need it). -/
theorem dec_enc_exo (tiny : K) (tab : XTab K) (hwf : tab.WF) (ht : tab.t ≠ [])
    (hwn : tab.wn.Pairwise (· < ·)) (_hpos : ∀ w ∈ tab.wn, 0 < w) :
    decExo tiny (encExo tab) =
      { wn := tab.wn, t := tab.t, p := tab.p,
        x := tab.x.map fun row => row.map fun col => col.map (exoShift tiny) } :=
  decExo_encExo tiny tab hwf ht hwn

/-- without the `1e-60` the round trip is exact -/
theorem dec_enc_exo_exact (tab : XTab K) (hwf : tab.WF) (ht : tab.t ≠ [])
    (hwn : tab.wn.Pairwise (· < ·)) (hpos : ∀ w ∈ tab.wn, 0 < w) : decExo 0 (encExo tab) = tab := by
  rw [dec_enc_exo 0 tab hwf ht hwn hpos]
  have hid : exoShift (0 : K) = id := by
    funext v
    simp only [exoShift, add_zero, id]
    exact div_mul_cancel₀ v (by norm_num)
  cases tab
  simp [hid]

/-- non-vacuity: the 2×2×3 example table satisfies the hypotheses (so it round-trips), and its file begins with
    the block of the largest wavenumber -/
example : exTab.WF ∧ exTab.t ≠ [] ∧ exTab.wn.Pairwise (· < ·) ∧ (∀ w ∈ exTab.wn, 0 < w) ∧
    decExo 0 (encExo exTab) = exTab ∧
    (encExo exTab).body.take 4 = [[1/300], [1/10000, 3/10000, 6/10000], [1/100, 9/10000, 0], [1/200]] := by
  have h1 : exTab.WF := ⟨by decide +kernel, by decide +kernel⟩
  have h2 : exTab.t ≠ [] := by decide +kernel
  have h3 : exTab.wn.Pairwise (· < ·) := by decide +kernel
  have h4 : ∀ w ∈ exTab.wn, 0 < w := by decide +kernel
  exact ⟨h1, h2, h3, h4, dec_enc_exo_exact exTab h1 h2 h3 h4, by decide +kernel⟩

omit [IsStrictOrderedRing K] in
/-- whatever the order of the wavelength blocks in the file, the loaded wavenumber grid is ascending and is a
    permutation of the file's wavenumbers (`10000·1e-6/λ`) -/
theorem exo_sorted (tiny : K) (f : ExoFile K) :
    (decExo tiny f).wn.Pairwise (· ≤ ·) ∧
    (decExo tiny f).wn.Perm ((exoGroup f.body).map (fun b => exoWn b.1)) :=
  ⟨gather_argsort_sorted _, gather_argsort_perm _⟩

omit [IsStrictOrderedRing K] in
/-- the order of the wavelength blocks in the file is immaterial for the loaded wavenumber axis: two files whose
    blocks carry the same wavelengths in any two orders load the same grid (the sort is a real sort, not a reversal) -/
theorem exo_wn_order_invariant (tiny : K) (f g : ExoFile K)
    (h : ((exoGroup f.body).map (fun b => exoWn b.1)).Perm ((exoGroup g.body).map (fun b => exoWn b.1))) :
    (decExo tiny f).wn = (decExo tiny g).wn :=
  List.Perm.eq_of_pairwise (le := (· ≤ ·)) (fun _ _ _ _ h1 h2 => le_antisymm h1 h2)
    (exo_sorted tiny f).1 (exo_sorted tiny g).1
    ((exo_sorted tiny f).2.trans (h.trans (exo_sorted tiny g).2.symm))

omit [IsStrictOrderedRing K] in
/-- the table is permuted exactly like the wavenumber axis: with `perm` the sorting permutation of the file's
    wavenumbers, entry `k` of the loaded grid is the wavenumber of block `perm[k]`, and entry `k` of every loaded
    (P,T) column is the value read in block `perm[k]` (+`tiny`, ×10⁴) -/
theorem exo_aligned (tiny : K) (f : ExoFile K) (i j : Nat) (hi : i < f.prow.length) (hj : j < f.trow.length) :
    let blocks := exoGroup f.body
    let wn0 := blocks.map (fun b => exoWn b.1)
    (decExo tiny f).wn = (argsort wn0).map (fun k => wn0.getD k 0) ∧
    ((decExo tiny f).x.getD i []).getD j [] =
      (argsort wn0).map (fun k => ((((blocks.getD k (0, [])).2.getD i []).getD (j + 1) 0) + tiny) * 10000) := by
  refine ⟨rfl, ?_⟩
  simp [decExo, List.getD_eq_getElem?_getD, hi, hj]

/-- a file with its wavelength blocks in DEscending wavelength order (wavenumbers already ascending) -/
example : (decExo 0 (⟨[100, 200], [1/10000],
      [[1/100], [1/10000, 1/10000, 2/10000], [1/200], [1/10000, 3/10000, 4/10000]]⟩ : ExoFile ℚ)).p = [10] ∧
    exoGroup ([[1/100], [1/10000, 1/10000, 2/10000], [1/200], [1/10000, 3/10000, 4/10000]] : List (List ℚ)) =
      [(1/100, [[1/10000, 1/10000, 2/10000]]), (1/200, [[1/10000, 3/10000, 4/10000]])] := by
  decide +kernel

/-- all cross-section containers written from one table decode to that table -/
theorem formats_agree (tab : XTab K) (units name : String) (c : K) (hu : unitFactor true units = some c)
    (hwf : tab.WF) (ht : tab.t ≠ []) (hwn : tab.wn.Pairwise (· < ·)) (hpos : ∀ w ∈ tab.wn, 0 < w) :
    decHdf (encHdf units c name tab) = some (decPickle (encPickle tab)) ∧
    decExo 0 (encExo tab) = decPickle (encPickle tab) ∧ decPickle (encPickle tab) = tab := by
  rw [dec_enc_pickle, dec_enc_hdf tab units name c hu, dec_enc_exo_exact tab hwf ht hwn hpos]
  exact ⟨rfl, rfl, rfl⟩

/-- all k-table containers written from one table decode to that table -/
theorem formats_agree_k (tab : KTab K) (units name : String) (c : K) (hu : unitFactor true units = some c) :
    decHdfK (encHdfK units c tab) = some (decPickleK (encPickleK name tab)) ∧ decPickleK (encPickleK name tab) = tab := by
  rw [dec_enc_pickleK, dec_enc_hdfK tab units c hu]
  exact ⟨rfl, rfl⟩

omit [IsStrictOrderedRing K] in
/-- axes oriented as in the file: temperatures as stored, pressures ×1e5, table shaped [P][T][wn] -/
theorem exo_axes (tiny : K) (f : ExoFile K) :
    (decExo tiny f).t = f.trow ∧ (decExo tiny f).p = f.prow.map (fun v => v * 100000) ∧
    (decExo tiny f).x.length = f.prow.length ∧
    (∀ row ∈ (decExo tiny f).x, row.length = f.trow.length ∧
      ∀ col ∈ row, col.length = (decExo tiny f).wn.length) := by
  refine ⟨rfl, rfl, by simp [decExo], ?_⟩
  intro row hrow
  simp only [decExo, List.mem_map, List.mem_range] at hrow
  obtain ⟨i, _, rfl⟩ := hrow
  refine ⟨by simp, ?_⟩
  intro col hcol
  simp only [List.mem_map, List.mem_range] at hcol
  obtain ⟨j, _, rfl⟩ := hcol
  simp [decExo, gather]

/-! ## HITRAN -/

omit [IsStrictOrderedRing K] in
/-- negative HITRAN entries are clipped: every value the reader stores is ≥ 0 -/
theorem hitran_clip_nonneg (s : K) : 0 ≤ clipSigma s := by
  unfold clipSigma
  simp only
  split_ifs with h
  · exact le_refl 0
  · exact not_lt.mp h

example : clipSigma (-3 : ℚ) = 0 ∧ clipSigma (20000000000 : ℚ) = 2 := by decide +kernel

/-- no negative cross-section reaches the unified table of ANY HITRAN file (any number of wavenumber ranges, any
    block order, any temperatures per range): stored values are clipped, `fill_temperature` adds zero rows outside a
    range's own temperature span and, inside it, the linear interpolation of the two rows whose temperatures bracket
    the missing one (a convex combination: `searchsorted(side='right')-1` on the sorted list brackets `t` because the
    range's minimum temperature is in the list and is ≤ t), and `compute_final_grid` only places those rows. -/
theorem hitran_nonneg (blocks : List (HBlock K)) : ∀ row ∈ (decHitran blocks).x, ∀ v ∈ row, 0 ≤ v :=
  decHitran_nonneg blocks

/-- the ingredient of `hitran_nonneg` for one filled-in temperature: between two non-negative rows whose temperatures
    bracket `t` the interpolated value is non-negative -/
theorem hitran_interp_nonneg {u v t a b : K} (hu : 0 ≤ u) (hv : 0 ≤ v) (h1 : a ≤ t) (h2 : t ≤ b) :
    0 ≤ Interp.interpLin u v t a b := interpLin_nonneg hu hv h1 h2

/-- non-vacuity: a two-range file (range 10–30 cm⁻¹ at T = 100, 200, 300 with a negative entry; range 50 cm⁻¹ only at
    T = 100 and 300, so its T = 200 row is interpolated): the reader's first stage stores what is expected -/
example :
    let blocks : List (HBlock ℚ) :=
      [⟨"H2-He", 10, 30, 100, 1, [(10, 10000000000), (30, -5)]⟩, ⟨"H2-He", 50, 50, 100, 1, [(50, 20000000000)]⟩,
       ⟨"H2-He", 10, 30, 200, 1, [(10, 30000000000), (30, 0)]⟩,
       ⟨"H2-He", 10, 30, 300, 1, [(10, 0), (30, 0)]⟩, ⟨"H2-He", 50, 50, 300, 1, [(50, 40000000000)]⟩]
    (hLoad blocks).1 = [100, 200, 300] ∧
    (hLoad blocks).2.map (fun g => (g.key, g.wn, g.ts)) =
      [((10, 30), [10, 30], [(100, [1, 0]), (200, [3, 0]), (300, [0, 0])]),
       ((50, 50), [50], [(100, [2]), (300, [4])])] ∧
    Interp.interpLin (2 : ℚ) 4 200 100 300 = 3 := by
  decide +kernel

/-- the 3-temperature, 2-wavenumber CIA table used for the non-vacuity examples -/
def exCTab : CTab ℚ := ⟨[20, 40], [200, 300, 500], [[1, 2], [3, 0], [5, 6]]⟩

/-- a HITRAN `.cia` file with ONE wavenumber range (one block per temperature, values ×1e10, strictly increasing
    temperatures, ascending wavenumbers, no negative entry) loads to the table it was written from — the same table
    the pickle `.db` form gives.  Covers the whole reader: block loop, temperature list, `fill_gaps`,
    `compute_final_grid`. -/
theorem hitran_single_range (pair : String) (tab : CTab K) (hwf : tab.WF) (ht : tab.t ≠ [])
    (hts : tab.t.Pairwise (· < ·)) (hwn : tab.wn.Pairwise (· ≤ ·)) :
    decHitran (encHitran pair tab) = decPickleC (encPickleC tab) ∧ decHitran (encHitran pair tab) = tab :=
  ⟨decHitran_encHitran pair tab hwf ht hts hwn, decHitran_encHitran pair tab hwf ht hts hwn⟩

example : exCTab.WF ∧ exCTab.t ≠ [] ∧ exCTab.t.Pairwise (· < ·) ∧ exCTab.wn.Pairwise (· ≤ ·) ∧
    decHitran (encHitran "H2-He" exCTab) = exCTab ∧
    ((encHitran "H2-He" exCTab).map (fun b => (b.wn0, b.wn1, b.temp, b.pts))).head? =
      some (20, 40, 200, [(20, 10000000000), (40, 20000000000)]) := by
  have h1 : exCTab.WF := ⟨by decide +kernel, by decide +kernel⟩
  have h2 : exCTab.t ≠ [] := by decide +kernel
  have h3 : exCTab.t.Pairwise (· < ·) := by decide +kernel
  have h4 : exCTab.wn.Pairwise (· ≤ ·) := by decide +kernel
  exact ⟨h1, h2, h3, h4, (hitran_single_range "H2-He" exCTab h1 h2 h3 h4).2, by decide +kernel⟩

/-! ## HITRAN, several wavenumber ranges: the loaded table is the documented unified table -/

/-- **hitran_unified**: for ANY HITRAN `.cia` file — any number of wavenumber ranges (blocks with the same
    `(start, end)` header form a range), each range tabulated at its own subset of temperatures, blocks in any order,
    negative entries — in which no `(range, temperature)` pair occurs twice, the table `load_hitran_file` builds
    (`decHitran`: reading loop, `fill_gaps` / `fill_temperature` on the live `Tsigma` lists, `compute_final_grid`)
    IS the documented unified table `hitranUnified` (`TaurexModel/Loaders.lean`):
    * temperature axis = the sorted union of the block temperatures (`hitran_master`);
    * the ranges are the blocks grouped by header, rows in file order (`hitran_ranges`);
    * per range and master temperature `T` the row `rangeRow`, computed from the range's OWN tabulated rows only:
      the tabulated (×1e-10, negatives → 0) row if the range has `T`, zeros if `T` lies outside the range's own
      temperature span, else the linear interpolation in `T` between the range's two tabulated rows whose
      temperatures bracket `T` (`hitran_range_row`);
    * wavenumber axis = the ranges' wavenumbers concatenated in order of first appearance and sorted, every row
      permuted alike.
    The content of the proof: the loop of `fill_temperature` brackets a missing temperature in the live list, which
    already holds rows inserted for earlier master temperatures; such a row lies on the straight line between the
    two own rows, so interpolating from it gives the same value (`interpLin_chain`) — the loaded table does not
    depend on the order in which gaps are filled. -/
theorem hitran_unified (blocks : List (HBlock K)) (hu : UniqueBlocks blocks) :
    decHitran blocks = hitranUnified blocks :=
  decHitran_unified blocks hu

/-- the temperature axis of `hitranUnified` / `decHitran`: strictly increasing, exactly the temperatures that head
    some block ("master list = sorted union") -/
theorem hitran_master (blocks : List (HBlock K)) :
    (decHitran blocks).t = (hitranUnified blocks).t ∧ (hitranUnified blocks).t.Pairwise (· < ·) ∧
    ∀ T, T ∈ (hitranUnified blocks).t ↔ ∃ b ∈ blocks, b.temp = T :=
  ⟨rfl, (master_sorted blocks).1, (master_sorted blocks).2⟩

/-- the ranges of `hitranUnified` (`(hLoad blocks).2`): one per distinct `(start, end)` header, every block belongs
    to one; a range's (T, sigma) list = the (temperature, ×1e-10 clipped cross-sections) of its blocks in file
    order, its wavenumbers = those listed in its last block -/
theorem hitran_ranges (blocks : List (HBlock K)) :
    ((hLoad blocks).2.map (·.key)).Nodup ∧ (∀ b ∈ blocks, bKey b ∈ (hLoad blocks).2.map (·.key)) ∧
    ∀ g ∈ (hLoad blocks).2, g.ts = (rangeBlocks blocks g.key).map bEntry ∧
      g.wn = ((rangeBlocks blocks g.key).getLast?.map bWn).getD [] ∧ rangeBlocks blocks g.key ≠ [] :=
  ⟨(hLoad_inv blocks).keysNodup, (hLoad_inv blocks).keysAll, (hLoad_inv blocks).grid⟩

/-- what `rangeRow` is, case by case, for a range whose own rows `own` are sorted by strictly increasing
    temperature: (1) at its `j`-th temperature the tabulated row; (2) outside its span zeros; (3) strictly inside,
    at a temperature it does not have, the interpolation between the two neighbouring own rows `c-1`, `c`
    (`c` = number of own temperatures `≤ T`), whose temperatures bracket `T` -/
theorem hitran_range_row (wn : List K) (own : List (K × List K)) (hs : StrictTs own) :
    (∀ j (hj : j < own.length), rangeRow wn own own[j].1 = own[j].2) ∧
    (∀ T, T ∉ own.map (·.1) → (T < lmin (own.map (·.1)) ∨ lmax (own.map (·.1)) < T) →
      rangeRow wn own T = wn.map (fun _ => 0)) ∧
    (∀ T, T ∉ own.map (·.1) → lmin (own.map (·.1)) ≤ T → T ≤ lmax (own.map (·.1)) → own ≠ [] →
      ∃ (c : Nat) (_ : 1 ≤ c) (hc : c < own.length), own[c - 1].1 < T ∧ T < own[c].1 ∧
        rangeRow wn own T =
          List.zipWith (fun u v => Interp.interpLin u v T own[c - 1].1 own[c].1) own[c - 1].2 own[c].2) := by
  refine ⟨fun j hj => rangeRow_own wn own hs j hj, ?_, ?_⟩
  · intro T hT hout
    have hmem : memv T (own.map (·.1)) = false := by
      cases hm : memv T (own.map (·.1))
      · rfl
      · exact absurd ((memv_iff _ _).mp hm) hT
    have ho : (decide (T < lmin (own.map (·.1))) || decide (lmax (own.map (·.1)) < T)) = true := by
      simpa using hout
    unfold rangeRow
    simp only [hmem, ho, Bool.false_eq_true, if_false, if_true]
  · intro T hT h1 h2 hne
    have hne' : own.map (·.1) ≠ [] := by simpa using hne
    obtain ⟨c1, c2, c3, c4, _, _⟩ := bracket_of_sorted (own.map (·.1)) (strictTs_keys own hs) T hT _ _
      (lmin_mem _ hne') (lmax_mem _ hne') h1 h2 _ rfl
    rw [List.length_map] at c2
    simp only [List.getElem_map] at c3 c4
    exact ⟨_, c1, c2, c3, c4, rangeRow_between wn own T hT h1 h2 _ rfl c1 c2⟩

/-- the file used for the non-vacuity example of `hitran_unified`: three ranges, blocks interleaved — range 10–30 cm⁻¹
    at T = 100, 200, 400 (one negative entry), range 50–60 cm⁻¹ only at T = 400 and 200 (listed hot-to-cold), range
    70 cm⁻¹ only at T = 300 -/
def exHBlocks : List (HBlock ℚ) :=
  [⟨"H2-He", 10, 30, 100, 1, [(10, 10000000000), (30, -5)]⟩,
   ⟨"H2-He", 50, 60, 400, 1, [(50, 40000000000), (60, 80000000000)]⟩,
   ⟨"H2-He", 10, 30, 200, 1, [(10, 30000000000), (30, 0)]⟩,
   ⟨"H2-He", 70, 70, 300, 1, [(70, 50000000000)]⟩,
   ⟨"H2-He", 10, 30, 400, 1, [(10, 0), (30, 20000000000)]⟩,
   ⟨"H2-He", 50, 60, 200, 1, [(50, 20000000000), (60, 0)]⟩]

/-- non-vacuity of `hitran_unified`: the headers of `exHBlocks` are pairwise distinct, so the reader gives the documented
    table; its ingredients, evaluated: the temperature list and the three ranges the reading loop builds (the second
    range's rows in file order, hot first), and the documented rows — T = 300 interpolated in the first two ranges
    between their own 200 and 400 rows, T = 100 below the span of the second range (zeros), its own row at T = 400,
    the third range zero away from its single temperature -/
example :
    UniqueBlocks exHBlocks ∧ decHitran exHBlocks = hitranUnified exHBlocks ∧
    (hLoad exHBlocks).1 = [100, 400, 200, 300] ∧
    (hLoad exHBlocks).2.map (fun g => (g.key, g.wn, g.ts)) =
      [((10, 30), [10, 30], [(100, [1, 0]), (200, [3, 0]), (400, [0, 2])]),
       ((50, 60), [50, 60], [(400, [4, 8]), (200, [2, 0])]),
       ((70, 70), [70], [(300, [5])])] ∧
    rangeRow [10, 30] [(100, [1, 0]), (200, [3, 0]), (400, [0, 2])] (300 : ℚ) = [3/2, 1] ∧
    rangeRow [50, 60] [(200, [2, 0]), (400, [4, 8])] (300 : ℚ) = [3, 4] ∧
    rangeRow [50, 60] [(200, [2, 0]), (400, [4, 8])] (100 : ℚ) = [0, 0] ∧
    rangeRow [50, 60] [(200, [2, 0]), (400, [4, 8])] (400 : ℚ) = [4, 8] ∧
    rangeRow [70] [(300, [5])] (400 : ℚ) = [0] := by
  have hu : UniqueBlocks exHBlocks := by unfold UniqueBlocks; decide +kernel
  exact ⟨hu, hitran_unified exHBlocks hu, by decide +kernel, by decide +kernel, by decide +kernel,
    by decide +kernel, by decide +kernel, by decide +kernel, by decide +kernel⟩

/-! ## molecule names -/

/-- sanitising is idempotent -/
theorem sanitize_idem (s : List Char) : sanitize (sanitize s) = sanitize s := go_idem St.out s

/-- a sanitised name consists of letters and digits only -/
theorem sanitize_alnum (s : List Char) : ∀ c ∈ sanitize s, isAlnum c = true := go_alnum St.out s

/-- the documented examples -/
theorem sanitize_examples :
    sanitizeStr "1H2-16O" = "H2O" ∧ sanitizeStr "H2O" = "H2O" ∧ sanitizeStr "12C-16O2" = "CO2" ∧
    sanitizeStr "48Ti-16O" = "TiO" ∧ sanitizeStr "h2o" = "" ∧
    String.ofList (discName .pickleXsec "1H2-16O.R100.TauREx.pickle".toList) = "H2O" ∧
    String.ofList (discName .exo "opac1H2-16O.dat".toList) = "H2O" ∧
    String.ofList (objName .exo "opac1H2-16O.dat".toList []) = "H2O" ∧
    String.ofList (discName .hdfK "1H2-16O__POKAZATEL__R1000.ktable.TauREx.h5".toList) = "H2O" ∧
    String.ofList (discName .cia "H2-He_2011.cia".toList) = "H2-He" := by
  decide +kernel

/-- `clean_molecule_name` (`split('_')[0]`) never changes a sanitised name -/
theorem clean_noop (s : List Char) : firstPart '_' (sanitize s) = sanitize s := by
  unfold firstPart
  apply takeWhile_all
  intro c hc
  exact alnum_ne (sanitize_alnum s c hc) '_' (by decide)

/-- every format names the object it builds by the name its discovery advertises -/
theorem names_consistent (f : NameFmt) (fname : List Char) (hf : f ≠ .pickleK) :
    objName f fname [] = discName f fname := by
  cases f with
  | pickleXsec => exact clean_noop _
  | exo => rfl
  | hdfK => exact clean_noop _
  | pickleK => exact absurd rfl hf
  | cia => rfl

/-- the collision partners a CIA object reports (`pairOne`, `pairTwo`) are the two halves of the pair name it reports:
    for a name `A-B` (no `-` inside `A` or `B`) they are `A` and `B` — whatever container the table was loaded from, since
    they are a function of the reported pair name alone (`H2-He` from `H2-He.db` and from `H2-He_2011.cia` alike) -/
theorem cia_partners (a b : List Char) (ha : '-' ∉ a) (hb : '-' ∉ b) :
    pairOne (a ++ '-' :: b) = a ∧ pairTwo (a ++ '-' :: b) = b := by
  constructor
  · exact takeWhile_append_sep '-' (by decide) a b (ne_sep_of_not_mem ha)
  · unfold pairTwo lastPart
    rw [List.reverse_append, List.reverse_cons, List.append_assoc, List.singleton_append,
      takeWhile_append_sep '-' (by decide) b.reverse a.reverse
        (ne_sep_of_not_mem (by simpa using hb)), List.reverse_reverse]

example : String.ofList (pairOne (discName .cia "H2-He_2011.cia".toList)) = "H2" ∧
    String.ofList (pairTwo (discName .cia "H2-He_2011.cia".toList)) = "He" ∧
    String.ofList (pairOne "H2-H2".toList) = "H2" ∧ String.ofList (pairTwo "N2-N2".toList) = "N2" ∧
    '-' ∉ "H2".toList ∧ '-' ∉ "He".toList := by
  decide +kernel

/-! ## the cache -/

/-- between two cache clears a molecule is served by one and the same object, and serving it again does not
    touch the state (no further load) -/
theorem served_same (fs : List Dir) (s : CSt) (m : String) (o : Obj) (ops : List COp)
    (hops : ∀ op ∈ ops, op.clears = false) (h : (step fs s (.get m)).2 = .served o) :
    step fs (run fs (step fs s (.get m)).1 ops) (.get m) = (run fs (step fs s (.get m)).1 ops, .served o) :=
  step_get_hit (run_ext fs ops _ hops m o (step_get_served h))

/-- between two cache clears a molecule is constructed at most once (files that name their object as advertised) -/
theorem loaded_once (fs : List Dir) (hc : consistent fs) (s : CSt) (m : String) (ops : List COp)
    (hops : ∀ op ∈ ops, op.clears = false) :
    loadsOf (run fs s ops) m ≤ loadsOf s m + 1 := by
  have h := run_pot fs hc ops s hops m
  unfold pot at h
  split_ifs at h <;> omega

/-- after `set_interpolation k` every object loaded from a file and served later has mode `k`
    (until the mode is changed again) -/
theorem interp_effective (fs : List Dir) (s : CSt) (k : Nat) (ops : List COp) (m : String) (o : Obj)
    (hops : ∀ op ∈ ops, ∀ k', op ≠ .setInterp k')
    (h : (step fs (run fs (step fs s (.setInterp k)).1 ops) (.get m)).2 = .served o) (hsrc : o.src ≠ none) :
    o.mode = k := by
  have hinv0 : ModeInv (step fs s (.setInterp k)).1 := fun e he => by simp [step] at he
  have hinv := step_modeInv fs _ (.get m) (run_modeInv fs ops _ hinv0)
  obtain ⟨e, he, rfl⟩ := lookup_mem (step_get_served h)
  rw [hinv e he hsrc]
  unfold interpOr
  rw [step_get_interp, run_interp fs ops _ hops]
  rfl

/-- history freedom: what a `get` serves from a file is — as a table: source file, interpolation mode, name, memory
    flag; everything but the object identity — exactly what the same `get` serves on an emptied cache with the same
    configuration.  It depends only on (contents of the configured path, mode), not on the gets, adds, clears and mode
    changes before it.  Premise: the path was not changed since the cache was last emptied (`set_opacity_path`
    does not clear, so an object loaded from the previous path keeps being served — that is the code's behaviour and
    is exactly what `c` / `hops` exclude). -/
theorem served_values_history_free (fs : List Dir) (hc : consistent fs) (s : CSt) (c : COp) (hcl : c.clears = true)
    (ops : List COp) (hops : ∀ op ∈ ops, ∀ p, op ≠ .setPath p) (m : String) (o : Obj)
    (h : (step fs (run fs (step fs s c).1 ops) (.get m)).2 = .served o) (hsrc : o.src ≠ none) :
    ∃ o', (step fs { run fs (step fs s c).1 ops with dict := [] } (.get m)).2 = .served o' ∧
      o'.src = o.src ∧ o'.mode = o.mode ∧ o'.mol = o.mol ∧ o'.inMem = o.inMem := by
  have hinv := run_pathInv fs hc ops _ hops (pathInv_of_clears fs s c hcl)
  obtain ⟨e, hfm, h1, h2, h3, h4⟩ := step_get_fromFile fs hc _ hinv m o h hsrc
  refine ⟨_, step_get_fresh fs hc { run fs (step fs s c).1 ops with dict := [] } rfl m e hfm, ?_⟩
  have hd : e.disc = m := by
    have := List.find?_some hfm; simpa using this
  have hobj : e.obj = m :=
    (curFiles_consistent hc _ e (List.mem_of_find?_eq_some hfm)).trans hd
  exact ⟨h1.symm, h2.symm, hobj.trans h3.symm, h4.symm⟩

/-- non-vacuity / sharpness: the premise cannot be dropped — after `setPath` without a clear the object of the old
    directory is still served (file 0), while an emptied cache would load file 1 -/
example :
    let fs : List Dir := [{ isDir := true, files := [⟨.pickle, 0, "H2O", "H2O"⟩] },
                          { isDir := true, files := [⟨.pickle, 1, "H2O", "H2O"⟩] }]
    trace fs init [.setPath 0, .get "H2O", .setPath 1, .get "H2O", .clear, .get "H2O"] =
      [.done, .served ⟨0, "H2O", 0, none, some 0⟩, .done, .served ⟨0, "H2O", 0, none, some 0⟩, .done,
       .served ⟨1, "H2O", 0, none, some 1⟩] := by
  decide +kernel

/-- a molecule that is neither cached nor discoverable under the configured path raises, leaving the cache as it was -/
theorem get_missing_error (fs : List Dir) (s : CSt) (m : String) (hd : lookup s.dict m = none)
    (hf : ∀ e ∈ curFiles fs s, e.disc ≠ m) : step fs s (.get m) = (s, .missing) := by
  have : loadFrom fs m s = s := foldl_loadStep_none m _ s hf
  rw [step_get]
  simp only [hd, this]

/-- non-vacuity: a 7-operation history over a directory with an HDF5 and a pickle file of H2O and an Exo-Transmit
    file of CH4: the HDF5 file wins, one load per clear segment, the mode follows `setInterp` -/
example :
    let fs : List Dir := [{ isDir := true, files :=
      [⟨.hdf, 0, "H2O", "H2O"⟩, ⟨.pickle, 1, "H2O", "H2O"⟩, ⟨.exo, 2, "CH4", "CH4"⟩] }]
    let ops : List COp := [.get "H2O", .setPath 0, .get "H2O", .get "H2O", .setInterp 1, .get "H2O", .get "XX"]
    trace fs init ops =
      [.missing, .done,
       .served ⟨0, "H2O", 0, some true, some 0⟩, .served ⟨0, "H2O", 0, some true, some 0⟩, .done,
       .served ⟨1, "H2O", 1, some true, some 0⟩, .missing] ∧
    (run fs init ops).log = [("H2O", 0), ("H2O", 0)] ∧ consistent fs := by
  refine ⟨by decide +kernel, by decide +kernel, ?_⟩
  intro d hd e he
  simp only [List.mem_singleton] at hd
  subst hd
  simp only [List.mem_cons, List.mem_nil_iff, or_false] at he
  rcases he with rfl | rfl | rfl <;> rfl

/-! ### configuration by other routes, settings taken back (`CacheConf.stepX`) -/

/-- **whatever route a new interpolation mode takes** — `OpacityCache().set_interpolation(k)`, a parameter file whose
    [Global] section carries `xsec_interpolation` (set up by `ParameterParser.setup_globals`), or the setting taken back with
    `set_interpolation(None)` (then the default, linear = 0) — every object loaded from a file and served afterwards has
    that mode, across any later events that leave the setting alone (gets, adds, clears, path changes, parameter files
    without the key, the path taken back) -/
theorem interp_effective_routes (fs : List Dir) (s : CSt) (c : XOp) (ki : Option Nat) (hc : c.modeAfter = some ki)
    (hok : (stepX fs s c).2 = .done) (ops : List XOp) (hops : ∀ op ∈ ops, op.modeAfter = none) (m : String) (o : Obj)
    (h : (stepX fs (runX fs (stepX fs s c).1 ops) (.base (.get m))).2 = .served o) (hsrc : o.src ≠ none) :
    o.mode = ki.getD 0 := by
  obtain ⟨hd, hi⟩ := stepX_sets_mode fs s c ki hc hok
  have hinv0 : ModeInv (stepX fs s c).1 := fun e he => by rw [hd] at he; cases he
  obtain ⟨hinv1, hint1⟩ := runX_modeInv fs ops _ hinv0 hops
  have hinv := step_modeInv fs _ (.get m) hinv1
  have h' : (step fs (runX fs (stepX fs s c).1 ops) (.get m)).2 = .served o := h
  obtain ⟨e, he, rfl⟩ := lookup_mem (step_get_served h')
  rw [hinv e he hsrc]
  unfold interpOr
  rw [step_get_interp, hint1, hi]

/-- a parameter file is the same machine as the setter calls it stands for (path, then mode, then memory mode) -/
theorem parfile_as_setters (fs : List Dir) (s : CSt) (p : Nat) (k : Option Nat) (mem : Option Bool)
    (hp : (step fs s (.setPath p)).2 ≠ .notADir) :
    (stepX fs s (.parfile (some p) k mem)).1 = run fs s (.setPath p :: parCalls k mem) := by
  simp only [stepX, hp, if_false]
  rfl

/-- once the path is taken back (`GlobalCache()['xsec_path'] = None`) and the cache emptied, nothing is served any more -/
theorem path_unset_nothing_served (fs : List Dir) (s : CSt) (c : COp) (hcl : c.clears = true) (m : String) :
    (stepX fs (stepX fs (stepX fs s .unsetPath).1 (.base c)).1 (.base (.get m))).2 = .missing := by
  obtain ⟨hd, hp⟩ := step_clears fs (stepX fs s .unsetPath).1 c hcl
  show (step fs (step fs (stepX fs s .unsetPath).1 c).1 (.get m)).2 = .missing
  rw [step_get_nopath fs _ m hd (by rw [hp]; rfl)]

/-- non-vacuity: linear, then a parameter file asking for exp, then the mode taken back, then the path taken back: the
    object served follows every change (new object, mode 1, then mode 0), and after the path is gone nothing is served -/
example :
    let fs : List Dir := [{ isDir := true, files := [⟨.pickle, 0, "H2O", "H2O"⟩] }]
    let ops : List XOp := [.base (.setPath 0), .base (.get "H2O"), .parfile (some 0) (some 1) none, .base (.get "H2O"),
      .unsetInterp, .base (.get "H2O"), .unsetPath, .base .clear, .base (.get "H2O"), .parfile (some 7) (some 1) none]
    traceX fs init ops =
      [.done, .served ⟨0, "H2O", 0, none, some 0⟩, .done, .served ⟨1, "H2O", 1, none, some 0⟩, .done,
       .served ⟨2, "H2O", 0, none, some 0⟩, .done, .done, .missing, .notADir] ∧
    (XOp.parfile (some 0) (some 1) none).modeAfter = some (some 1) ∧ XOp.unsetInterp.modeAfter = some none ∧
    (XOp.base (.get "H2O")).modeAfter = none := by
  decide +kernel

/-- the memory-mode setting never reaches the HDF5 reader (`xsec_in_memory or True`): recorded, not required -/
theorem mem_mode_ignored (s : CSt) (e : FileEntry) : (loadObj s e).inMem ≠ some false := by
  rcases loadObj_inMem s e with h | h <;> rw [h] <;> simp

/-- a file whose object does not carry the advertised name is rebuilt on every request and never served
    (the pre-fix Exo-Transmit behaviour; kept as the witness of why `consistent` is needed in `loaded_once`) -/
theorem inconsistent_entry_reloads :
    let fs : List Dir := [{ isDir := true, files := [⟨.exo, 0, "H2O", "1H2-16O"⟩] }]
    let ops : List COp := [.setPath 0, .get "H2O", .get "H2O", .get "H2O"]
    trace fs init ops = [.done, .missing, .missing, .missing] ∧ loadsOf (run fs init ops) "H2O" = 3 := by
  decide +kernel

/-! ## the k-table cache -/

/-- the k-table cache (`KTableCache`, whose loading loop constructs EVERY discovered file that advertises the molecule) is
    the same machine as the cross-section cache as long as no directory holds two k-table files advertising one
    molecule: every theorem of the previous section then holds of it -/
theorem ktable_same_machine (fs : List Dir) (hu : UniqueDisc fs) (s : CSt) (ops : List COp) :
    (∀ op, stepK fs s op = step fs s op) ∧ runK fs s ops = run fs s ops ∧ traceK fs s ops = trace fs s ops :=
  ⟨stepK_eq_step fs hu s, runK_eq_run fs hu ops s, traceK_eq_trace fs hu ops s⟩

/-- non-vacuity, and the hypothesis cannot be dropped: with a pickle and an HDF5 k-table of one molecule in the directory
    the k-table cache constructs both on the first request (and serves the first), the cross-section machine one -/
example :
    UniqueDisc [{ isDir := true, files := [⟨.khdf, 0, "H2O", "H2O"⟩, ⟨.kpickle, 1, "CH4", "CH4"⟩] }] ∧
    (let fs : List Dir := [{ isDir := true, files := [⟨.khdf, 0, "H2O", "H2O"⟩, ⟨.kpickle, 1, "H2O", "H2O"⟩] }]
     traceK fs init [.setPath 0, .get "H2O"] = [.done, .served ⟨0, "H2O", 0, none, some 0⟩] ∧
     (runK fs init [.setPath 0, .get "H2O"]).log = [("H2O", 0), ("H2O", 1)] ∧
     (run fs init [.setPath 0, .get "H2O"]).log = [("H2O", 0)]) := by
  refine ⟨?_, by decide +kernel⟩
  intro d hd
  simp only [List.mem_singleton] at hd
  subst hd
  decide

/-! ## the CIA cache -/

/-- a CIA pair that is cached is served by that same object ever after (there is no clearing operation, `add_cia` never
    replaces), and serving it does not touch the state — whatever containers the path holds (several for one pair, `.cia`
    files with other header names: no hypothesis on the file system) -/
theorem cia_served_same (fs : List CiaSM.CDir) (s : CiaSM.St) (m : String) (o : CiaSM.CObj) (ops : List CiaSM.Op)
    (h : (CiaSM.step fs s (.get m)).2 = .served o) :
    CiaSM.step fs (CiaSM.run fs (CiaSM.step fs s (.get m)).1 ops) (.get m)
      = (CiaSM.run fs (CiaSM.step fs s (.get m)).1 ops, .served o) := by
  exact CiaSM.step_get_hit (CiaSM.run_keeps fs ops _ m o (CiaSM.step_get_served h))

/-- a cached CIA pair is never constructed again (no hypothesis on the file system) -/
theorem cia_loaded_once (fs : List CiaSM.CDir) (s : CiaSM.St) (m : String) (o : CiaSM.CObj) (ops : List CiaSM.Op)
    (h : CiaSM.lookup s.dict m = some o) : CiaSM.loadsOf (CiaSM.run fs s ops) m = CiaSM.loadsOf s m :=
  CiaSM.run_loads fs ops s m o h

/-- non-vacuity: a history over two directories (a `.db` and a `.cia` pair in the first, a `.cia` pair in the second), a
    single path, then a list of paths: one construction per pair, the same objects served again -/
example :
    let fs : List CiaSM.CDir := [[⟨.db, 0, "H2-H2", "H2-H2"⟩, ⟨.cia, 1, "H2-He", "H2-He"⟩], [⟨.cia, 2, "N2-N2", "N2-N2"⟩]]
    let ops : List CiaSM.Op := [.get "H2-H2", .setPath (.single 0), .get "H2-H2", .get "H2-He", .setPath (.many [1, 0]),
                                .get "N2-N2", .get "H2-H2", .get "XX", .add "H2-H2"]
    CiaSM.trace fs CiaSM.init ops =
      [.missing, .done, .served ⟨0, "H2-H2", some 0⟩, .served ⟨1, "H2-He", some 1⟩, .done,
       .served ⟨2, "N2-N2", some 2⟩, .served ⟨0, "H2-H2", some 0⟩, .missing, .dup] ∧
    (CiaSM.run fs CiaSM.init ops).log = [("H2-H2", 0), ("H2-He", 1), ("N2-N2", 2)] := by
  decide +kernel

/-- **the first container found for a pair is the one served** (the code after fix d5856f4): however many containers of the
    pair lie in the configured path, a request for an uncached pair constructs exactly one object — from the first file in
    scan order (directories in path order, `.db` files before `.cia` files) that advertises the pair —, caches and serves it;
    nothing raises.  `consistent`: every `.cia` file carries in its block headers the pair its name advertises. -/
theorem cia_first_container_served (fs : List CiaSM.CDir) (hc : CiaSM.consistent fs) (s : CiaSM.St) (m : String)
    (hl : CiaSM.lookup s.dict m = none) (e0 : CiaSM.CFile)
    (hf : (CiaSM.scan fs s.path).find? (fun e => e.disc == m) = some e0) :
    CiaSM.step fs s (.get m) =
      ({ s with dict := s.dict ++ [(m, { id := s.nextId, pair := m, src := some e0.fileId })],
                log := s.log ++ [(m, e0.fileId)], nextId := s.nextId + 1 },
       .served { id := s.nextId, pair := m, src := some e0.fileId }) :=
  CiaSM.step_get_first fs hc s m hl e0 hf

/-- a request never raises the duplicate exception, and a pair without a container in the path is reported missing with the
    cache untouched -/
theorem cia_get_never_dup (fs : List CiaSM.CDir) (hc : CiaSM.consistent fs) (s : CiaSM.St) (m : String) :
    (CiaSM.step fs s (.get m)).2 ≠ .dup ∧
    (CiaSM.lookup s.dict m = none → (CiaSM.scan fs s.path).find? (fun e => e.disc == m) = none →
      CiaSM.step fs s (.get m) = (s, .missing)) :=
  ⟨CiaSM.step_get_no_dup fs hc s m, CiaSM.step_get_none fs hc s m⟩

/-- non-vacuity, and the both-containers directory of the former finding: `H2-H2.db` and `H2-H2_2011.cia` side by side (and
    a second directory with another `.db` of the pair, path = list of both): the first request is served the `.db` object of
    the first directory, one construction, later requests the same object -/
example :
    let fs : List CiaSM.CDir := [[⟨.db, 0, "H2-H2", "H2-H2"⟩, ⟨.cia, 1, "H2-H2", "H2-H2"⟩], [⟨.db, 2, "H2-H2", "H2-H2"⟩]]
    let ops : List CiaSM.Op := [.setPath (.many [0, 1]), .get "H2-H2", .get "H2-H2", .setPath (.single 1), .get "H2-H2"]
    CiaSM.consistent fs ∧
    CiaSM.trace fs CiaSM.init ops
      = [.done, .served ⟨0, "H2-H2", some 0⟩, .served ⟨0, "H2-H2", some 0⟩, .done, .served ⟨0, "H2-H2", some 0⟩] ∧
    CiaSM.loadsOf (CiaSM.run fs CiaSM.init ops) "H2-H2" = 1 := by
  refine ⟨?_, by decide +kernel, by decide +kernel⟩
  intro d hd e he
  simp only [List.mem_cons, List.mem_nil_iff, or_false] at hd
  rcases hd with rfl | rfl <;> simp only [List.mem_cons, List.mem_nil_iff, or_false] at he
  · rcases he with rfl | rfl <;> rfl
  · subst he; rfl

/-- regression statement about the scan BEFORE the fix (`stepPinned`): with a `.db` and a `.cia` file of one pair in the
    configured directory the first request raised (the second file was constructed as well and `add_cia` refused it), only the
    second request was served; the repaired scan serves the `.db` object at once, with one construction -/
theorem cia_both_formats_raise_pinned :
    let fs : List CiaSM.CDir := [[⟨.db, 0, "H2-H2", "H2-H2"⟩, ⟨.cia, 1, "H2-H2", "H2-H2"⟩]]
    let ops : List CiaSM.Op := [.setPath (.single 0), .get "H2-H2", .get "H2-H2"]
    CiaSM.tracePinned fs CiaSM.init ops = [.done, .dup, .served ⟨0, "H2-H2", some 0⟩] ∧
    CiaSM.loadsOf (CiaSM.runPinned fs CiaSM.init ops) "H2-H2" = 2 ∧
    CiaSM.trace fs CiaSM.init ops = [.done, .served ⟨0, "H2-H2", some 0⟩, .served ⟨0, "H2-H2", some 0⟩] ∧
    CiaSM.loadsOf (CiaSM.run fs CiaSM.init ops) "H2-H2" = 1 := by
  decide +kernel

/-! ### loaded objects and the global setting drifted apart; loads that name another directory (`CacheConf.stepY`) -/

/-- **whatever happened before** — served objects switched with their own `set_interpolation_mode`, the global key written
    behind the cache's back, loads naming another directory (any history `pre` of `YOp`s from any state) — once a mode takes one
    of the cache's routes, INCLUDING the value the global key already holds, every object loaded from a file and served
    afterwards has that mode -/
theorem interp_effective_after_drift (fs : List Dir) (s : CSt) (pre : List YOp) (c : XOp) (ki : Option Nat)
    (hc : c.modeAfter = some ki) (hok : (stepX fs (runY fs s pre) c).2 = .done) (ops : List XOp)
    (hops : ∀ op ∈ ops, op.modeAfter = none) (m : String) (o : Obj)
    (h : (stepX fs (runX fs (stepX fs (runY fs s pre) c).1 ops) (.base (.get m))).2 = .served o) (hsrc : o.src ≠ none) :
    o.mode = ki.getD 0 :=
  interp_effective_routes fs (runY fs s pre) c ki hc hok ops hops m o h hsrc

/-- non-vacuity: H2O loaded in mode exp (1), the served object switched to linear by its own method (the next request is
    served the switched object: the drift), then `set_interpolation('exp')` — the value already stored — and the request is
    served a fresh object in mode exp; the same with the global key written directly -/
example :
    let fs : List Dir := [⟨true, [⟨.pickle, 0, "H2O", "H2O"⟩]⟩]
    traceY fs init [.x (.base (.setPath 0)), .x (.base (.setInterp 1)), .x (.base (.get "H2O")), .objMode "H2O" 0,
                    .x (.base (.get "H2O")), .x (.base (.setInterp 1)), .x (.base (.get "H2O")), .gcInterp (some 0),
                    .x (.base (.get "H2O")), .x (.base (.setInterp 0)), .x (.base (.get "H2O"))]
      = [.done, .done, .served ⟨0, "H2O", 1, none, some 0⟩, .done, .served ⟨0, "H2O", 0, none, some 0⟩, .done,
         .served ⟨1, "H2O", 1, none, some 0⟩, .done, .served ⟨1, "H2O", 1, none, some 0⟩, .done,
         .served ⟨2, "H2O", 0, none, some 0⟩] := by
  decide +kernel

/-- `load_opacity(opacity_path = <another directory>, molecule_filter = [m'])` is the scan a lookup of `m'` makes in the
    CONFIGURED path, and leaves the configured path as it was: from a cache emptied under the configured path, across such a
    load and any later gets / adds (no path change), what is served from a file is the fresh load of the first matching file
    of the configured directory -/
theorem load_other_served_from_configured (fs : List Dir) (hc : consistent fs) (s : CSt) (c : COp) (hcl : c.clears = true)
    (p : Nat) (m' : String) (ops : List COp) (hops : ∀ op ∈ ops, ∀ q, op ≠ .setPath q) (m : String) (o : Obj)
    (h : (step fs (run fs (stepY fs (step fs s c).1 (.loadOther p m')).1 ops) (.get m)).2 = .served o)
    (hsrc : o.src ≠ none) :
    (stepY fs (step fs s c).1 (.loadOther p m')).1.path = (step fs s c).1.path ∧
    ∃ e, firstMatch (curFiles fs (run fs (stepY fs (step fs s c).1 (.loadOther p m')).1 ops)) m = some e ∧
      o.src = some e.fileId := by
  constructor
  · show (step fs (step fs s c).1 (.get m')).1.path = _
    rcases step_get_state fs (step fs s c).1 m' with h1 | h1 <;> rw [h1]
    exact (foldl_loadStep_fields m' (curFiles fs _) _).1
  · have hops' : ∀ op ∈ COp.get m' :: ops, ∀ q, op ≠ .setPath q := by
      intro op hop q
      rcases List.mem_cons.mp hop with rfl | hop
      · intro hh; cases hh
      · exact hops op hop q
    have hinv := run_pathInv fs hc (COp.get m' :: ops) _ hops' (pathInv_of_clears fs s c hcl)
    obtain ⟨e, hfm, hff⟩ := step_get_fromFile fs hc _ hinv m o h hsrc
    exact ⟨e, hfm, hff.1⟩

/-- non-vacuity: the other directory (1) holds another H2O table; the load that names it takes H2O from the configured
    directory 0, and the path stays 0 -/
example :
    let fs : List Dir := [⟨true, [⟨.pickle, 0, "H2O", "H2O"⟩, ⟨.pickle, 1, "CO2", "CO2"⟩]⟩, ⟨true, [⟨.pickle, 2, "H2O", "H2O"⟩]⟩]
    traceY fs init [.x (.base (.setPath 0)), .loadOther 1 "H2O", .x (.base (.get "H2O")), .x (.base (.get "CO2"))]
      = [.done, .done, .served ⟨0, "H2O", 0, none, some 0⟩, .served ⟨1, "CO2", 0, none, some 1⟩] ∧
    (runY fs init [.x (.base (.setPath 0)), .loadOther 1 "H2O"]).path = some 0 := by
  decide +kernel

end Taurex.C14
