/-
  C02 — the property theorems restated about the REGENERATED source.  `Props/C02Src.lean` proves that the definitions
  translated on every run from `black_body` (with `_convert_lamb`, `_black_body_vec`), `EmissionModel.evaluate_emission`
  (cross-section branch, with the kernels `contribute_tau` / `contribute_cia` and the two `contribute` methods reached
  through `dispatch`), `EmissionModel.path_integral`, `EmissionModel.compute_final_flux`,
  `DirectImageModel.compute_final_flux`, `Star.initialize` / `spectralEmissionDensity`, `set_num_gauss` are the model's
  `planck`, `intensity`, `fluxOf`, `eclipse`, `direct`, `muOf` / `wOf` / `muInvOf`; `Props/C02.lean` proves the property about
  these.  The corollaries below compose the two: they are statements about the text of the code as it is now, at the real
  carrier.  `𝓚` abbreviates the constants as the code has them, `pcOf pi hp c kb lit` (`PI, PLANCK, SPDLIGT, KBOLTZ` of
  `taurex.constants`, `lit` = the literal `1e-6`).

  What is composed
    * `Gen.SrcC02.black_body` (no hypotheses in the tie).
    * `Gen.SrcC02.direct_final_flux` (no hypotheses in the tie).
    * `srcIntensity … mq … j` = `Gen.SrcC02.evaluate_emission … false j`: entry `[q, j]` of the `I` the code computes for the
      angle with `_mu_quads[q] = mq` and wavenumber column `j`.  Tie hypotheses kept visible: every column lists the same
      `nc` contributions (`hsig`), `j < cols.length`; the column is `cols.getD j ⟨0, []⟩`, the model's `muInv` is `1/mq`.
    * `srcSpectrum final …` = `Gen.SrcC02.path_integral` run on the `I` of `srcIntensity` for the `leggauss` nodes `xs` /
      weights `wts` mapped as `set_num_gauss` maps them (`_mu_quads = muOf x`), followed by `final`; with
      `final = Gen.SrcC02.emission_final_flux` it is the eclipse spectrum (`srcEclipse`), with `final = id` the `flux_total`
      handed to `compute_final_flux`.  Additional tie hypothesis: `xs.length = wts.length`.
    * `Gen.SrcC02.star_sed (Gen.SrcC02.star_initialize …)` as the stellar SED in `src_eclipse_isothermal_exact`.
    * `srcContrib … j` = column `j` of the contribution function `tau` the regenerated `evaluate_emission` returns as its
      fourth component (`Gen.SrcC02.evaluate_emission_tau`; `path_integral` hands it on untouched: `src_path_integral_tau`),
      = the model's `contribFn` (same tie hypotheses).  `contrib_sum` is restated (`src_contrib_sum`).
    * `Gen.SrcC02.set_num_gauss` / `Gen.SrcC02.evaluate_emission_mu` for the quadrature identity (`angleSum`, the sum inside
      `path_integral`, stays the model's).

  Not restated (no tie)
    * `coeffs_sum`, `isothermal_exact`, `isothermal_within`, `between_hot_cold`: statements about `intensityRows` on ARBITRARY
      rows (`Chain`, `RowsOk`); the source only builds the rows of `evaluate_emission`, for which the full-model forms
      (`intensity_*`, restated below) are the instances.
    * `surf_sound`: about the model's `keepFrom` / `surfTau`, intermediate values `evaluate_emission` does not return.
    * In `src_clamp_band` the documented (unclamped) integral stays the model's `intensityUncut` and the clamped layers are
      read off the model's `rowsOf`: the code contains no unclamped evaluation.
    * `contrib_eq_coeff`: about one arbitrary row (`contribOf` vs `coeff`); its instance on the rows of `evaluate_emission` is
      used inside `src_contrib_sum`.
    * the correlated-k branch (`evaluate_emission_ktables`) is tied in `Props/C20Src.lean`, not here (its `tau` component:
      see the report — the clamp is a minimum over the wavenumber axis, which that tie lifts).
-/
import Props.C02
import Props.C02Src
set_option linter.unusedSectionVars false

namespace Taurex.C02SrcProps
open Taurex.Emission Taurex.C02 Taurex.C02Src Taurex.SrcLemmas

section
variable (pi hp c kb lit : ℝ)

local notation "𝓚" => pcOf pi hp c kb lit

/-! ### Planck function, direct-image scaling, quadrature -/

/-- the regenerated `black_body` is positive -/
theorem src_planck_pos (hk : PCPos 𝓚) (nu t : ℝ) (hnu : 0 < nu) (ht : 0 < t) :
    0 < Gen.SrcC02.black_body nu t kb pi hp c lit := by
  rw [src_black_body]; exact planck_pos 𝓚 hk nu t hnu ht

/-- … and increasing in temperature -/
theorem src_planck_mono_T (hk : PCPos 𝓚) (nu t1 t2 : ℝ) (hnu : 0 < nu) (ht1 : 0 < t1) (h12 : t1 ≤ t2) :
    Gen.SrcC02.black_body nu t1 kb pi hp c lit ≤ Gen.SrcC02.black_body nu t2 kb pi hp c lit := by
  rw [src_black_body, src_black_body]; exact planck_mono_T 𝓚 hk nu t1 t2 hnu ht1 h12

/-- direct imaging, about the regenerated `DirectImageModel.compute_final_flux`: `f · Rp² / (2 d²)`, `d = distance · parsec` -/
theorem src_direct_scale (f rp dist pc : ℝ) (hpi : pi ≠ 0) (hd : dist * pc ≠ 0) :
    Gen.SrcC02.direct_final_flux f pi pc rp dist = f * (rp * rp) / (2 * ((dist * pc) * (dist * pc))) := by
  rw [src_direct_final_flux]; exact direct_scale pi f rp dist pc hpi hd

/-- Gauss–Legendre nodes/weights as the regenerated `set_num_gauss` maps them to [0,1] and the regenerated
    `evaluate_emission` inverts them (`_mu = 1/_mu_quads`): `Σ w μ = 1/2` -/
theorem src_quad_half (kt : ℝ) (xs wts : List ℝ) (hlen : xs.length = wts.length) (hx : ∀ x ∈ xs, -1 < x)
    (h0 : wts.sum = 2) (h1 : ((xs.zip wts).map (fun p => p.2 * p.1)).sum = 0) :
    angleSum ((xs.zip wts).map (fun p => (1, (Gen.SrcC02.set_num_gauss p.2 p.1).2,
      Gen.SrcC02.evaluate_emission_mu kt (Gen.SrcC02.set_num_gauss p.2 p.1).1 false))) = 1 / 2 := by
  simp only [src_set_num_gauss, src_evaluate_emission_mu]
  exact quad_half xs wts hlen hx h0 h1

/-! ### `evaluate_emission`: intensity per angle -/

/-- entry `[q, j]` of the `I` the regenerated `evaluate_emission` computes (cross-section branch), `_mu_quads[q] = mq` -/
noncomputable def srcIntensity (mq : ℝ) (cols : List (Col ℝ)) (dz dens temps : List ℝ) (nc : ℕ) (ktI : ℕ → ℝ)
    (j : ℕ) : ℝ :=
  Gen.SrcC02.evaluate_emission (fun j => (cols.getD j ⟨0, []⟩).nu) cols.length kb pi hp c lit (10 : ℝ)
    (dispatch cols) (fn dz) (fn dens) ktI mq temps.length nc (fn temps) false j

theorem srcIntensity_eq (mq : ℝ) (cols : List (Col ℝ)) (dz dens temps : List ℝ) (nc : ℕ)
    (hsig : ∀ j, j < cols.length → (cols.getD j ⟨0, []⟩).sig.length = nc) (ktI : ℕ → ℝ) (j : ℕ)
    (hj : j < cols.length) :
    srcIntensity pi hp c kb lit mq cols dz dens temps nc ktI j
      = intensity 𝓚 cols dz dens temps (1 / mq) (cols.getD j ⟨0, []⟩) := by
  unfold srcIntensity
  exact src_evaluate_emission pi hp c kb lit mq cols dz dens temps nc hsig ktI j hj

/-- the intensity the regenerated `evaluate_emission` returns lies between the Planck functions of the coldest and hottest
    temperature (`1 ≤ 1/μ`), the upper bound relaxed by the licensed `exp(-10)` -/
theorem src_intensity_between (mq : ℝ) (cols : List (Col ℝ)) (dz dens temps : List ℝ) (nc : ℕ)
    (hsig : ∀ j, j < cols.length → (cols.getD j ⟨0, []⟩).sig.length = nc) (ktI : ℕ → ℝ) (j : ℕ)
    (hj : j < cols.length) (tmin tmax : ℝ)
    (hv : Valid 𝓚 cols dz dens temps (cols.getD j ⟨0, []⟩) tmin tmax) (hm : 1 ≤ 1 / mq) :
    planck 𝓚 (cols.getD j ⟨0, []⟩).nu tmin / (𝓚).pi ≤ srcIntensity pi hp c kb lit mq cols dz dens temps nc ktI j ∧
    srcIntensity pi hp c kb lit mq cols dz dens temps nc ktI j
      ≤ (1 + Real.exp (-10)) * (planck 𝓚 (cols.getD j ⟨0, []⟩).nu tmax / (𝓚).pi) := by
  rw [srcIntensity_eq pi hp c kb lit mq cols dz dens temps nc hsig ktI j hj]
  exact intensity_between 𝓚 cols dz dens temps _ tmin tmax _ hv hm

/-- isothermal atmosphere, bottom not clamped: the regenerated `evaluate_emission` returns exactly `B(T)/π` at every
    angle, whatever the composition -/
theorem src_intensity_isothermal_exact (mq : ℝ) (cols : List (Col ℝ)) (dz dens temps : List ℝ) (nc : ℕ)
    (hsig : ∀ j, j < cols.length → (cols.getD j ⟨0, []⟩).sig.length = nc) (ktI : ℕ → ℝ) (j : ℕ)
    (hj : j < cols.length) (t : ℝ)
    (hT : ∀ l, l < temps.length → temps.getD l 0 = t) (hne : temps ≠ [])
    (hk : keepFrom cols dz dens temps.length 0 = true) :
    srcIntensity pi hp c kb lit mq cols dz dens temps nc ktI j = planck 𝓚 (cols.getD j ⟨0, []⟩).nu t / (𝓚).pi := by
  rw [srcIntensity_eq pi hp c kb lit mq cols dz dens temps nc hsig ktI j hj]
  exact intensity_isothermal_exact 𝓚 cols dz dens temps _ t _ hT hne hk

/-- … and in general (bottom clamped or not) within a relative `exp(-10)` above `B(T)/π` -/
theorem src_intensity_isothermal_within (mq : ℝ) (cols : List (Col ℝ)) (dz dens temps : List ℝ) (nc : ℕ)
    (hsig : ∀ j, j < cols.length → (cols.getD j ⟨0, []⟩).sig.length = nc) (ktI : ℕ → ℝ) (j : ℕ)
    (hj : j < cols.length) (t : ℝ)
    (hv : Valid 𝓚 cols dz dens temps (cols.getD j ⟨0, []⟩) t t) (hm : 1 ≤ 1 / mq) :
    planck 𝓚 (cols.getD j ⟨0, []⟩).nu t / (𝓚).pi ≤ srcIntensity pi hp c kb lit mq cols dz dens temps nc ktI j ∧
    srcIntensity pi hp c kb lit mq cols dz dens temps nc ktI j
      ≤ planck 𝓚 (cols.getD j ⟨0, []⟩).nu t / (𝓚).pi * (1 + Real.exp (-10)) := by
  rw [srcIntensity_eq pi hp c kb lit mq cols dz dens temps nc hsig ktI j hj]
  exact intensity_isothermal_within 𝓚 cols dz dens temps _ t _ hv hm

/-- the licensed deviation: what the regenerated `evaluate_emission` returns differs from the documented (unclamped)
    integral by at most `exp(-10)` times the source functions of the clamped layers -/
theorem src_clamp_band (mq : ℝ) (cols : List (Col ℝ)) (dz dens temps : List ℝ) (nc : ℕ)
    (hsig : ∀ j, j < cols.length → (cols.getD j ⟨0, []⟩).sig.length = nc) (ktI : ℕ → ℝ) (j : ℕ)
    (hj : j < cols.length) (tmin tmax : ℝ)
    (hv : Valid 𝓚 cols dz dens temps (cols.getD j ⟨0, []⟩) tmin tmax) (hm : 1 ≤ 1 / mq) :
    |srcIntensity pi hp c kb lit mq cols dz dens temps nc ktI j
        - intensityUncut 𝓚 dz dens temps (1 / mq) (cols.getD j ⟨0, []⟩)|
      ≤ Real.exp (-10) * ((rowsOf 𝓚 cols dz dens temps (cols.getD j ⟨0, []⟩)).map
          (fun r => if r.keepD then 0 else r.b)).sum := by
  rw [srcIntensity_eq pi hp c kb lit mq cols dz dens temps nc hsig ktI j hj]
  exact clamp_band 𝓚 cols dz dens temps _ tmin tmax _ hv hm

/-! ### `path_integral` + `compute_final_flux`: the spectrum -/

/-- what the regenerated `path_integral` returns for wavenumber column `j`: `I` from the regenerated `evaluate_emission` at
    the angles `_mu_quads = (x+1)/2`, `_mu = 1/_mu_quads`, `_w = weight/2` for the `leggauss` nodes `xs` / weights `wts`
    (`np.pi = npPi`), followed by whatever `self.compute_final_flux` is (`final`) -/
noncomputable def srcSpectrum (final : ℝ → ℝ) (npPi tauE : ℝ) (cols : List (Col ℝ)) (dz dens temps : List ℝ) (nc : ℕ)
    (ktI : ℕ → ℝ) (xs wts : List ℝ) (j : ℕ) : ℝ :=
  Gen.SrcC02.path_integral
    (fn (xs.map (fun x => srcIntensity pi hp c kb lit (muOf x) cols dz dens temps nc ktI j))) final
    (fun q => muInvOf (xs.getD q 0)) xs.length npPi tauE (fun q => wOf (wts.getD q 0))

theorem srcSpectrum_eq (final : ℝ → ℝ) (npPi tauE : ℝ) (cols : List (Col ℝ)) (dz dens temps : List ℝ) (nc : ℕ)
    (hsig : ∀ j, j < cols.length → (cols.getD j ⟨0, []⟩).sig.length = nc) (ktI : ℕ → ℝ) (xs wts : List ℝ)
    (hlen : xs.length = wts.length) (j : ℕ) (hj : j < cols.length) :
    srcSpectrum pi hp c kb lit final npPi tauE cols dz dens temps nc ktI xs wts j
      = final (fluxCol 𝓚 npPi cols dz dens temps xs wts (cols.getD j ⟨0, []⟩)) := by
  have e : xs.map (fun x => srcIntensity pi hp c kb lit (muOf x) cols dz dens temps nc ktI j)
      = xs.map (fun x => intensity 𝓚 cols dz dens temps (muInvOf x) (cols.getD j ⟨0, []⟩)) := by
    apply List.map_congr_left
    intro x _
    exact srcIntensity_eq pi hp c kb lit (muOf x) cols dz dens temps nc hsig ktI j hj
  have h := src_path_integral npPi tauE
    (xs.map (fun x => intensity 𝓚 cols dz dens temps (muInvOf x) (cols.getD j ⟨0, []⟩))) xs wts final
    (by simp) (by simp [hlen])
  rw [List.length_map] at h
  unfold srcSpectrum fluxCol
  rw [e]
  exact h

/-- the eclipse spectrum: `path_integral` with the regenerated `EmissionModel.compute_final_flux` -/
noncomputable def srcEclipse (npPi tauE sed rp rs : ℝ) (cols : List (Col ℝ)) (dz dens temps : List ℝ) (nc : ℕ)
    (ktI : ℕ → ℝ) (xs wts : List ℝ) (j : ℕ) : ℝ :=
  srcSpectrum pi hp c kb lit (fun f => Gen.SrcC02.emission_final_flux f rp rs sed) npPi tauE cols dz dens temps nc
    ktI xs wts j

theorem srcEclipse_eq (npPi tauE sed rp rs : ℝ) (cols : List (Col ℝ)) (dz dens temps : List ℝ) (nc : ℕ)
    (hsig : ∀ j, j < cols.length → (cols.getD j ⟨0, []⟩).sig.length = nc) (ktI : ℕ → ℝ) (xs wts : List ℝ)
    (hlen : xs.length = wts.length) (j : ℕ) (hj : j < cols.length) :
    srcEclipse pi hp c kb lit npPi tauE sed rp rs cols dz dens temps nc ktI xs wts j
      = eclipse (fluxCol 𝓚 npPi cols dz dens temps xs wts (cols.getD j ⟨0, []⟩)) sed rp rs := by
  unfold srcEclipse
  rw [srcSpectrum_eq pi hp c kb lit _ npPi tauE cols dz dens temps nc hsig ktI xs wts hlen j hj]
  rfl

/-- isothermal atmosphere: the eclipse spectrum the regenerated code returns (stellar SED from the regenerated
    `Star.initialize` / `spectralEmissionDensity`, `np.pi = PI`) is exactly the blackbody ratio `B(T)/B(T*) (Rp/Rs)²` -/
theorem src_eclipse_isothermal_exact (tauE : ℝ) (cols : List (Col ℝ)) (dz dens temps : List ℝ) (nc : ℕ)
    (hsig : ∀ j, j < cols.length → (cols.getD j ⟨0, []⟩).sig.length = nc) (ktI : ℕ → ℝ) (j : ℕ)
    (hj : j < cols.length) (t ts rp rs : ℝ) (xs wts : List ℝ)
    (hpi : (𝓚).pi ≠ 0)
    (hT : ∀ l, l < temps.length → temps.getD l 0 = t) (hne : temps ≠ [])
    (hk : keepFrom cols dz dens temps.length 0 = true)
    (hlen : xs.length = wts.length) (hx : ∀ x ∈ xs, -1 < x)
    (h0 : wts.sum = 2) (h1 : ((xs.zip wts).map (fun p => p.2 * p.1)).sum = 0) :
    srcEclipse pi hp c kb lit (𝓚).pi tauE
        (Gen.SrcC02.star_sed (Gen.SrcC02.star_initialize (cols.getD j ⟨0, []⟩).nu kb pi hp c lit ts)) rp rs
        cols dz dens temps nc ktI xs wts j
      = planck 𝓚 (cols.getD j ⟨0, []⟩).nu t / planck 𝓚 (cols.getD j ⟨0, []⟩).nu ts * ((rp / rs) * (rp / rs)) := by
  rw [srcEclipse_eq pi hp c kb lit _ tauE _ rp rs cols dz dens temps nc hsig ktI xs wts hlen j hj, src_star_sed]
  exact eclipse_isothermal_exact 𝓚 cols dz dens temps _ t ts rp rs xs wts hpi hT hne hk hlen hx h0 h1

/-- **flux level**: the `flux_total` the regenerated `path_integral` hands to `compute_final_flux` lies between the Planck
    functions of the coldest and hottest temperature, the upper bound relaxed by the licensed `exp(-10)` -/
theorem src_flux_between (npPi tauE : ℝ) (cols : List (Col ℝ)) (dz dens temps : List ℝ) (nc : ℕ)
    (hsig : ∀ j, j < cols.length → (cols.getD j ⟨0, []⟩).sig.length = nc) (ktI : ℕ → ℝ) (j : ℕ)
    (hj : j < cols.length) (tmin tmax : ℝ) (xs wts : List ℝ)
    (hv : Valid 𝓚 cols dz dens temps (cols.getD j ⟨0, []⟩) tmin tmax) (hnp : 0 ≤ npPi)
    (hlen : xs.length = wts.length) (hx : ∀ x ∈ xs, -1 < x ∧ x ≤ 1) (hw : ∀ w ∈ wts, 0 ≤ w)
    (h0 : wts.sum = 2) (h1 : ((xs.zip wts).map (fun p => p.2 * p.1)).sum = 0) :
    npPi / (𝓚).pi * planck 𝓚 (cols.getD j ⟨0, []⟩).nu tmin
      ≤ srcSpectrum pi hp c kb lit (fun f => f) npPi tauE cols dz dens temps nc ktI xs wts j ∧
    srcSpectrum pi hp c kb lit (fun f => f) npPi tauE cols dz dens temps nc ktI xs wts j
      ≤ (1 + Real.exp (-10)) * (npPi / (𝓚).pi * planck 𝓚 (cols.getD j ⟨0, []⟩).nu tmax) := by
  rw [srcSpectrum_eq pi hp c kb lit _ npPi tauE cols dz dens temps nc hsig ktI xs wts hlen j hj]
  exact flux_between 𝓚 npPi cols dz dens temps _ tmin tmax xs wts hv hnp hlen hx hw h0 h1

/-- **eclipse level**: with `np.pi = PI` and a positive stellar SED, the eclipse depth the regenerated code returns lies
    between the black-body ratios of the coldest and hottest layer, times `(Rp/Rs)²`, the upper bound relaxed by `exp(-10)` -/
theorem src_eclipse_between (tauE : ℝ) (cols : List (Col ℝ)) (dz dens temps : List ℝ) (nc : ℕ)
    (hsig : ∀ j, j < cols.length → (cols.getD j ⟨0, []⟩).sig.length = nc) (ktI : ℕ → ℝ) (j : ℕ)
    (hj : j < cols.length) (tmin tmax sed rp rs : ℝ) (xs wts : List ℝ)
    (hv : Valid 𝓚 cols dz dens temps (cols.getD j ⟨0, []⟩) tmin tmax) (hsed : 0 < sed)
    (hlen : xs.length = wts.length) (hx : ∀ x ∈ xs, -1 < x ∧ x ≤ 1) (hw : ∀ w ∈ wts, 0 ≤ w)
    (h0 : wts.sum = 2) (h1 : ((xs.zip wts).map (fun p => p.2 * p.1)).sum = 0) :
    planck 𝓚 (cols.getD j ⟨0, []⟩).nu tmin / sed * ((rp / rs) * (rp / rs))
      ≤ srcEclipse pi hp c kb lit (𝓚).pi tauE sed rp rs cols dz dens temps nc ktI xs wts j ∧
    srcEclipse pi hp c kb lit (𝓚).pi tauE sed rp rs cols dz dens temps nc ktI xs wts j
      ≤ (1 + Real.exp (-10)) * (planck 𝓚 (cols.getD j ⟨0, []⟩).nu tmax / sed * ((rp / rs) * (rp / rs))) := by
  rw [srcEclipse_eq pi hp c kb lit _ tauE sed rp rs cols dz dens temps nc hsig ktI xs wts hlen j hj]
  exact eclipse_between 𝓚 cols dz dens temps _ tmin tmax sed rp rs xs wts hv hsed hlen hx hw h0 h1

end

/-! ### `evaluate_emission`: the contribution function -/

/-- column `j` of the contribution function `tau` the regenerated `evaluate_emission` returns (cross-section branch; what
    `path_integral` and `model()` hand on: `src_path_integral_tau`), one entry per layer -/
noncomputable def srcContrib (cols : List (Col ℝ)) (dz dens temps : List ℝ) (nc : ℕ) (ktT : ℕ → ℕ → ℝ) (j : ℕ) : List ℝ :=
  (List.range temps.length).map (fun l =>
    Gen.SrcC02.evaluate_emission_tau cols.length (10 : ℝ) (dispatch cols) (fn dz) (fn dens) ktT temps.length nc false l j)

theorem srcContrib_eq (k : PC ℝ) (cols : List (Col ℝ)) (dz dens temps : List ℝ) (nc : ℕ)
    (hsig : ∀ j, j < cols.length → (cols.getD j ⟨0, []⟩).sig.length = nc) (ktT : ℕ → ℕ → ℝ) (j : ℕ)
    (hj : j < cols.length) :
    srcContrib cols dz dens temps nc ktT j = contribFn k cols dz dens temps (cols.getD j ⟨0, []⟩) := by
  unfold srcContrib
  apply List.ext_getElem
  · simp [contribFn, rowsOf, rowsWith]
  · intro l h1 h2
    have hl : l < temps.length := by simpa using h1
    rw [List.getElem_map, List.getElem_range,
      src_evaluate_emission_tau k cols dz dens temps nc hsig ktT l j hl hj]
    rw [List.getD_eq_getElem?_getD, List.getElem?_eq_getElem h2]
    rfl

/-- **`contrib_sum` about the regenerated source**: the contribution function the regenerated `evaluate_emission` returns
    is non-negative, and its entries at one wavenumber sum to the absorbed fraction of the vertical ray through the whole
    column, within the licensed `exp(-10)` above `1 - exp(-surface_tau)` -/
theorem src_contrib_sum (cols : List (Col ℝ)) (dz dens temps : List ℝ) (nc : ℕ)
    (hsig : ∀ j, j < cols.length → (cols.getD j ⟨0, []⟩).sig.length = nc) (ktT : ℕ → ℕ → ℝ) (j : ℕ)
    (hj : j < cols.length) (hn : ∀ c ∈ cols, InputsNonneg c.sig dz dens) :
    (∀ x ∈ srcContrib cols dz dens temps nc ktT j, 0 ≤ x) ∧
    1 - Real.exp (-(surfTau dz dens temps (cols.getD j ⟨0, []⟩))) ≤ (srcContrib cols dz dens temps nc ktT j).sum ∧
    (srcContrib cols dz dens temps nc ktT j).sum
      ≤ 1 - Real.exp (-(surfTau dz dens temps (cols.getD j ⟨0, []⟩))) + Real.exp (-10) := by
  have hmem : cols.getD j ⟨0, []⟩ ∈ cols := by
    rw [List.getD_eq_getElem?_getD, List.getElem?_eq_getElem hj]
    exact List.getElem_mem hj
  rw [srcContrib_eq ⟨0, 0, 0, 0, 0, 0⟩ cols dz dens temps nc hsig ktT j hj]
  obtain ⟨h1, -, h3, h4⟩ := contrib_sum ⟨0, 0, 0, 0, 0, 0⟩ cols dz dens temps _ hmem hn
  exact ⟨h1, h3, h4⟩

end Taurex.C02SrcProps
