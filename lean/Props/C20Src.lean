/-
  C20 — source tie.  `TaurexModel/Gen/SrcC20.lean` is regenerated on every run by `harness/translate.py` from the source
  text of taurex/contributions/absorption.py, contribution.py, cia.py, taurex/model/emission.py and
  taurex/util/emission.py.  The theorems below state, for EVERY carrier, that each regenerated definition is the
  hand-written model function of `TaurexModel/KTau.lean` that the C20 theorems are about and that `driver_c20` executes
  (generic induction over the loops; the one place where the model is structured differently — it adds the surface
  k-term directly where the code adds it to a zeroed buffer first — needs `0 + x = x`, an explicit hypothesis).
  A source change that alters one of these functions makes the corresponding theorem fail to check.
-/
import TaurexModel.Gen.SrcC20
import TaurexModel.KTau
import Proofs.C02SrcLemmas
set_option linter.unusedSectionVars false

namespace Taurex.C20Src
open Taurex.Emission Taurex.KTau Taurex.SrcLemmas

section
variable {α : Type} [Add α] [Sub α] [Mul α] [Div α] [Neg α] [LT α] [LE α]
  [DecidableLT α] [DecidableLE α] [Taurex.Transc α] [OfNat α 0] [OfNat α 1] [OfNat α 2] [OfNat α 4] [OfNat α 10]
  [OfNat α 10000]

/-! ### the kernels (one wavenumber) -/

/-- `contribute_ktau(lo, hi, off, sigma, density, path, weights, tau, ngrid, layer, ngauss)` with `ngauss = len(weights)`:
    `tau[layer] += -log(Σ_g exp(-tau_temp[g])·w[g])`, `tau_temp[g] = Σ_k sigma[k+layer, g]·path[k]·density[k+off]`
    (the k-loop around the g-loop of the code is, for each g, the model's sum over k) -/
theorem contribute_ktau_eq (sigma : Nat → Nat → α) (density path : Nat → α) (ws : List α) (lo hi off layer : Nat)
    (tau : Nat → α) :
    Gen.SrcC20.contribute_ktau lo hi off sigma density path (fn ws) tau layer ws.length layer
      = tau layer + ktau ((List.range ws.length).map (fun g =>
          (List.range' lo (hi - lo)).foldl (fun a k => a + sigma (k + layer) g * path k * density (k + off)) 0)) ws := by
  unfold Gen.SrcC20.contribute_ktau ktau transK
  simp only [if_true]
  congr 3
  exact foldl_zip_range (fun t w => Transc.exp (-t) * w) _ _ ws
    (fun g hg => foldl_nested (fun k g => sigma (k + layer) g * path k * density (k + off)) ws.length _ _ g hg) 0

/-- transmission: `contribute_ktau(0, n-l, l, sigma, density, path, weights, tau, …, layer=l, ngauss)` is `ktauRow` -/
theorem src_contribute_ktau (sigma3 : List (List α)) (path dens ws : List α) (n l : Nat) (tau : Nat → α) :
    Gen.SrcC20.contribute_ktau 0 (n - l) l (at3 sigma3) (fn dens) (fn path) (fn ws) tau l ws.length l
      = ktauRow sigma3 path dens ws n l (tau l) := by
  rw [contribute_ktau_eq]
  unfold ktauRow tauG
  simp only [List.range_eq_range']
  rfl

/-- `contribute_ktau_emission(lo, hi, 0, sigma, density, dz, weights, ngrid, 0, ngauss)[g]` is `kRange … g` (`g < ngauss`) -/
theorem src_contribute_ktau_emission (sigma3 : List (List α)) (dz dens : List α) (w : Nat → α) (lo hi ng g : Nat)
    (hg : g < ng) :
    Gen.SrcC20.contribute_ktau_emission lo hi 0 (at3 sigma3) (fn dens) (fn dz) w 0 ng g
      = kRange sigma3 dz dens lo hi g :=
  foldl_nested (fun k g => at3 sigma3 (k + 0) g * fn dz k * fn dens (k + 0)) ng _ _ g hg

/-- cross-sections: `contribute_tau(0, n-l, l, sigma, density, path, …, layer=l, tau)` is `tauRowX` -/
theorem src_contribute_tau (sigma path dens : List α) (n l : Nat) (tau : Nat → α) :
    Gen.SrcC20.contribute_tau 0 (n - l) l (fn sigma) (fn dens) (fn path) l tau l
      = tauRowX sigma path dens n l (tau l) := by
  unfold tauRowX
  rw [List.range_eq_range']
  exact foldl_update_at (fun k => fn sigma (k + l) * fn path k * fn dens (k + l)) l _ tau

/-- `AbsorptionContribution.contribute` in k-table mode (`self._use_ktables`) calls `contribute_ktau` with
    `self.weights.shape[0]` quadrature points: `ktauRow` -/
theorem src_absorption_contribute_k (sigma3 : List (List α)) (path dens ws : List α) (sx : Nat → α) (n l : Nat)
    (tau : Nat → α) :
    Gen.SrcC20.absorption_contribute 0 (n - l) l l (fn dens) tau (fn path) ws.length (at3 sigma3) sx true (fn ws) l
      = ktauRow sigma3 path dens ws n l (tau l) :=
  src_contribute_ktau sigma3 path dens ws n l tau

/-- … and in cross-section mode `Contribution.contribute`, i.e. `contribute_tau`: `tauRowX` -/
theorem src_absorption_contribute_x (sk : Nat → Nat → α) (sigma path dens : List α) (w : Nat → α) (ng n l : Nat)
    (tau : Nat → α) :
    Gen.SrcC20.absorption_contribute 0 (n - l) l l (fn dens) tau (fn path) ng sk (fn sigma) false w l
      = tauRowX sigma path dens n l (tau l) :=
  src_contribute_tau sigma path dens n l tau

/-- `TransmissionModel.compute_absorption`, component 0 (one wavenumber), is `depth` on the rows
    `(altitude_l, dz_l, exp(-tau_l))` — the rows the driver builds, with the transmittance `np.exp(-tau)` the code forms
    first (`np.sum(…, axis=0)` read as the left-to-right sum from 0) -/
theorem src_compute_absorption (rp rs : α) (ap dz taus : List α) :
    Gen.SrcC20.compute_absorption (fn taus) (fn dz) (fn ap) ap.length rp rs
      = depth rp rs ((List.range ap.length).map (fun l => (ap.getD l 0, dz.getD l 0, Transc.exp (-(taus.getD l 0))))) := by
  unfold Gen.SrcC20.compute_absorption depth
  simp only [List.foldl_map, List.range_eq_range']
  rfl

/-! ### the emission integral in k-table mode -/

/-- the Planck function the emission integral calls (`black_body`, regenerated in this file too) is `planck` -/
theorem src_black_body (pi h c kb lit nu t : α) :
    Gen.SrcC20.black_body nu t kb pi h c lit = planck (pcOf pi h c kb lit) nu t := rfl

/-- what `contrib.contribute(self, lo, hi, off, layer, density, tau, path_length=path)` runs for the contribution at
    position `ci` of `non_molecule_absorption` on the one column of the `(1, nw)` buffer: `Contribution.contribute`
    (kind `lin`) or `CIAContribution.contribute` (kind `sq`, at least one pair), as regenerated from the source -/
def dispatchK (nonmol : List (Kind × List α)) (ci lo hi off layer : Nat) (density : Nat → α) (buf : α)
    (path : Nat → α) : α :=
  let c := nonmol.getD ci (Kind.lin, [])
  match c.1 with
  | .lin => Gen.SrcC20.contribution_contribute lo hi off layer density (fun _ => buf) path (fn c.2) layer
  | .sq => Gen.SrcC20.cia_contribute lo hi off layer density (fun _ => buf) path (fn c.2) 1 layer

theorem dispatchK_eq (nonmol : List (Kind × List α)) (dz dens : List α) (ci lo hi : Nat) (buf : α) :
    dispatchK nonmol ci lo hi 0 0 (fn dens) buf (fn dz) = tauAcc (nonmol.getD ci (Kind.lin, [])) dz dens lo hi buf := by
  unfold dispatchK
  generalize nonmol.getD ci (Kind.lin, []) = c
  obtain ⟨kd, sg⟩ := c
  cases kd
  · exact foldl_update_at (fun k => fn sg (k + 0) * fn dz k * fn dens (k + 0)) 0 _ (fun _ => buf)
  · unfold Gen.SrcC20.cia_contribute
    simp only [Nat.zero_lt_one, decide_true, if_true]
    exact foldl_update_at (fun k => fn sg (k + 0) * fn dz k * fn dens (k + 0) * fn dens (k + 0)) 0 _ (fun _ => buf)

/-- what `molecule_absorption.contribute(…)` runs: `AbsorptionContribution.contribute` in k-table mode with the
    k-coefficients `sigma3` and weights `ws` (the `sigma_xsec` of the cross-section branch is not read) -/
def molK (sigma3 : List (List α)) (ws : List α) (lo hi off layer : Nat) (density : Nat → α) (buf : α)
    (path : Nat → α) : α :=
  Gen.SrcC20.absorption_contribute lo hi off layer density (fun _ => buf) path ws.length (at3 sigma3) (fun _ => 0) true
    (fn ws) layer

/-- **`EmissionModel.evaluate_emission_ktables`**, component `I` of the returned tuple, for one wavenumber `nu` and one
    emission angle (`self._mu_quads[q] = mq`), with the molecular absorption present (`molecule_absorption is not None`),
    is the model's `emissionK`.  Instantiation of what the code reads: `non_molecule_absorption` = the contributions
    `nonmol` dispatched as in `dispatchK`, `molecule_absorption.contribute` = `molK` (k-table mode),
    `molecule_absorption.sigma_xsec[:, wn, :]` = `sigma3`, `.weights` = `ws`, `deltaz / densityProfile /
    temperatureProfile` = the model's lists, `nLayers` their length.  The statements that only feed the `tau` component
    (the only place where this function uses `self._clamp`) are dead with respect to `I` and dropped by the translator.
    Generic in the carrier up to `h0 : 0 + x = x` (the code accumulates the surface k-term into a zeroed buffer, the model
    adds it directly); induction over the loops, no other algebra. -/
theorem src_evaluate_emission_ktables (h0 : ∀ x : α, (0 : α) + x = x) (pi h c kb lit mq nu : α)
    (nonmol : List (Kind × List α)) (sigma3 : List (List α)) (ws dz dens temps : List α) :
    Gen.SrcC20.evaluate_emission_ktables nu ws.length kb pi h c lit (dispatchK nonmol) (fn dz) (fn dens) true
        (molK sigma3 ws) mq temps.length nonmol.length (at3 sigma3) (fn temps) (fn ws)
      = emissionK (pcOf pi h c kb lit) nonmol sigma3 ws dz dens temps nu ((1 : α) / mq) := by
  have hnon : ∀ lo hi (buf : α),
      (List.range' 0 nonmol.length).foldl (fun b ci => dispatchK nonmol ci lo hi 0 0 (fn dens) b (fn dz)) buf
        = nonmol.foldl (fun a c => tauAcc c dz dens lo hi a) buf := by
    intro lo hi buf
    have : (fun (b : α) ci => dispatchK nonmol ci lo hi 0 0 (fn dens) b (fn dz))
        = fun b ci => (fun a c => tauAcc c dz dens lo hi a) b (nonmol.getD ci (Kind.lin, [])) := by
      funext b ci; exact dispatchK_eq nonmol dz dens ci lo hi b
    rw [this]
    exact foldl_range'_getD (fun a c => tauAcc c dz dens lo hi a) nonmol _ buf
  have hpair : ∀ lo1 hi1 lo2 hi2 : Nat,
      (List.range' 0 nonmol.length).foldl (fun (st : α × α) ci =>
        (dispatchK nonmol ci lo1 hi1 0 0 (fn dens) st.1 (fn dz), dispatchK nonmol ci lo2 hi2 0 0 (fn dens) st.2 (fn dz)))
        ((0 : α), (0 : α))
      = (tauRange nonmol dz dens lo1 hi1, tauRange nonmol dz dens lo2 hi2) := by
    intro lo1 hi1 lo2 hi2
    rw [foldl_pair (fun (b : α) ci => dispatchK nonmol ci lo1 hi1 0 0 (fn dens) b (fn dz))
      (fun (b : α) ci => dispatchK nonmol ci lo2 hi2 0 0 (fn dens) b (fn dz)), hnon, hnon]
    rfl
  have hsurf : molK sigma3 ws 0 temps.length 0 0 (fn dens) (0 : α) (fun j => fn dz j * ((1 : α) / mq))
      = ktau ((List.range ws.length).map (kRangeScaled sigma3 dz dens ((1 : α) / mq) 0 temps.length)) ws := by
    unfold molK Gen.SrcC20.absorption_contribute
    simp only [if_true]
    rw [contribute_ktau_eq, h0]
    rfl
  have hsumL : ∀ l, (List.range' 0 ws.length).foldl (fun (a : α) r => a + Transc.exp
        ((-(Gen.SrcC20.contribute_ktau_emission (l + 1) temps.length 0 (at3 sigma3) (fn dens) (fn dz) (fn ws) 0 ws.length r))
          * ((1 : α) / mq)) * fn ws r) 0
      = transKmu ((List.range ws.length).map (kRange sigma3 dz dens (l + 1) temps.length)) ws ((1 : α) / mq) :=
    fun l => foldl_zip_range (fun t w => Transc.exp ((-t) * ((1 : α) / mq)) * w) _ _ ws
      (fun g hg => src_contribute_ktau_emission sigma3 dz dens (fn ws) (l + 1) temps.length ws.length g hg) 0
  have hsumD : ∀ l, (List.range' 0 ws.length).foldl (fun (a : α) r => a + Transc.exp
        ((-(Gen.SrcC20.contribute_ktau_emission l (l + 1) 0 (at3 sigma3) (fn dens) (fn dz) (fn ws) 0 ws.length r
            + Gen.SrcC20.contribute_ktau_emission (l + 1) temps.length 0 (at3 sigma3) (fn dens) (fn dz) (fn ws) 0 ws.length r))
          * ((1 : α) / mq)) * fn ws r) 0
      = transKmu ((List.range ws.length).map (fun g => kRange sigma3 dz dens l (l + 1) g
          + kRange sigma3 dz dens (l + 1) temps.length g)) ws ((1 : α) / mq) :=
    fun l => foldl_zip_range (fun t w => Transc.exp ((-t) * ((1 : α) / mq)) * w) _ _ ws
      (fun g hg => by rw [src_contribute_ktau_emission sigma3 dz dens (fn ws) l (l + 1) ws.length g hg,
        src_contribute_ktau_emission sigma3 dz dens (fn ws) (l + 1) temps.length ws.length g hg]) 0
  unfold Gen.SrcC20.evaluate_emission_ktables emissionK
  simp only [if_true, hpair, hnon, hsurf, hsumL, hsumD, List.range_eq_range']
  exact foldl_proj _ (fun (st : α × α × α × α) => st.2.2.2) _ _ (fun st l => rfl) _

/-- **`EmissionModel.evaluate_emission_ktables`** with NO molecular absorption in the contribution list
    (`molecule_absorption is None`: a model built without an AbsorptionContribution, and every non-molecular entry of
    `model_contrib()`): component `I` is the model's `emissionKNoMol`, whatever stands for the unread
    `molecule_absorption.contribute / .sigma_xsec / .weights` and `ngauss`.  Every carrier, no algebra. -/
theorem src_evaluate_emission_ktables_nomol (pi h c kb lit mq nu : α) (nonmol : List (Kind × List α))
    (dz dens temps : List α) (ng : Nat)
    (molc : Nat → Nat → Nat → Nat → (Nat → α) → α → (Nat → α) → α) (sk : Nat → Nat → α) (w : Nat → α) :
    Gen.SrcC20.evaluate_emission_ktables nu ng kb pi h c lit (dispatchK nonmol) (fn dz) (fn dens) false
        molc mq temps.length nonmol.length sk (fn temps) w
      = emissionKNoMol (pcOf pi h c kb lit) nonmol dz dens temps nu ((1 : α) / mq) := by
  have hnon : ∀ lo hi (buf : α),
      (List.range' 0 nonmol.length).foldl (fun b ci => dispatchK nonmol ci lo hi 0 0 (fn dens) b (fn dz)) buf
        = nonmol.foldl (fun a c => tauAcc c dz dens lo hi a) buf := by
    intro lo hi buf
    have : (fun (b : α) ci => dispatchK nonmol ci lo hi 0 0 (fn dens) b (fn dz))
        = fun b ci => (fun a c => tauAcc c dz dens lo hi a) b (nonmol.getD ci (Kind.lin, [])) := by
      funext b ci; exact dispatchK_eq nonmol dz dens ci lo hi b
    rw [this]
    exact foldl_range'_getD (fun a c => tauAcc c dz dens lo hi a) nonmol _ buf
  have hpair : ∀ lo1 hi1 lo2 hi2 : Nat,
      (List.range' 0 nonmol.length).foldl (fun (st : α × α) ci =>
        (dispatchK nonmol ci lo1 hi1 0 0 (fn dens) st.1 (fn dz), dispatchK nonmol ci lo2 hi2 0 0 (fn dens) st.2 (fn dz)))
        ((0 : α), (0 : α))
      = (tauRange nonmol dz dens lo1 hi1, tauRange nonmol dz dens lo2 hi2) := by
    intro lo1 hi1 lo2 hi2
    rw [foldl_pair (fun (b : α) ci => dispatchK nonmol ci lo1 hi1 0 0 (fn dens) b (fn dz))
      (fun (b : α) ci => dispatchK nonmol ci lo2 hi2 0 0 (fn dens) b (fn dz)), hnon, hnon]
    rfl
  unfold Gen.SrcC20.evaluate_emission_ktables emissionKNoMol
  simp only [Bool.false_eq_true, if_false, hpair, hnon, List.range_eq_range']
  exact foldl_proj _ (fun (st : α × α × α × α) => st.2.2.2) _ _ (fun st l => rfl) _

/-- components `_mu`, `_w` of the tuple `evaluate_emission_ktables` returns, for the `leggauss` node `x` / weight `wt`
    (`_mu_quads = muOf x`, `_wi_quads = wOf wt` by `set_num_gauss`, tied in `Props/C02Src.lean`): what `fluxOf` uses -/
theorem src_evaluate_emission_ktables_mu (nu x : α) (ng : Nat) :
    Gen.SrcC20.evaluate_emission_ktables_mu nu ng (muOf x) = muInvOf x := rfl

theorem src_evaluate_emission_ktables_w (nu wt : α) (ng : Nat) :
    Gen.SrcC20.evaluate_emission_ktables_w nu ng (wOf wt) = wOf wt := rfl

end

end Taurex.C20Src
