/-
  C15 — source tie.  `TaurexModel/Gen/SrcC15.lean` is regenerated on every run by the `dyn` dialect of the source translator
  (`harness/translate_dyn.py`) from the source text of taurex/parameter/parameterparser.py, taurex/parameter/factory.py and
  taurex/mixin/core.py.  The regenerated definitions are DYNAMICALLY TYPED Python (values `Dyn.Val`, exceptions `Dyn.Exc`,
  primitives of `TaurexModel/Gen/DynPrelude.lean`), polymorphic in the monad and in one oracle `ext` that answers what the
  code asks of classes, modules and other objects.  The theorems below instantiate the monad with `Except Dyn.Exc` and the
  oracle with `World.ext` (`Proofs/C15SrcOracle.lean`: the registry of the model seen as `ClassFactory`, `inspect`, class
  objects; FOR EVERY world, i.e. whatever the constructors do, whichever exception a class without keywords raises, whatever
  the parameters without default are called) and state that, on the embedding `emb` / `embCfg` of the model's data, each
  regenerated function returns the embedding of what the hand-written function of `TaurexModel/Factory.lean` returns — the
  function `driver_c15` executes and the C15 theorems are about.  A model error corresponds to the exception class
  `errExc` names.  Dictionaries are association lists with distinct keys (`KeysNodup`, which a Python `dict` guarantees).
  A source change that alters one of these functions makes the corresponding theorem fail.

  `create_chemistry`, the thin wrappers `create_temperature_profile` / `create_pressure_profile` and the glue of
  `ParameterParser` (`generate_chemistry_profile / pressure_profile / temperature_profile / planet / star / optimizer /
  observation / instrument / model`, `create_snr`) are tied too: the parser object is `Obj.parser f` (`f` = the typed file,
  `self._raw_config.dict()` = `embFile f`, a fresh dictionary on every call), each `generate_<x>` is the corresponding slot
  of `Factory.expected` (`optV`: `None` for an absent section) with the constructor calls left to the world
  (`profileV`, `lenientV`, `observationV`, `instrumentV`, `modelV`); the `…_eq_…` theorems identify these with
  `Factory.createProfile / createLenient / createChemistry / generateObservation / generateInstrument / createModel` for
  every world whose constructor calls are the model's `instantiate`.  In `generate_observation` / `generate_instrument`
  the names `observation_config` / `inst_config` alias an entry of the private copy `config` (spec key `unshared`): the
  copy is not read again before the function returns.
-/
import Proofs.C15SrcLemmas
import Proofs.C15SrcDetect
import Props.C15
set_option linter.unusedSectionVars false
set_option linter.unusedVariables false
set_option linter.unusedSimpArgs false

namespace Taurex.C15Src
open Taurex.Gen Taurex.Gen.Dyn
open Taurex.Factory (Scalar Value Config Klass Registry SectionReg Resolved Err Customs Component Sec InputFile)

/-! ## `ParameterParser.transform` -/

/-- **`ParameterParser.transform(section, key)`** types the raw value exactly as `Factory.transform`: a list becomes the
    list of its floats when every element converts (`float()` = `toFloat`, i.e. `parseNumber` on strings) and is left alone
    otherwise, a string becomes a bool by the two word lists (lower-cased), else a float if `float()` accepts it, else
    stays; anything else is untouched.  The typed value is returned AND stored back under the same key. -/
theorem src_transform (w : World) (sec : List (V × V)) (key : V) (v : Value) (hk : key.hashable = true)
    (h : dictGet? sec key = some (emb v)) :
    SrcC15.transform w.ext (.dict sec) key
      = .ok (emb (Factory.transform v), .dict (dictSet sec key (emb (Factory.transform v)))) := by
  unfold SrcC15.transform
  simp only [Dyn.getItem, hk, if_true, h, pure_ok, bind_ok, Dyn.setItem]
  cases v with
  | scalar s =>
    cases s with
    | str t =>
      have e1 : (Dyn.Val.list [(Dyn.Val.str "true"), (Dyn.Val.str "yes"), (Dyn.Val.str "yeah"), (Dyn.Val.str "yup"),
          (Dyn.Val.str "certainly"), (Dyn.Val.str "uh-huh")] : V) = .list (Factory.trueWords.map .str) := rfl
      have e2 : (Dyn.Val.list [(Dyn.Val.str "false"), (Dyn.Val.str "no"), (Dyn.Val.str "nope"), (Dyn.Val.str "no-way"),
          (Dyn.Val.str "hell-no")] : V) = .list (Factory.falseWords.map .str) := rfl
      have hv : emb (Value.scalar (Scalar.str t)) = .str t := rfl
      have hl : Dyn.strLower t = Factory.lower t := rfl
      simp only [hv, Dyn.Val.isTy, Bool.false_eq_true, if_false, if_true, Dyn.m_lower, pure_ok, bind_ok, e1, e2,
        contains_words, Factory.transform, hl, List.contains_iff_mem, decide_eq_true_eq]
      by_cases h1 : Factory.lower t ∈ Factory.trueWords
      · simp only [h1, if_true, bind_ok]; rfl
      · by_cases h2 : Factory.lower t ∈ Factory.falseWords
        · simp only [h1, h2, if_true, if_false, bind_ok]; rfl
        · simp only [h1, h2, if_false, Dyn.float_, ext_parseFloat]
          cases hp : Factory.parseNumber t with
          | none => simp only [throw_err, bind_err, try_err, isa_exception, if_true, bind_ok, hv]
          | some x =>
            have hx : emb (Value.scalar x) = .float x := parseNumber_float t x hp
            simp only [pure_ok, bind_ok, try_ok, hx]
    | _ => simp [emb, embS, Dyn.Val.isTy, Factory.transform]
  | list l =>
    simp only [emb, Dyn.Val.isTy, if_true, Dyn.iter, pure_ok, bind_ok, bind_ok_right, Factory.transform]
    cases hm : l.mapM Factory.toFloat with
    | some ns => simp [mapM_float_some w (fun a => Dyn.float_ w.ext a) (fun _ => rfl) l ns hm, emb]
    | none =>
      obtain ⟨e, he⟩ := mapM_float_none w (fun a => Dyn.float_ w.ext a) (fun _ => rfl) l hm
      simp [he, isa_exception, emb]
  | other r => simp [emb, Dyn.Val.isTy, Factory.transform]
  | ref r => simp [emb, Dyn.Val.isTy, Factory.transform]

/-! ## constructor keywords and the strict key check -/

/-- **`get_keywordarg_dict(klass)`** (`is_mixin=False`): the trailing parameters of `klass.__init__` with their defaults
    are the `kwargs` column of the registry (`Factory.kwargDict (.plain k)`; `dictOfPairs` is the identity on a list with
    distinct names, which Python's syntax guarantees for parameters) -/
theorem src_get_keywordarg_dict (w : World) (k : Klass) :
    SrcC15.get_keywordarg_dict w.ext (kobj k) (.bool false) = .ok (.dict (embCfg (Factory.dictOfPairs k.kwargs))) := by
  unfold SrcC15.get_keywordarg_dict
  simp only [Dyn.truthy, pure_ok, bind_ok, Bool.not_false, if_true, ext_global_inspect, kobj, Dyn.getAttr,
    ext_getattr_init, Dyn.callMethod, ext_getfullargspec, Dyn.getSlice, ext_getslice4, Dyn.unpack4, Dyn.unpack, Dyn.iter,
    List.length_cons, List.length_nil]
  by_cases he : k.kwargs = []
  · simp [argspecDefaults, specKwargs, he, Dyn.Val.isNone, Factory.dictOfPairs, embCfg]
  · have hne : (k.kwargs.isEmpty) = false := by simp [he]
    have hnames : (k.kwargs.map (fun kv => (Dyn.Val.str kv.1 : V))) ≠ [] := by simpa using he
    have hs := slice_tail (w.argsPre k) (k.kwargs.map (fun kv => (Dyn.Val.str kv.1 : V))) hnames
    simp only [List.length_map] at hs
    simp only [argspecDefaults, argspecArgs, specKwargs, hne, Bool.false_eq_true, if_false, Dyn.Val.isNone, Dyn.len,
      pure_ok, bind_ok, Dyn.neg, Dyn.sliceBound, List.length_map, hs, Dyn.zip_, Dyn.iter]
    have h0 : (Dyn.Val.dict [] : V) = .dict (embCfg []) := rfl
    rw [h0, forM_zip_set w _ _ k.kwargs [] keysNodup_nil]
    · rfl
    · intro acc k v
      simp only [Dyn.unpack2, Dyn.unpack, Dyn.iter, pure_ok, bind_ok, List.length_cons, List.length_nil, if_true,
        bind_ok_right]

/-- **`create_klass(config, klass, False)`**: the strict key check is `Factory.createKlass` over the constructor defaults;
    a config that passes reaches `klass(**kwargs)` with exactly the keyword arguments `createKlass` computes (for EVERY
    behaviour `w.call` of the constructor); an unknown key raises `KeyError` before the class is called. -/
theorem src_create_klass (w : World) (k : Klass) (cfg : Config) (hc : KeysNodup cfg) :
    SrcC15.create_klass w.ext (.dict (embCfg cfg)) (kobj k) (.bool false)
      = match Factory.createKlass (Factory.dictOfPairs k.kwargs) cfg with
        | .ok kw => w.call (.klass k) [] (embKw kw)
        | .error e => .error (errExc e) := by
  unfold SrcC15.create_klass
  simp only [src_get_keywordarg_dict, bind_ok, Dyn.iter, pure_ok, keys_embCfg]
  rw [forM_sim (fun kv : String × Value => (Dyn.Val.str kv.1 : V)) (fun c : Config => (Dyn.Val.dict (embCfg c) : V))
    KeysNodup _ (fun kw kv => if Factory.hasKey kw kv.1 then .ok (Factory.dictSet kw kv.1 kv.2)
                              else .error (Err.keyError kv.1)) cfg cfg (fun _ h => h) _ _ (keysNodup_dictOfPairs _)]
  · show (embE _ (Factory.createKlass (Factory.dictOfPairs k.kwargs) cfg) >>= _) = _
    cases Factory.createKlass (Factory.dictOfPairs k.kwargs) cfg with
    | error e => rfl
    | ok kw => simp only [embE, bind_ok, starStar_emb, kobj, Dyn.call, ext_call_klass, bind_ok_right]
  · intro acc kv hm ha
    simp only [Dyn.contains, hashable_str, if_true, pure_ok, bind_ok, dictHas_emb]
    by_cases hh : Factory.hasKey acc kv.1 = true
    · simp only [hh, if_true, Dyn.getItem, hashable_str, dictGet_emb, lookup_of_mem cfg hc kv hm, Option.map_some,
        pure_ok, bind_ok, Dyn.setItem, dictSet_emb acc ha, embE, true_and]
      intro s' hs'
      cases hs'
      exact nodup_dictSet acc ha _ _
    · simp only [hh, Bool.false_eq_true, if_false, kobj, Dyn.getAttr, ext_getattr_name, bind_ok, Dyn.m_keys, pure_ok,
        throw_err, bind_err, embE, errExc, true_and]
      intro s' hs'
      cases hs'

/-! ## the class factories -/

/-- after unfolding: `ClassFactory()` and its attribute, then the loop (`factory_core`) -/
macro "section_factory" : tactic => `(tactic| (
  simp only [ext_global_cf, bind_ok, Dyn.call, ext_call_cf, Dyn.getAttr, pure_ok]
  rw [factory_core _ ‹_› _]
  all_goals first | exact Eq.trans rfl (factory_eq _ _) | rfl | (intro k; rfl)))

/-- `gas_factory(kw)` is `Factory.factory` on the registry section "gas" -/
theorem src_gas_factory (w : World) (hw : WorldOK w) (kw : String) :
    SrcC15.gas_factory w.ext (.str kw) = embE kobj (Factory.factory (w.reg.sec "gas") kw) := by
  unfold SrcC15.gas_factory
  section_factory

/-- `temp_factory(kw)` is `Factory.factory` on the registry section "temperature" -/
theorem src_temp_factory (w : World) (hw : WorldOK w) (kw : String) :
    SrcC15.temp_factory w.ext (.str kw) = embE kobj (Factory.factory (w.reg.sec "temperature") kw) := by
  unfold SrcC15.temp_factory
  section_factory

/-- `chemistry_factory(kw)` is `Factory.factory` on the registry section "chemistry" -/
theorem src_chemistry_factory (w : World) (hw : WorldOK w) (kw : String) :
    SrcC15.chemistry_factory w.ext (.str kw) = embE kobj (Factory.factory (w.reg.sec "chemistry") kw) := by
  unfold SrcC15.chemistry_factory
  section_factory

/-- `pressure_factory(kw)` is `Factory.factory` on the registry section "pressure" -/
theorem src_pressure_factory (w : World) (hw : WorldOK w) (kw : String) :
    SrcC15.pressure_factory w.ext (.str kw) = embE kobj (Factory.factory (w.reg.sec "pressure") kw) := by
  unfold SrcC15.pressure_factory
  section_factory

/-- `star_factory(kw)` is `Factory.factory` on the registry section "star" -/
theorem src_star_factory (w : World) (hw : WorldOK w) (kw : String) :
    SrcC15.star_factory w.ext (.str kw) = embE kobj (Factory.factory (w.reg.sec "star") kw) := by
  unfold SrcC15.star_factory
  section_factory

/-- `model_factory(kw)` is `Factory.factory` on the registry section "model" -/
theorem src_model_factory (w : World) (hw : WorldOK w) (kw : String) :
    SrcC15.model_factory w.ext (.str kw) = embE kobj (Factory.factory (w.reg.sec "model") kw) := by
  unfold SrcC15.model_factory
  section_factory

/-- `planet_factory(kw)` is `Factory.factory` on the registry section "planet" -/
theorem src_planet_factory (w : World) (hw : WorldOK w) (kw : String) :
    SrcC15.planet_factory w.ext (.str kw) = embE kobj (Factory.factory (w.reg.sec "planet") kw) := by
  unfold SrcC15.planet_factory
  section_factory

/-- `optimizer_factory(kw)` is `Factory.factory` on the registry section "optimizer" -/
theorem src_optimizer_factory (w : World) (hw : WorldOK w) (kw : String) :
    SrcC15.optimizer_factory w.ext (.str kw) = embE kobj (Factory.factory (w.reg.sec "optimizer") kw) := by
  unfold SrcC15.optimizer_factory
  section_factory

/-- `observation_factory(kw)` is `Factory.factory` on the registry section "observation" -/
theorem src_observation_factory (w : World) (hw : WorldOK w) (kw : String) :
    SrcC15.observation_factory w.ext (.str kw) = embE kobj (Factory.factory (w.reg.sec "observation") kw) := by
  unfold SrcC15.observation_factory
  section_factory

/-- `instrument_factory(kw)` is `Factory.factory` on the registry section "instrument" -/
theorem src_instrument_factory (w : World) (hw : WorldOK w) (kw : String) :
    SrcC15.instrument_factory w.ext (.str kw) = embE kobj (Factory.factory (w.reg.sec "instrument") kw) := by
  unfold SrcC15.instrument_factory
  section_factory

/-- `generic_factory`'s table: `baseclass.__name__` → registry section -/
def genericBases : List (String × String) :=
  [("TemperatureProfile", "temperature"), ("Chemistry", "chemistry"), ("Gas", "gas"), ("PressureProfile", "pressure"),
   ("BasePlanet", "planet"), ("Star", "star"), ("Instrument", "instrument"), ("ForwardModel", "model"),
   ("Contribution", "contribution"), ("Optimizer", "optimizer"), ("BaseSpectrum", "observation")]

/-- **`generic_factory(kw, baseclass)`**: the dictionary `baseclass.__name__ → ClassFactory attribute` composed with the
    attribute's class list is the registry section of that base class; the loop is `Factory.factory` -/
theorem src_generic_factory (w : World) (hw : WorldOK w) (kw name sec : String) (h : (name, sec) ∈ genericBases) :
    SrcC15.generic_factory w.ext (.str kw) (.obj (.base name sec)) = embE kobj (Factory.factory (w.reg.sec sec) kw) := by
  unfold SrcC15.generic_factory
  simp only [genericBases, List.mem_cons, Prod.mk.injEq, List.mem_nil_iff, or_false] at h
  rcases h with ⟨rfl, rfl⟩ | ⟨rfl, rfl⟩ | ⟨rfl, rfl⟩ | ⟨rfl, rfl⟩ | ⟨rfl, rfl⟩ | ⟨rfl, rfl⟩ | ⟨rfl, rfl⟩ | ⟨rfl, rfl⟩ |
    ⟨rfl, rfl⟩ | ⟨rfl, rfl⟩ | ⟨rfl, rfl⟩
  all_goals
    simp only [ext_global_cf, bind_ok, Dyn.call, ext_call_cf, Dyn.getAttr, ext_getattr_base, Dyn.getItem, hashable_str,
      if_true, dictGet?, beq_str, String.reduceBEq, Bool.false_eq_true, if_false, pure_ok, Dyn.getattrDyn]
    rw [factory_core w hw kw]
  all_goals first | exact Eq.trans rfl (factory_eq _ kw) | rfl | (intro k; rfl)

/-- **`mixin_factory(kw, baseclass)`** is `Factory.mixinFactory` on the mixin list of the section -/
theorem src_mixin_factory (w : World) (hw : WorldOK w) (kw name sec : String) (h : (name, sec) ∈ mixinBases) :
    SrcC15.mixin_factory w.ext (.str kw) (.obj (.base name sec))
      = embE kobj (Factory.mixinFactory (w.reg.sec sec) kw) := by
  unfold SrcC15.mixin_factory
  simp only [mixinBases, List.mem_cons, Prod.mk.injEq, List.mem_nil_iff, or_false] at h
  rcases h with ⟨rfl, rfl⟩ | ⟨rfl, rfl⟩ | ⟨rfl, rfl⟩ | ⟨rfl, rfl⟩ | ⟨rfl, rfl⟩ | ⟨rfl, rfl⟩ | ⟨rfl, rfl⟩ | ⟨rfl, rfl⟩ |
    ⟨rfl, rfl⟩ | ⟨rfl, rfl⟩ | ⟨rfl, rfl⟩
  all_goals
    simp only [ext_global_cf, bind_ok, Dyn.call, ext_call_cf, Dyn.getAttr, ext_getattr_base, Dyn.getItem, hashable_str,
      if_true, dictGet?, beq_str, String.reduceBEq, Bool.false_eq_true, if_false, pure_ok, Dyn.getattrDyn]
    rw [factory_core w hw kw]
  all_goals first | exact Eq.trans rfl (mixinFactory_eq _ kw) | rfl | (intro k; rfl)

/-! ## composite (`+`) classes -/

/-- **`determine_mixin_args(klasses)`**: the defaults of every base — `__init_mixin__`'s for a mixin, `__init__`'s otherwise,
    classes without defaults skipped — merged in order, a later name overriding the value of an earlier one:
    `Factory.determineMixinArgs` -/
theorem src_determine_mixin_args (w : World) (bases : List Klass) :
    SrcC15.determine_mixin_args w.ext (.tuple (bases.map kobj))
      = .ok (.dict (embCfg (Factory.determineMixinArgs bases))) := by
  unfold SrcC15.determine_mixin_args
  simp only [Dyn.iter, pure_ok, bind_ok]
  have h0 : ((Dyn.Val.list [] : V), (Dyn.Val.list [] : V)) = mixState [] := rfl
  rw [h0, forIn_sim kobj mixState _ (fun acc k => acc ++ specKwargs k k.isMixin) bases]
  · simp only [bind_ok, foldl_append_flatMap, List.nil_append, mixState, Dyn.zip_, Dyn.iter, pure_ok]
    have h1 : (Dyn.Val.dict [] : V) = .dict (embCfg []) := rfl
    rw [h1, forM_zip_set w _ _ _ [] keysNodup_nil]
    · simp only [bind_ok, Factory.determineMixinArgs, Factory.dictOfPairs, specKwargs]
    · intro acc k v
      simp only [Dyn.unpack2, Dyn.unpack, Dyn.iter, pure_ok, bind_ok, List.length_cons, List.length_nil, if_true]
  · intro acc k
    have key : ∀ mx : Bool,
        (specKwargs k mx = [] ∧ argspecDefaults k mx = .none) ∨
        (specKwargs k mx ≠ [] ∧ argspecDefaults k mx = .tuple ((specKwargs k mx).map (fun kv => emb kv.2)) ∧
          sliceList (w.argsPre k ++ (specKwargs k mx).map (fun kv => (Dyn.Val.str kv.1 : V)))
            (some (-((specKwargs k mx).length : Int))) none = (specKwargs k mx).map (fun kv => (Dyn.Val.str kv.1 : V))) := by
      intro mx
      by_cases he : specKwargs k mx = []
      · left; exact ⟨he, by simp [argspecDefaults, he]⟩
      · right
        have hnames : ((specKwargs k mx).map (fun kv => (Dyn.Val.str kv.1 : V))) ≠ [] := by simpa using he
        have hs := slice_tail (w.argsPre k) ((specKwargs k mx).map (fun kv => (Dyn.Val.str kv.1 : V))) hnames
        simp only [List.length_map] at hs
        exact ⟨he, by simp [argspecDefaults, he], hs⟩
    cases hmx : k.isMixin
    · rcases key false with ⟨he, hd⟩ | ⟨he, hd, hs⟩
      · right
        simp [kobj, Dyn.getAttr, Dyn.callMethod, Dyn.truthy, hmx, hd, he, mixState]
      · left
        have hne : (specKwargs k false).isEmpty = false := by simp [he]
        simp [kobj, Dyn.getAttr, Dyn.callMethod, Dyn.truthy, hmx, hd, he, hne, mixState, argspecArgs, Dyn.m_extend,
          Dyn.iter, Dyn.len, Dyn.neg, Dyn.getSlice, Dyn.sliceBound, hs]
    · rcases key true with ⟨he, hd⟩ | ⟨he, hd, hs⟩
      · right
        simp [kobj, Dyn.getAttr, Dyn.callMethod, Dyn.truthy, hmx, hd, he, mixState]
      · left
        have hne : (specKwargs k true).isEmpty = false := by simp [he]
        simp [kobj, Dyn.getAttr, Dyn.callMethod, Dyn.truthy, hmx, hd, he, hne, mixState, argspecArgs, Dyn.m_extend,
          Dyn.iter, Dyn.len, Dyn.neg, Dyn.getSlice, Dyn.sliceBound, hs]

/-- **`get_keywordarg_dict(klass, is_mixin=True)`** on a class built by `build_new_mixed_class`: the merged defaults of its
    bases (mixins first, base class last) — `Factory.kwargDict (.mixed ms b)` -/
theorem src_get_keywordarg_dict_mixed (w : World) (ms : List Klass) (b : Klass) :
    SrcC15.get_keywordarg_dict w.ext (.obj (.mixed ms b)) (.bool true)
      = .ok (.dict (embCfg (Factory.kwargDict (.mixed ms b)))) := by
  unfold SrcC15.get_keywordarg_dict
  simp only [Dyn.truthy, pure_ok, bind_ok, Bool.not_true, Bool.false_eq_true, if_false, Dyn.getAttr, ext_getattr_bases,
    src_determine_mixin_args, Factory.kwargDict]

/-! ## `determine_klass` -/

/-- the class object a resolved selector stands for -/
def robj : Resolved → V
  | .plain k => kobj k
  | .mixed ms b => .obj (.mixed ms b)

def isMixed : Resolved → Bool
  | .plain _ => false
  | .mixed _ _ => true

/-- what `determine_klass` returns: `(config, klass, is_mixin)`, and the popped config (its first argument, mutated) -/
def embDKx (extra : List (V × V)) (p : Config × Resolved) : V × V :=
  (.tuple [.dict (embCfg p.1 ++ extra), robj p.2, .bool (isMixed p.2)], .dict (embCfg p.1 ++ extra))

/-- … for a section without sub-sections -/
def embDK (p : Config × Resolved) : V × V :=
  (.tuple [.dict (embCfg p.1), robj p.2, .bool (isMixed p.2)], .dict (embCfg p.1))

/-- **`determine_klass(config, field, factory, baseclass)`** is `Factory.determineKlass`: the selector is popped
    (`KeyError` when missing, `AttributeError` when it was typed as a number / bool / list), lower-cased; `custom` pops
    `python_file` and asks `detect_and_return_klass`; otherwise the selector is split at `+`: one part → `factory(part)`,
    several → the LAST part is the base class (`factory`), the others are mixins (`mixin_factory`, in order, after the
    base), combined by `build_new_mixed_class` (a repeated mixin is a `TypeError`).  The function returns the popped config,
    the class and the mixin flag; `f` is the section's factory (`src_*_factory`). -/
theorem src_determine_klass_ext (w : World) (hw : WorldOK w) (name sec field : String) (cfg : Config) (f : V → M V)
    (extra : List (V × V)) (hx1 : KeyFree extra field) (hx2 : KeyFree extra "python_file")
    (hf : ∀ kw, f (.str kw) = embE kobj (Factory.factory (w.reg.sec sec) kw)) (hb : (name, sec) ∈ mixinBases) :
    SrcC15.determine_klass w.ext (.dict (embCfg cfg ++ extra)) (.str field) f (.obj (.base name sec))
      = embE (embDKx extra) (Factory.determineKlass (w.reg.sec sec) w.customs sec field cfg) := by
  unfold SrcC15.determine_klass Factory.determineKlass
  simp only [m_pop_append w _ extra field hx1]
  cases hp : Factory.popKey cfg field with
  | none => simp [embE, errExc, Exc.isaAny, Exc.isa]
  | some p =>
    obtain ⟨v, cfg1⟩ := p
    simp only [bind_ok, m_lower_emb]
    cases v with
    | scalar s =>
      cases s with
      | str sel =>
        simp only [pure_ok, bind_ok, try_ok, Dyn.eqB, beq_str]
        by_cases hc : Factory.lower sel = "custom"
        · have hc' : (Factory.lower sel == "custom") = true := by simp [hc]
          simp only [hc, hc', if_true, m_pop_append w _ extra "python_file" hx2]
          cases hp2 : Factory.popKey cfg1 "python_file" with
          | none => simp [embE, errExc, Exc.isaAny, Exc.isa]
          | some p2 =>
            obtain ⟨v2, cfg2⟩ := p2
            have hg : w.ext.global "detect_and_return_klass" = .ok (.obj (.fn "detect_and_return_klass")) :=
              ext_global_fn w _ (by decide) (by decide) (by decide)
            simp only [bind_ok, pure_ok, try_ok, hg, Dyn.call, beq_self_eq_true, if_true, ext_call_detect]
            cases v2 with
            | scalar s2 =>
              cases s2 with
              | str file =>
                simp only []
                cases w.customs.lookup file with
                | none => rfl
                | some members =>
                  cases hd : Factory.detectKlass members sec <;>
                    simp [hd, embE, embDKx, Except.map, robj, isMixed, errExc]
              | _ => rfl
            | _ => rfl
        · have hc' : (Factory.lower sel == "custom") = false := by simp [hc]
          simp only [hc, hc', Bool.false_eq_true, if_false, m_split_plus, bind_ok, Dyn.len, pure_ok, Dyn.eqB, List.length_map]
          have hne : Factory.splitPlus (Factory.lower sel) ≠ [] := by
            simp only [Factory.splitPlus, ne_eq, List.map_eq_nil_iff]
            exact splitOnC_ne_nil _ _
          have hone : ∀ one, Factory.splitPlus (Factory.lower sel) = [one] → one = Factory.lower sel :=
            fun one h => splitPlus_single _ one h
          generalize Factory.splitPlus (Factory.lower sel) = parts at hne hone
          have hg : w.ext.global "build_new_mixed_class" = .ok (.obj (.fn "build_new_mixed_class")) :=
            ext_global_fn w _ (by decide) (by decide) (by decide)
          match parts, hne, hone with
          | [], hne, _ => exact absurd rfl hne
          | [one], _, hone =>
            have := hone one rfl
            subst this
            simp only [List.length_cons, List.length_nil, Dyn.Val.beq, hf]
            cases hfa : Factory.factory (w.reg.sec sec) (Factory.lower sel) <;>
              simp [hfa, embE, embDKx, Except.map, robj, isMixed]
          | a :: b :: rest, _, _ =>
            have hlen : (Dyn.Val.beq (φ := Scalar) (ω := Obj) (.int ((a :: b :: rest).length : Nat)) (.int 1)) = false := by
              simp [Dyn.Val.beq]
              omega
            simp only [hlen, Bool.false_eq_true, if_false, getItem_last w (a :: b :: rest) (by simp), bind_ok, hf,
              getSlice_init, Dyn.iter, pure_ok, hg, Dyn.call]
            cases hfa : Factory.factory (w.reg.sec sec) (Factory.lastOf (a :: b :: rest)) with
            | error e => simp [hfa, embE, bind, Except.bind]
            | ok base =>
              simp only [embE, bind_ok]
              rw [mapM_sim _ (Factory.mixinFactory (w.reg.sec sec)) (fun s => src_mixin_factory w hw s name sec hb)]
              cases hms : (Factory.initOf (a :: b :: rest)).mapM (Factory.mixinFactory (w.reg.sec sec)) with
              | error e => simp [hms, embE, bind, Except.bind]
              | ok ms =>
                simp only [embE, bind_ok, ext_call_build]
                by_cases hd : Factory.hasDup (ms.map (·.path)) = true
                · simp [hd, hms, bind, Except.bind, errExc, throw, throwThe, MonadExceptOf.throw]
                · simp [hd, hms, bind, Except.bind, embDKx, robj, isMixed, pure, Except.pure]
      | _ => simp [embE, errExc, Exc.isaAny, Exc.isa, Exc.base]
    | _ => simp [embE, errExc, Exc.isaAny, Exc.isa, Exc.base]

/-- `determine_klass` on a section without sub-sections -/
theorem src_determine_klass (w : World) (hw : WorldOK w) (name sec field : String) (cfg : Config) (f : V → M V)
    (hf : ∀ kw, f (.str kw) = embE kobj (Factory.factory (w.reg.sec sec) kw)) (hb : (name, sec) ∈ mixinBases) :
    SrcC15.determine_klass w.ext (.dict (embCfg cfg)) (.str field) f (.obj (.base name sec))
      = embE embDK (Factory.determineKlass (w.reg.sec sec) w.customs sec field cfg) := by
  have h := src_determine_klass_ext w hw name sec field cfg f [] (fun _ h => nomatch h) (fun _ h => nomatch h) hf hb
  simp only [List.append_nil] at h
  rw [h]
  cases Factory.determineKlass (w.reg.sec sec) w.customs sec field cfg with
  | error e => rfl
  | ok p => simp [embE, embDKx, embDK]

/-! ## creators -/

/-- the object (not yet wrapped as a value) of a resolved selector -/
def robjO : Resolved → Obj
  | .plain k => .klass k
  | .mixed ms b => .mixed ms b

/-- `get_keywordarg_dict` of a resolved selector as Python computes it (`Factory.kwargDict` when the constructor's
    parameter names are distinct, which the language guarantees: `kwargDictP_eq`) -/
def kwargDictP : Resolved → Config
  | .plain k => Factory.dictOfPairs k.kwargs
  | .mixed ms b => Factory.kwargDict (.mixed ms b)

theorem dictOfPairs_nodup (l : Config) (h : KeysNodup l) : Factory.dictOfPairs l = l := by
  unfold Factory.dictOfPairs
  suffices hs : ∀ (acc : Config), KeysNodup (acc ++ l) →
      l.foldl (fun d kv => Factory.dictSet d kv.1 kv.2) acc = acc ++ l from by simpa using hs [] (by simpa using h)
  clear h
  induction l with
  | nil => intro acc _; simp
  | cons x t ih =>
    intro acc hn
    have hx : Factory.hasKey acc x.1 = false := by
      simp only [KeysNodup, List.map_append, List.map_cons] at hn
      have := (List.nodup_append.mp hn).2.2
      simp only [Factory.hasKey, Bool.eq_false_iff, ne_eq, List.any_eq_true, not_exists, not_and]
      intro kv hm he
      exact this kv.1 (List.mem_map_of_mem hm) x.1 List.mem_cons_self (by simpa using he)
    have hstep : Factory.dictSet acc x.1 x.2 = acc ++ [x] := by
      simp only [Factory.dictSet, hx, Bool.false_eq_true, if_false]
    rw [List.foldl_cons, hstep, ih (acc ++ [x]) (by simpa using hn)]
    simp

theorem kwargDictP_eq (r : Resolved) (h : ∀ k, r = .plain k → KeysNodup k.kwargs) :
    kwargDictP r = Factory.kwargDict r := by
  cases r with
  | plain k => exact dictOfPairs_nodup _ (h k rfl)
  | mixed ms b => rfl

theorem keysNodup_kwargDictP (r : Resolved) : KeysNodup (kwargDictP r) := by
  cases r with
  | plain k => exact keysNodup_dictOfPairs _
  | mixed ms b => exact keysNodup_dictOfPairs _

theorem get_keywordarg_dict_r (w : World) (r : Resolved) :
    SrcC15.get_keywordarg_dict w.ext (robj r) (.bool (isMixed r)) = .ok (.dict (embCfg (kwargDictP r))) := by
  cases r with
  | plain k => exact src_get_keywordarg_dict w k
  | mixed ms b => exact src_get_keywordarg_dict_mixed w ms b

/-- **`create_klass(config, klass, is_mixin)`** for a plain or a composite class: the strict key check over
    `get_keywordarg_dict`, then the class is called with the merged keyword arguments -/
theorem src_create_klass_resolved (w : World) (r : Resolved) (cfg : Config) (hc : KeysNodup cfg) :
    SrcC15.create_klass w.ext (.dict (embCfg cfg)) (robj r) (.bool (isMixed r))
      = match Factory.createKlass (kwargDictP r) cfg with
        | .ok kw => w.call (robjO r) [] (embKw kw)
        | .error e => .error (errExc e) := by
  unfold SrcC15.create_klass
  simp only [get_keywordarg_dict_r, bind_ok, Dyn.iter, pure_ok, keys_embCfg]
  rw [forM_sim (fun kv : String × Value => (Dyn.Val.str kv.1 : V)) (fun c : Config => (Dyn.Val.dict (embCfg c) : V))
    KeysNodup _ (fun kw kv => if Factory.hasKey kw kv.1 then .ok (Factory.dictSet kw kv.1 kv.2)
                              else .error (Err.keyError kv.1)) cfg cfg (fun _ h => h) _ _ (keysNodup_kwargDictP r)]
  · show (embE _ (Factory.createKlass (kwargDictP r) cfg) >>= _) = _
    cases Factory.createKlass (kwargDictP r) cfg with
    | error e => rfl
    | ok kw =>
      simp only [embE, bind_ok, starStar_emb, bind_ok_right]
      cases r <;> rfl
  · intro acc kv hm ha
    simp only [Dyn.contains, hashable_str, if_true, pure_ok, bind_ok, dictHas_emb]
    by_cases hh : Factory.hasKey acc kv.1 = true
    · simp only [hh, if_true, Dyn.getItem, hashable_str, dictGet_emb, lookup_of_mem cfg hc kv hm, Option.map_some,
        pure_ok, bind_ok, Dyn.setItem, dictSet_emb acc ha, embE, true_and]
      intro s' hs'
      cases hs'
      exact nodup_dictSet acc ha _ _
    · have hname : ∃ n, Dyn.getAttr w.ext (robj r) "__name__" = .ok n := by
        cases r with
        | plain k => exact ⟨_, rfl⟩
        | mixed ms b => exact ⟨_, rfl⟩
      obtain ⟨n, hn⟩ := hname
      simp only [hh, Bool.false_eq_true, if_false, hn, bind_ok, Dyn.m_keys, pure_ok,
        throw_err, bind_err, embE, errExc, true_and]
      intro s' hs'
      cases hs'

/-- what the lenient creators (`klass(**config)`) and `create_profile` return next to the popped config -/
def withCfg (cfg1 : Config) (x : M V) : M (V × V) := x >>= fun o => pure (o, .dict (embCfg cfg1))

/-- `create_star / create_optimizer / create_observation / create_instrument`: `determine_klass`, then `klass(**config)` with
    what is left of the section -/
macro "lenient_creator" w:ident hw:ident name:str sec:str : tactic => `(tactic| (
  have hg := ext_global_base $w $name $sec (by decide) (by decide) (by decide)
  simp only [hg, bind_ok, bind_ok_right]
  rw [src_determine_klass $w $hw $name $sec _ _ _ (fun kw => by first
        | exact src_star_factory $w $hw kw | exact src_optimizer_factory $w $hw kw
        | exact src_observation_factory $w $hw kw | exact src_instrument_factory $w $hw kw
        | exact src_planet_factory $w $hw kw | exact src_model_factory $w $hw kw) (by decide)]
  cases Factory.determineKlass _ _ _ _ _ with
  | error e => rfl
  | ok p =>
    obtain ⟨cfg1, r⟩ := p
    simp only [embE, embDK, bind_ok, Dyn.unpack3, Dyn.unpack, Dyn.iter, pure_ok, List.length_cons, List.length_nil,
      if_true, starStar_emb, withCfg]
    cases r <;> rfl))

theorem src_create_star (w : World) (hw : WorldOK w) (cfg : Config) :
    SrcC15.create_star w.ext (.dict (embCfg cfg))
      = match Factory.determineKlass (w.reg.sec "star") w.customs "star" "star_type" cfg with
        | .error e => .error (errExc e)
        | .ok (cfg1, r) => withCfg cfg1 (w.call (robjO r) [] (embKw cfg1)) := by
  unfold SrcC15.create_star
  lenient_creator w hw "Star" "star"

theorem src_create_optimizer (w : World) (hw : WorldOK w) (cfg : Config) :
    SrcC15.create_optimizer w.ext (.dict (embCfg cfg))
      = match Factory.determineKlass (w.reg.sec "optimizer") w.customs "optimizer" "optimizer" cfg with
        | .error e => .error (errExc e)
        | .ok (cfg1, r) => withCfg cfg1 (w.call (robjO r) [] (embKw cfg1)) := by
  unfold SrcC15.create_optimizer
  lenient_creator w hw "Optimizer" "optimizer"

theorem src_create_observation (w : World) (hw : WorldOK w) (cfg : Config) :
    SrcC15.create_observation w.ext (.dict (embCfg cfg))
      = match Factory.determineKlass (w.reg.sec "observation") w.customs "observation" "observation" cfg with
        | .error e => .error (errExc e)
        | .ok (cfg1, r) => withCfg cfg1 (w.call (robjO r) [] (embKw cfg1)) := by
  unfold SrcC15.create_observation
  lenient_creator w hw "BaseSpectrum" "observation"

theorem src_create_instrument (w : World) (hw : WorldOK w) (cfg : Config) :
    SrcC15.create_instrument w.ext (.dict (embCfg cfg))
      = match Factory.determineKlass (w.reg.sec "instrument") w.customs "instrument" "instrument" cfg with
        | .error e => .error (errExc e)
        | .ok (cfg1, r) => withCfg cfg1 (w.call (robjO r) [] (embKw cfg1)) := by
  unfold SrcC15.create_instrument
  lenient_creator w hw "Instrument" "instrument"

/-- `create_planet`: `planet_type` defaults to `simple` (appended to the section: `cfg'`, as in `Factory.createPlanet`),
    then as the other lenient creators -/
theorem src_create_planet (w : World) (hw : WorldOK w) (cfg cfg' : Config) (hc : KeysNodup cfg)
    (hcfg' : cfg' = if Factory.hasKey cfg "planet_type" then cfg else cfg ++ [("planet_type", .scalar (.str "simple"))]) :
    SrcC15.create_planet w.ext (.dict (embCfg cfg))
      = match Factory.determineKlass (w.reg.sec "planet") w.customs "planet" "planet_type" cfg' with
        | .error e => .error (errExc e)
        | .ok (cfg1, r) => withCfg cfg1 (w.call (robjO r) [] (embKw cfg1)) := by
  unfold SrcC15.create_planet
  have hset : (Dyn.Val.str "simple" : V) = emb (.scalar (.str "simple")) := rfl
  -- the default is applied first; everything after it (`K`) is the lenient creator on `cfg'`
  have hpre : ∀ (K : V → M (V × V)), (do
        let t__1 ← Dyn.contains w.ext (Dyn.Val.str "planet_type") (Dyn.Val.dict (embCfg cfg))
        let config ← (if (!t__1) then do
            let config ← Dyn.setItem w.ext (Dyn.Val.dict (embCfg cfg)) (Dyn.Val.str "planet_type") (Dyn.Val.str "simple")
            pure config
          else pure (Dyn.Val.dict (embCfg cfg)) : M V)
        K config) = K (.dict (embCfg cfg')) := by
    intro K
    simp only [Dyn.contains, hashable_str, if_true, dictHas_emb, pure_ok, bind_ok]
    by_cases hh : Factory.hasKey cfg "planet_type" = true
    · rw [hcfg', if_pos hh]
      simp only [hh, Bool.not_true, Bool.false_eq_true, if_false, bind_ok]
    · have hd : Factory.dictSet cfg "planet_type" (.scalar (.str "simple"))
          = cfg ++ [("planet_type", .scalar (.str "simple"))] := by
        simp only [Factory.dictSet, hh, Bool.false_eq_true, if_false]
      rw [hcfg', if_neg hh]
      simp only [hh, Bool.not_false, if_true, Dyn.setItem, hashable_str, hset, dictSet_emb cfg hc, hd, pure_ok, bind_ok]
  rw [hpre]
  lenient_creator w hw "Planet" "planet"

theorem filter_nodup (c : Config) (p : String × Value → Bool) (h : KeysNodup c) : KeysNodup (c.filter p) := by
  unfold KeysNodup at *
  exact List.Nodup.sublist (List.Sublist.map _ List.filter_sublist) h

/-- the config `determine_klass` hands back is the section without the popped keys -/
theorem determineKlass_sublist (sr : SectionReg) (customs : Customs) (sec field : String) (cfg cfg1 : Config) (r : Resolved)
    (h : Factory.determineKlass sr customs sec field cfg = .ok (cfg1, r)) : cfg1.Sublist cfg := by
  unfold Factory.determineKlass at h
  cases hp : Factory.popKey cfg field with
  | none => simp [hp] at h
  | some p =>
    obtain ⟨v, c1⟩ := p
    have hc1 : c1.Sublist cfg := by
      unfold Factory.popKey at hp
      cases hl : cfg.lookup field with
      | none => simp [hl] at hp
      | some v' => simp [hl] at hp; rw [← hp.2]; exact List.filter_sublist
    simp only [hp] at h
    cases v with
    | scalar s =>
      cases s with
      | str sel =>
        simp only at h
        split at h
        · cases hp2 : Factory.popKey c1 "python_file" with
          | none => simp [hp2] at h
          | some p2 =>
            obtain ⟨v2, c2⟩ := p2
            have hc2 : c2.Sublist cfg := by
              unfold Factory.popKey at hp2
              cases hl : c1.lookup "python_file" with
              | none => simp [hl] at hp2
              | some v' => simp [hl] at hp2; rw [← hp2.2]; exact List.Sublist.trans List.filter_sublist hc1
            simp only [hp2] at h
            cases v2 with
            | scalar s2 =>
              cases s2 with
              | str file =>
                simp only at h
                cases hcu : customs.lookup file with
                | none => simp [hcu] at h
                | some members =>
                  simp only [hcu] at h
                  cases hd : Factory.detectKlass members sec with
                  | error e => simp [hd, Except.map] at h
                  | ok k => simp [hd, Except.map] at h; rw [← h.1]; exact hc2
              | _ => simp at h
            | _ => simp at h
        · split at h
          · rename_i one _
            cases hf : Factory.factory sr one with
            | error e => simp [hf, Except.map] at h
            | ok k => simp [hf, Except.map] at h; rw [← h.1]; exact hc1
          · cases hf : Factory.factory sr (Factory.lastOf (Factory.splitPlus (Factory.lower sel))) with
            | error e => simp [hf, bind, Except.bind] at h
            | ok b =>
              cases hm : (Factory.initOf (Factory.splitPlus (Factory.lower sel))).mapM (Factory.mixinFactory sr) with
              | error e => simp [hf, hm, bind, Except.bind] at h
              | ok ms =>
                simp only [hf, hm, bind, Except.bind] at h
                split at h
                · simp [throw, throwThe, MonadExceptOf.throw] at h
                · simp [pure, Except.pure] at h; rw [← h.1]; exact hc1
      | _ => simp at h
    | _ => simp at h

/-- … still a dictionary -/
theorem determineKlass_nodup (sr : SectionReg) (customs : Customs) (sec field : String) (cfg cfg1 : Config) (r : Resolved)
    (hc : KeysNodup cfg) (h : Factory.determineKlass sr customs sec field cfg = .ok (cfg1, r)) : KeysNodup cfg1 :=
  List.Nodup.sublist (List.Sublist.map _ (determineKlass_sublist sr customs sec field cfg cfg1 r h)) hc

/-- **`create_profile(config, factory, baseclass, keyword_type)`** (temperature, pressure, chemistry, gas) is
    `Factory.createProfile` up to the constructor call: `determine_klass` with `generic_factory`, the strict key check over
    what is left of the section, then `klass(**kwargs)`.  (The parameter `factory` is not used by the code.) -/
theorem src_create_profile (w : World) (hw : WorldOK w) (name sec field : String) (cfg : Config) (f : V → M V)
    (hc : KeysNodup cfg) (h1 : (name, sec) ∈ genericBases) (h2 : (name, sec) ∈ mixinBases) :
    SrcC15.create_profile w.ext (.dict (embCfg cfg)) f (.obj (.base name sec)) (.str field)
      = match Factory.determineKlass (w.reg.sec sec) w.customs sec field cfg with
        | .error e => .error (errExc e)
        | .ok (cfg1, r) =>
          match Factory.createKlass (kwargDictP r) cfg1 with
          | .error e => .error (errExc e)
          | .ok kw => withCfg cfg1 (w.call (robjO r) [] (embKw kw)) := by
  unfold SrcC15.create_profile
  simp only [bind_ok_right]
  rw [src_determine_klass w hw name sec _ _ _ (fun kw => src_generic_factory w hw kw name sec h1) h2]
  cases hd : Factory.determineKlass (w.reg.sec sec) w.customs sec field cfg with
  | error e => rfl
  | ok p =>
    obtain ⟨cfg1, r⟩ := p
    have hc1 := determineKlass_nodup _ _ _ _ _ _ _ hc hd
    simp only [embE, embDK, bind_ok, Dyn.unpack3, Dyn.unpack, Dyn.iter, pure_ok, List.length_cons, List.length_nil,
      if_true, src_create_klass_resolved w r cfg1 hc1, withCfg]
    cases Factory.createKlass (kwargDictP r) cfg1 <;> rfl

/-! ## priors -/

/-- a search loop: the body returns `R k` for the first class satisfying `P` and falls through for the others -/
theorem forIn_find (cls : List Klass) (P : Klass → Bool) (R : Klass → M V) (body : Unit → V → M (LFlow Unit V))
    (hb : ∀ k, body () (kobj k) = if P k then (R k >>= fun r => .ok (.ret r)) else .ok (.next ())) :
    Dyn.forIn (cls.map kobj) () body =
      match cls.find? P with
      | some k => R k >>= fun r => .ok (.ret r)
      | none => .ok (.next ()) := by
  induction cls with
  | nil => rfl
  | cons k t ih =>
    simp only [List.map_cons, Dyn.forIn, hb k, List.find?_cons]
    by_cases h : P k = true
    · simp only [h, if_true]
      cases R k <;> rfl
    · simp only [h, Bool.false_eq_true, if_false, bind_ok]
      exact ih

/-- **`create_prior(prior)`**: the prior class is the first one whose `__name__` equals the parsed name as written,
    lower-cased or upper-cased (`Factory.lookupPrior`); it is called with the parsed arguments; no such class is a
    `ValueError`.  (`parse_priors` itself is not translated: its result is the hypothesis `hparse`.) -/
theorem src_create_prior (w : World) (prior : V) (pname : String) (args : Config)
    (hparse : w.call (.fn "parse_priors") [prior] [] = .ok (.tuple [.str pname, .dict (embCfg args)])) :
    SrcC15.create_prior w.ext prior
      = match Factory.lookupPrior (w.reg.sec "prior").classes pname with
        | .ok k => w.call (.klass k) [] (embKw args)
        | .error e => .error (errExc e) := by
  unfold SrcC15.create_prior
  have hg : w.ext.global "parse_priors" = .ok (.obj (.fn "parse_priors")) :=
    ext_global_fn w _ (by decide) (by decide) (by decide)
  have hc : w.ext.call (.fn "parse_priors") [prior] [] = w.call (.fn "parse_priors") [prior] [] := by
    simp only [World.ext, String.reduceEq, if_false]
  simp only [hg, bind_ok, Dyn.call, hc, hparse, Dyn.unpack2, Dyn.unpack, Dyn.iter, pure_ok, List.length_cons,
    List.length_nil, if_true, ext_global_cf, ext_call_cf, Dyn.getAttr,
    ext_getattr_cf w "priorKlasses" "prior" false rfl, Bool.false_eq_true, if_false]
  rw [forIn_find _ (Factory.priorClaims · pname) (fun k => w.call (.klass k) [] (embKw args))]
  · unfold Factory.lookupPrior
    cases (w.reg.sec "prior").classes.find? (Factory.priorClaims · pname) with
    | none => rfl
    | some k =>
      simp only [bind_ok]
      cases w.call (.klass k) [] (embKw args) <;> rfl
  · intro k
    have hu : Dyn.strUpper k.name = Factory.upper k.name := rfl
    have hl : Dyn.strLower k.name = Factory.lower k.name := rfl
    simp only [kobj, ext_getattr_name, bind_ok, Dyn.m_lower, Dyn.m_upper, pure_ok, Dyn.contains, List.any_cons,
      List.any_nil, beq_str, Bool.or_false, hu, hl, Factory.priorClaims, starStar_emb, ext_call_klass]
    have hcomm : ∀ a b : String, (a == b) = decide (b = a) := by
      intro a b
      by_cases h : b = a
      · subst h; simp
      · have h' : ¬ a = b := fun e => h e.symm
        simp [h, h']
    rw [hcomm k.name, hcomm (Factory.lower k.name), hcomm (Factory.upper k.name)]
    simp only [Bool.or_assoc]

/-! ## contributions -/

/-- a loop with `break` whose body, for the first element satisfying `P`, computes a new state and breaks (or raises),
    and falls through unchanged for the others -/
theorem forIn_find_brk {σ : Type} (cls : List Klass) (P : Klass → Bool) (R : σ → Klass → M σ) (st : σ)
    (body : σ → V → M (LFlow σ Unit))
    (hb : ∀ k, body st (kobj k) = if P k then (R st k >>= fun s => .ok (.brk s)) else .ok (.next st)) :
    Dyn.forIn (cls.map kobj) st body =
      match cls.find? P with
      | some k => R st k >>= fun s => .ok (.next s)
      | none => .ok (.next st) := by
  induction cls with
  | nil => rfl
  | cons k t ih =>
    simp only [List.map_cons, Dyn.forIn, hb k, List.find?_cons]
    by_cases h : P k = true
    · simp only [h, if_true]
      cases R st k <;> rfl
    · simp only [h, Bool.false_eq_true, if_false, bind_ok]
      exact ih

/-- the contributions `generate_contributions` builds, constructor calls left to the world -/
def contribsV (w : World) (cls : List Klass) : List (String × Config) → M (List V)
  | [] => .ok []
  | sub :: rest =>
    match Factory.lookup cls sub.1 with
    | some k =>
      match Factory.createKlass (Factory.dictOfPairs k.kwargs) sub.2 with
      | .error e => .error (errExc e)
      | .ok kw => do
        let c ← w.call (.klass k) [] (embKw kw)
        let cs ← contribsV w cls rest
        pure (c :: cs)
    | none => contribsV w cls rest


theorem forM_append {σ ι : Type} (l1 l2 : List ι) (s : σ) (body : σ → ι → M σ) :
    Dyn.forM (l1 ++ l2) s body = (Dyn.forM l1 s body >>= fun s' => Dyn.forM l2 s' body) := by
  induction l1 generalizing s with
  | nil => rfl
  | cons x t ih =>
    simp only [List.cons_append, Dyn.forM]
    cases body s x with
    | error e => rfl
    | ok s' => simp only [bind_ok, ih]

/-- `check_key.index(k)` / `check_key.pop(i)` on a list of distinct names -/
theorem index_pop (w : World) (u rest : List String) (k : String) (hk : k ∉ u) :
    Dyn.m_index w.ext (Dyn.Val.list ((u ++ k :: rest).map (fun s => (Dyn.Val.str s : V)))) (.str k)
      = .ok (.int (u.length : Int)) ∧
    Dyn.m_pop w.ext (Dyn.Val.list ((u ++ k :: rest).map (fun s => (Dyn.Val.str s : V)))) (.int (u.length : Int))
      = .ok (.str k, .list ((u ++ rest).map (fun s => (Dyn.Val.str s : V)))) := by
  constructor
  · simp only [Dyn.m_index]
    have : ((u ++ k :: rest).map (fun s => (Dyn.Val.str s : V))).findIdx? (fun y => Dyn.Val.beq y (.str k))
        = some u.length := by
      induction u with
      | nil => simp [List.findIdx?_cons]
      | cons a t ih =>
        have ha : a ≠ k := fun e => hk (by simp [e])
        have ht : k ∉ t := fun hm => hk (by simp [hm])
        have hb : (a == k) = false := by simp [ha]
        simp only [List.cons_append, List.map_cons, List.findIdx?_cons, beq_str, hb, Bool.false_eq_true, if_false,
          ih ht, Option.map_some, List.length_cons]
    rw [this]; rfl
  · simp only [Dyn.m_pop, indexOf, normIndex, List.length_map, List.length_append, List.length_cons]
    have h1 : (0 : Int) ≤ (u.length : Int) := by omega
    have h2 : u.length < u.length + (rest.length + 1) := by omega
    simp only [h1, if_true, Int.toNat_natCast, h2]
    have h3 : ((u ++ k :: rest).map (fun s => (Dyn.Val.str s : V)))[u.length]? = some (.str k) := by
      simp [List.getElem?_append_right]
    have h4 : ((u ++ k :: rest).map (fun s => (Dyn.Val.str s : V))).eraseIdx u.length
        = (u ++ rest).map (fun s => (Dyn.Val.str s : V)) := by
      simp [List.map_append, List.eraseIdx_append_of_length_le]
    simp only [h3, h4, pure_ok]


/-- constructors do not raise the two exception classes the factory loops swallow -/
def CallOK (w : World) : Prop :=
  ∀ o a kw e, w.call o a kw = .error e →
    e.isaAny [Exc.NotImplementedError] = false ∧ e.isaAny [Exc.AttributeError] = false

def unclaimed (cls : List Klass) (subs : List (String × Config)) : List String :=
  (subs.filter (fun sub => (Factory.lookup cls sub.1).isNone)).map (·.1)

/-- the list `check_key`: names of the sub-sections -/
theorem check_key_comp (w : World) (scalars : Config) (subs : List (String × Config))
    (body : List V → V → M (List V))
    (hb : ∀ acc k v, body acc (.tuple [k, v]) = if Dyn.Val.isTy .dict v then pure (acc ++ [k]) else pure acc) :
    Dyn.forM ((embSec scalars subs).map (fun e => Dyn.Val.tuple [e.1, e.2])) ([] : List V) body
      = .ok (subs.map (fun sc => (Dyn.Val.str sc.1 : V))) := by
  have h1 : ∀ (sc : Config) (acc : List V),
      Dyn.forM ((embCfg sc).map (fun e => Dyn.Val.tuple [e.1, e.2])) acc body = .ok acc := by
    intro sc
    induction sc with
    | nil => intro acc; rfl
    | cons kv t ih =>
      intro acc
      have hnd : Dyn.Val.isTy .dict (emb kv.2) = false := by
        cases h : kv.2 with
        | scalar s => cases s <;> rfl
        | list l => rfl
        | other r => rfl
        | ref r => rfl
      simp only [embCfg, List.map_cons, Dyn.forM, hb, hnd, Bool.false_eq_true, if_false, pure_ok, bind_ok] at ih ⊢
      exact ih acc
  have h2 : ∀ (sb : List (String × Config)) (acc : List V),
      Dyn.forM ((sb.map (fun sc => ((Dyn.Val.str sc.1 : V), (Dyn.Val.dict (embCfg sc.2) : V)))).map
        (fun e => Dyn.Val.tuple [e.1, e.2])) acc body = .ok (acc ++ sb.map (fun sc => (Dyn.Val.str sc.1 : V))) := by
    intro sb
    induction sb with
    | nil => intro acc; simp [Dyn.forM]
    | cons x t ih =>
      intro acc
      simp only [List.map_cons, Dyn.forM, hb, Dyn.Val.isTy, if_true, pure_ok, bind_ok, ih, List.append_assoc,
        List.cons_append, List.nil_append]
  simp only [embSec, List.map_append, forM_append, h1, bind_ok, h2, List.nil_append]


/-- the loop state of `generate_contributions`: (contributions, check_key) -/
def encCS (cs : List V) (ck : List String) : V × V := (.list cs, .list (ck.map (fun s => (Dyn.Val.str s : V))))

/-- what one pass of the outer loop does for the sub-section `sub` when `u ++ sub.1 :: names` is still to be claimed -/
def passSub (w : World) (cls : List Klass) (sub : String × Config) (acc : List V) (u names : List String) : M (V × V) :=
  match Factory.lookup cls sub.1 with
  | some k =>
    match Factory.createKlass (Factory.dictOfPairs k.kwargs) sub.2 with
    | .error e => .error (errExc e)
    | .ok kw => w.call (.klass k) [] (embKw kw) >>= fun c => .ok (encCS (acc ++ [c]) (u ++ names))
  | none => .ok (encCS acc (u ++ sub.1 :: names))

/-- the outer loop over the sub-section keys -/
theorem forM_subs (w : World) (cls : List Klass) (body : V × V → V → M (V × V))
    (all : List (String × Config))
    (hb : ∀ sub ∈ all, ∀ acc u names, sub.1 ∉ u →
      body (encCS acc (u ++ sub.1 :: names)) (.str sub.1) = passSub w cls sub acc u names) :
    ∀ (rest : List (String × Config)) (acc : List V) (u : List String), (∀ sub ∈ rest, sub ∈ all) →
      (rest.map (·.1)).Nodup → (∀ x ∈ u, x ∉ rest.map (·.1)) →
      Dyn.forM (rest.map (fun sc => (Dyn.Val.str sc.1 : V))) (encCS acc (u ++ rest.map (·.1))) body
        = contribsV w cls rest >>= fun cs => .ok (encCS (acc ++ cs) (u ++ unclaimed cls rest))
  | [], acc, u, _, _, _ => by simp [Dyn.forM, contribsV, unclaimed]
  | sub :: rest, acc, u, hall, hnd, hdis => by
    have hnd' : (rest.map (·.1)).Nodup := (List.nodup_cons.mp hnd).2
    have hsub : sub.1 ∉ rest.map (·.1) := (List.nodup_cons.mp hnd).1
    have hu : sub.1 ∉ u := fun h => hdis _ h (by simp)
    have hdis' : ∀ x ∈ u, x ∉ rest.map (·.1) := fun x hx hr => hdis x hx (by simp [hr])
    simp only [List.map_cons, Dyn.forM, hb sub (hall sub List.mem_cons_self) _ _ _ hu, passSub, contribsV, unclaimed,
      List.filter_cons]
    cases hl : Factory.lookup cls sub.1 with
    | none =>
      have := forM_subs w cls body all hb rest acc (u ++ [sub.1]) (fun x hx => hall x (List.mem_cons_of_mem _ hx)) hnd'
        (by
          intro x hx hr
          rcases List.mem_append.mp hx with h | h
          · exact hdis' x h hr
          · simp only [List.mem_singleton] at h; subst h; exact hsub hr)
      simp only [List.append_assoc, List.cons_append, List.nil_append, unclaimed] at this
      simp only [bind_ok, Option.isNone_none, if_true, List.map_cons, this]
    | some k =>
      simp only [Option.isNone_some, Bool.false_eq_true, if_false]
      cases Factory.createKlass (Factory.dictOfPairs k.kwargs) sub.2 with
      | error e => rfl
      | ok kw =>
        simp only []
        cases w.call (.klass k) [] (embKw kw) with
        | error e => rfl
        | ok c =>
          have := forM_subs w cls body all hb rest (acc ++ [c]) u (fun x hx => hall x (List.mem_cons_of_mem _ hx)) hnd' hdis'
          simp only [bind_ok, this, unclaimed]
          cases contribsV w cls rest with
          | error e => rfl
          | ok cs => simp [bind_ok, pure_ok, List.append_assoc]


theorem dictGet_embSec_sub (scalars : Config) (subs : List (String × Config)) (sub : String × Config)
    (hm : sub ∈ subs) (hn : ((scalars.map (·.1)) ++ subs.map (·.1)).Nodup) :
    dictGet? (embSec scalars subs) (.str sub.1) = some (.dict (embCfg sub.2)) := by
  have hns : sub.1 ∉ scalars.map (·.1) := by
    intro h
    exact (List.nodup_append.mp hn).2.2 _ h _ (List.mem_map_of_mem hm) rfl
  have hsubs : (subs.map (·.1)).Nodup := (List.nodup_append.mp hn).2.1
  have h1 : ∀ (sc : Config) (rest : List (V × V)), sub.1 ∉ sc.map (·.1) →
      dictGet? (embCfg sc ++ rest) (.str sub.1) = dictGet? rest (.str sub.1) := by
    intro sc rest
    induction sc with
    | nil => intro _; rfl
    | cons kv t ih =>
      intro h
      have hk : kv.1 ≠ sub.1 := fun e => h (by simp [e])
      have hb : (kv.1 == sub.1) = false := by simp [hk]
      simp only [embCfg, List.map_cons, List.cons_append, dictGet?, beq_str, hb, Bool.false_eq_true, if_false] at ih ⊢
      exact ih (fun hm' => h (by simp [hm']))
  rw [embSec, h1 scalars _ hns]
  clear h1 hn hns
  induction subs with
  | nil => cases hm
  | cons x t ih =>
    rcases List.mem_cons.mp hm with he | hm'
    · subst he; simp [dictGet?]
    · have hx : x.1 ≠ sub.1 := by
        intro e
        have := (List.nodup_cons.mp hsubs).1
        apply this
        show x.1 ∈ t.map (·.1)
        rw [e]
        exact List.mem_map_of_mem (f := (·.1)) hm'
      have hb : (x.1 == sub.1) = false := by simp [hx]
      simp only [List.map_cons, dictGet?, beq_str, hb, Bool.false_eq_true, if_false]
      exact ih hm' (List.nodup_cons.mp hsubs).2


/-- an exception the factory loops do not swallow -/
def Unswallowed (e : Exc) : Prop :=
  e.isaAny [Exc.NotImplementedError] = false ∧ e.isaAny [Exc.AttributeError] = false

/-- the inner loop of `generate_contributions` for one key: the first class that claims the key runs `T` (which ends in
    `break` or raises), the others are passed -/
theorem inner_loop (w : World) (hw : WorldOK w) (key : String) (st : V × V) (cls : List Klass)
    (T : Klass → M (LFlow (V × V) Unit)) (body : V × V → V → M (LFlow (V × V) Unit))
    (hbody : ∀ k, body st (kobj k) =
      tryCatch (do
          let t ← Dyn.callMethod w.ext (kobj k) "input_keywords" [] []
          let c ← Dyn.contains w.ext (.str key) t
          if c then T k else pure (LFlow.next st))
        (fun e => if e.isaAny [Exc.NotImplementedError] then pure (LFlow.next st)
                  else if e.isaAny [Exc.AttributeError] then pure (LFlow.next st) else throw e))
    (hT : ∀ k ∈ cls, Factory.claims k key = true → (∃ s, T k = .ok (.brk s)) ∨ (∃ e, T k = .error e ∧ Unswallowed e)) :
    Dyn.forIn (cls.map kobj) st body =
      match Factory.lookup cls key with
      | some k => (match T k with
        | .ok (.brk s) => .ok (.next s)
        | .error e => .error e
        | _ => .ok (.next st))
      | none => .ok (.next st) := by
  induction cls with
  | nil => rfl
  | cons k t ih =>
    have ih := ih (fun k' hk' => hT k' (List.mem_cons_of_mem _ hk'))
    have hT := hT k List.mem_cons_self
    simp only [List.map_cons, Dyn.forIn, hbody k, Factory.lookup, List.find?_cons]
    simp only [kobj, Dyn.callMethod, ext_input_keywords]
    cases hk : w.kwErr k with
    | some e =>
      obtain ⟨he, hkw⟩ := hw k e hk
      have hc : Factory.claims k key = false := by simp [Factory.claims, hkw]
      have : (tryCatch ((Except.error e : M V) >>= fun t => do
            let c ← Dyn.contains w.ext (.str key) t
            if c then T k else pure (LFlow.next st))
          (fun e => if e.isaAny [Exc.NotImplementedError] then pure (LFlow.next st)
                  else if e.isaAny [Exc.AttributeError] then pure (LFlow.next st) else throw e))
          = .ok (.next st) := by
        rcases he with rfl | rfl <;> simp [Exc.isaAny, Exc.isa, Exc.base]
      simp only [this, bind_ok, hc, Bool.false_eq_true, if_false]
      simpa [Factory.lookup] using ih
    | none =>
      simp only [bind_ok, contains_words]
      have hcl : Factory.claims k key = k.keywords.contains key := rfl
      by_cases hc : k.keywords.contains key = true
      · simp only [hc, hcl, if_true]
        rcases hT (by rw [hcl]; exact hc) with ⟨s, hs⟩ | ⟨e, he, hu1, hu2⟩
        · simp only [hs, try_ok, bind_ok, pure_ok]
        · simp only [he, try_err, hu1, hu2, Bool.false_eq_true, if_false, throw_err, bind_err]
      · simp only [hc, hcl, Bool.false_eq_true, if_false, pure_ok, try_ok, bind_ok]
        exact ih

/-- the outer loop over the scalar keys: nothing happens -/
theorem forM_scalars (body : V × V → V → M (V × V)) (all : Config) (st : V × V)
    (hb : ∀ kv ∈ all, body st (.str kv.1) = .ok st) :
    ∀ (sc : Config), (∀ kv ∈ sc, kv ∈ all) → Dyn.forM (sc.map (fun kv => (Dyn.Val.str kv.1 : V))) st body = .ok st
  | [], _ => rfl
  | kv :: t, hall => by
    simp only [List.map_cons, Dyn.forM, hb kv (hall kv List.mem_cons_self), bind_ok]
    exact forM_scalars body all st hb t (fun x hx => hall x (List.mem_cons_of_mem _ hx))

/-- **`generate_contributions(config)`** on a `[Model]` section (scalars, then sub-sections): every sub-section whose
    header is claimed by a contribution class is checked strictly against that class (`createKlass`) and the class is
    called with the merged keyword arguments (`contribsV`, the model's `contribsOf` with the constructor calls left to the
    world); afterwards a sub-section no class claims is an `Exception` — `Factory.generateContributions`.  Hypotheses: no
    scalar key of the section is a contribution keyword, keys are distinct, constructors do not raise the two exception
    classes the loop swallows. -/
theorem src_generate_contributions (w : World) (hw : WorldOK w) (hcall : CallOK w) (scalars : Config)
    (subs : List (String × Config)) (hn : ((scalars.map (·.1)) ++ subs.map (·.1)).Nodup)
    (hsubs : ∀ sub ∈ subs, KeysNodup sub.2)
    (hscal : ∀ kv ∈ scalars, Factory.lookup (w.reg.sec "contribution").classes kv.1 = none) :
    SrcC15.generate_contributions w.ext (.dict (embSec scalars subs))
      = contribsV w (w.reg.sec "contribution").classes subs >>= fun cs =>
          if subs.all (fun sub => (Factory.lookup (w.reg.sec "contribution").classes sub.1).isSome)
          then .ok (.list cs) else .error .Exception := by
  unfold SrcC15.generate_contributions
  simp only [ext_global_cf, bind_ok, Dyn.call, ext_call_cf, Dyn.m_items, pure_ok]
  rw [check_key_comp w scalars subs _ (fun acc k v => by
    simp only [Dyn.unpack2, Dyn.unpack, Dyn.iter, pure_ok, bind_ok, List.length_cons, List.length_nil, if_true])]
  simp only [bind_ok, Dyn.m_keys, pure_ok]
  have hkeys : (embSec scalars subs).map (·.1)
      = scalars.map (fun kv => (Dyn.Val.str kv.1 : V)) ++ subs.map (fun sc => (Dyn.Val.str sc.1 : V)) := by
    simp only [embSec, embCfg, List.map_append, List.map_map]
    rfl
  have hst : ((Dyn.Val.list [] : V), (Dyn.Val.list (subs.map (fun sc => (Dyn.Val.str sc.1 : V))) : V))
      = encCS [] ([] ++ subs.map (·.1)) := by simp [encCS]
  rw [hkeys, forM_append, hst, forM_scalars _ scalars _ ?hs scalars (fun _ h => h), bind_ok,
    forM_subs w (w.reg.sec "contribution").classes _ subs ?hb subs [] [] (fun _ h => h)
      (List.nodup_append.mp hn).2.1 (by simp)]
  case hs =>
    intro kv hkv
    simp only [Dyn.getAttr, ext_getattr_cf w "contributionKlasses" "contribution" false rfl, Bool.false_eq_true,
      if_false, bind_ok, Dyn.iter, pure_ok]
    rw [inner_loop w hw kv.1 _ _ _ _ (fun k => rfl) ?hT]
    · rw [hscal kv hkv]; rfl
    case hT =>
      intro k hk hc
      have := List.find?_eq_none.mp (hscal kv hkv) k hk
      simp [hc] at this
  case hb =>
    intro sub hsub acc u names hu
    simp only [Dyn.getAttr, ext_getattr_cf w "contributionKlasses" "contribution" false rfl, Bool.false_eq_true,
      if_false, bind_ok, Dyn.iter, pure_ok]
    rw [inner_loop w hw sub.1 _ _ _ _ (fun k => rfl) ?hT]
    case hT =>
      intro k hk hc
      simp only [Dyn.getItem, hashable_str, if_true, dictGet_embSec_sub scalars subs sub hsub hn, pure_ok, bind_ok,
        src_create_klass w k sub.2 (hsubs sub hsub)]
      have hip := index_pop w u names sub.1 hu
      simp only [encCS, Dyn.m_append, pure_ok, bind_ok, hip.1, hip.2]
      cases hck : Factory.createKlass (Factory.dictOfPairs k.kwargs) sub.2 with
      | error e =>
        right
        refine ⟨errExc e, rfl, ?_⟩
        have hke := ((C15.create_strict (Factory.dictOfPairs k.kwargs) sub.2).2.1 e hck)
        obtain ⟨kv, _, _, he⟩ := hke
        subst he
        simp [Unswallowed, errExc, Exc.isaAny, Exc.isa, Exc.base]
      | ok kw =>
        cases hcl : w.call (Obj.klass k) [] (embKw kw) with
        | error e => right; exact ⟨e, by simp [hcl], hcall _ _ _ _ hcl⟩
        | ok c => left; exact ⟨_, by simp [hcl]; rfl⟩
    simp only [passSub]
    cases hl : Factory.lookup (w.reg.sec "contribution").classes sub.1 with
    | none => rfl
    | some k =>
      have hip := index_pop w u names sub.1 hu
      simp only [Dyn.getItem, hashable_str, if_true, dictGet_embSec_sub scalars subs sub hsub hn, pure_ok, bind_ok,
        src_create_klass w k sub.2 (hsubs sub hsub), encCS, Dyn.m_append, hip.1, hip.2]
      cases hck : Factory.createKlass (Factory.dictOfPairs k.kwargs) sub.2 with
      | error e => rfl
      | ok kw =>
        cases hcl : w.call (Obj.klass k) [] (embKw kw) with
        | error e => simp [hcl]
        | ok c => simp [hcl, encCS]
  · cases contribsV w (w.reg.sec "contribution").classes subs with
    | error e => rfl
    | ok cs =>
      simp only [bind_ok, encCS, List.nil_append, Dyn.len, pure_ok, List.length_map, Dyn.compare, indexOf, Dyn.truthy]
      have hlen : ∀ l : List (String × Config),
          (0 < (unclaimed (w.reg.sec "contribution").classes l).length) ↔
            ¬ (l.all (fun sub => (Factory.lookup (w.reg.sec "contribution").classes sub.1).isSome) = true) := by
        intro l
        induction l with
        | nil => simp [unclaimed]
        | cons x t ih =>
          simp only [unclaimed, List.filter_cons, List.all_cons, Bool.and_eq_true] at ih ⊢
          cases hx : Factory.lookup (w.reg.sec "contribution").classes x.1 with
          | none => simp
          | some k => simpa using ih
      have h1 : (">" == "<") = false := by decide
      have h2 : (">" == "<=") = false := by decide
      have h3 : (">" == ">") = true := by decide
      simp only [h1, h2, h3, Bool.false_eq_true, if_false, if_true, decide_eq_true_eq, gt_iff_lt, Int.natCast_pos,
        hlen subs, throw_err]
      by_cases ha : (subs.all fun sub => (Factory.lookup (w.reg.sec "contribution").classes sub.1).isSome) = true
      · simp [ha]
      · simp [ha]

/-- `contribsV` is the model's `contribsOf` once the constructor calls are the model's `instantiate`
    (`comp` = how a constructed component is seen as a value); parameter names of the classes are distinct -/
theorem contribsV_eq_contribsOf (w : World) (sr : SectionReg) (comp : Component → V)
    (hinst : ∀ k kw, w.call (.klass k) [] (embKw kw) = embE comp (Factory.instantiate (.plain k) kw))
    (hnd : ∀ k ∈ sr.classes, KeysNodup k.kwargs) (subs : List (String × Config)) :
    contribsV w sr.classes subs = embE (fun cs => cs.map comp) (Factory.contribsOf sr subs) := by
  induction subs with
  | nil => rfl
  | cons sub rest ih =>
    simp only [contribsV, Factory.contribsOf]
    cases hl : Factory.lookup sr.classes sub.1 with
    | none => simpa using ih
    | some k =>
      have hk : k ∈ sr.classes := List.mem_of_find?_eq_some hl
      simp only [dictOfPairs_nodup _ (hnd k hk)]
      cases Factory.createKlass k.kwargs sub.2 with
      | error e => rfl
      | ok kw =>
        simp only [hinst, ih, bind, Except.bind]
        cases Factory.instantiate (.plain k) kw with
        | error e => rfl
        | ok c =>
          simp only [embE]
          cases Factory.contribsOf sr rest with
          | error e => rfl
          | ok cs => rfl

/-! ## the model -/

theorem embSec_eq (scalars : Config) (subs : List (String × Config)) :
    embSec scalars subs = embCfg scalars ++ subsEmb subs := rfl

/-- `kwargs.update(dict([(k, v) for k, v in config.items() if not isinstance(v, dict)]))`, first half: the scalar
    entries of the section -/
theorem scalar_items (scalars : Config) (subs : List (String × Config)) (body : List V → V → M (List V))
    (hb : ∀ acc k v, body acc (.tuple [k, v]) = if (!Dyn.Val.isTy .dict v) then pure (acc ++ [.tuple [k, v]]) else pure acc) :
    Dyn.forM ((embSec scalars subs).map (fun e => Dyn.Val.tuple [e.1, e.2])) ([] : List V) body
      = .ok (scalars.map (fun kv => (Dyn.Val.tuple [.str kv.1, emb kv.2] : V))) := by
  have h1 : ∀ (sc : Config) (acc : List V),
      Dyn.forM ((embCfg sc).map (fun e => Dyn.Val.tuple [e.1, e.2])) acc body
        = .ok (acc ++ sc.map (fun kv => (Dyn.Val.tuple [.str kv.1, emb kv.2] : V))) := by
    intro sc
    induction sc with
    | nil => intro acc; simp [embCfg, Dyn.forM]
    | cons kv t ih =>
      intro acc
      have hnd : Dyn.Val.isTy .dict (emb kv.2) = false := by
        cases h : kv.2 with
        | scalar s => cases s <;> rfl
        | list l => rfl
        | other r => rfl
        | ref r => rfl
      simp only [embCfg, List.map_cons, Dyn.forM, hb, hnd, Bool.not_false, if_true, pure_ok, bind_ok] at ih ⊢
      rw [ih]
      simp
  have h2 : ∀ (sb : List (String × Config)) (acc : List V),
      Dyn.forM ((subsEmb sb).map (fun e => Dyn.Val.tuple [e.1, e.2])) acc body = .ok acc := by
    intro sb
    induction sb with
    | nil => intro acc; rfl
    | cons x t ih =>
      intro acc
      simp only [subsEmb, List.map_cons, Dyn.forM, hb, Dyn.Val.isTy, Bool.not_true, Bool.false_eq_true, if_false,
        pure_ok, bind_ok] at ih ⊢
      exact ih acc
  simp only [embSec_eq, List.map_append, forM_append, h1, bind_ok, h2, List.nil_append]

/-- … second half: `dict(pairs)` then `kwargs.update(·)` is the fold of `dictSet` -/
theorem dict_of_pairs (w : World) (c : Config) (hc : KeysNodup c) (body : V → V → M V)
    (hb : ∀ acc k v, body acc (.tuple [k, v]) = Dyn.setItem w.ext acc k v) :
    Dyn.forM (c.map (fun kv => (Dyn.Val.tuple [.str kv.1, emb kv.2] : V))) (Dyn.Val.dict []) body
      = .ok (.dict (embCfg c)) := by
  have := forM_zip_set w body hb c [] keysNodup_nil
  have hz : List.zipWith (fun x y => (Dyn.Val.tuple [x, y] : V)) (c.map (fun kv => .str kv.1)) (c.map (fun kv => emb kv.2))
      = c.map (fun kv => (Dyn.Val.tuple [.str kv.1, emb kv.2] : V)) := by
    induction c with
    | nil => rfl
    | cons x t ih => simp [List.zipWith, ih (by exact (List.nodup_cons.mp hc).2)]
  rw [hz] at this
  have hd : c.foldl (fun d kv => Factory.dictSet d kv.1 kv.2) [] = c := dictOfPairs_nodup c hc
  simpa [embCfg, hd] using this

theorem update_emb (w : World) (kw c : Config) (hk : KeysNodup kw) :
    Dyn.m_update w.ext (.dict (embCfg kw)) (.dict (embCfg c))
      = .ok (.dict (embCfg (c.foldl (fun d kv => Factory.dictSet d kv.1 kv.2) kw))) := by
  simp only [Dyn.m_update, pure_ok]
  congr 2
  induction c generalizing kw with
  | nil => rfl
  | cons x t ih =>
    simp only [embCfg, List.map_cons, List.foldl_cons] at ih ⊢
    have := dictSet_emb kw hk x.1 x.2
    simp only [embCfg] at this
    rw [this]
    exact ih _ (nodup_dictSet kw hk _ _)

/-- one of the six `if 'name' in kwargs: kwargs['name'] = component` steps of `create_model`, with what follows (`K`) -/
theorem ref_step {β : Type} (w : World) (kw : Config) (hk : KeysNodup kw) (name ref : String) (K : V → M β) :
    (do
      let t ← Dyn.contains w.ext (Dyn.Val.str name) (Dyn.Val.dict (embCfg kw))
      let kwargs ← (if t then Dyn.setItem w.ext (Dyn.Val.dict (embCfg kw)) (Dyn.Val.str name) (emb (.ref ref))
        else Except.ok (Dyn.Val.dict (embCfg kw)) : M V)
      K kwargs)
    = K (.dict (embCfg (if Factory.hasKey kw name then Factory.dictSet kw name (.ref ref) else kw))) := by
  simp only [Dyn.contains, hashable_str, if_true, dictHas_emb, pure_ok, bind_ok]
  by_cases hh : Factory.hasKey kw name = true
  · simp only [hh, if_true, Dyn.setItem, hashable_str, dictSet_emb kw hk, pure_ok, bind_ok]
  · simp only [hh, Bool.false_eq_true, if_false, bind_ok]

theorem nodup_refstep (kw : Config) (hk : KeysNodup kw) (name ref : String) :
    KeysNodup (if Factory.hasKey kw name then Factory.dictSet kw name (.ref ref) else kw) := by
  split
  · exact nodup_dictSet kw hk _ _
  · exact hk

/-- the model object with its contributions added: what `create_model` does after the constructor call -/
def addContribs (w : World) (obj : V) (cs : List V) : M V :=
  Dyn.forM cs () (fun _ c => Dyn.callMethod w.ext obj "add_contribution" [c] [] >>= fun _ => pure ()) >>= fun _ =>
    pure obj

/-- the keyword arguments `create_model` passes: the constructor defaults, the components the class knows, then every
    scalar key of the section — `kw2` of `Factory.createModel` -/
def modelKwargs (r : Resolved) (cfg1 : Config) : Config :=
  cfg1.foldl (fun kw kv => Factory.dictSet kw kv.1 kv.2)
    (Factory.modelRefs.foldl (fun kw p => if Factory.hasKey kw p.1 then Factory.dictSet kw p.1 (.ref p.2) else kw)
      (kwargDictP r))


/-- after the constructor call: the contributions of the sub-sections are generated and added -/
def modelTail (w : World) (subs : List (String × Config)) (cfg1 : Config) (obj : V) : M (V × V) :=
  contribsV w (w.reg.sec "contribution").classes subs >>= fun cs =>
    if subs.all (fun sub => (Factory.lookup (w.reg.sec "contribution").classes sub.1).isSome)
    then addContribs w obj cs >>= fun o => pure (o, .dict (embSec cfg1 subs))
    else .error .Exception

/-- the chemistry argument: the component, or `None` when the file has no `[Chemistry]` section -/
def gasArg (hasChemistry : Bool) : V := if hasChemistry then emb (.ref "chemistry") else .none

/-- **`create_model(config, gas, temperature, pressure, planet, star, observation)`** is `Factory.createModel` (constructor
    calls left to the world): `determine_klass` on the scalar part of the section, the constructor defaults, the
    `activeGases` access of the debug line (an `AttributeError` without a chemistry), the six component keywords the class
    knows, every scalar key of the section, the constructor call, `generate_contributions` over the sub-sections, and
    `add_contribution` for each. -/
theorem src_create_model (w : World) (hw : WorldOK w) (hcall : CallOK w) (scalars : Config)
    (subs : List (String × Config)) (hasChemistry : Bool)
    (hn : ((scalars.map (·.1)) ++ subs.map (·.1)).Nodup) (hsubs : ∀ sub ∈ subs, KeysNodup sub.2)
    (hscal : ∀ kv ∈ scalars, Factory.lookup (w.reg.sec "contribution").classes kv.1 = none)
    (hx1 : KeyFree (subsEmb subs) "model_type") (hx2 : KeyFree (subsEmb subs) "python_file") :
    SrcC15.create_model w.ext (.dict (embSec scalars subs)) (gasArg hasChemistry) (emb (.ref "temperature"))
        (emb (.ref "pressure")) (emb (.ref "planet")) (emb (.ref "star")) (emb (.ref "observation"))
      = match Factory.determineKlass (w.reg.sec "model") w.customs "model" "model_type" scalars with
        | .error e => .error (errExc e)
        | .ok (cfg1, r) =>
          if !hasChemistry then .error .AttributeError
          else w.call (robjO r) [] (embKw (modelKwargs r cfg1)) >>= modelTail w subs cfg1 := by
  unfold SrcC15.create_model
  have hg := ext_global_base w "ForwardModel" "model" (by decide) (by decide) (by decide)
  simp only [hg, bind_ok, bind_ok_right, embSec_eq]
  rw [src_determine_klass_ext w hw "ForwardModel" "model" "model_type" scalars _ (subsEmb subs) hx1 hx2
    (fun kw => src_model_factory w hw kw) (by decide)]
  cases hd : Factory.determineKlass (w.reg.sec "model") w.customs "model" "model_type" scalars with
  | error e => rfl
  | ok p =>
    obtain ⟨cfg1, r⟩ := p
    simp only [embE, embDKx, bind_ok, Dyn.unpack3, Dyn.unpack, Dyn.iter, pure_ok, List.length_cons, List.length_nil,
      if_true, get_keywordarg_dict_r]
    cases hasChemistry with
    | false => rfl
    | true =>
      have hga : gasArg true = emb (.ref "chemistry") := rfl
      have hgas : Dyn.getAttr w.ext (emb (.ref "chemistry")) "activeGases" = .ok .none := rfl
      simp only [hga, hgas, bind_ok, Bool.not_true, Bool.false_eq_true, if_false]
      have k0 := keysNodup_kwargDictP r
      rw [ref_step w _ k0 "planet" "planet"]
      have k1 := nodup_refstep _ k0 "planet" "planet"
      rw [ref_step w _ k1 "star" "star"]
      have k2 := nodup_refstep _ k1 "star" "star"
      rw [ref_step w _ k2 "chemistry" "chemistry"]
      have k3 := nodup_refstep _ k2 "chemistry" "chemistry"
      rw [ref_step w _ k3 "temperature_profile" "temperature"]
      have k4 := nodup_refstep _ k3 "temperature_profile" "temperature"
      rw [ref_step w _ k4 "pressure_profile" "pressure"]
      have k5 := nodup_refstep _ k4 "pressure_profile" "pressure"
      rw [ref_step w _ k5 "observation" "observation"]
      have k6 := nodup_refstep _ k5 "observation" "observation"
      generalize hkw6 : (if Factory.hasKey _ "observation" = true then Factory.dictSet _ "observation" (Value.ref "observation")
        else _) = kw6 at k6 ⊢
      have hitems : Dyn.m_items w.ext (Dyn.Val.dict (embCfg cfg1 ++ subsEmb subs))
          = .ok ((embSec cfg1 subs).map (fun e => Dyn.Val.tuple [e.1, e.2])) := rfl
      simp only [hitems, bind_ok]
      rw [scalar_items cfg1 subs _ (fun acc k v => by
        simp only [Dyn.unpack2, Dyn.unpack, Dyn.iter, pure_ok, bind_ok, List.length_cons, List.length_nil, if_true])]
      simp only [bind_ok]
      rw [dict_of_pairs w cfg1 (determineKlass_nodup _ _ _ _ _ _ _ ?hsc hd) _ (fun acc k v => by
        simp only [Dyn.unpack2, Dyn.unpack, Dyn.iter, pure_ok, bind_ok, List.length_cons, List.length_nil, if_true])]
      case hsc => exact (List.nodup_append.mp hn).1
      simp only [bind_ok, update_emb w kw6 cfg1 k6, starStar_emb]
      have hcallr : Dyn.call w.ext (robj r) [] (embKw (List.foldl (fun d kv => Factory.dictSet d kv.1 kv.2) kw6 cfg1))
          = w.call (robjO r) [] (embKw (List.foldl (fun d kv => Factory.dictSet d kv.1 kv.2) kw6 cfg1)) := by
        cases r <;> rfl
      rw [hcallr]
      have hmk : List.foldl (fun d kv => Factory.dictSet d kv.1 kv.2) kw6 cfg1 = modelKwargs r cfg1 := by
        rw [← hkw6]; rfl
      rw [hmk]
      cases w.call (robjO r) [] (embKw (modelKwargs r cfg1)) with
      | error e => rfl
      | ok obj =>
        simp only [bind_ok, modelTail]
        have hsl := determineKlass_sublist _ _ _ _ _ _ _ hd
        have hn1 : ((cfg1.map (·.1)) ++ subs.map (·.1)).Nodup :=
          List.Nodup.sublist (List.Sublist.append (List.Sublist.map _ hsl) (List.Sublist.refl _)) hn
        have hscal1 : ∀ kv ∈ cfg1, Factory.lookup (w.reg.sec "contribution").classes kv.1 = none :=
          fun kv hkv => hscal kv (hsl.subset hkv)
        rw [← embSec_eq, src_generate_contributions w hw hcall cfg1 subs hn1 hsubs hscal1]
        cases contribsV w (w.reg.sec "contribution").classes subs with
        | error e => rfl
        | ok cs =>
          simp only [bind_ok]
          by_cases ha : (subs.all fun sub => (Factory.lookup (w.reg.sec "contribution").classes sub.1).isSome) = true
          · simp only [ha, if_true, bind_ok, addContribs, bind_ok_right]
            have hassoc : ∀ (x : M Unit) (Y : V), (x >>= fun _ => (Except.ok (obj, Y) : M (V × V)))
                = ((x >>= fun _ => (pure obj : M V)) >>= fun o => pure (o, Y)) := by
              intro x Y; cases x <;> rfl
            exact hassoc _ _
          · simp only [ha, Bool.false_eq_true, if_false, bind_err]

/-! ## `create_chemistry` -/

/-- `create_profile` up to the constructor call (the RHS of `src_create_profile` without the popped config) -/
def profileV (w : World) (sec field : String) (cfg : Config) : M V :=
  match Factory.determineKlass (w.reg.sec sec) w.customs sec field cfg with
  | .error e => .error (errExc e)
  | .ok (cfg1, r) =>
    match Factory.createKlass (kwargDictP r) cfg1 with
    | .error e => .error (errExc e)
    | .ok kw => w.call (robjO r) [] (embKw kw)

/-- the popped config `create_profile` hands back next to the object -/
def poppedCfg (w : World) (sec field : String) (cfg : Config) : Config :=
  match Factory.determineKlass (w.reg.sec sec) w.customs sec field cfg with
  | .error _ => []
  | .ok (cfg1, _) => cfg1

/-- `src_create_profile` with the two results (object, popped section) separated -/
theorem src_create_profile_split (w : World) (hw : WorldOK w) (name sec field : String) (cfg : Config) (f : V → M V)
    (hc : KeysNodup cfg) (h1 : (name, sec) ∈ genericBases) (h2 : (name, sec) ∈ mixinBases) :
    SrcC15.create_profile w.ext (.dict (embCfg cfg)) f (.obj (.base name sec)) (.str field)
      = profileV w sec field cfg >>= fun o => pure (o, .dict (embCfg (poppedCfg w sec field cfg))) := by
  rw [src_create_profile w hw name sec field cfg f hc h1 h2]
  unfold profileV poppedCfg
  cases Factory.determineKlass (w.reg.sec sec) w.customs sec field cfg with
  | error e => rfl
  | ok p =>
    obtain ⟨cfg1, r⟩ := p
    simp only []
    cases Factory.createKlass (kwargDictP r) cfg1 with
    | error e => rfl
    | ok kw => rfl

/-- the gas profiles `create_chemistry` builds from the sub-sections, constructor calls left to the world -/
def gasesV (w : World) : List (String × Config) → M (List V)
  | [] => .ok []
  | sub :: rest => do
    let g ← profileV w "gas" "gas_type" (Factory.dictSet sub.2 "molecule_name" (.scalar (.str sub.1)))
    let gs ← gasesV w rest
    pure (g :: gs)

/-- first loop of `create_chemistry`, scalar entries: nothing happens -/
theorem chem_scalars (body : V × V → V → M (V × V)) (st : V × V)
    (hb : ∀ k v, Dyn.Val.isTy .dict v = false → body st (.tuple [k, v]) = .ok st) :
    ∀ (sc : Config), Dyn.forM ((embCfg sc).map (fun e => Dyn.Val.tuple [e.1, e.2])) st body = .ok st
  | [] => rfl
  | kv :: t => by
    have hnd : Dyn.Val.isTy .dict (emb kv.2) = false := by
      cases h : kv.2 with
      | scalar s => cases s <;> rfl
      | list l => rfl
      | other r => rfl
      | ref r => rfl
    simp only [embCfg, List.map_cons, Dyn.forM, hb _ _ hnd, bind_ok]
    exact chem_scalars body st hb t

/-- first loop of `create_chemistry`, sub-sections: the key is recorded, the gas is built and appended -/
theorem chem_subs (w : World) (body : V × V → V → M (V × V)) (all : List (String × Config))
    (hb : ∀ sub ∈ all, ∀ ck gs, body (.list ck, .list gs) (.tuple [.str sub.1, .dict (embCfg sub.2)])
      = profileV w "gas" "gas_type" (Factory.dictSet sub.2 "molecule_name" (.scalar (.str sub.1))) >>= fun g =>
          .ok (.list (ck ++ [.str sub.1]), .list (gs ++ [g]))) :
    ∀ (subs : List (String × Config)) (ck gs : List V), (∀ sub ∈ subs, sub ∈ all) →
      Dyn.forM ((subsEmb subs).map (fun e => Dyn.Val.tuple [e.1, e.2])) (.list ck, .list gs) body
        = gasesV w subs >>= fun gl => .ok (.list (ck ++ subs.map (fun sc => (Dyn.Val.str sc.1 : V))), .list (gs ++ gl))
  | [], ck, gs, _ => by simp [subsEmb, Dyn.forM, gasesV]
  | sub :: rest, ck, gs, hall => by
    simp only [subsEmb, List.map_cons, Dyn.forM, hb sub (hall sub List.mem_cons_self), gasesV]
    cases profileV w "gas" "gas_type" (Factory.dictSet sub.2 "molecule_name" (.scalar (.str sub.1))) with
    | error e => rfl
    | ok g =>
      have := chem_subs w body all hb rest (ck ++ [.str sub.1]) (gs ++ [g]) (fun x hx => hall x (List.mem_cons_of_mem _ hx))
      simp only [subsEmb] at this
      simp only [bind_ok, this]
      cases gasesV w rest with
      | error e => rfl
      | ok gl => simp [List.append_assoc]

/-- second loop of `create_chemistry`: `del config[k]` for every recorded sub-section key leaves the scalar entries -/
theorem chem_del (w : World) (sc : Config) (body : V → V → M V)
    (hb : ∀ c k, body c k = Dyn.delItem w.ext c k) :
    ∀ (subs : List (String × Config)), ((sc.map (·.1)) ++ subs.map (·.1)).Nodup →
      Dyn.forM (subs.map (fun s => (Dyn.Val.str s.1 : V))) (.dict (embCfg sc ++ subsEmb subs)) body
        = .ok (.dict (embCfg sc))
  | [], _ => by simp [subsEmb, Dyn.forM]
  | sub :: rest, hn => by
    have hn' : ((sc.map (·.1)) ++ rest.map (·.1)).Nodup := by
      apply List.Nodup.sublist _ hn
      exact List.Sublist.append (List.Sublist.refl _) (by simp)
    have hsc : sub.1 ∉ sc.map (·.1) := by
      intro h
      exact (List.nodup_append.mp hn).2.2 _ h _ (by simp) rfl
    have hrest : sub.1 ∉ rest.map (·.1) := by
      have := (List.nodup_append.mp hn).2.1
      simp only [List.map_cons] at this
      exact (List.nodup_cons.mp this).1
    have hfree : KeyFree (subsEmb rest) sub.1 := by
      intro e he
      simp only [subsEmb, List.mem_map] at he
      obtain ⟨x, hx, rfl⟩ := he
      refine ⟨x.1, rfl, ?_⟩
      intro heq
      exact hrest (heq ▸ List.mem_map_of_mem (f := (·.1)) hx)
    have hfilter : sc.filter (·.1 != sub.1) = sc := by
      apply List.filter_eq_self.mpr
      intro kv hkv
      have : kv.1 ≠ sub.1 := fun heq => hsc (heq ▸ List.mem_map_of_mem (f := (·.1)) hkv)
      simp [this]
    have hdel : Dyn.delItem w.ext (.dict (embCfg sc ++ subsEmb (sub :: rest))) (.str sub.1)
        = .ok (.dict (embCfg sc ++ subsEmb rest)) := by
      have hhas : dictHas (embCfg sc ++ subsEmb (sub :: rest)) (.str sub.1) = true := by
        simp [dictHas, subsEmb]
      have hd : dictDel (embCfg sc ++ subsEmb (sub :: rest)) (.str sub.1) = embCfg sc ++ subsEmb rest := by
        have h1 := dictDel_append sc (subsEmb rest) sub.1 hfree
        rw [hfilter] at h1
        have h2 : dictDel (embCfg sc ++ subsEmb (sub :: rest)) (.str sub.1)
            = dictDel (embCfg sc ++ subsEmb rest) (.str sub.1) := by
          simp [dictDel, subsEmb, List.filter_append, List.filter_cons]
        rw [h2, h1]
      simp only [Dyn.delItem, hashable_str, if_true, hhas, hd, pure_ok]
    simp only [List.map_cons, Dyn.forM, hb, hdel, bind_ok]
    exact chem_del w sc body hb rest hn'

/-- `obj.addGas(g)` for every gas profile -/
def addGases (w : World) (obj : V) (gs : List V) : M Unit :=
  Dyn.forM gs () (fun _ g => Dyn.callMethod w.ext obj "addGas" [g] [] >>= fun _ => pure ())

/-- **`create_chemistry(config)`** on a `[Chemistry]` section (scalars, then sub-sections): every sub-section is a gas
    profile — `molecule_name` set to its header, then the strict `create_profile` with selector `gas_type` (`gasesV`, in
    file order; the first failure ends the function); the sub-section keys are deleted from the section; what is left is
    the chemistry, built by the strict `create_profile` with selector `chemistry_type`; the gases are added
    (`obj.addGas(g)`, in order) exactly when `hasattr(obj, 'addGas')`; the popped section is handed back.
    ALIAS (`unshared=['new_value']` in the spec): `new_value = value` is a second reference to the entry `config[key]`; the
    translation re-binds only `new_value`.  That is faithful because the entry is never read again: the only later uses of
    `config` are `del config[k]` for exactly these keys and, after that, `create_profile(config, …)`. -/
theorem src_create_chemistry (w : World) (hw : WorldOK w) (scalars : Config) (subs : List (String × Config))
    (hn : ((scalars.map (·.1)) ++ subs.map (·.1)).Nodup) (hsubs : ∀ sub ∈ subs, KeysNodup sub.2) :
    SrcC15.create_chemistry w.ext (.dict (embSec scalars subs))
      = gasesV w subs >>= fun gs =>
        profileV w "chemistry" "chemistry_type" scalars >>= fun obj =>
        (if w.hasattr obj "addGas" then addGases w obj gs else pure ()) >>= fun _ =>
        pure (obj, .dict (embCfg (poppedCfg w "chemistry" "chemistry_type" scalars))) := by
  unfold SrcC15.create_chemistry
  have hitems : Dyn.m_items w.ext (Dyn.Val.dict (embSec scalars subs))
      = .ok ((embCfg scalars).map (fun e => Dyn.Val.tuple [e.1, e.2]) ++ (subsEmb subs).map (fun e => Dyn.Val.tuple [e.1, e.2])) := by
    simp [Dyn.m_items, embSec, subsEmb]
  have hgas := ext_global_base w "Gas" "gas" (by decide) (by decide) (by decide)
  have hchem := ext_global_base w "Chemistry" "chemistry" (by decide) (by decide) (by decide)
  simp only [hitems, bind_ok, forM_append]
  rw [chem_scalars _ _ ?hs scalars, bind_ok, chem_subs w _ subs ?hb subs [] [] (fun _ h => h)]
  case hs =>
    intro k v hv
    simp only [Dyn.unpack2, Dyn.unpack, Dyn.iter, pure_ok, bind_ok, List.length_cons, List.length_nil, if_true, hv,
      Bool.false_eq_true, if_false]
  case hb =>
    intro sub hsub ck gs
    have hset : (Dyn.Val.str sub.1 : V) = emb (.scalar (.str sub.1)) := rfl
    simp only [Dyn.unpack2, Dyn.unpack, Dyn.iter, pure_ok, bind_ok, List.length_cons, List.length_nil, if_true,
      Dyn.Val.isTy, Dyn.m_append, Dyn.setItem, hashable_str, hgas]
    rw [hset, dictSet_emb sub.2 (hsubs sub hsub), src_create_profile_split w hw "Gas" "gas" "gas_type" _ _
      (nodup_dictSet sub.2 (hsubs sub hsub) _ _) (by decide) (by decide)]
    cases profileV w "gas" "gas_type" (Factory.dictSet sub.2 "molecule_name" (Value.scalar (Scalar.str sub.1))) with
    | error e => rfl
    | ok g => rfl
  cases gasesV w subs with
  | error e => rfl
  | ok gs =>
    simp only [bind_ok, List.nil_append, Dyn.iter, pure_ok]
    have hsec : (Dyn.Val.dict (embSec scalars subs) : V) = .dict (embCfg scalars ++ subsEmb subs) := rfl
    rw [hsec, chem_del w scalars _ (fun c k => by simp only [bind_ok_right]) subs hn]
    simp only [bind_ok, hchem]
    rw [src_create_profile_split w hw "Chemistry" "chemistry" "chemistry_type" scalars _ (List.nodup_append.mp hn).1
      (by decide) (by decide)]
    cases profileV w "chemistry" "chemistry_type" scalars with
    | error e => rfl
    | ok obj =>
      simp only [bind_ok, pure_ok, ext_hasattr, Dyn.truthy]
      cases w.hasattr obj "addGas" with
      | false => rfl
      | true =>
        simp only [if_true, addGases, pure_ok]
        generalize (Dyn.forM gs () _ : M Unit) = x
        cases x <;> rfl

/-- `profileV` is the model's `createProfile` once the constructor calls are the model's `instantiate` (`comp` = how a
    constructed component is seen as a value) and parameter names are distinct -/
theorem profileV_eq_createProfile (w : World) (comp : Component → V)
    (hinst : ∀ r kw, w.call (robjO r) [] (embKw kw) = embE comp (Factory.instantiate r kw))
    (sec field : String) (cfg : Config)
    (hnd : ∀ cfg1 k, Factory.determineKlass (w.reg.sec sec) w.customs sec field cfg = .ok (cfg1, .plain k) →
      KeysNodup k.kwargs) :
    profileV w sec field cfg = embE comp (Factory.createProfile (w.reg.sec sec) w.customs sec field cfg) := by
  unfold profileV Factory.createProfile
  cases hd : Factory.determineKlass (w.reg.sec sec) w.customs sec field cfg with
  | error e => rfl
  | ok p =>
    obtain ⟨cfg1, r⟩ := p
    have hk : kwargDictP r = Factory.kwargDict r := kwargDictP_eq r (fun k hr => hnd cfg1 k (hr ▸ hd))
    simp only [hk, bind, Except.bind]
    cases Factory.createKlass (Factory.kwargDict r) cfg1 with
    | error e => rfl
    | ok kw =>
      simp only [hinst]

/-- distinct parameter names for every plain class a selector resolves to (the language guarantees it) -/
def ParamsNodup (w : World) : Prop :=
  ∀ sec field cfg cfg1 k, Factory.determineKlass (w.reg.sec sec) w.customs sec field cfg = .ok (cfg1, .plain k) →
    KeysNodup k.kwargs

theorem gasesV_eq (w : World) (comp : Component → V)
    (hinst : ∀ r kw, w.call (robjO r) [] (embKw kw) = embE comp (Factory.instantiate r kw)) (hnd : ParamsNodup w)
    (subs : List (String × Config)) :
    gasesV w subs = embE (fun gs => gs.map comp) (subs.mapM (fun sub =>
      Factory.createProfile (w.reg.sec "gas") w.customs "gas" "gas_type"
        (Factory.dictSet sub.2 "molecule_name" (.scalar (.str sub.1))))) := by
  induction subs with
  | nil => rfl
  | cons sub rest ih =>
    simp only [gasesV, List.mapM_cons, ih, profileV_eq_createProfile w comp hinst "gas" "gas_type" _ (hnd _ _ _)]
    cases Factory.createProfile (w.reg.sec "gas") w.customs "gas" "gas_type"
        (Factory.dictSet sub.2 "molecule_name" (.scalar (.str sub.1))) with
    | error e => rfl
    | ok g =>
      simp only [embE, bind_ok]
      cases rest.mapM (fun sub => Factory.createProfile (w.reg.sec "gas") w.customs "gas" "gas_type"
        (Factory.dictSet sub.2 "molecule_name" (.scalar (.str sub.1)))) <;> rfl

/-- **`create_chemistry(config)`** is `Factory.createChemistry` (for every world whose constructor calls are the model's
    `instantiate`, `comp` being how a component is seen as a value, and whose `hasattr(obj, 'addGas')` is the class's
    `hasAddGas` column): every sub-section is a gas profile named by its header (`molecule_name`), built by the strict
    `create_profile` with selector `gas_type`; the sub-sections are deleted, the rest is the chemistry, built by the strict
    `create_profile` with selector `chemistry_type`; the gases are added exactly when the chemistry has `addGas` -/
theorem src_create_chemistry_model (w : World) (hw : WorldOK w) (scalars : Config) (subs : List (String × Config))
    (hn : ((scalars.map (·.1)) ++ subs.map (·.1)).Nodup) (hsubs : ∀ sub ∈ subs, KeysNodup sub.2)
    (comp : Component → V)
    (hinst : ∀ r kw, w.call (robjO r) [] (embKw kw) = embE comp (Factory.instantiate r kw)) (hnd : ParamsNodup w)
    (hattr : ∀ r kw c, Factory.instantiate r kw = .ok c → w.hasattr (comp c) "addGas" = Factory.resolvedHasAddGas r) :
    (SrcC15.create_chemistry w.ext (.dict (embSec scalars subs)) >>= fun p => pure p.1)
      = match Factory.createChemistry w.reg w.customs ⟨scalars, subs⟩ with
        | .error e => .error (errExc e)
        | .ok g => (if g.added then addGases w (comp g.chemistry) (g.gases.map comp) else pure ()) >>= fun _ =>
            pure (comp g.chemistry) := by
  rw [src_create_chemistry w hw scalars subs hn hsubs, gasesV_eq w comp hinst hnd]
  unfold Factory.createChemistry profileV
  simp only [bind, Except.bind]
  cases subs.mapM (fun sub => Factory.createProfile (w.reg.sec "gas") w.customs "gas" "gas_type"
        (Factory.dictSet sub.2 "molecule_name" (.scalar (.str sub.1)))) with
  | error e => rfl
  | ok gs =>
    simp only [embE]
    cases hd : Factory.determineKlass (w.reg.sec "chemistry") w.customs "chemistry" "chemistry_type" scalars with
    | error e => rfl
    | ok p =>
      obtain ⟨cfg1, r⟩ := p
      have hk : kwargDictP r = Factory.kwargDict r := kwargDictP_eq r (fun k hr => hnd _ _ _ cfg1 k (hr ▸ hd))
      simp only [hk]
      cases Factory.createKlass (Factory.kwargDict r) cfg1 with
      | error e => rfl
      | ok kw =>
        simp only [hinst]
        cases hi : Factory.instantiate r kw with
        | error e => rfl
        | ok c =>
          simp only [embE, hattr r kw c hi, pure, Except.pure]
          cases Factory.resolvedHasAddGas r with
          | false => rfl
          | true =>
            simp only [if_true]
            cases addGases w (comp c) (gs.map comp) <;> rfl

/-! ## the thin wrappers and `ParameterParser.generate_*` -/

/-- `create_temperature_profile(config)` is `create_profile` on the registry section "temperature", selector `profile_type` -/
theorem src_create_temperature_profile (w : World) (hw : WorldOK w) (cfg : Config) (hc : KeysNodup cfg) :
    SrcC15.create_temperature_profile w.ext (.dict (embCfg cfg))
      = profileV w "temperature" "profile_type" cfg >>= fun o =>
          pure (o, .dict (embCfg (poppedCfg w "temperature" "profile_type" cfg))) := by
  unfold SrcC15.create_temperature_profile
  have hg := ext_global_base w "TemperatureProfile" "temperature" (by decide) (by decide) (by decide)
  simp only [hg, bind_ok]
  rw [src_create_profile_split w hw "TemperatureProfile" "temperature" "profile_type" cfg _ hc (by decide) (by decide)]
  cases profileV w "temperature" "profile_type" cfg <;> rfl

/-- `create_pressure_profile(config)` is `create_profile` on the registry section "pressure", selector `profile_type` -/
theorem src_create_pressure_profile (w : World) (hw : WorldOK w) (cfg : Config) (hc : KeysNodup cfg) :
    SrcC15.create_pressure_profile w.ext (.dict (embCfg cfg))
      = profileV w "pressure" "profile_type" cfg >>= fun o =>
          pure (o, .dict (embCfg (poppedCfg w "pressure" "profile_type" cfg))) := by
  unfold SrcC15.create_pressure_profile
  have hg := ext_global_base w "PressureProfile" "pressure" (by decide) (by decide) (by decide)
  simp only [hg, bind_ok]
  rw [src_create_profile_split w hw "PressureProfile" "pressure" "profile_type" cfg _ hc (by decide) (by decide)]
  cases profileV w "pressure" "profile_type" cfg <;> rfl

/-- a lenient creator (`klass(**config)`) up to the constructor call -/
def lenientV (w : World) (sec field : String) (cfg : Config) : M V :=
  match Factory.determineKlass (w.reg.sec sec) w.customs sec field cfg with
  | .error e => .error (errExc e)
  | .ok (cfg1, r) => w.call (robjO r) [] (embKw cfg1)

/-- the lenient creators with the two results (object, popped section) separated -/
theorem src_create_star_split (w : World) (hw : WorldOK w) (cfg : Config) :
    SrcC15.create_star w.ext (.dict (embCfg cfg))
      = lenientV w "star" "star_type" cfg >>= fun o => pure (o, .dict (embCfg (poppedCfg w "star" "star_type" cfg))) := by
  rw [src_create_star w hw, lenientV, poppedCfg]
  cases Factory.determineKlass (w.reg.sec "star") w.customs "star" "star_type" cfg with
  | error e => rfl
  | ok p => rfl

theorem src_create_optimizer_split (w : World) (hw : WorldOK w) (cfg : Config) :
    SrcC15.create_optimizer w.ext (.dict (embCfg cfg))
      = lenientV w "optimizer" "optimizer" cfg >>= fun o =>
          pure (o, .dict (embCfg (poppedCfg w "optimizer" "optimizer" cfg))) := by
  rw [src_create_optimizer w hw, lenientV, poppedCfg]
  cases Factory.determineKlass (w.reg.sec "optimizer") w.customs "optimizer" "optimizer" cfg with
  | error e => rfl
  | ok p => rfl

theorem src_create_observation_split (w : World) (hw : WorldOK w) (cfg : Config) :
    SrcC15.create_observation w.ext (.dict (embCfg cfg))
      = lenientV w "observation" "observation" cfg >>= fun o =>
          pure (o, .dict (embCfg (poppedCfg w "observation" "observation" cfg))) := by
  rw [src_create_observation w hw, lenientV, poppedCfg]
  cases Factory.determineKlass (w.reg.sec "observation") w.customs "observation" "observation" cfg with
  | error e => rfl
  | ok p => rfl

theorem src_create_instrument_split (w : World) (hw : WorldOK w) (cfg : Config) :
    SrcC15.create_instrument w.ext (.dict (embCfg cfg))
      = lenientV w "instrument" "instrument" cfg >>= fun o =>
          pure (o, .dict (embCfg (poppedCfg w "instrument" "instrument" cfg))) := by
  rw [src_create_instrument w hw, lenientV, poppedCfg]
  cases Factory.determineKlass (w.reg.sec "instrument") w.customs "instrument" "instrument" cfg with
  | error e => rfl
  | ok p => rfl

/-- the section `create_planet` works on: `planet_type` defaults to `simple` (as in `Factory.createPlanet`) -/
def planetCfg (cfg : Config) : Config :=
  if Factory.hasKey cfg "planet_type" then cfg else cfg ++ [("planet_type", .scalar (.str "simple"))]

theorem src_create_planet_split (w : World) (hw : WorldOK w) (cfg : Config) (hc : KeysNodup cfg) :
    SrcC15.create_planet w.ext (.dict (embCfg cfg))
      = lenientV w "planet" "planet_type" (planetCfg cfg) >>= fun o =>
          pure (o, .dict (embCfg (poppedCfg w "planet" "planet_type" (planetCfg cfg)))) := by
  rw [src_create_planet w hw cfg (planetCfg cfg) hc rfl, lenientV, poppedCfg]
  cases Factory.determineKlass (w.reg.sec "planet") w.customs "planet" "planet_type" (planetCfg cfg) with
  | error e => rfl
  | ok p => rfl

/-- what `generate_<x>` returns: `None` for an absent section -/
def optV : Option (M V) → M V
  | none => .ok .none
  | some x => x

/-- `'Name' in config` / `config['Name']` on the file dictionary are the model's `sectionOf` -/
theorem sectionOf_embFile (f : InputFile) (name : String) :
    dictHas (embFile f) (.str name) = (Factory.sectionOf f name).isSome ∧
    dictGet? (embFile f) (.str name) = (Factory.sectionOf f name).map (fun s => .dict (embSec s.scalars s.subs)) := by
  induction f with
  | nil => exact ⟨rfl, rfl⟩
  | cons x t ih =>
    obtain ⟨n, s⟩ := x
    simp only [embFile, List.map_cons, dictHas, List.any_cons, dictGet?, beq_str, Factory.sectionOf,
      List.lookup_cons] at ih ⊢
    by_cases h : n = name
    · subst h; simp
    · have h1 : (n == name) = false := by simp [h]
      have h2 : (name == n) = false := by simp [Ne.symm h]
      simp only [h1, h2, Bool.false_or, Bool.false_eq_true, if_false]
      exact ih

/-- the common frame of every `generate_<x>`: `config = self._raw_config.dict()`, then the section `name` if present -/
theorem parser_section {β : Type} (w : World) (f : InputFile) (name : String) (K : V → M β) (none_ : M β) :
    (do
      let t1 ← Dyn.getAttr w.ext (.obj (.parser f)) "_raw_config"
      let t2 ← Dyn.callMethod w.ext t1 "dict" [] []
      let t3 ← Dyn.contains w.ext (.str name) t2
      if t3 then do
        let t4 ← Dyn.getItem w.ext t2 (.str name)
        K t4
      else none_)
    = match Factory.sectionOf f name with
      | none => none_
      | some s => K (.dict (embSec s.scalars s.subs)) := by
  obtain ⟨h1, h2⟩ := sectionOf_embFile f name
  simp only [Dyn.getAttr, ext_getattr_raw_config, bind_ok, Dyn.callMethod, ext_method_dict, Dyn.contains, hashable_str,
    if_true, pure_ok, h1, Dyn.getItem, h2]
  cases Factory.sectionOf f name with
  | none => rfl
  | some s => rfl

theorem embSec_nil (sc : Config) : embSec sc [] = embCfg sc := by simp [embSec]

/-- no sub-sections, distinct keys: what the harness's generator guarantees for every section but `[Chemistry]` / `[Model]`
    (a `dict` guarantees the distinct keys) -/
def FlatSection (f : InputFile) (name : String) : Prop :=
  ∀ s, Factory.sectionOf f name = some s → s.subs = [] ∧ KeysNodup s.scalars

/-- **`generate_temperature_profile()`**: `None` without a `[Temperature]` section, else `create_temperature_profile` on it
    (the `temperature` slot of `Factory.expected`) -/
theorem src_generate_temperature_profile (w : World) (hw : WorldOK w) (f : InputFile) (hf : FlatSection f "Temperature") :
    SrcC15.generate_temperature_profile w.ext (.obj (.parser f))
      = optV ((Factory.sectionOf f "Temperature").map (fun s => profileV w "temperature" "profile_type" s.scalars)) := by
  unfold SrcC15.generate_temperature_profile
  rw [parser_section w f "Temperature"]
  cases hs : Factory.sectionOf f "Temperature" with
  | none => rfl
  | some s =>
    obtain ⟨h1, h2⟩ := hf s hs
    simp only [h1, embSec_nil, src_create_temperature_profile w hw _ h2, Option.map_some, optV]
    cases profileV w "temperature" "profile_type" s.scalars <;> rfl

/-- **`generate_pressure_profile()`**: the `pressure` slot of `Factory.expected` -/
theorem src_generate_pressure_profile (w : World) (hw : WorldOK w) (f : InputFile) (hf : FlatSection f "Pressure") :
    SrcC15.generate_pressure_profile w.ext (.obj (.parser f))
      = optV ((Factory.sectionOf f "Pressure").map (fun s => profileV w "pressure" "profile_type" s.scalars)) := by
  unfold SrcC15.generate_pressure_profile
  rw [parser_section w f "Pressure"]
  cases hs : Factory.sectionOf f "Pressure" with
  | none => rfl
  | some s =>
    obtain ⟨h1, h2⟩ := hf s hs
    simp only [h1, embSec_nil, src_create_pressure_profile w hw _ h2, Option.map_some, optV]
    cases profileV w "pressure" "profile_type" s.scalars <;> rfl

/-- **`generate_star()`**: the `star` slot of `Factory.expected` -/
theorem src_generate_star (w : World) (hw : WorldOK w) (f : InputFile) (hf : FlatSection f "Star") :
    SrcC15.generate_star w.ext (.obj (.parser f))
      = optV ((Factory.sectionOf f "Star").map (fun s => lenientV w "star" "star_type" s.scalars)) := by
  unfold SrcC15.generate_star
  rw [parser_section w f "Star"]
  cases hs : Factory.sectionOf f "Star" with
  | none => rfl
  | some s =>
    obtain ⟨h1, h2⟩ := hf s hs
    simp only [h1, embSec_nil, src_create_star w hw, Option.map_some, optV, lenientV]
    cases Factory.determineKlass (w.reg.sec "star") w.customs "star" "star_type" s.scalars with
    | error e => rfl
    | ok p =>
      obtain ⟨cfg1, r⟩ := p
      simp only [withCfg]
      cases w.call (robjO r) [] (embKw cfg1) <;> rfl

/-- **`generate_optimizer()`**: the `optimizer` slot of `Factory.expected` -/
theorem src_generate_optimizer (w : World) (hw : WorldOK w) (f : InputFile) (hf : FlatSection f "Optimizer") :
    SrcC15.generate_optimizer w.ext (.obj (.parser f))
      = optV ((Factory.sectionOf f "Optimizer").map (fun s => lenientV w "optimizer" "optimizer" s.scalars)) := by
  unfold SrcC15.generate_optimizer
  rw [parser_section w f "Optimizer"]
  cases hs : Factory.sectionOf f "Optimizer" with
  | none => rfl
  | some s =>
    obtain ⟨h1, h2⟩ := hf s hs
    simp only [h1, embSec_nil, src_create_optimizer w hw, Option.map_some, optV, lenientV]
    cases Factory.determineKlass (w.reg.sec "optimizer") w.customs "optimizer" "optimizer" s.scalars with
    | error e => rfl
    | ok p =>
      obtain ⟨cfg1, r⟩ := p
      simp only [withCfg]
      cases w.call (robjO r) [] (embKw cfg1) <;> rfl

/-- **`generate_planet()`**: the `planet` slot of `Factory.expected` -/
theorem src_generate_planet (w : World) (hw : WorldOK w) (f : InputFile) (hf : FlatSection f "Planet") :
    SrcC15.generate_planet w.ext (.obj (.parser f))
      = optV ((Factory.sectionOf f "Planet").map (fun s => lenientV w "planet" "planet_type" (planetCfg s.scalars))) := by
  unfold SrcC15.generate_planet
  rw [parser_section w f "Planet"]
  cases hs : Factory.sectionOf f "Planet" with
  | none => rfl
  | some s =>
    obtain ⟨h1, h2⟩ := hf s hs
    simp only [h1, embSec_nil, src_create_planet w hw s.scalars (planetCfg s.scalars) h2 rfl, Option.map_some, optV,
      lenientV]
    cases Factory.determineKlass (w.reg.sec "planet") w.customs "planet" "planet_type" (planetCfg s.scalars) with
    | error e => rfl
    | ok p =>
      obtain ⟨cfg1, r⟩ := p
      simp only [withCfg]
      cases w.call (robjO r) [] (embKw cfg1) <;> rfl

/-- a section with sub-sections whose keys are all distinct (a `dict`) -/
def DictSection (f : InputFile) (name : String) : Prop :=
  ∀ s, Factory.sectionOf f name = some s →
    ((s.scalars.map (·.1)) ++ s.subs.map (·.1)).Nodup ∧ ∀ sub ∈ s.subs, KeysNodup sub.2

/-- **`generate_chemistry_profile()`**: `None` without a `[Chemistry]` section, else `create_chemistry` on it -/
theorem src_generate_chemistry_profile (w : World) (hw : WorldOK w) (f : InputFile) (hf : DictSection f "Chemistry") :
    SrcC15.generate_chemistry_profile w.ext (.obj (.parser f))
      = optV ((Factory.sectionOf f "Chemistry").map (fun s =>
          gasesV w s.subs >>= fun gs =>
          profileV w "chemistry" "chemistry_type" s.scalars >>= fun obj =>
          (if w.hasattr obj "addGas" then addGases w obj gs else pure ()) >>= fun _ => pure obj)) := by
  unfold SrcC15.generate_chemistry_profile
  rw [parser_section w f "Chemistry"]
  cases hs : Factory.sectionOf f "Chemistry" with
  | none => rfl
  | some s =>
    obtain ⟨h1, h2⟩ := hf s hs
    simp only [src_create_chemistry w hw _ _ h1 h2, Option.map_some, optV]
    cases gasesV w s.subs with
    | error e => rfl
    | ok gs =>
      simp only [bind_ok]
      cases profileV w "chemistry" "chemistry_type" s.scalars with
      | error e => rfl
      | ok obj =>
        simp only [bind_ok]
        generalize (if w.hasattr obj "addGas" = true then addGases w obj gs else pure ()) = x
        cases x <;> rfl

/-- `lenientV` is the model's `createLenient` once the constructor calls are the model's `instantiate` -/
theorem lenientV_eq_createLenient (w : World) (comp : Component → V)
    (hinst : ∀ r kw, w.call (robjO r) [] (embKw kw) = embE comp (Factory.instantiate r kw))
    (sec field : String) (cfg : Config) :
    lenientV w sec field cfg = embE comp (Factory.createLenient (w.reg.sec sec) w.customs sec field cfg) := by
  unfold lenientV Factory.createLenient
  cases Factory.determineKlass (w.reg.sec sec) w.customs sec field cfg with
  | error e => rfl
  | ok p =>
    obtain ⟨cfg1, r⟩ := p
    simp only [hinst, bind, Except.bind]

/-! ## `generate_observation` -/

/-- a value of an input file (after `transform`): a scalar or a flat list -/
def IsData : Value → Prop
  | .scalar _ => True
  | .list _ => True
  | _ => False

/-- the names `generate_observation` imports for the four file keys, in their order of precedence -/
def obsGlobals : List (String × String) :=
  [("lightcurve", "ObservedLightCurve"), ("observed_spectrum", "ObservedSpectrum"),
   ("taurex_spectrum", "TaurexSpectrum"), ("iraclis_spectrum", "IraclisSpectrum")]

/-- `Factory.generateObservation` with the constructor calls left to the world -/
def observationV (w : World) (cfg : Config) : M V :=
  match obsGlobals.find? (fun p => Factory.hasKey cfg p.1) with
  | some (key, cls) =>
    if cfg.length > 1 then .error .KeyError
    else
      let v := (cfg.lookup key).getD (.scalar .none)
      if key = "taurex_spectrum" && v = .scalar (.str "self") then .ok (.str "self")
      else w.call (.fn cls) [emb v] []
  | none => lenientV w "observation" "observation" cfg

theorem lookup_some_of_hasKey (cfg : Config) (key : String) (h : Factory.hasKey cfg key = true) :
    ∃ v, cfg.lookup key = some v := by
  induction cfg with
  | nil => simp [Factory.hasKey] at h
  | cons kv t ih =>
    obtain ⟨k', v'⟩ := kv
    simp only [Factory.hasKey, List.any_cons, Bool.or_eq_true] at h
    by_cases hk : k' = key
    · exact ⟨v', by simp [List.lookup_cons, hk]⟩
    · have hb : (key == k') = false := by simp [Ne.symm hk]
      simp only [List.lookup_cons, hb]
      apply ih
      rcases h with h | h
      · simp [hk] at h
      · exact h

/-- `config[key]` for a key that is present (whatever default the model's `getD` names) -/
theorem getItem_of_hasKey_default (w : World) (cfg : Config) (key : String) (d : Value) (h : Factory.hasKey cfg key = true) :
    Dyn.getItem w.ext (.dict (embCfg cfg)) (.str key) = .ok (emb ((cfg.lookup key).getD d)) := by
  obtain ⟨v, hv⟩ := lookup_some_of_hasKey cfg key h
  simp only [Dyn.getItem, hashable_str, if_true, dictGet_emb, hv, Option.map_some, pure_ok, Option.getD_some]

theorem getItem_of_hasKey (w : World) (cfg : Config) (key : String) (h : Factory.hasKey cfg key = true) :
    Dyn.getItem w.ext (.dict (embCfg cfg)) (.str key) = .ok (emb ((cfg.lookup key).getD (.scalar .none))) :=
  getItem_of_hasKey_default w cfg key _ h

theorem lookup_none_of_hasKey (cfg : Config) (key : String) (h : Factory.hasKey cfg key = false) :
    cfg.lookup key = none := by
  induction cfg with
  | nil => rfl
  | cons kv t ih =>
    obtain ⟨k', v'⟩ := kv
    simp only [Factory.hasKey, List.any_cons, Bool.or_eq_false_iff] at h
    have hb : (key == k') = false := by
      have : k' ≠ key := by simpa using h.1
      simp [Ne.symm this]
    simp only [List.lookup_cons, hb]
    exact ih h.2

theorem mem_of_lookup (c : Config) (k : String) (v : Value) (h : c.lookup k = some v) : (k, v) ∈ c := by
  induction c with
  | nil => cases h
  | cons kv t ih =>
    obtain ⟨k', v'⟩ := kv
    simp only [List.lookup_cons] at h
    by_cases hk : k = k'
    · subst hk
      simp only [beq_self_eq_true] at h
      cases h
      exact List.mem_cons_self
    · have hb : (k == k') = false := by simp [hk]
      simp only [hb] at h
      exact List.mem_cons_of_mem _ (ih h)

theorem eqB_emb_str (w : World) (v : Value) (hv : IsData v) (s : String) :
    Dyn.eqB w.ext (emb v) (.str s) = .ok (decide (v = .scalar (.str s))) := by
  cases v with
  | scalar x =>
    cases x with
    | str a =>
      simp only [emb, embS, Dyn.eqB, pure_ok, beq_str]
      congr 1
      by_cases h : a = s <;> simp [h]
    | _ => simp only [emb, embS, Dyn.eqB, Dyn.Val.beq, pure_ok] <;> simp
  | list l => simp only [emb, Dyn.eqB, Dyn.Val.beq, pure_ok]; simp
  | other r => exact absurd hv (by simp [IsData])
  | ref r => exact absurd hv (by simp [IsData])

theorem length_embCfg (c : Config) : (embCfg c).length = c.length := by simp [embCfg]

/-- the list comprehension in the error message never raises -/
theorem keys_comp_ok (cfg : Config) (body : List V → V → M (List V))
    (hb : ∀ acc k, ∃ acc', body acc (.str k) = .ok acc') :
    ∀ acc, ∃ r, Dyn.forM ((embCfg cfg).map (·.1)) acc body = .ok r := by
  induction cfg with
  | nil => intro acc; exact ⟨acc, rfl⟩
  | cons kv t ih =>
    intro acc
    obtain ⟨acc', h⟩ := hb acc kv.1
    obtain ⟨r, hr⟩ := ih acc'
    exact ⟨r, by simp only [embCfg, List.map_cons, Dyn.forM, h, bind_ok] at hr ⊢; exact hr⟩

theorem ext_call_fn (w : World) (name : String) (a : List V) (kw : List (String × V))
    (h1 : name ≠ "build_new_mixed_class") (h2 : name ≠ "detect_and_return_klass") :
    w.ext.call (.fn name) a kw = w.call (.fn name) a kw := by
  simp only [World.ext, h1, h2, if_false]

/-- the loop over the four file keys: a file key next to any other key is a `KeyError` -/
theorem obs_loop (cfg : Config) (body : Unit → V → M Unit)
    (hb : ∀ key, body () (.str key)
      = if Factory.hasKey cfg key && decide (1 < cfg.length) then .error .KeyError else .ok ()) :
    Dyn.forM [(Dyn.Val.str "lightcurve" : V), .str "observed_spectrum", .str "taurex_spectrum", .str "iraclis_spectrum"] ()
        body
      = if obsGlobals.any (fun p => Factory.hasKey cfg p.1) && decide (1 < cfg.length) then .error .KeyError
        else .ok () := by
  simp only [Dyn.forM, hb, obsGlobals, List.any_cons, List.any_nil, Bool.or_false]
  by_cases hl : 1 < cfg.length
  · cases Factory.hasKey cfg "lightcurve" <;> cases Factory.hasKey cfg "observed_spectrum" <;>
      cases Factory.hasKey cfg "taurex_spectrum" <;> cases Factory.hasKey cfg "iraclis_spectrum" <;> simp [hl]
  · simp [hl]

/-- **`generate_observation()`** is `Factory.generateObservation` (constructor calls left to the world): `None` without an
    `[Observation]` section; a file key (`lightcurve`, `observed_spectrum`, `taurex_spectrum`, `iraclis_spectrum`, in this
    order of precedence) next to any other key is a `KeyError`; alone it builds the class of that key from the file name
    (`taurex_spectrum = self` gives the string `'self'`); without a file key `create_observation` -/
theorem src_generate_observation (w : World) (hw : WorldOK w) (f : InputFile) (hf : FlatSection f "Observation")
    (hdata : ∀ s, Factory.sectionOf f "Observation" = some s → ∀ kv ∈ s.scalars, IsData kv.2) :
    SrcC15.generate_observation w.ext (.obj (.parser f))
      = optV ((Factory.sectionOf f "Observation").map (fun s => observationV w s.scalars)) := by
  unfold SrcC15.generate_observation
  rw [parser_section w f "Observation"]
  cases hs : Factory.sectionOf f "Observation" with
  | none => rfl
  | some s =>
    obtain ⟨h1, h2⟩ := hf s hs
    have hd := hdata s hs
    simp only [h1, embSec_nil, Option.map_some, optV, Dyn.iter, pure_ok, bind_ok]
    generalize s.scalars = cfg at h2 hd ⊢
    rw [obs_loop cfg _ ?hb]
    case hb =>
      intro key
      simp only [Dyn.contains, hashable_str, if_true, dictHas_emb, pure_ok, bind_ok, Dyn.len, length_embCfg,
        Dyn.compare, indexOf, Dyn.truthy, Dyn.iter]
      have h1 : (">" == "<") = false := by decide
      have h2 : (">" == "<=") = false := by decide
      have h3 : (">" == ">") = true := by decide
      simp only [h1, h2, h3, Bool.false_eq_true, if_false, if_true, gt_iff_lt]
      cases Factory.hasKey cfg key with
      | false => simp
      | true =>
        by_cases hl : 1 < cfg.length
        · have hl' : ((1 : Int) < (cfg.length : Int)) := by omega
          obtain ⟨r, hr⟩ := keys_comp_ok cfg (fun acc__ k => do
              let t__12 ← Dyn.eqB w.ext k (Dyn.Val.str key)
              if (!t__12) then (pure (acc__ ++ [k])) else pure acc__) (by
            intro acc k
            simp only [Dyn.eqB, beq_str, pure_ok, bind_ok]
            split <;> exact ⟨_, rfl⟩) []
          simp only [pure_ok] at hr
          simp only [hl, hl', decide_true, if_true, hr, bind_ok, Bool.and_self, throw_err]
        · have hl' : ¬ ((1 : Int) < (cfg.length : Int)) := by omega
          simp [hl, hl']
    have hg1 := ext_global_fn w "ObservedLightCurve" (by decide) (by decide) (by decide)
    have hg2 := ext_global_fn w "ObservedSpectrum" (by decide) (by decide) (by decide)
    have hg3 := ext_global_fn w "TaurexSpectrum" (by decide) (by decide) (by decide)
    have hg4 := ext_global_fn w "IraclisSpectrum" (by decide) (by decide) (by decide)
    have hc1 := fun a kw => ext_call_fn w "ObservedLightCurve" a kw (by decide) (by decide)
    have hc2 := fun a kw => ext_call_fn w "ObservedSpectrum" a kw (by decide) (by decide)
    have hc3 := fun a kw => ext_call_fn w "TaurexSpectrum" a kw (by decide) (by decide)
    have hc4 := fun a kw => ext_call_fn w "IraclisSpectrum" a kw (by decide) (by decide)
    simp only [Dyn.contains, hashable_str, if_true, dictHas_emb, pure_ok, bind_ok, observationV, obsGlobals,
      List.find?_cons, List.find?_nil, List.any_cons, List.any_nil, Bool.or_false, hg1, hg2, hg3, hg4, Dyn.call,
      hc1, hc2, hc3, hc4]
    have hlen : (cfg.length > 1) = (1 < cfg.length) := rfl
    have hfin : (do
          let t__32 ← Dyn.getAttr w.ext (Dyn.Val.obj (Obj.parser f)) "_raw_config"
          let _ ← Dyn.callMethod w.ext t__32 "dict" [] []
          let __x ← SrcC15.create_observation w.ext (Dyn.Val.dict (embCfg cfg))
          (Except.ok __x.fst : M V)) = lenientV w "observation" "observation" cfg := by
      simp only [Dyn.getAttr, ext_getattr_raw_config, bind_ok, Dyn.callMethod, ext_method_dict,
        src_create_observation w hw, lenientV]
      cases Factory.determineKlass (w.reg.sec "observation") w.customs "observation" "observation" cfg with
      | error e => rfl
      | ok p =>
        obtain ⟨cfg1, r⟩ := p
        simp only [withCfg]
        cases w.call (robjO r) [] (embKw cfg1) <;> rfl
    by_cases hl : 1 < cfg.length
    · simp only [hl, decide_true, Bool.and_true, hlen, if_true]
      cases hk1 : Factory.hasKey cfg "lightcurve" <;> cases hk2 : Factory.hasKey cfg "observed_spectrum" <;>
        cases hk3 : Factory.hasKey cfg "taurex_spectrum" <;> cases hk4 : Factory.hasKey cfg "iraclis_spectrum" <;>
        simp only [Bool.or_true, Bool.true_or, Bool.or_false, Bool.or_self, if_true, bind_err, Bool.false_eq_true,
          if_false, bind_ok, hfin]
    · simp only [hl, decide_false, Bool.and_false, Bool.false_eq_true, if_false, bind_ok, hlen]
      cases hk1 : Factory.hasKey cfg "lightcurve" with
      | true =>
        simp only [if_true, getItem_of_hasKey w cfg _ hk1, bind_ok, String.reduceEq, decide_false, Bool.false_and,
          Bool.false_eq_true, if_false]
      | false =>
        simp only [Bool.false_eq_true, if_false]
        cases hk2 : Factory.hasKey cfg "observed_spectrum" with
        | true =>
          simp only [if_true, getItem_of_hasKey w cfg _ hk2, bind_ok, String.reduceEq, decide_false, Bool.false_and,
            Bool.false_eq_true, if_false]
        | false =>
          simp only [Bool.false_eq_true, if_false]
          cases hk3 : Factory.hasKey cfg "taurex_spectrum" with
          | true =>
            have hv : IsData ((cfg.lookup "taurex_spectrum").getD (.scalar .none)) := by
              cases hlk : cfg.lookup "taurex_spectrum" with
              | none => trivial
              | some v =>
                exact hd _ (mem_of_lookup cfg _ _ hlk)
            simp only [if_true, getItem_of_hasKey w cfg _ hk3, bind_ok, eqB_emb_str w _ hv, decide_true, Bool.true_and]
          | false =>
            simp only [Bool.false_eq_true, if_false]
            cases hk4 : Factory.hasKey cfg "iraclis_spectrum" with
            | true =>
              simp only [if_true, getItem_of_hasKey w cfg _ hk4, bind_ok, String.reduceEq, decide_false, Bool.false_and,
                Bool.false_eq_true, if_false]
            | false =>
              simp only [Bool.false_eq_true, if_false, hfin]
/-- how the result of `generate_observation` is seen as a value -/
def obsOut (comp : Component → V) : Factory.ObsGraph → V
  | .self => .str "self"
  | .comp c => comp c

/-- `observationV` is the model's `generateObservation` once the constructor calls are the model's: the class imported for a
    file key, called with the file name, is the component `obsKeyClasses` names for that key -/
theorem observationV_eq_generateObservation (w : World) (comp : Component → V)
    (hinst : ∀ r kw, w.call (robjO r) [] (embKw kw) = embE comp (Factory.instantiate r kw))
    (hfile : ∀ p ∈ obsGlobals.zip Factory.obsKeyClasses, ∀ v, w.call (.fn p.1.2) [emb v] []
      = .ok (comp { cls := p.2.2, kwargs := [("filename", v)], mixins := [] }))
    (cfg : Config) :
    observationV w cfg = embE (obsOut comp) (Factory.generateObservation w.reg w.customs cfg) := by
  have hf1 := hfile (("lightcurve", "ObservedLightCurve"), ("lightcurve", "taurex.data.spectrum.lightcurve.ObservedLightCurve"))
    (by decide)
  have hf2 := hfile (("observed_spectrum", "ObservedSpectrum"), ("observed_spectrum", "taurex.data.spectrum.observed.ObservedSpectrum"))
    (by decide)
  have hf3 := hfile (("taurex_spectrum", "TaurexSpectrum"), ("taurex_spectrum", "taurex.data.spectrum.taurex.TaurexSpectrum"))
    (by decide)
  have hf4 := hfile (("iraclis_spectrum", "IraclisSpectrum"), ("iraclis_spectrum", "taurex.data.spectrum.iraclis.IraclisSpectrum"))
    (by decide)
  simp only at hf1 hf2 hf3 hf4
  unfold observationV Factory.generateObservation
  simp only [obsGlobals, Factory.obsKeyClasses, List.find?_cons, List.find?_nil]
  by_cases hl : cfg.length > 1
  · cases Factory.hasKey cfg "lightcurve" <;> cases Factory.hasKey cfg "observed_spectrum" <;>
      cases Factory.hasKey cfg "taurex_spectrum" <;> cases Factory.hasKey cfg "iraclis_spectrum" <;>
      first
      | (simp only [hl, if_true]; rfl)
      | (simp only [lenientV_eq_createLenient w comp hinst]
         cases Factory.createLenient (w.reg.sec "observation") w.customs "observation" "observation" cfg <;> rfl)
  · cases Factory.hasKey cfg "lightcurve" with
    | true => simp [hl, hf1, embE, obsOut]
    | false =>
      cases Factory.hasKey cfg "observed_spectrum" with
      | true => simp [hl, hf2, embE, obsOut]
      | false =>
        cases Factory.hasKey cfg "taurex_spectrum" with
        | true =>
          simp only [hl, if_false, decide_true, Bool.true_and, hf3]
          by_cases hv : (List.lookup "taurex_spectrum" cfg).getD (Value.scalar Scalar.none) = Value.scalar (Scalar.str "self")
          · simp [hv, embE, obsOut]
          · simp [hv, embE, obsOut]
        | false =>
          cases Factory.hasKey cfg "iraclis_spectrum" with
          | true => simp [hl, hf4, embE, obsOut]
          | false =>
            simp only [lenientV_eq_createLenient w comp hinst]
            cases Factory.createLenient (w.reg.sec "observation") w.customs "observation" "observation" cfg <;> rfl

/-! ## `create_snr`, `generate_instrument` -/

/-- the key check of `create_snr`: the first key other than `instrument` / `SNR` is a `KeyError` -/
theorem snr_loop (cfg : Config) (body : Unit → V → M Unit)
    (hb : ∀ k, body () (.str k) = if (k != "instrument" && k != "SNR") then .error .KeyError else .ok ()) :
    Dyn.forM ((embCfg cfg).map (·.1)) () body
      = match cfg.find? (fun kv => kv.1 != "instrument" && kv.1 != "SNR") with
        | some _ => .error .KeyError
        | none => .ok () := by
  induction cfg with
  | nil => rfl
  | cons kv t ih =>
    simp only [embCfg, List.map_cons, Dyn.forM, hb, List.find?_cons] at ih ⊢
    cases hk : (kv.1 != "instrument" && kv.1 != "SNR") with
    | true => rfl
    | false => simp only [Bool.false_eq_true, if_false, bind_ok]; exact ih

/-- **`ParameterParser.create_snr(binner, config)`**: a key other than `instrument` / `SNR` is a `KeyError`; otherwise
    `SNRInstrument(SNR=config.get('SNR', 10), binner=binner)` -/
theorem src_create_snr (w : World) (binner : V) (hb : Dyn.Val.isNone binner = false) (cfg : Config) :
    SrcC15.create_snr w.ext binner (.dict (embCfg cfg))
      = match cfg.find? (fun kv => kv.1 != "instrument" && kv.1 != "SNR") with
        | some _ => .error .KeyError
        | none => w.call (.fn "SNRInstrument") []
            [("SNR", emb ((cfg.lookup "SNR").getD (.scalar (.int 10)))), ("binner", binner)] := by
  unfold SrcC15.create_snr
  have hg := ext_global_fn w "SNRInstrument" (by decide) (by decide) (by decide)
  have hc := fun a kw => ext_call_fn w "SNRInstrument" a kw (by decide) (by decide)
  simp only [hb, Bool.false_eq_true, if_false, Dyn.iter, pure_ok, bind_ok]
  rw [snr_loop cfg _ ?hbody]
  case hbody =>
    intro k
    simp only [Dyn.contains, List.any_cons, List.any_nil, beq_str, Bool.or_false, pure_ok, bind_ok]
    have e1 : ("instrument" == k) = (k == "instrument") := BEq.comm
    have e2 : ("SNR" == k) = (k == "SNR") := BEq.comm
    rw [e1, e2]
    by_cases h1 : k = "instrument" <;> by_cases h2 : k = "SNR" <;> simp [bne, h1, h2]
  cases cfg.find? (fun kv => kv.1 != "instrument" && kv.1 != "SNR") with
  | some kv => rfl
  | none =>
    simp only [bind_ok, Dyn.contains, hashable_str, if_true, dictHas_emb, pure_ok, hg, Dyn.call, hc]
    cases hk : Factory.hasKey cfg "SNR" with
    | true => simp only [if_true, getItem_of_hasKey_default w cfg _ (.scalar (.int 10)) hk, bind_ok]
    | false =>
      simp only [Bool.false_eq_true, if_false, bind_ok, lookup_none_of_hasKey cfg _ hk, Option.getD_none]
      rfl

@[simp] theorem ext_truthy (w : World) (o : Obj) : w.ext.truthy o = .ok true := rfl

/-- `Factory.generateInstrument` with the constructor calls left to the world -/
def instrumentV (w : World) (cfg : Config) : M V :=
  let p : Value × Config := match Factory.popKey cfg "num_observations" with
    | some (v, c) => (v, c)
    | none => (.scalar (.int 1), cfg)
  match p.2.lookup "instrument" with
  | some (.scalar (.str sel)) =>
    if Factory.lower sel = "snr" || Factory.lower sel = "signalnoise" then
      match p.2.find? (fun kv => kv.1 != "instrument" && kv.1 != "SNR") with
      | some _ => .error .KeyError
      | none => w.call (.fn "SNRInstrument") []
          [("SNR", emb ((p.2.lookup "SNR").getD (.scalar (.int 10)))), ("binner", emb (.ref "binner"))] >>= fun i =>
            .ok (.tuple [i, emb p.1])
    else lenientV w "instrument" "instrument" p.2 >>= fun i => .ok (.tuple [i, emb p.1])
  | some _ => .error .AttributeError
  | none => lenientV w "instrument" "instrument" p.2 >>= fun i => .ok (.tuple [i, emb p.1])

theorem src_create_instrument_fst (w : World) (hw : WorldOK w) (cfg : Config) :
    (SrcC15.create_instrument w.ext (.dict (embCfg cfg)) >>= fun p => pure p.1)
      = lenientV w "instrument" "instrument" cfg := by
  rw [src_create_instrument w hw, lenientV]
  cases Factory.determineKlass (w.reg.sec "instrument") w.customs "instrument" "instrument" cfg with
  | error e => rfl
  | ok p =>
    obtain ⟨cfg1, r⟩ := p
    simp only [withCfg]
    cases w.call (robjO r) [] (embKw cfg1) <;> rfl

theorem instr_tail (w : World) (hw : WorldOK w) (c : Config) (n : V) :
    (do
      let x ← SrcC15.create_instrument w.ext (.dict (embCfg c))
      (pure (Dyn.Val.tuple [x.1, n]) : M V))
    = lenientV w "instrument" "instrument" c >>= fun i => .ok (.tuple [i, n]) := by
  rw [← src_create_instrument_fst w hw]
  cases SrcC15.create_instrument w.ext (.dict (embCfg c)) <;> rfl

/-- `generate_instrument` once `num_observations` has been popped -/
theorem instrument_core (w : World) (hw : WorldOK w) (cfg1 : Config) (nobs : V) (k : Flow Unit V → M V)
    (hk1 : ∀ v, k (.ret v) = .ok v)
    (hk2 : k (.next ()) = (do
      let x ← SrcC15.create_instrument w.ext (.dict (embCfg cfg1))
      pure (Dyn.Val.tuple [x.1, nobs]))) :
    (do
      let t6 ← Dyn.contains w.ext (Dyn.Val.str "instrument") (.dict (embCfg cfg1))
      let t14 ← (if t6 = true then do
          let t8 ← Dyn.truthy w.ext (emb (Value.ref "binner"))
          let t9 ← (if t8 = true then pure (emb (Value.ref "binner")) else w.ext.global "NativeBinner" : M V)
          let t10 ← Dyn.getItem w.ext (.dict (embCfg cfg1)) (Dyn.Val.str "instrument")
          let t11 ← Dyn.m_lower w.ext t10
          let t12 ← Dyn.contains w.ext t11 (Dyn.Val.tuple [Dyn.Val.str "snr", Dyn.Val.str "signalnoise"])
          if t12 = true then do
            let t13 ← SrcC15.create_snr w.ext t9 (.dict (embCfg cfg1))
            pure (Flow.ret (Dyn.Val.tuple [t13, nobs]))
          else pure (Flow.next ())
        else pure (Flow.next ()) : M (Flow Unit V))
      k t14)
    = match cfg1.lookup "instrument" with
      | some (.scalar (.str sel)) =>
        if Factory.lower sel = "snr" || Factory.lower sel = "signalnoise" then
          match cfg1.find? (fun kv => kv.1 != "instrument" && kv.1 != "SNR") with
          | some _ => .error .KeyError
          | none => w.call (.fn "SNRInstrument") []
              [("SNR", emb ((cfg1.lookup "SNR").getD (.scalar (.int 10)))), ("binner", emb (.ref "binner"))] >>= fun i =>
                .ok (.tuple [i, nobs])
        else lenientV w "instrument" "instrument" cfg1 >>= fun i => .ok (.tuple [i, nobs])
      | some _ => .error .AttributeError
      | none => lenientV w "instrument" "instrument" cfg1 >>= fun i => .ok (.tuple [i, nobs]) := by
  simp only [Dyn.contains, hashable_str, if_true, dictHas_emb, pure_ok, bind_ok]
  cases hk : Factory.hasKey cfg1 "instrument" with
  | false =>
    simp only [Bool.false_eq_true, if_false, bind_ok, lookup_none_of_hasKey cfg1 _ hk, hk2]
    exact instr_tail w hw cfg1 nobs
  | true =>
    obtain ⟨v, hv⟩ := lookup_some_of_hasKey cfg1 _ hk
    have hget := getItem_of_hasKey w cfg1 _ hk
    simp only [hv, Option.getD_some] at hget
    have hbin : Dyn.truthy w.ext (emb (Value.ref "binner")) = .ok true := rfl
    simp only [if_true, hbin, bind_ok, pure_ok, hget, m_lower_emb, hv]
    cases v with
    | scalar x =>
      cases x with
      | str sel =>
        simp only [bind_ok, Dyn.contains, pure_ok, List.any_cons, List.any_nil, beq_str, Bool.or_false]
        have e1 : ("snr" == Factory.lower sel) = decide (Factory.lower sel = "snr") := by
          rw [BEq.comm]; rfl
        have e2 : ("signalnoise" == Factory.lower sel) = decide (Factory.lower sel = "signalnoise") := by
          rw [BEq.comm]; rfl
        rw [e1, e2]
        cases hsn : (decide (Factory.lower sel = "snr") || decide (Factory.lower sel = "signalnoise")) with
        | true =>
          simp only [if_true, src_create_snr w (emb (Value.ref "binner")) rfl cfg1]
          cases cfg1.find? (fun kv => kv.1 != "instrument" && kv.1 != "SNR") with
          | some kv => rfl
          | none =>
            simp only []
            cases w.call (.fn "SNRInstrument") []
              [("SNR", emb ((cfg1.lookup "SNR").getD (.scalar (.int 10)))), ("binner", emb (.ref "binner"))] with
            | error e => rfl
            | ok i => simp only [bind_ok, hk1]
        | false =>
          simp only [Bool.false_eq_true, if_false, bind_ok, hk2]
          exact instr_tail w hw cfg1 nobs
      | _ => rfl
    | _ => rfl

/-- **`generate_instrument(binner)`** is `Factory.generateInstrument` (constructor calls left to the world): `None`
    without an `[Instrument]` section; `num_observations` is popped (default 1); the selectors `snr` / `signalnoise` (any
    letter case) go to `create_snr` with the given binner, everything else to `create_instrument`; the result is the pair
    `(instrument, num_observations)` -/
theorem src_generate_instrument (w : World) (hw : WorldOK w) (f : InputFile) (hf : FlatSection f "Instrument") :
    SrcC15.generate_instrument w.ext (.obj (.parser f)) (emb (.ref "binner"))
      = optV ((Factory.sectionOf f "Instrument").map (fun s => instrumentV w s.scalars)) := by
  unfold SrcC15.generate_instrument
  rw [parser_section w f "Instrument"]
  cases hs : Factory.sectionOf f "Instrument" with
  | none => rfl
  | some s =>
    obtain ⟨h1, h2⟩ := hf s hs
    simp only [h1, embSec_nil, Option.map_some, optV]
    generalize s.scalars = cfg at h2 ⊢
    unfold instrumentV
    simp only [m_pop_emb]
    cases hp : Factory.popKey cfg "num_observations" with
    | none =>
      have hi : Exc.isaAny Exc.KeyError [Exc.KeyError] = true := by decide
      simp only [throw_err, bind_err, try_err, hi, if_true, pure_ok, bind_ok]
      exact instrument_core w hw cfg (emb (.scalar (.int 1))) _ (fun v => rfl) rfl
    | some p =>
      obtain ⟨nobs, cfg1⟩ := p
      simp only [bind_ok, pure_ok, try_ok]
      exact instrument_core w hw cfg1 (emb nobs) _ (fun v => rfl) rfl

/-- how the result of `generate_instrument` is seen as a value: the pair `(instrument, num_observations)` -/
def instOut (comp : Component → V) (g : Factory.InstrumentGraph) : V := .tuple [comp g.instrument, emb g.numObs]

/-- `instrumentV` is the model's `generateInstrument` once the constructor calls are the model's -/
theorem instrumentV_eq_generateInstrument (w : World) (comp : Component → V)
    (hinst : ∀ r kw, w.call (robjO r) [] (embKw kw) = embE comp (Factory.instantiate r kw))
    (hsnr : ∀ v, w.call (.fn "SNRInstrument") [] [("SNR", emb v), ("binner", emb (.ref "binner"))]
      = .ok (comp { cls := "taurex.instruments.snr.SNRInstrument", kwargs := [("SNR", v), ("binner", .ref "binner")],
                    mixins := [] }))
    (cfg : Config) :
    instrumentV w cfg = embE (instOut comp) (Factory.generateInstrument w.reg w.customs cfg) := by
  unfold instrumentV Factory.generateInstrument
  have hlen : ∀ (c : Config) (n : Value),
      (lenientV w "instrument" "instrument" c >>= fun i => (Except.ok (Dyn.Val.tuple [i, emb n]) : M V))
        = embE (instOut comp) ((Factory.createLenient (w.reg.sec "instrument") w.customs "instrument" "instrument" c).map
            (fun c => { instrument := c, numObs := n })) := by
    intro c n
    rw [lenientV_eq_createLenient w comp hinst]
    cases Factory.createLenient (w.reg.sec "instrument") w.customs "instrument" "instrument" c <;> rfl
  have core : ∀ (p : Value × Config),
      (match p.2.lookup "instrument" with
        | some (.scalar (.str sel)) =>
          if Factory.lower sel = "snr" || Factory.lower sel = "signalnoise" then
            match p.2.find? (fun kv => kv.1 != "instrument" && kv.1 != "SNR") with
            | some _ => .error .KeyError
            | none => w.call (.fn "SNRInstrument") []
                [("SNR", emb ((p.2.lookup "SNR").getD (.scalar (.int 10)))), ("binner", emb (.ref "binner"))] >>= fun i =>
                  .ok (.tuple [i, emb p.1])
          else lenientV w "instrument" "instrument" p.2 >>= fun i => .ok (.tuple [i, emb p.1])
        | some _ => .error .AttributeError
        | none => lenientV w "instrument" "instrument" p.2 >>= fun i => (Except.ok (.tuple [i, emb p.1]) : M V))
      = embE (instOut comp) (match p.2.lookup "instrument" with
        | some (.scalar (.str sel)) =>
          if Factory.lower sel = "snr" || Factory.lower sel = "signalnoise" then
            match p.2.find? (fun kv => kv.1 != "instrument" && kv.1 != "SNR") with
            | some kv => .error (.keyError kv.1)
            | none =>
            .ok { instrument := { cls := "taurex.instruments.snr.SNRInstrument",
                                  kwargs := [("SNR", (p.2.lookup "SNR").getD (.scalar (.int 10))), ("binner", .ref "binner")],
                                  mixins := [] },
                  numObs := p.1 }
          else (Factory.createLenient (w.reg.sec "instrument") w.customs "instrument" "instrument" p.2).map
            (fun c => { instrument := c, numObs := p.1 })
        | some _ => .error (.attrError "instrument")
        | none => (Factory.createLenient (w.reg.sec "instrument") w.customs "instrument" "instrument" p.2).map
            (fun c => { instrument := c, numObs := p.1 })) := by
    intro p
    obtain ⟨n, c⟩ := p
    simp only []
    cases c.lookup "instrument" with
    | none => exact hlen c n
    | some v =>
      cases v with
      | scalar x =>
        cases x with
        | str sel =>
          simp only []
          split
          · cases c.find? (fun kv => kv.1 != "instrument" && kv.1 != "SNR") with
            | some kv => rfl
            | none => simp only [hsnr, bind_ok]; rfl
          · exact hlen c n
        | _ => rfl
      | _ => rfl
  cases Factory.popKey cfg "num_observations" with
  | none => exact core (.scalar (.int 1), cfg)
  | some q => obtain ⟨v, c⟩ := q; exact core (v, c)

/-! ## `generate_model` -/

/-- **`generate_model()`** (no component given): `None` without a `[Model]` section; otherwise the chemistry, the pressure
    profile, the temperature profile, the planet and the star are generated — in this order, each by its own
    `generate_<x>` — and `create_model` is called on the section with (chemistry, temperature, pressure, planet, star) and
    the given observation -/
theorem src_generate_model (w : World) (f : InputFile) (obs : V) :
    SrcC15.generate_model w.ext (.obj (.parser f)) .none .none .none .none .none obs
      = optV ((Factory.sectionOf f "Model").map (fun s => do
          let chem ← SrcC15.generate_chemistry_profile w.ext (.obj (.parser f))
          let pres ← SrcC15.generate_pressure_profile w.ext (.obj (.parser f))
          let temp ← SrcC15.generate_temperature_profile w.ext (.obj (.parser f))
          let planet ← SrcC15.generate_planet w.ext (.obj (.parser f))
          let star ← SrcC15.generate_star w.ext (.obj (.parser f))
          let p ← SrcC15.create_model w.ext (.dict (embSec s.scalars s.subs)) chem temp pres planet star obs
          pure p.1)) := by
  unfold SrcC15.generate_model
  obtain ⟨h1, h2⟩ := sectionOf_embFile f "Model"
  simp only [Dyn.getAttr, ext_getattr_raw_config, bind_ok, Dyn.callMethod, ext_method_dict, Dyn.contains, hashable_str,
    if_true, pure_ok, h1, Dyn.getItem, h2, Dyn.Val.isNone]
  cases Factory.sectionOf f "Model" with
  | none => rfl
  | some s =>
    simp only [Option.isSome_some, if_true, Option.map_some, optV, bind_ok]
    cases SrcC15.generate_chemistry_profile w.ext (.obj (.parser f)) with
    | error e => rfl
    | ok chem =>
      simp only [bind_ok]
      cases SrcC15.generate_pressure_profile w.ext (.obj (.parser f)) with
      | error e => rfl
      | ok pres =>
        simp only [bind_ok]
        cases SrcC15.generate_temperature_profile w.ext (.obj (.parser f)) with
        | error e => rfl
        | ok temp =>
          simp only [bind_ok]
          cases SrcC15.generate_planet w.ext (.obj (.parser f)) with
          | error e => rfl
          | ok planet =>
            simp only [bind_ok]
            cases SrcC15.generate_star w.ext (.obj (.parser f)) with
            | error e => rfl
            | ok star =>
              simp only [bind_ok]
              cases SrcC15.create_model w.ext (.dict (embSec s.scalars s.subs)) chem temp pres planet star obs <;> rfl

/-- `Factory.createModel` on a `[Model]` section with the constructor calls left to the world (the RHS of `src_create_model`) -/
def modelV (w : World) (hasChemistry : Bool) (s : Sec) : M V :=
  match Factory.determineKlass (w.reg.sec "model") w.customs "model" "model_type" s.scalars with
  | .error e => .error (errExc e)
  | .ok (cfg1, r) =>
    if !hasChemistry then .error .AttributeError
    else (w.call (robjO r) [] (embKw (modelKwargs r cfg1)) >>= modelTail w s.subs cfg1) >>= fun p => pure p.1

/-- the hypotheses of `src_create_model` for the `[Model]` section of a file -/
def ModelSection (w : World) (f : InputFile) : Prop :=
  ∀ s, Factory.sectionOf f "Model" = some s →
    ((s.scalars.map (·.1)) ++ s.subs.map (·.1)).Nodup ∧ (∀ sub ∈ s.subs, KeysNodup sub.2) ∧
    (∀ kv ∈ s.scalars, Factory.lookup (w.reg.sec "contribution").classes kv.1 = none) ∧
    KeyFree (subsEmb s.subs) "model_type" ∧ KeyFree (subsEmb s.subs) "python_file"

/-- **`generate_model()`** is the `model` slot of `Factory.expected` — `createModel` on the `[Model]` section, told
    whether the file has a `[Chemistry]` section — in a world where the generated components are the values the model's
    `Value.ref` names stand for (`None` for the chemistry of a file without `[Chemistry]`) -/
theorem src_generate_model_refs (w : World) (hw : WorldOK w) (hcall : CallOK w) (f : InputFile) (hm : ModelSection w f)
    (hchem : SrcC15.generate_chemistry_profile w.ext (.obj (.parser f))
      = .ok (gasArg (Factory.sectionOf f "Chemistry").isSome))
    (hpres : SrcC15.generate_pressure_profile w.ext (.obj (.parser f)) = .ok (emb (.ref "pressure")))
    (htemp : SrcC15.generate_temperature_profile w.ext (.obj (.parser f)) = .ok (emb (.ref "temperature")))
    (hplanet : SrcC15.generate_planet w.ext (.obj (.parser f)) = .ok (emb (.ref "planet")))
    (hstar : SrcC15.generate_star w.ext (.obj (.parser f)) = .ok (emb (.ref "star"))) :
    SrcC15.generate_model w.ext (.obj (.parser f)) .none .none .none .none .none (emb (.ref "observation"))
      = optV ((Factory.sectionOf f "Model").map (modelV w (Factory.sectionOf f "Chemistry").isSome)) := by
  rw [src_generate_model]
  cases hs : Factory.sectionOf f "Model" with
  | none => rfl
  | some s =>
    obtain ⟨a1, a2, a3, a4, a5⟩ := hm s hs
    simp only [Option.map_some, optV, hchem, hpres, htemp, hplanet, hstar, bind_ok,
      src_create_model w hw hcall s.scalars s.subs _ a1 a2 a3 a4 a5, modelV]
    cases Factory.determineKlass (w.reg.sec "model") w.customs "model" "model_type" s.scalars with
    | error e => rfl
    | ok p =>
      obtain ⟨cfg1, r⟩ := p
      simp only []
      cases (Factory.sectionOf f "Chemistry").isSome <;> rfl

/-- `modelV` is the model's `createModel` once the constructor calls are the model's `instantiate` (parameter names
    distinct): the model component and its contributions, each contribution then added by `add_contribution` -/
theorem modelV_eq_createModel (w : World) (comp : Component → V)
    (hinst : ∀ r kw, w.call (robjO r) [] (embKw kw) = embE comp (Factory.instantiate r kw)) (hnd : ParamsNodup w)
    (hndc : ∀ k ∈ (w.reg.sec "contribution").classes, KeysNodup k.kwargs) (hasChemistry : Bool) (s : Sec) :
    modelV w hasChemistry s
      = match Factory.createModel w.reg w.customs hasChemistry s with
        | .error e => .error (errExc e)
        | .ok g => addContribs w (comp g.model) (g.contributions.map comp) := by
  unfold modelV Factory.createModel
  cases hd : Factory.determineKlass (w.reg.sec "model") w.customs "model" "model_type" s.scalars with
  | error e => rfl
  | ok p =>
    obtain ⟨cfg1, r⟩ := p
    have hk : kwargDictP r = Factory.kwargDict r := kwargDictP_eq r (fun k hr => hnd _ _ _ cfg1 k (hr ▸ hd))
    cases hasChemistry with
    | false => rfl
    | true =>
      simp only [modelKwargs, hk, hinst, bind, Except.bind, Bool.not_true, Bool.false_eq_true, if_false, modelTail,
        contribsV_eq_contribsOf w (w.reg.sec "contribution") comp (fun k kw => hinst (.plain k) kw) hndc,
        Factory.generateContributions]
      cases Factory.instantiate r _ with
      | error e => rfl
      | ok m =>
        simp only [embE]
        cases Factory.contribsOf (w.reg.sec "contribution") s.subs with
        | error e => rfl
        | ok cs =>
          simp only [embE]
          by_cases ha : (s.subs.all fun sub => (Factory.lookup (w.reg.sec "contribution").classes sub.1).isSome) = true
          · simp only [ha, if_true, pure, Except.pure]
            cases addContribs w (comp m) (cs.map comp) <;> rfl
          · simp only [ha, Bool.false_eq_true, if_false]
            rfl

/-! ## `detect_and_return_klass` and `build_new_mixed_class` themselves

  `determine_klass` (above) reaches these two functions through the oracle, which answers with the model's `detectKlass` /
  `Resolved.mixed`.  Here the two functions are translated themselves and run against the lower-level oracle `detectExt`
  (Proofs/C15SrcDetect.lean) that only knows what THEY delegate to — importlib's file loading, `inspect.getmembers` (the
  classes of the module sorted by name, with whatever section base classes the file has imported in between),
  `issubclass`, `type(name, bases, namespace)`, `hasattr(·, '__len__')`.  The theorems: the regenerated function returns
  exactly what the main oracle answers for it, for every world and every placement of imported base classes. -/

/-- **`detect_and_return_klass(python_file, baseclass)`**: load the file, `classes = [m[1] for m in
    inspect.getmembers(foo, inspect.isclass) if m[1] is not baseclass and issubclass(m[1], baseclass)]` — the candidates are
    the classes that derive from the section's base, the base class itself (usually imported into the file) is excluded by
    identity, other sections' bases do not derive from it —, `Exception` when there is none, else `classes[0]`: the first
    candidate in `getmembers`' name order.  That is the model's `detectKlass` (which selects, then sorts:
    `filter_sortByName`); a file the world does not have makes `exec_module` raise. -/
theorem src_detect_and_return_klass (w : World) (imp : String → Imports) (file n sec : String) :
    Gen.SrcC15.detect_and_return_klass (detectExt w imp) (.str file) (.obj (.base n sec))
      = w.ext.call (.fn "detect_and_return_klass") [.str file, .obj (.base n sec)] [] := by
  have hR : w.ext.call (.fn "detect_and_return_klass") [.str file, .obj (.base n sec)] []
      = (match w.customs.lookup file with
         | none => .error .Exception
         | some members => embE kobj (Factory.detectKlass members sec)) := rfl
  rw [hR]
  unfold Gen.SrcC15.detect_and_return_klass
  simp only [dx_global_importlib, dx_global_inspect, bind_ok, Dyn.getAttr, dx_getattr_util, Dyn.callMethod, dx_spec,
    dx_module_from_spec, dx_getattr_loader, dx_exec_module, dx_getattr_isclass, dx_getmembers]
  cases hl : w.customs.lookup file with
  | none => rfl
  | some members =>
    simp only [bind_ok, Dyn.iter, pure_ok]
    unfold membersOf
    rw [comprehension w (imp file) imp n sec _ (fun k acc => pass_klass w imp n sec k acc)
      (fun b acc => pass_base w imp n sec b acc)]
    simp only [bind_ok, List.nil_append]
    rw [pick_first members sec w imp, C15L.filter_sortByName]
    rfl

/-- **`build_new_mixed_class(base_klass, mixins)`** for a list of mixins: `all_classes = tuple(mixins) + (base_klass,)` — the
    bases of the new class in MRO order, mixins first, the base class LAST —, `new_name = '+'.join(x.__name__[:10] …)`,
    `type(new_name, all_classes, {'__init__': mixed_init})`: the class `mixed ms b` of the model, `TypeError` for a repeated
    mixin (`hb`: the base class is not one of the mixins — the registries keep mixins and classes apart). -/
theorem src_build_new_mixed_class (w : World) (imp : String → Imports) (b : Klass) (ms : List Klass)
    (hb : (ms.map (·.path)).contains b.path = false) :
    Gen.SrcC15.build_new_mixed_class (detectExt w imp) (kobj b) (.list (ms.map kobj))
      = w.ext.call (.fn "build_new_mixed_class") [kobj b, .list (ms.map kobj)] [] := by
  rw [ext_call_build]
  unfold Gen.SrcC15.build_new_mixed_class
  simp only [dx_hasattr_list, bind_ok, Dyn.truthy, pure_ok, Bool.not_true, Bool.false_eq_true, if_false, Dyn.iter,
    Dyn.add]
  have hmap : (ms.map kobj ++ [kobj b]) = (ms ++ [b]).map kobj := by simp
  rw [hmap, names_join]
  simp only [bind_ok]
  rw [join_strs]
  simp only [bind_ok, dx_global_mixed_init, dx_type3]
  unfold typeOf
  rw [mapM_unKlass (ms ++ [b])]
  simp only [List.getLast?_append, List.getLast?_singleton, Option.some_or, List.dropLast_concat, List.map_append,
    List.map_cons, List.map_nil, hasDup_snoc, hb, Bool.or_false, bind_ok_right]

end Taurex.C15Src
