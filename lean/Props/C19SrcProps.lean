/-
  C19 — the property theorems restated about the REGENERATED source.  `Props/C19Src.lean` proves that the definitions
  translated on every run from `FlatMieContribution.prepare_each`, `LeeMieContribution.prepare_each` and
  `SimpleCloudsContribution.prepare_each` compute the model's `flatSigma`, `leeSigma`, `cloudSigma`; `Props/C19.lean`
  proves the property about these.  The corollaries below compose the two: they are statements about the text of the code
  as it is now, at the real carrier.

  What is composed
    * `srcFlat n nW plev b t mix l wn` = entry `[l, wn]` of the `sigma_xsec` the regenerated
      `FlatMieContribution.prepare_each` builds (`n` layers, level pressures `plev`, raw bounds `b`, `t`).  Tie hypothesis
      kept visible: `l < n` (the tie identifies the entries inside the array).  The theorems of `Props/C19.lean` about
      `flatSigmaRevW` (the opacity for a GIVEN sorted window, index counted from the top) are restated at the
      instantiation `flat_sigma_window` proves the code uses: `lev = flatLevel n plev`, `lo`/`hi` = min / max of the two
      bounds (hypotheses `hlev`, `hlo`, `hhi`, so that the statements stay readable), index `n - 1 - l`.
    * `srcLee n nW P b t pi a q mix wnv l wn` = entry `[l, wn]` of the regenerated `LeeMieContribution.prepare_each`
      (literals `0.2`, `1e-6` and numpy's float power instantiated as in the tie: `1/5`, `1/1000000`, `powr`); no
      hypotheses in the tie.  `leeLaw` stays the model's: it is the declared law the code is compared with.
    * `srcCloud nL nW P p0 inf l wn` = entry `[l, wn]` of the regenerated `SimpleCloudsContribution.prepare_each`, `inf`
      standing for `np.inf`.

  The cloud deck (`cloud_opaque_below`, `cloud_above_untouched`, `cloud_depth_ge`) is restated at the EXTENDED CARRIER `XR`
  (Proofs/C19Ext.lean: a real, `+inf`, `-inf` or `nan`, with numpy's rules for the special values), at which `np.inf` is a
  value and the regenerated code can be run with it: `cloudyRun newMethod rp rs n nwn total zb z dz dens P p0 rest
  planetPaths` is the regenerated `TransmissionModel.path_integral` — the loop over the layers, the loop over the
  contribution list with its `tau[layer].min() > 10` break, the regenerated `contribute` methods, chord lengths and
  `compute_absorption` (`np.exp(-tau)`) — on the contribution list `[cloud deck] ++ rest`, the cloud's `sigma_xsec` being
  what the regenerated `SimpleCloudsContribution.prepare_each` computes with `np.inf := pinf`; every other input is finite.
  `Props/C19Src.lean` (`src_cloudy_run_old` / `_new`) proves that this run returns `fin` of the model's `cloudyTrans` /
  `cloudyDepth` (the generic tie of `path_integral` instantiated at `XR`, then `fin` commutes with the model functions).
  With the new path method the 3-D geometry is a parameter and the hypothesis of `src_path_integral_new` (it returns the
  chords `chordNew`) stays visible as `NewPaths`.

  Not restated (no tie): nothing of Props/C19.lean.
-/
import Props.C19
import Props.C19Src
set_option linter.unusedSectionVars false

namespace Taurex.C19SrcProps
open Taurex.Transmission Taurex.Haze Taurex.C19 Taurex.C19Src
open Taurex.C19Ext Taurex.C19Ext.XR
open Finset

/-! ### optically thick cloud deck: the regenerated run at the extended carrier `XR` -/

section cloudrun
variable (newMethod : Bool) (rp rs : ℝ) (n nwn total : ℕ) (zb z dz dens P : ℕ → ℝ) (p0 : ℝ) (rest : List (Contrib ℝ))
  (planetPaths : (ℕ → XR) → (ℕ → ℕ → XR) → (ℕ → ℕ → XR) → List (ℕ → XR))

/-- the hypothesis of the tie for `new_path_method=True`: the 3-D geometry (`planet.compute_path_length`, a parameter of
    the regenerated `path_integral`) returns, for the lines of sight the code hands to it, the chords `chordNew` -/
def NewPaths : Prop :=
  ∀ l < n, ∀ k < n - l,
    (planetPaths (lift zb)
        (rows (fun l => (Geometry.parallelVector (fin rp) (lift z l + lift dz l / 2) (Geometry.arrMax n (lift zb))).1))
        (rows (fun l => (Geometry.parallelVector (fin rp) (lift z l + lift dz l / 2) (Geometry.arrMax n (lift zb))).2))).getD
          l (fun _ => 0) k
      = chordNew (fin rp) (lift zb) (lift z) (lift dz) l k

/-- the regenerated run without the cloud deck (contribution list `rest`), at `XR` -/
noncomputable def clearRun : (ℕ → XR) × (ℕ → ℕ → XR) :=
  Gen.SrcC19.path_integral (α := XR) nwn (rest.map liftC) (dispatch nwn total n) (lift dz) (lift dens) n newMethod
    planetPaths (fin rp) (fin rs) (lift zb) (lift z)

/-- the regenerated cloudy run returns the model's `cloudyTrans` / `cloudyDepth` (both path methods) -/
theorem cloudyRun_eq (ht : 0 < total) (hnew : newMethod = true → NewPaths rp n zb z dz planetPaths) :
    (∀ l < n, ∀ wn < nwn, (cloudyRun newMethod rp rs n nwn total zb z dz dens P p0 rest planetPaths).2 l wn
        = fin (cloudyTrans newMethod rp n nwn zb z dz dens P p0 rest l wn)) ∧
    (∀ wn < nwn, (cloudyRun newMethod rp rs n nwn total zb z dz dens P p0 rest planetPaths).1 wn
        = fin (cloudyDepth newMethod rp rs n nwn zb z dz dens P p0 rest wn)) := by
  cases newMethod
  · exact src_cloudy_run_old rp rs n nwn total ht zb z dz dens P p0 rest planetPaths
  · exact src_cloudy_run_new rp rs n nwn total ht zb z dz dens P p0 rest planetPaths (hnew rfl)

theorem clearRun_eq (ht : 0 < total) (hnew : newMethod = true → NewPaths rp n zb z dz planetPaths) :
    ∀ l < n, ∀ wn < nwn, (clearRun newMethod rp rs n nwn total zb z dz dens rest planetPaths).2 l wn
      = fin (modelTrans true newMethod rp n nwn zb z dz dens rest l wn) := by
  cases newMethod
  · exact src_clear_run_old rp rs n nwn total ht zb z dz dens rest planetPaths
  · exact src_clear_run_new rp rs n nwn total ht zb z dz dens rest planetPaths (hnew rfl)

/-- **cloud_opaque_below**, about the regenerated run at `XR`: every tangent layer at or below the cloud top
    (`P_l ≥ p0`) is opaque at all wavenumbers — the returned `exp(-tau)[l, wn]` is `0` (`tau = 0 + np.inf`, the loop
    breaks, `exp(-np.inf) = 0`) -/
theorem src_cloud_opaque_below (ht : 0 < total) (hnew : newMethod = true → NewPaths rp n zb z dz planetPaths)
    (l wn : ℕ) (hl : l < n) (hwn : wn < nwn) (h : p0 ≤ P l) :
    (cloudyRun newMethod rp rs n nwn total zb z dz dens P p0 rest planetPaths).2 l wn = fin 0 := by
  rw [(cloudyRun_eq newMethod rp rs n nwn total zb z dz dens P p0 rest planetPaths ht hnew).1 l hl wn hwn,
    cloud_opaque_below newMethod rp n nwn zb z dz dens P p0 rest l wn h]

/-- **cloud_above_untouched**, about the regenerated run at `XR`: a layer above the cloud top gets exactly the
    transmittance the regenerated run WITHOUT the cloud deck returns for it (the model's `modelTrans`, finite) -/
theorem src_cloud_above_untouched (ht : 0 < total) (hnew : newMethod = true → NewPaths rp n zb z dz planetPaths)
    (l wn : ℕ) (hl : l < n) (hwn : wn < nwn) (h : P l < p0) :
    (cloudyRun newMethod rp rs n nwn total zb z dz dens P p0 rest planetPaths).2 l wn
      = (clearRun newMethod rp rs n nwn total zb z dz dens rest planetPaths).2 l wn ∧
    (cloudyRun newMethod rp rs n nwn total zb z dz dens P p0 rest planetPaths).2 l wn
      = fin (modelTrans true newMethod rp n nwn zb z dz dens rest l wn) := by
  have e := (cloudyRun_eq newMethod rp rs n nwn total zb z dz dens P p0 rest planetPaths ht hnew).1 l hl wn hwn
  rw [cloud_above_untouched newMethod rp n nwn zb z dz dens P p0 rest l wn h] at e
  exact ⟨by rw [e, clearRun_eq newMethod rp rs n nwn total zb z dz dens rest planetPaths ht hnew l hl wn hwn], e⟩

/-- **cloud_depth_ge**, about the regenerated run at `XR`: the returned transit depth is a finite number, at least the
    documented integral with the cloudy layers fully opaque and at least the depth without the cloud -/
theorem src_cloud_depth_ge (ht : 0 < total) (hnew : newMethod = true → NewPaths rp n zb z dz planetPaths)
    (W : WellFormed newMethod rp rs n zb z dz dens rest) (wn : ℕ) (hwn : wn < nwn) :
    ∃ d : ℝ, (cloudyRun newMethod rp rs n nwn total zb z dz dens P p0 rest planetPaths).1 wn = fin d ∧
      (rp ^ 2 + ∑ l ∈ range n, if p0 ≤ P l then 2 * (rp + z l) * dz l else 0) / rs ^ 2 ≤ d ∧
      modelDepth true newMethod rp rs n nwn zb z dz dens rest wn ≤ d := by
  refine ⟨cloudyDepth newMethod rp rs n nwn zb z dz dens P p0 rest wn,
    (cloudyRun_eq newMethod rp rs n nwn total zb z dz dens P p0 rest planetPaths ht hnew).2 wn hwn, ?_⟩
  exact cloud_depth_ge newMethod rp rs n nwn zb z dz dens P p0 rest W wn

end cloudrun

/-- non-vacuity: the run of the example of `Props/C19.lean` (two layers, cloud top between them, one absorber), old path
    method: the bottom layer is opaque -/
example (planetPaths : (ℕ → XR) → (ℕ → ℕ → XR) → (ℕ → ℕ → XR) → List (ℕ → XR)) :
    (cloudyRun false 1 1 2 1 1 (fun l => (l : ℝ)) (fun l => (l : ℝ)) (fun _ => 1) (fun _ => 1)
      (fun l => if l = 0 then 100 else 1) 10 nvRest planetPaths).2 0 0 = fin 0 :=
  src_cloud_opaque_below false 1 1 2 1 1 _ _ _ _ _ 10 nvRest planetPaths (by norm_num) (by simp) 0 0 (by norm_num)
    (by norm_num) (by norm_num)

/-! ### grey haze (FlatMie) -/

/-- `sigma_xsec[l, wn]` of the regenerated `FlatMieContribution.prepare_each` -/
noncomputable def srcFlat (n nW : ℕ) (plev : ℕ → ℝ) (b t mix : ℝ) (l wn : ℕ) : ℝ :=
  Gen.SrcC19.flat_prepare_each nW b mix n plev t l wn

theorem srcFlat_eq (n nW : ℕ) (plev : ℕ → ℝ) (b t mix : ℝ) (l wn : ℕ) (hl : l < n) :
    srcFlat n nW plev b t mix l wn = flatSigma n plev b t mix l :=
  src_flat_prepare_each_real n nW plev b t mix l wn hl

/-- **flat_sigma_window**, about the regenerated `FlatMieContribution.prepare_each`: the window the code uses is both
    bounds in log10 Pa (an unset bound → the extreme level), sorted; layer `l` is slice index `n-1-l` -/
theorem src_flat_sigma_window (n nW : ℕ) (plev : ℕ → ℝ) (b t mix : ℝ) (l wn : ℕ) (hl : l < n) :
    srcFlat n nW plev b t mix l wn
      = flatSigmaRevW n (flatLevel n plev)
          (min (flatBound t (minTo n (flatLevel n plev))) (flatBound b (maxTo n (flatLevel n plev))))
          (max (flatBound t (minTo n (flatLevel n plev))) (flatBound b (maxTo n (flatLevel n plev))))
          mix (n - 1 - l) := by
  rw [srcFlat_eq n nW plev b t mix l wn hl]; exact flat_sigma_window n plev b t mix l

section window
variable (n nW : ℕ) (plev : ℕ → ℝ) (b t mix : ℝ) (lev : ℕ → ℝ) (lo hi : ℝ)
  (hlev : lev = flatLevel n plev)
  (hlo : lo = min (flatBound t (minTo n (flatLevel n plev))) (flatBound b (maxTo n (flatLevel n plev))))
  (hhi : hi = max (flatBound t (minTo n (flatLevel n plev))) (flatBound b (maxTo n (flatLevel n plev))))
include hlev hlo hhi

/-- the source's entry in terms of the window (`lev`, `lo`, `hi` as the code computes them) -/
theorem srcFlat_eq_window (l wn : ℕ) (hl : l < n) :
    srcFlat n nW plev b t mix l wn = flatSigmaRevW n lev lo hi mix (n - 1 - l) := by
  subst hlev hlo hhi; exact src_flat_sigma_window n nW plev b t mix l wn hl

/-- **flat_outside_zero**, about the regenerated `FlatMieContribution.prepare_each`: a layer wholly outside the window
    `[lo, hi]` (log10 Pa; slice index `n-1-l`, levels `lev (n-1-l)` and `lev (n-1-l+1)`) gets no extinction, at every
    wavenumber -/
theorem src_flat_outside_zero (l wn : ℕ) (hl : l < n)
    (h : lev (n - 1 - l + 1) ≤ lo ∨ hi ≤ lev (n - 1 - l)) : srcFlat n nW plev b t mix l wn = 0 := by
  rw [srcFlat_eq_window n nW plev b t mix lev lo hi hlev hlo hhi l wn hl]
  exact flat_outside_zero n lev lo hi mix (n - 1 - l) h

/-- **flat_inside**, about the regenerated `FlatMieContribution.prepare_each`: a layer overlapping the window carries
    `mix · w` with `0 < w ≤ 1`, `w` = its overlap / the largest overlap -/
theorem src_flat_inside (hm : LevMono n lev) (l wn : ℕ) (hl : l < n)
    (hpos : 0 < flatOverlap lev lo hi (n - 1 - l)) :
    ∃ w, 0 < w ∧ w ≤ 1 ∧ srcFlat n nW plev b t mix l wn = w * mix ∧
      w = flatOverlap lev lo hi (n - 1 - l) / flatWmax lev lo hi (flatStart n lev lo) (flatStop n lev hi) := by
  rw [srcFlat_eq_window n nW plev b t mix lev lo hi hlev hlo hhi l wn hl]
  exact flat_inside n lev hm lo hi mix (n - 1 - l) (by omega) hpos

/-- **flat_max_exact**, about the regenerated `FlatMieContribution.prepare_each`: if some layer overlaps the window, the
    layer with the largest overlap carries exactly `mix` (the declared magnitude) -/
theorem src_flat_max_exact (hm : LevMono n lev) (i : ℕ) (hin : i < n) (hpos : 0 < flatOverlap lev lo hi i) (wn : ℕ) :
    ∃ l, l < n ∧ srcFlat n nW plev b t mix l wn = mix := by
  obtain ⟨j, hj, he⟩ := flat_max_exact n lev hm lo hi mix i hin hpos
  refine ⟨n - 1 - j, by omega, ?_⟩
  rw [srcFlat_eq_window n nW plev b t mix lev lo hi hlev hlo hhi (n - 1 - j) wn (by omega)]
  have e : n - 1 - (n - 1 - j) = j := by omega
  rw [e]; exact he

end window

/-- **flat_unset_whole**, about the regenerated `FlatMieContribution.prepare_each`: both bounds unset (negative) = the
    whole atmosphere: the window is `[levels.min(), levels.max()]` and every layer overlaps it with its full width -/
theorem src_flat_unset_whole (n nW : ℕ) (plev : ℕ → ℝ) (hm : LevMono n (flatLevel n plev)) (b t mix : ℝ) (hb : b < 0)
    (ht : t < 0) (l wn : ℕ) (hl : l < n) :
    srcFlat n nW plev b t mix l wn
      = flatSigmaRevW n (flatLevel n plev) (flatLevel n plev 0) (flatLevel n plev n) mix (n - 1 - l) ∧
    ∀ i < n, flatOverlap (flatLevel n plev) (flatLevel n plev 0) (flatLevel n plev n) i
      = flatLevel n plev (i + 1) - flatLevel n plev i := by
  rw [srcFlat_eq n nW plev b t mix l wn hl]; exact flat_unset_whole n plev hm b t mix hb ht l

/-- **flat_inverted**, about the regenerated `FlatMieContribution.prepare_each`: inverted bounds are sorted, swapping two
    set bounds changes nothing -/
theorem src_flat_inverted (n nW : ℕ) (plev : ℕ → ℝ) (b t mix : ℝ) (hb : 0 ≤ b) (ht : 0 ≤ t) (l wn : ℕ) (hl : l < n) :
    srcFlat n nW plev b t mix l wn = srcFlat n nW plev t b mix l wn := by
  rw [srcFlat_eq n nW plev b t mix l wn hl, srcFlat_eq n nW plev t b mix l wn hl]
  exact flat_inverted n plev b t mix hb ht l

/-! ### Lee haze -/

/-- `sigma_xsec[l, wn]` of the regenerated `LeeMieContribution.prepare_each` -/
noncomputable def srcLee (n nW : ℕ) (P : ℕ → ℝ) (b t pi a q mix : ℝ) (wnv : ℕ → ℝ) (l wn : ℕ) : ℝ :=
  Gen.SrcC19.lee_prepare_each wnv nW P (a := a) (bottomRaw := b) (c0p2 := 1 / 5) (c1em06 := 1 / 1000000)
    (mix := mix) (nL := n) (pi := pi) (powf := powr) (q := q) (topRaw := t) l wn

theorem srcLee_eq (n nW : ℕ) (P : ℕ → ℝ) (b t pi a q mix : ℝ) (wnv : ℕ → ℝ) (l wn : ℕ) :
    srcLee n nW P b t pi a q mix wnv l wn = leeSigma n P b t pi a q mix wnv l wn :=
  src_lee_prepare_each n nW P wnv b t pi a q mix l wn

/-- **lee_outside_zero**, about the regenerated `LeeMieContribution.prepare_each`: no extinction in layers whose
    pressure is outside `[top, bottom]` -/
theorem src_lee_outside_zero (n nW : ℕ) (P : ℕ → ℝ) (b t pi a q mix : ℝ) (wnv : ℕ → ℝ) (l wn : ℕ)
    (h : P l < leeBound t (P (n - 1)) ∨ leeBound b (P 0) < P l) :
    srcLee n nW P b t pi a q mix wnv l wn = 0 := by
  rw [srcLee_eq]; exact lee_outside_zero n P b t pi a q mix wnv l wn h

/-- **lee_inside_law**, about the regenerated `LeeMieContribution.prepare_each`: inside the window the opacity is the
    declared law `Qext·π·a²` times the mixing ratio, the same in every layer; the law is positive -/
theorem src_lee_inside_law (n nW : ℕ) (P : ℕ → ℝ) (b t pi a q mix : ℝ) (wnv : ℕ → ℝ) (l wn : ℕ)
    (h1 : leeBound t (P (n - 1)) ≤ P l) (h2 : P l ≤ leeBound b (P 0)) (hpi : 0 < pi) (ha : 0 < a) (hq : 0 ≤ q)
    (hwn : 0 < wnv wn) :
    srcLee n nW P b t pi a q mix wnv l wn = leeLaw pi a q (wnv wn) * mix ∧ 0 < leeLaw pi a q (wnv wn) := by
  rw [srcLee_eq]; exact lee_inside_law n P b t pi a q mix wnv l wn h1 h2 hpi ha hq hwn

/-- **lee_unset_whole**, about the regenerated `LeeMieContribution.prepare_each`: both bounds unset = the whole
    atmosphere (layer pressures decrease with altitude) -/
theorem src_lee_unset_whole (n nW : ℕ) (P : ℕ → ℝ) (hP : ∀ l < n, P (n - 1) ≤ P l ∧ P l ≤ P 0) (b t pi a q mix : ℝ)
    (hb : b < 0) (ht : t < 0) (wnv : ℕ → ℝ) (l wn : ℕ) (hl : l < n) :
    srcLee n nW P b t pi a q mix wnv l wn = leeLaw pi a q (wnv wn) * mix := by
  rw [srcLee_eq]; exact lee_unset_whole n P hP b t pi a q mix hb ht wnv l wn hl

/-! ### optically thick cloud deck: what the tie covers -/

/-- `contrib[l, wn]` of the regenerated `SimpleCloudsContribution.prepare_each`; `inf` stands for `np.inf` -/
noncomputable def srcCloud (nL nW : ℕ) (P : ℕ → ℝ) (p0 inf : ℝ) (l wn : ℕ) : ℝ :=
  Gen.SrcC19.clouds_prepare_each nW P inf nL p0 l wn

theorem srcCloud_eq (nL nW : ℕ) (P : ℕ → ℝ) (p0 inf : ℝ) (l wn : ℕ) :
    srcCloud nL nW P p0 inf l wn = Ext.toCarrier inf (cloudSigma P p0 l) :=
  src_clouds_prepare_each nL nW P p0 inf l wn

/-- every layer at or below the cloud top (`P_l ≥ p0`) is given the opacity `np.inf` at all wavenumbers by the
    regenerated `prepare_each` (the case `cloud_opaque_below` is about) -/
theorem src_cloud_sigma_below (nL nW : ℕ) (P : ℕ → ℝ) (p0 inf : ℝ) (l wn : ℕ) (h : p0 ≤ P l) :
    srcCloud nL nW P p0 inf l wn = inf := by
  rw [srcCloud_eq]; simp [cloudSigma, h, Ext.toCarrier]

/-- layers above the cloud top get opacity 0 from the regenerated `prepare_each`: the cloud adds nothing there (the case
    `cloud_above_untouched` is about) -/
theorem src_cloud_sigma_above (nL nW : ℕ) (P : ℕ → ℝ) (p0 inf : ℝ) (l wn : ℕ) (h : P l < p0) :
    srcCloud nL nW P p0 inf l wn = 0 := by
  rw [srcCloud_eq]; simp [cloudSigma, not_le.2 h, Ext.toCarrier]

end Taurex.C19SrcProps
